import EaselModel.Msafile.PhylipRoundTrip
import EaselModel.Msafile.Stockholm
import EaselModel.Msafile.WriteStockholm
import EaselModel.Msafile.WriteLemmas
import EaselModel.Msafile.StockholmLemmas
import EaselModel.Msafile.StoGrInv
/-! Stockholm / Pfam: reading what `esl_msafile_stockholm_Write` wrote gives the alignment back (C03).

Covered (`StoAnn`): names and aligned rows in one block (Pfam) or in 200-column blocks (Stockholm); comments; `#=GF` parsed
(`ID AC DE AU`, cut-offs) and unparsed; `#=GC` parsed (`SS_cons SA_cons PP_cons RF MM`) and unparsed; `#=GR` `SS SA PP` and
unparsed (hypothesis `grOrderOk` on the order of first mention); `#=GS` `AC DE` and unparsed (hypothesis `gsOrderOk`).  Not
covered: weights (`#=GS … WT`).  The per-sequence array invariants are in `StoGrInv.lean` (the `#=GS` arrays reuse them:
`gsMsa`). -/
namespace EaselModel.Msafile

/-! ## the writer's output for an alignment without annotation -/

/-- a sequence name the Stockholm reader takes as a sequence name: not empty, no blank/tab/NUL, no LF, does not begin
    with `#` nor with `//` -/
def stoNameOk (nm : Bytes) : Prop :=
  nameOk nm ∧ (10 : UInt8) ∉ nm ∧ nm.head? ≠ some 35 ∧ memstrpfx nm bSlash = false

/-- nothing but names and rows -/
structure StoPlain (m : Msa) : Prop where
  hasw : m.hasw = false
  name : m.name = none
  desc : m.desc = none
  acc : m.acc = none
  au : m.au = none
  ssCons : m.ssCons = none
  saCons : m.saCons = none
  ppCons : m.ppCons = none
  rf : m.rf = none
  mm : m.mm = none
  sqacc : m.sqacc = none
  sqdesc : m.sqdesc = none
  ss : m.ss = none
  sa : m.sa = none
  pp : m.pp = none
  cutoff : m.cutoff = []
  comments : m.comments = []
  gf : m.gf = []
  gs : m.gs = []
  gc : m.gc = []
  gr : m.gr = []

/-- the five parsed `#=GC` fields, in the order `stockholm_write` prints them (= the reader's slots `ss_cons sa_cons pp_cons rf mm`) -/
def consF (m : Msa) : List (Option Bytes) := [m.ssCons, m.saCons, m.ppCons, m.rf, m.mm]
def consTag : List Bytes := [bSScons, bSAcons, bPPcons, bRF, bMM]
def consLT : List Nat := [ltGCSSCONS, ltGCSACONS, ltGCPPCONS, ltGCRF, ltGCMM]

/-- a per-column annotation string that survives: one character per column, none of them white space or NUL
    (the reader splits off the text with `esl_memtok` and trims trailing blanks/tabs; a block boundary may fall anywhere) -/
def colTextOk (alen : Nat) (s : Bytes) : Prop := s.length = alen ∧ ∀ c ∈ s, isSpace c = false ∧ c ≠ 0

/-- a `#=GF` one-token value (ID, AC): not empty, no blank/tab/NUL, no LF, does not end in CR -/
def gfTokOk (v : Bytes) : Prop := nameOk v ∧ (10 : UInt8) ∉ v ∧ v.getLast? ≠ some 13

/-- a `#=GF` free-text value (DE, AU, unparsed tags): does not begin with blank/tab, no NUL, no LF, does not end in CR -/
def gfTextOk (v : Bytes) : Prop :=
  (∀ c, v.head? = some c → inDelim blankTab c = false) ∧ (0 : UInt8) ∉ v ∧ (10 : UInt8) ∉ v ∧ v.getLast? ≠ some 13

/-- a comment that survives: does not begin with white space (the reader skips it), no NUL, no LF, no CR at the end, and
    `#` + comment is not taken for a `#=GF/#=GS/#=GC/#=GR` line -/
def comOk (c : Bytes) : Prop :=
  (∀ x, c.head? = some x → isSpace x = false) ∧ (0 : UInt8) ∉ c ∧ (10 : UInt8) ∉ c ∧ c.getLast? ≠ some 13 ∧
  memstrpfx (35 :: c) bGF = false ∧ memstrpfx (35 :: c) bGS = false ∧ memstrpfx (35 :: c) bGC = false ∧
  memstrpfx (35 :: c) bGR = false

/-- an unparsed `#=GF` tag: a token, and none of the tags the reader parses -/
def gfTagOk (t : Bytes) : Prop :=
  nameOk t ∧ (10 : UInt8) ∉ t ∧ t ≠ bID ∧ t ≠ bAC ∧ t ≠ bDE ∧ t ≠ bAU ∧ t ≠ bGA ∧ t ≠ bNC ∧ t ≠ bTC

/-- an unparsed `#=GC` tag: a token, and none of the five tags the reader parses -/
def gcTagOk (t : Bytes) : Prop :=
  nameOk t ∧ (10 : UInt8) ∉ t ∧ t ≠ bSScons ∧ t ≠ bSAcons ∧ t ≠ bPPcons ∧ t ≠ bRF ∧ t ≠ bMM

/-- an unparsed `#=GR` tag: a token, and none of the three tags the reader parses -/
def grTagOk (t : Bytes) : Prop := nameOk t ∧ (10 : UInt8) ∉ t ∧ t ≠ bSS ∧ t ≠ bSA ∧ t ≠ bPP

/-- the reader numbers the unparsed `#=GR` tags in the order it meets them: that is the order of `m.gr` when, wherever a tag
    annotates sequence `i`, every tag in front of it in `m.gr` annotates some sequence `≤ i` -/
def grOrderOk (m : Msa) : Prop :=
  ∀ t, t < m.gr.length → ∀ t', t' < t → ∀ i, i < m.nseq → (grVal m (3 + t) i).isSome = true →
    ∃ i', i' < i + 1 ∧ (grVal m (3 + t') i').isSome = true

/-- the token `printf("%.2f")` prints for the weight of sequence `i` -/
def wtTok (m : Msa) (i : Nat) : Bytes := fmtF2 ((m.wgt.getD i Wgt.unset).toBits)

/-- the weights as an optional array of printed tokens: present iff `eslMSA_HASWGTS`, then one for every sequence -/
def wtRowsM (m : Msa) : OptRows := if m.hasw then some ((List.range m.nseq).map (fun i => some (wtTok m i))) else none

/-- the printed weight is one token that `esl_mem_IsReal` accepts, survives on a line, and is not read back by `strtod` as
    -1.0, the reader's "weight not set" marker -/
def wgtTokOk (t : Bytes) : Prop :=
  nameOk t ∧ memIsReal t = true ∧ (10 : UInt8) ∉ t ∧ t.getLast? ≠ some 13 ∧ strtodIsMinusOne t = false

/-- the `#=GS` annotation seen as `#=GR`-like arrays of kinds 0 (`WT`: the weights), 1 (`AC`: `sqacc`), 2 (`DE`: `sqdesc`),
    `3 + t` (unparsed tag `t`) -/
def gsMsa (m : Msa) : Msa := { names := m.names, ss := wtRowsM m, sa := m.sqacc, pp := m.sqdesc, gr := m.gs }

/-- an unparsed `#=GS` tag: a token, and none of the three tags the reader parses -/
def gsTagOk (t : Bytes) : Prop := nameOk t ∧ (10 : UInt8) ∉ t ∧ t ≠ bWT ∧ t ≠ bAC ∧ t ≠ bDE

/-- `#=GS` lines stand in front of the first block, kind by kind, and the reader numbers the sequences in the order it meets
    their names: that is the order of the rows when the first kind that is written at all is written for EVERY sequence
    (known finding C03:stockholm:first-mention-order: without this the alignment comes back in another order) -/
def gsOrderOk (m : Msa) : Prop :=
  ∀ q, q < 3 + m.gs.length → (∀ q', q' < q → ∀ i', i' < m.nseq → grVal (gsMsa m) q' i' = none) →
    (∃ i, i < m.nseq ∧ (grVal (gsMsa m) q i).isSome = true) → ∀ i, i < m.nseq → (grVal (gsMsa m) q i).isSome = true

/-- `msa->alloc_ncomment` after `n` calls of `esl_msa_AddComment` -/
def comAllocN : Nat → Nat
  | 0 => 0
  | n + 1 =>
    let a0 := if comAllocN n == 0 then 16 else comAllocN n
    if n == a0 then a0 * 2 else a0

/-- `msa->alloc_ngf` after `n` calls of `esl_msa_AddGF` -/
def gfAllocN : Nat → Nat
  | 0 => 0
  | n + 1 => if n == gfAllocN n then (if gfAllocN n == 0 then 16 else gfAllocN n * 2) else gfAllocN n

/-- a binary32 pattern that is neither an infinity nor a NaN -/
def finiteF32 (b : UInt32) : Prop := (b.toNat / 2 ^ 23) % 256 ≠ 255

/-- what a cut-off pair does to `cutset` -/
def cutPair (cs : List Bool) (i1 i2 : Nat) (c1 c2 : Option UInt32) : List Bool :=
  match c1, c2 with
  | some _, some _ => (cs.set i1 true).set i2 true
  | some _, none => cs.set i1 true
  | none, _ => cs

/-- `msa->cutset[]` after the reader has seen the `#=GF GA/NC/TC` lines the writer prints (a second threshold is printed
    only together with the first) -/
def cutsetOf (m : Msa) : List Bool :=
  let cut := fun (k : Nat) => m.cutoff.getD k none
  cutPair (cutPair (cutPair (List.replicate 6 false) 2 3 (cut 2) (cut 3)) 4 5 (cut 4) (cut 5)) 0 1 (cut 0) (cut 1)

/-- which `cutset` flags come back: a first threshold when it is set, a second one only together with the first -/
theorem cutsetOf_eq (m : Msa) :
    cutsetOf m = [(m.cutoff.getD 0 none).isSome, (m.cutoff.getD 0 none).isSome && (m.cutoff.getD 1 none).isSome,
                  (m.cutoff.getD 2 none).isSome, (m.cutoff.getD 2 none).isSome && (m.cutoff.getD 3 none).isSome,
                  (m.cutoff.getD 4 none).isSome, (m.cutoff.getD 4 none).isSome && (m.cutoff.getD 5 none).isSome] := by
  show cutPair (cutPair (cutPair (List.replicate 6 false) 2 3 (m.cutoff.getD 2 none) (m.cutoff.getD 3 none)) 4 5
    (m.cutoff.getD 4 none) (m.cutoff.getD 5 none)) 0 1 (m.cutoff.getD 0 none) (m.cutoff.getD 1 none) = _
  generalize m.cutoff.getD 0 none = o0
  generalize m.cutoff.getD 1 none = o1
  generalize m.cutoff.getD 2 none = o2
  generalize m.cutoff.getD 3 none = o3
  generalize m.cutoff.getD 4 none = o4
  generalize m.cutoff.getD 5 none = o5
  cases o0 <;> cases o1 <;> cases o2 <;> cases o3 <;> cases o4 <;> cases o5 <;> rfl

/-- the annotation covered here: the five `#=GC` consensus lines and the whole header section (comment lines, `#=GF ID, AC,
    DE, AU`, the cut-offs `GA NC TC` with finite values, unparsed `#=GF` tags), unparsed `#=GC` tags (pairwise distinct
    tokens other than the five parsed tags, one non-blank character per column); per sequence: `#=GR SS SA PP` and unparsed
    `#=GR` tags (`per_ok … gr_col`), `#=GS AC DE` and unparsed `#=GS` tags (`gs_tag_ok … gs_val`); no weights.
    An optional array that is present has one entry per sequence and at least one of them set (an all-absent array is not
    written, hence not read back) -/
structure StoAnn (m : Msa) : Prop where
  gs_tag_ok : ∀ t ∈ m.gs, gsTagOk t.1 ∧ t.2.length = m.nseq
  gs_nodup : (m.gs.map (·.1)).Nodup
  gs_ne : ∀ t, t < m.gs.length → ∃ i, i < m.nseq ∧ (grVal (gsMsa m) (3 + t) i).isSome = true
  gs_per_ok : ∀ q, q < 3 → ∀ l, (perF (gsMsa m)).getD q none = some l →
    l.length = m.nseq ∧ ∃ i, i < m.nseq ∧ (l.getD i none).isSome = true
  gs_order : gsOrderOk m
  gs_val : ∀ q i s, grVal (gsMsa m) q i = some s →
    (q = 0 → wgtTokOk s) ∧ (q = 1 → gfTokOk s) ∧ (2 ≤ q → gfTextOk s) ∧ (3 ≤ q → s ≠ [])
  per_ok : ∀ q, q < 3 → ∀ l, (perF m).getD q none = some l → l.length = m.nseq ∧ ∃ i, i < m.nseq ∧ (l.getD i none).isSome = true
  gr_tag_ok : ∀ t ∈ m.gr, grTagOk t.1 ∧ t.2.length = m.nseq
  gr_nodup : (m.gr.map (·.1)).Nodup
  gr_ne : ∀ t, t < m.gr.length → ∃ i, i < m.nseq ∧ (grVal m (3 + t) i).isSome = true
  gr_order : grOrderOk m
  gr_col : ∀ q i s, grVal m q i = some s → colTextOk m.alen s
  gc_ok : ∀ t ∈ m.gc, gcTagOk t.1 ∧ colTextOk m.alen t.2
  gc_nodup : (m.gc.map (·.1)).Nodup
  cons_ok : ∀ k s, (consF m).getD k none = some s → colTextOk m.alen s
  name_ok : ∀ v, m.name = some v → gfTokOk v
  acc_ok : ∀ v, m.acc = some v → gfTokOk v
  desc_ok : ∀ v, m.desc = some v → gfTextOk v
  au_ok : ∀ v, m.au = some v → gfTextOk v
  cut_ok : ∀ k v, m.cutoff.getD k none = some v → finiteF32 v
  com_ok : ∀ c ∈ m.comments, comOk c
  gf_ok : ∀ t ∈ m.gf, gfTagOk t.1 ∧ gfTextOk t.2

theorem grVal_plain {m : Msa} (h1 : m.ss = none) (h2 : m.sa = none) (h3 : m.pp = none) (h4 : m.gr = []) (q i : Nat) :
    grVal m q i = none := by
  unfold grVal perF
  rw [h1, h2, h3, h4]
  split
  · rename_i hq
    rcases q with _ | _ | _ | _
    · rfl
    · rfl
    · rfl
    · omega
  · rfl

theorem StoPlain.ann {m : Msa} (h : StoPlain m) : StoAnn m :=
  { gs_tag_ok := fun t ht => by rw [h.gs] at ht; cases ht
    gs_nodup := by rw [h.gs]; exact List.nodup_nil
    gs_ne := fun t ht => by rw [h.gs] at ht; simp at ht
    gs_per_ok := fun q hq l hl => by
      unfold perF gsMsa wtRowsM at hl; simp only [h.sqacc, h.sqdesc, h.hasw, Bool.false_eq_true, if_false] at hl
      rcases q with _ | _ | _ | _
      · cases hl
      · cases hl
      · cases hl
      · omega
    gs_order := fun q _ _ hex => by
      obtain ⟨i, _, hv⟩ := hex
      rw [grVal_plain (m := gsMsa m) (by show wtRowsM m = none; unfold wtRowsM; rw [h.hasw]; rfl) h.sqacc h.sqdesc h.gs] at hv; cases hv
    gs_val := fun q i s hs => by rw [grVal_plain (m := gsMsa m) (by show wtRowsM m = none; unfold wtRowsM; rw [h.hasw]; rfl) h.sqacc h.sqdesc h.gs] at hs; cases hs
    per_ok := fun q hq l hl => by
      unfold perF at hl; rw [h.ss, h.sa, h.pp] at hl
      rcases q with _ | _ | _ | _
      · cases hl
      · cases hl
      · cases hl
      · omega
    gr_tag_ok := fun t ht => by rw [h.gr] at ht; cases ht
    gr_nodup := by rw [h.gr]; exact List.nodup_nil
    gr_ne := fun t ht => by rw [h.gr] at ht; simp at ht
    gr_order := fun t ht => by rw [h.gr] at ht; simp at ht
    gr_col := fun q i s hs => by rw [grVal_plain h.ss h.sa h.pp h.gr] at hs; cases hs
    gc_ok := fun t ht => by rw [h.gc] at ht; cases ht
    gc_nodup := by rw [h.gc]; exact List.nodup_nil
    cons_ok := fun k s hs => by
      have : (consF m).getD k none = none := by
        unfold consF; rw [h.ssCons, h.saCons, h.ppCons, h.rf, h.mm]
        rcases k with _ | _ | _ | _ | _ | _ <;> rfl
      rw [this] at hs; cases hs
    name_ok := fun v hv => by rw [h.name] at hv; cases hv
    acc_ok := fun v hv => by rw [h.acc] at hv; cases hv
    desc_ok := fun v hv => by rw [h.desc] at hv; cases hv
    au_ok := fun v hv => by rw [h.au] at hv; cases hv
    cut_ok := fun k v hv => by rw [h.cutoff] at hv; simp at hv
    com_ok := fun c hc => by rw [h.comments] at hc; cases hc
    gf_ok := fun t ht => by rw [h.gf] at ht; cases ht }

/-- an alignment (names, rows, and the annotation `StoAnn` admits) that Stockholm/Pfam carry and `stockholm_write` +
    `esl_msafile_stockholm_Read` (configuration `cfg`) preserve.  `txt i` is the text the writer prints for row `i`, `enc`
    sends a written symbol to the stored symbol. -/
structure StoWritable (abc : Option Abc) (cfg : Cfg) (enc : UInt8 → UInt8) (txt : Nat → Bytes) (m : Msa) : Prop where
  ann : StoAnn m
  n1 : 1 ≤ m.nseq
  alen1 : 1 ≤ m.alen
  nodup : m.names.Nodup
  name_ok : ∀ i, i < m.nseq → stoNameOk (m.names.getD i [])
  txt_len : ∀ i, i < m.nseq → (txt i).length = m.alen
  chunk_eq : ∀ i, i < m.nseq → ∀ pos n, seqChunk abc m i pos n = ((txt i).drop pos).take n
  txt_sym : ∀ i, i < m.nseq → ∀ t ∈ txt i, mapByte cfg.inmap t = (.ok, some (enc t)) ∧ isSpace t = false ∧ t ≠ 0
  row_enc : ∀ i, i < m.nseq → m.stored i = mkRow cfg.digital ((txt i).map enc)

/-- the width the writer pads a sequence name to in a sequence line (`margin - uniqwidth - 1`) -/
def stoPadW (m : Msa) : Int := ((stoLayout m).margin : Int) - (stoLayout m).uniqwidth - 1

/-- one sequence line: `"%-*s %s\n"` -/
def stoSqLine (abc : Option Abc) (m : Msa) (pos w i : Nat) : Bytes :=
  padRight (stoPadW m) (m.names.getD i []) ++ [32] ++ seqChunk abc m i pos w

/-- width of the block that starts at column `pos` -/
def stoW (m : Msa) (cpl pos : Nat) : Nat := if m.alen - pos > cpl then cpl else m.alen - pos

/-- the `#=GC` line of slot `g` in the block `[pos, pos+w)`, if the slot holds a string -/
def gcSlotLines (m : Msa) (pos w g : Nat) : List Bytes :=
  optLine ((consF m).getD g none) (fun s => gcLine (stoLayout m) (consTag.getD g []) s pos w)

/-- the unparsed `#=GC` lines of the block `[pos, pos+w)` -/
def gcOtherLines (m : Msa) (pos w : Nat) : List Bytes := m.gc.map (fun t => gcLine (stoLayout m) t.1 t.2 pos w)

/-- the tag of `#=GR` kind `q` -/
def grTagOf (m : Msa) (q : Nat) : Bytes := if q < 3 then [bSS, bSA, bPP].getD q [] else (m.gr.getD (q - 3) ([], [])).1

/-- the `#=GR SS / SA / PP` line (kind `q < 3`) of sequence `i` in the block `[pos, pos+w)`, if the sequence carries it -/
def grSlotLines (m : Msa) (pos w i q : Nat) : List Bytes :=
  optLine (grVal m q i) (fun s => grLine (stoLayout m) m i (grTagOf m q) s pos w)

/-- the unparsed `#=GR` lines of sequence `i` for the tags in `l` -/
def grOtherLines (m : Msa) (pos w i : Nat) (l : List (Bytes × List (Option Bytes))) : List Bytes :=
  l.flatMap (fun t => optLine (t.2.getD i none) (fun s => grLine (stoLayout m) m i t.1 s pos w))

/-- the lines of sequence `i` in a block: the row, `#=GR SS SA PP`, the unparsed `#=GR` tags -/
def stoSeqL (abc : Option Abc) (m : Msa) (pos w i : Nat) : List Bytes :=
  [stoSqLine abc m pos w i] ++ (grSlotLines m pos w i 0 ++ (grSlotLines m pos w i 1 ++ (grSlotLines m pos w i 2
    ++ grOtherLines m pos w i m.gr)))

/-- one block: the blank line in front of a later block, the rows with their `#=GR` lines, the `#=GC` lines -/
def stoAnnBlock (abc : Option Abc) (m : Msa) (cpl pos : Nat) : List Bytes :=
  (if pos > 0 then [[]] else []) ++ ((List.range m.nseq).flatMap (stoSeqL abc m pos (stoW m cpl pos))
    ++ (gcSlotLines m pos (stoW m cpl pos) 0 ++ (gcSlotLines m pos (stoW m cpl pos) 1 ++ (gcSlotLines m pos (stoW m cpl pos) 2
    ++ (gcSlotLines m pos (stoW m cpl pos) 3 ++ (gcSlotLines m pos (stoW m cpl pos) 4 ++ gcOtherLines m pos (stoW m cpl pos)))))))

/-- the tag of `#=GS` kind `q` (0 = `AC`, 1 = `DE`) -/
def gsTagOf (m : Msa) (q : Nat) : Bytes :=
  if q = 0 then bWT else if q = 1 then bAC else if q < 3 then bDE else (m.gs.getD (q - 3) ([], [])).1

/-- one `#=GS <seqname> AC|DE <value>` line -/
def gsLine (m : Msa) (q i : Nat) (v : Bytes) : Bytes :=
  sGS ++ padRight (stoLayout m).maxname (m.names.getD i []) ++ ([32] ++ gsTagOf m q ++ [32]) ++ v

/-- the lines of `#=GS` kind `q` -/
def stoGsSec (m : Msa) (q : Nat) : List Bytes := (List.range m.nseq).flatMap (fun i => optLine (grVal (gsMsa m) q i) (gsLine m q i))

/-- the `#=GS` section: the accessions, then the descriptions, then the unparsed tags, each kind followed by a blank line -/
def stoGsL (m : Msa) : List Bytes :=
  (if m.hasw then stoGsSec m 0 ++ [[]] else []) ++ ((if m.sqacc.isSome then stoGsSec m 1 ++ [[]] else [])
    ++ ((if m.sqdesc.isSome then stoGsSec m 2 ++ [[]] else [])
    ++ (List.range m.gs.length).flatMap (fun t => stoGsSec m (3 + t) ++ [[]])))

/-- a value without line feed is printed on one line -/
theorem strtokLF_acc (v acc : Bytes) (h : (10 : UInt8) ∉ v) :
    strtokLF v acc = if (acc.isEmpty && v.isEmpty) then [] else [acc.reverse ++ v] := by
  induction v generalizing acc with
  | nil => unfold strtokLF; cases acc <;> simp
  | cons c r ih =>
    have hc : (c == 10) = false := by
      simp only [beq_eq_false_iff_ne, ne_eq]; intro e; exact h (by simp [e])
    unfold strtokLF
    simp only [hc, Bool.false_eq_true, if_false]
    rw [ih (c :: acc) (fun hm => h (List.mem_cons_of_mem _ hm))]
    simp

theorem strtokLF_single (v : Bytes) (h : (10 : UInt8) ∉ v) (hne : v ≠ []) : strtokLF v [] = [v] := by
  rw [strtokLF_acc v [] h]
  cases v with
  | nil => exact absurd rfl hne
  | cons _ _ => simp

theorem sGS_eq : sGS = bGS ++ [32] := by decide +kernel

theorem sto_flatMap_congr {α β : Type} (l : List α) (f g : α → List β) (h : ∀ a ∈ l, f a = g a) : l.flatMap f = l.flatMap g := by
  induction l with
  | nil => rfl
  | cons a t ih =>
    simp only [List.flatMap_cons]
    rw [h a (by simp), ih (fun b hb => h b (by simp [hb]))]

theorem gsTagOf_other (m : Msa) (t : Nat) : gsTagOf m (3 + t) = (m.gs.getD t ([], [])).1 := by
  unfold gsTagOf; rw [if_neg (by omega), if_neg (by omega), if_neg (by omega), Nat.add_sub_cancel_left]

theorem gsVal_acc' (m : Msa) (i : Nat) : grVal (gsMsa m) 1 i = optRow m.sqacc i := rfl
theorem gsVal_desc' (m : Msa) (i : Nat) : grVal (gsMsa m) 2 i = optRow m.sqdesc i := rfl
theorem gsVal_wt' (m : Msa) (i : Nat) : grVal (gsMsa m) 0 i = optRow (wtRowsM m) i := rfl

theorem gsVal_wt (m : Msa) (hw : m.hasw = true) (i : Nat) (hi : i < m.nseq) : grVal (gsMsa m) 0 i = some (wtTok m i) := by
  rw [gsVal_wt']; unfold wtRowsM optRow
  simp [hw, List.getD_eq_getElem?_getD, hi]

theorem gsVal_wt_none (m : Msa) (hw : m.hasw = false) (i : Nat) : grVal (gsMsa m) 0 i = none := by
  rw [gsVal_wt']; unfold wtRowsM; rw [hw]; rfl

theorem flatMap_single {α β : Type} (f : α → β) (l : List α) : l.flatMap (fun x => [f x]) = l.map f := by
  induction l with
  | nil => rfl
  | cons a l ih => simp [List.flatMap_cons, ih]

/-- the header section: `# STOCKHOLM 1.0`, the comments (and the blank line behind them), `#=GF ID/AC/DE/AU`, the cut-offs
    `GA/NC/TC`, the unparsed `#=GF` tags, the blank line -/
def stoAnnHead (m : Msa) : List Bytes :=
  [bSto10] ++ (m.comments.map (fun c => 35 :: c) ++ ((if m.comments.isEmpty then [] else [[]])
    ++ (optLine m.name (gfLine (stoLayout m) bID) ++ (optLine m.acc (gfLine (stoLayout m) bAC)
    ++ (optLine m.desc (gfLine (stoLayout m) bDE) ++ (optLine m.au (gfLine (stoLayout m) bAU)
    ++ (cutLines (stoLayout m) bGA (m.cutoff.getD 2 none) (m.cutoff.getD 3 none)
    ++ (cutLines (stoLayout m) bNC (m.cutoff.getD 4 none) (m.cutoff.getD 5 none)
    ++ (cutLines (stoLayout m) bTC (m.cutoff.getD 0 none) (m.cutoff.getD 1 none)
    ++ (m.gf.map (fun t => gfLine (stoLayout m) t.1 t.2) ++ [[]]))))))))))

theorem stoBody_ann (pfam : Bool) (abc : Option Abc) (m : Msa) (hp : StoAnn m) (hn : m.names.Nodup) :
    stockholmBodyLines pfam abc m
      = stoAnnHead m ++ stoGsL m ++ (blockStarts m.alen (stoCpl pfam m)).flatMap (stoAnnBlock abc m (stoCpl pfam m)) := by
  have hd : hasDupNames m.names = false := (hasDupNames_iff m.names).mpr hn
  have hu : (stoLayout m).uniq = false := by unfold stoLayout; simp [hd]
  have huw : (stoLayout m).uniqwidth = 0 := by unfold stoLayout; simp [hd]
  have g1 : str "SS" = bSS := by decide +kernel
  have g2 : str "SA" = bSA := by decide +kernel
  have g3 : str "PP" = bPP := by decide +kernel
  have hseq : ∀ pos acpl, stoSeqLines (stoLayout m) abc m pos acpl = stoSeqL abc m pos acpl := by
    intro pos acpl
    funext i
    unfold stoSeqLines stoSeqL stoSqLine stoName stoPadW grSlotLines grOtherLines
    simp [hu, g1, g2, g3, grVal, grTagOf, perF]
  have e1 : str "SS_cons" = bSScons := by decide +kernel
  have e2 : str "SA_cons" = bSAcons := by decide +kernel
  have e3 : str "PP_cons" = bPPcons := by decide +kernel
  have e4 : str "RF" = bRF := by decide +kernel
  have e5 : str "MM" = bMM := by decide +kernel
  have hblk : stoBlockLines (stoLayout m) abc m (stoCpl pfam m) = stoAnnBlock abc m (stoCpl pfam m) := by
    funext pos
    unfold stoBlockLines stoAnnBlock stoW gcSlotLines gcOtherLines
    simp only [hseq, e1, e2, e3, e4, e5, consF, consTag,
      List.getD_cons_zero, List.getD_cons_succ, List.append_assoc]
  have f1 : str "ID" = bID := by decide +kernel
  have f2 : str "AC" = bAC := by decide +kernel
  have f3 : str "DE" = bDE := by decide +kernel
  have f4 : str "AU" = bAU := by decide +kernel
  have f5 : str "# STOCKHOLM 1.0" = bSto10 := by decide +kernel
  have f6 : str "GA" = bGA := by decide +kernel
  have f7 : str "NC" = bNC := by decide +kernel
  have f8 : str "TC" = bTC := by decide +kernel
  have hhead : stoHeadLines (stoLayout m) m = stoAnnHead m := by
    unfold stoHeadLines stoAnnHead
    simp only [hu, f1, f2, f3, f4, f5, f6, f7, f8]
    cases m.name <;> cases m.acc <;> cases m.desc <;> cases m.au <;> simp [optLine]
  have k1 : str " AC " = [32] ++ bAC ++ [32] := by decide +kernel
  have k2 : str " DE " = [32] ++ bDE ++ [32] := by decide +kernel
  have hgs : stoGSLines (stoLayout m) m = stoGsL m := by
    have k0 : str " WT " = [32] ++ bWT ++ [32] := by decide +kernel
    unfold stoGSLines stoGsL stoGsSec
    simp only [List.append_assoc]
    congr 1
    · cases hw : m.hasw with
      | false => rfl
      | true =>
        simp only [if_true]
        congr 1
        rw [← flatMap_single]
        apply sto_flatMap_congr
        intro i hi
        rw [gsVal_wt m hw i (List.mem_range.mp hi)]
        simp [optLine, gsLine, stoName, hu, k0, gsTagOf, wtTok]
    · congr 1
      · cases hacc : m.sqacc with
        | none => rfl
        | some la =>
          simp only [Option.isSome_some, if_true]
          congr 1
          apply sto_flatMap_congr
          intro i _
          have e : grVal (gsMsa m) 1 i = optRow (some la) i := by rw [gsVal_acc', hacc]
          rw [e]
          cases optRow (some la) i with
          | none => rfl
          | some v => simp [optLine, gsLine, stoName, hu, k1, gsTagOf]
      · congr 1
        · cases hdesc : m.sqdesc with
          | none => rfl
          | some ld =>
            simp only [Option.isSome_some, if_true]
            congr 1
            apply sto_flatMap_congr
            intro i _
            have e : grVal (gsMsa m) 2 i = optRow (some ld) i := by rw [gsVal_desc', hdesc]
            rw [e]
            cases optRow (some ld) i with
            | none => rfl
            | some v => simp [optLine, gsLine, stoName, hu, k2, gsTagOf]
        · apply sto_flatMap_congr
          intro t _
          congr 1
          apply sto_flatMap_congr
          intro j _
          have e : grVal (gsMsa m) (3 + t) j = (m.gs.getD t ([], [])).2.getD j none := grVal_other (gsMsa m) t j
          rw [e]
          cases hv : (m.gs.getD t ([], [])).2.getD j none with
          | none => rfl
          | some v =>
            have hval := hp.gs_val (3 + t) j v (by rw [e]; exact hv)
            have h10 : (10 : UInt8) ∉ v := (hval.2.2.1 (by omega)).2.2.1
            simp only [strtokLF_single v h10 (hval.2.2.2 (by omega))]
            simp [optLine, gsLine, stoName, hu, padRight, gsTagOf_other]
  unfold stockholmBodyLines
  simp only [hhead, hgs, hblk]

/-! ## the shape of a sequence line -/

/-- the blanks between the name and the row -/
def SpOk (sp : Bytes) : Prop := sp ≠ [] ∧ ∀ c ∈ sp, c = 32

/-- a piece of a row as written -/
def ChunkOk (c : Bytes) : Prop := c ≠ [] ∧ ∀ t ∈ c, isSpace t = false ∧ t ≠ 0

theorem sp_ne (c x : UInt8) (hx : isSpace x = true) (h : isSpace c = false) : c ≠ x := by
  intro e; subst e; rw [h] at hx; cases hx

theorem chunk_notDelim (t : UInt8) (h : isSpace t = false ∧ t ≠ 0) : inDelim blankTab t = false := by
  have h32 := sp_ne t 32 (by decide) h.1
  have h9 := sp_ne t 9 (by decide) h.1
  simp [inDelim, blankTab, h.2, h32, h9]

theorem memtok_sqline (nm sp c : Bytes) (hn : nameOk nm) (hs : SpOk sp) (hc : ChunkOk c) :
    memtok (nm ++ sp ++ c) blankTab = some (nm, c) := by
  obtain ⟨hne, hnd⟩ := hn
  obtain ⟨hsne, hs32⟩ := hs
  obtain ⟨hcne, hcd⟩ := hc
  have hspd : ∀ x ∈ sp, inDelim blankTab x = true := fun x hx => by rw [hs32 x hx]; decide
  have hcd' : ∀ x ∈ c, inDelim blankTab x = false := fun x hx => chunk_notDelim x (hcd x hx)
  cases nm with
  | nil => exact absurd rfl hne
  | cons a t =>
    cases sp with
    | nil => exact absurd rfl hsne
    | cons s sp' =>
      have hs' : inDelim blankTab s = true := hspd s (by simp)
      have ha := hnd a (by simp)
      rw [List.append_assoc]
      have h1 : ((a :: t) ++ ((s :: sp') ++ c)).dropWhile (inDelim blankTab) = (a :: t) ++ ((s :: sp') ++ c) := by
        simp [List.dropWhile, ha]
      have h2 : ((a :: t) ++ ((s :: sp') ++ c)).takeWhile (fun x => !inDelim blankTab x) = a :: t := by
        rw [List.takeWhile_append_of_pos (fun x hx => by simp [hnd x hx])]
        simp [List.takeWhile, hs']
      have h3 : ((a :: t) ++ ((s :: sp') ++ c)).dropWhile (fun x => !inDelim blankTab x) = (s :: sp') ++ c := by
        rw [List.dropWhile_append_of_pos (fun x hx => by simp [hnd x hx])]
        simp [List.dropWhile, hs']
      have h4 : ((s :: sp') ++ c).dropWhile (inDelim blankTab) = c := by
        rw [List.dropWhile_append_of_pos hspd]
        exact dropWhile_none _ _ hcd'
      unfold memtok
      simp only [h1, h2, h3, h4]
      simp

theorem rtrim_chunk (c : Bytes) (hc : ChunkOk c) : rtrim c = c := by
  unfold rtrim
  rw [dropWhile_none _ _ (fun x hx => chunk_notDelim x (hc.2 x (List.mem_reverse.mp hx)))]
  simp

theorem stoStep_sqline (cfg : Cfg) (st : StoSt) (nm sp c : Bytes) (hl : st.lead = false) (hn : stoNameOk nm) (hs : SpOk sp) :
    stoStep cfg st (nm ++ sp ++ c) = liftE (parseSq cfg st (nm ++ sp ++ c)) := by
  obtain ⟨⟨hne, hnd⟩, _, h35, hsl⟩ := hn
  obtain ⟨hsne, hs32⟩ := hs
  cases nm with
  | nil => exact absurd rfl hne
  | cons a t =>
    cases sp with
    | nil => exact absurd rfl hsne
    | cons s sp' =>
      have hs' : s = 32 := hs32 s (by simp)
      subst hs'
      have ha := hnd a (by simp)
      simp [inDelim, blankTab] at ha
      have ha32 : (a == 32 || a == 9) = false := by simp [ha]
      have hdw : ((a :: t) ++ (32 :: sp') ++ c).dropWhile (fun c => c == 32 || c == 9) = (a :: t) ++ (32 :: sp') ++ c := by
        simp [List.dropWhile, ha32]
      have h35' : a ≠ 35 := by simpa using h35
      have hsl' : memstrpfx ((a :: t) ++ (32 :: sp') ++ c) bSlash = false := by
        cases t with
        | nil => simp [memstrpfx, bSlash, List.isPrefixOf]
        | cons b t' => simpa [memstrpfx, bSlash, List.isPrefixOf] using hsl
      unfold stoStep
      simp only [hl, Bool.false_eq_true, if_false, hdw]
      simp only [List.cons_append, List.append_assoc] at hsl'
      simp [hsl', h35']

/-! ## the reader's state while it reads such a file -/

/-- progress through the `#=GS` section: the kinds `< sec` (0 = `AC`, 1 = `DE`, `3 + t` = unparsed tag `t`) are complete, and of
    kind `sec` the lines of the sequences `< i` -/
structure GsSt where
  sec : Nat
  i : Nat

/-- nothing of the `#=GS` section read -/
def GsSt.none : GsSt := ⟨0, 0⟩

/-- every `#=GS` value -/
def gsVals (m : Msa) : List Bytes :=
  (List.range (3 + m.gs.length)).flatMap (fun q => (List.range m.nseq).filterMap (fun i => grVal (gsMsa m) q i))

/-- a width no `#=GS` value reaches -/
def gsW (m : Msa) : Nat := 1 + (gsVals m).foldl (fun a s => a + s.length) 0

/-- the `#=GS` line of (sequence `i'`, kind `q'`) has been read -/
def dnGs (m : Msa) (G : GsSt) (i' q' : Nat) : Bool :=
  decide (i' < m.nseq) && (decide (q' < G.sec) || (decide (q' = G.sec) && decide (i' < G.i)))

/-- the weight array seen as an optional array of tokens: -1.0 (unset) is "no entry" -/
def wgtRows (m : Msa) (hasw : Bool) (wgt : List Wgt) : OptRows :=
  if hasw then some ((List.range wgt.length).map (fun i => if wgt.getD i Wgt.unset == Wgt.unset then none else some (wtTok m i)))
  else none

/-- the `#=GS` part of the reader's state: the values read so far sit in `sqacc`, `sqdesc`, `gs` (the length arrays of
    `GrInv` have no counterpart here: any will do) -/
structure GsInv (m : Msa) (G : GsSt) (n : Nat) (hasw : Bool) (wgt : List Wgt) (sqacc sqdesc : OptRows) (gsTags : List Bytes)
    (gs : List (List (Option Bytes))) : Prop where
  w0 : hasw = false → wgt = List.replicate n Wgt.unset
  wl : wgt.length = n
  wv : ∀ i, i < n → wgt[i]? = some Wgt.unset ∨ wgt[i]? = some (Wgt.val 0)
  inv : ∃ PL L, GrInv (gsMsa m) 0 (gsW m) (dnGs m G) n [wgtRows m hasw wgt, sqacc, sqdesc] PL gsTags gs L

theorem wgtRows_pad (m : Msa) (hasw : Bool) (wgt : List Wgt) (k : Nat) :
    wgtRows m hasw (wgt ++ List.replicate k Wgt.unset) = (wgtRows m hasw wgt).map (· ++ List.replicate k none) := by
  unfold wgtRows
  cases hasw with
  | false => rfl
  | true =>
    simp only [if_true, Option.map_some]
    congr 1
    apply List.ext_getElem?
    intro i
    by_cases hi : i < wgt.length
    · rw [List.getElem?_append_left (by simpa using hi)]
      simp only [List.getElem?_map, List.getElem?_range (show i < (wgt ++ List.replicate k Wgt.unset).length by simp; omega),
        List.getElem?_range hi, Option.map_some, List.getD_eq_getElem?_getD, List.getElem?_append_left hi]
    · by_cases hi2 : i < wgt.length + k
      · rw [List.getElem?_append_right (by simp; omega)]
        simp only [List.length_map, List.length_range, List.getElem?_map,
          List.getElem?_range (show i < (wgt ++ List.replicate k Wgt.unset).length by simp; omega), Option.map_some,
          List.getD_eq_getElem?_getD, List.getElem?_append_right (Nat.le_of_not_lt hi), List.getElem?_replicate]
        simp [show i - wgt.length < k by omega]
      · rw [List.getElem?_eq_none (by simp; omega), List.getElem?_eq_none (by simp; omega)]

/-- the annotation part of the reader's state -/
structure Ann where
  lead : Bool
  hasw : Bool
  wgt : List Wgt
  name : Option Bytes
  desc : Option Bytes
  acc : Option Bytes
  au : Option Bytes
  cons : List (Option Bytes)
  consLen : List Nat
  sqacc : OptRows
  sqdesc : OptRows
  per : List OptRows
  cutset : List Bool
  comments : List Bytes
  gf : List (Bytes × Bytes)
  gsTags : List Bytes
  gs : List (List (Option Bytes))
  gcTags : List Bytes
  gc : List (Option Bytes)
  ogcLen : List Nat
  grTags : List Bytes
  gr : List (List (Option Bytes))

def annOf (st : StoSt) : Ann :=
  { lead := st.lead, hasw := st.hasw, wgt := st.wgt, name := st.name, desc := st.desc, acc := st.acc, au := st.au, cons := st.cons,
    consLen := st.consLen, sqacc := st.sqacc, sqdesc := st.sqdesc, per := st.per, cutset := st.cutset, comments := st.comments,
    gf := st.gf, gsTags := st.gsTags, gs := st.gs, gcTags := st.gcTags, gc := st.gc, ogcLen := st.ogcLen,
    grTags := st.grTags, gr := st.gr }

/-- number of unparsed `#=GC` tags the reader knows: in the first block the ones whose line has been read, later all -/
def ngcOf (m : Msa) (pos g : Nat) : Nat := if pos = 0 then g - 5 else m.gc.length

/-- the `g`-th `#=GC` line (`g ≥ 5`: unparsed tag `g - 5`) has been dealt with in the block `[pos, pos+w)` -/
def gcCol (pos w g k : Nat) : Nat := if k + 5 < g then pos + w else pos

/-- the unparsed `#=GC` part of the reader's state (`gc_tag`, `gc`, `ogc_len`): `n` tags are known, tag `k` has been read up
    to column `col k` -/
structure GcInv (m : Msa) (n : Nat) (col : Nat → Nat) (tags : List Bytes) (gc : List (Option Bytes)) (lens : List Nat) : Prop where
  tags : tags = (m.gc.map (·.1)).take n
  gc_len : gc.length = n
  lens_len : lens.length = n
  le : n ≤ m.gc.length
  gc : ∀ k, k < n → gc[k]? = some (txtVal (m.gc.getD k ([], [])).2 (col k))
  lens : ∀ k, k < n → lens[k]? = some (col k)

theorem GcInv.congr {m : Msa} {n n' : Nat} {col col' : Nat → Nat} {T : List Bytes} {C : List (Option Bytes)} {L : List Nat}
    (h : GcInv m n col T C L) (hn : n' = n) (hc : ∀ k, k < n → col' k = col k) : GcInv m n' col' T C L := by
  subst hn
  exact { h with gc := fun k hk => by rw [hc k hk]; exact h.gc k hk, lens := fun k hk => by rw [hc k hk]; exact h.lens k hk }

theorem GcInv.register {m : Msa} {n : Nat} {col : Nat → Nat} {T : List Bytes} {C : List (Option Bytes)} {L : List Nat}
    (h : GcInv m n col T C L) (hn : n < m.gc.length) (h0 : col n = 0) :
    GcInv m (n + 1) col (T ++ [(m.gc.getD n ([], [])).1]) (C ++ [none]) (L ++ [0]) :=
  { tags := by
      rw [h.tags, List.take_succ]
      simp [List.getD_eq_getElem?_getD, List.getElem?_eq_getElem hn]
    gc_len := by simp [h.gc_len]
    lens_len := by simp [h.lens_len]
    le := hn
    gc := fun k hk => by
      by_cases e : k < n
      · rw [List.getElem?_append_left (by rw [h.gc_len]; exact e)]; exact h.gc k e
      · have : k = n := by omega
        subst this
        rw [List.getElem?_append_right (by rw [h.gc_len]; exact Nat.le_refl _), h.gc_len, h0]
        simp [txtVal]
    lens := fun k hk => by
      by_cases e : k < n
      · rw [List.getElem?_append_left (by rw [h.lens_len]; exact e)]; exact h.lens k e
      · have : k = n := by omega
        subst this
        rw [List.getElem?_append_right (by rw [h.lens_len]; exact Nat.le_refl _), h.lens_len, h0]
        simp }

theorem GcInv.set {m : Msa} {n : Nat} {col : Nat → Nat} {T : List Bytes} {C : List (Option Bytes)} {L : List Nat}
    (h : GcInv m n col T C L) (t p' : Nat) (ht : t < n) :
    GcInv m n (fun k => if k = t then p' else col k) T (C.set t (txtVal (m.gc.getD t ([], [])).2 p')) (L.set t p') :=
  { tags := h.tags
    gc_len := by rw [List.length_set]; exact h.gc_len
    lens_len := by rw [List.length_set]; exact h.lens_len
    le := h.le
    gc := fun k hk => by
      rw [List.getElem?_set]
      by_cases e : t = k
      · subst e; simp [h.gc_len, ht]
      · have e' : ¬ (k = t) := fun x => e x.symm
        simp only [e, e', if_false]; exact h.gc k hk
    lens := fun k hk => by
      rw [List.getElem?_set]
      by_cases e : t = k
      · subst e; simp [h.lens_len, ht]
      · have e' : ¬ (k = t) := fun x => e x.symm
        simp only [e, e', if_false]; exact h.lens k hk }

/-- as long as the five parsed slots are being dealt with nothing changes -/
theorem GcInv.low {m : Msa} {pos w g : Nat} {T : List Bytes} {C : List (Option Bytes)} {L : List Nat}
    (h : GcInv m (ngcOf m pos g) (gcCol pos w g) T C L) (hg : g < 5) : GcInv m (ngcOf m pos (g + 1)) (gcCol pos w (g + 1)) T C L :=
  h.congr (by unfold ngcOf; split <;> omega) (fun k _ => by unfold gcCol; simp only [show ¬ (k + 5 < g + 1) by omega, show ¬ (k + 5 < g) by omega])

/-- the end of a block -/
theorem GcInv.endBlock {m : Msa} {pos w w' : Nat} {T : List Bytes} {C : List (Option Bytes)} {L : List Nat}
    (h : GcInv m (ngcOf m pos (5 + m.gc.length)) (gcCol pos w (5 + m.gc.length)) T C L) (hw : 1 ≤ w) :
    GcInv m (ngcOf m (pos + w) 0) (gcCol (pos + w) w' 0) T C L :=
  h.congr (by unfold ngcOf; rw [if_neg (by omega)]; split <;> omega)
    (fun k hk => by
      have : k < m.gc.length := by unfold ngcOf at hk; split at hk <;> omega
      unfold gcCol; simp only [show ¬ (k + 5 < 0) by omega, show k + 5 < 5 + m.gc.length by omega, if_true, if_false])

theorem GcInv.final {m : Msa} {T : List Bytes} {C : List (Option Bytes)} {L : List Nat}
    (h : GcInv m m.gc.length (fun _ => m.alen) T C L) (ha : 1 ≤ m.alen) (hok : ∀ t ∈ m.gc, t.2.length = m.alen) :
    T.zip (C.map (·.getD [])) = m.gc := by
  have h1 : T = m.gc.map (·.1) := by rw [h.tags, ← List.length_map (f := (·.1)), List.take_length]
  have h2 : C.map (·.getD []) = m.gc.map (·.2) := by
    apply List.ext_getElem?
    intro i
    by_cases hi : i < m.gc.length
    · rw [List.getElem?_map, h.gc i hi, List.getElem?_map, List.getElem?_eq_getElem hi]
      have hl := hok m.gc[i] (List.getElem_mem hi)
      have h0 : ¬ (m.alen = 0) := by omega
      simp only [txtVal, h0, if_false, Option.map_some, Option.getD_some, List.getD_eq_getElem?_getD, List.getElem?_eq_getElem hi]
      rw [← hl, List.take_length]
    · rw [List.getElem?_eq_none (by rw [List.length_map, h.gc_len]; omega), List.getElem?_eq_none (by rw [List.length_map]; omega)]
  rw [h1, h2, List.zip_map']
  conv => rhs; rw [← List.map_id m.gc]
  rfl

/-- slot `k` of the consensus 5-array once `p` columns of it have been read -/
def consVal (m : Msa) (p k : Nat) : Option Bytes :=
  match (consF m).getD k none with
  | some s => if p = 0 then none else some (s.take p)
  | none => none

/-- the annotation part of the state inside the block `[pos, pos+w)`, when the first `g` of the five `#=GC` slots have
    been dealt with: the header section is complete, slots `< g` have reached column `pos + w`, the others column `pos`;
    the rest is untouched -/
structure Frozen (m : Msa) (G : GsSt) (pos w g : Nat) (a : Ann) : Prop where
  lead : a.lead = false
  name : a.name = m.name
  desc : a.desc = m.desc
  acc : a.acc = m.acc
  au : a.au = m.au
  cons_len : a.cons.length = 5
  consLen_len : a.consLen.length = 5
  cons : ∀ k, k < 5 → a.cons[k]? = some (consVal m (if k < g then pos + w else pos) k)
  consLen : ∀ k, k < 5 → ((consF m).getD k none).isSome = true → a.consLen[k]? = some (if k < g then pos + w else pos)
  cutset : a.cutset = cutsetOf m
  comments : a.comments = m.comments
  gf : a.gf = m.gf
  gcI : GcInv m (ngcOf m pos g) (gcCol pos w g) a.gcTags a.gc a.ogcLen

/-- line types of the `#=GC` lines of a block -/
def gcLT (m : Msa) : List Nat := ((consF m).zip consLT).filterMap (fun p => p.1.map (fun _ => p.2))

/-- line type of `#=GR` kind `q` -/
def grLT (q : Nat) : Nat := if q = 0 then ltGRSS else if q = 1 then ltGRSA else if q = 2 then ltGRPP else ltGROTHER

/-- what sequence `i` may contribute to a block: its row, then one line per `#=GR` kind it carries -/
def thingsOf (m : Msa) (i : Nat) : List (Option (Nat × Option Nat)) :=
  some (ltSQ, some i) :: (List.range (nslots m)).map (fun q => (grVal m q i).map (fun _ => (grLT q, some i)))

/-- the lines of sequence `i` in a block: (line type, sequence index) -/
def seqSpec (m : Msa) (i : Nat) : List (Nat × Option Nat) := (thingsOf m i).filterMap id

/-- number of block lines of the sequences `< j` -/
def base (m : Msa) (j : Nat) : Nat := ((List.range j).flatMap (seqSpec m)).length

/-- number of block lines of sequence `i` up to and including `#=GR` kind `q - 1` -/
def preLen (m : Msa) (i q : Nat) : Nat := (((thingsOf m i).take (1 + q)).filterMap id).length

/-- number of sequence and `#=GR` lines of a block -/
def nsl (m : Msa) : Nat := base m m.nseq

/-- the lines of a block: (line type, sequence index) -/
def blockSpec (m : Msa) : List (Nat × Option Nat) :=
  (List.range m.nseq).flatMap (seqSpec m) ++ ((gcLT m).map (fun lt => (lt, none)) ++ m.gc.map (fun _ => (ltGCOTHER, none)))

/-- the line (sequence `i`, kind `q`) of the current block has been read when `j` rows and `q0` kinds behind the last row are done -/
def dnOf (j q0 i q : Nat) : Bool := decide (i + 1 < j) || (decide (i + 1 = j) && decide (q < q0))

/-- number of `#=GC` slots of a block: the five parsed ones and the unparsed tags -/
def gEnd (m : Msa) : Nat := 5 + m.gc.length

/-- number of `#=GC` lines among the first `g` slots -/
def cntSet (m : Msa) (g : Nat) : Nat := ((((consF m).zip consLT).take g).filterMap (fun p => p.1.map (fun _ => p.2))).length

/-- inside the block that starts at column `pos` and is `w` columns wide: `jn` names are known, `jb` block lines are
    recorded, `j` sequence lines and `k` lines in all of this block have been read, `g` `#=GC` slots are done -/
structure InBlkQ (cfg : Cfg) (enc : UInt8 → UInt8) (txt : Nat → Bytes) (m : Msa) (G : GsSt) (pos w jn jb j q k g : Nat) (st : StoSt) : Prop where
  fr : Frozen m G pos w g (annOf st)
  gsI : GsInv m G st.sqalloc st.hasw st.wgt st.sqacc st.sqdesc st.gsTags st.gs
  grI : GrInv m pos w (dnOf j q) st.sqalloc st.per st.perLen st.grTags st.gr st.ogrLen
  alen : st.alen = pos
  nblock : st.nblock = 0 ↔ pos = 0
  names : st.names = m.names.take jn
  nseq : st.nseq = st.names.length
  alloc : st.names.length ≤ st.sqalloc
  apos : 0 < st.sqalloc
  rows_len : st.rows.length = st.sqalloc
  rows_done : ∀ i, i < j → st.rows[i]? = some (phyRowAt cfg enc txt (pos + w) i)
  rows_todo : ∀ i, j ≤ i → i < st.sqalloc → st.rows[i]? = some (if i < m.nseq then phyRowAt cfg enc txt pos i else none)
  salloc : st.salloc = st.sqalloc
  sqlen_len : st.sqlen.length = st.sqalloc
  sqlen_done : ∀ i, i < j → st.sqlen[i]? = some (pos + w)
  sqlen_todo : ∀ i, j ≤ i → i < st.sqalloc → st.sqlen[i]? = some (if i < m.nseq then pos else 0)
  bpos : 0 < st.balloc
  blt_len : st.blt.length = st.balloc
  bidx_len : st.bidx.length = st.balloc
  nrec : jb ≤ st.balloc
  blt : ∀ i, i < jb → st.blt[i]? = some ((blockSpec m)[i]?.map (·.1))
  bidx : ∀ i, i < jb → st.bidx[i]? = some ((blockSpec m)[i]?.map (·.2))
  npb : pos ≠ 0 → st.npb = (blockSpec m).length
  bi : st.bi = k
  si : st.si = j ∨ (j = 0 ∧ pos = 0 ∧ st.si ≤ st.nseq)
  nseqB : st.nseqB = j
  alenB : k ≠ 0 → st.alenB = w
  inBlock : st.inBlock = decide (k ≠ 0)

/-- between the lines of two sequences, and in the `#=GC` part, all `#=GR` kinds of the last row are done -/
abbrev InBlk (cfg : Cfg) (enc : UInt8 → UInt8) (txt : Nat → Bytes) (m : Msa) (G : GsSt) (pos w jn jb j k g : Nat) (st : StoSt) : Prop :=
  InBlkQ cfg enc txt m G pos w jn jb j (nslots m) k g st

theorem blockSpec_len (m : Msa) : (blockSpec m).length = nsl m + cntSet m 5 + m.gc.length := by
  simp [blockSpec, gcLT, cntSet, consF, consLT, nsl, base]; omega

theorem base_succ (m : Msa) (j : Nat) : base m (j + 1) = base m j + (seqSpec m j).length := by
  simp [base, List.range_succ, List.flatMap_append]

theorem seqSpec_pos (m : Msa) (i : Nat) : 1 ≤ (seqSpec m i).length := by
  simp [seqSpec, thingsOf, List.filterMap_cons]

theorem base_ge (m : Msa) (j : Nat) : j ≤ base m j := by
  induction j with
  | zero => exact Nat.zero_le _
  | succ j ih => rw [base_succ]; have := seqSpec_pos m j; omega

theorem nsl_ge (m : Msa) : m.nseq ≤ nsl m := base_ge m m.nseq

theorem thingsOf_len (m : Msa) (i : Nat) : (thingsOf m i).length = 1 + nslots m := by
  simp [thingsOf]; omega

theorem preLen_zero (m : Msa) (i : Nat) : preLen m i 0 = 1 := by
  simp [preLen, thingsOf, List.filterMap_cons]

theorem preLen_full (m : Msa) (i : Nat) : preLen m i (nslots m) = (seqSpec m i).length := by
  unfold preLen seqSpec
  rw [← thingsOf_len m i, List.take_length]

theorem blockSpec_seq (m : Msa) (j x : Nat) (hj : j < m.nseq) (hx : x < (seqSpec m j).length) :
    (blockSpec m)[base m j + x]? = (seqSpec m j)[x]? := by
  obtain ⟨d, hd⟩ : ∃ d, m.nseq = j + (d + 1) := ⟨m.nseq - j - 1, by omega⟩
  unfold blockSpec base
  rw [hd, List.range_add, List.flatMap_append, List.range_succ_eq_map, List.map_cons, List.flatMap_cons, Nat.add_zero,
    List.append_assoc, List.append_assoc, List.getElem?_append_right (Nat.le_add_right _ _), Nat.add_sub_cancel_left,
    List.getElem?_append_left hx]

theorem getE_of {α : Type} {l : List α} {i : Nat} {x : α} (h : l[i]? = some x) : getE l i = .ok x := by
  simp [getE, h]

theorem getElem?_append_some {α : Type} (l r : List α) (i : Nat) (x : α) (h : l[i]? = some x) : (l ++ r)[i]? = some x := by
  have hi := lt_length_of_getElem? h
  rw [List.getElem?_append_left hi]; exact h

theorem nodup_not_mem_take (l : List Bytes) (hn : l.Nodup) (j : Nat) (hj : j < l.length) : l.getD j [] ∉ l.take j := by
  intro hmem
  obtain ⟨i, hi, hE⟩ := List.mem_iff_getElem.mp hmem
  rw [List.length_take] at hi
  have hij : i < j := by omega
  rw [List.getElem_take, getD_eq_getElem_of_lt [] hj] at hE
  exact (List.pairwise_iff_getElem.mp hn i j (by omega) hj hij) hE

theorem dnOf_false_of_ge (j q0 i q : Nat) (h : j ≤ i) : dnOf j q0 i q = false := by
  unfold dnOf; simp; omega

theorem grVal_lt (m : Msa) (q i : Nat) (h : (grVal m q i).isSome = true) : q < nslots m := by
  unfold grVal at h; unfold nslots
  split at h
  · omega
  · by_cases e : q - 3 < m.gr.length
    · omega
    · have e0 : m.gr.getD (q - 3) ([], []) = ([], []) := by
        rw [List.getD_eq_getElem?_getD, List.getElem?_eq_none (by omega)]; rfl
      rw [e0] at h; simp at h

theorem dnOf_row (m : Msa) (j i q : Nat) (hq : q < nslots m) : dnOf (j + 1) 0 i q = dnOf j (nslots m) i q := by
  unfold dnOf; rw [Bool.eq_iff_iff]; simp; omega

theorem dnOf_step (j q i q' : Nat) : dnOf (j + 1) (q + 1) i q' = upd (dnOf (j + 1) q) j q i q' := by
  unfold dnOf upd; rw [Bool.eq_iff_iff]; simp; omega

theorem blockSpec_row (m : Msa) (j : Nat) (hj : j < m.nseq) : (blockSpec m)[base m j]? = some (ltSQ, some j) := by
  have := blockSpec_seq m j 0 hj (seqSpec_pos m j)
  rw [Nat.add_zero] at this
  rw [this]; simp [seqSpec, thingsOf, List.filterMap_cons]

/-- a new name: `stockholm_get_seqidx` stores it as sequence `jn` -/
theorem getSeqIdx_new (cfg : Cfg) (enc : UInt8 → UInt8) (txt : Nat → Bytes) (m : Msa) {G : GsSt} (w jn jb j k g : Nat) (st : StoSt)
    (h : InBlk cfg enc txt m G 0 w jn jb j k g st) (hjn : jn < m.nseq) (hj : j ≤ jn) (hnd : m.names.Nodup)
    (hGd : ∀ i' q', (grVal (gsMsa m) q' i').isSome = true → dnGs m G i' q' = true → i' < jn) :
    ∃ st1, getSeqIdx st (m.names.getD jn []) = .ok (st1, jn) ∧ InBlk cfg enc txt m G 0 w (jn + 1) jb j k g st1 := by
  have hjn' : jn < m.names.length := hjn
  have hlen : st.names.length = jn := by rw [h.names, List.length_take]; omega
  have hnone : st.names.findIdx? (· == m.names.getD jn []) = none := by
    rw [List.findIdx?_eq_none_iff]
    intro x hx
    rw [h.names] at hx
    have := nodup_not_mem_take m.names hnd jn hjn'
    have hne : x ≠ m.names.getD jn [] := fun e => this (e ▸ hx)
    simpa using hne
  have hnames1 : m.names.take jn ++ [m.names.getD jn []] = m.names.take (jn + 1) := by
    rw [List.take_succ]
    simp [List.getD_eq_getElem?_getD, List.getElem?_eq_getElem hjn']
  have hrow0 : ∀ i, phyRowAt cfg enc txt 0 i = none := fun i => by simp [phyRowAt]
  have hfr := h.fr
  unfold getSeqIdx
  rw [hnone]
  simp only [hlen]
  by_cases hge : jn ≥ st.sqalloc
  · simp only [hge, if_true]
    have hsq : (pdExpandSeq (msaExpand st)).sqalloc = 2 * st.sqalloc := rfl
    have hng : ¬ (jn ≥ (pdExpandSeq (msaExpand st)).sqalloc) := by
      rw [hsq]; have := h.alloc; have := h.apos; omega
    simp only [hng, if_false]
    refine ⟨_, rfl, ?_⟩
    have ha := h.alloc
    have hap := h.apos
    exact
      { fr :=
          { lead := hfr.lead, name := hfr.name, desc := hfr.desc, acc := hfr.acc, au := hfr.au,
            cons_len := hfr.cons_len, consLen_len := hfr.consLen_len, cons := hfr.cons, consLen := hfr.consLen
            cutset := hfr.cutset, comments := hfr.comments, gf := hfr.gf
            gcI := hfr.gcI }
        gsI := by
          obtain ⟨PL, L, hI⟩ := h.gsI.inv
          refine ⟨fun e => by
              show st.wgt ++ List.replicate st.sqalloc Wgt.unset = List.replicate (2 * st.sqalloc) Wgt.unset
              rw [h.gsI.w0 e, Nat.two_mul]; simp,
            by show (st.wgt ++ List.replicate st.sqalloc Wgt.unset).length = 2 * st.sqalloc
               rw [List.length_append, h.gsI.wl]; simp; omega,
            fun i hi => by
              show (st.wgt ++ List.replicate st.sqalloc Wgt.unset)[i]? = _ ∨ (st.wgt ++ List.replicate st.sqalloc Wgt.unset)[i]? = _
              by_cases e : i < st.sqalloc
              · rw [List.getElem?_append_left (by rw [h.gsI.wl]; exact e)]; exact h.gsI.wv i e
              · have hi' : i < 2 * st.sqalloc := hi
                rw [List.getElem?_append_right (by rw [h.gsI.wl]; omega), List.getElem?_replicate, if_pos (by rw [h.gsI.wl]; omega)]
                exact Or.inl rfl,
            PL.map (Option.map (· ++ List.replicate st.sqalloc 0)), L.map (· ++ List.replicate st.sqalloc 0), ?_⟩
          have hc : ∀ i' q', (grVal (gsMsa m) q' i').isSome = true → (dnGs m G i' q' && decide (i' < jn)) = dnGs m G i' q' := by
            intro i' q' hv
            cases hd : dnGs m G i' q' with
            | false => rfl
            | true => simp [hGd i' q' hv hd]
          have h1 := (hI.congr (dn' := fun i' q' => dnGs m G i' q' && decide (i' < jn)) hc).expand st.sqalloc
            (fun i' q' hi => by simp; intro _; omega)
          have h2 := h1.congr (dn' := dnGs m G) (fun i' q' hv => (hc i' q' hv).symm)
          simp only [pdExpandSeq, msaExpand, Nat.two_mul, wgtRows_pad]
          exact h2
        grI := by
          have hk : st.sqalloc + st.sqalloc - st.salloc = st.sqalloc := by rw [h.salloc]; omega
          have := h.grI.expand st.sqalloc (fun i q hi => dnOf_false_of_ge j (nslots m) i q (by omega))
          simp only [pdExpandSeq, msaExpand, Nat.two_mul]
          rw [hk]
          exact this
        alen := h.alen, nblock := h.nblock
        names := by show st.names ++ [_] = _; rw [h.names, hnames1]
        nseq := by show st.nseq + 1 = (st.names ++ [_]).length; rw [h.nseq]; simp
        alloc := by show (st.names ++ [_]).length ≤ 2 * st.sqalloc; simp; omega
        apos := by show 0 < 2 * st.sqalloc; omega
        rows_len := by show (st.rows ++ List.replicate st.sqalloc none).length = 2 * st.sqalloc; simp [h.rows_len]; omega
        rows_done := fun i hi => by
          show (st.rows ++ List.replicate st.sqalloc none)[i]? = _
          exact getElem?_append_some _ _ _ _ (h.rows_done i hi)
        rows_todo := fun i hi hi2 => by
          show (st.rows ++ List.replicate st.sqalloc none)[i]? = _
          by_cases hlt : i < st.sqalloc
          · exact getElem?_append_some _ _ _ _ (h.rows_todo i hi hlt)
          · have hi2' : i < 2 * st.sqalloc := hi2
            rw [List.getElem?_append_right (by rw [h.rows_len]; omega), List.getElem?_replicate]
            simp only [hrow0, ite_self]
            rw [if_pos (by rw [h.rows_len]; omega)]
        salloc := rfl
        sqlen_len := by
          show (st.sqlen ++ List.replicate (2 * st.sqalloc - st.salloc) 0).length = 2 * st.sqalloc
          simp [h.sqlen_len, h.salloc]; omega
        sqlen_done := fun i hi => by
          show (st.sqlen ++ List.replicate (2 * st.sqalloc - st.salloc) 0)[i]? = _
          exact getElem?_append_some _ _ _ _ (h.sqlen_done i hi)
        sqlen_todo := fun i hi hi2 => by
          show (st.sqlen ++ List.replicate (2 * st.sqalloc - st.salloc) 0)[i]? = _
          by_cases hlt : i < st.sqalloc
          · exact getElem?_append_some _ _ _ _ (h.sqlen_todo i hi hlt)
          · have hi2' : i < 2 * st.sqalloc := hi2
            rw [List.getElem?_append_right (by rw [h.sqlen_len]; omega), List.getElem?_replicate]
            simp only [ite_self]
            rw [if_pos (by rw [h.sqlen_len, h.salloc]; omega)]
        bpos := h.bpos, blt_len := h.blt_len, bidx_len := h.bidx_len, nrec := h.nrec, blt := h.blt, bidx := h.bidx
        npb := h.npb, bi := h.bi
        si := h.si.imp id (fun ⟨a, b, c⟩ => ⟨a, b, by show st.si ≤ st.nseq + 1; omega⟩)
        nseqB := h.nseqB, alenB := h.alenB, inBlock := h.inBlock }
  · simp only [hge, if_false]
    refine ⟨_, rfl, ?_⟩
    exact
      { fr := hfr
        gsI := h.gsI
        grI := h.grI
        alen := h.alen, nblock := h.nblock
        names := by show st.names ++ [_] = _; rw [h.names, hnames1]
        nseq := by show st.nseq + 1 = (st.names ++ [_]).length; rw [h.nseq]; simp
        alloc := by show (st.names ++ [_]).length ≤ st.sqalloc; simp; omega
        apos := h.apos, rows_len := h.rows_len, rows_done := h.rows_done, rows_todo := h.rows_todo
        salloc := h.salloc, sqlen_len := h.sqlen_len, sqlen_done := h.sqlen_done, sqlen_todo := h.sqlen_todo
        bpos := h.bpos, blt_len := h.blt_len, bidx_len := h.bidx_len, nrec := h.nrec, blt := h.blt, bidx := h.bidx
        npb := h.npb, bi := h.bi
        si := h.si.imp id (fun ⟨a, b, c⟩ => ⟨a, b, by show st.si ≤ st.nseq + 1; omega⟩)
        nseqB := h.nseqB, alenB := h.alenB, inBlock := h.inBlock }

theorem set_rec {α : Type} (l : List α) (j : Nat) (v : α) (f : Nat → α) (hj : j < l.length)
    (h : ∀ i, i < j → l[i]? = some (f i)) (hv : v = f j) : ∀ i, i < j + 1 → (l.set j v)[i]? = some (f i) := by
  intro i hi
  rw [List.getElem?_set]
  by_cases e : j = i
  · subst e; simp [hj, hv]
  · simp only [e, if_false]; exact h i (by omega)

/-- first block: the line is recorded as line `j` of the block -/
theorem recordLine_new (cfg : Cfg) (enc : UInt8 → UInt8) (txt : Nat → Bytes) (m : Msa) {G : GsSt} {q : Nat} (pos w jn jq j g : Nat) (st : StoSt)
    (lt : Nat) (bx : Option Nat) (hspec : (blockSpec m)[j]? = some (lt, bx))
    (h : InBlkQ cfg enc txt m G pos w jn j jq q j g st) :
    ∃ st2, recordLine st lt bx = .ok st2 ∧ InBlkQ cfg enc txt m G pos w jn (j + 1) jq q j g st2 := by
  have hfr := h.fr
  have hbi := h.bi
  have hnr := h.nrec
  have hbp := h.bpos
  unfold recordLine
  by_cases hb : st.bi = st.balloc
  · have hb' : (st.bi == st.balloc) = true := by simp [hb]
    simp only [hb', if_true]
    have hbi1 : (pdExpandBlock st).bi = j := hbi
    have hl1 : j < (pdExpandBlock st).blt.length := by
      show j < (st.blt ++ List.replicate st.balloc none).length
      simp [h.blt_len]; omega
    have hl2 : j < (pdExpandBlock st).bidx.length := by
      show j < (st.bidx ++ List.replicate st.balloc none).length
      simp [h.bidx_len]; omega
    rw [hbi1, setE_ok _ hl1, setE_ok _ hl2]
    refine ⟨_, rfl, ?_⟩
    exact
      { fr := hfr
        gsI := h.gsI
        grI := h.grI
        alen := h.alen, nblock := h.nblock, names := h.names, nseq := h.nseq, alloc := h.alloc
        apos := h.apos, rows_len := h.rows_len, rows_done := h.rows_done, rows_todo := h.rows_todo
        salloc := h.salloc, sqlen_len := h.sqlen_len, sqlen_done := h.sqlen_done, sqlen_todo := h.sqlen_todo
        bpos := by show 0 < st.balloc * 2; omega
        blt_len := by
          show ((st.blt ++ List.replicate st.balloc none).set j _).length = st.balloc * 2
          simp [h.blt_len]; omega
        bidx_len := by
          show ((st.bidx ++ List.replicate st.balloc none).set j _).length = st.balloc * 2
          simp [h.bidx_len]; omega
        nrec := by show j + 1 ≤ st.balloc * 2; omega
        blt := set_rec _ j _ (fun i => (blockSpec m)[i]?.map (·.1)) hl1 (fun i hi => getElem?_append_some _ _ _ _ (h.blt i hi))
          (by simp [hspec])
        bidx := set_rec _ j _ (fun i => (blockSpec m)[i]?.map (·.2)) hl2 (fun i hi => getElem?_append_some _ _ _ _ (h.bidx i hi))
          (by simp [hspec])
        npb := h.npb, bi := rfl, si := h.si, nseqB := h.nseqB, alenB := h.alenB, inBlock := h.inBlock }
  · have hb' : (st.bi == st.balloc) = false := by simp [hb]
    simp only [hb', Bool.false_eq_true, if_false]
    have hl1 : j < st.blt.length := by rw [h.blt_len]; omega
    have hl2 : j < st.bidx.length := by rw [h.bidx_len]; omega
    rw [hbi, setE_ok _ hl1, setE_ok _ hl2]
    refine ⟨_, rfl, ?_⟩
    exact
      { fr := hfr
        gsI := h.gsI
        grI := h.grI
        alen := h.alen, nblock := h.nblock, names := h.names, nseq := h.nseq, alloc := h.alloc
        apos := h.apos, rows_len := h.rows_len, rows_done := h.rows_done, rows_todo := h.rows_todo
        salloc := h.salloc, sqlen_len := h.sqlen_len, sqlen_done := h.sqlen_done, sqlen_todo := h.sqlen_todo
        bpos := h.bpos
        blt_len := by show (st.blt.set j _).length = st.balloc; simp [h.blt_len]
        bidx_len := by show (st.bidx.set j _).length = st.balloc; simp [h.bidx_len]
        nrec := by show j + 1 ≤ st.balloc; omega
        blt := set_rec _ j _ (fun i => (blockSpec m)[i]?.map (·.1)) hl1 h.blt (by simp [hspec])
        bidx := set_rec _ j _ (fun i => (blockSpec m)[i]?.map (·.2)) hl2 h.bidx (by simp [hspec])
        npb := h.npb, bi := rfl, si := h.si, nseqB := h.nseqB, alenB := h.alenB, inBlock := h.inBlock }

theorem findIdx?_nodup_self : ∀ (l : List Bytes), l.Nodup → ∀ i, i < l.length → l.findIdx? (· == l.getD i []) = some i
  | [], _, i, hi => by simp at hi
  | a :: t, _, 0, _ => by simp [List.findIdx?_cons]
  | a :: t, hn, i + 1, hi => by
    have hn' := List.nodup_cons.mp hn
    have hi' : i < t.length := by simpa using hi
    have hmem : t.getD i [] ∈ t := by rw [getD_eq_getElem_of_lt [] hi']; exact List.getElem_mem hi'
    have hne : (a == t.getD i []) = false := by
      simp only [beq_eq_false_iff_ne, ne_eq]; intro e; exact hn'.1 (e ▸ hmem)
    simp only [List.getD_cons_succ, List.findIdx?_cons, hne, Bool.false_eq_true, if_false]
    rw [findIdx?_nodup_self t hn'.2 i hi']; rfl

theorem findIdx?_take_none (l : List Bytes) (hn : l.Nodup) (j : Nat) (hj : j < l.length) :
    (l.take j).findIdx? (· == l.getD j []) = none := by
  rw [List.findIdx?_eq_none_iff]
  intro x hx
  have := nodup_not_mem_take l hn j hj
  have hne : x ≠ l.getD j [] := fun e => this (e ▸ hx)
  simpa using hne

/-- names known when `j` rows of the first block have been read, `jn0` of them from the `#=GS` section -/
def jnA (jn0 j : Nat) : Nat := if j ≤ jn0 then jn0 else j

theorem getSeqIdx_found (st : StoSt) (name : Bytes) (hnd : st.names.Nodup) (k : Nat) (hk : st.names[k]? = some name) :
    getSeqIdx st name = .ok (st, k) := by
  have hkl := lt_length_of_getElem? hk
  have e : name = st.names.getD k [] := by rw [List.getD_eq_getElem?_getD, hk]; rfl
  unfold getSeqIdx
  rw [e, findIdx?_nodup_self _ hnd k hkl]

theorem sqSeqIdx_known (st : StoSt) (name : Bytes) (k : Nat) (hn : st.nseq = st.names.length) (ha : st.names.length ≤ st.sqalloc)
    (hnd : st.names.Nodup) (hk : st.names[k]? = some name) : sqSeqIdx st name = .ok (st, k) := by
  have hf := getSeqIdx_found st name hnd k hk
  unfold sqSeqIdx
  by_cases hsi : st.si < st.nseq
  · have hsq : st.si < st.sqalloc := by omega
    simp only [hsi, if_true, nameIs, sqnameAt, hsq]
    by_cases e : st.names[st.si]? = some name
    · have : st.si = k := by
        have h1 := lt_length_of_getElem? e
        have h2 := lt_length_of_getElem? hk
        rw [List.getElem?_eq_getElem h1] at e
        rw [List.getElem?_eq_getElem h2] at hk
        by_cases hne : st.si = k
        · exact hne
        exfalso
        rcases Nat.lt_or_gt_of_ne hne with hlt | hlt
        · exact (List.pairwise_iff_getElem.mp hnd _ _ h1 h2 hlt) (by rw [Option.some.inj e, Option.some.inj hk])
        · exact (List.pairwise_iff_getElem.mp hnd _ _ h2 h1 hlt) (by rw [Option.some.inj e, Option.some.inj hk])
      subst this; simp [e]
    · have e' : (st.names[st.si]? == some name) = false := by simpa using e
      simp only [e', hf]
  · simp only [hsi, if_false, hf]

/-- first block: a sequence line names a new sequence, or one the `#=GS` section has named -/
theorem sqLocate_first (cfg : Cfg) (enc : UInt8 → UInt8) (txt : Nat → Bytes) (m : Msa) {G : GsSt} (w j jn0 : Nat) (st : StoSt)
    (h : InBlk cfg enc txt m G 0 w (jnA jn0 j) (base m j) j (base m j) 0 st) (hj : j < m.nseq) (hnd : m.names.Nodup)
    (hjn0 : jn0 = m.nseq ∨ (jn0 = 0 ∧ ∀ q i, grVal (gsMsa m) q i = none)) :
    ∃ st2, sqLocate st (m.names.getD j []) = .ok (st2, j) ∧
      InBlk cfg enc txt m G 0 w (jnA jn0 (j + 1)) (base m j + 1) j (base m j) 0 st2 := by
  have hnb : st.nblock = 0 := h.nblock.mpr rfl
  rcases hjn0 with e0 | ⟨e0, hno⟩
  · subst e0
    have e1 : jnA m.nseq j = m.nseq := by unfold jnA; rw [if_pos (by omega)]
    have e2 : jnA m.nseq (j + 1) = m.nseq := by unfold jnA; rw [if_pos (by omega)]
    rw [e1] at h; rw [e2]
    have hnames : st.names = m.names := by rw [h.names]; exact List.take_length
    have hk : st.names[j]? = some (m.names.getD j []) := by
      rw [hnames, List.getD_eq_getElem?_getD, List.getElem?_eq_getElem (show j < m.names.length from hj)]; rfl
    have hsq := sqSeqIdx_known st _ j h.nseq h.alloc (by rw [hnames]; exact hnd) hk
    obtain ⟨st2, h2, hI2⟩ := recordLine_new cfg enc txt m 0 w m.nseq j (base m j) 0 st ltSQ (some j) (blockSpec_row m j hj) h
    refine ⟨st2, ?_, hI2⟩
    unfold sqLocate
    simp only [hnb, beq_self_eq_true, if_true, hsq, h2]
  · subst e0
    have e1 : jnA 0 j = j := by unfold jnA; split <;> omega
    have e2 : jnA 0 (j + 1) = j + 1 := by unfold jnA; rw [if_neg (by omega)]
    rw [e1] at h; rw [e2]
    have hlen : st.names.length = j := by rw [h.names, List.length_take]; have : j < m.names.length := hj; omega
    have hsi : ¬ (st.si < st.nseq) := by rw [h.nseq, hlen]; rcases h.si with e | ⟨e, _⟩ <;> omega
    obtain ⟨st1, h1, hI1⟩ := getSeqIdx_new cfg enc txt m w j (base m j) j (base m j) 0 st h hj (Nat.le_refl _) hnd
      (fun i' q' hv _ => by rw [hno] at hv; cases hv)
    obtain ⟨st2, h2, hI2⟩ := recordLine_new cfg enc txt m 0 w (j + 1) j (base m j) 0 st1 ltSQ (some j) (blockSpec_row m j hj) hI1
    refine ⟨st2, ?_, hI2⟩
    unfold sqLocate sqSeqIdx
    simp only [hnb, beq_self_eq_true, if_true, hsi, if_false, h1, h2]

/-- later blocks: the line must be the one recorded for this position -/
theorem sqLocate_later (cfg : Cfg) (enc : UInt8 → UInt8) (txt : Nat → Bytes) (m : Msa) {G : GsSt} (pos w j : Nat) (st : StoSt)
    (h : InBlk cfg enc txt m G pos w m.nseq (blockSpec m).length j (base m j) 0 st) (hj : j < m.nseq) (hpos : pos ≠ 0) :
    sqLocate st (m.names.getD j []) = .ok (st, j) := by
  have hjb : base m j < (blockSpec m).length := lt_length_of_getElem? (blockSpec_row m j hj)
  have hblt := h.blt _ hjb
  have hbidx := h.bidx _ hjb
  rw [blockSpec_row m j hj] at hblt hbidx
  simp only [Option.map_some] at hblt hbidx
  have hnb : (st.nblock == 0) = false := by
    have : st.nblock ≠ 0 := fun e => hpos (h.nblock.mp e)
    simpa using this
  have hnames : st.names = m.names := by rw [h.names]; exact List.take_length
  have hnm : st.names[j]? = some (m.names.getD j []) := by
    rw [hnames, List.getD_eq_getElem?_getD, List.getElem?_eq_getElem (show j < m.names.length from hj)]; rfl
  have hsq : j < st.sqalloc := by have := h.alloc; rw [hnames] at this; have : j < m.names.length := hj; omega
  unfold sqLocate expectLine expectSeq sqnameAt
  have hge : ¬ (st.npb ≤ base m j) := by rw [h.npb hpos]; omega
  simp only [hnb, Bool.false_eq_true, if_false, hge, h.bi, getE_of hblt, getE_of hbidx, hsq, if_true, hnm]
  simp

/-- the rest of `stockholm_parse_sq` once the sequence is located: the piece is appended to row `j` -/
theorem parseSq_after (cfg : Cfg) (enc : UInt8 → UInt8) (txt : Nat → Bytes) (m : Msa) {G : GsSt} (pos w jn jb j k g : Nat) (st st2 : StoSt)
    (p nm c : Bytes) (hm : memtok p blankTab = some (nm, c)) (hc : ChunkOk c) (hloc : sqLocate st nm = .ok (st2, j))
    (h2 : InBlk cfg enc txt m G pos w jn jb j k g st2) (hj : j < jn) (hjn : jn ≤ m.nseq)
    (hcj : c = ((txt j).drop pos).take w) (hw : 1 ≤ w) (hpw : pos + w ≤ m.alen) (htl : (txt j).length = m.alen)
    (hsym : ∀ t ∈ txt j, mapByte cfg.inmap t = (.ok, some (enc t))) :
    ∃ st3, parseSq cfg st p = .ok st3 ∧ InBlkQ cfg enc txt m G pos w jn jb (j + 1) 0 (k + 1) g st3 := by
  have hfr := h2.fr
  have hjs : j < m.nseq := by omega
  have hjl : j < st2.names.length := by
    rw [h2.names, List.length_take]; have : jn ≤ m.names.length := hjn; omega
  have hsq : j < st2.sqalloc := by have := h2.alloc; omega
  have hcl : c.length = w := by rw [hcj, List.length_take, List.length_drop, htl]; omega
  have hcne : c.isEmpty = false := by
    cases c with
    | nil => exact absurd rfl hc.1
    | cons _ _ => rfl
  have hsl : st2.sqlen[j]? = some pos := by
    have := h2.sqlen_todo j (Nat.le_refl _) hsq; simpa [hjs] using this
  have hrw : st2.rows[j]? = some (phyRowAt cfg enc txt pos j) := by
    have := h2.rows_todo j (Nat.le_refl _) hsq; simpa [hjs] using this
  have hrl : rowLen cfg.digital (phyRowAt cfg enc txt pos j) = pos := by
    rw [rowLen_phyRowAt, List.length_take, htl]; omega
  have hcat : (if cfg.digital then dsqcat cfg.inmap (phyRowAt cfg enc txt pos j) c
                else strmapcat cfg.inmap (phyRowAt cfg enc txt pos j) c) = (.ok, phyRowAt cfg enc txt (pos + w) j) := by
    rw [phy_cat_plain cfg enc _ c hc.1 (fun t ht => hsym t (by
      rw [hcj] at ht; exact List.mem_of_mem_drop (List.mem_of_mem_take ht)))]
    rw [curCodes_phyRowAt, phyRowAt_pos _ _ _ _ _ (by omega), hcj, ← List.map_append, ← List.take_add]
  have hrl' : rowLen cfg.digital (phyRowAt cfg enc txt (pos + w) j) = pos + w := by
    rw [rowLen_phyRowAt, List.length_take, htl]; omega
  have hdup : (decide (st2.bi > 0) && (pos == pos + st2.alenB)) = false := by
    rw [h2.bi]
    by_cases hj0 : k = 0
    · simp [hj0]
    · rw [h2.alenB hj0]; have : ¬ (w = 0) := by omega
      simp [this]
  have hwid : (st2.bi != 0 && w != st2.alenB) = false := by
    rw [h2.bi]
    by_cases hj0 : k = 0
    · simp [hj0]
    · rw [h2.alenB hj0]; simp
  have hl1 : j < st2.rows.length := by rw [h2.rows_len]; exact hsq
  have hl2 : j < st2.sqlen.length := by rw [h2.sqlen_len]; exact hsq
  unfold parseSq
  simp only [hm, rtrim_chunk c hc, hcne, Bool.false_eq_true, if_false, hloc, getE_of hsl, h2.alen, hdup, getE_of hrw, hrl,
    bne_self_eq_false, hcat, hrl', hcl, hwid, setE_ok _ hl1, setE_ok _ hl2]
  refine ⟨_, rfl, ?_⟩
  exact
    { fr := hfr
      gsI := h2.gsI
      grI := h2.grI.congr (fun i q hv => dnOf_row m j i q (grVal_lt m q i hv))
      alen := by first | rfl | exact h2.alen
      nblock := h2.nblock, names := h2.names, nseq := h2.nseq, alloc := h2.alloc, apos := h2.apos
      rows_len := by show (st2.rows.set j _).length = _; simp [h2.rows_len]
      rows_done := set_rec _ j _ (fun i => phyRowAt cfg enc txt (pos + w) i) hl1 h2.rows_done rfl
      rows_todo := fun i hi hi2 => by
        show (st2.rows.set j _)[i]? = _
        rw [List.getElem?_set_ne (by omega)]; exact h2.rows_todo i (by omega) hi2
      salloc := h2.salloc
      sqlen_len := by show (st2.sqlen.set j _).length = _; simp [h2.sqlen_len]
      sqlen_done := set_rec _ j _ (fun _ => pos + w) hl2 h2.sqlen_done rfl
      sqlen_todo := fun i hi hi2 => by
        show (st2.sqlen.set j _)[i]? = _
        rw [List.getElem?_set_ne (by omega)]; exact h2.sqlen_todo i (by omega) hi2
      bpos := h2.bpos, blt_len := h2.blt_len, bidx_len := h2.bidx_len, nrec := h2.nrec, blt := h2.blt, bidx := h2.bidx
      npb := h2.npb
      bi := by show st2.bi + 1 = k + 1; rw [h2.bi]
      si := Or.inl rfl
      nseqB := by show st2.nseqB + 1 = j + 1; rw [h2.nseqB]
      alenB := fun _ => by first | rfl | exact hcl
      inBlock := by show true = decide (k + 1 ≠ 0); simp }

/-- the shape of a written sequence line -/
theorem sqline_shape (abc : Option Abc) (cfg : Cfg) (enc : UInt8 → UInt8) (txt : Nat → Bytes) (m : Msa)
    (W : StoWritable abc cfg enc txt m) (pos w j : Nat) (hj : j < m.nseq) (hw : 1 ≤ w) (hpw : pos + w ≤ m.alen) :
    ∃ sp c, stoSqLine abc m pos w j = m.names.getD j [] ++ sp ++ c ∧ SpOk sp ∧ ChunkOk c ∧ c = ((txt j).drop pos).take w := by
  refine ⟨List.replicate ((stoPadW m).natAbs - (m.names.getD j []).length) 32 ++ [32], ((txt j).drop pos).take w,
    ?_, ⟨by simp, ?_⟩, ⟨?_, ?_⟩, rfl⟩
  · simp [stoSqLine, padRight, W.chunk_eq j hj]
  · intro c hc
    rcases List.mem_append.mp hc with hc | hc
    · exact (List.mem_replicate.mp hc).2
    · simpa using hc
  · intro h0
    have : (((txt j).drop pos).take w).length = 0 := by rw [h0]; rfl
    rw [List.length_take, List.length_drop, W.txt_len j hj] at this
    omega
  · intro t ht
    exact (W.txt_sym j hj t (List.mem_of_mem_drop (List.mem_of_mem_take ht))).2

/-- one sequence line of the first block -/
theorem sqline_first (abc : Option Abc) (cfg : Cfg) (enc : UInt8 → UInt8) (txt : Nat → Bytes) (m : Msa)
    (W : StoWritable abc cfg enc txt m) {G : GsSt} (w j jn0 : Nat) (st : StoSt)
    (h : InBlk cfg enc txt m G 0 w (jnA jn0 j) (base m j) j (base m j) 0 st)
    (hj : j < m.nseq) (hw : 1 ≤ w) (hpw : w ≤ m.alen) (hjn0 : jn0 = m.nseq ∨ (jn0 = 0 ∧ ∀ q i, grVal (gsMsa m) q i = none)) :
    ∃ st3, stoStep cfg st (stoSqLine abc m 0 w j) = .inl st3 ∧
      InBlkQ cfg enc txt m G 0 w (jnA jn0 (j + 1)) (base m j + 1) (j + 1) 0 (base m j + 1) 0 st3 := by
  obtain ⟨sp, c, hline, hsp, hc, hcj⟩ := sqline_shape abc cfg enc txt m W 0 w j hj hw (by omega)
  obtain ⟨st2, hloc, h2⟩ := sqLocate_first cfg enc txt m w j jn0 st h hj W.nodup hjn0
  have hn := W.name_ok j hj
  have hA1 : j < jnA jn0 (j + 1) := by unfold jnA; split <;> omega
  have hA2 : jnA jn0 (j + 1) ≤ m.nseq := by
    unfold jnA; rcases hjn0 with e | ⟨e, _⟩ <;> subst e <;> split <;> omega
  obtain ⟨st3, hp, h3⟩ := parseSq_after cfg enc txt m 0 w (jnA jn0 (j + 1)) (base m j + 1) j (base m j) 0 st st2 _ _ c
    (memtok_sqline _ sp c hn.1 hsp hc) hc hloc h2 hA1 hA2 hcj hw (by omega) (W.txt_len j hj)
    (fun t ht => (W.txt_sym j hj t ht).1)
  refine ⟨st3, ?_, h3⟩
  rw [hline, stoStep_sqline cfg st _ sp c h.fr.lead hn hsp, hp]; rfl

/-- one sequence line of a later block -/
theorem sqline_later (abc : Option Abc) (cfg : Cfg) (enc : UInt8 → UInt8) (txt : Nat → Bytes) (m : Msa) {G : GsSt}
    (W : StoWritable abc cfg enc txt m) (pos w j : Nat) (st : StoSt)
    (h : InBlk cfg enc txt m G pos w m.nseq (blockSpec m).length j (base m j) 0 st)
    (hpos : pos ≠ 0) (hj : j < m.nseq) (hw : 1 ≤ w) (hpw : pos + w ≤ m.alen) :
    ∃ st3, stoStep cfg st (stoSqLine abc m pos w j) = .inl st3 ∧
      InBlkQ cfg enc txt m G pos w m.nseq (blockSpec m).length (j + 1) 0 (base m j + 1) 0 st3 := by
  obtain ⟨sp, c, hline, hsp, hc, hcj⟩ := sqline_shape abc cfg enc txt m W pos w j hj hw hpw
  have hloc := sqLocate_later cfg enc txt m pos w j st h hj hpos
  have hn := W.name_ok j hj
  obtain ⟨st3, hp, h3⟩ := parseSq_after cfg enc txt m pos w m.nseq (blockSpec m).length j (base m j) 0 st st _ _ c
    (memtok_sqline _ sp c hn.1 hsp hc) hc hloc h hj (Nat.le_refl _) hcj hw hpw (W.txt_len j hj)
    (fun t ht => (W.txt_sym j hj t ht).1)
  refine ⟨st3, ?_, h3⟩
  rw [hline, stoStep_sqline cfg st _ sp c h.fr.lead hn hsp, hp]; rfl

/-! ## blocks -/

/-- the end-of-block bookkeeping after a complete block -/
theorem endBlock_full (cfg : Cfg) (enc : UInt8 → UInt8) (txt : Nat → Bytes) (m : Msa) {G : GsSt} (pos w w' jn : Nat) (st : StoSt)
    (h : InBlk cfg enc txt m G pos w jn (blockSpec m).length m.nseq (blockSpec m).length (gEnd m) st) (hjn : jn = m.nseq)
    (hn1 : 1 ≤ m.nseq) (hw : 1 ≤ w) :
    ∃ st', endBlock st = .ok st' ∧ InBlk cfg enc txt m G (pos + w) w' m.nseq (blockSpec m).length 0 0 0 st' := by
  subst hjn
  have hfr := h.fr
  have hk0 : (blockSpec m).length ≠ 0 := by rw [blockSpec_len]; have := nsl_ge m; omega
  have hn0 : m.nseq ≠ 0 := by omega
  have hnames : st.names = m.names := by rw [h.names]; exact List.take_length
  have hnl : st.names.length = m.nseq := by rw [hnames]; rfl
  have hnseq : st.nseq = m.nseq := by rw [h.nseq, hnl]
  have hib : st.inBlock = true := by rw [h.inBlock]; simp [hk0]
  unfold endBlock
  have c1 : (st.nblock != 0 && st.nseqB != st.nseq) = false := by rw [h.nseqB, hnseq]; simp
  have c2 : (st.nblock == 0 && decide (st.nseqB < st.nseq)) = false := by rw [h.nseqB, hnseq]; simp
  have c3 : (st.nblock != 0 && st.bi != st.npb) = false := by
    by_cases hp : pos = 0
    · have : st.nblock = 0 := h.nblock.mpr hp
      simp [this]
    · rw [h.bi, h.npb hp]; simp
  simp only [hib, if_true, c1, c2, c3, Bool.false_eq_true, if_false]
  refine ⟨_, rfl, ?_⟩
  exact
    { fr :=
        { lead := hfr.lead, name := hfr.name, desc := hfr.desc, acc := hfr.acc, au := hfr.au,
          cons_len := hfr.cons_len, consLen_len := hfr.consLen_len
          cons := fun k hk => by
            have := hfr.cons k hk; rw [if_pos (show k < gEnd m by unfold gEnd; omega)] at this; rw [if_neg (Nat.not_lt_zero k)]; exact this
          consLen := fun k hk hs => by
            have := hfr.consLen k hk hs; rw [if_pos (show k < gEnd m by unfold gEnd; omega)] at this; rw [if_neg (Nat.not_lt_zero k)]; exact this
          cutset := hfr.cutset, comments := hfr.comments, gf := hfr.gf
          gcI := GcInv.endBlock hfr.gcI hw }
      gsI := h.gsI
      grI := (h.grI.endBlock w' hw (fun i q hi hv => by
          have := grVal_lt m q i hv
          unfold dnOf; simp; omega)).congr (fun i q _ => dnOf_false_of_ge 0 (nslots m) i q (Nat.zero_le _))
      alen := by show st.alen + st.alenB = pos + w; rw [h.alen, h.alenB hk0]
      nblock := by
        show st.nblock + 1 = 0 ↔ pos + w = 0
        constructor <;> intro e <;> omega
      names := h.names
      nseq := by show st.nseqB = st.names.length; rw [h.nseqB, hnl]
      alloc := h.alloc, apos := h.apos, rows_len := h.rows_len
      rows_done := fun i hi => by omega
      rows_todo := fun i _ hi2 => by
        by_cases hi : i < m.nseq
        · rw [if_pos hi]; exact h.rows_done i hi
        · have := h.rows_todo i (by omega) hi2
          rw [if_neg hi] at this ⊢; exact this
      salloc := h.salloc, sqlen_len := h.sqlen_len
      sqlen_done := fun i hi => by omega
      sqlen_todo := fun i _ hi2 => by
        by_cases hi : i < m.nseq
        · rw [if_pos hi]; exact h.sqlen_done i hi
        · have := h.sqlen_todo i (by omega) hi2
          rw [if_neg hi] at this ⊢; exact this
      bpos := h.bpos, blt_len := h.blt_len, bidx_len := h.bidx_len, nrec := h.nrec, blt := h.blt, bidx := h.bidx
      npb := fun _ => h.bi
      bi := rfl, si := Or.inl rfl, nseqB := rfl
      alenB := fun e => absurd rfl e
      inBlock := by show false = decide ((0 : Nat) ≠ 0); simp }

/-! ## `#=GC` lines -/

theorem memtok_tok (nm sp rest : Bytes) (hn : nameOk nm) (hs : SpOk sp)
    (hr : ∀ c, rest.head? = some c → inDelim blankTab c = false) :
    memtok (nm ++ sp ++ rest) blankTab = some (nm, rest) := by
  obtain ⟨hne, hnd⟩ := hn
  obtain ⟨hsne, hs32⟩ := hs
  have hspd : ∀ x ∈ sp, inDelim blankTab x = true := fun x hx => by rw [hs32 x hx]; decide
  cases nm with
  | nil => exact absurd rfl hne
  | cons a t =>
    cases sp with
    | nil => exact absurd rfl hsne
    | cons s sp' =>
      have hs' : inDelim blankTab s = true := hspd s (by simp)
      have ha := hnd a (by simp)
      rw [List.append_assoc]
      have h1 : ((a :: t) ++ ((s :: sp') ++ rest)).dropWhile (inDelim blankTab) = (a :: t) ++ ((s :: sp') ++ rest) := by
        simp [List.dropWhile, ha]
      have h2 : ((a :: t) ++ ((s :: sp') ++ rest)).takeWhile (fun x => !inDelim blankTab x) = a :: t := by
        rw [List.takeWhile_append_of_pos (fun x hx => by simp [hnd x hx])]
        simp [List.takeWhile, hs']
      have h3 : ((a :: t) ++ ((s :: sp') ++ rest)).dropWhile (fun x => !inDelim blankTab x) = (s :: sp') ++ rest := by
        rw [List.dropWhile_append_of_pos (fun x hx => by simp [hnd x hx])]
        simp [List.dropWhile, hs']
      have h4 : ((s :: sp') ++ rest).dropWhile (inDelim blankTab) = rest := by
        rw [List.dropWhile_append_of_pos hspd]
        cases rest with
        | nil => rfl
        | cons c r => simp [List.dropWhile, hr c rfl]
      unfold memtok
      simp only [h1, h2, h3, h4]
      simp

theorem filterMap_idx {α β : Type} (f : α → Option β) (l : List α) : ∀ (g : Nat) (x : α) (y : β), l[g]? = some x → f x = some y →
    (l.filterMap f)[((l.take g).filterMap f).length]? = some y ∧
    ((l.take (g + 1)).filterMap f).length = ((l.take g).filterMap f).length + 1 := by
  induction l with
  | nil => intro g x y hx; simp at hx
  | cons a t ih =>
    intro g x y hx hy
    cases g with
    | zero =>
      simp at hx; subst hx
      simp [List.filterMap_cons, hy]
    | succ g =>
      simp only [List.getElem?_cons_succ] at hx
      obtain ⟨i1, i2⟩ := ih g x y hx hy
      cases hfa : f a with
      | none => simp only [List.take_succ_cons, List.filterMap_cons, hfa]; exact ⟨i1, i2⟩
      | some b =>
        simp only [List.take_succ_cons, List.filterMap_cons, hfa, List.length_cons, List.getElem?_cons_succ]
        exact ⟨i1, by omega⟩

theorem filterMap_skip {α β : Type} (f : α → Option β) (l : List α) : ∀ (g : Nat) (x : α), l[g]? = some x → f x = none →
    ((l.take (g + 1)).filterMap f).length = ((l.take g).filterMap f).length := by
  induction l with
  | nil => intro g x hx; simp at hx
  | cons a t ih =>
    intro g x hx hy
    cases g with
    | zero =>
      simp at hx; subst hx
      simp [List.filterMap_cons, hy]
    | succ g =>
      simp only [List.getElem?_cons_succ] at hx
      have i2 := ih g x hx hy
      cases hfa : f a with
      | none => simp only [List.take_succ_cons, List.filterMap_cons, hfa]; exact i2
      | some b => simp only [List.take_succ_cons, List.filterMap_cons, hfa, List.length_cons]; omega

theorem consZip_get (m : Msa) (g : Nat) (hg : g < 5) :
    ((consF m).zip consLT)[g]? = some ((consF m).getD g none, consLT.getD g 0) := by
  rcases g with _ | _ | _ | _ | _ | _
  · rfl
  · rfl
  · rfl
  · rfl
  · rfl
  · omega

theorem blockSpec_tail (m : Msa) (x : Nat) :
    (blockSpec m)[nsl m + x]? = ((gcLT m).map (fun lt => (lt, none)) ++ m.gc.map (fun _ => (ltGCOTHER, none)))[x]? := by
  unfold blockSpec nsl base
  rw [List.getElem?_append_right (Nat.le_add_right _ _), Nat.add_sub_cancel_left]

/-- slot `g` holds a string: the next `#=GC` line of the block is that slot's -/
theorem blockSpec_gc (m : Msa) (g : Nat) (hg : g < 5) (s : Bytes) (hs : (consF m).getD g none = some s) :
    (blockSpec m)[nsl m + cntSet m g]? = some (consLT.getD g 0, none) ∧ cntSet m (g + 1) = cntSet m g + 1 := by
  have := filterMap_idx (fun p : Option Bytes × Nat => p.1.map (fun _ => p.2)) ((consF m).zip consLT) g _ (consLT.getD g 0)
    (consZip_get m g hg) (by show Option.map _ ((consF m).getD g none) = _; rw [hs]; rfl)
  refine ⟨?_, this.2⟩
  rw [blockSpec_tail]
  have h1 := this.1
  unfold cntSet gcLT
  rw [List.getElem?_append_left (by rw [List.length_map]; exact lt_length_of_getElem? h1), List.getElem?_map, h1]; rfl

theorem cntSet_none (m : Msa) (g : Nat) (hg : g < 5) (hs : (consF m).getD g none = none) : cntSet m (g + 1) = cntSet m g :=
  filterMap_skip (fun p : Option Bytes × Nat => p.1.map (fun _ => p.2)) ((consF m).zip consLT) g _ (consZip_get m g hg)
    (by show Option.map _ ((consF m).getD g none) = _; rw [hs]; rfl)

theorem sGC_eq : sGC = bGC ++ [32] := by decide +kernel

theorem stoStep_gcline (cfg : Cfg) (st : StoSt) (rest : Bytes) (hl : st.lead = false) :
    stoStep cfg st (bGC ++ [32] ++ rest) = liftE (parseGc st (bGC ++ [32] ++ rest)) := by
  unfold stoStep
  simp [hl, bGC, List.dropWhile, memstrpfx, bSlash, bGF, bGS, List.isPrefixOf]

theorem consVal_getD (m : Msa) (p g : Nat) (s : Bytes) (hs : (consF m).getD g none = some s) :
    (consVal m p g).getD [] = s.take p := by
  unfold consVal
  rw [hs]
  by_cases hp : p = 0
  · simp [hp]
  · simp [hp]

theorem consVal_some (m : Msa) (p g : Nat) (s : Bytes) (hs : (consF m).getD g none = some s) (hp : p ≠ 0) :
    consVal m p g = some (s.take p) := by
  unfold consVal; rw [hs]; simp [hp]

theorem consVal_none (m : Msa) (p g : Nat) (hs : (consF m).getD g none = none) : consVal m p g = none := by
  unfold consVal; rw [hs]

/-- the tag of slot `g` is read as the line type of slot `g` -/
theorem consTag_lt (g : Nat) (hg : g < 5) :
    gcLineType (consTag.getD g []) = consLT.getD g 0 ∧ consIdx (consLT.getD g 0) = some g ∧ nameOk (consTag.getD g []) ∧
    (10 : UInt8) ∉ consTag.getD g [] := by
  rcases g with _ | _ | _ | _ | _ | _
  · unfold nameOk; decide +kernel
  · unfold nameOk; decide +kernel
  · unfold nameOk; decide +kernel
  · unfold nameOk; decide +kernel
  · unfold nameOk; decide +kernel
  · omega

/-- first block: the `#=GC` line is recorded as line `k` -/
theorem gcLocate_first (cfg : Cfg) (enc : UInt8 → UInt8) (txt : Nat → Bytes) (m : Msa) {G : GsSt} (w jn jq k g : Nat) (st : StoSt) (lt : Nat)
    (hspec : (blockSpec m)[k]? = some (lt, none)) (h : InBlk cfg enc txt m G 0 w jn k jq k g st) :
    ∃ st1, gcLocate st lt = .ok st1 ∧ InBlk cfg enc txt m G 0 w jn (k + 1) jq k g st1 := by
  have hnb : st.nblock = 0 := h.nblock.mpr rfl
  obtain ⟨st1, h1, hI1⟩ := recordLine_new cfg enc txt m 0 w jn jq k g st lt none hspec h
  refine ⟨st1, ?_, hI1⟩
  unfold gcLocate
  simp [hnb, h1]

/-- later blocks: the `#=GC` line must be the one recorded at this position -/
theorem gcLocate_later (cfg : Cfg) (enc : UInt8 → UInt8) (txt : Nat → Bytes) (m : Msa) {G : GsSt} (pos w jn jq k g : Nat) (st : StoSt) (lt : Nat)
    (hspec : (blockSpec m)[k]? = some (lt, none)) (h : InBlk cfg enc txt m G pos w jn (blockSpec m).length jq k g st) (hpos : pos ≠ 0) :
    gcLocate st lt = .ok st := by
  have hnb : (st.nblock != 0) = true := by
    have : st.nblock ≠ 0 := fun e => hpos (h.nblock.mp e)
    simpa using this
  have hk : k < (blockSpec m).length := lt_length_of_getElem? hspec
  have hblt := h.blt k hk
  rw [hspec] at hblt
  simp only [Option.map_some] at hblt
  have hge : ¬ (st.npb ≤ k) := by rw [h.npb hpos]; omega
  unfold gcLocate expectLine
  simp only [hnb, if_true, h.bi, hge, ge_iff_le, if_false, getE_of hblt]
  simp

/-- the rest of `stockholm_parse_gc` once the line is located: the piece is appended to slot `g` -/
theorem parseGc_after (cfg : Cfg) (enc : UInt8 → UInt8) (txt : Nat → Bytes) (m : Msa) {G : GsSt} (pos w jn jb j k g : Nat) (st st1 : StoSt)
    (p p1 tag c s : Bytes) (hm1 : memtok p blankTab = some (bGC, p1)) (hm2 : memtok p1 blankTab = some (tag, c)) (hc : ChunkOk c)
    (hlt : consIdx (gcLineType tag) = some g) (hloc : gcLocate st (gcLineType tag) = .ok st1)
    (h1 : InBlk cfg enc txt m G pos w jn jb j k g st1) (hg : g < 5) (hs : (consF m).getD g none = some s)
    (hsl : s.length = m.alen) (hs0 : ∀ t ∈ s, t ≠ 0) (hcj : c = (s.drop pos).take w) (hw : 1 ≤ w) (hpw : pos + w ≤ m.alen)
    (hk : k ≠ 0) :
    ∃ st3, parseGc st p = .ok st3 ∧ InBlk cfg enc txt m G pos w jn jb j (k + 1) (g + 1) st3 := by
  have hfr := h1.fr
  have hcl : c.length = w := by rw [hcj, List.length_take, List.length_drop, hsl]; omega
  have hcne : c.isEmpty = false := by
    cases c with
    | nil => exact absurd rfl hc.1
    | cons _ _ => rfl
  have hc0 : c.contains 0 = false := by
    cases hh : c.contains 0 with
    | false => rfl
    | true => exact absurd rfl (hc.2 0 (by simpa using hh)).2
  have hlen : st1.consLen[g]? = some pos := by
    have := hfr.consLen g hg (by rw [hs]; rfl)
    rw [if_neg (Nat.lt_irrefl g)] at this; exact this
  have hcons : st1.cons[g]? = some (consVal m pos g) := by
    have := hfr.cons g hg
    rw [if_neg (Nat.lt_irrefl g)] at this; exact this
  have hcat : strcatE (consVal m pos g) pos c = .ok (consVal m (pos + w) g) := by
    unfold strcatE
    have hl : ((consVal m pos g).getD []).length = pos := by
      rw [consVal_getD m pos g s hs, List.length_take, hsl]; omega
    rw [consVal_some m (pos + w) g s hs (by omega)]
    simp only [hcne, Bool.false_eq_true, if_false, hl, bne_self_eq_false]
    rw [consVal_getD m pos g s hs, hcj, ← List.take_add]
    rw [cstr_id _ (fun x hx => hs0 x (List.mem_of_mem_take hx))]
  have hwid : (st1.bi != 0 && c.length != st1.alenB) = false := by
    rw [h1.alenB hk, hcl]; simp
  have hl1 : g < st1.cons.length := by have := hfr.cons_len; simp only [annOf] at this; omega
  have hl2 : g < st1.consLen.length := by have := hfr.consLen_len; simp only [annOf] at this; omega
  unfold parseGc
  simp only [hm1, hm2, rtrim_chunk c hc, hcne, hc0, hloc, hlt, getE_of hlen, h1.alen, bne_self_eq_false, getE_of hcons, hcat,
    show memstrcmp bGC bGC = true from by decide, Bool.not_true, Bool.false_eq_true, if_false, blockLineDone, hwid]
  refine ⟨_, rfl, ?_⟩
  exact
    { fr :=
        { lead := hfr.lead, name := hfr.name, desc := hfr.desc, acc := hfr.acc, au := hfr.au,
          cons_len := by show (st1.cons.set g _).length = 5; rw [List.length_set]; exact hfr.cons_len
          consLen_len := by show (st1.consLen.set g _).length = 5; rw [List.length_set]; exact hfr.consLen_len
          cons := fun i hi => by
            show (st1.cons.set g _)[i]? = _
            rw [List.getElem?_set]
            by_cases e : g = i
            · subst e; simp [hl1]
            · have := hfr.cons i hi
              simp only [e, if_false]
              have e1 : i < g + 1 ↔ i < g := by omega
              simp only [e1]; exact this
          consLen := fun i hi hsi => by
            show (st1.consLen.set g _)[i]? = _
            rw [List.getElem?_set]
            by_cases e : g = i
            · subst e; simp [hl2, hcl]
            · have := hfr.consLen i hi hsi
              simp only [e, if_false]
              have e1 : i < g + 1 ↔ i < g := by omega
              simp only [e1]; exact this
          cutset := hfr.cutset, comments := hfr.comments, gf := hfr.gf
          gcI := hfr.gcI.low hg }
      gsI := h1.gsI
      grI := h1.grI
      alen := by first | rfl | exact h1.alen
      nblock := h1.nblock, names := h1.names, nseq := h1.nseq, alloc := h1.alloc, apos := h1.apos
      rows_len := h1.rows_len, rows_done := h1.rows_done, rows_todo := h1.rows_todo, salloc := h1.salloc
      sqlen_len := h1.sqlen_len, sqlen_done := h1.sqlen_done, sqlen_todo := h1.sqlen_todo
      bpos := h1.bpos, blt_len := h1.blt_len, bidx_len := h1.bidx_len, nrec := h1.nrec, blt := h1.blt, bidx := h1.bidx
      npb := h1.npb
      bi := by show st1.bi + 1 = k + 1; rw [h1.bi]
      si := h1.si, nseqB := h1.nseqB
      alenB := fun _ => hcl
      inBlock := by show true = decide (k + 1 ≠ 0); simp }

theorem stoStep_blank (cfg : Cfg) (st st' : StoSt) (hl : st.lead = false) (he : endBlock st = .ok st') :
    stoStep cfg st [] = .inl st' := by
  unfold stoStep
  simp [hl, he, memstrpfx, bSlash]

theorem stoStep_slash (cfg : Cfg) (st st' : StoSt) (hl : st.lead = false) (he : endBlock st = .ok st') :
    stoStep cfg st [47, 47] = .inr (stoFinal cfg st') := by
  unfold stoStep
  simp [hl, he, memstrpfx, bSlash]

/-- the shape of a written `#=GC` line -/
theorem gcline_shape (m : Msa) (hp : StoAnn m) (pos w g : Nat) (hg : g < 5) (s : Bytes) (hs : (consF m).getD g none = some s)
    (hw : 1 ≤ w) (hpw : pos + w ≤ m.alen) :
    ∃ sp c, gcLine (stoLayout m) (consTag.getD g []) s pos w = bGC ++ [32] ++ (consTag.getD g [] ++ sp ++ c) ∧ SpOk sp ∧ ChunkOk c ∧
      c = (s.drop pos).take w := by
  obtain ⟨hsl, hsc⟩ := hp.cons_ok g s hs
  refine ⟨List.replicate ((((stoLayout m).margin : Int) - 6).natAbs - (consTag.getD g []).length) 32 ++ [32], (s.drop pos).take w,
    ?_, ⟨by simp, ?_⟩, ⟨?_, ?_⟩, rfl⟩
  · unfold gcLine strChunk padRight
    rw [sGC_eq, cstr_id _ (fun c hc => (hsc c (List.mem_of_mem_drop (List.mem_of_mem_take hc))).2)]
    simp
  · intro c hc
    rcases List.mem_append.mp hc with hc | hc
    · exact (List.mem_replicate.mp hc).2
    · simpa using hc
  · intro h0
    have : ((s.drop pos).take w).length = 0 := by rw [h0]; rfl
    rw [List.length_take, List.length_drop, hsl] at this
    omega
  · intro t ht
    exact hsc t (List.mem_of_mem_drop (List.mem_of_mem_take ht))

theorem Frozen_skip (m : Msa) {G : GsSt} (pos w g : Nat) (a : Ann) (hg : g < 5) (hs : (consF m).getD g none = none) (h : Frozen m G pos w g a) :
    Frozen m G pos w (g + 1) a :=
  { lead := h.lead, name := h.name, desc := h.desc, acc := h.acc, au := h.au,
    cons_len := h.cons_len, consLen_len := h.consLen_len
    cons := fun i hi => by
      by_cases e : i = g
      · subst e
        have := h.cons i hi
        rw [consVal_none m _ i hs] at this ⊢; exact this
      · have e1 : i < g + 1 ↔ i < g := by omega
        simp only [e1]; exact h.cons i hi
    consLen := fun i hi hsi => by
      by_cases e : i = g
      · subst e; rw [hs] at hsi; cases hsi
      · have e1 : i < g + 1 ↔ i < g := by omega
        simp only [e1]; exact h.consLen i hi hsi
    cutset := h.cutset, comments := h.comments, gf := h.gf
    gcI := h.gcI.low hg }

theorem InBlk_skip (cfg : Cfg) (enc : UInt8 → UInt8) (txt : Nat → Bytes) (m : Msa) {G : GsSt} (pos w jn jb j k g : Nat) (st : StoSt)
    (hg : g < 5) (hs : (consF m).getD g none = none) (h : InBlk cfg enc txt m G pos w jn jb j k g st) :
    InBlk cfg enc txt m G pos w jn jb j k (g + 1) st :=
  { fr := Frozen_skip m pos w g _ hg hs h.fr
    gsI := h.gsI
    grI := h.grI
    alen := h.alen, nblock := h.nblock, names := h.names, nseq := h.nseq, alloc := h.alloc, apos := h.apos
    rows_len := h.rows_len, rows_done := h.rows_done, rows_todo := h.rows_todo, salloc := h.salloc
    sqlen_len := h.sqlen_len, sqlen_done := h.sqlen_done, sqlen_todo := h.sqlen_todo
    bpos := h.bpos, blt_len := h.blt_len, bidx_len := h.bidx_len, nrec := h.nrec, blt := h.blt, bidx := h.bidx
    npb := h.npb, bi := h.bi, si := h.si, nseqB := h.nseqB, alenB := h.alenB, inBlock := h.inBlock }

/-- slot `g` of the `#=GC` lines, first block -/
theorem gcSlot_first (abc : Option Abc) (cfg : Cfg) (enc : UInt8 → UInt8) (txt : Nat → Bytes) (m : Msa) {G : GsSt}
    (W : StoWritable abc cfg enc txt m) (w g : Nat) (st : StoSt) (hg : g < 5)
    (h : InBlk cfg enc txt m G 0 w m.nseq (nsl m + cntSet m g) m.nseq (nsl m + cntSet m g) g st) (hw : 1 ≤ w) (hpw : w ≤ m.alen) :
    ∃ st', stepsFrom (stoStep cfg) st (gcSlotLines m 0 w g) = .inl st' ∧
      InBlk cfg enc txt m G 0 w m.nseq (nsl m + cntSet m (g + 1)) m.nseq (nsl m + cntSet m (g + 1)) (g + 1) st' := by
  cases hs : (consF m).getD g none with
  | none =>
    refine ⟨st, by unfold gcSlotLines; rw [hs]; rfl, ?_⟩
    rw [cntSet_none m g hg hs]
    exact InBlk_skip cfg enc txt m 0 w _ _ _ _ g st hg hs h
  | some s =>
    obtain ⟨hspec, hcnt⟩ := blockSpec_gc m g hg s hs
    obtain ⟨hlt1, hlt2, htag, _⟩ := consTag_lt g hg
    obtain ⟨sp, c, hline, hsp, hc, hcj⟩ := gcline_shape m W.ann 0 w g hg s hs hw (by omega)
    obtain ⟨st1, hloc, h1⟩ := gcLocate_first cfg enc txt m w _ _ _ g st _ hspec h
    have hn1 := W.n1
    have hnsl := nsl_ge m
    obtain ⟨st3, hp, h3⟩ := parseGc_after cfg enc txt m 0 w _ _ _ _ g st st1 (bGC ++ [32] ++ (consTag.getD g [] ++ sp ++ c)) _ _ c s
      (memtok_tok bGC [32] _ (by unfold nameOk; decide +kernel) ⟨by simp, by simp⟩ (by
        intro x hx
        obtain ⟨hne, hnd⟩ := htag
        cases ht : consTag.getD g [] with
        | nil => exact absurd ht hne
        | cons a t => rw [ht] at hx; simp at hx; subst hx; exact hnd a (by rw [ht]; simp)))
      (memtok_sqline _ sp c htag hsp hc) hc (by rw [hlt1]; exact hlt2) (by rw [hlt1]; exact hloc) h1 hg hs
      (W.ann.cons_ok g s hs).1 (fun t ht => ((W.ann.cons_ok g s hs).2 t ht).2) hcj hw (by omega) (by omega)
    refine ⟨st3, ?_, by rw [hcnt]; exact h3⟩
    simp only [gcSlotLines, hs, optLine, stepsFrom]
    rw [hline, stoStep_gcline cfg st _ h.fr.lead, hp]; rfl

/-- slot `g` of the `#=GC` lines, later blocks -/
theorem gcSlot_later (abc : Option Abc) (cfg : Cfg) (enc : UInt8 → UInt8) (txt : Nat → Bytes) (m : Msa) {G : GsSt}
    (W : StoWritable abc cfg enc txt m) (pos w g : Nat) (st : StoSt) (hg : g < 5) (hpos : pos ≠ 0)
    (h : InBlk cfg enc txt m G pos w m.nseq (blockSpec m).length m.nseq (nsl m + cntSet m g) g st) (hw : 1 ≤ w) (hpw : pos + w ≤ m.alen) :
    ∃ st', stepsFrom (stoStep cfg) st (gcSlotLines m pos w g) = .inl st' ∧
      InBlk cfg enc txt m G pos w m.nseq (blockSpec m).length m.nseq (nsl m + cntSet m (g + 1)) (g + 1) st' := by
  cases hs : (consF m).getD g none with
  | none =>
    refine ⟨st, by unfold gcSlotLines; rw [hs]; rfl, ?_⟩
    rw [cntSet_none m g hg hs]
    exact InBlk_skip cfg enc txt m pos w _ _ _ _ g st hg hs h
  | some s =>
    obtain ⟨hspec, hcnt⟩ := blockSpec_gc m g hg s hs
    obtain ⟨hlt1, hlt2, htag, _⟩ := consTag_lt g hg
    obtain ⟨sp, c, hline, hsp, hc, hcj⟩ := gcline_shape m W.ann pos w g hg s hs hw hpw
    have hloc := gcLocate_later cfg enc txt m pos w _ _ _ g st _ hspec h hpos
    have hn1 := W.n1
    have hnsl := nsl_ge m
    obtain ⟨st3, hp, h3⟩ := parseGc_after cfg enc txt m pos w _ _ _ _ g st st (bGC ++ [32] ++ (consTag.getD g [] ++ sp ++ c)) _ _ c s
      (memtok_tok bGC [32] _ (by unfold nameOk; decide +kernel) ⟨by simp, by simp⟩ (by
        intro x hx
        obtain ⟨hne, hnd⟩ := htag
        cases ht : consTag.getD g [] with
        | nil => exact absurd ht hne
        | cons a t => rw [ht] at hx; simp at hx; subst hx; exact hnd a (by rw [ht]; simp)))
      (memtok_sqline _ sp c htag hsp hc) hc (by rw [hlt1]; exact hlt2) (by rw [hlt1]; exact hloc) h hg hs
      (W.ann.cons_ok g s hs).1 (fun t ht => ((W.ann.cons_ok g s hs).2 t ht).2) hcj hw hpw (by omega)
    refine ⟨st3, ?_, by rw [hcnt]; exact h3⟩
    simp only [gcSlotLines, hs, optLine, stepsFrom]
    rw [hline, stoStep_gcline cfg st _ h.fr.lead, hp]; rfl

/-! ## unparsed `#=GC` lines -/

theorem gcLineType_other (t : Bytes) (h : gcTagOk t) : gcLineType t = ltGCOTHER := by
  obtain ⟨_, _, t1, t2, t3, t4, t5⟩ := h
  unfold gcLineType
  simp only [memstrcmp, beq_eq_false_iff_ne.mpr t1, beq_eq_false_iff_ne.mpr t2, beq_eq_false_iff_ne.mpr t3,
    beq_eq_false_iff_ne.mpr t4, beq_eq_false_iff_ne.mpr t5, Bool.false_eq_true, if_false]

/-- the shape of a written `#=GC` line, any tag -/
theorem gcline_shape' (m : Msa) (tag s : Bytes) (hs : colTextOk m.alen s) (pos w : Nat) (hw : 1 ≤ w) (hpw : pos + w ≤ m.alen) :
    ∃ sp c, gcLine (stoLayout m) tag s pos w = bGC ++ [32] ++ (tag ++ sp ++ c) ∧ SpOk sp ∧ ChunkOk c ∧ c = (s.drop pos).take w := by
  obtain ⟨hsl, hsc⟩ := hs
  refine ⟨List.replicate ((((stoLayout m).margin : Int) - 6).natAbs - tag.length) 32 ++ [32], (s.drop pos).take w,
    ?_, ⟨by simp, ?_⟩, ⟨?_, ?_⟩, rfl⟩
  · unfold gcLine strChunk padRight
    rw [sGC_eq, cstr_id _ (fun c hc => (hsc c (List.mem_of_mem_drop (List.mem_of_mem_take hc))).2)]
    simp
  · intro c hc
    rcases List.mem_append.mp hc with hc | hc
    · exact (List.mem_replicate.mp hc).2
    · simpa using hc
  · intro h0
    have : ((s.drop pos).take w).length = 0 := by rw [h0]; rfl
    rw [List.length_take, List.length_drop, hsl] at this
    omega
  · intro t ht
    exact hsc t (List.mem_of_mem_drop (List.mem_of_mem_take ht))

theorem gcLT_len (m : Msa) : (gcLT m).length = cntSet m 5 := by simp [gcLT, cntSet, consF, consLT]

theorem blockSpec_gco (m : Msa) (t : Nat) (ht : t < m.gc.length) :
    (blockSpec m)[nsl m + cntSet m 5 + t]? = some (ltGCOTHER, none) := by
  rw [Nat.add_assoc, blockSpec_tail, List.getElem?_append_right (by rw [List.length_map, gcLT_len]; omega), List.length_map,
    gcLT_len, Nat.add_sub_cancel_left, List.getElem?_map, List.getElem?_eq_getElem ht]; rfl

/-- `stockholm_parse_gc` on an unparsed tag, once the line is located and the tag index `t` is known -/
theorem parseGc_other_eval (st st1 st2 : StoSt) (p p1 tag c s : Bytes) (pos w t : Nat)
    (hm1 : memtok p blankTab = some (bGC, p1)) (hm2 : memtok p1 blankTab = some (tag, c)) (hc : ChunkOk c)
    (hlt : gcLineType tag = ltGCOTHER) (hloc : gcLocate st ltGCOTHER = .ok st1) (hidx : getGcTagIdx st1 tag = (st2, t))
    (halen : st2.alen = pos) (hlen : st2.ogcLen[t]? = some pos) (hgc : st2.gc[t]? = some (txtVal s pos))
    (hbi : st2.bi ≠ 0) (hab : st2.alenB = w)
    (hsl : pos + w ≤ s.length) (hs0 : ∀ x ∈ s, x ≠ 0) (hcj : c = (s.drop pos).take w) (hw : 1 ≤ w) :
    parseGc st p = .ok { st2 with gc := st2.gc.set t (txtVal s (pos + w)), ogcLen := st2.ogcLen.set t (pos + w),
                                   alenB := w, inBlock := true, bi := st2.bi + 1 } := by
  have hcl : c.length = w := by rw [hcj, List.length_take, List.length_drop]; omega
  have hcne : c.isEmpty = false := by
    cases c with
    | nil => exact absurd rfl hc.1
    | cons _ _ => rfl
  have hc0 : c.contains 0 = false := by
    cases hh : c.contains 0 with
    | false => rfl
    | true => exact absurd rfl (hc.2 0 (by simpa using hh)).2
  have hwid : (st2.bi != 0 && w != st2.alenB) = false := by rw [hab]; simp
  unfold parseGc
  simp only [hm1, hm2, rtrim_chunk c hc, hcne, hc0, hlt, hloc, show consIdx ltGCOTHER = none from by decide, hidx,
    getE_of hlen, halen, bne_self_eq_false, getE_of hgc, strcatE_txtVal s c pos w hsl hs0 hcj hw,
    show memstrcmp bGC bGC = true from by decide, Bool.not_true, Bool.false_eq_true, if_false, blockLineDone, hcl, hwid]

theorem gcCol_self (pos w t : Nat) : gcCol pos w (5 + t) t = pos := by
  unfold gcCol; rw [if_neg (by omega)]

theorem gcCol_step (pos w t k : Nat) : gcCol pos w (5 + (t + 1)) k = if k = t then pos + w else gcCol pos w (5 + t) k := by
  unfold gcCol
  split <;> split <;> (try split) <;> omega

/-- an unparsed `#=GC` line only touches `gc_tag`, `gc`, `ogc_len` -/
theorem Frozen.gco {m : Msa} {G : GsSt} {pos w t : Nat} {a : Ann} (h : Frozen m G pos w (5 + t) a)
    (T : List Bytes) (C : List (Option Bytes)) (L : List Nat)
    (hI : GcInv m (ngcOf m pos (5 + (t + 1))) (gcCol pos w (5 + (t + 1))) T C L) :
    Frozen m G pos w (5 + (t + 1)) { a with gcTags := T, gc := C, ogcLen := L } :=
  { h with
    cons := fun k hk => by
      have := h.cons k hk
      rw [if_pos (show k < 5 + t by omega)] at this
      rw [if_pos (show k < 5 + (t + 1) by omega)]; exact this
    consLen := fun k hk hs => by
      have := h.consLen k hk hs
      rw [if_pos (show k < 5 + t by omega)] at this
      rw [if_pos (show k < 5 + (t + 1) by omega)]; exact this
    gcI := hI }

theorem gc_getD_fst (m : Msa) (t : Nat) : (m.gc.getD t ([], [])).1 = (m.gc.map (·.1)).getD t [] := by
  simp only [List.getD_eq_getElem?_getD, List.getElem?_map]
  cases m.gc[t]? <;> rfl

theorem memtok_gc (rest : Bytes) (hr : ∀ c, rest.head? = some c → inDelim blankTab c = false) :
    memtok (bGC ++ [32] ++ rest) blankTab = some (bGC, rest) :=
  memtok_tok bGC [32] _ (by unfold nameOk; decide +kernel) ⟨by simp, by simp⟩ hr

theorem head_tok (tag sp rest : Bytes) (ht : nameOk tag) : ∀ c, (tag ++ sp ++ rest).head? = some c → inDelim blankTab c = false := by
  intro x hx
  cases tag with
  | nil => exact absurd rfl ht.1
  | cons a t => simp at hx; subst hx; exact ht.2 a (by simp)

/-- one unparsed `#=GC` line, first block: the tag is new -/
theorem gcOtherLine_first (abc : Option Abc) (cfg : Cfg) (enc : UInt8 → UInt8) (txt : Nat → Bytes) (m : Msa) {G : GsSt}
    (W : StoWritable abc cfg enc txt m) (w t : Nat) (st : StoSt) (ht : t < m.gc.length)
    (h : InBlk cfg enc txt m G 0 w m.nseq (nsl m + cntSet m 5 + t) m.nseq (nsl m + cntSet m 5 + t) (5 + t) st)
    (hw : 1 ≤ w) (hpw : w ≤ m.alen) :
    ∃ st', stoStep cfg st (gcLine (stoLayout m) (m.gc.getD t ([], [])).1 (m.gc.getD t ([], [])).2 0 w) = .inl st' ∧
      InBlk cfg enc txt m G 0 w m.nseq (nsl m + cntSet m 5 + (t + 1)) m.nseq (nsl m + cntSet m 5 + (t + 1)) (5 + (t + 1)) st' := by
  have hmem : m.gc.getD t ([], []) ∈ m.gc := by rw [getD_eq_getElem_of_lt _ ht]; exact List.getElem_mem ht
  obtain ⟨htag, hcol⟩ := W.ann.gc_ok _ hmem
  obtain ⟨sp, c, hline, hsp, hc, hcj⟩ := gcline_shape' m (m.gc.getD t ([], [])).1 _ hcol 0 w hw (by omega)
  obtain ⟨st1, hloc, h1⟩ := gcLocate_first cfg enc txt m w _ _ _ (5 + t) st _ (blockSpec_gco m t ht) h
  have hn1 := W.n1
  have hnsl := nsl_ge m
  have hfr := h1.fr
  have hgi : GcInv m t (gcCol 0 w (5 + t)) st1.gcTags st1.gc st1.ogcLen :=
    hfr.gcI.congr (by simp [ngcOf]) (fun _ _ => rfl)
  have hidx : getGcTagIdx st1 (m.gc.getD t ([], [])).1
      = ({ st1 with gcTags := st1.gcTags ++ [(m.gc.getD t ([], [])).1], gc := st1.gc ++ [none], ogcLen := st1.ogcLen ++ [0] }, t) := by
    have hl : st1.gcTags.length = t := by rw [hgi.tags, List.length_take, List.length_map]; omega
    unfold getGcTagIdx
    rw [hgi.tags, gc_getD_fst, findIdx?_take_none _ W.ann.gc_nodup t (by simpa using ht), ← hgi.tags, hl]
  have hreg := hgi.register ht (gcCol_self 0 w t)
  have hset := hreg.set t (0 + w) (by omega)
  have hlen := hreg.lens t (by omega)
  have hgc := hreg.gc t (by omega)
  have hz : gcCol 0 w (5 + t) t = 0 := gcCol_self 0 w t
  rw [hz] at hlen hgc
  have hp := parseGc_other_eval st st1 _ _ _ _ c (m.gc.getD t ([], [])).2 0 w t
    (memtok_gc _ (head_tok _ sp c htag.1)) (memtok_sqline _ sp c htag.1 hsp hc) hc (gcLineType_other _ htag) hloc hidx
    h1.alen hlen hgc (by show st1.bi ≠ 0; rw [h1.bi]; omega) (h1.alenB (by omega))
    (by rw [hcol.1]; omega) (fun x hx => (hcol.2 x hx).2) hcj hw
  refine ⟨_, by rw [hline, stoStep_gcline cfg st _ h.fr.lead, hp]; rfl, ?_⟩
  exact
    { h1 with
      fr := hfr.gco _ _ _ (hset.congr (by simp [ngcOf]) (fun k _ => gcCol_step 0 w t k))
      bi := by show st1.bi + 1 = _; rw [h1.bi]; omega
      alenB := fun _ => rfl
      inBlock := by show true = decide (_ ≠ 0); simp }

/-- one unparsed `#=GC` line, later blocks: the tag is known -/
theorem gcOtherLine_later (abc : Option Abc) (cfg : Cfg) (enc : UInt8 → UInt8) (txt : Nat → Bytes) (m : Msa) {G : GsSt}
    (W : StoWritable abc cfg enc txt m) (pos w t : Nat) (st : StoSt) (ht : t < m.gc.length) (hpos : pos ≠ 0)
    (h : InBlk cfg enc txt m G pos w m.nseq (blockSpec m).length m.nseq (nsl m + cntSet m 5 + t) (5 + t) st)
    (hw : 1 ≤ w) (hpw : pos + w ≤ m.alen) :
    ∃ st', stoStep cfg st (gcLine (stoLayout m) (m.gc.getD t ([], [])).1 (m.gc.getD t ([], [])).2 pos w) = .inl st' ∧
      InBlk cfg enc txt m G pos w m.nseq (blockSpec m).length m.nseq (nsl m + cntSet m 5 + (t + 1)) (5 + (t + 1)) st' := by
  have hmem : m.gc.getD t ([], []) ∈ m.gc := by rw [getD_eq_getElem_of_lt _ ht]; exact List.getElem_mem ht
  obtain ⟨htag, hcol⟩ := W.ann.gc_ok _ hmem
  obtain ⟨sp, c, hline, hsp, hc, hcj⟩ := gcline_shape' m (m.gc.getD t ([], [])).1 _ hcol pos w hw hpw
  have hloc := gcLocate_later cfg enc txt m pos w _ _ _ (5 + t) st _ (blockSpec_gco m t ht) h hpos
  have hn1 := W.n1
  have hnsl := nsl_ge m
  have hfr := h.fr
  have hgi : GcInv m m.gc.length (gcCol pos w (5 + t)) st.gcTags st.gc st.ogcLen :=
    hfr.gcI.congr (by simp [ngcOf, hpos]) (fun _ _ => rfl)
  have hidx : getGcTagIdx st (m.gc.getD t ([], [])).1 = (st, t) := by
    unfold getGcTagIdx
    rw [hgi.tags, ← List.length_map (f := (·.1)), List.take_length, gc_getD_fst,
      findIdx?_nodup_self _ W.ann.gc_nodup t (by simpa using ht)]
  have hset := hgi.set t (pos + w) ht
  have hlen := hgi.lens t ht
  have hgc := hgi.gc t ht
  have hz : gcCol pos w (5 + t) t = pos := gcCol_self pos w t
  rw [hz] at hlen hgc
  have hp := parseGc_other_eval st st _ _ _ _ c (m.gc.getD t ([], [])).2 pos w t
    (memtok_gc _ (head_tok _ sp c htag.1)) (memtok_sqline _ sp c htag.1 hsp hc) hc (gcLineType_other _ htag) hloc hidx
    h.alen hlen hgc (by rw [h.bi]; omega) (h.alenB (by omega))
    (by rw [hcol.1]; omega) (fun x hx => (hcol.2 x hx).2) hcj hw
  refine ⟨_, by rw [hline, stoStep_gcline cfg st _ h.fr.lead, hp]; rfl, ?_⟩
  exact
    { h with
      fr := hfr.gco _ _ _ (hset.congr (by simp [ngcOf, hpos]) (fun k _ => gcCol_step pos w t k))
      bi := by show st.bi + 1 = _; rw [h.bi]; omega
      alenB := fun _ => rfl
      inBlock := by show true = decide (_ ≠ 0); simp }

theorem sto_take_succ_getD {α : Type} (l : List α) (t : Nat) (d : α) (ht : t < l.length) : l.take (t + 1) = l.take t ++ [l.getD t d] := by
  rw [List.take_succ]
  simp [List.getD_eq_getElem?_getD, List.getElem?_eq_getElem ht]

/-- the unparsed `#=GC` lines of the first block -/
theorem gcOther_first (abc : Option Abc) (cfg : Cfg) (enc : UInt8 → UInt8) (txt : Nat → Bytes) (m : Msa) {G : GsSt}
    (W : StoWritable abc cfg enc txt m) (w : Nat) (st : StoSt)
    (h : InBlk cfg enc txt m G 0 w m.nseq (nsl m + cntSet m 5 + 0) m.nseq (nsl m + cntSet m 5 + 0) (5 + 0) st)
    (hw : 1 ≤ w) (hpw : w ≤ m.alen) :
    ∀ t, t ≤ m.gc.length → ∃ st', stepsFrom (stoStep cfg) st ((m.gc.take t).map (fun x => gcLine (stoLayout m) x.1 x.2 0 w)) = .inl st' ∧
      InBlk cfg enc txt m G 0 w m.nseq (nsl m + cntSet m 5 + t) m.nseq (nsl m + cntSet m 5 + t) (5 + t) st' := by
  intro t
  induction t with
  | zero => intro _; exact ⟨st, rfl, h⟩
  | succ t ih =>
    intro ht
    obtain ⟨st1, hs1, h1⟩ := ih (by omega)
    obtain ⟨st2, hs2, h2⟩ := gcOtherLine_first abc cfg enc txt m W w t st1 (by omega) h1 hw hpw
    refine ⟨st2, ?_, h2⟩
    rw [sto_take_succ_getD _ _ ([], []) (by omega), List.map_append, stepsFrom_append _ _ _ _ _ hs1]
    simp only [List.map_cons, List.map_nil, stepsFrom, hs2]

/-- the unparsed `#=GC` lines of a later block -/
theorem gcOther_later (abc : Option Abc) (cfg : Cfg) (enc : UInt8 → UInt8) (txt : Nat → Bytes) (m : Msa) {G : GsSt}
    (W : StoWritable abc cfg enc txt m) (pos w : Nat) (st : StoSt) (hpos : pos ≠ 0)
    (h : InBlk cfg enc txt m G pos w m.nseq (blockSpec m).length m.nseq (nsl m + cntSet m 5 + 0) (5 + 0) st)
    (hw : 1 ≤ w) (hpw : pos + w ≤ m.alen) :
    ∀ t, t ≤ m.gc.length → ∃ st', stepsFrom (stoStep cfg) st ((m.gc.take t).map (fun x => gcLine (stoLayout m) x.1 x.2 pos w)) = .inl st' ∧
      InBlk cfg enc txt m G pos w m.nseq (blockSpec m).length m.nseq (nsl m + cntSet m 5 + t) (5 + t) st' := by
  intro t
  induction t with
  | zero => intro _; exact ⟨st, rfl, h⟩
  | succ t ih =>
    intro ht
    obtain ⟨st1, hs1, h1⟩ := ih (by omega)
    obtain ⟨st2, hs2, h2⟩ := gcOtherLine_later abc cfg enc txt m W pos w t st1 (by omega) hpos h1 hw hpw
    refine ⟨st2, ?_, h2⟩
    rw [sto_take_succ_getD _ _ ([], []) (by omega), List.map_append, stepsFrom_append _ _ _ _ _ hs1]
    simp only [List.map_cons, List.map_nil, stepsFrom, hs2]

/-! ## `#=GR` lines -/

theorem sGR_eq : sGR = bGR ++ [32] := by decide +kernel

theorem stoStep_grline (cfg : Cfg) (st : StoSt) (rest : Bytes) (hl : st.lead = false) :
    stoStep cfg st (bGR ++ [32] ++ rest) = liftE (parseGr st (bGR ++ [32] ++ rest)) := by
  unfold stoStep
  simp [hl, bGR, List.dropWhile, memstrpfx, bSlash, bGF, bGS, bGC, List.isPrefixOf]

theorem sto_uniq_false (m : Msa) (hn : m.names.Nodup) : (stoLayout m).uniq = false := by
  have hd : hasDupNames m.names = false := (hasDupNames_iff m.names).mpr hn
  unfold stoLayout; simp [hd]

theorem sp_rep (n : Nat) : SpOk (List.replicate n 32 ++ [32]) := by
  refine ⟨by simp, ?_⟩
  intro c hc
  rcases List.mem_append.mp hc with hc | hc
  · exact (List.mem_replicate.mp hc).2
  · simpa using hc

/-- the shape of a written `#=GR` line -/
theorem grline_shape (m : Msa) (hu : (stoLayout m).uniq = false) (i : Nat) (tag s : Bytes) (hs : colTextOk m.alen s) (pos w : Nat)
    (hw : 1 ≤ w) (hpw : pos + w ≤ m.alen) :
    ∃ sp1 sp2 c, grLine (stoLayout m) m i tag s pos w = bGR ++ [32] ++ (m.names.getD i [] ++ sp1 ++ (tag ++ sp2 ++ c)) ∧
      SpOk sp1 ∧ SpOk sp2 ∧ ChunkOk c ∧ c = (s.drop pos).take w := by
  obtain ⟨hsl, hsc⟩ := hs
  refine ⟨List.replicate (((stoLayout m).maxname : Int).natAbs - (m.names.getD i []).length) 32 ++ [32],
    List.replicate ((((stoLayout m).margin : Int) - (stoLayout m).maxname - (stoLayout m).uniqwidth - 7).natAbs - tag.length) 32 ++ [32],
    (s.drop pos).take w, ?_, sp_rep _, sp_rep _, ⟨?_, ?_⟩, rfl⟩
  · unfold grLine stoName strChunk padRight
    rw [sGR_eq, cstr_id _ (fun c hc => (hsc c (List.mem_of_mem_drop (List.mem_of_mem_take hc))).2)]
    simp [hu]
  · intro h0
    have : ((s.drop pos).take w).length = 0 := by rw [h0]; rfl
    rw [List.length_take, List.length_drop, hsl] at this
    omega
  · intro t ht
    exact hsc t (List.mem_of_mem_drop (List.mem_of_mem_take ht))

theorem memtok_gr (name sp1 tag sp2 c : Bytes) (hn : nameOk name) (h1 : SpOk sp1) (ht : nameOk tag) (h2 : SpOk sp2) (hc : ChunkOk c) :
    memtok (bGR ++ [32] ++ (name ++ sp1 ++ (tag ++ sp2 ++ c))) blankTab = some (bGR, name ++ sp1 ++ (tag ++ sp2 ++ c)) ∧
    memtok (name ++ sp1 ++ (tag ++ sp2 ++ c)) blankTab = some (name, tag ++ sp2 ++ c) ∧
    memtok (tag ++ sp2 ++ c) blankTab = some (tag, c) :=
  ⟨memtok_tok bGR [32] _ (by unfold nameOk; decide +kernel) ⟨by simp, by simp⟩ (head_tok name sp1 _ hn),
   memtok_tok name sp1 _ hn h1 (head_tok tag sp2 c ht), memtok_sqline tag sp2 c ht h2 hc⟩

/-- `stockholm_parse_gr` once the line is located and the piece appended -/
theorem parseGr_eval (st st2 st3 : StoSt) (p p1 p2 name tag c : Bytes) (i : Nat)
    (hm1 : memtok p blankTab = some (bGR, p1)) (hm2 : memtok p1 blankTab = some (name, p2)) (hm3 : memtok p2 blankTab = some (tag, c))
    (hc : ChunkOk c) (hloc : grLocate st name (grLineType tag) = .ok (st2, i))
    (happ : grAppend st2 (grLineType tag) tag i c = .ok st3) (hbi : st3.bi ≠ 0) (hab : st3.alenB = c.length) :
    parseGr st p = .ok { st3 with alenB := c.length, inBlock := true, bi := st3.bi + 1 } := by
  have hcne : c.isEmpty = false := by
    cases c with
    | nil => exact absurd rfl hc.1
    | cons _ _ => rfl
  have hc0 : c.contains 0 = false := by
    cases hh : c.contains 0 with
    | false => rfl
    | true => exact absurd rfl (hc.2 0 (by simpa using hh)).2
  have hwid : (st3.bi != 0 && c.length != st3.alenB) = false := by rw [hab]; simp
  unfold parseGr
  simp only [hm1, hm2, hm3, rtrim_chunk c hc, hcne, hc0, hloc, happ, show memstrcmp bGR bGR = true from by decide, Bool.not_true,
    Bool.false_eq_true, if_false, blockLineDone, hwid]

theorem grAppendPer_eval (st : StoSt) (q i : Nat) (c : Bytes) (arr : List (Option Bytes)) (lens : List Nat) (cell c' : Option Bytes)
    (hpa : perArrays st q = .ok (arr, lens)) (hl : lens[i]? = some st.alen) (ha : arr[i]? = some cell)
    (hcat : strcatE cell st.alen c = .ok c') :
    grAppendPer st q i c
      = .ok { st with per := st.per.set q (some (arr.set i c')), perLen := st.perLen.set q (some (lens.set i (st.alen + c.length))) } := by
  unfold grAppendPer
  simp only [hpa, getE_of hl, bne_self_eq_false, Bool.false_eq_true, if_false, getE_of ha, hcat]

theorem grAppendOther_eval (st st2 : StoSt) (tag : Bytes) (t i : Nat) (c : Bytes) (lrow : List Nat) (crow : List (Option Bytes))
    (cell c' : Option Bytes) (hidx : getGrTagIdx st tag = (st2, t)) (hL : st2.ogrLen[t]? = some lrow) (hl : lrow[i]? = some st2.alen)
    (hG : st2.gr[t]? = some crow) (ha : crow[i]? = some cell) (hcat : strcatE cell st2.alen c = .ok c') :
    grAppendOther st tag i c
      = .ok { st2 with gr := st2.gr.set t (crow.set i c'), ogrLen := st2.ogrLen.set t (lrow.set i (st2.alen + c.length)) } := by
  unfold grAppendOther
  simp only [hidx, getE_of hL, getE_of hl, bne_self_eq_false, Bool.false_eq_true, if_false, getE_of hG, getE_of ha, hcat]

theorem findIdx?_take_self (l : List Bytes) (hn : l.Nodup) (t n : Nat) (ht : t < n) (hl : n ≤ l.length) :
    (l.take n).findIdx? (· == l.getD t []) = some t := by
  have h1 : (l.take n).Nodup := hn.sublist (List.take_sublist n l)
  have h2 : (l.take n).getD t [] = l.getD t [] := by
    simp [List.getD_eq_getElem?_getD, List.getElem?_take, ht]
  rw [← h2]
  exact findIdx?_nodup_self _ h1 t (by rw [List.length_take]; omega)

theorem gr_getD_fst (m : Msa) (t : Nat) : (m.gr.getD t ([], [])).1 = (m.gr.map (·.1)).getD t [] := by
  simp only [List.getD_eq_getElem?_getD, List.getElem?_map]
  cases m.gr[t]? <;> rfl

theorem set_snoc {α : Type} (l : List α) (x y : α) (n : Nat) (hn : n = l.length) : (l ++ [x]).set n y = l ++ [y] := by
  subst hn; simp

theorem grLT_per (q : Nat) (hq : q < 3) : perIdx (grLT q) = some q := by
  rcases q with _ | _ | _ | _
  · rfl
  · rfl
  · rfl
  · omega

theorem grTagOf_other (m : Msa) (t : Nat) : grTagOf m (3 + t) = (m.gr.getD t ([], [])).1 := by
  unfold grTagOf; rw [if_neg (by omega), Nat.add_sub_cancel_left]

theorem grLT_other (t : Nat) : grLT (3 + t) = ltGROTHER := by
  unfold grLT; rw [if_neg (by omega), if_neg (by omega), if_neg (by omega)]

theorem grLineType_other (t : Bytes) (h : grTagOk t) : grLineType t = ltGROTHER := by
  obtain ⟨_, _, t1, t2, t3⟩ := h
  unfold grLineType
  simp only [memstrcmp, beq_eq_false_iff_ne.mpr t1, beq_eq_false_iff_ne.mpr t2, beq_eq_false_iff_ne.mpr t3,
    Bool.false_eq_true, if_false]

/-- the tag of kind `q`: a token, read as the line type of kind `q` -/
theorem grTag_facts (m : Msa) (hp : StoAnn m) (q : Nat) (hq : q < nslots m) :
    nameOk (grTagOf m q) ∧ (10 : UInt8) ∉ grTagOf m q ∧ grLineType (grTagOf m q) = grLT q := by
  by_cases h3 : q < 3
  · rcases q with _ | _ | _ | _
    · rw [show grTagOf m 0 = bSS from rfl]; unfold nameOk; decide +kernel
    · rw [show grTagOf m (0 + 1) = bSA from rfl]; unfold nameOk; decide +kernel
    · rw [show grTagOf m (0 + 1 + 1) = bPP from rfl]; unfold nameOk; decide +kernel
    · omega
  · obtain ⟨t, rfl⟩ : ∃ t, q = 3 + t := ⟨q - 3, by omega⟩
    have ht : t < m.gr.length := by unfold nslots at hq; omega
    have hmem : m.gr.getD t ([], []) ∈ m.gr := by rw [getD_eq_getElem_of_lt _ ht]; exact List.getElem_mem ht
    have hok := (hp.gr_tag_ok _ hmem).1
    rw [grTagOf_other, grLT_other]
    exact ⟨hok.1, hok.2.1, grLineType_other _ hok⟩

/-- "append the annotation where it belongs" for the line (sequence `j`, kind `q`) of the block -/
theorem grAppend_ok (abc : Option Abc) (cfg : Cfg) (enc : UInt8 → UInt8) (txt : Nat → Bytes) (m : Msa) {G : GsSt}
    (W : StoWritable abc cfg enc txt m) (pos w jn jb j q k g : Nat) (st2 : StoSt)
    (h : InBlkQ cfg enc txt m G pos w jn jb (j + 1) q k g st2) (hj : j < jn) (hjm : jn ≤ m.nseq) (s : Bytes)
    (hs : grVal m q j = some s) (c : Bytes) (hcj : c = (s.drop pos).take w) (hw : 1 ≤ w) (hpw : pos + w ≤ m.alen) :
    ∃ P PL T Gr L, grAppend st2 (grLT q) (grTagOf m q) j c
        = .ok { st2 with per := P, perLen := PL, grTags := T, gr := Gr, ogrLen := L } ∧
      GrInv m pos w (dnOf (j + 1) (q + 1)) st2.sqalloc P PL T Gr L := by
  have hjs : j < m.nseq := by omega
  have hsq : j < st2.sqalloc := by
    have := h.alloc
    have hl : st2.names.length = jn := by rw [h.names, List.length_take]; have : jn ≤ m.names.length := hjm; omega
    omega
  obtain ⟨hsl, hsc⟩ := W.ann.gr_col q j s hs
  have hs0 : ∀ x ∈ s, x ≠ 0 := fun x hx => (hsc x hx).2
  have hcl : c.length = w := by rw [hcj, List.length_take, List.length_drop]; omega
  have hdn : dnOf (j + 1) q j q = false := by unfold dnOf; simp
  have hcat := strcatE_txtVal s c pos w (by omega) hs0 hcj hw
  have hG := h.grI
  have hcell : cellOf pos w (dnOf (j + 1) q j q) (grVal m q j) = txtVal s pos := by rw [hdn, hs]; rfl
  have hclen : clenOf pos w (dnOf (j + 1) q j q) (grVal m q j) = pos := by rw [hdn, hs]; rfl
  have hstep : ∀ {P : List OptRows} {PL : List (Option (List Nat))} {T : List Bytes} {Gr : List (List (Option Bytes))}
      {L : List (List Nat)}, GrInv m pos w (upd (dnOf (j + 1) q) j q) st2.sqalloc P PL T Gr L →
      GrInv m pos w (dnOf (j + 1) (q + 1)) st2.sqalloc P PL T Gr L :=
    fun hh => hh.congr (fun i q' _ => dnOf_step j q i q')
  by_cases hq3 : q < 3
  · have harr : ∃ arr lens, perArrays st2 q = .ok (arr, lens) ∧ RowSpec m pos w (dnOf (j + 1) q) st2.sqalloc q arr lens := by
      rcases hG.perArr q hq3 j hjs (by rw [hs]; rfl) with ⟨hp, hr⟩ | ⟨arr, lens, hp, hpl, hr⟩
      · have hlt : q < st2.perLen.length := by rw [hG.perLen_len]; exact hq3
        have hx : st2.perLen[q]? = some st2.perLen[q] := List.getElem?_eq_getElem hlt
        exact ⟨_, _, by unfold perArrays; simp only [getE_of hp, getE_of hx], hr⟩
      · exact ⟨arr, lens, by unfold perArrays; simp only [getE_of hp, getE_of hpl], hr⟩
    obtain ⟨arr, lens, hpa, hr⟩ := harr
    have hl := hr.lens j hsq
    rw [hclen, ← h.alen] at hl
    have ha := hr.arr j hsq
    rw [hcell] at ha
    have he := grAppendPer_eval st2 q j c arr lens _ _ hpa hl ha (by rw [h.alen]; exact hcat)
    refine ⟨_, _, st2.grTags, st2.gr, st2.ogrLen, ?_, hstep (hG.setPer q hq3 j hjs hsq s hs arr lens hr)⟩
    simp only [grAppend, grLT_per q hq3]
    rw [he, h.alen, hcl]
  · obtain ⟨t, rfl⟩ : ∃ t, q = 3 + t := ⟨q - 3, by omega⟩
    obtain ⟨ng, hT⟩ := hG.tagI
    have ht : t < m.gr.length := by
      have := grVal_lt m (3 + t) j (by rw [hs]; rfl); unfold nslots at this; omega
    have hper : perIdx ltGROTHER = none := by decide
    have hgo : grAppend st2 (grLT (3 + t)) (grTagOf m (3 + t)) j c = grAppendOther st2 (m.gr.getD t ([], [])).1 j c := by
      simp only [grAppend, grLT_other, hper, grTagOf_other]
    rw [hgo]
    by_cases hkn : t < ng
    · have hidx : getGrTagIdx st2 (m.gr.getD t ([], [])).1 = (st2, t) := by
        unfold getGrTagIdx
        rw [hT.tags, gr_getD_fst, findIdx?_take_self _ W.ann.gr_nodup t ng hkn (by rw [List.length_map]; exact hT.le)]
      obtain ⟨arr, lens, hga, hla, hr⟩ := hT.rows t hkn
      have hl := hr.lens j hsq
      rw [hclen, ← h.alen] at hl
      have ha := hr.arr j hsq
      rw [hcell] at ha
      have he := grAppendOther_eval st2 st2 _ t j c lens arr _ _ hidx hla hl hga ha (by rw [h.alen]; exact hcat)
      refine ⟨st2.per, st2.perLen, st2.grTags, _, _, ?_, hstep (hG.setGr j t ng (hT.stepKnown t hkn j hsq s hs arr lens hga hla))⟩
      rw [he, h.alen, hcl]
    · have hpos : pos = 0 := by
        by_cases e : pos = 0
        · exact e
        · exact absurd (hT.unknown t ht j hjs (by rw [hs]; rfl) (by unfold visOf; simp [e])) hkn
      subst hpos
      have hprev : ∀ t', t' < t → t' < ng := by
        intro t' ht'
        obtain ⟨i', hi', hv'⟩ := W.ann.gr_order t ht t' ht' j hjs (by rw [hs]; rfl)
        exact hT.unknown t' (by omega) i' (by omega) hv' (by unfold visOf dnOf; simp; omega)
      have hng : ng = t := by
        have : ng ≤ t := by omega
        by_cases e : t = 0
        · omega
        · have := hprev (t - 1) (by omega); omega
      subst hng
      have hidx : getGrTagIdx st2 (m.gr.getD ng ([], [])).1
          = ({ st2 with grTags := st2.grTags ++ [(m.gr.getD ng ([], [])).1], gr := st2.gr ++ [List.replicate st2.sqalloc none],
                        ogrLen := st2.ogrLen ++ [List.replicate st2.sqalloc 0] }, ng) := by
        have hl : st2.grTags.length = ng := by rw [hT.tags, List.length_take, List.length_map]; omega
        unfold getGrTagIdx
        rw [hT.tags, gr_getD_fst, findIdx?_take_none _ W.ann.gr_nodup ng (by simpa using ht), ← hT.tags, hl]
      have hfresh : ∀ i, i < st2.sqalloc → (grVal m (3 + ng) i).isSome = true → dnOf (j + 1) (3 + ng) i (3 + ng) = false := by
        intro i _ hv
        cases hd : dnOf (j + 1) (3 + ng) i (3 + ng) with
        | false => rfl
        | true =>
          have hi : i < m.nseq := by
            unfold dnOf at hd; simp at hd; omega
          exact absurd (hT.unknown ng ht i hi hv (by unfold visOf; simp [hd])) hkn
      have hL : (st2.ogrLen ++ [List.replicate st2.sqalloc 0])[ng]? = some (List.replicate st2.sqalloc 0) := by
        rw [List.getElem?_append_right (by rw [hT.ogr_len]; exact Nat.le_refl _), hT.ogr_len]; simp
      have hGr : (st2.gr ++ [List.replicate st2.sqalloc none])[ng]? = some (List.replicate st2.sqalloc none) := by
        rw [List.getElem?_append_right (by rw [hT.gr_len]; exact Nat.le_refl _), hT.gr_len]; simp
      have hl : (List.replicate st2.sqalloc 0)[j]? = some st2.alen := by rw [List.getElem?_replicate, if_pos hsq, h.alen]
      have ha : (List.replicate st2.sqalloc (none : Option Bytes))[j]? = some (txtVal s 0) := by
        rw [List.getElem?_replicate, if_pos hsq]; rfl
      have he := grAppendOther_eval st2 _ _ ng j c _ _ _ _ hidx hL hl hGr ha (by show strcatE _ st2.alen c = _; rw [h.alen]; exact hcat)
      refine ⟨st2.per, st2.perLen, _, _, _, ?_, hstep (hG.setGr j ng (ng + 1) (hT.stepNew ht j hjs hsq s hs hfresh))⟩
      rw [he]
      simp only [set_snoc _ _ _ _ hT.gr_len.symm, set_snoc _ _ _ _ hT.ogr_len.symm, h.alen, hcl]

/-- names known / lines recorded: in the first block as far as read, later all -/
def jnOf (jn0 pos j n : Nat) : Nat := if pos = 0 then jnA jn0 (j + 1) else n
def jbOf (pos k n : Nat) : Nat := if pos = 0 then k else n

/-- which sequence a `#=GR` line annotates: the one whose row was read last -/
theorem grLocate_any (cfg : Cfg) (enc : UInt8 → UInt8) (txt : Nat → Bytes) (m : Msa) {G : GsSt} {jn0 : Nat} (hjn0 : jn0 ≤ m.nseq)
    (pos w j q k g lt : Nat) (st : StoSt) (hspec : (blockSpec m)[k]? = some (lt, some j))
    (h : InBlkQ cfg enc txt m G pos w (jnOf jn0 pos j m.nseq) (jbOf pos k (blockSpec m).length) (j + 1) q k g st) (hj : j < m.nseq) :
    ∃ st2, grLocate st (m.names.getD j []) lt = .ok (st2, j) ∧
      InBlkQ cfg enc txt m G pos w (jnOf jn0 pos j m.nseq) (jbOf pos (k + 1) (blockSpec m).length) (j + 1) q k g st2 := by
  have hjn : j < jnOf jn0 pos j m.nseq := by unfold jnOf jnA; split <;> (try split) <;> omega
  have hjnm : jnOf jn0 pos j m.nseq ≤ m.nseq := by unfold jnOf jnA; split <;> (try split) <;> omega
  have hlen : st.names.length = jnOf jn0 pos j m.nseq := by
    rw [h.names, List.length_take]; have : jnOf jn0 pos j m.nseq ≤ m.names.length := hjnm; omega
  have hsq : j < st.sqalloc := by have := h.alloc; omega
  have hnm : st.names[j]? = some (m.names.getD j []) := by
    rw [h.names, List.getElem?_take, if_pos hjn, List.getD_eq_getElem?_getD,
      List.getElem?_eq_getElem (show j < m.names.length from hj)]; rfl
  by_cases hpos : pos = 0
  · subst hpos
    simp only [jnOf, jbOf, if_true] at h ⊢
    have hnb : st.nblock = 0 := h.nblock.mpr rfl
    have hsi : st.si = j + 1 := by rcases h.si with e | ⟨e, _⟩ <;> omega
    obtain ⟨st2, h2, hI2⟩ := recordLine_new cfg enc txt m 0 w _ (j + 1) k g st lt (some j) hspec h
    refine ⟨st2, ?_, hI2⟩
    unfold grLocate grSeqIdx nameIs sqnameAt
    simp only [hnb, beq_self_eq_true, if_true, hsi, show j + 1 ≥ 1 by omega, Nat.add_sub_cancel, hsq, hnm, h2]
  · simp only [jnOf, jbOf, hpos, if_false] at h ⊢
    have hkb : k < (blockSpec m).length := lt_length_of_getElem? hspec
    have hblt := h.blt k hkb
    have hbidx := h.bidx k hkb
    rw [hspec] at hblt hbidx
    simp only [Option.map_some] at hblt hbidx
    have hnb : (st.nblock == 0) = false := by
      have : st.nblock ≠ 0 := fun e => hpos (h.nblock.mp e)
      simpa using this
    have hge : ¬ (st.npb ≤ k) := by rw [h.npb hpos]; omega
    refine ⟨st, ?_, h⟩
    unfold grLocate expectLine expectSeq sqnameAt
    simp only [hnb, Bool.false_eq_true, if_false, hge, h.bi, getE_of hblt, getE_of hbidx, hsq, if_true, hnm]
    simp

/-- one `#=GR` line -/
theorem grLine_step (abc : Option Abc) (cfg : Cfg) (enc : UInt8 → UInt8) (txt : Nat → Bytes) (m : Msa) {G : GsSt} {jn0 : Nat} (hjn0 : jn0 ≤ m.nseq)
    (W : StoWritable abc cfg enc txt m) (pos w j q k : Nat) (st : StoSt) (s : Bytes) (hs : grVal m q j = some s)
    (hspec : (blockSpec m)[k]? = some (grLT q, some j))
    (h : InBlkQ cfg enc txt m G pos w (jnOf jn0 pos j m.nseq) (jbOf pos k (blockSpec m).length) (j + 1) q k 0 st) (hj : j < m.nseq)
    (hk : k ≠ 0) (hw : 1 ≤ w) (hpw : pos + w ≤ m.alen) :
    ∃ st3, stoStep cfg st (grLine (stoLayout m) m j (grTagOf m q) s pos w) = .inl st3 ∧
      InBlkQ cfg enc txt m G pos w (jnOf jn0 pos j m.nseq) (jbOf pos (k + 1) (blockSpec m).length) (j + 1) (q + 1) (k + 1) 0 st3 := by
  have hq : q < nslots m := grVal_lt m q j (by rw [hs]; rfl)
  obtain ⟨htn, _, hlt⟩ := grTag_facts m W.ann q hq
  have hcol := W.ann.gr_col q j s hs
  obtain ⟨sp1, sp2, c, hline, hsp1, hsp2, hc, hcj⟩ :=
    grline_shape m (sto_uniq_false m W.nodup) j (grTagOf m q) s hcol pos w hw hpw
  obtain ⟨hm1, hm2, hm3⟩ := memtok_gr _ sp1 _ sp2 c (W.name_ok j hj).1 hsp1 htn hsp2 hc
  obtain ⟨st2, hloc, h2⟩ := grLocate_any cfg enc txt m hjn0 pos w j q k 0 (grLT q) st hspec h hj
  have hjn : j < jnOf jn0 pos j m.nseq := by unfold jnOf jnA; split <;> (try split) <;> omega
  have hjnm : jnOf jn0 pos j m.nseq ≤ m.nseq := by unfold jnOf jnA; split <;> (try split) <;> omega
  obtain ⟨P, PL, T, Gr, L, happ, hG⟩ := grAppend_ok abc cfg enc txt m W pos w _ _ j q k 0 st2 h2 hjn hjnm s hs c hcj hw hpw
  have hcl : c.length = w := by rw [hcj, List.length_take, List.length_drop, hcol.1]; omega
  have hp := parseGr_eval st st2 _ _ _ _ _ _ c j hm1 hm2 hm3 hc (by rw [hlt]; exact hloc) (by rw [hlt]; exact happ)
    (by show st2.bi ≠ 0; rw [h2.bi]; exact hk) (by show st2.alenB = c.length; rw [h2.alenB hk, hcl])
  refine ⟨_, by rw [hline, stoStep_grline cfg st _ h.fr.lead, hp]; rfl, ?_⟩
  exact
    { h2 with
      fr := { h2.fr with lead := h2.fr.lead }
      grI := hG
      bi := by show st2.bi + 1 = _; rw [h2.bi]
      alenB := fun _ => hcl
      inBlock := by show true = decide (_ ≠ 0); simp }

theorem preLen_some (m : Msa) (i q : Nat) (s : Bytes) (hq : q < nslots m) (hs : grVal m q i = some s) :
    (seqSpec m i)[preLen m i q]? = some (grLT q, some i) ∧ preLen m i (q + 1) = preLen m i q + 1 := by
  have hget : (thingsOf m i)[1 + q]? = some ((grVal m q i).map (fun _ => (grLT q, some i))) := by
    unfold thingsOf
    rw [Nat.add_comm 1 q, List.getElem?_cons_succ, List.getElem?_map, List.getElem?_range hq]; rfl
  exact filterMap_idx id (thingsOf m i) (1 + q) _ (grLT q, some i) hget (by rw [hs]; rfl)

theorem preLen_none (m : Msa) (i q : Nat) (hq : q < nslots m) (hs : grVal m q i = none) : preLen m i (q + 1) = preLen m i q := by
  have hget : (thingsOf m i)[1 + q]? = some ((grVal m q i).map (fun _ => (grLT q, some i))) := by
    unfold thingsOf
    rw [Nat.add_comm 1 q, List.getElem?_cons_succ, List.getElem?_map, List.getElem?_range hq]; rfl
  exact filterMap_skip id (thingsOf m i) (1 + q) _ hget (by rw [hs]; rfl)

/-- kind `q` of sequence `j`: its `#=GR` line if the sequence carries the kind, else nothing -/
theorem grSlot_any (abc : Option Abc) (cfg : Cfg) (enc : UInt8 → UInt8) (txt : Nat → Bytes) (m : Msa) {G : GsSt} {jn0 : Nat} (hjn0 : jn0 ≤ m.nseq)
    (W : StoWritable abc cfg enc txt m) (pos w j q : Nat) (st : StoSt) (hq : q < nslots m) (hj : j < m.nseq)
    (h : InBlkQ cfg enc txt m G pos w (jnOf jn0 pos j m.nseq) (jbOf pos (base m j + preLen m j q) (blockSpec m).length) (j + 1) q
      (base m j + preLen m j q) 0 st) (hw : 1 ≤ w) (hpw : pos + w ≤ m.alen) :
    ∃ st', stepsFrom (stoStep cfg) st (grSlotLines m pos w j q) = .inl st' ∧
      InBlkQ cfg enc txt m G pos w (jnOf jn0 pos j m.nseq) (jbOf pos (base m j + preLen m j (q + 1)) (blockSpec m).length) (j + 1) (q + 1)
        (base m j + preLen m j (q + 1)) 0 st' := by
  cases hs : grVal m q j with
  | none =>
    refine ⟨st, by unfold grSlotLines; rw [hs]; rfl, ?_⟩
    rw [preLen_none m j q hq hs]
    exact { h with grI := (h.grI.skip j q hs).congr (fun i q' _ => dnOf_step j q i q') }
  | some s =>
    obtain ⟨hsp, hpl⟩ := preLen_some m j q s hq hs
    have hspec : (blockSpec m)[base m j + preLen m j q]? = some (grLT q, some j) := by
      rw [blockSpec_seq m j _ hj (lt_length_of_getElem? hsp)]; exact hsp
    have hk : base m j + preLen m j q ≠ 0 := by
      have : 1 ≤ preLen m j q := by
        unfold preLen; rw [Nat.add_comm 1 q]; simp [thingsOf, List.filterMap_cons]
      omega
    obtain ⟨st3, hst, h3⟩ := grLine_step abc cfg enc txt m hjn0 W pos w j q _ st s hs hspec h hj hk hw hpw
    refine ⟨st3, ?_, by rw [hpl]; exact h3⟩
    simp only [grSlotLines, hs, optLine, stepsFrom, hst]

theorem grSlotLines_other (m : Msa) (pos w j t : Nat) :
    grSlotLines m pos w j (3 + t)
      = optLine ((m.gr.getD t ([], [])).2.getD j none) (fun s => grLine (stoLayout m) m j (m.gr.getD t ([], [])).1 s pos w) := by
  unfold grSlotLines; rw [grVal_other, grTagOf_other]

/-- the unparsed `#=GR` lines of sequence `j` -/
theorem grOther_any (abc : Option Abc) (cfg : Cfg) (enc : UInt8 → UInt8) (txt : Nat → Bytes) (m : Msa) {G : GsSt} {jn0 : Nat} (hjn0 : jn0 ≤ m.nseq)
    (W : StoWritable abc cfg enc txt m) (pos w j : Nat) (st : StoSt) (hj : j < m.nseq)
    (h : InBlkQ cfg enc txt m G pos w (jnOf jn0 pos j m.nseq) (jbOf pos (base m j + preLen m j (3 + 0)) (blockSpec m).length) (j + 1) (3 + 0)
      (base m j + preLen m j (3 + 0)) 0 st) (hw : 1 ≤ w) (hpw : pos + w ≤ m.alen) :
    ∀ t, t ≤ m.gr.length → ∃ st', stepsFrom (stoStep cfg) st (grOtherLines m pos w j (m.gr.take t)) = .inl st' ∧
      InBlkQ cfg enc txt m G pos w (jnOf jn0 pos j m.nseq) (jbOf pos (base m j + preLen m j (3 + t)) (blockSpec m).length) (j + 1) (3 + t)
        (base m j + preLen m j (3 + t)) 0 st' := by
  intro t
  induction t with
  | zero => intro _; exact ⟨st, rfl, h⟩
  | succ t ih =>
    intro ht
    obtain ⟨st1, hs1, h1⟩ := ih (by omega)
    obtain ⟨st2, hs2, h2⟩ := grSlot_any abc cfg enc txt m hjn0 W pos w j (3 + t) st1 (by unfold nslots; omega) hj h1 hw hpw
    refine ⟨st2, ?_, h2⟩
    have e : grOtherLines m pos w j (m.gr.take (t + 1)) = grOtherLines m pos w j (m.gr.take t) ++ grSlotLines m pos w j (3 + t) := by
      rw [sto_take_succ_getD _ _ ([], []) (by omega), grSlotLines_other]
      simp [grOtherLines, List.flatMap_append]
    rw [e, stepsFrom_append _ _ _ _ _ hs1]
    exact hs2

/-- all the lines of sequence `j` behind its row -/
theorem grLines_any (abc : Option Abc) (cfg : Cfg) (enc : UInt8 → UInt8) (txt : Nat → Bytes) (m : Msa) {G : GsSt} {jn0 : Nat} (hjn0 : jn0 ≤ m.nseq)
    (W : StoWritable abc cfg enc txt m) (pos w j : Nat) (st : StoSt) (hj : j < m.nseq)
    (h : InBlkQ cfg enc txt m G pos w (jnOf jn0 pos j m.nseq) (jbOf pos (base m j + 1) (blockSpec m).length) (j + 1) 0 (base m j + 1) 0 st)
    (hw : 1 ≤ w) (hpw : pos + w ≤ m.alen) :
    ∃ st', stepsFrom (stoStep cfg) st (grSlotLines m pos w j 0 ++ (grSlotLines m pos w j 1 ++ (grSlotLines m pos w j 2
        ++ grOtherLines m pos w j m.gr))) = .inl st' ∧
      InBlk cfg enc txt m G pos w (jnOf jn0 pos j m.nseq) (jbOf pos (base m (j + 1)) (blockSpec m).length) (j + 1) (base m (j + 1)) 0 st' := by
  have hq : ∀ q, q < 3 → q < nslots m := fun q hq => by unfold nslots; omega
  rw [← preLen_zero m j] at h
  obtain ⟨s1, e1, h1⟩ := grSlot_any abc cfg enc txt m hjn0 W pos w j 0 st (hq 0 (by omega)) hj h hw hpw
  obtain ⟨s2, e2, h2⟩ := grSlot_any abc cfg enc txt m hjn0 W pos w j 1 s1 (hq 1 (by omega)) hj h1 hw hpw
  obtain ⟨s3, e3, h3⟩ := grSlot_any abc cfg enc txt m hjn0 W pos w j 2 s2 (hq 2 (by omega)) hj h2 hw hpw
  obtain ⟨s4, e4, h4⟩ := grOther_any abc cfg enc txt m hjn0 W pos w j s3 hj h3 hw hpw m.gr.length (Nat.le_refl _)
  rw [List.take_length] at e4
  have hfull : base m j + preLen m j (3 + m.gr.length) = base m (j + 1) := by
    rw [base_succ, ← preLen_full]; rfl
  rw [hfull] at h4
  refine ⟨s4, ?_, h4⟩
  rw [stepsFrom_append _ _ _ _ _ e1, stepsFrom_append _ _ _ _ _ e2, stepsFrom_append _ _ _ _ _ e3]
  exact e4

/-- the lines of sequence `j`, first block -/
theorem seq_first (abc : Option Abc) (cfg : Cfg) (enc : UInt8 → UInt8) (txt : Nat → Bytes) (m : Msa) {G : GsSt}
    (W : StoWritable abc cfg enc txt m) (w j jn0 : Nat) (st : StoSt) (h : InBlk cfg enc txt m G 0 w (jnA jn0 j) (base m j) j (base m j) 0 st)
    (hj : j < m.nseq) (hw : 1 ≤ w) (hpw : w ≤ m.alen) (hjn0 : jn0 = m.nseq ∨ (jn0 = 0 ∧ ∀ q i, grVal (gsMsa m) q i = none)) :
    ∃ st', stepsFrom (stoStep cfg) st (stoSeqL abc m 0 w j) = .inl st' ∧
      InBlk cfg enc txt m G 0 w (jnA jn0 (j + 1)) (base m (j + 1)) (j + 1) (base m (j + 1)) 0 st' := by
  have hle : jn0 ≤ m.nseq := by rcases hjn0 with e | ⟨e, _⟩ <;> omega
  obtain ⟨s1, e1, h1⟩ := sqline_first abc cfg enc txt m W w j jn0 st h hj hw hpw hjn0
  obtain ⟨s2, e2, h2⟩ := grLines_any abc cfg enc txt m hle W 0 w j s1 hj h1 hw (by omega)
  refine ⟨s2, ?_, h2⟩
  unfold stoSeqL
  simp only [List.singleton_append, stepsFrom, e1]
  exact e2

/-- the lines of sequence `j`, later blocks -/
theorem seq_later (abc : Option Abc) (cfg : Cfg) (enc : UInt8 → UInt8) (txt : Nat → Bytes) (m : Msa) {G : GsSt}
    (W : StoWritable abc cfg enc txt m) (pos w j : Nat) (st : StoSt)
    (h : InBlk cfg enc txt m G pos w m.nseq (blockSpec m).length j (base m j) 0 st)
    (hpos : pos ≠ 0) (hj : j < m.nseq) (hw : 1 ≤ w) (hpw : pos + w ≤ m.alen) :
    ∃ st', stepsFrom (stoStep cfg) st (stoSeqL abc m pos w j) = .inl st' ∧
      InBlk cfg enc txt m G pos w m.nseq (blockSpec m).length (j + 1) (base m (j + 1)) 0 st' := by
  obtain ⟨s1, e1, h1⟩ := sqline_later abc cfg enc txt m W pos w j st h hpos hj hw hpw
  have h1' : InBlkQ cfg enc txt m G pos w (jnOf 0 pos j m.nseq) (jbOf pos (base m j + 1) (blockSpec m).length) (j + 1) 0 (base m j + 1) 0 s1 := by
    simp only [jnOf, jbOf, hpos, if_false]; exact h1
  obtain ⟨s2, e2, h2⟩ := grLines_any abc cfg enc txt m (Nat.zero_le _) W pos w j s1 hj h1' hw hpw
  simp only [jnOf, jbOf, hpos, if_false] at h2
  refine ⟨s2, ?_, h2⟩
  unfold stoSeqL
  simp only [List.singleton_append, stepsFrom, e1]
  exact e2

/-- the sequence and `#=GR` lines of the first block -/
theorem sqlines_first (abc : Option Abc) (cfg : Cfg) (enc : UInt8 → UInt8) (txt : Nat → Bytes) (m : Msa) {G : GsSt}
    (W : StoWritable abc cfg enc txt m) (w jn0 : Nat) (st : StoSt) (h : InBlk cfg enc txt m G 0 w jn0 0 0 0 0 st) (hw : 1 ≤ w) (hpw : w ≤ m.alen)
    (hjn0 : jn0 = m.nseq ∨ (jn0 = 0 ∧ ∀ q i, grVal (gsMsa m) q i = none)) :
    ∀ j, j ≤ m.nseq → ∃ st', stepsFrom (stoStep cfg) st ((List.range j).flatMap (stoSeqL abc m 0 w)) = .inl st' ∧
      InBlk cfg enc txt m G 0 w (jnA jn0 j) (base m j) j (base m j) 0 st' := by
  intro j
  induction j with
  | zero => intro _; exact ⟨st, rfl, by rw [show jnA jn0 0 = jn0 from by unfold jnA; split <;> omega]; exact h⟩
  | succ j ih =>
    intro hj
    obtain ⟨st1, hs1, h1⟩ := ih (by omega)
    obtain ⟨st2, hs2, h2⟩ := seq_first abc cfg enc txt m W w j jn0 st1 h1 (by omega) hw hpw hjn0
    refine ⟨st2, ?_, h2⟩
    rw [List.range_succ, List.flatMap_append, stepsFrom_append _ _ _ _ _ hs1]
    simpa using hs2

/-- the sequence and `#=GR` lines of a later block -/
theorem sqlines_later (abc : Option Abc) (cfg : Cfg) (enc : UInt8 → UInt8) (txt : Nat → Bytes) (m : Msa) {G : GsSt}
    (W : StoWritable abc cfg enc txt m) (pos w : Nat) (st : StoSt) (h : InBlk cfg enc txt m G pos w m.nseq (blockSpec m).length 0 0 0 st)
    (hpos : pos ≠ 0) (hw : 1 ≤ w) (hpw : pos + w ≤ m.alen) :
    ∀ j, j ≤ m.nseq → ∃ st', stepsFrom (stoStep cfg) st ((List.range j).flatMap (stoSeqL abc m pos w)) = .inl st' ∧
      InBlk cfg enc txt m G pos w m.nseq (blockSpec m).length j (base m j) 0 st' := by
  intro j
  induction j with
  | zero => intro _; exact ⟨st, rfl, h⟩
  | succ j ih =>
    intro hj
    obtain ⟨st1, hs1, h1⟩ := ih (by omega)
    obtain ⟨st2, hs2, h2⟩ := seq_later abc cfg enc txt m W pos w j st1 h1 hpos (by omega) hw hpw
    refine ⟨st2, ?_, h2⟩
    rw [List.range_succ, List.flatMap_append, stepsFrom_append _ _ _ _ _ hs1]
    simpa using hs2

theorem cntSet_zero (m : Msa) : cntSet m 0 = 0 := rfl

/-- the whole first block -/
theorem block_first (abc : Option Abc) (cfg : Cfg) (enc : UInt8 → UInt8) (txt : Nat → Bytes) (m : Msa) {G : GsSt}
    (W : StoWritable abc cfg enc txt m) (cpl jn0 : Nat) (st : StoSt) (h : InBlk cfg enc txt m G 0 (stoW m cpl 0) jn0 0 0 0 0 st)
    (hc : 0 < cpl) (hjn0 : jn0 = m.nseq ∨ (jn0 = 0 ∧ ∀ q i, grVal (gsMsa m) q i = none)) :
    ∃ st', stepsFrom (stoStep cfg) st (stoAnnBlock abc m cpl 0) = .inl st' ∧
      InBlk cfg enc txt m G 0 (stoW m cpl 0) m.nseq (blockSpec m).length m.nseq (blockSpec m).length (gEnd m) st' := by
  have ha1 := W.alen1
  have hw1 : 1 ≤ stoW m cpl 0 := by unfold stoW; split <;> omega
  have hw2 : stoW m cpl 0 ≤ m.alen := by unfold stoW; split <;> omega
  obtain ⟨s0, e0, h0⟩ := sqlines_first abc cfg enc txt m W _ jn0 st h hw1 hw2 hjn0 m.nseq (Nat.le_refl _)
  have hA : jnA jn0 m.nseq = m.nseq := by
    unfold jnA; rcases hjn0 with e | ⟨e, _⟩ <;> subst e <;> split <;> omega
  rw [hA] at h0
  have h0' : InBlk cfg enc txt m G 0 (stoW m cpl 0) m.nseq (nsl m + cntSet m 0) m.nseq (nsl m + cntSet m 0) 0 s0 := h0
  obtain ⟨s1, e1, h1⟩ := gcSlot_first abc cfg enc txt m W _ 0 s0 (by omega) h0' hw1 hw2
  obtain ⟨s2, e2, h2⟩ := gcSlot_first abc cfg enc txt m W _ 1 s1 (by omega) h1 hw1 hw2
  obtain ⟨s3, e3, h3⟩ := gcSlot_first abc cfg enc txt m W _ 2 s2 (by omega) h2 hw1 hw2
  obtain ⟨s4, e4, h4⟩ := gcSlot_first abc cfg enc txt m W _ 3 s3 (by omega) h3 hw1 hw2
  obtain ⟨s5, e5, h5⟩ := gcSlot_first abc cfg enc txt m W _ 4 s4 (by omega) h4 hw1 hw2
  obtain ⟨s6, e6, h6⟩ := gcOther_first abc cfg enc txt m W _ s5 h5 hw1 hw2 m.gc.length (Nat.le_refl _)
  rw [← blockSpec_len] at h6
  rw [List.take_length] at e6
  refine ⟨s6, ?_, h6⟩
  unfold stoAnnBlock
  simp only [Nat.lt_irrefl, gt_iff_lt, if_false, List.nil_append]
  rw [stepsFrom_append _ _ _ _ _ e0, stepsFrom_append _ _ _ _ _ e1, stepsFrom_append _ _ _ _ _ e2,
    stepsFrom_append _ _ _ _ _ e3, stepsFrom_append _ _ _ _ _ e4, stepsFrom_append _ _ _ _ _ e5]
  exact e6

/-- a whole later block: the blank line, the sequence lines, the `#=GC` lines -/
theorem block_later (abc : Option Abc) (cfg : Cfg) (enc : UInt8 → UInt8) (txt : Nat → Bytes) (m : Msa) {G : GsSt}
    (W : StoWritable abc cfg enc txt m) (cpl p w pos : Nat) (st : StoSt)
    (h : InBlk cfg enc txt m G p w m.nseq (blockSpec m).length m.nseq (blockSpec m).length (gEnd m) st)
    (hpw : p + w = pos) (hw : 1 ≤ w) (hlt : pos < m.alen) (hc : 0 < cpl) :
    ∃ st', stepsFrom (stoStep cfg) st (stoAnnBlock abc m cpl pos) = .inl st' ∧
      InBlk cfg enc txt m G pos (stoW m cpl pos) m.nseq (blockSpec m).length m.nseq (blockSpec m).length (gEnd m) st' := by
  have hpos : pos ≠ 0 := by omega
  have hw1 : 1 ≤ stoW m cpl pos := by unfold stoW; split <;> omega
  have hw2 : pos + stoW m cpl pos ≤ m.alen := by unfold stoW; split <;> omega
  obtain ⟨st1, he, h1⟩ := endBlock_full cfg enc txt m p w (stoW m cpl pos) m.nseq st h rfl W.n1 hw
  rw [hpw] at h1
  obtain ⟨s0, e0, h0⟩ := sqlines_later abc cfg enc txt m W pos _ st1 h1 hpos hw1 hw2 m.nseq (Nat.le_refl _)
  have h0' : InBlk cfg enc txt m G pos (stoW m cpl pos) m.nseq (blockSpec m).length m.nseq (nsl m + cntSet m 0) 0 s0 := h0
  obtain ⟨s1, e1, h1'⟩ := gcSlot_later abc cfg enc txt m W pos _ 0 s0 (by omega) hpos h0' hw1 hw2
  obtain ⟨s2, e2, h2⟩ := gcSlot_later abc cfg enc txt m W pos _ 1 s1 (by omega) hpos h1' hw1 hw2
  obtain ⟨s3, e3, h3⟩ := gcSlot_later abc cfg enc txt m W pos _ 2 s2 (by omega) hpos h2 hw1 hw2
  obtain ⟨s4, e4, h4⟩ := gcSlot_later abc cfg enc txt m W pos _ 3 s3 (by omega) hpos h3 hw1 hw2
  obtain ⟨s5, e5, h5⟩ := gcSlot_later abc cfg enc txt m W pos _ 4 s4 (by omega) hpos h4 hw1 hw2
  obtain ⟨s6, e6, h6⟩ := gcOther_later abc cfg enc txt m W pos _ s5 hpos h5 hw1 hw2 m.gc.length (Nat.le_refl _)
  rw [← blockSpec_len] at h6
  rw [List.take_length] at e6
  refine ⟨s6, ?_, h6⟩
  unfold stoAnnBlock
  have : pos > 0 := by omega
  simp only [this, if_true, List.singleton_append, stepsFrom, stoStep_blank cfg st st1 h.fr.lead he]
  rw [stepsFrom_append _ _ _ _ _ e0, stepsFrom_append _ _ _ _ _ e1, stepsFrom_append _ _ _ _ _ e2,
    stepsFrom_append _ _ _ _ _ e3, stepsFrom_append _ _ _ _ _ e4, stepsFrom_append _ _ _ _ _ e5]
  exact e6

/-- all the later blocks -/
theorem blocks_later (abc : Option Abc) (cfg : Cfg) (enc : UInt8 → UInt8) (txt : Nat → Bytes) (m : Msa) {G : GsSt}
    (W : StoWritable abc cfg enc txt m) (cpl : Nat) (hc : 0 < cpl) :
    ∀ k pos, m.alen - pos ≤ k → ∀ (st : StoSt) (p w : Nat),
      InBlk cfg enc txt m G p w m.nseq (blockSpec m).length m.nseq (blockSpec m).length (gEnd m) st →
      p + w = min pos m.alen → 1 ≤ w →
      ∃ st' p' w', stepsFrom (stoStep cfg) st ((blockStartsFrom m.alen cpl pos).flatMap (stoAnnBlock abc m cpl)) = .inl st' ∧
        InBlk cfg enc txt m G p' w' m.nseq (blockSpec m).length m.nseq (blockSpec m).length (gEnd m) st' ∧ p' + w' = m.alen ∧ 1 ≤ w' := by
  intro k
  induction k with
  | zero =>
    intro pos hk st p w h hpw hw
    have hge : ¬ (pos < m.alen ∧ 0 < cpl) := by omega
    rw [blockStartsFrom, dif_neg hge]
    exact ⟨st, p, w, rfl, h, by omega, hw⟩
  | succ k ih =>
    intro pos hk st p w h hpw hw
    by_cases hlt : pos < m.alen
    · rw [blockStartsFrom, dif_pos ⟨hlt, hc⟩, List.flatMap_cons]
      obtain ⟨st1, hs1, h1⟩ := block_later abc cfg enc txt m W cpl p w pos st h (by omega) hw hlt hc
      have hw1 : 1 ≤ stoW m cpl pos := by unfold stoW; split <;> omega
      have hnext : pos + stoW m cpl pos = min (pos + cpl) m.alen := by unfold stoW; split <;> omega
      obtain ⟨st2, p', w', hs2, h2, he, hw'⟩ := ih (pos + cpl) (by omega) st1 pos _ h1 hnext hw1
      refine ⟨st2, p', w', ?_, h2, he, hw'⟩
      rw [stepsFrom_append _ _ _ _ _ hs1]; exact hs2
    · have hge : ¬ (pos < m.alen ∧ 0 < cpl) := by omega
      rw [blockStartsFrom, dif_neg hge]
      exact ⟨st, p, w, rfl, h, by omega, hw⟩

/-- the reader's state behind the header section -/
def headSt (m : Msa) : StoSt :=
  { lead := false, name := m.name, desc := m.desc, acc := m.acc, au := m.au, cutset := cutsetOf m,
    comments := m.comments, commentAlloc := comAllocN m.comments.length, gf := m.gf, gfAlloc := gfAllocN m.gf.length }

/-! ## the header section -/

theorem sGF_eq : sGF = bGF ++ [32] := by decide +kernel

theorem stoStep_gfline (cfg : Cfg) (st : StoSt) (rest : Bytes) (hl : st.lead = false) :
    stoStep cfg st (bGF ++ [32] ++ rest) = liftE (parseGf st (bGF ++ [32] ++ rest)) := by
  unfold stoStep
  simp [hl, bGF, List.dropWhile, memstrpfx, bSlash, List.isPrefixOf]

theorem gfline_shape (L : StoLayout) (tag val : Bytes) :
    ∃ sp, gfLine L tag val = bGF ++ [32] ++ (tag ++ sp ++ val) ∧ SpOk sp := by
  refine ⟨List.replicate ((L.maxgf : Int).natAbs - tag.length) 32 ++ [32], ?_, by simp, ?_⟩
  · unfold gfLine padRight; rw [sGF_eq]; simp
  · intro c hc
    rcases List.mem_append.mp hc with hc | hc
    · exact (List.mem_replicate.mp hc).2
    · simpa using hc

theorem nameOk_head (v : Bytes) (h : nameOk v) : ∀ c, v.head? = some c → inDelim blankTab c = false := by
  intro c hc
  cases v with
  | nil => cases hc
  | cons a t => simp at hc; subst hc; exact h.2 a (by simp)

theorem nameOk_nonul (v : Bytes) (h : nameOk v) : ∀ c ∈ v, c ≠ 0 := by
  intro c hc e
  have := h.2 c hc
  subst e
  simp [inDelim] at this

theorem gf_memtok (tag sp val : Bytes) (ht : nameOk tag) (hs : SpOk sp) (hv : ∀ c, val.head? = some c → inDelim blankTab c = false) :
    memtok (bGF ++ [32] ++ (tag ++ sp ++ val)) blankTab = some (bGF, tag ++ sp ++ val) ∧
    memtok (tag ++ sp ++ val) blankTab = some (tag, val) := by
  refine ⟨memtok_tok bGF [32] _ (by unfold nameOk; decide +kernel) ⟨by simp, by simp⟩ ?_, memtok_tok tag sp val ht hs hv⟩
  intro x hx
  cases tag with
  | nil => exact absurd rfl ht.1
  | cons a t => simp at hx; subst hx; exact ht.2 a (by simp)

theorem parseGf_id (st : StoSt) (sp val : Bytes) (hs : SpOk sp) (hv : gfTokOk val) :
    parseGf st (bGF ++ [32] ++ (bID ++ sp ++ val)) = .ok { st with name := some val } := by
  obtain ⟨hm1, hm2⟩ := gf_memtok bID sp val (by unfold nameOk; decide +kernel) hs (nameOk_head val hv.1)
  have hm3 := memtok_name val hv.1
  have hcs := cstr_id val (nameOk_nonul val hv.1)
  unfold parseGf
  simp only [hm1, hm2, hm3, hcs]
  simp [memstrcmp, bGF, bID]

theorem parseGf_ac (st : StoSt) (sp val : Bytes) (hs : SpOk sp) (hv : gfTokOk val) :
    parseGf st (bGF ++ [32] ++ (bAC ++ sp ++ val)) = .ok { st with acc := some val } := by
  obtain ⟨hm1, hm2⟩ := gf_memtok bAC sp val (by unfold nameOk; decide +kernel) hs (nameOk_head val hv.1)
  have hm3 := memtok_name val hv.1
  have hcs := cstr_id val (nameOk_nonul val hv.1)
  unfold parseGf
  simp only [hm1, hm2, hm3, hcs]
  simp [memstrcmp, bGF, bID, bAC]

theorem parseGf_de (st : StoSt) (sp val : Bytes) (hs : SpOk sp) (hv : gfTextOk val) :
    parseGf st (bGF ++ [32] ++ (bDE ++ sp ++ val)) = .ok { st with desc := some val } := by
  obtain ⟨hm1, hm2⟩ := gf_memtok bDE sp val (by unfold nameOk; decide +kernel) hs hv.1
  have hcs := cstr_id val (fun c hc e => hv.2.1 (e ▸ hc))
  unfold parseGf
  simp only [hm1, hm2, hcs]
  simp [memstrcmp, bGF, bID, bAC, bDE]

theorem parseGf_au (st : StoSt) (sp val : Bytes) (hs : SpOk sp) (hv : gfTextOk val) :
    parseGf st (bGF ++ [32] ++ (bAU ++ sp ++ val)) = .ok { st with au := some val } := by
  obtain ⟨hm1, hm2⟩ := gf_memtok bAU sp val (by unfold nameOk; decide +kernel) hs hv.1
  have hcs := cstr_id val (fun c hc e => hv.2.1 (e ▸ hc))
  unfold parseGf
  simp only [hm1, hm2, hcs]
  simp [memstrcmp, bGF, bID, bAC, bDE, bAU]

theorem comAllocN_ge (n : Nat) : (n = 0 ∧ comAllocN n = 0) ∨ (1 ≤ n ∧ n ≤ comAllocN n) := by
  induction n with
  | zero => exact Or.inl ⟨rfl, rfl⟩
  | succ n ih =>
    right
    refine ⟨by omega, ?_⟩
    simp only [comAllocN]
    rcases ih with ⟨h0, ha⟩ | ⟨h1, h2⟩
    · subst h0; simp [ha]
    · have hne : (comAllocN n == 0) = false := by simp; omega
      simp only [hne, Bool.false_eq_true, if_false]
      split
      · rename_i he; simp at he; omega
      · rename_i he; simp at he; omega

theorem gfAllocN_ge (n : Nat) : (n = 0 ∧ gfAllocN n = 0) ∨ (1 ≤ n ∧ n ≤ gfAllocN n) := by
  induction n with
  | zero => exact Or.inl ⟨rfl, rfl⟩
  | succ n ih =>
    right
    refine ⟨by omega, ?_⟩
    simp only [gfAllocN]
    rcases ih with ⟨h0, ha⟩ | ⟨h1, h2⟩
    · subst h0; simp [ha]
    · have hne : (gfAllocN n == 0) = false := by simp; omega
      simp only [hne, Bool.false_eq_true, if_false]
      split
      · rename_i he; simp at he; omega
      · rename_i he; simp at he; omega

theorem comAllocN_succ (n : Nat) :
    comAllocN (n + 1) = if n == (if comAllocN n == 0 then 16 else comAllocN n) then (if comAllocN n == 0 then 16 else comAllocN n) * 2
      else (if comAllocN n == 0 then 16 else comAllocN n) := rfl

theorem parseComment_ok (st : StoSt) (c : Bytes) (hc : comOk c) (ha : st.commentAlloc = comAllocN st.comments.length) :
    parseComment st (35 :: c) = .ok { st with comments := st.comments ++ [c], commentAlloc := comAllocN (st.comments.length + 1) } := by
  obtain ⟨h1, h2, _, _, _, _, _, _⟩ := hc
  have hdw : c.dropWhile isSpace = c := by
    cases c with
    | nil => rfl
    | cons x t => simp [List.dropWhile, h1 x rfl]
  have hcs : cstr c = c := cstr_id c (fun x hx e => h2 (e ▸ hx))
  have hnf : ¬ (st.comments.length ≥ comAllocN (st.comments.length + 1)) := by
    have := comAllocN_ge (st.comments.length + 1)
    omega
  have hal : (if (st.comments.length == (if (comAllocN st.comments.length == 0) then 16 else comAllocN st.comments.length))
      then (if (comAllocN st.comments.length == 0) then 16 else comAllocN st.comments.length) * 2
      else (if (comAllocN st.comments.length == 0) then 16 else comAllocN st.comments.length))
      = comAllocN (st.comments.length + 1) := (comAllocN_succ _).symm
  unfold parseComment
  simp only [show ((35 : UInt8) == 35) = true by decide, if_true, hdw, hcs, ha, hal, hnf, if_false]

theorem stoStep_comment (cfg : Cfg) (st : StoSt) (c : Bytes) (hl : st.lead = false) (hc : comOk c)
    (ha : st.commentAlloc = comAllocN st.comments.length) :
    stoStep cfg st (35 :: c) = .inl { st with comments := st.comments ++ [c], commentAlloc := comAllocN (st.comments.length + 1) } := by
  have hpc := parseComment_ok st c hc ha
  obtain ⟨h1, h2, _, _, g1, g2, g3, g4⟩ := hc
  have hs10 : memstrcmp (35 :: c) bSto10 = false := by
    cases c with
    | nil => simp [memstrcmp, bSto10]
    | cons x t =>
      have hx : x ≠ 32 := by
        intro e; have := h1 x rfl; rw [e] at this; revert this; decide
      simp only [memstrcmp, bSto10, beq_eq_false_iff_ne, ne_eq, List.cons.injEq, not_and]
      intro _ h; exact absurd h hx
  have hsl : memstrpfx (35 :: c) bSlash = false := by simp [memstrpfx, bSlash, List.isPrefixOf]
  unfold stoStep
  simp only [hl, Bool.false_eq_true, if_false, List.dropWhile]
  simp only [show ((35 : UInt8) == 32 || (35 : UInt8) == 9) = false by decide, List.isEmpty_cons, Bool.false_or,
    List.head?_cons, g1, g2, g3, g4, hs10, hsl, Bool.false_eq_true, if_false, if_true, hpc]
  simp [liftE, hl]

theorem com_steps (cfg : Cfg) (rest : List Bytes) : ∀ (cs : List Bytes) (st : StoSt), st.lead = false → (∀ c ∈ cs, comOk c) →
    st.commentAlloc = comAllocN st.comments.length →
    stepsFrom (stoStep cfg) st (cs.map (fun c => 35 :: c) ++ rest) =
    stepsFrom (stoStep cfg) { st with comments := st.comments ++ cs, commentAlloc := comAllocN (st.comments ++ cs).length } rest
  | [], st, _, _, ha => by simp [← ha]
  | c :: cs, st, hl, hc, ha => by
    have h1 : stepsFrom (stoStep cfg) st ((c :: cs).map (fun c => 35 :: c) ++ rest)
        = stepsFrom (stoStep cfg) { st with comments := st.comments ++ [c], commentAlloc := comAllocN (st.comments.length + 1) }
            (cs.map (fun c => 35 :: c) ++ rest) := by
      simp only [List.map_cons, List.cons_append, stepsFrom, stoStep_comment cfg st c hl (hc c (by simp)) ha]
    rw [h1]
    refine (com_steps cfg rest cs { st with comments := st.comments ++ [c], commentAlloc := comAllocN (st.comments.length + 1) }
      hl (fun c' h => hc c' (by simp [h])) (by simp [List.length_append])).trans ?_
    simp

theorem gfAllocN_succ (n : Nat) :
    gfAllocN (n + 1) = if n == gfAllocN n then (if gfAllocN n == 0 then 16 else gfAllocN n * 2) else gfAllocN n := rfl

theorem parseGf_other (st : StoSt) (tag sp val : Bytes) (ht : gfTagOk tag) (hs : SpOk sp) (hv : gfTextOk val)
    (ha : st.gfAlloc = gfAllocN st.gf.length) :
    parseGf st (bGF ++ [32] ++ (tag ++ sp ++ val))
      = .ok { st with gf := st.gf ++ [(tag, val)], gfAlloc := gfAllocN (st.gf.length + 1) } := by
  obtain ⟨hm1, hm2⟩ := gf_memtok tag sp val ht.1 hs hv.1
  obtain ⟨htn, _, t1, t2, t3, t4, t5, t6, t7⟩ := ht
  have hcv := cstr_id val (fun c hc e => hv.2.1 (e ▸ hc))
  have hct := cstr_id tag (nameOk_nonul tag htn)
  have hnf : ¬ (st.gf.length ≥ gfAllocN (st.gf.length + 1)) := by
    have := gfAllocN_ge (st.gf.length + 1)
    omega
  unfold parseGf
  simp only [hm1, hm2]
  simp only [memstrcmp, beq_self_eq_true, Bool.not_true, Bool.false_eq_true, if_false, beq_eq_false_iff_ne.mpr t1,
    beq_eq_false_iff_ne.mpr t2, beq_eq_false_iff_ne.mpr t3, beq_eq_false_iff_ne.mpr t4, beq_eq_false_iff_ne.mpr t5,
    beq_eq_false_iff_ne.mpr t6, beq_eq_false_iff_ne.mpr t7]
  unfold addGF
  simp only [ha, ← gfAllocN_succ, hnf, if_false, hcv, hct]

theorem stoStep_gfline' (cfg : Cfg) (st : StoSt) (L : StoLayout) (tag val : Bytes) (hl : st.lead = false) :
    ∃ sp, SpOk sp ∧ stoStep cfg st (gfLine L tag val) = liftE (parseGf st (bGF ++ [32] ++ (tag ++ sp ++ val))) := by
  obtain ⟨sp, hline, hs⟩ := gfline_shape L tag val
  exact ⟨sp, hs, by rw [hline, stoStep_gfline cfg st _ hl]⟩

theorem gf_steps (cfg : Cfg) (L : StoLayout) (rest : List Bytes) : ∀ (gs : List (Bytes × Bytes)) (st : StoSt), st.lead = false →
    (∀ t ∈ gs, gfTagOk t.1 ∧ gfTextOk t.2) → st.gfAlloc = gfAllocN st.gf.length →
    stepsFrom (stoStep cfg) st (gs.map (fun t => gfLine L t.1 t.2) ++ rest) =
    stepsFrom (stoStep cfg) { st with gf := st.gf ++ gs, gfAlloc := gfAllocN (st.gf ++ gs).length } rest
  | [], st, _, _, ha => by simp [← ha]
  | t :: gs, st, hl, hc, ha => by
    obtain ⟨sp, hs, he⟩ := stoStep_gfline' cfg st L t.1 t.2 hl
    have ht := hc t (by simp)
    have h1 : stepsFrom (stoStep cfg) st ((t :: gs).map (fun t => gfLine L t.1 t.2) ++ rest)
        = stepsFrom (stoStep cfg) { st with gf := st.gf ++ [(t.1, t.2)], gfAlloc := gfAllocN (st.gf.length + 1) }
            (gs.map (fun t => gfLine L t.1 t.2) ++ rest) := by
      simp only [List.map_cons, List.cons_append, stepsFrom, he, parseGf_other st t.1 sp t.2 ht.1 hs ht.2 ha, liftE]
    rw [h1]
    refine (gf_steps cfg L rest gs { st with gf := st.gf ++ [(t.1, t.2)], gfAlloc := gfAllocN (st.gf.length + 1) }
      hl (fun c' h => hc c' (by simp [h])) (by simp [List.length_append])).trans ?_
    simp

/-! ## cut-offs: `printf("%.1f")` of a finite value is a token `esl_mem_IsReal` accepts -/

def allDig (l : Bytes) : Prop := ∀ c ∈ l, isDigit c = true

def digitTbl : Bool :=
  (List.range 256).all fun n =>
    let c := UInt8.ofNat n
    !isDigit c || (!inDelim blankTab c && c != 10 && c != 13 && !isSpace c && c != 45 && c != 43 && c != 117 && c != 46
      && c != 101 && c != 69 && c != 0)

theorem digitTbl_true : digitTbl = true := by decide +kernel

theorem digit_facts (c : UInt8) (h : isDigit c = true) :
    inDelim blankTab c = false ∧ c ≠ 10 ∧ c ≠ 13 ∧ isSpace c = false ∧ c ≠ 45 ∧ c ≠ 43 ∧ c ≠ 117 ∧ c ≠ 46 ∧ c ≠ 101 ∧ c ≠ 69 ∧ c ≠ 0 := by
  have h1 := (List.all_eq_true.mp digitTbl_true) c.toNat (List.mem_range.mpr c.toNat_lt)
  simp only [UInt8.ofNat_toNat, h, Bool.not_true, Bool.false_or, Bool.and_eq_true, Bool.not_eq_true', bne_iff_ne, ne_eq] at h1
  obtain ⟨⟨⟨⟨⟨⟨⟨⟨⟨⟨a1, a2⟩, a3⟩, a4⟩, a5⟩, a6⟩, a7⟩, a8⟩, a9⟩, a10⟩, a11⟩ := h1
  exact ⟨a1, a2, a3, a4, a5, a6, a7, a8, a9, a10, a11⟩

theorem dch_digit : ∀ d, d < 10 → isDigit (dch d) = true := by decide

theorem natDec_allDig (n : Nat) : allDig (natDec n) := fun c hc => by
  obtain ⟨d, hd, rfl⟩ := natDec_mem n c hc
  exact dch_digit d hd

theorem isRealBody_digits (ds rest : Bytes) (h : allDig ds) (gd ge : Bool) (r : Nat) :
    isRealBody (ds ++ rest) gd ge r = isRealBody rest gd ge (r + ds.length) := by
  induction ds generalizing r with
  | nil => simp
  | cons c t ih =>
    have hc := h c (by simp)
    simp only [List.cons_append, isRealBody, hc, if_true]
    rw [ih (fun x hx => h x (by simp [hx]))]
    congr 1
    simp only [List.length_cons]; omega

theorem fmtFixed_shape (neg : Bool) (mant : Nat) (e : Int) (prec : Nat) (hp : prec ≠ 0) :
    ∃ ip fp, fmtFixed neg mant e prec = (if neg then [45] else []) ++ (ip ++ 46 :: fp) ∧ ip ≠ [] ∧ allDig ip ∧ allDig fp := by
  have hp' : (prec == 0) = false := by simpa using hp
  unfold fmtFixed
  simp only [hp', Bool.false_eq_true, if_false, List.append_assoc]
  refine ⟨_, _, rfl, natDec_ne_nil _, natDec_allDig _, ?_⟩
  intro c hc
  rcases List.mem_append.mp hc with h | h
  · rw [(List.mem_replicate.mp h).2]; decide
  · exact natDec_allDig _ c h

theorem fmtF1_shape (b : UInt32) (h : finiteF32 b) :
    ∃ sg ip fp, fmtF1 b = sg ++ (ip ++ 46 :: fp) ∧ (sg = [] ∨ sg = [45]) ∧ ip ≠ [] ∧ allDig ip ∧ allDig fp := by
  have h' : ((b.toNat / 2 ^ 23) % 256 == 255) = false := by simpa [finiteF32] using h
  unfold fmtF1
  simp only [h', Bool.false_eq_true, if_false]
  split
  · obtain ⟨ip, fp, he, h1, h2, h3⟩ := fmtFixed_shape (b.toNat / 2 ^ 31 == 1) (b.toNat % 2 ^ 23) (-149) 1 (by decide)
    exact ⟨_, ip, fp, he, by split <;> simp, h1, h2, h3⟩
  · obtain ⟨ip, fp, he, h1, h2, h3⟩ := fmtFixed_shape (b.toNat / 2 ^ 31 == 1) (b.toNat % 2 ^ 23 + 2 ^ 23)
      (Int.ofNat ((b.toNat / 2 ^ 23) % 256) - 150) 1 (by decide)
    exact ⟨_, ip, fp, he, by split <;> simp, h1, h2, h3⟩

/-- a token the cut-off parser accepts as a real number and that survives being written on a line -/
structure RealTok (t : Bytes) : Prop where
  name : nameOk t
  real : memIsReal t = true
  nolf : (10 : UInt8) ∉ t
  nocr : t.getLast? ≠ some 13
  notundef : memstrcmp t bUndefined = false

theorem realTok_of_shape (sg ip fp : Bytes) (hsg : sg = [] ∨ sg = [45]) (hip : ip ≠ []) (h1 : allDig ip) (h2 : allDig fp) :
    RealTok (sg ++ (ip ++ 46 :: fp)) := by
  have hbody : ∀ c ∈ ip ++ 46 :: fp, inDelim blankTab c = false ∧ c ≠ 10 ∧ c ≠ 13 := by
    intro c hc
    rcases List.mem_append.mp hc with h | h
    · have := digit_facts c (h1 c h); exact ⟨this.1, this.2.1, this.2.2.1⟩
    · rcases List.mem_cons.mp h with h | h
      · subst h; decide
      · have := digit_facts c (h2 c h); exact ⟨this.1, this.2.1, this.2.2.1⟩
  have hall : ∀ c ∈ sg ++ (ip ++ 46 :: fp), inDelim blankTab c = false ∧ c ≠ 10 ∧ c ≠ 13 := by
    intro c hc
    rcases List.mem_append.mp hc with h | h
    · rcases hsg with e | e
      · rw [e] at h; cases h
      · rw [e] at h; simp at h; subst h; decide
    · exact hbody c h
  obtain ⟨d, ip', rfl⟩ : ∃ d ip', ip = d :: ip' := by
    cases ip with
    | nil => exact absurd rfl hip
    | cons d t => exact ⟨d, t, rfl⟩
  have hd := digit_facts d (h1 d (by simp))
  have hreal : isRealBody (d :: ip' ++ 46 :: fp) false false 0 = some ([], (d :: ip').length + fp.length) := by
    rw [isRealBody_digits _ _ h1]
    have h46 : isDigit 46 = false := by decide
    simp only [isRealBody, h46, Bool.false_eq_true, if_false, beq_self_eq_true, if_true]
    have := isRealBody_digits fp [] h2 true false (0 + (d :: ip').length)
    rw [List.append_nil] at this
    rw [this]
    simp [isRealBody]
  refine ⟨⟨?_, fun c hc => (hall c hc).1⟩, ?_, fun h => (hall 10 h).2.1 rfl, fun h => (hall 13 (List.mem_of_getLast? h)).2.2 rfl, ?_⟩
  · rcases hsg with e | e <;> subst e <;> simp
  · rcases hsg with e | e <;> subst e
    · unfold memIsReal memIsReal0 realStartOk
      simp only [List.nil_append, List.cons_append, List.isEmpty_cons, Bool.false_eq_true, if_false, List.dropWhile, hd.2.2.2.1]
      have e1 : (d == 45 || d == 43) = false := by simp [hd.2.2.2.2.1, hd.2.2.2.2.2.1]
      simp only [e1, Bool.false_eq_true, if_false, h1 d (by simp), Bool.true_or, Bool.true_and]
      rw [show d :: (ip' ++ 46 :: fp) = d :: ip' ++ 46 :: fp from rfl, hreal]
      simp; omega
    · unfold memIsReal memIsReal0 realStartOk
      simp only [List.cons_append, List.nil_append, List.isEmpty_cons, Bool.false_eq_true, if_false, List.dropWhile,
        show isSpace 45 = false by decide, show ((45 : UInt8) == 45 || (45 : UInt8) == 43) = true by decide, if_true,
        h1 d (by simp), Bool.true_or, Bool.true_and]
      rw [show d :: (ip' ++ 46 :: fp) = d :: ip' ++ 46 :: fp from rfl, hreal]
      simp; omega
  · rcases hsg with e | e <;> subst e
    · simp only [memstrcmp, bUndefined, List.nil_append, List.cons_append, beq_eq_false_iff_ne, ne_eq, List.cons.injEq, not_and]
      intro h; exact absurd h hd.2.2.2.2.2.2.1
    · simp [memstrcmp, bUndefined]

theorem fmtF1_realTok (b : UInt32) (h : finiteF32 b) : RealTok (fmtF1 b) := by
  obtain ⟨sg, ip, fp, he, h0, h1, h2, h3⟩ := fmtF1_shape b h
  rw [he]; exact realTok_of_shape sg ip fp h0 h1 h2 h3

theorem parseCutoffs_one (st : StoSt) (a : Bytes) (i1 i2 : Nat) (u : Bool) (ha : RealTok a) :
    parseCutoffs st a i1 i2 u = .ok { st with cutset := st.cutset.set i1 true } := by
  unfold parseCutoffs
  simp only [memtok_name a ha.name, ha.real, ha.notundef, Bool.and_false, Bool.not_false, Bool.not_true, Bool.and_self,
    Bool.false_eq_true, if_false]
  simp [memtok, List.dropWhile]

theorem parseCutoffs_two (st : StoSt) (a b : Bytes) (i1 i2 : Nat) (u : Bool) (ha : RealTok a) (hb : RealTok b) :
    parseCutoffs st (a ++ [32] ++ b) i1 i2 u = .ok { st with cutset := (st.cutset.set i1 true).set i2 true } := by
  have hm := memtok_tok a [32] b ha.name ⟨by simp, by simp⟩ (nameOk_head b hb.name)
  unfold parseCutoffs
  simp only [hm, memtok_name b hb.name, ha.real, hb.real, ha.notundef, Bool.and_false, Bool.not_false, Bool.not_true, Bool.and_self,
    Bool.false_eq_true, if_false]

/-- the three two-threshold tags with the `cutset` slots they fill and the Rfam "undefined" allowance -/
def CutTag (tag : Bytes) (i1 i2 : Nat) (u : Bool) : Prop :=
  (tag = bGA ∧ i1 = 2 ∧ i2 = 3 ∧ u = false) ∨ (tag = bNC ∧ i1 = 4 ∧ i2 = 5 ∧ u = true) ∨ (tag = bTC ∧ i1 = 0 ∧ i2 = 1 ∧ u = false)

theorem parseGf_cut (st : StoSt) (tag sp val : Bytes) (i1 i2 : Nat) (u : Bool) (htag : CutTag tag i1 i2 u) (hs : SpOk sp)
    (hv : ∀ c, val.head? = some c → inDelim blankTab c = false) :
    parseGf st (bGF ++ [32] ++ (tag ++ sp ++ val)) = parseCutoffs st val i1 i2 u := by
  rcases htag with ⟨rfl, rfl, rfl, rfl⟩ | ⟨rfl, rfl, rfl, rfl⟩ | ⟨rfl, rfl, rfl, rfl⟩
  · obtain ⟨hm1, hm2⟩ := gf_memtok bGA sp val (by unfold nameOk; decide +kernel) hs hv
    unfold parseGf
    simp only [hm1, hm2]
    simp [memstrcmp, bGF, bID, bAC, bDE, bAU, bGA]
  · obtain ⟨hm1, hm2⟩ := gf_memtok bNC sp val (by unfold nameOk; decide +kernel) hs hv
    unfold parseGf
    simp only [hm1, hm2]
    simp [memstrcmp, bGF, bID, bAC, bDE, bAU, bGA, bNC]
  · obtain ⟨hm1, hm2⟩ := gf_memtok bTC sp val (by unfold nameOk; decide +kernel) hs hv
    unfold parseGf
    simp only [hm1, hm2]
    simp [memstrcmp, bGF, bID, bAC, bDE, bAU, bGA, bNC, bTC]

theorem cutLines_eq (L : StoLayout) (tag : Bytes) (c1 c2 : Option UInt32) :
    cutLines L tag c1 c2 = match c1, c2 with
      | some a, some b => [gfLine L tag (fmtF1 a ++ [32] ++ fmtF1 b)]
      | some a, none => [gfLine L tag (fmtF1 a)]
      | none, _ => [] := by
  unfold cutLines gfLine
  cases c1 <;> cases c2 <;> simp

theorem cut_steps (cfg : Cfg) (L : StoLayout) (rest : List Bytes) (st : StoSt) (hl : st.lead = false)
    (tag : Bytes) (i1 i2 : Nat) (u : Bool) (htag : CutTag tag i1 i2 u) (c1 c2 : Option UInt32)
    (h1 : ∀ v, c1 = some v → finiteF32 v) (h2 : ∀ v, c2 = some v → finiteF32 v) :
    stepsFrom (stoStep cfg) st (cutLines L tag c1 c2 ++ rest)
      = stepsFrom (stoStep cfg) { st with cutset := cutPair st.cutset i1 i2 c1 c2 } rest := by
  rw [cutLines_eq]
  cases c1 with
  | none => rfl
  | some a =>
    have ra := fmtF1_realTok a (h1 a rfl)
    cases c2 with
    | none =>
      obtain ⟨sp, hs, he⟩ := stoStep_gfline' cfg st L tag (fmtF1 a) hl
      simp only [List.cons_append, List.nil_append, stepsFrom, he,
        parseGf_cut st tag sp _ i1 i2 u htag hs (nameOk_head _ ra.name), parseCutoffs_one st _ i1 i2 u ra, liftE, cutPair]
    | some b =>
      have rb := fmtF1_realTok b (h2 b rfl)
      obtain ⟨sp, hs, he⟩ := stoStep_gfline' cfg st L tag (fmtF1 a ++ [32] ++ fmtF1 b) hl
      have hh : ∀ c, (fmtF1 a ++ [32] ++ fmtF1 b).head? = some c → inDelim blankTab c = false := by
        intro c hc
        apply nameOk_head _ ra.name c
        have hne := ra.name.1
        cases hfa : fmtF1 a with
        | nil => exact absurd hfa hne
        | cons x t => rw [hfa] at hc; simpa using hc
      simp only [List.cons_append, List.nil_append, stepsFrom, he,
        parseGf_cut st tag sp _ i1 i2 u htag hs hh, parseCutoffs_two st _ _ i1 i2 u ra rb, liftE, cutPair]

/-- one optional `#=GF ID/AC/DE/AU` line -/
theorem gfopt_step (cfg : Cfg) (L : StoLayout) (st st' : StoSt) (hl : st.lead = false) (tag : Bytes) (o : Option Bytes)
    (rest : List Bytes) (hnone : o = none → st' = st)
    (hsome : ∀ v sp, o = some v → SpOk sp → parseGf st (bGF ++ [32] ++ (tag ++ sp ++ v)) = .ok st') :
    stepsFrom (stoStep cfg) st (optLine o (gfLine L tag) ++ rest) = stepsFrom (stoStep cfg) st' rest := by
  cases o with
  | none => rw [hnone rfl]; rfl
  | some v =>
    obtain ⟨sp, hs, he⟩ := stoStep_gfline' cfg st L tag v hl
    simp only [optLine, List.cons_append, List.nil_append, stepsFrom, he, hsome v sp rfl hs, liftE]

/-- the header section leaves the reader with the comments, the four parsed `#=GF` fields, the cut-off flags and the
    unparsed `#=GF` tags set -/
theorem head_steps (cfg : Cfg) (m : Msa) (hp : StoAnn m) :
    stepsFrom (stoStep cfg) {} (stoAnnHead m) = .inl (headSt m) := by
  have h0 : stoStep cfg {} bSto10 = .inl { lead := false } := rfl
  let s1 : StoSt := { lead := false, comments := m.comments, commentAlloc := comAllocN m.comments.length }
  let s2 : StoSt := { s1 with name := m.name }
  let s3 : StoSt := { s2 with acc := m.acc }
  let s4 : StoSt := { s3 with desc := m.desc }
  let s5 : StoSt := { s4 with au := m.au }
  let s6 : StoSt := { s5 with cutset := cutPair s5.cutset 2 3 (m.cutoff.getD 2 none) (m.cutoff.getD 3 none) }
  let s7 : StoSt := { s6 with cutset := cutPair s6.cutset 4 5 (m.cutoff.getD 4 none) (m.cutoff.getD 5 none) }
  let s8 : StoSt := { s7 with cutset := cutPair s7.cutset 0 1 (m.cutoff.getD 0 none) (m.cutoff.getD 1 none) }
  have c1 : ∀ rest, stepsFrom (stoStep cfg) { lead := false } (m.comments.map (fun c => 35 :: c) ++ rest)
      = stepsFrom (stoStep cfg) s1 rest := by
    intro rest
    have := com_steps cfg rest m.comments { lead := false } rfl hp.com_ok rfl
    rw [this]
    simp [s1]
  have c2 : ∀ rest, stepsFrom (stoStep cfg) s1 ((if m.comments.isEmpty then [] else [[]]) ++ rest)
      = stepsFrom (stoStep cfg) s1 rest := by
    intro rest
    split
    · rfl
    · simp only [List.cons_append, List.nil_append, stepsFrom, stoStep_blank cfg s1 s1 rfl rfl]
  have a1 : ∀ rest, stepsFrom (stoStep cfg) s1 (optLine m.name (gfLine (stoLayout m) bID) ++ rest) = stepsFrom (stoStep cfg) s2 rest :=
    fun rest => gfopt_step cfg _ s1 s2 rfl bID m.name rest (fun e => by simp [s2, e, s1])
      (fun v sp e hs => by rw [parseGf_id s1 sp v hs (hp.name_ok v e)]; simp [s2, e])
  have a2 : ∀ rest, stepsFrom (stoStep cfg) s2 (optLine m.acc (gfLine (stoLayout m) bAC) ++ rest) = stepsFrom (stoStep cfg) s3 rest :=
    fun rest => gfopt_step cfg _ s2 s3 rfl bAC m.acc rest (fun e => by simp [s3, e, s2, s1])
      (fun v sp e hs => by rw [parseGf_ac s2 sp v hs (hp.acc_ok v e)]; simp [s3, e])
  have a3 : ∀ rest, stepsFrom (stoStep cfg) s3 (optLine m.desc (gfLine (stoLayout m) bDE) ++ rest) = stepsFrom (stoStep cfg) s4 rest :=
    fun rest => gfopt_step cfg _ s3 s4 rfl bDE m.desc rest (fun e => by simp [s4, e, s3, s2, s1])
      (fun v sp e hs => by rw [parseGf_de s3 sp v hs (hp.desc_ok v e)]; simp [s4, e])
  have a4 : ∀ rest, stepsFrom (stoStep cfg) s4 (optLine m.au (gfLine (stoLayout m) bAU) ++ rest) = stepsFrom (stoStep cfg) s5 rest :=
    fun rest => gfopt_step cfg _ s4 s5 rfl bAU m.au rest (fun e => by simp [s5, e, s4, s3, s2, s1])
      (fun v sp e hs => by rw [parseGf_au s4 sp v hs (hp.au_ok v e)]; simp [s5, e])
  have k1 : ∀ rest, stepsFrom (stoStep cfg) s5 (cutLines (stoLayout m) bGA (m.cutoff.getD 2 none) (m.cutoff.getD 3 none) ++ rest)
      = stepsFrom (stoStep cfg) s6 rest :=
    fun rest => cut_steps cfg _ rest s5 rfl bGA 2 3 false (Or.inl ⟨rfl, rfl, rfl, rfl⟩) _ _ (hp.cut_ok 2) (hp.cut_ok 3)
  have k2 : ∀ rest, stepsFrom (stoStep cfg) s6 (cutLines (stoLayout m) bNC (m.cutoff.getD 4 none) (m.cutoff.getD 5 none) ++ rest)
      = stepsFrom (stoStep cfg) s7 rest :=
    fun rest => cut_steps cfg _ rest s6 rfl bNC 4 5 true (Or.inr (Or.inl ⟨rfl, rfl, rfl, rfl⟩)) _ _ (hp.cut_ok 4) (hp.cut_ok 5)
  have k3 : ∀ rest, stepsFrom (stoStep cfg) s7 (cutLines (stoLayout m) bTC (m.cutoff.getD 0 none) (m.cutoff.getD 1 none) ++ rest)
      = stepsFrom (stoStep cfg) s8 rest :=
    fun rest => cut_steps cfg _ rest s7 rfl bTC 0 1 false (Or.inr (Or.inr ⟨rfl, rfl, rfl, rfl⟩)) _ _ (hp.cut_ok 0) (hp.cut_ok 1)
  have g1 : ∀ rest, stepsFrom (stoStep cfg) s8 (m.gf.map (fun t => gfLine (stoLayout m) t.1 t.2) ++ rest)
      = stepsFrom (stoStep cfg) (headSt m) rest := by
    intro rest
    have := gf_steps cfg (stoLayout m) rest m.gf s8 rfl hp.gf_ok rfl
    rw [this]
    simp [s8, s7, s6, s5, s4, s3, s2, s1, headSt, cutsetOf]
  unfold stoAnnHead
  simp only [List.cons_append, List.nil_append, stepsFrom, h0]
  rw [c1, c2, a1, a2, a3, a4, k1, k2, k3, g1]
  simp only [stepsFrom, stoStep_blank cfg (headSt m) (headSt m) rfl rfl]

theorem blockStarts_cons' (alen cpl : Nat) (h : 1 ≤ alen) (hc : 0 < cpl) :
    blockStarts alen cpl = 0 :: blockStartsFrom alen cpl cpl := by
  unfold blockStarts
  rw [blockStartsFrom, dif_pos ⟨by omega, hc⟩, Nat.zero_add]

/-- beyond the last sequence there is no `#=GR` annotation -/
theorem grVal_vnone_of (m : Msa) (h1 : ∀ q, q < 3 → ∀ l, (perF m).getD q none = some l → l.length = m.nseq)
    (h2 : ∀ t ∈ m.gr, t.2.length = m.nseq) (q i : Nat) (hi : m.nseq ≤ i) : grVal m q i = none := by
  unfold grVal
  split
  · rename_i hq
    cases hl : (perF m).getD q none with
    | none => simp [optRow]
    | some l =>
      have := h1 q hq l hl
      simp only [optRow, Option.getD_some, List.getD_eq_getElem?_getD]
      rw [List.getElem?_eq_none (by omega)]; rfl
  · by_cases e : q - 3 < m.gr.length
    · have hmem : m.gr.getD (q - 3) ([], []) ∈ m.gr := by rw [getD_eq_getElem_of_lt _ e]; exact List.getElem_mem e
      have := h2 _ hmem
      rw [List.getD_eq_getElem?_getD (l := (m.gr.getD (q - 3) ([], [])).2), List.getElem?_eq_none (by omega)]; rfl
    · have e0 : m.gr.getD (q - 3) ([], []) = ([], []) := by
        rw [List.getD_eq_getElem?_getD, List.getElem?_eq_none (by omega)]; rfl
      rw [e0]; rfl

theorem grVal_vnone (m : Msa) (hp : StoAnn m) (q i : Nat) (hi : m.nseq ≤ i) : grVal m q i = none :=
  grVal_vnone_of m (fun q hq l hl => (hp.per_ok q hq l hl).1) (fun t ht => (hp.gr_tag_ok t ht).2) q i hi

theorem gsVal_vnone (m : Msa) (hp : StoAnn m) (q i : Nat) (hi : m.nseq ≤ i) : grVal (gsMsa m) q i = none :=
  grVal_vnone_of (gsMsa m) (fun q hq l hl => (hp.gs_per_ok q hq l hl).1) (fun t ht => (hp.gs_tag_ok t ht).2) q i hi

/-- everything of the `#=GS` section read -/
def gsFull (m : Msa) : GsSt := ⟨3 + m.gs.length, 0⟩

theorem foldl_len_ge (l : List Bytes) (a : Nat) : a ≤ l.foldl (fun a s => a + s.length) a := by
  induction l generalizing a with
  | nil => exact Nat.le_refl _
  | cons x t ih => simp only [List.foldl_cons]; exact Nat.le_trans (Nat.le_add_right _ _) (ih _)

theorem foldl_len_le (l : List Bytes) (a : Nat) (s : Bytes) (hs : s ∈ l) : s.length ≤ l.foldl (fun a s => a + s.length) a := by
  induction l generalizing a with
  | nil => cases hs
  | cons x t ih =>
    simp only [List.foldl_cons]
    rcases List.mem_cons.mp hs with e | e
    · subst e; exact Nat.le_trans (Nat.le_add_left _ _) (foldl_len_ge t _)
    · exact ih _ e

theorem gsVal_lt (m : Msa) (q i : Nat) (s : Bytes) (hq : q < 3 + m.gs.length) (hi : i < m.nseq)
    (hs : grVal (gsMsa m) q i = some s) : s.length < gsW m := by
  have hm : s ∈ gsVals m := by
    unfold gsVals
    simp only [List.mem_flatMap, List.mem_range, List.mem_filterMap]
    exact ⟨q, hq, i, hi, hs⟩
  have := foldl_len_le (gsVals m) 0 s hm
  unfold gsW; omega

theorem txtVal_gs (m : Msa) (q i : Nat) (s : Bytes) (hi : i < m.nseq) (hs : grVal (gsMsa m) q i = some s) :
    txtVal s (0 + gsW m) = some s := by
  have hq : q < 3 + m.gs.length := grVal_lt (gsMsa m) q i (by rw [hs]; rfl)
  have := gsVal_lt m q i s hq hi hs
  unfold txtVal
  rw [if_neg (by omega), List.take_of_length_le (by omega)]

theorem dnGs_full (m : Msa) (i q : Nat) (hi : i < m.nseq) (hv : (grVal (gsMsa m) q i).isSome = true) : dnGs m (gsFull m) i q = true := by
  have hq : q < 3 + m.gs.length := grVal_lt (gsMsa m) q i hv
  unfold dnGs gsFull; simp [hi, hq]

theorem InBlk_init (cfg : Cfg) (enc : UInt8 → UInt8) (txt : Nat → Bytes) (m : Msa) (hp : StoAnn m) (w : Nat) :
    InBlk cfg enc txt m GsSt.none 0 w 0 0 0 0 0 (headSt m) :=
  { fr :=
      { lead := rfl, name := rfl, desc := rfl, acc := rfl, au := rfl
        cons_len := rfl, consLen_len := rfl
        cons := fun k hk => by
          have e : consVal m (if k < 0 then 0 + w else 0) k = none := by
            rw [if_neg (Nat.not_lt_zero k)]; unfold consVal; split <;> simp
          rw [e]
          show (List.replicate 5 none)[k]? = _
          rw [List.getElem?_replicate, if_pos hk]
        consLen := fun k hk _ => by
          rw [if_neg (Nat.not_lt_zero k)]
          show (List.replicate 5 0)[k]? = _
          rw [List.getElem?_replicate, if_pos hk]
        cutset := rfl
        comments := rfl
        gf := rfl
        gcI := { tags := by simp [ngcOf]; rfl, gc_len := by simp [ngcOf]; rfl, lens_len := by simp [ngcOf]; rfl
                 le := by simp [ngcOf], gc := fun k hk => by simp [ngcOf] at hk, lens := fun k hk => by simp [ngcOf] at hk } }
    gsI := ⟨fun _ => rfl, by show (List.replicate 16 Wgt.unset).length = 16; simp,
      fun i hi => Or.inl (by show (List.replicate 16 Wgt.unset)[i]? = _; rw [List.getElem?_replicate, if_pos (show i < 16 from hi)]),
      List.replicate 3 none, [],
      GrInv.init (gsMsa m) (gsW m) 16 (dnGs m GsSt.none)
      (fun i q => by simp [dnGs, GsSt.none]) (gsVal_vnone m hp)⟩
    grI := GrInv.init m w 16 (dnOf 0 (nslots m)) (fun i q => dnOf_false_of_ge 0 (nslots m) i q (Nat.zero_le _)) (grVal_vnone m hp)
    alen := rfl, nblock := ⟨fun _ => rfl, fun _ => rfl⟩, names := by simp [headSt], nseq := rfl
    alloc := by show 0 ≤ 16; omega
    apos := by show 0 < 16; omega
    rows_len := by show (List.replicate 16 (none : Option Bytes)).length = 16; simp
    rows_done := fun i hi => by omega
    rows_todo := fun i _ hi2 => by
      have hi2' : i < 16 := hi2
      show (List.replicate 16 none)[i]? = _
      rw [List.getElem?_replicate, if_pos hi2']
      simp [phyRowAt]
    salloc := rfl
    sqlen_len := by show (List.replicate 16 0).length = 16; simp
    sqlen_done := fun i hi => by omega
    sqlen_todo := fun i _ hi2 => by
      have hi2' : i < 16 := hi2
      show (List.replicate 16 0)[i]? = _
      rw [List.getElem?_replicate, if_pos hi2']
      simp
    bpos := by show 0 < 16; omega
    blt_len := by show (List.replicate 16 (none : Option Nat)).length = 16; simp
    bidx_len := by show (List.replicate 16 (none : Option (Option Nat))).length = 16; simp
    nrec := by show 0 ≤ 16; omega
    blt := fun i hi => by omega
    bidx := fun i hi => by omega
    npb := fun e => absurd rfl e
    bi := rfl, si := Or.inl rfl, nseqB := rfl
    alenB := fun e => absurd rfl e
    inBlock := rfl }

/-! ## the `#=GS` section: `#=GS <seqname> AC`, `#=GS <seqname> DE`, unparsed `#=GS <seqname> <tag>` -/

theorem stoStep_gsline (cfg : Cfg) (st : StoSt) (rest : Bytes) (hl : st.lead = false) :
    stoStep cfg st (bGS ++ [32] ++ rest) = liftE (parseGs st (bGS ++ [32] ++ rest)) := by
  unfold stoStep
  simp [hl, bGS, List.dropWhile, memstrpfx, bSlash, bGF, List.isPrefixOf]

theorem gsline_shape (m : Msa) (q i : Nat) (v : Bytes) :
    ∃ sp, gsLine m q i v = bGS ++ [32] ++ (m.names.getD i [] ++ sp ++ (gsTagOf m q ++ [32] ++ v)) ∧ SpOk sp := by
  refine ⟨List.replicate (((stoLayout m).maxname : Int).natAbs - (m.names.getD i []).length) 32 ++ [32], ?_, sp_rep _⟩
  unfold gsLine padRight
  rw [sGS_eq]; simp

theorem gsTag_facts (m : Msa) (hp : StoAnn m) (q : Nat) (hq : q < 3 + m.gs.length) :
    nameOk (gsTagOf m q) ∧ (10 : UInt8) ∉ gsTagOf m q := by
  rcases q with _ | _ | _ | q
  · rw [show gsTagOf m 0 = bWT from rfl]; unfold nameOk; decide +kernel
  · rw [show gsTagOf m (0 + 1) = bAC from rfl]; unfold nameOk; decide +kernel
  · rw [show gsTagOf m (0 + 1 + 1) = bDE from rfl]; unfold nameOk; decide +kernel
  · have e : q + 1 + 1 + 1 = 3 + q := by omega
    rw [e, gsTagOf_other]
    have ht : q < m.gs.length := by omega
    have hmem : m.gs.getD q ([], []) ∈ m.gs := by rw [getD_eq_getElem_of_lt _ ht]; exact List.getElem_mem ht
    have hok := (hp.gs_tag_ok _ hmem).1
    exact ⟨hok.1, hok.2.1⟩

/-- an unparsed `#=GS` tag goes to `esl_msa_AddGS` -/
theorem gsApply_other (st : StoSt) (i : Nat) (tag v : Bytes) (ht : gsTagOk tag) : gsApply st i tag v = addGS st tag i v := by
  obtain ⟨_, _, t1, t2, t3⟩ := ht
  unfold gsApply
  simp only [memstrcmp, beq_eq_false_iff_ne.mpr t1, beq_eq_false_iff_ne.mpr t2, beq_eq_false_iff_ne.mpr t3, Bool.false_eq_true, if_false]

/-- `esl_msa_AddGS` for a (tag, sequence) that has no value yet -/
theorem addGS_eval (st st2 : StoSt) (tag : Bytes) (t i : Nat) (v : Bytes) (row : List (Option Bytes))
    (hidx : getGsTagIdx st tag = (st2, t)) (hG : st2.gs[t]? = some row) (hc : row[i]? = some none) (hv0 : cstr v = v) :
    addGS st tag i v = .ok { st2 with gs := st2.gs.set t (row.set i (some v)) } := by
  have hi := lt_length_of_getElem? hc
  have ht := lt_length_of_getElem? hG
  unfold addGS
  simp only [hidx, getE_of hG, getE_of hc, hv0, setE, hi, ht, if_true, List.length_set]

/-- `stockholm_parse_gs` once the sequence is found and the annotation stored -/
theorem parseGs_eval (st st1 st2 : StoSt) (p p1 p2 name tag v : Bytes) (i : Nat)
    (hm1 : memtok p blankTab = some (bGS, p1)) (hm2 : memtok p1 blankTab = some (name, p2)) (hm3 : memtok p2 blankTab = some (tag, v))
    (hidx : gsSeqIdx st name = .ok (st1, i)) (happ : gsApply st1 i tag v = .ok st2) :
    parseGs st p = .ok { st2 with si := i + 1 } := by
  unfold parseGs
  simp only [hm1, hm2, hm3, show memstrcmp bGS bGS = true from by decide, Bool.not_true, Bool.false_eq_true, if_false, hidx, happ]

/-- `#=GS <seqname> AC <acc>` for a sequence that has no accession yet -/
theorem gsApply_ac (st : StoSt) (i : Nat) (v : Bytes) (hv : gfTokOk v) (arr : List (Option Bytes))
    (harr : (st.sqacc = none ∧ arr = List.replicate st.sqalloc none) ∨ st.sqacc = some arr) (hlen : arr.length = st.sqalloc)
    (hi : i < st.sqalloc) (hcell : arr[i]? = some none) :
    gsApply st i bAC v = .ok { st with sqacc := some (arr.set i (some v)) } := by
  have hm := memtok_name v hv.1
  have hcs := cstr_id v (nameOk_nonul v hv.1)
  have hge : ¬ (i ≥ st.sqalloc) := by omega
  have hil : i < arr.length := by omega
  unfold gsApply
  simp only [show memstrcmp bAC bWT = false from by decide, show memstrcmp bAC bAC = true from by decide, Bool.false_eq_true, if_false,
    if_true, hm]
  rcases harr with ⟨h0, ha⟩ | h1
  · subst ha
    simp [optIsSet, h0, setSeqOpt, hge, hcs, setE, hi]
  · simp [optIsSet, h1, getE_of hcell, setSeqOpt, hge, hcs, setE, hil]

/-- `#=GS <seqname> DE <text>` for a sequence that has no description yet -/
theorem gsApply_de (st : StoSt) (i : Nat) (v : Bytes) (hv : gfTextOk v) (arr : List (Option Bytes))
    (harr : (st.sqdesc = none ∧ arr = List.replicate st.sqalloc none) ∨ st.sqdesc = some arr) (hlen : arr.length = st.sqalloc)
    (hi : i < st.sqalloc) (hcell : arr[i]? = some none) :
    gsApply st i bDE v = .ok { st with sqdesc := some (arr.set i (some v)) } := by
  have hcs := cstr_id v (fun c hc e => hv.2.1 (e ▸ hc))
  have hge : ¬ (i ≥ st.sqalloc) := by omega
  have hil : i < arr.length := by omega
  unfold gsApply
  simp only [show memstrcmp bDE bWT = false from by decide, show memstrcmp bDE bAC = false from by decide,
    show memstrcmp bDE bDE = true from by decide, Bool.false_eq_true, if_false, if_true]
  rcases harr with ⟨h0, ha⟩ | h1
  · subst ha
    simp [optIsSet, h0, setSeqOpt, hge, hcs, setE, hi]
  · simp [optIsSet, h1, getE_of hcell, setSeqOpt, hge, hcs, setE, hil]

/-- the guess `pd->si` of `stockholm_parse_gs` never matters -/
theorem gsSeqIdx_eq (st : StoSt) (name : Bytes) (hsi : st.si ≤ st.nseq) (hn : st.nseq = st.names.length)
    (ha : st.names.length ≤ st.sqalloc) (hnd : st.names.Nodup) : gsSeqIdx st name = getSeqIdx st name := by
  unfold gsSeqIdx
  by_cases e : st.si = st.nseq
  · simp [e]
  · have e' : (st.si == st.nseq) = false := by simpa using e
    have hsq : st.si < st.sqalloc := by omega
    simp only [e', Bool.false_eq_true, if_false, sqnameAt, hsq, if_true]
    by_cases e2 : st.names[st.si]? = some name
    · simp [e2, getSeqIdx_found st name hnd st.si e2]
    · have e3 : (st.names[st.si]? != some name) = true := by simpa using e2
      simp only [e3, if_true]

theorem dnGs_step (m : Msa) (q i i' q' : Nat) (hi : i < m.nseq) : dnGs m ⟨q, i + 1⟩ i' q' = upd (dnGs m ⟨q, i⟩) i q i' q' := by
  unfold dnGs upd; rw [Bool.eq_iff_iff]; simp; omega

/-- the `#=GS` progress only matters where there is annotation -/
theorem InBlkQ.gsCongr {cfg : Cfg} {enc : UInt8 → UInt8} {txt : Nat → Bytes} {m : Msa} {G : GsSt} {pos w jn jb j q k g : Nat} {st : StoSt}
    (h : InBlkQ cfg enc txt m G pos w jn jb j q k g st) (G' : GsSt)
    (hd : ∀ i' q', (grVal (gsMsa m) q' i').isSome = true → dnGs m G' i' q' = dnGs m G i' q') :
    InBlkQ cfg enc txt m G' pos w jn jb j q k g st :=
  { h with
    fr := { h.fr with lead := h.fr.lead }
    gsI := ⟨h.gsI.w0, h.gsI.wl, h.gsI.wv, by obtain ⟨PL, L, hI⟩ := h.gsI.inv; exact ⟨PL, L, hI.congr hd⟩⟩ }

theorem gs_getD_fst (m : Msa) (t : Nat) : (m.gs.getD t ([], [])).1 = (m.gs.map (·.1)).getD t [] := by
  simp only [List.getD_eq_getElem?_getD, List.getElem?_map]
  cases m.gs[t]? <;> rfl

/-- `#=GS <seqname> WT <weight>` for a sequence that has no weight yet -/
theorem gsApply_wt (st : StoSt) (i : Nat) (v : Bytes) (hv : wgtTokOk v) (hc : st.wgt[i]? = some Wgt.unset) :
    gsApply st i bWT v = .ok { st with wgt := st.wgt.set i (Wgt.val 0), hasw := true } := by
  have hm := memtok_name v hv.1
  have hi := lt_length_of_getElem? hc
  have hw : wgtOfTok v = Wgt.val 0 := by unfold wgtOfTok; rw [hv.2.2.2.2]; rfl
  unfold gsApply
  simp [show memstrcmp bWT bWT = true from by decide, hm, getE_of hc, hv.2.1, setE, hi, hw]

/-- the weight array after a `WT` line, seen as an array of tokens -/
theorem wgtRows_set (m : Msa) (hasw : Bool) (wgt : List Wgt) (n i : Nat) (hl : wgt.length = n) (hi : i < n)
    (arr : List (Option Bytes))
    (harr : (hasw = false ∧ wgt = List.replicate n Wgt.unset ∧ arr = List.replicate n none) ∨ wgtRows m hasw wgt = some arr) :
    wgtRows m true (wgt.set i (Wgt.val 0)) = some (arr.set i (some (wtTok m i))) := by
  have harr' : arr = (List.range n).map (fun j => if wgt.getD j Wgt.unset == Wgt.unset then none else some (wtTok m j)) := by
    rcases harr with ⟨_, h2, h3⟩ | h
    · rw [h3, h2]
      apply List.ext_getElem?
      intro j
      by_cases hj : j < n
      · simp [List.getElem?_replicate, hj, List.getD_eq_getElem?_getD]
      · simp [List.getElem?_replicate, hj]
    · unfold wgtRows at h
      cases hasw with
      | false => simp at h
      | true => simp only [if_true, Option.some.injEq] at h; rw [← h, hl]
  unfold wgtRows
  simp only [if_true, List.length_set, hl, Option.some.injEq]
  rw [harr']
  apply List.ext_getElem?
  intro j
  by_cases hj : j < n
  · by_cases e : i = j
    · subst e
      simp [hj, List.getD_eq_getElem?_getD, List.getElem?_set, hl]
    · simp [hj, List.getD_eq_getElem?_getD, List.getElem?_set, e]
  · simp [hj, List.getElem?_set]

/-- one `#=GS` line -/
theorem gsLine_step (abc : Option Abc) (cfg : Cfg) (enc : UInt8 → UInt8) (txt : Nat → Bytes) (m : Msa)
    (W : StoWritable abc cfg enc txt m) (w q i jn : Nat) (st : StoSt) (hq : q < 3 + m.gs.length) (hi : i < m.nseq) (v : Bytes)
    (hv : grVal (gsMsa m) q i = some v) (h : InBlk cfg enc txt m ⟨q, i⟩ 0 w jn 0 0 0 0 st)
    (hjn : (jn = i ∧ ∀ q' i', q' < q → grVal (gsMsa m) q' i' = none) ∨ (i < jn ∧ jn = m.nseq)) :
    ∃ st', stoStep cfg st (gsLine m q i v) = .inl st' ∧
      InBlk cfg enc txt m ⟨q, i + 1⟩ 0 w (jnA jn (i + 1)) 0 0 0 0 st' := by
  have hnd : st.names.Nodup := by rw [h.names]; exact W.nodup.sublist (List.take_sublist _ _)
  have hsi : st.si ≤ st.nseq := by rcases h.si with e | ⟨_, _, e⟩ <;> omega
  have hgeq := gsSeqIdx_eq st (m.names.getD i []) hsi h.nseq h.alloc hnd
  -- the sequence
  have hfind : ∃ st1, gsSeqIdx st (m.names.getD i []) = .ok (st1, i) ∧ InBlk cfg enc txt m ⟨q, i⟩ 0 w (jnA jn (i + 1)) 0 0 0 0 st1 := by
    rcases hjn with ⟨e, hno⟩ | ⟨hlt, e⟩
    · subst e
      obtain ⟨st1, g1, g2⟩ := getSeqIdx_new cfg enc txt m w jn 0 0 0 0 st h hi (Nat.zero_le _) W.nodup (fun i' q' hv' hd => by
        unfold dnGs at hd
        simp only [Bool.and_eq_true, Bool.or_eq_true, decide_eq_true_eq] at hd
        rcases hd.2 with h' | h'
        · rw [hno q' i' h'] at hv'; cases hv'
        · exact h'.2)
      refine ⟨st1, by rw [hgeq]; exact g1, ?_⟩
      rw [show jnA jn (jn + 1) = jn + 1 from by unfold jnA; rw [if_neg (by omega)]]; exact g2
    · subst e
      have hnames : st.names = m.names := by rw [h.names]; exact List.take_length
      have hk : st.names[i]? = some (m.names.getD i []) := by
        rw [hnames, List.getD_eq_getElem?_getD, List.getElem?_eq_getElem (show i < m.names.length from hi)]; rfl
      refine ⟨st, by rw [hgeq]; exact getSeqIdx_found st _ hnd i hk, ?_⟩
      rw [show jnA m.nseq (i + 1) = m.nseq from by unfold jnA; rw [if_pos (by omega)]]; exact h
  obtain ⟨st1, hidx, h1⟩ := hfind
  have hjA : i < jnA jn (i + 1) := by unfold jnA; split <;> omega
  have hjAm : jnA jn (i + 1) ≤ m.nseq := by unfold jnA; rcases hjn with ⟨e, _⟩ | ⟨_, e⟩ <;> split <;> omega
  have hsq : i < st1.sqalloc := by
    have := h1.alloc
    have hl : st1.names.length = jnA jn (i + 1) := by
      rw [h1.names, List.length_take]; have : jnA jn (i + 1) ≤ m.names.length := hjAm; omega
    omega
  obtain ⟨hw0, hwl, hwv, PL, L, hI⟩ := h1.gsI
  have hval := W.ann.gs_val q i v hv
  obtain ⟨sp, hline, hsp⟩ := gsline_shape m q i v
  obtain ⟨htn, _⟩ := gsTag_facts m W.ann q hq
  have hvh : ∀ c, v.head? = some c → inDelim blankTab c = false := by
    by_cases e : q = 0
    · exact nameOk_head v (hval.1 e).1
    · by_cases e1 : q = 1
      · exact nameOk_head v (hval.2.1 e1).1
      · exact (hval.2.2.1 (by omega)).1
  have hm1 : memtok (bGS ++ [32] ++ (m.names.getD i [] ++ sp ++ (gsTagOf m q ++ [32] ++ v))) blankTab
      = some (bGS, m.names.getD i [] ++ sp ++ (gsTagOf m q ++ [32] ++ v)) :=
    memtok_tok bGS [32] _ (by unfold nameOk; decide +kernel) ⟨by simp, by simp⟩ (head_tok _ sp _ (W.name_ok i hi).1)
  have hm2 : memtok (m.names.getD i [] ++ sp ++ (gsTagOf m q ++ [32] ++ v)) blankTab = some (m.names.getD i [], gsTagOf m q ++ [32] ++ v) :=
    memtok_tok _ sp _ (W.name_ok i hi).1 hsp (head_tok _ [32] v htn)
  have hm3 : memtok (gsTagOf m q ++ [32] ++ v) blankTab = some (gsTagOf m q, v) := memtok_tok _ [32] v htn ⟨by simp, by simp⟩ hvh
  have hdn : dnGs m ⟨q, i⟩ i q = false := by unfold dnGs; simp
  have hcellv : cellOf 0 (gsW m) (dnGs m ⟨q, i⟩ i q) (grVal (gsMsa m) q i) = none := by rw [hdn]; exact cellOf_zero _ _
  have htv := txtVal_gs m q i v hi hv
  have hstep : ∀ {P : List OptRows} {PL' : List (Option (List Nat))} {T' : List Bytes} {G' : List (List (Option Bytes))}
      {L' : List (List Nat)}, GrInv (gsMsa m) 0 (gsW m) (upd (dnGs m ⟨q, i⟩) i q) st1.sqalloc P PL' T' G' L' →
      GrInv (gsMsa m) 0 (gsW m) (dnGs m ⟨q, i + 1⟩) st1.sqalloc P PL' T' G' L' :=
    fun hh => hh.congr (fun i' q' _ => dnGs_step m q i i' q' hi)
  by_cases hq3 : q < 3
  · rcases q with _ | _ | _ | t
    · -- WT
      have hgt : gsTagOf m 0 = bWT := rfl
      have hmw : m.hasw = true := by
        cases hh : m.hasw with
        | true => rfl
        | false => rw [gsVal_wt_none m hh] at hv; cases hv
      have hvt : v = wtTok m i := by
        have := gsVal_wt m hmw i hi; rw [hv] at this; exact Option.some.inj this
      have hperarr := hI.perArr 0 (by omega) i hi (by rw [hv]; rfl)
      obtain ⟨arr, lens, harr, hr⟩ : ∃ arr lens,
          ((st1.hasw = false ∧ st1.wgt = List.replicate st1.sqalloc Wgt.unset ∧ arr = List.replicate st1.sqalloc none) ∨
            wgtRows m st1.hasw st1.wgt = some arr) ∧
          RowSpec (gsMsa m) 0 (gsW m) (dnGs m ⟨0, i⟩) st1.sqalloc 0 arr lens := by
        rcases hperarr with ⟨hp, hr⟩ | ⟨arr, lens, hp, _, hr⟩
        · have hp' : wgtRows m st1.hasw st1.wgt = none := by simpa using hp
          have hf : st1.hasw = false := by
            cases hh : st1.hasw with
            | false => rfl
            | true => rw [hh] at hp'; simp [wgtRows] at hp'
          exact ⟨_, _, Or.inl ⟨hf, hw0 hf, rfl⟩, hr⟩
        · exact ⟨arr, lens, Or.inr (by simpa using hp), hr⟩
      have hc := hr.arr i hsq
      rw [hcellv] at hc
      have hwu : st1.wgt[i]? = some Wgt.unset := by
        rcases harr with ⟨_, h2, _⟩ | h2
        · rw [h2, List.getElem?_replicate, if_pos hsq]
        · rcases hwv i hsq with e | e
          · exact e
          · exfalso
            unfold wgtRows at h2
            cases hh : st1.hasw with
            | false => rw [hh] at h2; simp at h2
            | true =>
              rw [hh] at h2
              simp only [if_true, Option.some.injEq] at h2
              rw [← h2, List.getElem?_map, List.getElem?_range (by rw [hwl]; exact hsq)] at hc
              simp only [Option.map_some, List.getD_eq_getElem?_getD, e, Option.getD_some,
                show (Wgt.val 0 == Wgt.unset) = false from by decide, Bool.false_eq_true, if_false] at hc
              cases hc
      have happ := gsApply_wt st1 i v (hval.1 rfl) hwu
      have hp := parseGs_eval st st1 _ _ _ _ _ _ v i hm1 hm2 (by rw [hgt] at hm3; exact hm3) hidx happ
      refine ⟨_, by rw [hline, stoStep_gsline cfg st _ h.fr.lead, hp]; rfl, ?_⟩
      have hset := hstep (hI.setPer 0 (by omega) i hi hsq v hv arr lens hr)
      rw [htv, hvt] at hset
      have hrows := wgtRows_set m st1.hasw st1.wgt st1.sqalloc i hwl hsq arr harr
      have hn0 : true = false → st1.wgt.set i (Wgt.val 0) = List.replicate st1.sqalloc Wgt.unset := fun e => by cases e
      have hn1 : (st1.wgt.set i (Wgt.val 0)).length = st1.sqalloc := by rw [List.length_set]; exact hwl
      have hn2 : ∀ j, j < st1.sqalloc → (st1.wgt.set i (Wgt.val 0))[j]? = some Wgt.unset ∨
          (st1.wgt.set i (Wgt.val 0))[j]? = some (Wgt.val 0) := by
        intro j hj
        rw [List.getElem?_set]
        by_cases e : i = j
        · subst e; simp [hwl, hsq]
        · simp only [e, if_false]; exact hwv j hj
      have hn3 : GrInv (gsMsa m) 0 (gsW m) (dnGs m ⟨0, i + 1⟩) st1.sqalloc
          [wgtRows m true (st1.wgt.set i (Wgt.val 0)), st1.sqacc, st1.sqdesc] (PL.set 0 (some (lens.set i (0 + gsW m)))) st1.gsTags st1.gs L := by
        rw [hrows]; exact hset
      exact
        { h1 with
          fr := { h1.fr with lead := h1.fr.lead }
          gsI := ⟨hn0, hn1, hn2, _, L, hn3⟩
          si := Or.inr ⟨rfl, rfl, by show i + 1 ≤ st1.nseq; rw [h1.nseq, h1.names, List.length_take]; have : jnA jn (i + 1) ≤ m.names.length := hjAm; omega⟩ }
    · -- AC
      have hgt : gsTagOf m 1 = bAC := rfl
      have hperarr := hI.perArr 1 (by omega) i hi (by rw [hv]; rfl)
      obtain ⟨arr, lens, harr, hr⟩ : ∃ arr lens, ((st1.sqacc = none ∧ arr = List.replicate st1.sqalloc none) ∨ st1.sqacc = some arr) ∧
          RowSpec (gsMsa m) 0 (gsW m) (dnGs m ⟨1, i⟩) st1.sqalloc 1 arr lens := by
        rcases hperarr with ⟨hp, hr⟩ | ⟨arr, lens, hp, _, hr⟩
        · exact ⟨_, _, Or.inl ⟨by simpa using hp, rfl⟩, hr⟩
        · exact ⟨arr, lens, Or.inr (by simpa using hp), hr⟩
      have hc := hr.arr i hsq
      rw [hcellv] at hc
      have happ := gsApply_ac st1 i v (hval.2.1 rfl) arr harr hr.alen hsq hc
      have hp := parseGs_eval st st1 _ _ _ _ _ _ v i hm1 hm2 (by rw [hgt] at hm3; exact hm3) hidx happ
      refine ⟨_, by rw [hline, stoStep_gsline cfg st _ h.fr.lead, hp]; rfl, ?_⟩
      have hset := hstep (hI.setPer 1 (by omega) i hi hsq v hv arr lens hr)
      rw [htv] at hset
      exact
        { h1 with
          fr := { h1.fr with lead := h1.fr.lead }
          gsI := ⟨hw0, hwl, hwv, _, L, hset⟩
          si := Or.inr ⟨rfl, rfl, by show i + 1 ≤ st1.nseq; rw [h1.nseq, h1.names, List.length_take]; have : jnA jn (i + 1) ≤ m.names.length := hjAm; omega⟩ }
    · -- DE
      have hgt : gsTagOf m 2 = bDE := rfl
      have hperarr := hI.perArr 2 (by omega) i hi (by rw [hv]; rfl)
      obtain ⟨arr, lens, harr, hr⟩ : ∃ arr lens, ((st1.sqdesc = none ∧ arr = List.replicate st1.sqalloc none) ∨ st1.sqdesc = some arr) ∧
          RowSpec (gsMsa m) 0 (gsW m) (dnGs m ⟨2, i⟩) st1.sqalloc 2 arr lens := by
        rcases hperarr with ⟨hp, hr⟩ | ⟨arr, lens, hp, _, hr⟩
        · exact ⟨_, _, Or.inl ⟨by simpa using hp, rfl⟩, hr⟩
        · exact ⟨arr, lens, Or.inr (by simpa using hp), hr⟩
      have hc := hr.arr i hsq
      rw [hcellv] at hc
      have happ := gsApply_de st1 i v (hval.2.2.1 (by omega)) arr harr hr.alen hsq hc
      have hp := parseGs_eval st st1 _ _ _ _ _ _ v i hm1 hm2 (by rw [hgt] at hm3; exact hm3) hidx happ
      refine ⟨_, by rw [hline, stoStep_gsline cfg st _ h.fr.lead, hp]; rfl, ?_⟩
      have hset := hstep (hI.setPer 2 (by omega) i hi hsq v hv arr lens hr)
      rw [htv] at hset
      exact
        { h1 with
          fr := { h1.fr with lead := h1.fr.lead }
          gsI := ⟨hw0, hwl, hwv, _, L, hset⟩
          si := Or.inr ⟨rfl, rfl, by show i + 1 ≤ st1.nseq; rw [h1.nseq, h1.names, List.length_take]; have : jnA jn (i + 1) ≤ m.names.length := hjAm; omega⟩ }
    · omega
  · -- unparsed tag `t`
    obtain ⟨t, rfl⟩ : ∃ t, q = 3 + t := ⟨q - 3, by omega⟩
    have ht : t < m.gs.length := by omega
    have hmem : m.gs.getD t ([], []) ∈ m.gs := by rw [getD_eq_getElem_of_lt _ ht]; exact List.getElem_mem ht
    have htok := (W.ann.gs_tag_ok _ hmem).1
    have hgt : gsTagOf m (3 + t) = (m.gs.getD t ([], [])).1 := gsTagOf_other m t
    have hv0 : cstr v = v := cstr_id v (fun c hc e => (hval.2.2.1 (by omega)).2.1 (e ▸ hc))
    have hct : cstr (m.gs.getD t ([], [])).1 = (m.gs.getD t ([], [])).1 := cstr_id _ (nameOk_nonul _ htok.1)
    obtain ⟨ng, hT⟩ := hI.tagI
    have hgsgr : (gsMsa m).gr = m.gs := rfl
    by_cases hkn : t < ng
    · have hidx2 : getGsTagIdx st1 (m.gs.getD t ([], [])).1 = (st1, t) := by
        unfold getGsTagIdx
        rw [hT.tags, hgsgr, gs_getD_fst, findIdx?_take_self _ W.ann.gs_nodup t ng hkn (by rw [List.length_map]; exact hT.le)]
      obtain ⟨arr, lens, hga, hla, hr⟩ := hT.rows t hkn
      have hc := hr.arr i hsq
      rw [hcellv] at hc
      have happ : gsApply st1 i (gsTagOf m (3 + t)) v = .ok { st1 with gs := st1.gs.set t (arr.set i (some v)) } := by
        rw [hgt, gsApply_other st1 i _ v htok]
        exact addGS_eval st1 st1 _ t i v arr hidx2 hga hc hv0
      have hp := parseGs_eval st st1 _ _ _ _ _ _ v i hm1 hm2 hm3 hidx happ
      refine ⟨_, by rw [hline, stoStep_gsline cfg st _ h.fr.lead, hp]; rfl, ?_⟩
      have hset := hstep (hI.setGr i t ng (hT.stepKnown t hkn i hsq v hv arr lens hga hla))
      rw [htv] at hset
      exact
        { h1 with
          fr := { h1.fr with lead := h1.fr.lead }
          gsI := ⟨hw0, hwl, hwv, PL, _, hset⟩
          si := Or.inr ⟨rfl, rfl, by show i + 1 ≤ st1.nseq; rw [h1.nseq, h1.names, List.length_take]; have : jnA jn (i + 1) ≤ m.names.length := hjAm; omega⟩ }
    · have hprev : ∀ t', t' < t → t' < ng := by
        intro t' ht'
        obtain ⟨i', hi', hv'⟩ := W.ann.gs_ne t' (by omega)
        exact hT.unknown t' (show t' < m.gs.length by omega) i' hi' hv' (by unfold visOf dnGs; simp [hi']; omega)
      have hng : ng = t := by
        have : ng ≤ t := by omega
        by_cases e : t = 0
        · omega
        · have := hprev (t - 1) (by omega); omega
      subst hng
      have hidx2 : getGsTagIdx st1 (m.gs.getD ng ([], [])).1
          = ({ st1 with gsTags := st1.gsTags ++ [(m.gs.getD ng ([], [])).1], gs := st1.gs ++ [List.replicate st1.sqalloc none] }, ng) := by
        have hl : st1.gsTags.length = ng := by rw [hT.tags, List.length_take, List.length_map]; have := hT.le; omega
        have hnone : st1.gsTags.findIdx? (· == (m.gs.getD ng ([], [])).1) = none := by
          rw [hT.tags, hgsgr, gs_getD_fst]
          exact findIdx?_take_none _ W.ann.gs_nodup ng (by simpa using ht)
        unfold getGsTagIdx
        rw [hnone, hl, hct]
      have hfresh : ∀ i', i' < st1.sqalloc → (grVal (gsMsa m) (3 + ng) i').isSome = true → dnGs m ⟨3 + ng, i⟩ i' (3 + ng) = false := by
        intro i' _ hv'
        cases hd : dnGs m ⟨3 + ng, i⟩ i' (3 + ng) with
        | false => rfl
        | true =>
          have hi2 : i' < m.nseq := by unfold dnGs at hd; simp at hd; omega
          exact absurd (hT.unknown ng ht i' hi2 hv' (by unfold visOf; simp [hd])) hkn
      have hGr : (st1.gs ++ [List.replicate st1.sqalloc none])[ng]? = some (List.replicate st1.sqalloc none) := by
        rw [List.getElem?_append_right (by rw [hT.gr_len]; exact Nat.le_refl _), hT.gr_len]; simp
      have hc : (List.replicate st1.sqalloc (none : Option Bytes))[i]? = some none := by rw [List.getElem?_replicate, if_pos hsq]
      have happ : gsApply st1 i (gsTagOf m (3 + ng)) v
          = .ok { st1 with gsTags := st1.gsTags ++ [(m.gs.getD ng ([], [])).1],
                           gs := (st1.gs ++ [List.replicate st1.sqalloc none]).set ng ((List.replicate st1.sqalloc none).set i (some v)) } := by
        rw [hgt, gsApply_other st1 i _ v htok]
        exact addGS_eval st1 _ _ ng i v _ hidx2 hGr hc hv0
      have hp := parseGs_eval st st1 _ _ _ _ _ _ v i hm1 hm2 hm3 hidx happ
      refine ⟨_, by rw [hline, stoStep_gsline cfg st _ h.fr.lead, hp]; rfl, ?_⟩
      have hset := hstep (hI.setGr i ng (ng + 1) (hT.stepNew ht i hi hsq v hv hfresh))
      rw [htv] at hset
      exact
        { h1 with
          fr := { h1.fr with lead := h1.fr.lead }
          gsI := ⟨hw0, hwl, hwv, PL, _, by rw [set_snoc _ _ _ _ hT.gr_len.symm]; exact hset⟩
          si := Or.inr ⟨rfl, rfl, by show i + 1 ≤ st1.nseq; rw [h1.nseq, h1.names, List.length_take]; have : jnA jn (i + 1) ≤ m.names.length := hjAm; omega⟩ }

/-- the lines of one `#=GS` kind -/
theorem gsSec_steps (abc : Option Abc) (cfg : Cfg) (enc : UInt8 → UInt8) (txt : Nat → Bytes) (m : Msa)
    (W : StoWritable abc cfg enc txt m) (w q jn0 : Nat) (st : StoSt) (hq : q < 3 + m.gs.length)
    (hmode : (jn0 = 0 ∧ (∀ q' i', q' < q → grVal (gsMsa m) q' i' = none) ∧ ∀ i, i < m.nseq → (grVal (gsMsa m) q i).isSome = true) ∨
      jn0 = m.nseq)
    (h : InBlk cfg enc txt m ⟨q, 0⟩ 0 w jn0 0 0 0 0 st) :
    ∀ i, i ≤ m.nseq → ∃ st', stepsFrom (stoStep cfg) st ((List.range i).flatMap (fun i => optLine (grVal (gsMsa m) q i) (gsLine m q i))) = .inl st' ∧
      InBlk cfg enc txt m ⟨q, i⟩ 0 w (jnA jn0 i) 0 0 0 0 st' := by
  intro i
  induction i with
  | zero => intro _; exact ⟨st, rfl, by rw [show jnA jn0 0 = jn0 from by unfold jnA; split <;> omega]; exact h⟩
  | succ i ih =>
    intro hi
    obtain ⟨st1, hs1, h1⟩ := ih (by omega)
    have hA : jnA (jnA jn0 i) (i + 1) = jnA jn0 (i + 1) := by
      unfold jnA; rcases hmode with ⟨e, _⟩ | e <;> subst e <;> (repeat' split) <;> omega
    cases hv : grVal (gsMsa m) q i with
    | none =>
      have hk : jn0 = m.nseq := by
        rcases hmode with ⟨_, _, hall⟩ | e
        · have := hall i (by omega); rw [hv] at this; cases this
        · exact e
      refine ⟨st1, ?_, ?_⟩
      · rw [List.range_succ, List.flatMap_append, stepsFrom_append _ _ _ _ _ hs1]
        simp [hv, optLine, stepsFrom]
      · have e1 : jnA jn0 (i + 1) = jnA jn0 i := by subst hk; unfold jnA; rw [if_pos (by omega), if_pos (by omega)]
        rw [e1]
        exact h1.gsCongr ⟨q, i + 1⟩ (fun i' q' hs => by
          rw [dnGs_step m q i i' q' (by omega)]
          by_cases e : i' = i
          · by_cases e2 : q' = q
            · subst e e2; rw [hv] at hs; cases hs
            · exact upd_ne_q _ e2
          · exact upd_ne_i _ e)
    | some v =>
      obtain ⟨st2, hs2, h2⟩ := gsLine_step abc cfg enc txt m W w q i (jnA jn0 i) st1 hq (by omega) v hv h1 (by
        rcases hmode with ⟨e, hno, _⟩ | e
        · subst e; exact Or.inl ⟨by unfold jnA; split <;> omega, hno⟩
        · subst e; exact Or.inr ⟨by unfold jnA; rw [if_pos (by omega)]; omega, by unfold jnA; rw [if_pos (by omega)]⟩)
      rw [hA] at h2
      refine ⟨st2, ?_, h2⟩
      rw [List.range_succ, List.flatMap_append, stepsFrom_append _ _ _ _ _ hs1]
      simp only [List.flatMap_cons, List.flatMap_nil, List.append_nil, hv, optLine, stepsFrom, hs2]

theorem endBlock_idle (st : StoSt) (h : st.inBlock = false) : endBlock st = .ok st := by
  unfold endBlock; simp [h]

/-- one complete `#=GS` kind with the blank line behind it -/
theorem gsSec_full (abc : Option Abc) (cfg : Cfg) (enc : UInt8 → UInt8) (txt : Nat → Bytes) (m : Msa)
    (W : StoWritable abc cfg enc txt m) (w q jn0 : Nat) (st : StoSt) (hq : q < 3 + m.gs.length)
    (hmode : (jn0 = 0 ∧ (∀ q' i', q' < q → grVal (gsMsa m) q' i' = none) ∧ ∀ i, i < m.nseq → (grVal (gsMsa m) q i).isSome = true) ∨
      jn0 = m.nseq)
    (h : InBlk cfg enc txt m ⟨q, 0⟩ 0 w jn0 0 0 0 0 st) :
    ∃ st', stepsFrom (stoStep cfg) st (stoGsSec m q ++ [[]]) = .inl st' ∧ InBlk cfg enc txt m ⟨q + 1, 0⟩ 0 w m.nseq 0 0 0 0 st' := by
  obtain ⟨st1, hs1, h1⟩ := gsSec_steps abc cfg enc txt m W w q jn0 st hq hmode h m.nseq (Nat.le_refl _)
  have hA : jnA jn0 m.nseq = m.nseq := by
    unfold jnA; rcases hmode with ⟨e, _⟩ | e <;> subst e <;> split <;> omega
  rw [hA] at h1
  have hib : st1.inBlock = false := by rw [h1.inBlock]; simp
  refine ⟨st1, ?_, h1.gsCongr ⟨q + 1, 0⟩ (fun i' q' _ => by unfold dnGs; rw [Bool.eq_iff_iff]; simp; omega)⟩
  unfold stoGsSec
  rw [stepsFrom_append _ _ _ _ _ hs1]
  simp only [stepsFrom, stoStep_blank cfg st1 st1 h1.fr.lead (endBlock_idle st1 hib)]

theorem gsVal_arr (m : Msa) (q i : Nat) (hq : q < 3) : grVal (gsMsa m) q i = optRow ((perF (gsMsa m)).getD q none) i := by
  unfold grVal; rw [if_pos hq]

/-- one of the kinds `WT`, `AC`, `DE`: written iff its array exists -/
theorem gsKind_step (abc : Option Abc) (cfg : Cfg) (enc : UInt8 → UInt8) (txt : Nat → Bytes) (m : Msa)
    (W : StoWritable abc cfg enc txt m) (w q jn0 : Nat) (st : StoSt) (hq : q < 3)
    (h : InBlk cfg enc txt m ⟨q, 0⟩ 0 w jn0 0 0 0 0 st)
    (hj : jn0 = m.nseq ∨ (jn0 = 0 ∧ ∀ q' i', q' < q → grVal (gsMsa m) q' i' = none)) :
    ∃ st' jn', stepsFrom (stoStep cfg) st (if ((perF (gsMsa m)).getD q none).isSome then stoGsSec m q ++ [[]] else []) = .inl st' ∧
      InBlk cfg enc txt m ⟨q + 1, 0⟩ 0 w jn' 0 0 0 0 st' ∧
      (jn' = m.nseq ∨ (jn' = 0 ∧ ∀ q' i', q' < q + 1 → grVal (gsMsa m) q' i' = none)) := by
  cases ha : (perF (gsMsa m)).getD q none with
  | none =>
    have hno : ∀ i, grVal (gsMsa m) q i = none := fun i => by rw [gsVal_arr m q i hq, ha]; rfl
    refine ⟨st, jn0, rfl, h.gsCongr ⟨q + 1, 0⟩ (fun i' q' hv => by
      have : q' ≠ q := fun e => by subst e; rw [hno] at hv; cases hv
      unfold dnGs; rw [Bool.eq_iff_iff]; simp; omega), ?_⟩
    rcases hj with e | ⟨e, hprev⟩
    · exact Or.inl e
    · refine Or.inr ⟨e, fun q' i' hq' => ?_⟩
      by_cases e2 : q' = q
      · subst e2; exact hno i'
      · exact hprev q' i' (by omega)
  | some l =>
    obtain ⟨_, i0, hi0, hs0⟩ := W.ann.gs_per_ok q hq l ha
    have hex : ∃ i, i < m.nseq ∧ (grVal (gsMsa m) q i).isSome = true := ⟨i0, hi0, by rw [gsVal_arr m q i0 hq, ha]; exact hs0⟩
    have hmode : (jn0 = 0 ∧ (∀ q' i', q' < q → grVal (gsMsa m) q' i' = none) ∧
        ∀ i, i < m.nseq → (grVal (gsMsa m) q i).isSome = true) ∨ jn0 = m.nseq := by
      rcases hj with e | ⟨e, hno⟩
      · exact Or.inr e
      · exact Or.inl ⟨e, hno, W.ann.gs_order q (by omega) (fun q' hq' i' _ => hno q' i' hq') hex⟩
    obtain ⟨st2, hs2, h2⟩ := gsSec_full abc cfg enc txt m W w q jn0 st (by omega) hmode h
    exact ⟨st2, m.nseq, by simpa using hs2, h2, Or.inl rfl⟩

theorem wtRowsM_isSome (m : Msa) : (wtRowsM m).isSome = m.hasw := by
  unfold wtRowsM; cases m.hasw <;> rfl

/-- the `#=GS … WT`, `#=GS … AC` and `#=GS … DE` kinds -/
theorem gs_steps_acde (abc : Option Abc) (cfg : Cfg) (enc : UInt8 → UInt8) (txt : Nat → Bytes) (m : Msa)
    (W : StoWritable abc cfg enc txt m) (w : Nat) :
    ∃ st' jn0, stepsFrom (stoStep cfg) (headSt m)
        ((if m.hasw then stoGsSec m 0 ++ [[]] else []) ++ ((if m.sqacc.isSome then stoGsSec m 1 ++ [[]] else [])
          ++ (if m.sqdesc.isSome then stoGsSec m 2 ++ [[]] else []))) = .inl st' ∧
      InBlk cfg enc txt m ⟨3, 0⟩ 0 w jn0 0 0 0 0 st' ∧
      (jn0 = m.nseq ∨ (jn0 = 0 ∧ ∀ q i, q < 3 → grVal (gsMsa m) q i = none)) := by
  have h0 := InBlk_init cfg enc txt m W.ann w
  obtain ⟨s1, j1, e1, h1, m1⟩ := gsKind_step abc cfg enc txt m W w 0 0 (headSt m) (by omega) h0 (Or.inr ⟨rfl, fun q' i' hq' => by omega⟩)
  obtain ⟨s2, j2, e2, h2, m2⟩ := gsKind_step abc cfg enc txt m W w 1 j1 s1 (by omega) h1 m1
  obtain ⟨s3, j3, e3, h3, m3⟩ := gsKind_step abc cfg enc txt m W w 2 j2 s2 (by omega) h2 m2
  refine ⟨s3, j3, ?_, h3, ?_⟩
  · have a0 : ((perF (gsMsa m)).getD 0 none).isSome = m.hasw := wtRowsM_isSome m
    rw [a0] at e1
    have e2' : stepsFrom (stoStep cfg) s1 (if m.sqacc.isSome then stoGsSec m 1 ++ [[]] else []) = .inl s2 := e2
    have e3' : stepsFrom (stoStep cfg) s2 (if m.sqdesc.isSome then stoGsSec m 2 ++ [[]] else []) = .inl s3 := e3
    rw [stepsFrom_append _ _ _ _ _ e1, stepsFrom_append _ _ _ _ _ e2']
    exact e3'
  · rcases m3 with e | ⟨e, hno⟩
    · exact Or.inl e
    · exact Or.inr ⟨e, fun q i hq => hno q i hq⟩

/-- the unparsed `#=GS` tags, one kind after the other -/
theorem gs_steps_tags (abc : Option Abc) (cfg : Cfg) (enc : UInt8 → UInt8) (txt : Nat → Bytes) (m : Msa)
    (W : StoWritable abc cfg enc txt m) (w : Nat) (st : StoSt) (jn0 : Nat) (h : InBlk cfg enc txt m ⟨3, 0⟩ 0 w jn0 0 0 0 0 st)
    (hjn0 : jn0 = m.nseq ∨ (jn0 = 0 ∧ ∀ q i, q < 3 → grVal (gsMsa m) q i = none)) :
    ∀ t, t ≤ m.gs.length → ∃ st' jn', stepsFrom (stoStep cfg) st ((List.range t).flatMap (fun t => stoGsSec m (3 + t) ++ [[]])) = .inl st' ∧
      InBlk cfg enc txt m ⟨3 + t, 0⟩ 0 w jn' 0 0 0 0 st' ∧
      (jn' = m.nseq ∨ (jn' = 0 ∧ ∀ q i, q < 3 + t → grVal (gsMsa m) q i = none)) := by
  intro t
  induction t with
  | zero => intro _; exact ⟨st, jn0, rfl, h, hjn0⟩
  | succ t ih =>
    intro ht
    obtain ⟨st1, jn1, hs1, h1, hj1⟩ := ih (by omega)
    have hmode : (jn1 = 0 ∧ (∀ q' i', q' < 3 + t → grVal (gsMsa m) q' i' = none) ∧
        ∀ i, i < m.nseq → (grVal (gsMsa m) (3 + t) i).isSome = true) ∨ jn1 = m.nseq := by
      rcases hj1 with e | ⟨e, hno⟩
      · exact Or.inr e
      · exact Or.inl ⟨e, hno, W.ann.gs_order (3 + t) (by omega) (fun q' hq' i' _ => hno q' i' hq') (W.ann.gs_ne t (by omega))⟩
    obtain ⟨st2, hs2, h2⟩ := gsSec_full abc cfg enc txt m W w (3 + t) jn1 st1 (by omega) hmode h1
    refine ⟨st2, m.nseq, ?_, h2, Or.inl rfl⟩
    rw [List.range_succ, List.flatMap_append, stepsFrom_append _ _ _ _ _ hs1]
    simpa using hs2

/-- the whole `#=GS` section -/
theorem gs_steps (abc : Option Abc) (cfg : Cfg) (enc : UInt8 → UInt8) (txt : Nat → Bytes) (m : Msa)
    (W : StoWritable abc cfg enc txt m) (w : Nat) :
    ∃ st' jn0, stepsFrom (stoStep cfg) (headSt m) (stoGsL m) = .inl st' ∧ InBlk cfg enc txt m (gsFull m) 0 w jn0 0 0 0 0 st' ∧
      (jn0 = m.nseq ∨ (jn0 = 0 ∧ ∀ q i, grVal (gsMsa m) q i = none)) := by
  obtain ⟨st1, jn1, hs1, h1, hj1⟩ := gs_steps_acde abc cfg enc txt m W w
  obtain ⟨st2, jn2, hs2, h2, hj2⟩ := gs_steps_tags abc cfg enc txt m W w st1 jn1 h1 hj1 m.gs.length (Nat.le_refl _)
  refine ⟨st2, jn2, ?_, h2, ?_⟩
  · unfold stoGsL
    rw [← List.append_assoc, ← List.append_assoc, List.append_assoc (if m.hasw = true then _ else _),
      stepsFrom_append _ _ _ _ _ hs1]
    exact hs2
  · rcases hj2 with e | ⟨e, hno⟩
    · exact Or.inl e
    · refine Or.inr ⟨e, fun q i => ?_⟩
      by_cases hq : q < 3 + m.gs.length
      · exact hno q i hq
      · cases hv : grVal (gsMsa m) q i with
        | none => rfl
        | some s => exact absurd (grVal_lt (gsMsa m) q i (by rw [hv]; rfl)) hq

/-! ## the end of the record -/

/-- everything Stockholm/Pfam represent of `m`: all of it; rows in the reader's mode; of the weights the reader MODEL keeps
    whether they are set, not their value (`Wgt.val 0` for every sequence with `eslMSA_HASWGTS`, else the default weights); of
    the cut-offs the reader MODEL keeps which ones are set (a second threshold only with the first), not their value (`some 0`) -/
def stoProject (cfg : Cfg) (m : Msa) : Msa :=
  { m with digital := cfg.digital, kp := cfg.kp,
           aseq := if cfg.digital then [] else (List.range m.nseq).map m.stored,
           ax := if cfg.digital then (List.range m.nseq).map m.stored else [],
           wgt := if m.hasw then List.replicate m.nseq (Wgt.val 0) else List.replicate m.nseq Wgt.dflt,
           cutoff := if (cutsetOf m).any id then (cutsetOf m).map (fun b => if b then some 0 else none) else [] }

theorem rows_take_final (rows : List (Option Bytes)) (n : Nat) (f : Nat → Bytes)
    (h : ∀ i, i < n → rows[i]? = some (some (f i))) : (rows.take n).map (·.getD []) = (List.range n).map f := by
  apply List.ext_getElem?
  intro i
  by_cases hi : i < n
  · simp [List.getElem?_take, hi, h i hi]
  · simp [List.getElem?_take, hi]

theorem consVal_full (m : Msa) (hp : StoAnn m) (ha : 1 ≤ m.alen) (k : Nat) : consVal m m.alen k = (consF m).getD k none := by
  unfold consVal
  cases hs : (consF m).getD k none with
  | none => rfl
  | some s =>
    have := (hp.cons_ok k s hs).1
    have h0 : ¬ (m.alen = 0) := by omega
    simp only [h0, if_false]
    rw [← this, List.take_length]

theorem stoFinal_full (abc : Option Abc) (cfg : Cfg) (enc : UInt8 → UInt8) (txt : Nat → Bytes) (m : Msa)
    (W : StoWritable abc cfg enc txt m) (w : Nat) (st : StoSt)
    (h : InBlk cfg enc txt m (gsFull m) m.alen w m.nseq (blockSpec m).length 0 0 0 st) :
    stoFinal cfg st = .ok (stoProject cfg m) := by
  have hfr := h.fr
  have hp := W.ann
  have ha1 := W.alen1
  have hn1 := W.n1
  have hnsl := nsl_ge m
  have hnames : st.names = m.names := by rw [h.names]; exact List.take_length
  have hnl : st.names.length = m.nseq := by rw [hnames]; rfl
  have hnseq : st.nseq = m.nseq := by rw [h.nseq, hnl]
  have hnb : (st.nblock == 0) = false := by
    have : st.nblock ≠ 0 := fun e => by have := h.nblock.mp e; omega
    simpa using this
  have hn0 : (st.nseq == 0) = false := by rw [hnseq]; simp; omega
  have hsq : ∀ i, i < m.nseq → i < st.sqalloc := fun i hi => by have := h.alloc; omega
  have hfind : (List.range st.nseq).find? (fun i => st.sqlen[i]? != some st.alen) = none := by
    rw [List.find?_eq_none]
    intro i hi
    rw [hnseq] at hi
    have hi' := List.mem_range.mp hi
    have := h.sqlen_todo i (Nat.zero_le _) (hsq i hi')
    rw [if_pos hi'] at this
    rw [this, h.alen]; simp
  have hrows : (st.rows.take m.nseq).map (·.getD []) = (List.range m.nseq).map m.stored := by
    apply rows_take_final
    intro i hi
    have := h.rows_todo i (Nat.zero_le _) (hsq i hi)
    rw [if_pos hi, phyRowAt_full _ _ _ _ _ (by omega) (by rw [W.txt_len i hi]; exact Nat.le_refl _)] at this
    rw [this, W.row_enc i hi]
  have hcons : ∀ k, k < 5 → st.cons.getD k none = (consF m).getD k none := by
    intro k hk
    have := hfr.cons k hk
    rw [if_neg (Nat.not_lt_zero k), consVal_full m hp ha1 k] at this
    rw [List.getD_eq_getElem?_getD]
    show ((annOf st).cons[k]?).getD none = _
    rw [this]; rfl
  have c0 := hcons 0 (by omega)
  have c1 := hcons 1 (by omega)
  have c2 := hcons 2 (by omega)
  have c3 := hcons 3 (by omega)
  have c4 := hcons 4 (by omega)
  have hwl := h.gsI.wl
  have hwv := h.gsI.wv
  have e_name : st.name = m.name := hfr.name
  have e_desc : st.desc = m.desc := hfr.desc
  have e_acc : st.acc = m.acc := hfr.acc
  have e_au : st.au = m.au := hfr.au
  have hnsq0 : m.nseq ≤ st.sqalloc := by have := h.alloc; omega
  obtain ⟨gPL, gL, hGs⟩ := h.gsI.inv
  have hgvis : ∀ i q, i < (gsMsa m).nseq → (grVal (gsMsa m) q i).isSome = true → visOf 0 (dnGs m (gsFull m)) i q = true := by
    intro i q hi hv
    unfold visOf; rw [dnGs_full m i q hi hv]; rfl
  have hgcell : ∀ q i, i < (gsMsa m).nseq →
      cellOf 0 (gsW m) (dnGs m (gsFull m) i q) (grVal (gsMsa m) q i) = grVal (gsMsa m) q i := by
    intro q i hi
    cases hv : grVal (gsMsa m) q i with
    | none => rfl
    | some s =>
      rw [dnGs_full m i q hi (by rw [hv]; rfl)]
      show txtVal s (0 + gsW m) = some s
      exact txtVal_gs m q i s hi hv
  have e_wt : (wgtRows m st.hasw st.wgt).map (·.take m.nseq) = wtRowsM m :=
    hGs.final_per hnsq0 hgvis hgcell 0 (by omega) (hp.gs_per_ok 0 (by omega))
  have e_sqacc : st.sqacc.map (·.take m.nseq) = m.sqacc :=
    hGs.final_per hnsq0 hgvis hgcell 1 (by omega) (hp.gs_per_ok 1 (by omega))
  have e_sqdesc : st.sqdesc.map (·.take m.nseq) = m.sqdesc :=
    hGs.final_per hnsq0 hgvis hgcell 2 (by omega) (hp.gs_per_ok 2 (by omega))
  have e_hasw : st.hasw = m.hasw := by
    have := congrArg Option.isSome e_wt
    rw [wtRowsM_isSome, Option.isSome_map] at this
    rw [← this]; unfold wgtRows; cases st.hasw <;> rfl
  have e_wgt : m.hasw = true → st.wgt.take m.nseq = List.replicate m.nseq (Wgt.val 0) := by
    intro hm
    have hh : st.hasw = true := by rw [e_hasw, hm]
    apply List.ext_getElem?
    intro i
    by_cases hi : i < m.nseq
    · rw [List.getElem?_take, if_pos hi, List.getElem?_replicate, if_pos hi]
      rcases hwv i (by omega) with e | e
      · exfalso
        rw [hh] at e_wt
        unfold wgtRows wtRowsM at e_wt
        simp only [if_true, hm, Option.map_some, Option.some.injEq] at e_wt
        have h1 := congrArg (fun l => l[i]?) e_wt
        simp only [List.getElem?_take, hi, if_true, List.getElem?_map, List.getElem?_range hi,
          List.getElem?_range (show i < st.wgt.length by rw [hwl]; omega), Option.map_some, List.getD_eq_getElem?_getD, e,
          Option.getD_some, beq_self_eq_true] at h1
        cases h1
      · exact e
    · rw [List.getElem?_take, if_neg hi, List.getElem?_replicate, if_neg hi]
  have e_gs : st.gsTags.zip (st.gs.map (·.take m.nseq)) = m.gs :=
    hGs.final_gr hnsq0 hgvis hgcell (fun t ht => (hp.gs_tag_ok t ht).2) hp.gs_ne
  have hG : GrInv m m.alen w (fun _ _ => false) st.sqalloc st.per st.perLen st.grTags st.gr st.ogrLen :=
    h.grI.congr (fun i q _ => (dnOf_false_of_ge 0 (nslots m) i q (Nat.zero_le _)).symm)
  have hnsq : m.nseq ≤ st.sqalloc := hnsq0
  have hrvis : ∀ i q, i < m.nseq → (grVal m q i).isSome = true → visOf m.alen (fun _ _ => false) i q = true := by
    intro i q _ _; unfold visOf; simp; omega
  have hrcell : ∀ q i, i < m.nseq → cellOf m.alen w ((fun _ _ => false) i q) (grVal m q i) = grVal m q i :=
    fun q i _ => cellOf_full m w ha1 _ (fun s hs => (hp.gr_col q i s hs).1)
  have e_p0 : (st.per.getD 0 none).map (·.take m.nseq) = m.ss := hG.final_per hnsq hrvis hrcell 0 (by omega) (hp.per_ok 0 (by omega))
  have e_p1 : (st.per.getD 1 none).map (·.take m.nseq) = m.sa := hG.final_per hnsq hrvis hrcell 1 (by omega) (hp.per_ok 1 (by omega))
  have e_p2 : (st.per.getD 2 none).map (·.take m.nseq) = m.pp := hG.final_per hnsq hrvis hrcell 2 (by omega) (hp.per_ok 2 (by omega))
  have e_cut : st.cutset = cutsetOf m := hfr.cutset
  have e_com : st.comments = m.comments := hfr.comments
  have e_gf : st.gf = m.gf := hfr.gf
  have ha0 : m.alen ≠ 0 := by omega
  have e_gc : st.gcTags.zip (st.gc.map (·.getD [])) = m.gc :=
    GcInv.final (hfr.gcI.congr (by simp [ngcOf, ha0]) (fun _ _ => by simp [gcCol])) ha1 (fun t ht => (hp.gc_ok t ht).2.1)
  have e_gr : st.grTags.zip (st.gr.map (·.take m.nseq)) = m.gr :=
    hG.final_gr hnsq hrvis hrcell (fun t ht => (hp.gr_tag_ok t ht).2) hp.gr_ne
  cases hm : m.hasw with
  | false =>
    have e_hasw' : st.hasw = false := by rw [e_hasw, hm]
    unfold stoFinal
    simp only [hnb, hn0, Bool.false_eq_true, if_false, hfind, e_hasw']
    congr 1
    unfold stoMsa stoProject
    simp only [hnseq, hrows, hnames, h.alen, e_hasw', hm, e_name, e_desc, e_acc, e_au, c0, c1, c2, c3, c4, e_sqacc, e_sqdesc, e_p0, e_p1,
      e_p2, e_cut, e_com, e_gf, e_gs, e_gc, e_gr]
    rcases m with ⟨digital, kp, alen, names, aseq, ax, hasw, wgt, name, desc, acc, au, ssCons, saCons, ppCons, rf, mm, sqacc, sqdesc,
      ss, sa, pp, cutoff, comments, gf, gs, gc, gr⟩
    simp only at hm
    subst hm
    simp [Msa.nseq, consF]
  | true =>
    have e_hasw' : st.hasw = true := by rw [e_hasw, hm]
    have e_w := e_wgt hm
    have hfind2 : (List.range st.nseq).find? (fun i => st.wgt[i]? == none || st.wgt[i]? == some Wgt.unset) = none := by
      rw [List.find?_eq_none]
      intro i hi
      rw [hnseq] at hi
      have hi' := List.mem_range.mp hi
      have h1 := congrArg (fun l => l[i]?) e_w
      simp only [List.getElem?_take, hi', if_true, List.getElem?_replicate] at h1
      rw [h1]; decide
    unfold stoFinal
    simp only [hnb, hn0, Bool.false_eq_true, if_false, hfind, e_hasw', if_true, hfind2]
    congr 1
    unfold stoMsa stoProject
    simp only [hnseq, hrows, hnames, h.alen, e_hasw', hm, if_true, e_w, e_name, e_desc, e_acc, e_au, c0, c1, c2, c3, c4, e_sqacc, e_sqdesc,
      e_p0, e_p1, e_p2, e_cut, e_com, e_gf, e_gs, e_gc, e_gr]
    rcases m with ⟨digital, kp, alen, names, aseq, ax, hasw, wgt, name, desc, acc, au, ssCons, saCons, ppCons, rf, mm, sqacc, sqdesc,
      ss, sa, pp, cutoff, comments, gf, gs, gc, gr⟩
    simp only at hm
    subst hm
    simp [Msa.nseq, consF]

/-! ## the round trip -/

/-- **Stockholm / Pfam round trip on lines** (everything `StoAnn` admits) -/
theorem stoRead_writeLines (pfam : Bool) (abc : Option Abc) (cfg : Cfg) (enc : UInt8 → UInt8) (txt : Nat → Bytes) (m : Msa)
    (W : StoWritable abc cfg enc txt m) :
    stockholmRead cfg (stockholmBodyLines pfam abc m ++ [[47, 47]]) = (.ok (stoProject cfg m), []) := by
  have ha1 := W.alen1
  have hc : 0 < stoCpl pfam m := by unfold stoCpl; split <;> omega
  rw [stoBody_ann pfam abc m W.ann W.nodup, blockStarts_cons' _ _ ha1 hc, List.flatMap_cons]
  have hhead := head_steps cfg m W.ann
  obtain ⟨st0, jn0, hs0, hI0, hjn0⟩ := gs_steps abc cfg enc txt m W (stoW m (stoCpl pfam m) 0)
  obtain ⟨st1, hs1, h1⟩ := block_first abc cfg enc txt m W (stoCpl pfam m) jn0 st0 hI0 hc hjn0
  have hw1 : 1 ≤ stoW m (stoCpl pfam m) 0 := by unfold stoW; split <;> omega
  have hnext : 0 + stoW m (stoCpl pfam m) 0 = min (stoCpl pfam m) m.alen := by unfold stoW; split <;> omega
  obtain ⟨st2, p', w', hs2, h2, he, hw'⟩ :=
    blocks_later abc cfg enc txt m W _ hc (m.alen - stoCpl pfam m) (stoCpl pfam m) (Nat.le_refl _) st1 0 _ h1 hnext hw1
  obtain ⟨st3, he3, h3⟩ := endBlock_full cfg enc txt m p' w' 0 m.nseq st2 h2 rfl W.n1 hw'
  rw [he] at h3
  have hfin := stoFinal_full abc cfg enc txt m W 0 st3 h3
  have hsteps : stepsFrom (stoStep cfg) {}
      (stoAnnHead m ++ stoGsL m ++ (stoAnnBlock abc m (stoCpl pfam m) 0 ++
        (blockStartsFrom m.alen (stoCpl pfam m) (stoCpl pfam m)).flatMap (stoAnnBlock abc m (stoCpl pfam m)))) = .inl st2 := by
    rw [List.append_assoc, stepsFrom_append _ _ _ _ _ hhead, stepsFrom_append _ _ _ _ _ hs0, stepsFrom_append _ _ _ _ _ hs1]
    exact hs2
  unfold stockholmRead
  rw [runLines_append_inl _ _ _ _ _ _ hsteps]
  simp only [runLines, stoStep_slash cfg st2 st3 h2.fr.lead he3, hfin]

theorem lineOk_app (pre val : Bytes) (h1 : (10 : UInt8) ∉ pre) (h2 : pre.getLast? = some 32) (h3 : (10 : UInt8) ∉ val)
    (h4 : val.getLast? ≠ some 13) : lineOk (pre ++ val) := by
  constructor
  · intro h; rcases List.mem_append.mp h with h | h
    · exact h1 h
    · exact h3 h
  · rw [List.getLast?_append]
    cases hv : val.getLast? with
    | none => simp [h2]
    | some x => rw [hv] at h4; simpa using h4

theorem chunk_lineOk (c : Bytes) (hc : ChunkOk c) : (10 : UInt8) ∉ c ∧ c.getLast? ≠ some 13 := by
  refine ⟨fun h => absurd (hc.2 10 h).1 (by decide), fun h => ?_⟩
  exact absurd (hc.2 13 (List.mem_of_getLast? h)).1 (by decide)

theorem sp_lineOk (pre sp : Bytes) (hs : SpOk sp) : (pre ++ sp).getLast? = some 32 ∧ (10 : UInt8) ∉ sp := by
  constructor
  · rw [List.getLast?_append]
    cases hl : sp.getLast? with
    | none => exact absurd (List.getLast?_eq_none_iff.mp hl) hs.1
    | some x => rw [hs.2 x (List.mem_of_getLast? hl)]; rfl
  · intro h; exact absurd (hs.2 10 h) (by decide)

theorem gfline_ok (L : StoLayout) (tag val : Bytes) (ht : (10 : UInt8) ∉ tag) (h3 : (10 : UInt8) ∉ val) (h4 : val.getLast? ≠ some 13) :
    lineOk (gfLine L tag val) := by
  obtain ⟨sp, hl, hs⟩ := gfline_shape L tag val
  rw [hl, ← List.append_assoc, ← List.append_assoc]
  obtain ⟨e1, e2⟩ := sp_lineOk (bGF ++ [32] ++ tag) sp hs
  refine lineOk_app _ val ?_ e1 h3 h4
  intro h
  rcases List.mem_append.mp h with h | h
  · rcases List.mem_append.mp h with h | h
    · revert h; decide
    · exact ht h
  · exact e2 h

theorem stoLines_ok (pfam : Bool) (abc : Option Abc) (cfg : Cfg) (enc : UInt8 → UInt8) (txt : Nat → Bytes) (m : Msa)
    (W : StoWritable abc cfg enc txt m) : ∀ l ∈ stockholmLines pfam abc m, lineOk l := by
  have hc : 0 < stoCpl pfam m := by have := W.alen1; unfold stoCpl; split <;> omega
  have hp := W.ann
  have hnil : lineOk ([] : Bytes) := ⟨by simp, by simp⟩
  have hgc : ∀ pos, pos < m.alen → ∀ g, g < 5 → ∀ l ∈ gcSlotLines m pos (stoW m (stoCpl pfam m) pos) g, lineOk l := by
    intro pos hlt g hg l hl
    have hw1 : 1 ≤ stoW m (stoCpl pfam m) pos := by unfold stoW; split <;> omega
    have hw2 : pos + stoW m (stoCpl pfam m) pos ≤ m.alen := by unfold stoW; split <;> omega
    unfold gcSlotLines at hl
    cases hs : (consF m).getD g none with
    | none => rw [hs] at hl; simp [optLine] at hl
    | some s =>
      rw [hs] at hl
      simp only [optLine, List.mem_singleton] at hl
      subst hl
      obtain ⟨sp, c, hline, hsp, hcq, _⟩ := gcline_shape m hp pos _ g hg s hs hw1 hw2
      obtain ⟨_, _, _, htag⟩ := consTag_lt g hg
      rw [hline, ← List.append_assoc, ← List.append_assoc]
      obtain ⟨e1, e2⟩ := sp_lineOk (bGC ++ [32] ++ consTag.getD g []) sp hsp
      obtain ⟨e3, e4⟩ := chunk_lineOk c hcq
      refine lineOk_app _ c ?_ e1 e3 e4
      intro h
      rcases List.mem_append.mp h with h | h
      · rcases List.mem_append.mp h with h | h
        · revert h; decide
        · exact htag h
      · exact e2 h
  have hcut : ∀ (tag : Bytes) (c1 c2 : Option UInt32), (10 : UInt8) ∉ tag → (∀ v, c1 = some v → finiteF32 v) →
      (∀ v, c2 = some v → finiteF32 v) → ∀ l ∈ cutLines (stoLayout m) tag c1 c2, lineOk l := by
    intro tag c1 c2 ht h1 h2 l hl
    rw [cutLines_eq] at hl
    cases c1 with
    | none => cases hl
    | some a =>
      have ra := fmtF1_realTok a (h1 a rfl)
      cases c2 with
      | none => simp only [List.mem_singleton] at hl; subst hl; exact gfline_ok _ _ _ ht ra.nolf ra.nocr
      | some b =>
        have rb := fmtF1_realTok b (h2 b rfl)
        simp only [List.mem_singleton] at hl; subst hl
        refine gfline_ok _ _ _ ht ?_ ?_
        · intro h
          simp only [List.mem_append, List.mem_singleton] at h
          rcases h with (h | h) | h
          · exact ra.nolf h
          · exact absurd h (by decide)
          · exact rb.nolf h
        · rw [List.getLast?_append]
          cases hb : (fmtF1 b).getLast? with
          | none => exact absurd (List.getLast?_eq_none_iff.mp hb) rb.name.1
          | some x => have := rb.nocr; rw [hb] at this; simpa using this
  intro l hl
  unfold stockholmLines at hl
  rw [stoBody_ann pfam abc m W.ann W.nodup] at hl
  rcases List.mem_append.mp hl with hl | hl
  · rcases List.mem_append.mp hl with hl | hl
    · rcases List.mem_append.mp hl with hl | hl
      rotate_left
      · -- #=GS lines
        unfold stoGsL at hl
        have hsec : ∀ q, q < 3 + m.gs.length → ∀ l ∈ stoGsSec m q ++ [[]], lineOk l := by
          intro q hq l hl
          rcases List.mem_append.mp hl with hl | hl
          · unfold stoGsSec at hl
            obtain ⟨i, hi, hl⟩ := List.mem_flatMap.mp hl
            have hi' := List.mem_range.mp hi
            cases hv : grVal (gsMsa m) q i with
            | none => rw [hv] at hl; simp [optLine] at hl
            | some v =>
              rw [hv] at hl
              simp only [optLine, List.mem_singleton] at hl
              subst hl
              obtain ⟨sp, hline, hsp⟩ := gsline_shape m q i v
              obtain ⟨_, ht10⟩ := gsTag_facts m hp q hq
              have hval := hp.gs_val q i v hv
              have hvok : (10 : UInt8) ∉ v ∧ v.getLast? ≠ some 13 := by
                by_cases e : q = 0
                · exact ⟨(hval.1 e).2.2.1, (hval.1 e).2.2.2.1⟩
                · by_cases e1 : q = 1
                  · exact ⟨(hval.2.1 e1).2.1, (hval.2.1 e1).2.2⟩
                  · exact ⟨(hval.2.2.1 (by omega)).2.2.1, (hval.2.2.1 (by omega)).2.2.2⟩
              rw [hline]
              have e : bGS ++ [32] ++ (m.names.getD i [] ++ sp ++ (gsTagOf m q ++ [32] ++ v))
                  = (bGS ++ [32] ++ m.names.getD i [] ++ sp ++ gsTagOf m q ++ [32]) ++ v := by simp
              rw [e]
              refine lineOk_app _ v ?_ (sp_lineOk (bGS ++ [32] ++ m.names.getD i [] ++ sp ++ gsTagOf m q) [32] ⟨by simp, by simp⟩).1 hvok.1 hvok.2
              intro h
              simp only [List.mem_append] at h
              rcases h with ((((h | h) | h) | h) | h) | h
              · revert h; decide
              · simp at h
              · exact (W.name_ok i hi').2.1 h
              · exact (sp_lineOk [] sp hsp).2 h
              · exact ht10 h
              · simp at h
          · simp at hl; subst hl; exact hnil
        rcases List.mem_append.mp hl with hl | hl
        · split at hl
          · exact hsec 0 (by omega) l hl
          · cases hl
        · rcases List.mem_append.mp hl with hl | hl
          · split at hl
            · exact hsec 1 (by omega) l hl
            · cases hl
          · rcases List.mem_append.mp hl with hl | hl
            · split at hl
              · exact hsec 2 (by omega) l hl
              · cases hl
            · obtain ⟨t, ht, hl⟩ := List.mem_flatMap.mp hl
              have ht' := List.mem_range.mp ht
              exact hsec (3 + t) (by omega) l hl
      -- header
      unfold stoAnnHead at hl
      simp only [List.mem_append, List.mem_cons, List.not_mem_nil, or_false] at hl
      rcases hl with hl | hl | hl | hl | hl | hl | hl | hl | hl | hl | hl | hl
      · subst hl; exact ⟨by decide, by decide⟩
      · obtain ⟨c, hc, rfl⟩ := List.mem_map.mp hl
        obtain ⟨_, _, h10, h13, _⟩ := hp.com_ok c hc
        refine ⟨fun h => ?_, ?_⟩
        · rcases List.mem_cons.mp h with h | h
          · exact absurd h (by decide)
          · exact h10 h
        · cases c with
          | nil => simp
          | cons x t => rw [List.getLast?_cons_cons]; exact h13
      · split at hl
        · cases hl
        · simp at hl; subst hl; exact hnil
      · cases hn : m.name with
        | none => rw [hn] at hl; simp [optLine] at hl
        | some v =>
          rw [hn] at hl; simp only [optLine, List.mem_singleton] at hl; subst hl
          have := hp.name_ok v hn
          exact gfline_ok _ _ _ (by decide) this.2.1 this.2.2
      · cases hn : m.acc with
        | none => rw [hn] at hl; simp [optLine] at hl
        | some v =>
          rw [hn] at hl; simp only [optLine, List.mem_singleton] at hl; subst hl
          have := hp.acc_ok v hn
          exact gfline_ok _ _ _ (by decide) this.2.1 this.2.2
      · cases hn : m.desc with
        | none => rw [hn] at hl; simp [optLine] at hl
        | some v =>
          rw [hn] at hl; simp only [optLine, List.mem_singleton] at hl; subst hl
          have := hp.desc_ok v hn
          exact gfline_ok _ _ _ (by decide) this.2.2.1 this.2.2.2
      · cases hn : m.au with
        | none => rw [hn] at hl; simp [optLine] at hl
        | some v =>
          rw [hn] at hl; simp only [optLine, List.mem_singleton] at hl; subst hl
          have := hp.au_ok v hn
          exact gfline_ok _ _ _ (by decide) this.2.2.1 this.2.2.2
      · exact hcut bGA _ _ (by decide) (hp.cut_ok 2) (hp.cut_ok 3) l hl
      · exact hcut bNC _ _ (by decide) (hp.cut_ok 4) (hp.cut_ok 5) l hl
      · exact hcut bTC _ _ (by decide) (hp.cut_ok 0) (hp.cut_ok 1) l hl
      · obtain ⟨t, ht, rfl⟩ := List.mem_map.mp hl
        have := hp.gf_ok t ht
        exact gfline_ok _ _ _ this.1.2.1 this.2.2.2.1 this.2.2.2.2
      · subst hl; exact hnil
    · obtain ⟨pos, hpos, hl⟩ := List.mem_flatMap.mp hl
      have hlt := blockStarts_lt _ _ pos hpos
      unfold stoAnnBlock at hl
      rcases List.mem_append.mp hl with hl | hl
      · split at hl
        · simp at hl; subst hl; exact hnil
        · simp at hl
      · rcases List.mem_append.mp hl with hl | hl
        · obtain ⟨j, hj, hl⟩ := List.mem_flatMap.mp hl
          have hj' := List.mem_range.mp hj
          have hw1 : 1 ≤ stoW m (stoCpl pfam m) pos := by unfold stoW; split <;> omega
          have hw2 : pos + stoW m (stoCpl pfam m) pos ≤ m.alen := by unfold stoW; split <;> omega
          have hn := W.name_ok j hj'
          have hgr : ∀ q, q < nslots m → ∀ l ∈ grSlotLines m pos (stoW m (stoCpl pfam m) pos) j q, lineOk l := by
            intro q hq l hl
            unfold grSlotLines at hl
            cases hs : grVal m q j with
            | none => rw [hs] at hl; simp [optLine] at hl
            | some s =>
              rw [hs] at hl
              simp only [optLine, List.mem_singleton] at hl
              subst hl
              obtain ⟨_, ht10, _⟩ := grTag_facts m hp q hq
              obtain ⟨sp1, sp2, c, hline, hsp1, hsp2, hcq, _⟩ :=
                grline_shape m (sto_uniq_false m W.nodup) j (grTagOf m q) s (hp.gr_col q j s hs) pos _ hw1 hw2
              rw [hline]
              have e : bGR ++ [32] ++ (m.names.getD j [] ++ sp1 ++ (grTagOf m q ++ sp2 ++ c))
                  = (bGR ++ [32] ++ m.names.getD j [] ++ sp1 ++ grTagOf m q) ++ sp2 ++ c := by simp
              rw [e]
              obtain ⟨e1, e2⟩ := sp_lineOk (bGR ++ [32] ++ m.names.getD j [] ++ sp1 ++ grTagOf m q) sp2 hsp2
              obtain ⟨e3, e4⟩ := chunk_lineOk c hcq
              refine lineOk_app _ c ?_ e1 e3 e4
              intro h
              simp only [List.mem_append] at h
              rcases h with ((((h | h) | h) | h) | h) | h
              · revert h; decide
              · simp at h
              · exact hn.2.1 h
              · exact (sp_lineOk [] sp1 hsp1).2 h
              · exact ht10 h
              · exact e2 h
          unfold stoSeqL at hl
          rcases List.mem_append.mp hl with hl | hl
          · simp only [List.mem_singleton] at hl
            subst hl
            obtain ⟨sp, c, hline, hsp, hcq, _⟩ := sqline_shape abc cfg enc txt m W pos _ j hj' hw1 hw2
            rw [hline]
            obtain ⟨e1, e2⟩ := sp_lineOk (m.names.getD j []) sp hsp
            obtain ⟨e3, e4⟩ := chunk_lineOk c hcq
            refine lineOk_app _ c ?_ e1 e3 e4
            intro h
            rcases List.mem_append.mp h with h | h
            · exact hn.2.1 h
            · exact e2 h
          · rcases List.mem_append.mp hl with hl | hl
            · exact hgr 0 (by unfold nslots; omega) l hl
            · rcases List.mem_append.mp hl with hl | hl
              · exact hgr 1 (by unfold nslots; omega) l hl
              · rcases List.mem_append.mp hl with hl | hl
                · exact hgr 2 (by unfold nslots; omega) l hl
                · unfold grOtherLines at hl
                  obtain ⟨t, ht, hl⟩ := List.mem_flatMap.mp hl
                  obtain ⟨k, hk, rfl⟩ := List.mem_iff_getElem.mp ht
                  have := grSlotLines_other m pos (stoW m (stoCpl pfam m) pos) j k
                  rw [getD_eq_getElem_of_lt _ hk] at this
                  exact hgr (3 + k) (by unfold nslots; omega) l (by rw [this]; exact hl)
        · rcases List.mem_append.mp hl with hl | hl
          · exact hgc pos hlt 0 (by omega) l hl
          · rcases List.mem_append.mp hl with hl | hl
            · exact hgc pos hlt 1 (by omega) l hl
            · rcases List.mem_append.mp hl with hl | hl
              · exact hgc pos hlt 2 (by omega) l hl
              · rcases List.mem_append.mp hl with hl | hl
                · exact hgc pos hlt 3 (by omega) l hl
                · rcases List.mem_append.mp hl with hl | hl
                  · exact hgc pos hlt 4 (by omega) l hl
                  · obtain ⟨t, ht, rfl⟩ := List.mem_map.mp hl
                    have hw1 : 1 ≤ stoW m (stoCpl pfam m) pos := by unfold stoW; split <;> omega
                    have hw2 : pos + stoW m (stoCpl pfam m) pos ≤ m.alen := by unfold stoW; split <;> omega
                    obtain ⟨htag, hcol⟩ := hp.gc_ok t ht
                    obtain ⟨sp, c, hline, hsp, hcq, _⟩ := gcline_shape' m t.1 t.2 hcol pos _ hw1 hw2
                    rw [hline, ← List.append_assoc, ← List.append_assoc]
                    obtain ⟨e1, e2⟩ := sp_lineOk (bGC ++ [32] ++ t.1) sp hsp
                    obtain ⟨e3, e4⟩ := chunk_lineOk c hcq
                    refine lineOk_app _ c ?_ e1 e3 e4
                    intro h
                    rcases List.mem_append.mp h with h | h
                    · rcases List.mem_append.mp h with h | h
                      · revert h; decide
                      · exact htag.2.1 h
                    · exact e2 h
  · simp at hl; subst hl; exact ⟨by decide, by decide⟩

/-- **Stockholm / Pfam round trip on bytes** (everything `StoAnn` admits) -/
theorem stoRead_write (pfam : Bool) (abc : Option Abc) (cfg : Cfg) (enc : UInt8 → UInt8) (txt : Nat → Bytes) (m : Msa)
    (W : StoWritable abc cfg enc txt m) :
    stockholmRead cfg (splitLines (stockholmWrite pfam abc m)) = (.ok (stoProject cfg m), []) := by
  unfold stockholmWrite joinLF
  rw [splitLines_join _ (stoLines_ok pfam abc cfg enc txt m W)]
  exact stoRead_writeLines pfam abc cfg enc txt m W

end EaselModel.Msafile
