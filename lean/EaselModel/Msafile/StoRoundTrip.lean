import EaselModel.Msafile.PhylipRoundTrip
import EaselModel.Msafile.Stockholm
import EaselModel.Msafile.WriteStockholm
import EaselModel.Msafile.WriteLemmas
import EaselModel.Msafile.StockholmLemmas
/-! Stockholm / Pfam: reading what `esl_msafile_stockholm_Write` wrote gives the alignment back (C03).

This file covers alignments WITHOUT optional annotation (names and aligned rows only), in one block (Pfam) or in
200-column blocks (Stockholm). -/
namespace EaselModel.Msafile

/-! ## the writer's output for an alignment without annotation -/

/-- a sequence name the Stockholm reader takes as a sequence name: not empty, no blank/tab/NUL, no LF, does not begin
    with `#` nor with `//` -/
def stoNameOk (nm : Bytes) : Prop :=
  nameOk nm ∧ (10 : UInt8) ∉ nm ∧ nm.head? ≠ some 35 ∧ memstrpfx nm bSlash = false

/-- nothing but names and rows -/
structure StoPlain (m : Msa) : Prop where
  hasw : m.hasw = false
  name : m.name = none
  desc : m.desc = none
  acc : m.acc = none
  au : m.au = none
  ssCons : m.ssCons = none
  saCons : m.saCons = none
  ppCons : m.ppCons = none
  rf : m.rf = none
  mm : m.mm = none
  sqacc : m.sqacc = none
  sqdesc : m.sqdesc = none
  ss : m.ss = none
  sa : m.sa = none
  pp : m.pp = none
  cutoff : m.cutoff = []
  comments : m.comments = []
  gf : m.gf = []
  gs : m.gs = []
  gc : m.gc = []
  gr : m.gr = []

/-- an alignment without annotation that Stockholm/Pfam carry and `stockholm_write` + `esl_msafile_stockholm_Read`
    (configuration `cfg`) preserve.  `txt i` is the text the writer prints for row `i`, `enc` sends a written symbol to the
    stored symbol. -/
structure StoWritable (abc : Option Abc) (cfg : Cfg) (enc : UInt8 → UInt8) (txt : Nat → Bytes) (m : Msa) : Prop where
  plain : StoPlain m
  n1 : 1 ≤ m.nseq
  alen1 : 1 ≤ m.alen
  nodup : m.names.Nodup
  name_ok : ∀ i, i < m.nseq → stoNameOk (m.names.getD i [])
  txt_len : ∀ i, i < m.nseq → (txt i).length = m.alen
  chunk_eq : ∀ i, i < m.nseq → ∀ pos n, seqChunk abc m i pos n = ((txt i).drop pos).take n
  txt_sym : ∀ i, i < m.nseq → ∀ t ∈ txt i, mapByte cfg.inmap t = (.ok, some (enc t)) ∧ isSpace t = false ∧ t ≠ 0
  row_enc : ∀ i, i < m.nseq → m.stored i = mkRow cfg.digital ((txt i).map enc)

/-- one sequence line: `"%-*s %s\n"` -/
def stoSqLine (abc : Option Abc) (m : Msa) (pos w i : Nat) : Bytes :=
  padRight (maxWidth m.names : Nat) (m.names.getD i []) ++ [32] ++ seqChunk abc m i pos w

/-- width of the block that starts at column `pos` -/
def stoW (m : Msa) (cpl pos : Nat) : Nat := if m.alen - pos > cpl then cpl else m.alen - pos

/-- one block of an alignment without annotation -/
def stoPlainBlock (abc : Option Abc) (m : Msa) (cpl pos : Nat) : List Bytes :=
  (if pos > 0 then [[]] else []) ++ (List.range m.nseq).map (stoSqLine abc m pos (stoW m cpl pos))

theorem flatMap_single {α β : Type} (f : α → β) (l : List α) : l.flatMap (fun x => [f x]) = l.map f := by
  induction l with
  | nil => rfl
  | cons a l ih => simp [List.flatMap_cons, ih]

theorem stoLayout_plain (m : Msa) (hp : StoPlain m) (hn : m.names.Nodup) :
    stoLayout m = { uniq := false, uniqwidth := 0, maxname := maxWidth m.names, maxgf := 2, maxgc := 0, maxgr := 0,
                    margin := maxWidth m.names + 1 } := by
  have hd : hasDupNames m.names = false := (hasDupNames_iff m.names).mpr hn
  unfold stoLayout
  simp [hd, hp.gf, hp.gc, hp.gr, hp.rf, hp.mm, hp.ssCons, hp.saCons, hp.ppCons, hp.ss, hp.sa, hp.pp, maxWidth]

theorem stoBody_plain (pfam : Bool) (abc : Option Abc) (m : Msa) (hp : StoPlain m) (hn : m.names.Nodup) :
    stockholmBodyLines pfam abc m
      = [bSto10, []] ++ (blockStarts m.alen (stoCpl pfam m)).flatMap (stoPlainBlock abc m (stoCpl pfam m)) := by
  have hseq : ∀ pos acpl, stoSeqLines (stoLayout m) abc m pos acpl = fun i => [stoSqLine abc m pos acpl i] := by
    intro pos acpl
    funext i
    unfold stoSeqLines stoSqLine stoName
    rw [stoLayout_plain m hp hn]
    simp [hp.ss, hp.sa, hp.pp, hp.gr, optRow, optLine]
  have hblk : stoBlockLines (stoLayout m) abc m (stoCpl pfam m) = stoPlainBlock abc m (stoCpl pfam m) := by
    funext pos
    unfold stoBlockLines stoPlainBlock stoW
    simp only [hseq, flatMap_single]
    simp [hp.ssCons, hp.saCons, hp.ppCons, hp.rf, hp.mm, hp.gc, optLine]
  have hhead : stoHeadLines (stoLayout m) m = [bSto10, []] := by
    unfold stoHeadLines cutLines
    rw [stoLayout_plain m hp hn]
    simp [hp.comments, hp.name, hp.acc, hp.desc, hp.au, hp.cutoff, hp.gf]
    decide +kernel
  have hgs : stoGSLines (stoLayout m) m = [] := by
    unfold stoGSLines
    simp [hp.hasw, hp.sqacc, hp.sqdesc, hp.gs]
  unfold stockholmBodyLines
  simp only [hhead, hgs, hblk, List.append_nil]

/-! ## the shape of a sequence line -/

/-- the blanks between the name and the row -/
def SpOk (sp : Bytes) : Prop := sp ≠ [] ∧ ∀ c ∈ sp, c = 32

/-- a piece of a row as written -/
def ChunkOk (c : Bytes) : Prop := c ≠ [] ∧ ∀ t ∈ c, isSpace t = false ∧ t ≠ 0

theorem sp_ne (c x : UInt8) (hx : isSpace x = true) (h : isSpace c = false) : c ≠ x := by
  intro e; subst e; rw [h] at hx; cases hx

theorem chunk_notDelim (t : UInt8) (h : isSpace t = false ∧ t ≠ 0) : inDelim blankTab t = false := by
  have h32 := sp_ne t 32 (by decide) h.1
  have h9 := sp_ne t 9 (by decide) h.1
  simp [inDelim, blankTab, h.2, h32, h9]

theorem memtok_sqline (nm sp c : Bytes) (hn : nameOk nm) (hs : SpOk sp) (hc : ChunkOk c) :
    memtok (nm ++ sp ++ c) blankTab = some (nm, c) := by
  obtain ⟨hne, hnd⟩ := hn
  obtain ⟨hsne, hs32⟩ := hs
  obtain ⟨hcne, hcd⟩ := hc
  have hspd : ∀ x ∈ sp, inDelim blankTab x = true := fun x hx => by rw [hs32 x hx]; decide
  have hcd' : ∀ x ∈ c, inDelim blankTab x = false := fun x hx => chunk_notDelim x (hcd x hx)
  cases nm with
  | nil => exact absurd rfl hne
  | cons a t =>
    cases sp with
    | nil => exact absurd rfl hsne
    | cons s sp' =>
      have hs' : inDelim blankTab s = true := hspd s (by simp)
      have ha := hnd a (by simp)
      rw [List.append_assoc]
      have h1 : ((a :: t) ++ ((s :: sp') ++ c)).dropWhile (inDelim blankTab) = (a :: t) ++ ((s :: sp') ++ c) := by
        simp [List.dropWhile, ha]
      have h2 : ((a :: t) ++ ((s :: sp') ++ c)).takeWhile (fun x => !inDelim blankTab x) = a :: t := by
        rw [List.takeWhile_append_of_pos (fun x hx => by simp [hnd x hx])]
        simp [List.takeWhile, hs']
      have h3 : ((a :: t) ++ ((s :: sp') ++ c)).dropWhile (fun x => !inDelim blankTab x) = (s :: sp') ++ c := by
        rw [List.dropWhile_append_of_pos (fun x hx => by simp [hnd x hx])]
        simp [List.dropWhile, hs']
      have h4 : ((s :: sp') ++ c).dropWhile (inDelim blankTab) = c := by
        rw [List.dropWhile_append_of_pos hspd]
        exact dropWhile_none _ _ hcd'
      unfold memtok
      simp only [h1, h2, h3, h4]
      simp

theorem rtrim_chunk (c : Bytes) (hc : ChunkOk c) : rtrim c = c := by
  unfold rtrim
  rw [dropWhile_none _ _ (fun x hx => chunk_notDelim x (hc.2 x (List.mem_reverse.mp hx)))]
  simp

theorem stoStep_sqline (cfg : Cfg) (st : StoSt) (nm sp c : Bytes) (hl : st.lead = false) (hn : stoNameOk nm) (hs : SpOk sp) :
    stoStep cfg st (nm ++ sp ++ c) = liftE (parseSq cfg st (nm ++ sp ++ c)) := by
  obtain ⟨⟨hne, hnd⟩, _, h35, hsl⟩ := hn
  obtain ⟨hsne, hs32⟩ := hs
  cases nm with
  | nil => exact absurd rfl hne
  | cons a t =>
    cases sp with
    | nil => exact absurd rfl hsne
    | cons s sp' =>
      have hs' : s = 32 := hs32 s (by simp)
      subst hs'
      have ha := hnd a (by simp)
      simp [inDelim, blankTab] at ha
      have ha32 : (a == 32 || a == 9) = false := by simp [ha]
      have hdw : ((a :: t) ++ (32 :: sp') ++ c).dropWhile (fun c => c == 32 || c == 9) = (a :: t) ++ (32 :: sp') ++ c := by
        simp [List.dropWhile, ha32]
      have h35' : a ≠ 35 := by simpa using h35
      have hsl' : memstrpfx ((a :: t) ++ (32 :: sp') ++ c) bSlash = false := by
        cases t with
        | nil => simp [memstrpfx, bSlash, List.isPrefixOf]
        | cons b t' => simpa [memstrpfx, bSlash, List.isPrefixOf] using hsl
      unfold stoStep
      simp only [hl, Bool.false_eq_true, if_false, hdw]
      simp only [List.cons_append, List.append_assoc] at hsl'
      simp [hsl', h35']

/-! ## the reader's state while it reads such a file -/

/-- the parts of the state that lines without annotation never touch -/
structure Frozen (st : StoSt) : Prop where
  lead : st.lead = false
  hasw : st.hasw = false
  name : st.name = none
  desc : st.desc = none
  acc : st.acc = none
  au : st.au = none
  cons : st.cons = List.replicate 5 none
  sqacc : st.sqacc = none
  sqdesc : st.sqdesc = none
  per : st.per = List.replicate 3 none
  cutset : st.cutset = List.replicate 6 false
  comments : st.comments = []
  gf : st.gf = []
  gsTags : st.gsTags = []
  gs : st.gs = []
  gcTags : st.gcTags = []
  gc : st.gc = []
  grTags : st.grTags = []
  gr : st.gr = []

/-- inside the block that starts at column `pos` and is `w` columns wide: `jn` names are known, `jb` block lines are
    recorded, `j` sequence lines of this block have been read -/
structure InBlk (cfg : Cfg) (enc : UInt8 → UInt8) (txt : Nat → Bytes) (m : Msa) (pos w jn jb j : Nat) (st : StoSt) : Prop where
  fr : Frozen st
  alen : st.alen = pos
  nblock : st.nblock = 0 ↔ pos = 0
  names : st.names = m.names.take jn
  nseq : st.nseq = st.names.length
  alloc : st.names.length ≤ st.sqalloc
  apos : 0 < st.sqalloc
  rows_len : st.rows.length = st.sqalloc
  rows_done : ∀ i, i < j → st.rows[i]? = some (phyRowAt cfg enc txt (pos + w) i)
  rows_todo : ∀ i, j ≤ i → i < st.sqalloc → st.rows[i]? = some (if i < m.nseq then phyRowAt cfg enc txt pos i else none)
  salloc : st.salloc = st.sqalloc
  sqlen_len : st.sqlen.length = st.sqalloc
  sqlen_done : ∀ i, i < j → st.sqlen[i]? = some (pos + w)
  sqlen_todo : ∀ i, j ≤ i → i < st.sqalloc → st.sqlen[i]? = some (if i < m.nseq then pos else 0)
  bpos : 0 < st.balloc
  blt_len : st.blt.length = st.balloc
  bidx_len : st.bidx.length = st.balloc
  nrec : jb ≤ st.balloc
  blt : ∀ i, i < jb → st.blt[i]? = some (some ltSQ)
  bidx : ∀ i, i < jb → st.bidx[i]? = some (some (some i))
  npb : pos ≠ 0 → st.npb = m.nseq
  bi : st.bi = j
  si : st.si = j
  nseqB : st.nseqB = j
  alenB : j ≠ 0 → st.alenB = w
  inBlock : st.inBlock = decide (j ≠ 0)

theorem getE_of {α : Type} {l : List α} {i : Nat} {x : α} (h : l[i]? = some x) : getE l i = .ok x := by
  simp [getE, h]

theorem getElem?_append_some {α : Type} (l r : List α) (i : Nat) (x : α) (h : l[i]? = some x) : (l ++ r)[i]? = some x := by
  have hi := lt_length_of_getElem? h
  rw [List.getElem?_append_left hi]; exact h

theorem nodup_not_mem_take (l : List Bytes) (hn : l.Nodup) (j : Nat) (hj : j < l.length) : l.getD j [] ∉ l.take j := by
  intro hmem
  obtain ⟨i, hi, hE⟩ := List.mem_iff_getElem.mp hmem
  rw [List.length_take] at hi
  have hij : i < j := by omega
  rw [List.getElem_take, getD_eq_getElem_of_lt [] hj] at hE
  exact (List.pairwise_iff_getElem.mp hn i j (by omega) hj hij) hE

/-- a new name: `stockholm_get_seqidx` stores it as sequence `jn` -/
theorem getSeqIdx_new (cfg : Cfg) (enc : UInt8 → UInt8) (txt : Nat → Bytes) (m : Msa) (w jn jb j : Nat) (st : StoSt)
    (h : InBlk cfg enc txt m 0 w jn jb j st) (hjn : jn < m.nseq) (hnd : m.names.Nodup) :
    ∃ st1, getSeqIdx st (m.names.getD jn []) = .ok (st1, jn) ∧ InBlk cfg enc txt m 0 w (jn + 1) jb j st1 := by
  have hjn' : jn < m.names.length := hjn
  have hlen : st.names.length = jn := by rw [h.names, List.length_take]; omega
  have hnone : st.names.findIdx? (· == m.names.getD jn []) = none := by
    rw [List.findIdx?_eq_none_iff]
    intro x hx
    rw [h.names] at hx
    have := nodup_not_mem_take m.names hnd jn hjn'
    have hne : x ≠ m.names.getD jn [] := fun e => this (e ▸ hx)
    simpa using hne
  have hnames1 : m.names.take jn ++ [m.names.getD jn []] = m.names.take (jn + 1) := by
    rw [List.take_succ]
    simp [List.getD_eq_getElem?_getD, List.getElem?_eq_getElem hjn']
  have hrow0 : ∀ i, phyRowAt cfg enc txt 0 i = none := fun i => by simp [phyRowAt]
  have hfr := h.fr
  unfold getSeqIdx
  rw [hnone]
  simp only [hlen]
  by_cases hge : jn ≥ st.sqalloc
  · simp only [hge, if_true]
    have hsq : (pdExpandSeq (msaExpand st)).sqalloc = 2 * st.sqalloc := rfl
    have hng : ¬ (jn ≥ (pdExpandSeq (msaExpand st)).sqalloc) := by
      rw [hsq]; have := h.alloc; have := h.apos; omega
    simp only [hng, if_false]
    refine ⟨_, rfl, ?_⟩
    have ha := h.alloc
    have hap := h.apos
    exact
      { fr :=
          { lead := hfr.lead, hasw := hfr.hasw, name := hfr.name, desc := hfr.desc, acc := hfr.acc, au := hfr.au,
            cons := hfr.cons
            sqacc := by simp [pdExpandSeq, msaExpand, hfr.sqacc]
            sqdesc := by simp [pdExpandSeq, msaExpand, hfr.sqdesc]
            per := by simp [pdExpandSeq, msaExpand, hfr.per]
            cutset := hfr.cutset, comments := hfr.comments, gf := hfr.gf, gsTags := hfr.gsTags
            gs := by simp [pdExpandSeq, msaExpand, hfr.gs]
            gcTags := hfr.gcTags, gc := hfr.gc, grTags := hfr.grTags
            gr := by simp [pdExpandSeq, msaExpand, hfr.gr] }
        alen := h.alen, nblock := h.nblock
        names := by show st.names ++ [_] = _; rw [h.names, hnames1]
        nseq := by show st.nseq + 1 = (st.names ++ [_]).length; rw [h.nseq]; simp
        alloc := by show (st.names ++ [_]).length ≤ 2 * st.sqalloc; simp; omega
        apos := by show 0 < 2 * st.sqalloc; omega
        rows_len := by show (st.rows ++ List.replicate st.sqalloc none).length = 2 * st.sqalloc; simp [h.rows_len]; omega
        rows_done := fun i hi => by
          show (st.rows ++ List.replicate st.sqalloc none)[i]? = _
          exact getElem?_append_some _ _ _ _ (h.rows_done i hi)
        rows_todo := fun i hi hi2 => by
          show (st.rows ++ List.replicate st.sqalloc none)[i]? = _
          by_cases hlt : i < st.sqalloc
          · exact getElem?_append_some _ _ _ _ (h.rows_todo i hi hlt)
          · have hi2' : i < 2 * st.sqalloc := hi2
            rw [List.getElem?_append_right (by rw [h.rows_len]; omega), List.getElem?_replicate]
            simp only [hrow0, ite_self]
            rw [if_pos (by rw [h.rows_len]; omega)]
        salloc := rfl
        sqlen_len := by
          show (st.sqlen ++ List.replicate (2 * st.sqalloc - st.salloc) 0).length = 2 * st.sqalloc
          simp [h.sqlen_len, h.salloc]; omega
        sqlen_done := fun i hi => by
          show (st.sqlen ++ List.replicate (2 * st.sqalloc - st.salloc) 0)[i]? = _
          exact getElem?_append_some _ _ _ _ (h.sqlen_done i hi)
        sqlen_todo := fun i hi hi2 => by
          show (st.sqlen ++ List.replicate (2 * st.sqalloc - st.salloc) 0)[i]? = _
          by_cases hlt : i < st.sqalloc
          · exact getElem?_append_some _ _ _ _ (h.sqlen_todo i hi hlt)
          · have hi2' : i < 2 * st.sqalloc := hi2
            rw [List.getElem?_append_right (by rw [h.sqlen_len]; omega), List.getElem?_replicate]
            simp only [ite_self]
            rw [if_pos (by rw [h.sqlen_len, h.salloc]; omega)]
        bpos := h.bpos, blt_len := h.blt_len, bidx_len := h.bidx_len, nrec := h.nrec, blt := h.blt, bidx := h.bidx
        npb := h.npb, bi := h.bi, si := h.si, nseqB := h.nseqB, alenB := h.alenB, inBlock := h.inBlock }
  · simp only [hge, if_false]
    refine ⟨_, rfl, ?_⟩
    exact
      { fr :=
          { lead := hfr.lead, hasw := hfr.hasw, name := hfr.name, desc := hfr.desc, acc := hfr.acc, au := hfr.au,
            cons := hfr.cons, sqacc := hfr.sqacc, sqdesc := hfr.sqdesc, per := hfr.per
            cutset := hfr.cutset, comments := hfr.comments, gf := hfr.gf, gsTags := hfr.gsTags, gs := hfr.gs
            gcTags := hfr.gcTags, gc := hfr.gc, grTags := hfr.grTags, gr := hfr.gr }
        alen := h.alen, nblock := h.nblock
        names := by show st.names ++ [_] = _; rw [h.names, hnames1]
        nseq := by show st.nseq + 1 = (st.names ++ [_]).length; rw [h.nseq]; simp
        alloc := by show (st.names ++ [_]).length ≤ st.sqalloc; simp; omega
        apos := h.apos, rows_len := h.rows_len, rows_done := h.rows_done, rows_todo := h.rows_todo
        salloc := h.salloc, sqlen_len := h.sqlen_len, sqlen_done := h.sqlen_done, sqlen_todo := h.sqlen_todo
        bpos := h.bpos, blt_len := h.blt_len, bidx_len := h.bidx_len, nrec := h.nrec, blt := h.blt, bidx := h.bidx
        npb := h.npb, bi := h.bi, si := h.si, nseqB := h.nseqB, alenB := h.alenB, inBlock := h.inBlock }

theorem set_rec {α : Type} (l : List α) (j : Nat) (v : α) (f : Nat → α) (hj : j < l.length)
    (h : ∀ i, i < j → l[i]? = some (f i)) (hv : v = f j) : ∀ i, i < j + 1 → (l.set j v)[i]? = some (f i) := by
  intro i hi
  rw [List.getElem?_set]
  by_cases e : j = i
  · subst e; simp [hj, hv]
  · simp only [e, if_false]; exact h i (by omega)

/-- first block: the line is recorded as line `j` of the block -/
theorem recordLine_new (cfg : Cfg) (enc : UInt8 → UInt8) (txt : Nat → Bytes) (m : Msa) (pos w jn j : Nat) (st : StoSt)
    (h : InBlk cfg enc txt m pos w jn j j st) :
    ∃ st2, recordLine st ltSQ (some j) = .ok st2 ∧ InBlk cfg enc txt m pos w jn (j + 1) j st2 := by
  have hfr := h.fr
  have hbi := h.bi
  have hnr := h.nrec
  have hbp := h.bpos
  unfold recordLine
  by_cases hb : st.bi = st.balloc
  · have hb' : (st.bi == st.balloc) = true := by simp [hb]
    simp only [hb', if_true]
    have hbi1 : (pdExpandBlock st).bi = j := hbi
    have hl1 : j < (pdExpandBlock st).blt.length := by
      show j < (st.blt ++ List.replicate st.balloc none).length
      simp [h.blt_len]; omega
    have hl2 : j < (pdExpandBlock st).bidx.length := by
      show j < (st.bidx ++ List.replicate st.balloc none).length
      simp [h.bidx_len]; omega
    rw [hbi1, setE_ok _ hl1, setE_ok _ hl2]
    refine ⟨_, rfl, ?_⟩
    exact
      { fr :=
          { lead := hfr.lead, hasw := hfr.hasw, name := hfr.name, desc := hfr.desc, acc := hfr.acc, au := hfr.au,
            cons := hfr.cons, sqacc := hfr.sqacc, sqdesc := hfr.sqdesc, per := hfr.per
            cutset := hfr.cutset, comments := hfr.comments, gf := hfr.gf, gsTags := hfr.gsTags, gs := hfr.gs
            gcTags := hfr.gcTags, gc := hfr.gc, grTags := hfr.grTags, gr := hfr.gr }
        alen := h.alen, nblock := h.nblock, names := h.names, nseq := h.nseq, alloc := h.alloc
        apos := h.apos, rows_len := h.rows_len, rows_done := h.rows_done, rows_todo := h.rows_todo
        salloc := h.salloc, sqlen_len := h.sqlen_len, sqlen_done := h.sqlen_done, sqlen_todo := h.sqlen_todo
        bpos := by show 0 < st.balloc * 2; omega
        blt_len := by
          show ((st.blt ++ List.replicate st.balloc none).set j _).length = st.balloc * 2
          simp [h.blt_len]; omega
        bidx_len := by
          show ((st.bidx ++ List.replicate st.balloc none).set j _).length = st.balloc * 2
          simp [h.bidx_len]; omega
        nrec := by show j + 1 ≤ st.balloc * 2; omega
        blt := set_rec _ j _ (fun _ => some ltSQ) hl1 (fun i hi => getElem?_append_some _ _ _ _ (h.blt i hi)) rfl
        bidx := set_rec _ j _ (fun i => some (some i)) hl2 (fun i hi => getElem?_append_some _ _ _ _ (h.bidx i hi)) rfl
        npb := h.npb, bi := rfl, si := h.si, nseqB := h.nseqB, alenB := h.alenB, inBlock := h.inBlock }
  · have hb' : (st.bi == st.balloc) = false := by simp [hb]
    simp only [hb', Bool.false_eq_true, if_false]
    have hl1 : j < st.blt.length := by rw [h.blt_len]; omega
    have hl2 : j < st.bidx.length := by rw [h.bidx_len]; omega
    rw [hbi, setE_ok _ hl1, setE_ok _ hl2]
    refine ⟨_, rfl, ?_⟩
    exact
      { fr :=
          { lead := hfr.lead, hasw := hfr.hasw, name := hfr.name, desc := hfr.desc, acc := hfr.acc, au := hfr.au,
            cons := hfr.cons, sqacc := hfr.sqacc, sqdesc := hfr.sqdesc, per := hfr.per
            cutset := hfr.cutset, comments := hfr.comments, gf := hfr.gf, gsTags := hfr.gsTags, gs := hfr.gs
            gcTags := hfr.gcTags, gc := hfr.gc, grTags := hfr.grTags, gr := hfr.gr }
        alen := h.alen, nblock := h.nblock, names := h.names, nseq := h.nseq, alloc := h.alloc
        apos := h.apos, rows_len := h.rows_len, rows_done := h.rows_done, rows_todo := h.rows_todo
        salloc := h.salloc, sqlen_len := h.sqlen_len, sqlen_done := h.sqlen_done, sqlen_todo := h.sqlen_todo
        bpos := h.bpos
        blt_len := by show (st.blt.set j _).length = st.balloc; simp [h.blt_len]
        bidx_len := by show (st.bidx.set j _).length = st.balloc; simp [h.bidx_len]
        nrec := by show j + 1 ≤ st.balloc; omega
        blt := set_rec _ j _ (fun _ => some ltSQ) hl1 h.blt rfl
        bidx := set_rec _ j _ (fun i => some (some i)) hl2 h.bidx rfl
        npb := h.npb, bi := rfl, si := h.si, nseqB := h.nseqB, alenB := h.alenB, inBlock := h.inBlock }

/-- first block: a sequence line names a new sequence -/
theorem sqLocate_first (cfg : Cfg) (enc : UInt8 → UInt8) (txt : Nat → Bytes) (m : Msa) (w j : Nat) (st : StoSt)
    (h : InBlk cfg enc txt m 0 w j j j st) (hj : j < m.nseq) (hnd : m.names.Nodup) :
    ∃ st2, sqLocate st (m.names.getD j []) = .ok (st2, j) ∧ InBlk cfg enc txt m 0 w (j + 1) (j + 1) j st2 := by
  have hnb : st.nblock = 0 := h.nblock.mpr rfl
  have hlen : st.names.length = j := by rw [h.names, List.length_take]; have : j < m.names.length := hj; omega
  have hsi : ¬ (st.si < st.nseq) := by rw [h.si, h.nseq, hlen]; omega
  obtain ⟨st1, h1, hI1⟩ := getSeqIdx_new cfg enc txt m w j j j st h hj hnd
  obtain ⟨st2, h2, hI2⟩ := recordLine_new cfg enc txt m 0 w (j + 1) j st1 hI1
  refine ⟨st2, ?_, hI2⟩
  unfold sqLocate sqSeqIdx
  simp only [hnb, beq_self_eq_true, if_true, hsi, if_false, h1, h2]

/-- later blocks: the line must be the one recorded for this position -/
theorem sqLocate_later (cfg : Cfg) (enc : UInt8 → UInt8) (txt : Nat → Bytes) (m : Msa) (pos w j : Nat) (st : StoSt)
    (h : InBlk cfg enc txt m pos w m.nseq m.nseq j st) (hj : j < m.nseq) (hpos : pos ≠ 0) :
    sqLocate st (m.names.getD j []) = .ok (st, j) := by
  have hnb : (st.nblock == 0) = false := by
    have : st.nblock ≠ 0 := fun e => hpos (h.nblock.mp e)
    simpa using this
  have hnames : st.names = m.names := by rw [h.names]; exact List.take_length
  have hnm : st.names[j]? = some (m.names.getD j []) := by
    rw [hnames, List.getD_eq_getElem?_getD, List.getElem?_eq_getElem (show j < m.names.length from hj)]; rfl
  have hsq : j < st.sqalloc := by have := h.alloc; rw [hnames] at this; have : j < m.names.length := hj; omega
  unfold sqLocate expectLine expectSeq sqnameAt
  have hge : ¬ (st.npb ≤ j) := by rw [h.npb hpos]; omega
  simp only [hnb, Bool.false_eq_true, if_false, hge, h.bi, getE_of (h.blt j hj), getE_of (h.bidx j hj), hsq, if_true, hnm]
  simp

/-- the rest of `stockholm_parse_sq` once the sequence is located: the piece is appended to row `j` -/
theorem parseSq_after (cfg : Cfg) (enc : UInt8 → UInt8) (txt : Nat → Bytes) (m : Msa) (pos w jn jb j : Nat) (st st2 : StoSt)
    (p nm c : Bytes) (hm : memtok p blankTab = some (nm, c)) (hc : ChunkOk c) (hloc : sqLocate st nm = .ok (st2, j))
    (h2 : InBlk cfg enc txt m pos w jn jb j st2) (hj : j < jn) (hjn : jn ≤ m.nseq)
    (hcj : c = ((txt j).drop pos).take w) (hw : 1 ≤ w) (hpw : pos + w ≤ m.alen) (htl : (txt j).length = m.alen)
    (hsym : ∀ t ∈ txt j, mapByte cfg.inmap t = (.ok, some (enc t))) :
    ∃ st3, parseSq cfg st p = .ok st3 ∧ InBlk cfg enc txt m pos w jn jb (j + 1) st3 := by
  have hfr := h2.fr
  have hjs : j < m.nseq := by omega
  have hjl : j < st2.names.length := by
    rw [h2.names, List.length_take]; have : jn ≤ m.names.length := hjn; omega
  have hsq : j < st2.sqalloc := by have := h2.alloc; omega
  have hcl : c.length = w := by rw [hcj, List.length_take, List.length_drop, htl]; omega
  have hcne : c.isEmpty = false := by
    cases c with
    | nil => exact absurd rfl hc.1
    | cons _ _ => rfl
  have hsl : st2.sqlen[j]? = some pos := by
    have := h2.sqlen_todo j (Nat.le_refl _) hsq; simpa [hjs] using this
  have hrw : st2.rows[j]? = some (phyRowAt cfg enc txt pos j) := by
    have := h2.rows_todo j (Nat.le_refl _) hsq; simpa [hjs] using this
  have hrl : rowLen cfg.digital (phyRowAt cfg enc txt pos j) = pos := by
    rw [rowLen_phyRowAt, List.length_take, htl]; omega
  have hcat : (if cfg.digital then dsqcat cfg.inmap (phyRowAt cfg enc txt pos j) c
                else strmapcat cfg.inmap (phyRowAt cfg enc txt pos j) c) = (.ok, phyRowAt cfg enc txt (pos + w) j) := by
    rw [phy_cat_plain cfg enc _ c hc.1 (fun t ht => hsym t (by
      rw [hcj] at ht; exact List.mem_of_mem_drop (List.mem_of_mem_take ht)))]
    rw [curCodes_phyRowAt, phyRowAt_pos _ _ _ _ _ (by omega), hcj, ← List.map_append, ← List.take_add]
  have hrl' : rowLen cfg.digital (phyRowAt cfg enc txt (pos + w) j) = pos + w := by
    rw [rowLen_phyRowAt, List.length_take, htl]; omega
  have hdup : (decide (st2.bi > 0) && (pos == pos + st2.alenB)) = false := by
    rw [h2.bi]
    by_cases hj0 : j = 0
    · simp [hj0]
    · rw [h2.alenB hj0]; have : ¬ (w = 0) := by omega
      simp [this]
  have hwid : (st2.bi != 0 && w != st2.alenB) = false := by
    rw [h2.bi]
    by_cases hj0 : j = 0
    · simp [hj0]
    · rw [h2.alenB hj0]; simp
  have hl1 : j < st2.rows.length := by rw [h2.rows_len]; exact hsq
  have hl2 : j < st2.sqlen.length := by rw [h2.sqlen_len]; exact hsq
  unfold parseSq
  simp only [hm, rtrim_chunk c hc, hcne, Bool.false_eq_true, if_false, hloc, getE_of hsl, h2.alen, hdup, getE_of hrw, hrl,
    bne_self_eq_false, hcat, hrl', hcl, hwid, setE_ok _ hl1, setE_ok _ hl2]
  refine ⟨_, rfl, ?_⟩
  exact
    { fr :=
        { lead := hfr.lead, hasw := hfr.hasw, name := hfr.name, desc := hfr.desc, acc := hfr.acc, au := hfr.au,
          cons := hfr.cons, sqacc := hfr.sqacc, sqdesc := hfr.sqdesc, per := hfr.per
          cutset := hfr.cutset, comments := hfr.comments, gf := hfr.gf, gsTags := hfr.gsTags, gs := hfr.gs
          gcTags := hfr.gcTags, gc := hfr.gc, grTags := hfr.grTags, gr := hfr.gr }
      alen := by first | rfl | exact h2.alen
      nblock := h2.nblock, names := h2.names, nseq := h2.nseq, alloc := h2.alloc, apos := h2.apos
      rows_len := by show (st2.rows.set j _).length = _; simp [h2.rows_len]
      rows_done := set_rec _ j _ (fun i => phyRowAt cfg enc txt (pos + w) i) hl1 h2.rows_done rfl
      rows_todo := fun i hi hi2 => by
        show (st2.rows.set j _)[i]? = _
        rw [List.getElem?_set_ne (by omega)]; exact h2.rows_todo i (by omega) hi2
      salloc := h2.salloc
      sqlen_len := by show (st2.sqlen.set j _).length = _; simp [h2.sqlen_len]
      sqlen_done := set_rec _ j _ (fun _ => pos + w) hl2 h2.sqlen_done rfl
      sqlen_todo := fun i hi hi2 => by
        show (st2.sqlen.set j _)[i]? = _
        rw [List.getElem?_set_ne (by omega)]; exact h2.sqlen_todo i (by omega) hi2
      bpos := h2.bpos, blt_len := h2.blt_len, bidx_len := h2.bidx_len, nrec := h2.nrec, blt := h2.blt, bidx := h2.bidx
      npb := h2.npb
      bi := by show st2.bi + 1 = j + 1; rw [h2.bi]
      si := rfl
      nseqB := by show st2.nseqB + 1 = j + 1; rw [h2.nseqB]
      alenB := fun _ => by first | rfl | exact hcl
      inBlock := by show true = decide (j + 1 ≠ 0); simp }

/-- the shape of a written sequence line -/
theorem sqline_shape (abc : Option Abc) (cfg : Cfg) (enc : UInt8 → UInt8) (txt : Nat → Bytes) (m : Msa)
    (W : StoWritable abc cfg enc txt m) (pos w j : Nat) (hj : j < m.nseq) (hw : 1 ≤ w) (hpw : pos + w ≤ m.alen) :
    ∃ sp c, stoSqLine abc m pos w j = m.names.getD j [] ++ sp ++ c ∧ SpOk sp ∧ ChunkOk c ∧ c = ((txt j).drop pos).take w := by
  refine ⟨List.replicate ((maxWidth m.names : Int).natAbs - (m.names.getD j []).length) 32 ++ [32], ((txt j).drop pos).take w,
    ?_, ⟨by simp, ?_⟩, ⟨?_, ?_⟩, rfl⟩
  · simp [stoSqLine, padRight, W.chunk_eq j hj]
  · intro c hc
    rcases List.mem_append.mp hc with hc | hc
    · exact (List.mem_replicate.mp hc).2
    · simpa using hc
  · intro h0
    have : (((txt j).drop pos).take w).length = 0 := by rw [h0]; rfl
    rw [List.length_take, List.length_drop, W.txt_len j hj] at this
    omega
  · intro t ht
    exact (W.txt_sym j hj t (List.mem_of_mem_drop (List.mem_of_mem_take ht))).2

/-- one sequence line of the first block -/
theorem sqline_first (abc : Option Abc) (cfg : Cfg) (enc : UInt8 → UInt8) (txt : Nat → Bytes) (m : Msa)
    (W : StoWritable abc cfg enc txt m) (w j : Nat) (st : StoSt) (h : InBlk cfg enc txt m 0 w j j j st)
    (hj : j < m.nseq) (hw : 1 ≤ w) (hpw : w ≤ m.alen) :
    ∃ st3, stoStep cfg st (stoSqLine abc m 0 w j) = .inl st3 ∧ InBlk cfg enc txt m 0 w (j + 1) (j + 1) (j + 1) st3 := by
  obtain ⟨sp, c, hline, hsp, hc, hcj⟩ := sqline_shape abc cfg enc txt m W 0 w j hj hw (by omega)
  obtain ⟨st2, hloc, h2⟩ := sqLocate_first cfg enc txt m w j st h hj W.nodup
  have hn := W.name_ok j hj
  obtain ⟨st3, hp, h3⟩ := parseSq_after cfg enc txt m 0 w (j + 1) (j + 1) j st st2 _ _ c
    (memtok_sqline _ sp c hn.1 hsp hc) hc hloc h2 (by omega) (by omega) hcj hw (by omega) (W.txt_len j hj)
    (fun t ht => (W.txt_sym j hj t ht).1)
  refine ⟨st3, ?_, h3⟩
  rw [hline, stoStep_sqline cfg st _ sp c h.fr.lead hn hsp, hp]; rfl

/-- one sequence line of a later block -/
theorem sqline_later (abc : Option Abc) (cfg : Cfg) (enc : UInt8 → UInt8) (txt : Nat → Bytes) (m : Msa)
    (W : StoWritable abc cfg enc txt m) (pos w j : Nat) (st : StoSt) (h : InBlk cfg enc txt m pos w m.nseq m.nseq j st)
    (hpos : pos ≠ 0) (hj : j < m.nseq) (hw : 1 ≤ w) (hpw : pos + w ≤ m.alen) :
    ∃ st3, stoStep cfg st (stoSqLine abc m pos w j) = .inl st3 ∧ InBlk cfg enc txt m pos w m.nseq m.nseq (j + 1) st3 := by
  obtain ⟨sp, c, hline, hsp, hc, hcj⟩ := sqline_shape abc cfg enc txt m W pos w j hj hw hpw
  have hloc := sqLocate_later cfg enc txt m pos w j st h hj hpos
  have hn := W.name_ok j hj
  obtain ⟨st3, hp, h3⟩ := parseSq_after cfg enc txt m pos w m.nseq m.nseq j st st _ _ c
    (memtok_sqline _ sp c hn.1 hsp hc) hc hloc h hj (Nat.le_refl _) hcj hw hpw (W.txt_len j hj)
    (fun t ht => (W.txt_sym j hj t ht).1)
  refine ⟨st3, ?_, h3⟩
  rw [hline, stoStep_sqline cfg st _ sp c h.fr.lead hn hsp, hp]; rfl

/-! ## blocks -/

/-- the sequence lines of the first block -/
theorem sqlines_first (abc : Option Abc) (cfg : Cfg) (enc : UInt8 → UInt8) (txt : Nat → Bytes) (m : Msa)
    (W : StoWritable abc cfg enc txt m) (w : Nat) (st : StoSt) (h : InBlk cfg enc txt m 0 w 0 0 0 st) (hw : 1 ≤ w) (hpw : w ≤ m.alen) :
    ∀ j, j ≤ m.nseq → ∃ st', stepsFrom (stoStep cfg) st ((List.range j).map (stoSqLine abc m 0 w)) = .inl st' ∧
      InBlk cfg enc txt m 0 w j j j st' := by
  intro j
  induction j with
  | zero => intro _; exact ⟨st, rfl, h⟩
  | succ j ih =>
    intro hj
    obtain ⟨st1, hs1, h1⟩ := ih (by omega)
    obtain ⟨st2, hs2, h2⟩ := sqline_first abc cfg enc txt m W w j st1 h1 (by omega) hw hpw
    refine ⟨st2, ?_, h2⟩
    rw [List.range_succ, List.map_append, stepsFrom_append _ _ _ _ _ hs1]
    simp [stepsFrom, hs2]

/-- the sequence lines of a later block -/
theorem sqlines_later (abc : Option Abc) (cfg : Cfg) (enc : UInt8 → UInt8) (txt : Nat → Bytes) (m : Msa)
    (W : StoWritable abc cfg enc txt m) (pos w : Nat) (st : StoSt) (h : InBlk cfg enc txt m pos w m.nseq m.nseq 0 st)
    (hpos : pos ≠ 0) (hw : 1 ≤ w) (hpw : pos + w ≤ m.alen) :
    ∀ j, j ≤ m.nseq → ∃ st', stepsFrom (stoStep cfg) st ((List.range j).map (stoSqLine abc m pos w)) = .inl st' ∧
      InBlk cfg enc txt m pos w m.nseq m.nseq j st' := by
  intro j
  induction j with
  | zero => intro _; exact ⟨st, rfl, h⟩
  | succ j ih =>
    intro hj
    obtain ⟨st1, hs1, h1⟩ := ih (by omega)
    obtain ⟨st2, hs2, h2⟩ := sqline_later abc cfg enc txt m W pos w j st1 h1 hpos (by omega) hw hpw
    refine ⟨st2, ?_, h2⟩
    rw [List.range_succ, List.map_append, stepsFrom_append _ _ _ _ _ hs1]
    simp [stepsFrom, hs2]

/-- the end-of-block bookkeeping after a complete block -/
theorem endBlock_full (cfg : Cfg) (enc : UInt8 → UInt8) (txt : Nat → Bytes) (m : Msa) (pos w w' jn : Nat) (st : StoSt)
    (h : InBlk cfg enc txt m pos w jn m.nseq m.nseq st) (hjn : jn = m.nseq) (hn1 : 1 ≤ m.nseq) (hw : 1 ≤ w) :
    ∃ st', endBlock st = .ok st' ∧ InBlk cfg enc txt m (pos + w) w' m.nseq m.nseq 0 st' := by
  subst hjn
  have hfr := h.fr
  have hn0 : m.nseq ≠ 0 := by omega
  have hnames : st.names = m.names := by rw [h.names]; exact List.take_length
  have hnl : st.names.length = m.nseq := by rw [hnames]; rfl
  have hnseq : st.nseq = m.nseq := by rw [h.nseq, hnl]
  have hib : st.inBlock = true := by rw [h.inBlock]; simp [hn0]
  unfold endBlock
  have c1 : (st.nblock != 0 && st.nseqB != st.nseq) = false := by rw [h.nseqB, hnseq]; simp
  have c2 : (st.nblock == 0 && decide (st.nseqB < st.nseq)) = false := by rw [h.nseqB, hnseq]; simp
  have c3 : (st.nblock != 0 && st.bi != st.npb) = false := by
    by_cases hp : pos = 0
    · have : st.nblock = 0 := h.nblock.mpr hp
      simp [this]
    · rw [h.bi, h.npb hp]; simp
  simp only [hib, if_true, c1, c2, c3, Bool.false_eq_true, if_false]
  refine ⟨_, rfl, ?_⟩
  exact
    { fr :=
        { lead := hfr.lead, hasw := hfr.hasw, name := hfr.name, desc := hfr.desc, acc := hfr.acc, au := hfr.au,
          cons := hfr.cons, sqacc := hfr.sqacc, sqdesc := hfr.sqdesc, per := hfr.per
          cutset := hfr.cutset, comments := hfr.comments, gf := hfr.gf, gsTags := hfr.gsTags, gs := hfr.gs
          gcTags := hfr.gcTags, gc := hfr.gc, grTags := hfr.grTags, gr := hfr.gr }
      alen := by show st.alen + st.alenB = pos + w; rw [h.alen, h.alenB hn0]
      nblock := by
        show st.nblock + 1 = 0 ↔ pos + w = 0
        constructor <;> intro e <;> omega
      names := h.names
      nseq := by show st.nseqB = st.names.length; rw [h.nseqB, hnl]
      alloc := h.alloc, apos := h.apos, rows_len := h.rows_len
      rows_done := fun i hi => by omega
      rows_todo := fun i _ hi2 => by
        by_cases hi : i < m.nseq
        · rw [if_pos hi]; exact h.rows_done i hi
        · have := h.rows_todo i (by omega) hi2
          rw [if_neg hi] at this ⊢; exact this
      salloc := h.salloc, sqlen_len := h.sqlen_len
      sqlen_done := fun i hi => by omega
      sqlen_todo := fun i _ hi2 => by
        by_cases hi : i < m.nseq
        · rw [if_pos hi]; exact h.sqlen_done i hi
        · have := h.sqlen_todo i (by omega) hi2
          rw [if_neg hi] at this ⊢; exact this
      bpos := h.bpos, blt_len := h.blt_len, bidx_len := h.bidx_len, nrec := h.nrec, blt := h.blt, bidx := h.bidx
      npb := fun _ => h.bi
      bi := rfl, si := rfl, nseqB := rfl
      alenB := fun e => absurd rfl e
      inBlock := by show false = decide ((0 : Nat) ≠ 0); simp }

theorem stoStep_blank (cfg : Cfg) (st st' : StoSt) (hl : st.lead = false) (he : endBlock st = .ok st') :
    stoStep cfg st [] = .inl st' := by
  unfold stoStep
  simp [hl, he, memstrpfx, bSlash]

theorem stoStep_slash (cfg : Cfg) (st st' : StoSt) (hl : st.lead = false) (he : endBlock st = .ok st') :
    stoStep cfg st [47, 47] = .inr (stoFinal cfg st') := by
  unfold stoStep
  simp [hl, he, memstrpfx, bSlash]

/-- a whole later block: the blank line, then the sequence lines -/
theorem block_later (abc : Option Abc) (cfg : Cfg) (enc : UInt8 → UInt8) (txt : Nat → Bytes) (m : Msa)
    (W : StoWritable abc cfg enc txt m) (cpl p w pos : Nat) (st : StoSt) (h : InBlk cfg enc txt m p w m.nseq m.nseq m.nseq st)
    (hpw : p + w = pos) (hw : 1 ≤ w) (hlt : pos < m.alen) (hc : 0 < cpl) :
    ∃ st', stepsFrom (stoStep cfg) st (stoPlainBlock abc m cpl pos) = .inl st' ∧
      InBlk cfg enc txt m pos (stoW m cpl pos) m.nseq m.nseq m.nseq st' := by
  have hpos : pos ≠ 0 := by omega
  have hw1 : 1 ≤ stoW m cpl pos := by unfold stoW; split <;> omega
  have hw2 : pos + stoW m cpl pos ≤ m.alen := by unfold stoW; split <;> omega
  obtain ⟨st1, he, h1⟩ := endBlock_full cfg enc txt m p w (stoW m cpl pos) m.nseq st h rfl W.n1 hw
  rw [hpw] at h1
  obtain ⟨st2, hs2, h2⟩ := sqlines_later abc cfg enc txt m W pos _ st1 h1 hpos hw1 hw2 m.nseq (Nat.le_refl _)
  refine ⟨st2, ?_, h2⟩
  unfold stoPlainBlock
  have : pos > 0 := by omega
  simp only [this, if_true, List.singleton_append, stepsFrom, stoStep_blank cfg st st1 h.fr.lead he]
  exact hs2

/-- all the later blocks -/
theorem blocks_later (abc : Option Abc) (cfg : Cfg) (enc : UInt8 → UInt8) (txt : Nat → Bytes) (m : Msa)
    (W : StoWritable abc cfg enc txt m) (cpl : Nat) (hc : 0 < cpl) :
    ∀ k pos, m.alen - pos ≤ k → ∀ (st : StoSt) (p w : Nat), InBlk cfg enc txt m p w m.nseq m.nseq m.nseq st →
      p + w = min pos m.alen → 1 ≤ w →
      ∃ st' p' w', stepsFrom (stoStep cfg) st ((blockStartsFrom m.alen cpl pos).flatMap (stoPlainBlock abc m cpl)) = .inl st' ∧
        InBlk cfg enc txt m p' w' m.nseq m.nseq m.nseq st' ∧ p' + w' = m.alen ∧ 1 ≤ w' := by
  intro k
  induction k with
  | zero =>
    intro pos hk st p w h hpw hw
    have hge : ¬ (pos < m.alen ∧ 0 < cpl) := by omega
    rw [blockStartsFrom, dif_neg hge]
    exact ⟨st, p, w, rfl, h, by omega, hw⟩
  | succ k ih =>
    intro pos hk st p w h hpw hw
    by_cases hlt : pos < m.alen
    · rw [blockStartsFrom, dif_pos ⟨hlt, hc⟩, List.flatMap_cons]
      obtain ⟨st1, hs1, h1⟩ := block_later abc cfg enc txt m W cpl p w pos st h (by omega) hw hlt hc
      have hw1 : 1 ≤ stoW m cpl pos := by unfold stoW; split <;> omega
      have hnext : pos + stoW m cpl pos = min (pos + cpl) m.alen := by unfold stoW; split <;> omega
      obtain ⟨st2, p', w', hs2, h2, he, hw'⟩ := ih (pos + cpl) (by omega) st1 pos _ h1 hnext hw1
      refine ⟨st2, p', w', ?_, h2, he, hw'⟩
      rw [stepsFrom_append _ _ _ _ _ hs1]; exact hs2
    · have hge : ¬ (pos < m.alen ∧ 0 < cpl) := by omega
      rw [blockStartsFrom, dif_neg hge]
      exact ⟨st, p, w, rfl, h, by omega, hw⟩

theorem blockStarts_cons' (alen cpl : Nat) (h : 1 ≤ alen) (hc : 0 < cpl) :
    blockStarts alen cpl = 0 :: blockStartsFrom alen cpl cpl := by
  unfold blockStarts
  rw [blockStartsFrom, dif_pos ⟨by omega, hc⟩, Nat.zero_add]

theorem InBlk_init (cfg : Cfg) (enc : UInt8 → UInt8) (txt : Nat → Bytes) (m : Msa) (w : Nat) :
    InBlk cfg enc txt m 0 w 0 0 0 { lead := false } :=
  { fr := ⟨rfl, rfl, rfl, rfl, rfl, rfl, rfl, rfl, rfl, rfl, rfl, rfl, rfl, rfl, rfl, rfl, rfl, rfl, rfl⟩
    alen := rfl, nblock := ⟨fun _ => rfl, fun _ => rfl⟩, names := by simp, nseq := rfl, alloc := by decide, apos := by decide
    rows_len := by decide
    rows_done := fun i hi => by omega
    rows_todo := fun i _ hi2 => by
      have hi2' : i < 16 := hi2
      show (List.replicate 16 none)[i]? = _
      rw [List.getElem?_replicate, if_pos hi2']
      simp [phyRowAt]
    salloc := rfl, sqlen_len := by decide
    sqlen_done := fun i hi => by omega
    sqlen_todo := fun i _ hi2 => by
      have hi2' : i < 16 := hi2
      show (List.replicate 16 0)[i]? = _
      rw [List.getElem?_replicate, if_pos hi2']
      simp
    bpos := by decide, blt_len := by decide, bidx_len := by decide, nrec := by decide
    blt := fun i hi => by omega
    bidx := fun i hi => by omega
    npb := fun e => absurd rfl e
    bi := rfl, si := rfl, nseqB := rfl
    alenB := fun e => absurd rfl e
    inBlock := rfl }

/-! ## the end of the record -/

/-- everything Stockholm/Pfam represent of `m`: all of it; rows in the reader's mode, default weights -/
def stoProject (cfg : Cfg) (m : Msa) : Msa :=
  { m with digital := cfg.digital, kp := cfg.kp,
           aseq := if cfg.digital then [] else (List.range m.nseq).map m.stored,
           ax := if cfg.digital then (List.range m.nseq).map m.stored else [],
           wgt := List.replicate m.nseq Wgt.dflt }

theorem rows_take_final (rows : List (Option Bytes)) (n : Nat) (f : Nat → Bytes)
    (h : ∀ i, i < n → rows[i]? = some (some (f i))) : (rows.take n).map (·.getD []) = (List.range n).map f := by
  apply List.ext_getElem?
  intro i
  by_cases hi : i < n
  · simp [List.getElem?_take, hi, h i hi]
  · simp [List.getElem?_take, hi]

theorem stoFinal_full (abc : Option Abc) (cfg : Cfg) (enc : UInt8 → UInt8) (txt : Nat → Bytes) (m : Msa)
    (W : StoWritable abc cfg enc txt m) (w : Nat) (st : StoSt) (h : InBlk cfg enc txt m m.alen w m.nseq m.nseq 0 st) :
    stoFinal cfg st = .ok (stoProject cfg m) := by
  have hfr := h.fr
  have hp := W.plain
  have ha1 := W.alen1
  have hn1 := W.n1
  have hnames : st.names = m.names := by rw [h.names]; exact List.take_length
  have hnl : st.names.length = m.nseq := by rw [hnames]; rfl
  have hnseq : st.nseq = m.nseq := by rw [h.nseq, hnl]
  have hnb : (st.nblock == 0) = false := by
    have : st.nblock ≠ 0 := fun e => by have := h.nblock.mp e; omega
    simpa using this
  have hn0 : (st.nseq == 0) = false := by rw [hnseq]; simp; omega
  have hsq : ∀ i, i < m.nseq → i < st.sqalloc := fun i hi => by have := h.alloc; omega
  have hfind : (List.range st.nseq).find? (fun i => st.sqlen[i]? != some st.alen) = none := by
    rw [List.find?_eq_none]
    intro i hi
    rw [hnseq] at hi
    have hi' := List.mem_range.mp hi
    have := h.sqlen_todo i (Nat.zero_le _) (hsq i hi')
    rw [if_pos hi'] at this
    rw [this, h.alen]; simp
  have hrows : (st.rows.take m.nseq).map (·.getD []) = (List.range m.nseq).map m.stored := by
    apply rows_take_final
    intro i hi
    have := h.rows_todo i (Nat.zero_le _) (hsq i hi)
    rw [if_pos hi, phyRowAt_full _ _ _ _ _ (by omega) (by rw [W.txt_len i hi]; exact Nat.le_refl _)] at this
    rw [this, W.row_enc i hi]
  unfold stoFinal
  simp only [hnb, hn0, Bool.false_eq_true, if_false, hfind, hfr.hasw]
  congr 1
  unfold stoMsa stoProject
  simp only [hnseq, hrows, hnames, h.alen, hfr.hasw, hfr.name, hfr.desc, hfr.acc, hfr.au, hfr.cons, hfr.sqacc, hfr.sqdesc, hfr.per,
    hfr.cutset, hfr.comments, hfr.gf, hfr.gsTags, hfr.gs, hfr.gcTags, hfr.gc, hfr.grTags, hfr.gr]
  rcases m with ⟨digital, kp, alen, names, aseq, ax, hasw, wgt, name, desc, acc, au, ssCons, saCons, ppCons, rf, mm, sqacc, sqdesc,
    ss, sa, pp, cutoff, comments, gf, gs, gc, gr⟩
  obtain ⟨e1, e2, e3, e4, e5, e6, e7, e8, e9, e10, e11, e12, e13, e14, e15, e16, e17, e18, e19, e20, e21⟩ := hp
  simp only at e1 e2 e3 e4 e5 e6 e7 e8 e9 e10 e11 e12 e13 e14 e15 e16 e17 e18 e19 e20 e21
  subst e1 e2 e3 e4 e5 e6 e7 e8 e9 e10 e11 e12 e13 e14 e15 e16 e17 e18 e19 e20 e21
  simp [Msa.nseq]

/-! ## the round trip -/

/-- **Stockholm / Pfam round trip on lines** (alignment without annotation) -/
theorem stoRead_writeLines (pfam : Bool) (abc : Option Abc) (cfg : Cfg) (enc : UInt8 → UInt8) (txt : Nat → Bytes) (m : Msa)
    (W : StoWritable abc cfg enc txt m) :
    stockholmRead cfg (stockholmBodyLines pfam abc m ++ [[47, 47]]) = (.ok (stoProject cfg m), []) := by
  have ha1 := W.alen1
  have hc : 0 < stoCpl pfam m := by unfold stoCpl; split <;> omega
  rw [stoBody_plain pfam abc m W.plain W.nodup, blockStarts_cons' _ _ ha1 hc, List.flatMap_cons]
  -- header and the blank line behind it
  have h0 : stoStep cfg {} bSto10 = .inl { lead := false } := rfl
  have hI0 := InBlk_init cfg enc txt m (stoW m (stoCpl pfam m) 0)
  have hb : stoStep cfg { lead := false } [] = .inl { lead := false } := stoStep_blank cfg _ _ rfl rfl
  -- first block
  have hw1 : 1 ≤ stoW m (stoCpl pfam m) 0 := by unfold stoW; split <;> omega
  have hw2 : stoW m (stoCpl pfam m) 0 ≤ m.alen := by unfold stoW; split <;> omega
  obtain ⟨st1, hs1, h1⟩ := sqlines_first abc cfg enc txt m W _ _ hI0 hw1 hw2 m.nseq (Nat.le_refl _)
  have hnext : 0 + stoW m (stoCpl pfam m) 0 = min (stoCpl pfam m) m.alen := by unfold stoW; split <;> omega
  obtain ⟨st2, p', w', hs2, h2, he, hw'⟩ :=
    blocks_later abc cfg enc txt m W _ hc (m.alen - stoCpl pfam m) (stoCpl pfam m) (Nat.le_refl _) st1 0 _ h1 hnext hw1
  obtain ⟨st3, he3, h3⟩ := endBlock_full cfg enc txt m p' w' 0 m.nseq st2 h2 rfl W.n1 hw'
  rw [he] at h3
  have hfin := stoFinal_full abc cfg enc txt m W 0 st3 h3
  have hsteps : stepsFrom (stoStep cfg) {}
      ([bSto10, []] ++ (stoPlainBlock abc m (stoCpl pfam m) 0 ++
        (blockStartsFrom m.alen (stoCpl pfam m) (stoCpl pfam m)).flatMap (stoPlainBlock abc m (stoCpl pfam m)))) = .inl st2 := by
    simp only [List.cons_append, List.nil_append, stepsFrom, h0, hb]
    rw [stepsFrom_append _ _ _ _ _ (by simpa [stoPlainBlock] using hs1)]
    exact hs2
  unfold stockholmRead
  rw [runLines_append_inl _ _ _ _ _ _ hsteps]
  simp only [runLines, stoStep_slash cfg st2 st3 h2.fr.lead he3, hfin]

theorem stoLines_ok (pfam : Bool) (abc : Option Abc) (cfg : Cfg) (enc : UInt8 → UInt8) (txt : Nat → Bytes) (m : Msa)
    (W : StoWritable abc cfg enc txt m) : ∀ l ∈ stockholmLines pfam abc m, lineOk l := by
  have hc : 0 < stoCpl pfam m := by have := W.alen1; unfold stoCpl; split <;> omega
  intro l hl
  unfold stockholmLines at hl
  rw [stoBody_plain pfam abc m W.plain W.nodup] at hl
  simp only [List.mem_append, List.mem_cons, List.mem_flatMap, List.not_mem_nil, or_false] at hl
  have hnil : lineOk ([] : Bytes) := ⟨by simp, by simp⟩
  rcases hl with ((hl | hl) | ⟨pos, hpos, hl⟩) | hl
  · subst hl; exact ⟨by decide, by decide⟩
  · subst hl; exact hnil
  · have hlt := blockStarts_lt _ _ pos hpos
    unfold stoPlainBlock at hl
    rcases List.mem_append.mp hl with hl | hl
    · split at hl
      · simp at hl; subst hl; exact hnil
      · simp at hl
    · obtain ⟨j, hj, rfl⟩ := List.mem_map.mp hl
      have hj' := List.mem_range.mp hj
      have hw1 : 1 ≤ stoW m (stoCpl pfam m) pos := by unfold stoW; split <;> omega
      have hw2 : pos + stoW m (stoCpl pfam m) pos ≤ m.alen := by unfold stoW; split <;> omega
      obtain ⟨sp, c, hline, hsp, hcq, _⟩ := sqline_shape abc cfg enc txt m W pos _ j hj' hw1 hw2
      rw [hline]
      have hn := W.name_ok j hj'
      constructor
      · intro h10
        rcases List.mem_append.mp h10 with h | h
        · rcases List.mem_append.mp h with h | h
          · exact hn.2.1 h
          · exact absurd (hsp.2 10 h) (by decide)
        · exact absurd (hcq.2 10 h).1 (by decide)
      · intro h13
        rw [List.getLast?_append] at h13
        cases hcl : c.getLast? with
        | none => exact hcq.1 (List.getLast?_eq_none_iff.mp hcl)
        | some x =>
          rw [hcl] at h13
          simp at h13
          subst h13
          exact absurd (hcq.2 13 (List.mem_of_getLast? hcl)).1 (by decide)
  · subst hl; exact ⟨by decide, by decide⟩

/-- **Stockholm / Pfam round trip on bytes** (alignment without annotation) -/
theorem stoRead_write (pfam : Bool) (abc : Option Abc) (cfg : Cfg) (enc : UInt8 → UInt8) (txt : Nat → Bytes) (m : Msa)
    (W : StoWritable abc cfg enc txt m) :
    stockholmRead cfg (splitLines (stockholmWrite pfam abc m)) = (.ok (stoProject cfg m), []) := by
  unfold stockholmWrite joinLF
  rw [splitLines_join _ (stoLines_ok pfam abc cfg enc txt m W)]
  exact stoRead_writeLines pfam abc cfg enc txt m W

end EaselModel.Msafile
