import EaselModel.Msafile.PhylipRoundTrip
import EaselModel.Msafile.Stockholm
import EaselModel.Msafile.WriteStockholm
import EaselModel.Msafile.WriteLemmas
import EaselModel.Msafile.StockholmLemmas
/-! Stockholm / Pfam: reading what `esl_msafile_stockholm_Write` wrote gives the alignment back (C03).

This file covers alignments WITHOUT optional annotation (names and aligned rows only), in one block (Pfam) or in
200-column blocks (Stockholm). -/
namespace EaselModel.Msafile

/-! ## the writer's output for an alignment without annotation -/

/-- a sequence name the Stockholm reader takes as a sequence name: not empty, no blank/tab/NUL, no LF, does not begin
    with `#` nor with `//` -/
def stoNameOk (nm : Bytes) : Prop :=
  nameOk nm ∧ (10 : UInt8) ∉ nm ∧ nm.head? ≠ some 35 ∧ memstrpfx nm bSlash = false

/-- nothing but names and rows -/
structure StoPlain (m : Msa) : Prop where
  hasw : m.hasw = false
  name : m.name = none
  desc : m.desc = none
  acc : m.acc = none
  au : m.au = none
  ssCons : m.ssCons = none
  saCons : m.saCons = none
  ppCons : m.ppCons = none
  rf : m.rf = none
  mm : m.mm = none
  sqacc : m.sqacc = none
  sqdesc : m.sqdesc = none
  ss : m.ss = none
  sa : m.sa = none
  pp : m.pp = none
  cutoff : m.cutoff = []
  comments : m.comments = []
  gf : m.gf = []
  gs : m.gs = []
  gc : m.gc = []
  gr : m.gr = []

/-- the five parsed `#=GC` fields, in the order `stockholm_write` prints them (= the reader's slots `ss_cons sa_cons pp_cons rf mm`) -/
def consF (m : Msa) : List (Option Bytes) := [m.ssCons, m.saCons, m.ppCons, m.rf, m.mm]
def consTag : List Bytes := [bSScons, bSAcons, bPPcons, bRF, bMM]
def consLT : List Nat := [ltGCSSCONS, ltGCSACONS, ltGCPPCONS, ltGCRF, ltGCMM]

/-- a per-column annotation string that survives: one character per column, none of them white space or NUL
    (the reader splits off the text with `esl_memtok` and trims trailing blanks/tabs; a block boundary may fall anywhere) -/
def colTextOk (alen : Nat) (s : Bytes) : Prop := s.length = alen ∧ ∀ c ∈ s, isSpace c = false ∧ c ≠ 0

/-- a `#=GF` one-token value (ID, AC): not empty, no blank/tab/NUL, no LF, does not end in CR -/
def gfTokOk (v : Bytes) : Prop := nameOk v ∧ (10 : UInt8) ∉ v ∧ v.getLast? ≠ some 13

/-- a `#=GF` free-text value (DE, AU, unparsed tags): does not begin with blank/tab, no NUL, no LF, does not end in CR -/
def gfTextOk (v : Bytes) : Prop :=
  (∀ c, v.head? = some c → inDelim blankTab c = false) ∧ (0 : UInt8) ∉ v ∧ (10 : UInt8) ∉ v ∧ v.getLast? ≠ some 13

/-- a comment that survives: does not begin with white space (the reader skips it), no NUL, no LF, no CR at the end, and
    `#` + comment is not taken for a `#=GF/#=GS/#=GC/#=GR` line -/
def comOk (c : Bytes) : Prop :=
  (∀ x, c.head? = some x → isSpace x = false) ∧ (0 : UInt8) ∉ c ∧ (10 : UInt8) ∉ c ∧ c.getLast? ≠ some 13 ∧
  memstrpfx (35 :: c) bGF = false ∧ memstrpfx (35 :: c) bGS = false ∧ memstrpfx (35 :: c) bGC = false ∧
  memstrpfx (35 :: c) bGR = false

/-- an unparsed `#=GF` tag: a token, and none of the tags the reader parses -/
def gfTagOk (t : Bytes) : Prop :=
  nameOk t ∧ (10 : UInt8) ∉ t ∧ t ≠ bID ∧ t ≠ bAC ∧ t ≠ bDE ∧ t ≠ bAU ∧ t ≠ bGA ∧ t ≠ bNC ∧ t ≠ bTC

/-- `msa->alloc_ncomment` after `n` calls of `esl_msa_AddComment` -/
def comAllocN : Nat → Nat
  | 0 => 0
  | n + 1 =>
    let a0 := if comAllocN n == 0 then 16 else comAllocN n
    if n == a0 then a0 * 2 else a0

/-- `msa->alloc_ngf` after `n` calls of `esl_msa_AddGF` -/
def gfAllocN : Nat → Nat
  | 0 => 0
  | n + 1 => if n == gfAllocN n then (if gfAllocN n == 0 then 16 else gfAllocN n * 2) else gfAllocN n

/-- a binary32 pattern that is neither an infinity nor a NaN -/
def finiteF32 (b : UInt32) : Prop := (b.toNat / 2 ^ 23) % 256 ≠ 255

/-- what a cut-off pair does to `cutset` -/
def cutPair (cs : List Bool) (i1 i2 : Nat) (c1 c2 : Option UInt32) : List Bool :=
  match c1, c2 with
  | some _, some _ => (cs.set i1 true).set i2 true
  | some _, none => cs.set i1 true
  | none, _ => cs

/-- `msa->cutset[]` after the reader has seen the `#=GF GA/NC/TC` lines the writer prints (a second threshold is printed
    only together with the first) -/
def cutsetOf (m : Msa) : List Bool :=
  let cut := fun (k : Nat) => m.cutoff.getD k none
  cutPair (cutPair (cutPair (List.replicate 6 false) 2 3 (cut 2) (cut 3)) 4 5 (cut 4) (cut 5)) 0 1 (cut 0) (cut 1)

/-- which `cutset` flags come back: a first threshold when it is set, a second one only together with the first -/
theorem cutsetOf_eq (m : Msa) :
    cutsetOf m = [(m.cutoff.getD 0 none).isSome, (m.cutoff.getD 0 none).isSome && (m.cutoff.getD 1 none).isSome,
                  (m.cutoff.getD 2 none).isSome, (m.cutoff.getD 2 none).isSome && (m.cutoff.getD 3 none).isSome,
                  (m.cutoff.getD 4 none).isSome, (m.cutoff.getD 4 none).isSome && (m.cutoff.getD 5 none).isSome] := by
  show cutPair (cutPair (cutPair (List.replicate 6 false) 2 3 (m.cutoff.getD 2 none) (m.cutoff.getD 3 none)) 4 5
    (m.cutoff.getD 4 none) (m.cutoff.getD 5 none)) 0 1 (m.cutoff.getD 0 none) (m.cutoff.getD 1 none) = _
  generalize m.cutoff.getD 0 none = o0
  generalize m.cutoff.getD 1 none = o1
  generalize m.cutoff.getD 2 none = o2
  generalize m.cutoff.getD 3 none = o3
  generalize m.cutoff.getD 4 none = o4
  generalize m.cutoff.getD 5 none = o5
  cases o0 <;> cases o1 <;> cases o2 <;> cases o3 <;> cases o4 <;> cases o5 <;> rfl

/-- the annotation covered here: the five `#=GC` consensus lines and the whole header section (comment lines, `#=GF ID, AC,
    DE, AU`, the cut-offs `GA NC TC` with finite values, unparsed `#=GF` tags); nothing per sequence, no unparsed `#=GC`,
    no weights -/
structure StoAnn (m : Msa) : Prop where
  hasw : m.hasw = false
  sqacc : m.sqacc = none
  sqdesc : m.sqdesc = none
  ss : m.ss = none
  sa : m.sa = none
  pp : m.pp = none
  gs : m.gs = []
  gc : m.gc = []
  gr : m.gr = []
  cons_ok : ∀ k s, (consF m).getD k none = some s → colTextOk m.alen s
  name_ok : ∀ v, m.name = some v → gfTokOk v
  acc_ok : ∀ v, m.acc = some v → gfTokOk v
  desc_ok : ∀ v, m.desc = some v → gfTextOk v
  au_ok : ∀ v, m.au = some v → gfTextOk v
  cut_ok : ∀ k v, m.cutoff.getD k none = some v → finiteF32 v
  com_ok : ∀ c ∈ m.comments, comOk c
  gf_ok : ∀ t ∈ m.gf, gfTagOk t.1 ∧ gfTextOk t.2

theorem StoPlain.ann {m : Msa} (h : StoPlain m) : StoAnn m :=
  { hasw := h.hasw, sqacc := h.sqacc, sqdesc := h.sqdesc, ss := h.ss, sa := h.sa, pp := h.pp
    gs := h.gs, gc := h.gc, gr := h.gr
    cons_ok := fun k s hs => by
      have : (consF m).getD k none = none := by
        unfold consF; rw [h.ssCons, h.saCons, h.ppCons, h.rf, h.mm]
        rcases k with _ | _ | _ | _ | _ | _ <;> rfl
      rw [this] at hs; cases hs
    name_ok := fun v hv => by rw [h.name] at hv; cases hv
    acc_ok := fun v hv => by rw [h.acc] at hv; cases hv
    desc_ok := fun v hv => by rw [h.desc] at hv; cases hv
    au_ok := fun v hv => by rw [h.au] at hv; cases hv
    cut_ok := fun k v hv => by rw [h.cutoff] at hv; simp at hv
    com_ok := fun c hc => by rw [h.comments] at hc; cases hc
    gf_ok := fun t ht => by rw [h.gf] at ht; cases ht }

/-- an alignment (names, rows, and the annotation `StoAnn` admits) that Stockholm/Pfam carry and `stockholm_write` +
    `esl_msafile_stockholm_Read` (configuration `cfg`) preserve.  `txt i` is the text the writer prints for row `i`, `enc`
    sends a written symbol to the stored symbol. -/
structure StoWritable (abc : Option Abc) (cfg : Cfg) (enc : UInt8 → UInt8) (txt : Nat → Bytes) (m : Msa) : Prop where
  ann : StoAnn m
  n1 : 1 ≤ m.nseq
  alen1 : 1 ≤ m.alen
  nodup : m.names.Nodup
  name_ok : ∀ i, i < m.nseq → stoNameOk (m.names.getD i [])
  txt_len : ∀ i, i < m.nseq → (txt i).length = m.alen
  chunk_eq : ∀ i, i < m.nseq → ∀ pos n, seqChunk abc m i pos n = ((txt i).drop pos).take n
  txt_sym : ∀ i, i < m.nseq → ∀ t ∈ txt i, mapByte cfg.inmap t = (.ok, some (enc t)) ∧ isSpace t = false ∧ t ≠ 0
  row_enc : ∀ i, i < m.nseq → m.stored i = mkRow cfg.digital ((txt i).map enc)

/-- the width the writer pads a sequence name to in a sequence line (`margin - uniqwidth - 1`) -/
def stoPadW (m : Msa) : Int := ((stoLayout m).margin : Int) - (stoLayout m).uniqwidth - 1

/-- one sequence line: `"%-*s %s\n"` -/
def stoSqLine (abc : Option Abc) (m : Msa) (pos w i : Nat) : Bytes :=
  padRight (stoPadW m) (m.names.getD i []) ++ [32] ++ seqChunk abc m i pos w

/-- width of the block that starts at column `pos` -/
def stoW (m : Msa) (cpl pos : Nat) : Nat := if m.alen - pos > cpl then cpl else m.alen - pos

/-- the `#=GC` line of slot `g` in the block `[pos, pos+w)`, if the slot holds a string -/
def gcSlotLines (m : Msa) (pos w g : Nat) : List Bytes :=
  optLine ((consF m).getD g none) (fun s => gcLine (stoLayout m) (consTag.getD g []) s pos w)

/-- one block: the blank line in front of a later block, the rows, the `#=GC` lines -/
def stoAnnBlock (abc : Option Abc) (m : Msa) (cpl pos : Nat) : List Bytes :=
  (if pos > 0 then [[]] else []) ++ ((List.range m.nseq).map (stoSqLine abc m pos (stoW m cpl pos))
    ++ (gcSlotLines m pos (stoW m cpl pos) 0 ++ (gcSlotLines m pos (stoW m cpl pos) 1 ++ (gcSlotLines m pos (stoW m cpl pos) 2
    ++ (gcSlotLines m pos (stoW m cpl pos) 3 ++ gcSlotLines m pos (stoW m cpl pos) 4)))))

theorem flatMap_single {α β : Type} (f : α → β) (l : List α) : l.flatMap (fun x => [f x]) = l.map f := by
  induction l with
  | nil => rfl
  | cons a l ih => simp [List.flatMap_cons, ih]

/-- the header section: `# STOCKHOLM 1.0`, the comments (and the blank line behind them), `#=GF ID/AC/DE/AU`, the cut-offs
    `GA/NC/TC`, the unparsed `#=GF` tags, the blank line -/
def stoAnnHead (m : Msa) : List Bytes :=
  [bSto10] ++ (m.comments.map (fun c => 35 :: c) ++ ((if m.comments.isEmpty then [] else [[]])
    ++ (optLine m.name (gfLine (stoLayout m) bID) ++ (optLine m.acc (gfLine (stoLayout m) bAC)
    ++ (optLine m.desc (gfLine (stoLayout m) bDE) ++ (optLine m.au (gfLine (stoLayout m) bAU)
    ++ (cutLines (stoLayout m) bGA (m.cutoff.getD 2 none) (m.cutoff.getD 3 none)
    ++ (cutLines (stoLayout m) bNC (m.cutoff.getD 4 none) (m.cutoff.getD 5 none)
    ++ (cutLines (stoLayout m) bTC (m.cutoff.getD 0 none) (m.cutoff.getD 1 none)
    ++ (m.gf.map (fun t => gfLine (stoLayout m) t.1 t.2) ++ [[]]))))))))))

theorem stoBody_ann (pfam : Bool) (abc : Option Abc) (m : Msa) (hp : StoAnn m) (hn : m.names.Nodup) :
    stockholmBodyLines pfam abc m
      = stoAnnHead m ++ (blockStarts m.alen (stoCpl pfam m)).flatMap (stoAnnBlock abc m (stoCpl pfam m)) := by
  have hd : hasDupNames m.names = false := (hasDupNames_iff m.names).mpr hn
  have hu : (stoLayout m).uniq = false := by unfold stoLayout; simp [hd]
  have huw : (stoLayout m).uniqwidth = 0 := by unfold stoLayout; simp [hd]
  have hseq : ∀ pos acpl, stoSeqLines (stoLayout m) abc m pos acpl = fun i => [stoSqLine abc m pos acpl i] := by
    intro pos acpl
    funext i
    unfold stoSeqLines stoSqLine stoName stoPadW
    simp [hu, hp.ss, hp.sa, hp.pp, hp.gr, optRow, optLine]
  have e1 : str "SS_cons" = bSScons := by decide +kernel
  have e2 : str "SA_cons" = bSAcons := by decide +kernel
  have e3 : str "PP_cons" = bPPcons := by decide +kernel
  have e4 : str "RF" = bRF := by decide +kernel
  have e5 : str "MM" = bMM := by decide +kernel
  have hblk : stoBlockLines (stoLayout m) abc m (stoCpl pfam m) = stoAnnBlock abc m (stoCpl pfam m) := by
    funext pos
    unfold stoBlockLines stoAnnBlock stoW gcSlotLines
    simp only [hseq, flatMap_single, hp.gc, List.map_nil, List.append_nil, e1, e2, e3, e4, e5, consF, consTag,
      List.getD_cons_zero, List.getD_cons_succ, List.append_assoc]
  have f1 : str "ID" = bID := by decide +kernel
  have f2 : str "AC" = bAC := by decide +kernel
  have f3 : str "DE" = bDE := by decide +kernel
  have f4 : str "AU" = bAU := by decide +kernel
  have f5 : str "# STOCKHOLM 1.0" = bSto10 := by decide +kernel
  have f6 : str "GA" = bGA := by decide +kernel
  have f7 : str "NC" = bNC := by decide +kernel
  have f8 : str "TC" = bTC := by decide +kernel
  have hhead : stoHeadLines (stoLayout m) m = stoAnnHead m := by
    unfold stoHeadLines stoAnnHead
    simp only [hu, f1, f2, f3, f4, f5, f6, f7, f8]
    cases m.name <;> cases m.acc <;> cases m.desc <;> cases m.au <;> simp [optLine]
  have hgs : stoGSLines (stoLayout m) m = [] := by
    unfold stoGSLines
    simp [hp.hasw, hp.sqacc, hp.sqdesc, hp.gs]
  unfold stockholmBodyLines
  simp only [hhead, hgs, hblk, List.append_nil]

/-! ## the shape of a sequence line -/

/-- the blanks between the name and the row -/
def SpOk (sp : Bytes) : Prop := sp ≠ [] ∧ ∀ c ∈ sp, c = 32

/-- a piece of a row as written -/
def ChunkOk (c : Bytes) : Prop := c ≠ [] ∧ ∀ t ∈ c, isSpace t = false ∧ t ≠ 0

theorem sp_ne (c x : UInt8) (hx : isSpace x = true) (h : isSpace c = false) : c ≠ x := by
  intro e; subst e; rw [h] at hx; cases hx

theorem chunk_notDelim (t : UInt8) (h : isSpace t = false ∧ t ≠ 0) : inDelim blankTab t = false := by
  have h32 := sp_ne t 32 (by decide) h.1
  have h9 := sp_ne t 9 (by decide) h.1
  simp [inDelim, blankTab, h.2, h32, h9]

theorem memtok_sqline (nm sp c : Bytes) (hn : nameOk nm) (hs : SpOk sp) (hc : ChunkOk c) :
    memtok (nm ++ sp ++ c) blankTab = some (nm, c) := by
  obtain ⟨hne, hnd⟩ := hn
  obtain ⟨hsne, hs32⟩ := hs
  obtain ⟨hcne, hcd⟩ := hc
  have hspd : ∀ x ∈ sp, inDelim blankTab x = true := fun x hx => by rw [hs32 x hx]; decide
  have hcd' : ∀ x ∈ c, inDelim blankTab x = false := fun x hx => chunk_notDelim x (hcd x hx)
  cases nm with
  | nil => exact absurd rfl hne
  | cons a t =>
    cases sp with
    | nil => exact absurd rfl hsne
    | cons s sp' =>
      have hs' : inDelim blankTab s = true := hspd s (by simp)
      have ha := hnd a (by simp)
      rw [List.append_assoc]
      have h1 : ((a :: t) ++ ((s :: sp') ++ c)).dropWhile (inDelim blankTab) = (a :: t) ++ ((s :: sp') ++ c) := by
        simp [List.dropWhile, ha]
      have h2 : ((a :: t) ++ ((s :: sp') ++ c)).takeWhile (fun x => !inDelim blankTab x) = a :: t := by
        rw [List.takeWhile_append_of_pos (fun x hx => by simp [hnd x hx])]
        simp [List.takeWhile, hs']
      have h3 : ((a :: t) ++ ((s :: sp') ++ c)).dropWhile (fun x => !inDelim blankTab x) = (s :: sp') ++ c := by
        rw [List.dropWhile_append_of_pos (fun x hx => by simp [hnd x hx])]
        simp [List.dropWhile, hs']
      have h4 : ((s :: sp') ++ c).dropWhile (inDelim blankTab) = c := by
        rw [List.dropWhile_append_of_pos hspd]
        exact dropWhile_none _ _ hcd'
      unfold memtok
      simp only [h1, h2, h3, h4]
      simp

theorem rtrim_chunk (c : Bytes) (hc : ChunkOk c) : rtrim c = c := by
  unfold rtrim
  rw [dropWhile_none _ _ (fun x hx => chunk_notDelim x (hc.2 x (List.mem_reverse.mp hx)))]
  simp

theorem stoStep_sqline (cfg : Cfg) (st : StoSt) (nm sp c : Bytes) (hl : st.lead = false) (hn : stoNameOk nm) (hs : SpOk sp) :
    stoStep cfg st (nm ++ sp ++ c) = liftE (parseSq cfg st (nm ++ sp ++ c)) := by
  obtain ⟨⟨hne, hnd⟩, _, h35, hsl⟩ := hn
  obtain ⟨hsne, hs32⟩ := hs
  cases nm with
  | nil => exact absurd rfl hne
  | cons a t =>
    cases sp with
    | nil => exact absurd rfl hsne
    | cons s sp' =>
      have hs' : s = 32 := hs32 s (by simp)
      subst hs'
      have ha := hnd a (by simp)
      simp [inDelim, blankTab] at ha
      have ha32 : (a == 32 || a == 9) = false := by simp [ha]
      have hdw : ((a :: t) ++ (32 :: sp') ++ c).dropWhile (fun c => c == 32 || c == 9) = (a :: t) ++ (32 :: sp') ++ c := by
        simp [List.dropWhile, ha32]
      have h35' : a ≠ 35 := by simpa using h35
      have hsl' : memstrpfx ((a :: t) ++ (32 :: sp') ++ c) bSlash = false := by
        cases t with
        | nil => simp [memstrpfx, bSlash, List.isPrefixOf]
        | cons b t' => simpa [memstrpfx, bSlash, List.isPrefixOf] using hsl
      unfold stoStep
      simp only [hl, Bool.false_eq_true, if_false, hdw]
      simp only [List.cons_append, List.append_assoc] at hsl'
      simp [hsl', h35']

/-! ## the reader's state while it reads such a file -/

/-- what the `#=GS` section leaves in the reader's state (constant while the blocks are read) -/
structure GsSt where
  hasw : Bool
  wgt : List Wgt
  sqacc : OptRows
  sqdesc : OptRows
  gsTags : List Bytes
  gs : List (List (Option Bytes))

/-- no `#=GS` section -/
def GsSt.none : GsSt := ⟨false, [], .none, .none, [], []⟩

/-- the annotation part of the reader's state -/
structure Ann where
  lead : Bool
  hasw : Bool
  wgt : List Wgt
  name : Option Bytes
  desc : Option Bytes
  acc : Option Bytes
  au : Option Bytes
  cons : List (Option Bytes)
  consLen : List Nat
  sqacc : OptRows
  sqdesc : OptRows
  per : List OptRows
  cutset : List Bool
  comments : List Bytes
  gf : List (Bytes × Bytes)
  gsTags : List Bytes
  gs : List (List (Option Bytes))
  gcTags : List Bytes
  gc : List (Option Bytes)
  grTags : List Bytes
  gr : List (List (Option Bytes))

def annOf (st : StoSt) : Ann :=
  { lead := st.lead, hasw := st.hasw, wgt := st.wgt, name := st.name, desc := st.desc, acc := st.acc, au := st.au, cons := st.cons,
    consLen := st.consLen, sqacc := st.sqacc, sqdesc := st.sqdesc, per := st.per, cutset := st.cutset, comments := st.comments,
    gf := st.gf, gsTags := st.gsTags, gs := st.gs, gcTags := st.gcTags, gc := st.gc, grTags := st.grTags, gr := st.gr }

/-- slot `k` of the consensus 5-array once `p` columns of it have been read -/
def consVal (m : Msa) (p k : Nat) : Option Bytes :=
  match (consF m).getD k none with
  | some s => if p = 0 then none else some (s.take p)
  | none => none

/-- the annotation part of the state inside the block `[pos, pos+w)`, when the first `g` of the five `#=GC` slots have
    been dealt with: the header section is complete, slots `< g` have reached column `pos + w`, the others column `pos`;
    the rest is untouched -/
structure Frozen (m : Msa) (G : GsSt) (pos w g : Nat) (a : Ann) : Prop where
  lead : a.lead = false
  hasw : a.hasw = G.hasw
  wgt : G.hasw = true → a.wgt = G.wgt
  name : a.name = m.name
  desc : a.desc = m.desc
  acc : a.acc = m.acc
  au : a.au = m.au
  cons_len : a.cons.length = 5
  consLen_len : a.consLen.length = 5
  cons : ∀ k, k < 5 → a.cons[k]? = some (consVal m (if k < g then pos + w else pos) k)
  consLen : ∀ k, k < 5 → ((consF m).getD k none).isSome = true → a.consLen[k]? = some (if k < g then pos + w else pos)
  sqacc : a.sqacc = G.sqacc
  sqdesc : a.sqdesc = G.sqdesc
  per : a.per = List.replicate 3 none
  cutset : a.cutset = cutsetOf m
  comments : a.comments = m.comments
  gf : a.gf = m.gf
  gsTags : a.gsTags = G.gsTags
  gs : a.gs = G.gs
  gcTags : a.gcTags = []
  gc : a.gc = []
  grTags : a.grTags = []
  gr : a.gr = []

/-- line types of the `#=GC` lines of a block -/
def gcLT (m : Msa) : List Nat := ((consF m).zip consLT).filterMap (fun p => p.1.map (fun _ => p.2))

/-- the lines of a block: (line type, sequence index) -/
def blockSpec (m : Msa) : List (Nat × Option Nat) :=
  (List.range m.nseq).map (fun i => (ltSQ, some i)) ++ (gcLT m).map (fun lt => (lt, none))

/-- number of `#=GC` lines among the first `g` slots -/
def cntSet (m : Msa) (g : Nat) : Nat := ((((consF m).zip consLT).take g).filterMap (fun p => p.1.map (fun _ => p.2))).length

/-- inside the block that starts at column `pos` and is `w` columns wide: `jn` names are known, `jb` block lines are
    recorded, `j` sequence lines and `k` lines in all of this block have been read, `g` `#=GC` slots are done -/
structure InBlk (cfg : Cfg) (enc : UInt8 → UInt8) (txt : Nat → Bytes) (m : Msa) (G : GsSt) (pos w jn jb j k g : Nat) (st : StoSt) : Prop where
  fr : Frozen m G pos w g (annOf st)
  alen : st.alen = pos
  nblock : st.nblock = 0 ↔ pos = 0
  names : st.names = m.names.take jn
  nseq : st.nseq = st.names.length
  alloc : st.names.length ≤ st.sqalloc
  apos : 0 < st.sqalloc
  rows_len : st.rows.length = st.sqalloc
  rows_done : ∀ i, i < j → st.rows[i]? = some (phyRowAt cfg enc txt (pos + w) i)
  rows_todo : ∀ i, j ≤ i → i < st.sqalloc → st.rows[i]? = some (if i < m.nseq then phyRowAt cfg enc txt pos i else none)
  salloc : st.salloc = st.sqalloc
  sqlen_len : st.sqlen.length = st.sqalloc
  sqlen_done : ∀ i, i < j → st.sqlen[i]? = some (pos + w)
  sqlen_todo : ∀ i, j ≤ i → i < st.sqalloc → st.sqlen[i]? = some (if i < m.nseq then pos else 0)
  bpos : 0 < st.balloc
  blt_len : st.blt.length = st.balloc
  bidx_len : st.bidx.length = st.balloc
  nrec : jb ≤ st.balloc
  blt : ∀ i, i < jb → st.blt[i]? = some ((blockSpec m)[i]?.map (·.1))
  bidx : ∀ i, i < jb → st.bidx[i]? = some ((blockSpec m)[i]?.map (·.2))
  npb : pos ≠ 0 → st.npb = (blockSpec m).length
  bi : st.bi = k
  si : st.si = j ∨ (j = 0 ∧ pos = 0)
  nseqB : st.nseqB = j
  alenB : k ≠ 0 → st.alenB = w
  inBlock : st.inBlock = decide (k ≠ 0)

theorem blockSpec_sq (m : Msa) (i : Nat) (hi : i < m.nseq) : (blockSpec m)[i]? = some (ltSQ, some i) := by
  unfold blockSpec
  rw [List.getElem?_append_left (by simpa using hi)]
  simp [hi]

theorem blockSpec_len (m : Msa) : (blockSpec m).length = m.nseq + cntSet m 5 := by
  simp [blockSpec, gcLT, cntSet, consF, consLT]

theorem getE_of {α : Type} {l : List α} {i : Nat} {x : α} (h : l[i]? = some x) : getE l i = .ok x := by
  simp [getE, h]

theorem getElem?_append_some {α : Type} (l r : List α) (i : Nat) (x : α) (h : l[i]? = some x) : (l ++ r)[i]? = some x := by
  have hi := lt_length_of_getElem? h
  rw [List.getElem?_append_left hi]; exact h

theorem nodup_not_mem_take (l : List Bytes) (hn : l.Nodup) (j : Nat) (hj : j < l.length) : l.getD j [] ∉ l.take j := by
  intro hmem
  obtain ⟨i, hi, hE⟩ := List.mem_iff_getElem.mp hmem
  rw [List.length_take] at hi
  have hij : i < j := by omega
  rw [List.getElem_take, getD_eq_getElem_of_lt [] hj] at hE
  exact (List.pairwise_iff_getElem.mp hn i j (by omega) hj hij) hE

/-- a new name: `stockholm_get_seqidx` stores it as sequence `jn` -/
theorem getSeqIdx_new (cfg : Cfg) (enc : UInt8 → UInt8) (txt : Nat → Bytes) (m : Msa) (w jn jb j k g : Nat) (st : StoSt)
    (h : InBlk cfg enc txt m GsSt.none 0 w jn jb j k g st) (hjn : jn < m.nseq) (hnd : m.names.Nodup) :
    ∃ st1, getSeqIdx st (m.names.getD jn []) = .ok (st1, jn) ∧ InBlk cfg enc txt m GsSt.none 0 w (jn + 1) jb j k g st1 := by
  have hjn' : jn < m.names.length := hjn
  have hlen : st.names.length = jn := by rw [h.names, List.length_take]; omega
  have hnone : st.names.findIdx? (· == m.names.getD jn []) = none := by
    rw [List.findIdx?_eq_none_iff]
    intro x hx
    rw [h.names] at hx
    have := nodup_not_mem_take m.names hnd jn hjn'
    have hne : x ≠ m.names.getD jn [] := fun e => this (e ▸ hx)
    simpa using hne
  have hnames1 : m.names.take jn ++ [m.names.getD jn []] = m.names.take (jn + 1) := by
    rw [List.take_succ]
    simp [List.getD_eq_getElem?_getD, List.getElem?_eq_getElem hjn']
  have hrow0 : ∀ i, phyRowAt cfg enc txt 0 i = none := fun i => by simp [phyRowAt]
  have hfr := h.fr
  unfold getSeqIdx
  rw [hnone]
  simp only [hlen]
  by_cases hge : jn ≥ st.sqalloc
  · simp only [hge, if_true]
    have hsq : (pdExpandSeq (msaExpand st)).sqalloc = 2 * st.sqalloc := rfl
    have hng : ¬ (jn ≥ (pdExpandSeq (msaExpand st)).sqalloc) := by
      rw [hsq]; have := h.alloc; have := h.apos; omega
    simp only [hng, if_false]
    refine ⟨_, rfl, ?_⟩
    have ha := h.alloc
    have hap := h.apos
    exact
      { fr :=
          { lead := hfr.lead, hasw := hfr.hasw, wgt := fun e => absurd e (by decide), name := hfr.name, desc := hfr.desc, acc := hfr.acc, au := hfr.au,
            cons_len := hfr.cons_len, consLen_len := hfr.consLen_len, cons := hfr.cons, consLen := hfr.consLen
            sqacc := by have := hfr.sqacc; simp only [annOf, GsSt.none] at this ⊢; simp [pdExpandSeq, msaExpand, this]
            sqdesc := by have := hfr.sqdesc; simp only [annOf, GsSt.none] at this ⊢; simp [pdExpandSeq, msaExpand, this]
            per := by have := hfr.per; simp only [annOf] at this ⊢; simp [pdExpandSeq, msaExpand, this]
            cutset := hfr.cutset, comments := hfr.comments, gf := hfr.gf, gsTags := hfr.gsTags
            gs := by have := hfr.gs; simp only [annOf, GsSt.none] at this ⊢; simp [pdExpandSeq, msaExpand, this]
            gcTags := hfr.gcTags, gc := hfr.gc, grTags := hfr.grTags
            gr := by have := hfr.gr; simp only [annOf] at this ⊢; simp [pdExpandSeq, msaExpand, this] }
        alen := h.alen, nblock := h.nblock
        names := by show st.names ++ [_] = _; rw [h.names, hnames1]
        nseq := by show st.nseq + 1 = (st.names ++ [_]).length; rw [h.nseq]; simp
        alloc := by show (st.names ++ [_]).length ≤ 2 * st.sqalloc; simp; omega
        apos := by show 0 < 2 * st.sqalloc; omega
        rows_len := by show (st.rows ++ List.replicate st.sqalloc none).length = 2 * st.sqalloc; simp [h.rows_len]; omega
        rows_done := fun i hi => by
          show (st.rows ++ List.replicate st.sqalloc none)[i]? = _
          exact getElem?_append_some _ _ _ _ (h.rows_done i hi)
        rows_todo := fun i hi hi2 => by
          show (st.rows ++ List.replicate st.sqalloc none)[i]? = _
          by_cases hlt : i < st.sqalloc
          · exact getElem?_append_some _ _ _ _ (h.rows_todo i hi hlt)
          · have hi2' : i < 2 * st.sqalloc := hi2
            rw [List.getElem?_append_right (by rw [h.rows_len]; omega), List.getElem?_replicate]
            simp only [hrow0, ite_self]
            rw [if_pos (by rw [h.rows_len]; omega)]
        salloc := rfl
        sqlen_len := by
          show (st.sqlen ++ List.replicate (2 * st.sqalloc - st.salloc) 0).length = 2 * st.sqalloc
          simp [h.sqlen_len, h.salloc]; omega
        sqlen_done := fun i hi => by
          show (st.sqlen ++ List.replicate (2 * st.sqalloc - st.salloc) 0)[i]? = _
          exact getElem?_append_some _ _ _ _ (h.sqlen_done i hi)
        sqlen_todo := fun i hi hi2 => by
          show (st.sqlen ++ List.replicate (2 * st.sqalloc - st.salloc) 0)[i]? = _
          by_cases hlt : i < st.sqalloc
          · exact getElem?_append_some _ _ _ _ (h.sqlen_todo i hi hlt)
          · have hi2' : i < 2 * st.sqalloc := hi2
            rw [List.getElem?_append_right (by rw [h.sqlen_len]; omega), List.getElem?_replicate]
            simp only [ite_self]
            rw [if_pos (by rw [h.sqlen_len, h.salloc]; omega)]
        bpos := h.bpos, blt_len := h.blt_len, bidx_len := h.bidx_len, nrec := h.nrec, blt := h.blt, bidx := h.bidx
        npb := h.npb, bi := h.bi, si := h.si, nseqB := h.nseqB, alenB := h.alenB, inBlock := h.inBlock }
  · simp only [hge, if_false]
    refine ⟨_, rfl, ?_⟩
    exact
      { fr := hfr
        alen := h.alen, nblock := h.nblock
        names := by show st.names ++ [_] = _; rw [h.names, hnames1]
        nseq := by show st.nseq + 1 = (st.names ++ [_]).length; rw [h.nseq]; simp
        alloc := by show (st.names ++ [_]).length ≤ st.sqalloc; simp; omega
        apos := h.apos, rows_len := h.rows_len, rows_done := h.rows_done, rows_todo := h.rows_todo
        salloc := h.salloc, sqlen_len := h.sqlen_len, sqlen_done := h.sqlen_done, sqlen_todo := h.sqlen_todo
        bpos := h.bpos, blt_len := h.blt_len, bidx_len := h.bidx_len, nrec := h.nrec, blt := h.blt, bidx := h.bidx
        npb := h.npb, bi := h.bi, si := h.si, nseqB := h.nseqB, alenB := h.alenB, inBlock := h.inBlock }

theorem set_rec {α : Type} (l : List α) (j : Nat) (v : α) (f : Nat → α) (hj : j < l.length)
    (h : ∀ i, i < j → l[i]? = some (f i)) (hv : v = f j) : ∀ i, i < j + 1 → (l.set j v)[i]? = some (f i) := by
  intro i hi
  rw [List.getElem?_set]
  by_cases e : j = i
  · subst e; simp [hj, hv]
  · simp only [e, if_false]; exact h i (by omega)

/-- first block: the line is recorded as line `j` of the block -/
theorem recordLine_new (cfg : Cfg) (enc : UInt8 → UInt8) (txt : Nat → Bytes) (m : Msa) {G : GsSt} (pos w jn jq j g : Nat) (st : StoSt)
    (lt : Nat) (bx : Option Nat) (hspec : (blockSpec m)[j]? = some (lt, bx))
    (h : InBlk cfg enc txt m G pos w jn j jq j g st) :
    ∃ st2, recordLine st lt bx = .ok st2 ∧ InBlk cfg enc txt m G pos w jn (j + 1) jq j g st2 := by
  have hfr := h.fr
  have hbi := h.bi
  have hnr := h.nrec
  have hbp := h.bpos
  unfold recordLine
  by_cases hb : st.bi = st.balloc
  · have hb' : (st.bi == st.balloc) = true := by simp [hb]
    simp only [hb', if_true]
    have hbi1 : (pdExpandBlock st).bi = j := hbi
    have hl1 : j < (pdExpandBlock st).blt.length := by
      show j < (st.blt ++ List.replicate st.balloc none).length
      simp [h.blt_len]; omega
    have hl2 : j < (pdExpandBlock st).bidx.length := by
      show j < (st.bidx ++ List.replicate st.balloc none).length
      simp [h.bidx_len]; omega
    rw [hbi1, setE_ok _ hl1, setE_ok _ hl2]
    refine ⟨_, rfl, ?_⟩
    exact
      { fr := hfr
        alen := h.alen, nblock := h.nblock, names := h.names, nseq := h.nseq, alloc := h.alloc
        apos := h.apos, rows_len := h.rows_len, rows_done := h.rows_done, rows_todo := h.rows_todo
        salloc := h.salloc, sqlen_len := h.sqlen_len, sqlen_done := h.sqlen_done, sqlen_todo := h.sqlen_todo
        bpos := by show 0 < st.balloc * 2; omega
        blt_len := by
          show ((st.blt ++ List.replicate st.balloc none).set j _).length = st.balloc * 2
          simp [h.blt_len]; omega
        bidx_len := by
          show ((st.bidx ++ List.replicate st.balloc none).set j _).length = st.balloc * 2
          simp [h.bidx_len]; omega
        nrec := by show j + 1 ≤ st.balloc * 2; omega
        blt := set_rec _ j _ (fun i => (blockSpec m)[i]?.map (·.1)) hl1 (fun i hi => getElem?_append_some _ _ _ _ (h.blt i hi))
          (by simp [hspec])
        bidx := set_rec _ j _ (fun i => (blockSpec m)[i]?.map (·.2)) hl2 (fun i hi => getElem?_append_some _ _ _ _ (h.bidx i hi))
          (by simp [hspec])
        npb := h.npb, bi := rfl, si := h.si, nseqB := h.nseqB, alenB := h.alenB, inBlock := h.inBlock }
  · have hb' : (st.bi == st.balloc) = false := by simp [hb]
    simp only [hb', Bool.false_eq_true, if_false]
    have hl1 : j < st.blt.length := by rw [h.blt_len]; omega
    have hl2 : j < st.bidx.length := by rw [h.bidx_len]; omega
    rw [hbi, setE_ok _ hl1, setE_ok _ hl2]
    refine ⟨_, rfl, ?_⟩
    exact
      { fr := hfr
        alen := h.alen, nblock := h.nblock, names := h.names, nseq := h.nseq, alloc := h.alloc
        apos := h.apos, rows_len := h.rows_len, rows_done := h.rows_done, rows_todo := h.rows_todo
        salloc := h.salloc, sqlen_len := h.sqlen_len, sqlen_done := h.sqlen_done, sqlen_todo := h.sqlen_todo
        bpos := h.bpos
        blt_len := by show (st.blt.set j _).length = st.balloc; simp [h.blt_len]
        bidx_len := by show (st.bidx.set j _).length = st.balloc; simp [h.bidx_len]
        nrec := by show j + 1 ≤ st.balloc; omega
        blt := set_rec _ j _ (fun i => (blockSpec m)[i]?.map (·.1)) hl1 h.blt (by simp [hspec])
        bidx := set_rec _ j _ (fun i => (blockSpec m)[i]?.map (·.2)) hl2 h.bidx (by simp [hspec])
        npb := h.npb, bi := rfl, si := h.si, nseqB := h.nseqB, alenB := h.alenB, inBlock := h.inBlock }

/-- first block: a sequence line names a new sequence -/
theorem sqLocate_first (cfg : Cfg) (enc : UInt8 → UInt8) (txt : Nat → Bytes) (m : Msa) (w j : Nat) (st : StoSt)
    (h : InBlk cfg enc txt m GsSt.none 0 w j j j j 0 st) (hj : j < m.nseq) (hnd : m.names.Nodup) :
    ∃ st2, sqLocate st (m.names.getD j []) = .ok (st2, j) ∧ InBlk cfg enc txt m GsSt.none 0 w (j + 1) (j + 1) j j 0 st2 := by
  have hnb : st.nblock = 0 := h.nblock.mpr rfl
  have hlen : st.names.length = j := by rw [h.names, List.length_take]; have : j < m.names.length := hj; omega
  have hsi : ¬ (st.si < st.nseq) := by rw [h.nseq, hlen]; rcases h.si with e | ⟨e, _⟩ <;> omega
  obtain ⟨st1, h1, hI1⟩ := getSeqIdx_new cfg enc txt m w j j j j 0 st h hj hnd
  obtain ⟨st2, h2, hI2⟩ := recordLine_new cfg enc txt m 0 w (j + 1) j j 0 st1 ltSQ (some j) (blockSpec_sq m j hj) hI1
  refine ⟨st2, ?_, hI2⟩
  unfold sqLocate sqSeqIdx
  simp only [hnb, beq_self_eq_true, if_true, hsi, if_false, h1, h2]

/-- later blocks: the line must be the one recorded for this position -/
theorem sqLocate_later (cfg : Cfg) (enc : UInt8 → UInt8) (txt : Nat → Bytes) (m : Msa) {G : GsSt} (pos w j : Nat) (st : StoSt)
    (h : InBlk cfg enc txt m G pos w m.nseq (blockSpec m).length j j 0 st) (hj : j < m.nseq) (hpos : pos ≠ 0) :
    sqLocate st (m.names.getD j []) = .ok (st, j) := by
  have hjb : j < (blockSpec m).length := by rw [blockSpec_len]; omega
  have hblt := h.blt j hjb
  have hbidx := h.bidx j hjb
  rw [blockSpec_sq m j hj] at hblt hbidx
  simp only [Option.map_some] at hblt hbidx
  have hnb : (st.nblock == 0) = false := by
    have : st.nblock ≠ 0 := fun e => hpos (h.nblock.mp e)
    simpa using this
  have hnames : st.names = m.names := by rw [h.names]; exact List.take_length
  have hnm : st.names[j]? = some (m.names.getD j []) := by
    rw [hnames, List.getD_eq_getElem?_getD, List.getElem?_eq_getElem (show j < m.names.length from hj)]; rfl
  have hsq : j < st.sqalloc := by have := h.alloc; rw [hnames] at this; have : j < m.names.length := hj; omega
  unfold sqLocate expectLine expectSeq sqnameAt
  have hge : ¬ (st.npb ≤ j) := by rw [h.npb hpos]; omega
  simp only [hnb, Bool.false_eq_true, if_false, hge, h.bi, getE_of hblt, getE_of hbidx, hsq, if_true, hnm]
  simp

/-- the rest of `stockholm_parse_sq` once the sequence is located: the piece is appended to row `j` -/
theorem parseSq_after (cfg : Cfg) (enc : UInt8 → UInt8) (txt : Nat → Bytes) (m : Msa) {G : GsSt} (pos w jn jb j k g : Nat) (st st2 : StoSt)
    (p nm c : Bytes) (hm : memtok p blankTab = some (nm, c)) (hc : ChunkOk c) (hloc : sqLocate st nm = .ok (st2, j))
    (h2 : InBlk cfg enc txt m G pos w jn jb j k g st2) (hj : j < jn) (hjn : jn ≤ m.nseq)
    (hcj : c = ((txt j).drop pos).take w) (hw : 1 ≤ w) (hpw : pos + w ≤ m.alen) (htl : (txt j).length = m.alen)
    (hsym : ∀ t ∈ txt j, mapByte cfg.inmap t = (.ok, some (enc t))) :
    ∃ st3, parseSq cfg st p = .ok st3 ∧ InBlk cfg enc txt m G pos w jn jb (j + 1) (k + 1) g st3 := by
  have hfr := h2.fr
  have hjs : j < m.nseq := by omega
  have hjl : j < st2.names.length := by
    rw [h2.names, List.length_take]; have : jn ≤ m.names.length := hjn; omega
  have hsq : j < st2.sqalloc := by have := h2.alloc; omega
  have hcl : c.length = w := by rw [hcj, List.length_take, List.length_drop, htl]; omega
  have hcne : c.isEmpty = false := by
    cases c with
    | nil => exact absurd rfl hc.1
    | cons _ _ => rfl
  have hsl : st2.sqlen[j]? = some pos := by
    have := h2.sqlen_todo j (Nat.le_refl _) hsq; simpa [hjs] using this
  have hrw : st2.rows[j]? = some (phyRowAt cfg enc txt pos j) := by
    have := h2.rows_todo j (Nat.le_refl _) hsq; simpa [hjs] using this
  have hrl : rowLen cfg.digital (phyRowAt cfg enc txt pos j) = pos := by
    rw [rowLen_phyRowAt, List.length_take, htl]; omega
  have hcat : (if cfg.digital then dsqcat cfg.inmap (phyRowAt cfg enc txt pos j) c
                else strmapcat cfg.inmap (phyRowAt cfg enc txt pos j) c) = (.ok, phyRowAt cfg enc txt (pos + w) j) := by
    rw [phy_cat_plain cfg enc _ c hc.1 (fun t ht => hsym t (by
      rw [hcj] at ht; exact List.mem_of_mem_drop (List.mem_of_mem_take ht)))]
    rw [curCodes_phyRowAt, phyRowAt_pos _ _ _ _ _ (by omega), hcj, ← List.map_append, ← List.take_add]
  have hrl' : rowLen cfg.digital (phyRowAt cfg enc txt (pos + w) j) = pos + w := by
    rw [rowLen_phyRowAt, List.length_take, htl]; omega
  have hdup : (decide (st2.bi > 0) && (pos == pos + st2.alenB)) = false := by
    rw [h2.bi]
    by_cases hj0 : k = 0
    · simp [hj0]
    · rw [h2.alenB hj0]; have : ¬ (w = 0) := by omega
      simp [this]
  have hwid : (st2.bi != 0 && w != st2.alenB) = false := by
    rw [h2.bi]
    by_cases hj0 : k = 0
    · simp [hj0]
    · rw [h2.alenB hj0]; simp
  have hl1 : j < st2.rows.length := by rw [h2.rows_len]; exact hsq
  have hl2 : j < st2.sqlen.length := by rw [h2.sqlen_len]; exact hsq
  unfold parseSq
  simp only [hm, rtrim_chunk c hc, hcne, Bool.false_eq_true, if_false, hloc, getE_of hsl, h2.alen, hdup, getE_of hrw, hrl,
    bne_self_eq_false, hcat, hrl', hcl, hwid, setE_ok _ hl1, setE_ok _ hl2]
  refine ⟨_, rfl, ?_⟩
  exact
    { fr := hfr
      alen := by first | rfl | exact h2.alen
      nblock := h2.nblock, names := h2.names, nseq := h2.nseq, alloc := h2.alloc, apos := h2.apos
      rows_len := by show (st2.rows.set j _).length = _; simp [h2.rows_len]
      rows_done := set_rec _ j _ (fun i => phyRowAt cfg enc txt (pos + w) i) hl1 h2.rows_done rfl
      rows_todo := fun i hi hi2 => by
        show (st2.rows.set j _)[i]? = _
        rw [List.getElem?_set_ne (by omega)]; exact h2.rows_todo i (by omega) hi2
      salloc := h2.salloc
      sqlen_len := by show (st2.sqlen.set j _).length = _; simp [h2.sqlen_len]
      sqlen_done := set_rec _ j _ (fun _ => pos + w) hl2 h2.sqlen_done rfl
      sqlen_todo := fun i hi hi2 => by
        show (st2.sqlen.set j _)[i]? = _
        rw [List.getElem?_set_ne (by omega)]; exact h2.sqlen_todo i (by omega) hi2
      bpos := h2.bpos, blt_len := h2.blt_len, bidx_len := h2.bidx_len, nrec := h2.nrec, blt := h2.blt, bidx := h2.bidx
      npb := h2.npb
      bi := by show st2.bi + 1 = k + 1; rw [h2.bi]
      si := Or.inl rfl
      nseqB := by show st2.nseqB + 1 = j + 1; rw [h2.nseqB]
      alenB := fun _ => by first | rfl | exact hcl
      inBlock := by show true = decide (k + 1 ≠ 0); simp }

/-- the shape of a written sequence line -/
theorem sqline_shape (abc : Option Abc) (cfg : Cfg) (enc : UInt8 → UInt8) (txt : Nat → Bytes) (m : Msa)
    (W : StoWritable abc cfg enc txt m) (pos w j : Nat) (hj : j < m.nseq) (hw : 1 ≤ w) (hpw : pos + w ≤ m.alen) :
    ∃ sp c, stoSqLine abc m pos w j = m.names.getD j [] ++ sp ++ c ∧ SpOk sp ∧ ChunkOk c ∧ c = ((txt j).drop pos).take w := by
  refine ⟨List.replicate ((stoPadW m).natAbs - (m.names.getD j []).length) 32 ++ [32], ((txt j).drop pos).take w,
    ?_, ⟨by simp, ?_⟩, ⟨?_, ?_⟩, rfl⟩
  · simp [stoSqLine, padRight, W.chunk_eq j hj]
  · intro c hc
    rcases List.mem_append.mp hc with hc | hc
    · exact (List.mem_replicate.mp hc).2
    · simpa using hc
  · intro h0
    have : (((txt j).drop pos).take w).length = 0 := by rw [h0]; rfl
    rw [List.length_take, List.length_drop, W.txt_len j hj] at this
    omega
  · intro t ht
    exact (W.txt_sym j hj t (List.mem_of_mem_drop (List.mem_of_mem_take ht))).2

/-- one sequence line of the first block -/
theorem sqline_first (abc : Option Abc) (cfg : Cfg) (enc : UInt8 → UInt8) (txt : Nat → Bytes) (m : Msa)
    (W : StoWritable abc cfg enc txt m) (w j : Nat) (st : StoSt) (h : InBlk cfg enc txt m GsSt.none 0 w j j j j 0 st)
    (hj : j < m.nseq) (hw : 1 ≤ w) (hpw : w ≤ m.alen) :
    ∃ st3, stoStep cfg st (stoSqLine abc m 0 w j) = .inl st3 ∧ InBlk cfg enc txt m GsSt.none 0 w (j + 1) (j + 1) (j + 1) (j + 1) 0 st3 := by
  obtain ⟨sp, c, hline, hsp, hc, hcj⟩ := sqline_shape abc cfg enc txt m W 0 w j hj hw (by omega)
  obtain ⟨st2, hloc, h2⟩ := sqLocate_first cfg enc txt m w j st h hj W.nodup
  have hn := W.name_ok j hj
  obtain ⟨st3, hp, h3⟩ := parseSq_after cfg enc txt m 0 w (j + 1) (j + 1) j j 0 st st2 _ _ c
    (memtok_sqline _ sp c hn.1 hsp hc) hc hloc h2 (by omega) (by omega) hcj hw (by omega) (W.txt_len j hj)
    (fun t ht => (W.txt_sym j hj t ht).1)
  refine ⟨st3, ?_, h3⟩
  rw [hline, stoStep_sqline cfg st _ sp c h.fr.lead hn hsp, hp]; rfl

/-- one sequence line of a later block -/
theorem sqline_later (abc : Option Abc) (cfg : Cfg) (enc : UInt8 → UInt8) (txt : Nat → Bytes) (m : Msa) {G : GsSt}
    (W : StoWritable abc cfg enc txt m) (pos w j : Nat) (st : StoSt) (h : InBlk cfg enc txt m G pos w m.nseq (blockSpec m).length j j 0 st)
    (hpos : pos ≠ 0) (hj : j < m.nseq) (hw : 1 ≤ w) (hpw : pos + w ≤ m.alen) :
    ∃ st3, stoStep cfg st (stoSqLine abc m pos w j) = .inl st3 ∧
      InBlk cfg enc txt m G pos w m.nseq (blockSpec m).length (j + 1) (j + 1) 0 st3 := by
  obtain ⟨sp, c, hline, hsp, hc, hcj⟩ := sqline_shape abc cfg enc txt m W pos w j hj hw hpw
  have hloc := sqLocate_later cfg enc txt m pos w j st h hj hpos
  have hn := W.name_ok j hj
  obtain ⟨st3, hp, h3⟩ := parseSq_after cfg enc txt m pos w m.nseq (blockSpec m).length j j 0 st st _ _ c
    (memtok_sqline _ sp c hn.1 hsp hc) hc hloc h hj (Nat.le_refl _) hcj hw hpw (W.txt_len j hj)
    (fun t ht => (W.txt_sym j hj t ht).1)
  refine ⟨st3, ?_, h3⟩
  rw [hline, stoStep_sqline cfg st _ sp c h.fr.lead hn hsp, hp]; rfl

/-! ## blocks -/

/-- the sequence lines of the first block -/
theorem sqlines_first (abc : Option Abc) (cfg : Cfg) (enc : UInt8 → UInt8) (txt : Nat → Bytes) (m : Msa)
    (W : StoWritable abc cfg enc txt m) (w : Nat) (st : StoSt) (h : InBlk cfg enc txt m GsSt.none 0 w 0 0 0 0 0 st) (hw : 1 ≤ w) (hpw : w ≤ m.alen) :
    ∀ j, j ≤ m.nseq → ∃ st', stepsFrom (stoStep cfg) st ((List.range j).map (stoSqLine abc m 0 w)) = .inl st' ∧
      InBlk cfg enc txt m GsSt.none 0 w j j j j 0 st' := by
  intro j
  induction j with
  | zero => intro _; exact ⟨st, rfl, h⟩
  | succ j ih =>
    intro hj
    obtain ⟨st1, hs1, h1⟩ := ih (by omega)
    obtain ⟨st2, hs2, h2⟩ := sqline_first abc cfg enc txt m W w j st1 h1 (by omega) hw hpw
    refine ⟨st2, ?_, h2⟩
    rw [List.range_succ, List.map_append, stepsFrom_append _ _ _ _ _ hs1]
    simp [stepsFrom, hs2]

/-- the sequence lines of a later block -/
theorem sqlines_later (abc : Option Abc) (cfg : Cfg) (enc : UInt8 → UInt8) (txt : Nat → Bytes) (m : Msa) {G : GsSt}
    (W : StoWritable abc cfg enc txt m) (pos w : Nat) (st : StoSt) (h : InBlk cfg enc txt m G pos w m.nseq (blockSpec m).length 0 0 0 st)
    (hpos : pos ≠ 0) (hw : 1 ≤ w) (hpw : pos + w ≤ m.alen) :
    ∀ j, j ≤ m.nseq → ∃ st', stepsFrom (stoStep cfg) st ((List.range j).map (stoSqLine abc m pos w)) = .inl st' ∧
      InBlk cfg enc txt m G pos w m.nseq (blockSpec m).length j j 0 st' := by
  intro j
  induction j with
  | zero => intro _; exact ⟨st, rfl, h⟩
  | succ j ih =>
    intro hj
    obtain ⟨st1, hs1, h1⟩ := ih (by omega)
    obtain ⟨st2, hs2, h2⟩ := sqline_later abc cfg enc txt m W pos w j st1 h1 hpos (by omega) hw hpw
    refine ⟨st2, ?_, h2⟩
    rw [List.range_succ, List.map_append, stepsFrom_append _ _ _ _ _ hs1]
    simp [stepsFrom, hs2]

/-- the end-of-block bookkeeping after a complete block -/
theorem endBlock_full (cfg : Cfg) (enc : UInt8 → UInt8) (txt : Nat → Bytes) (m : Msa) {G : GsSt} (pos w w' jn : Nat) (st : StoSt)
    (h : InBlk cfg enc txt m G pos w jn (blockSpec m).length m.nseq (blockSpec m).length 5 st) (hjn : jn = m.nseq)
    (hn1 : 1 ≤ m.nseq) (hw : 1 ≤ w) :
    ∃ st', endBlock st = .ok st' ∧ InBlk cfg enc txt m G (pos + w) w' m.nseq (blockSpec m).length 0 0 0 st' := by
  subst hjn
  have hfr := h.fr
  have hk0 : (blockSpec m).length ≠ 0 := by rw [blockSpec_len]; omega
  have hn0 : m.nseq ≠ 0 := by omega
  have hnames : st.names = m.names := by rw [h.names]; exact List.take_length
  have hnl : st.names.length = m.nseq := by rw [hnames]; rfl
  have hnseq : st.nseq = m.nseq := by rw [h.nseq, hnl]
  have hib : st.inBlock = true := by rw [h.inBlock]; simp [hk0]
  unfold endBlock
  have c1 : (st.nblock != 0 && st.nseqB != st.nseq) = false := by rw [h.nseqB, hnseq]; simp
  have c2 : (st.nblock == 0 && decide (st.nseqB < st.nseq)) = false := by rw [h.nseqB, hnseq]; simp
  have c3 : (st.nblock != 0 && st.bi != st.npb) = false := by
    by_cases hp : pos = 0
    · have : st.nblock = 0 := h.nblock.mpr hp
      simp [this]
    · rw [h.bi, h.npb hp]; simp
  simp only [hib, if_true, c1, c2, c3, Bool.false_eq_true, if_false]
  refine ⟨_, rfl, ?_⟩
  exact
    { fr :=
        { lead := hfr.lead, hasw := hfr.hasw, wgt := hfr.wgt, name := hfr.name, desc := hfr.desc, acc := hfr.acc, au := hfr.au,
          cons_len := hfr.cons_len, consLen_len := hfr.consLen_len
          cons := fun k hk => by
            have := hfr.cons k hk; rw [if_pos hk] at this; rw [if_neg (Nat.not_lt_zero k)]; exact this
          consLen := fun k hk hs => by
            have := hfr.consLen k hk hs; rw [if_pos hk] at this; rw [if_neg (Nat.not_lt_zero k)]; exact this
          sqacc := hfr.sqacc, sqdesc := hfr.sqdesc, per := hfr.per
          cutset := hfr.cutset, comments := hfr.comments, gf := hfr.gf, gsTags := hfr.gsTags, gs := hfr.gs
          gcTags := hfr.gcTags, gc := hfr.gc, grTags := hfr.grTags, gr := hfr.gr }
      alen := by show st.alen + st.alenB = pos + w; rw [h.alen, h.alenB hk0]
      nblock := by
        show st.nblock + 1 = 0 ↔ pos + w = 0
        constructor <;> intro e <;> omega
      names := h.names
      nseq := by show st.nseqB = st.names.length; rw [h.nseqB, hnl]
      alloc := h.alloc, apos := h.apos, rows_len := h.rows_len
      rows_done := fun i hi => by omega
      rows_todo := fun i _ hi2 => by
        by_cases hi : i < m.nseq
        · rw [if_pos hi]; exact h.rows_done i hi
        · have := h.rows_todo i (by omega) hi2
          rw [if_neg hi] at this ⊢; exact this
      salloc := h.salloc, sqlen_len := h.sqlen_len
      sqlen_done := fun i hi => by omega
      sqlen_todo := fun i _ hi2 => by
        by_cases hi : i < m.nseq
        · rw [if_pos hi]; exact h.sqlen_done i hi
        · have := h.sqlen_todo i (by omega) hi2
          rw [if_neg hi] at this ⊢; exact this
      bpos := h.bpos, blt_len := h.blt_len, bidx_len := h.bidx_len, nrec := h.nrec, blt := h.blt, bidx := h.bidx
      npb := fun _ => h.bi
      bi := rfl, si := Or.inl rfl, nseqB := rfl
      alenB := fun e => absurd rfl e
      inBlock := by show false = decide ((0 : Nat) ≠ 0); simp }

/-! ## `#=GC` lines -/

theorem memtok_tok (nm sp rest : Bytes) (hn : nameOk nm) (hs : SpOk sp)
    (hr : ∀ c, rest.head? = some c → inDelim blankTab c = false) :
    memtok (nm ++ sp ++ rest) blankTab = some (nm, rest) := by
  obtain ⟨hne, hnd⟩ := hn
  obtain ⟨hsne, hs32⟩ := hs
  have hspd : ∀ x ∈ sp, inDelim blankTab x = true := fun x hx => by rw [hs32 x hx]; decide
  cases nm with
  | nil => exact absurd rfl hne
  | cons a t =>
    cases sp with
    | nil => exact absurd rfl hsne
    | cons s sp' =>
      have hs' : inDelim blankTab s = true := hspd s (by simp)
      have ha := hnd a (by simp)
      rw [List.append_assoc]
      have h1 : ((a :: t) ++ ((s :: sp') ++ rest)).dropWhile (inDelim blankTab) = (a :: t) ++ ((s :: sp') ++ rest) := by
        simp [List.dropWhile, ha]
      have h2 : ((a :: t) ++ ((s :: sp') ++ rest)).takeWhile (fun x => !inDelim blankTab x) = a :: t := by
        rw [List.takeWhile_append_of_pos (fun x hx => by simp [hnd x hx])]
        simp [List.takeWhile, hs']
      have h3 : ((a :: t) ++ ((s :: sp') ++ rest)).dropWhile (fun x => !inDelim blankTab x) = (s :: sp') ++ rest := by
        rw [List.dropWhile_append_of_pos (fun x hx => by simp [hnd x hx])]
        simp [List.dropWhile, hs']
      have h4 : ((s :: sp') ++ rest).dropWhile (inDelim blankTab) = rest := by
        rw [List.dropWhile_append_of_pos hspd]
        cases rest with
        | nil => rfl
        | cons c r => simp [List.dropWhile, hr c rfl]
      unfold memtok
      simp only [h1, h2, h3, h4]
      simp

theorem filterMap_idx {α β : Type} (f : α → Option β) (l : List α) : ∀ (g : Nat) (x : α) (y : β), l[g]? = some x → f x = some y →
    (l.filterMap f)[((l.take g).filterMap f).length]? = some y ∧
    ((l.take (g + 1)).filterMap f).length = ((l.take g).filterMap f).length + 1 := by
  induction l with
  | nil => intro g x y hx; simp at hx
  | cons a t ih =>
    intro g x y hx hy
    cases g with
    | zero =>
      simp at hx; subst hx
      simp [List.filterMap_cons, hy]
    | succ g =>
      simp only [List.getElem?_cons_succ] at hx
      obtain ⟨i1, i2⟩ := ih g x y hx hy
      cases hfa : f a with
      | none => simp only [List.take_succ_cons, List.filterMap_cons, hfa]; exact ⟨i1, i2⟩
      | some b =>
        simp only [List.take_succ_cons, List.filterMap_cons, hfa, List.length_cons, List.getElem?_cons_succ]
        exact ⟨i1, by omega⟩

theorem filterMap_skip {α β : Type} (f : α → Option β) (l : List α) : ∀ (g : Nat) (x : α), l[g]? = some x → f x = none →
    ((l.take (g + 1)).filterMap f).length = ((l.take g).filterMap f).length := by
  induction l with
  | nil => intro g x hx; simp at hx
  | cons a t ih =>
    intro g x hx hy
    cases g with
    | zero =>
      simp at hx; subst hx
      simp [List.filterMap_cons, hy]
    | succ g =>
      simp only [List.getElem?_cons_succ] at hx
      have i2 := ih g x hx hy
      cases hfa : f a with
      | none => simp only [List.take_succ_cons, List.filterMap_cons, hfa]; exact i2
      | some b => simp only [List.take_succ_cons, List.filterMap_cons, hfa, List.length_cons]; omega

theorem consZip_get (m : Msa) (g : Nat) (hg : g < 5) :
    ((consF m).zip consLT)[g]? = some ((consF m).getD g none, consLT.getD g 0) := by
  rcases g with _ | _ | _ | _ | _ | _
  · rfl
  · rfl
  · rfl
  · rfl
  · rfl
  · omega

/-- slot `g` holds a string: the next `#=GC` line of the block is that slot's -/
theorem blockSpec_gc (m : Msa) (g : Nat) (hg : g < 5) (s : Bytes) (hs : (consF m).getD g none = some s) :
    (blockSpec m)[m.nseq + cntSet m g]? = some (consLT.getD g 0, none) ∧ cntSet m (g + 1) = cntSet m g + 1 := by
  have := filterMap_idx (fun p : Option Bytes × Nat => p.1.map (fun _ => p.2)) ((consF m).zip consLT) g _ (consLT.getD g 0)
    (consZip_get m g hg) (by show Option.map _ ((consF m).getD g none) = _; rw [hs]; rfl)
  refine ⟨?_, this.2⟩
  unfold blockSpec
  rw [List.getElem?_append_right (by simp [Msa.nseq])]
  simp only [List.length_map, List.length_range, Msa.nseq, Nat.add_sub_cancel_left, List.getElem?_map]
  have h1 := this.1
  unfold cntSet gcLT
  rw [h1]; rfl

theorem cntSet_none (m : Msa) (g : Nat) (hg : g < 5) (hs : (consF m).getD g none = none) : cntSet m (g + 1) = cntSet m g :=
  filterMap_skip (fun p : Option Bytes × Nat => p.1.map (fun _ => p.2)) ((consF m).zip consLT) g _ (consZip_get m g hg)
    (by show Option.map _ ((consF m).getD g none) = _; rw [hs]; rfl)

theorem sGC_eq : sGC = bGC ++ [32] := by decide +kernel

theorem stoStep_gcline (cfg : Cfg) (st : StoSt) (rest : Bytes) (hl : st.lead = false) :
    stoStep cfg st (bGC ++ [32] ++ rest) = liftE (parseGc st (bGC ++ [32] ++ rest)) := by
  unfold stoStep
  simp [hl, bGC, List.dropWhile, memstrpfx, bSlash, bGF, bGS, List.isPrefixOf]

theorem consVal_getD (m : Msa) (p g : Nat) (s : Bytes) (hs : (consF m).getD g none = some s) :
    (consVal m p g).getD [] = s.take p := by
  unfold consVal
  rw [hs]
  by_cases hp : p = 0
  · simp [hp]
  · simp [hp]

theorem consVal_some (m : Msa) (p g : Nat) (s : Bytes) (hs : (consF m).getD g none = some s) (hp : p ≠ 0) :
    consVal m p g = some (s.take p) := by
  unfold consVal; rw [hs]; simp [hp]

theorem consVal_none (m : Msa) (p g : Nat) (hs : (consF m).getD g none = none) : consVal m p g = none := by
  unfold consVal; rw [hs]

/-- the tag of slot `g` is read as the line type of slot `g` -/
theorem consTag_lt (g : Nat) (hg : g < 5) :
    gcLineType (consTag.getD g []) = consLT.getD g 0 ∧ consIdx (consLT.getD g 0) = some g ∧ nameOk (consTag.getD g []) ∧
    (10 : UInt8) ∉ consTag.getD g [] := by
  rcases g with _ | _ | _ | _ | _ | _
  · unfold nameOk; decide +kernel
  · unfold nameOk; decide +kernel
  · unfold nameOk; decide +kernel
  · unfold nameOk; decide +kernel
  · unfold nameOk; decide +kernel
  · omega

/-- first block: the `#=GC` line is recorded as line `k` -/
theorem gcLocate_first (cfg : Cfg) (enc : UInt8 → UInt8) (txt : Nat → Bytes) (m : Msa) {G : GsSt} (w jn jq k g : Nat) (st : StoSt) (lt : Nat)
    (hspec : (blockSpec m)[k]? = some (lt, none)) (h : InBlk cfg enc txt m G 0 w jn k jq k g st) :
    ∃ st1, gcLocate st lt = .ok st1 ∧ InBlk cfg enc txt m G 0 w jn (k + 1) jq k g st1 := by
  have hnb : st.nblock = 0 := h.nblock.mpr rfl
  obtain ⟨st1, h1, hI1⟩ := recordLine_new cfg enc txt m 0 w jn jq k g st lt none hspec h
  refine ⟨st1, ?_, hI1⟩
  unfold gcLocate
  simp [hnb, h1]

/-- later blocks: the `#=GC` line must be the one recorded at this position -/
theorem gcLocate_later (cfg : Cfg) (enc : UInt8 → UInt8) (txt : Nat → Bytes) (m : Msa) {G : GsSt} (pos w jn jq k g : Nat) (st : StoSt) (lt : Nat)
    (hspec : (blockSpec m)[k]? = some (lt, none)) (h : InBlk cfg enc txt m G pos w jn (blockSpec m).length jq k g st) (hpos : pos ≠ 0) :
    gcLocate st lt = .ok st := by
  have hnb : (st.nblock != 0) = true := by
    have : st.nblock ≠ 0 := fun e => hpos (h.nblock.mp e)
    simpa using this
  have hk : k < (blockSpec m).length := lt_length_of_getElem? hspec
  have hblt := h.blt k hk
  rw [hspec] at hblt
  simp only [Option.map_some] at hblt
  have hge : ¬ (st.npb ≤ k) := by rw [h.npb hpos]; omega
  unfold gcLocate expectLine
  simp only [hnb, if_true, h.bi, hge, ge_iff_le, if_false, getE_of hblt]
  simp

/-- the rest of `stockholm_parse_gc` once the line is located: the piece is appended to slot `g` -/
theorem parseGc_after (cfg : Cfg) (enc : UInt8 → UInt8) (txt : Nat → Bytes) (m : Msa) {G : GsSt} (pos w jn jb j k g : Nat) (st st1 : StoSt)
    (p p1 tag c s : Bytes) (hm1 : memtok p blankTab = some (bGC, p1)) (hm2 : memtok p1 blankTab = some (tag, c)) (hc : ChunkOk c)
    (hlt : consIdx (gcLineType tag) = some g) (hloc : gcLocate st (gcLineType tag) = .ok st1)
    (h1 : InBlk cfg enc txt m G pos w jn jb j k g st1) (hg : g < 5) (hs : (consF m).getD g none = some s)
    (hsl : s.length = m.alen) (hs0 : ∀ t ∈ s, t ≠ 0) (hcj : c = (s.drop pos).take w) (hw : 1 ≤ w) (hpw : pos + w ≤ m.alen)
    (hk : k ≠ 0) :
    ∃ st3, parseGc st p = .ok st3 ∧ InBlk cfg enc txt m G pos w jn jb j (k + 1) (g + 1) st3 := by
  have hfr := h1.fr
  have hcl : c.length = w := by rw [hcj, List.length_take, List.length_drop, hsl]; omega
  have hcne : c.isEmpty = false := by
    cases c with
    | nil => exact absurd rfl hc.1
    | cons _ _ => rfl
  have hc0 : c.contains 0 = false := by
    cases hh : c.contains 0 with
    | false => rfl
    | true => exact absurd rfl (hc.2 0 (by simpa using hh)).2
  have hlen : st1.consLen[g]? = some pos := by
    have := hfr.consLen g hg (by rw [hs]; rfl)
    rw [if_neg (Nat.lt_irrefl g)] at this; exact this
  have hcons : st1.cons[g]? = some (consVal m pos g) := by
    have := hfr.cons g hg
    rw [if_neg (Nat.lt_irrefl g)] at this; exact this
  have hcat : strcatE (consVal m pos g) pos c = .ok (consVal m (pos + w) g) := by
    unfold strcatE
    have hl : ((consVal m pos g).getD []).length = pos := by
      rw [consVal_getD m pos g s hs, List.length_take, hsl]; omega
    rw [consVal_some m (pos + w) g s hs (by omega)]
    simp only [hcne, Bool.false_eq_true, if_false, hl, bne_self_eq_false]
    rw [consVal_getD m pos g s hs, hcj, ← List.take_add]
    rw [cstr_id _ (fun x hx => hs0 x (List.mem_of_mem_take hx))]
  have hwid : (st1.bi != 0 && c.length != st1.alenB) = false := by
    rw [h1.alenB hk, hcl]; simp
  have hl1 : g < st1.cons.length := by have := hfr.cons_len; simp only [annOf] at this; omega
  have hl2 : g < st1.consLen.length := by have := hfr.consLen_len; simp only [annOf] at this; omega
  unfold parseGc
  simp only [hm1, hm2, rtrim_chunk c hc, hcne, hc0, hloc, hlt, getE_of hlen, h1.alen, bne_self_eq_false, getE_of hcons, hcat,
    show memstrcmp bGC bGC = true from by decide, Bool.not_true, Bool.false_eq_true, if_false, blockLineDone, hwid]
  refine ⟨_, rfl, ?_⟩
  exact
    { fr :=
        { lead := hfr.lead, hasw := hfr.hasw, wgt := hfr.wgt, name := hfr.name, desc := hfr.desc, acc := hfr.acc, au := hfr.au,
          cons_len := by show (st1.cons.set g _).length = 5; rw [List.length_set]; exact hfr.cons_len
          consLen_len := by show (st1.consLen.set g _).length = 5; rw [List.length_set]; exact hfr.consLen_len
          cons := fun i hi => by
            show (st1.cons.set g _)[i]? = _
            rw [List.getElem?_set]
            by_cases e : g = i
            · subst e; simp [hl1]
            · have := hfr.cons i hi
              simp only [e, if_false]
              have e1 : i < g + 1 ↔ i < g := by omega
              simp only [e1]; exact this
          consLen := fun i hi hsi => by
            show (st1.consLen.set g _)[i]? = _
            rw [List.getElem?_set]
            by_cases e : g = i
            · subst e; simp [hl2, hcl]
            · have := hfr.consLen i hi hsi
              simp only [e, if_false]
              have e1 : i < g + 1 ↔ i < g := by omega
              simp only [e1]; exact this
          sqacc := hfr.sqacc, sqdesc := hfr.sqdesc, per := hfr.per
          cutset := hfr.cutset, comments := hfr.comments, gf := hfr.gf, gsTags := hfr.gsTags, gs := hfr.gs
          gcTags := hfr.gcTags, gc := hfr.gc, grTags := hfr.grTags, gr := hfr.gr }
      alen := by first | rfl | exact h1.alen
      nblock := h1.nblock, names := h1.names, nseq := h1.nseq, alloc := h1.alloc, apos := h1.apos
      rows_len := h1.rows_len, rows_done := h1.rows_done, rows_todo := h1.rows_todo, salloc := h1.salloc
      sqlen_len := h1.sqlen_len, sqlen_done := h1.sqlen_done, sqlen_todo := h1.sqlen_todo
      bpos := h1.bpos, blt_len := h1.blt_len, bidx_len := h1.bidx_len, nrec := h1.nrec, blt := h1.blt, bidx := h1.bidx
      npb := h1.npb
      bi := by show st1.bi + 1 = k + 1; rw [h1.bi]
      si := h1.si, nseqB := h1.nseqB
      alenB := fun _ => hcl
      inBlock := by show true = decide (k + 1 ≠ 0); simp }

theorem stoStep_blank (cfg : Cfg) (st st' : StoSt) (hl : st.lead = false) (he : endBlock st = .ok st') :
    stoStep cfg st [] = .inl st' := by
  unfold stoStep
  simp [hl, he, memstrpfx, bSlash]

theorem stoStep_slash (cfg : Cfg) (st st' : StoSt) (hl : st.lead = false) (he : endBlock st = .ok st') :
    stoStep cfg st [47, 47] = .inr (stoFinal cfg st') := by
  unfold stoStep
  simp [hl, he, memstrpfx, bSlash]

/-- the shape of a written `#=GC` line -/
theorem gcline_shape (m : Msa) (hp : StoAnn m) (pos w g : Nat) (hg : g < 5) (s : Bytes) (hs : (consF m).getD g none = some s)
    (hw : 1 ≤ w) (hpw : pos + w ≤ m.alen) :
    ∃ sp c, gcLine (stoLayout m) (consTag.getD g []) s pos w = bGC ++ [32] ++ (consTag.getD g [] ++ sp ++ c) ∧ SpOk sp ∧ ChunkOk c ∧
      c = (s.drop pos).take w := by
  obtain ⟨hsl, hsc⟩ := hp.cons_ok g s hs
  refine ⟨List.replicate ((((stoLayout m).margin : Int) - 6).natAbs - (consTag.getD g []).length) 32 ++ [32], (s.drop pos).take w,
    ?_, ⟨by simp, ?_⟩, ⟨?_, ?_⟩, rfl⟩
  · unfold gcLine strChunk padRight
    rw [sGC_eq, cstr_id _ (fun c hc => (hsc c (List.mem_of_mem_drop (List.mem_of_mem_take hc))).2)]
    simp
  · intro c hc
    rcases List.mem_append.mp hc with hc | hc
    · exact (List.mem_replicate.mp hc).2
    · simpa using hc
  · intro h0
    have : ((s.drop pos).take w).length = 0 := by rw [h0]; rfl
    rw [List.length_take, List.length_drop, hsl] at this
    omega
  · intro t ht
    exact hsc t (List.mem_of_mem_drop (List.mem_of_mem_take ht))

theorem Frozen_skip (m : Msa) {G : GsSt} (pos w g : Nat) (a : Ann) (hs : (consF m).getD g none = none) (h : Frozen m G pos w g a) :
    Frozen m G pos w (g + 1) a :=
  { lead := h.lead, hasw := h.hasw, wgt := h.wgt, name := h.name, desc := h.desc, acc := h.acc, au := h.au,
    cons_len := h.cons_len, consLen_len := h.consLen_len
    cons := fun i hi => by
      by_cases e : i = g
      · subst e
        have := h.cons i hi
        rw [consVal_none m _ i hs] at this ⊢; exact this
      · have e1 : i < g + 1 ↔ i < g := by omega
        simp only [e1]; exact h.cons i hi
    consLen := fun i hi hsi => by
      by_cases e : i = g
      · subst e; rw [hs] at hsi; cases hsi
      · have e1 : i < g + 1 ↔ i < g := by omega
        simp only [e1]; exact h.consLen i hi hsi
    sqacc := h.sqacc, sqdesc := h.sqdesc, per := h.per, cutset := h.cutset, comments := h.comments, gf := h.gf
    gsTags := h.gsTags, gs := h.gs, gcTags := h.gcTags, gc := h.gc, grTags := h.grTags, gr := h.gr }

theorem InBlk_skip (cfg : Cfg) (enc : UInt8 → UInt8) (txt : Nat → Bytes) (m : Msa) {G : GsSt} (pos w jn jb j k g : Nat) (st : StoSt)
    (hs : (consF m).getD g none = none) (h : InBlk cfg enc txt m G pos w jn jb j k g st) :
    InBlk cfg enc txt m G pos w jn jb j k (g + 1) st :=
  { fr := Frozen_skip m pos w g _ hs h.fr
    alen := h.alen, nblock := h.nblock, names := h.names, nseq := h.nseq, alloc := h.alloc, apos := h.apos
    rows_len := h.rows_len, rows_done := h.rows_done, rows_todo := h.rows_todo, salloc := h.salloc
    sqlen_len := h.sqlen_len, sqlen_done := h.sqlen_done, sqlen_todo := h.sqlen_todo
    bpos := h.bpos, blt_len := h.blt_len, bidx_len := h.bidx_len, nrec := h.nrec, blt := h.blt, bidx := h.bidx
    npb := h.npb, bi := h.bi, si := h.si, nseqB := h.nseqB, alenB := h.alenB, inBlock := h.inBlock }

/-- slot `g` of the `#=GC` lines, first block -/
theorem gcSlot_first (abc : Option Abc) (cfg : Cfg) (enc : UInt8 → UInt8) (txt : Nat → Bytes) (m : Msa) {G : GsSt}
    (W : StoWritable abc cfg enc txt m) (w g : Nat) (st : StoSt) (hg : g < 5)
    (h : InBlk cfg enc txt m G 0 w m.nseq (m.nseq + cntSet m g) m.nseq (m.nseq + cntSet m g) g st) (hw : 1 ≤ w) (hpw : w ≤ m.alen) :
    ∃ st', stepsFrom (stoStep cfg) st (gcSlotLines m 0 w g) = .inl st' ∧
      InBlk cfg enc txt m G 0 w m.nseq (m.nseq + cntSet m (g + 1)) m.nseq (m.nseq + cntSet m (g + 1)) (g + 1) st' := by
  cases hs : (consF m).getD g none with
  | none =>
    refine ⟨st, by unfold gcSlotLines; rw [hs]; rfl, ?_⟩
    rw [cntSet_none m g hg hs]
    exact InBlk_skip cfg enc txt m 0 w _ _ _ _ g st hs h
  | some s =>
    obtain ⟨hspec, hcnt⟩ := blockSpec_gc m g hg s hs
    obtain ⟨hlt1, hlt2, htag, _⟩ := consTag_lt g hg
    obtain ⟨sp, c, hline, hsp, hc, hcj⟩ := gcline_shape m W.ann 0 w g hg s hs hw (by omega)
    obtain ⟨st1, hloc, h1⟩ := gcLocate_first cfg enc txt m w _ _ _ g st _ hspec h
    have hn1 := W.n1
    obtain ⟨st3, hp, h3⟩ := parseGc_after cfg enc txt m 0 w _ _ _ _ g st st1 (bGC ++ [32] ++ (consTag.getD g [] ++ sp ++ c)) _ _ c s
      (memtok_tok bGC [32] _ (by unfold nameOk; decide +kernel) ⟨by simp, by simp⟩ (by
        intro x hx
        obtain ⟨hne, hnd⟩ := htag
        cases ht : consTag.getD g [] with
        | nil => exact absurd ht hne
        | cons a t => rw [ht] at hx; simp at hx; subst hx; exact hnd a (by rw [ht]; simp)))
      (memtok_sqline _ sp c htag hsp hc) hc (by rw [hlt1]; exact hlt2) (by rw [hlt1]; exact hloc) h1 hg hs
      (W.ann.cons_ok g s hs).1 (fun t ht => ((W.ann.cons_ok g s hs).2 t ht).2) hcj hw (by omega) (by omega)
    refine ⟨st3, ?_, by rw [hcnt]; exact h3⟩
    simp only [gcSlotLines, hs, optLine, stepsFrom]
    rw [hline, stoStep_gcline cfg st _ h.fr.lead, hp]; rfl

/-- slot `g` of the `#=GC` lines, later blocks -/
theorem gcSlot_later (abc : Option Abc) (cfg : Cfg) (enc : UInt8 → UInt8) (txt : Nat → Bytes) (m : Msa) {G : GsSt}
    (W : StoWritable abc cfg enc txt m) (pos w g : Nat) (st : StoSt) (hg : g < 5) (hpos : pos ≠ 0)
    (h : InBlk cfg enc txt m G pos w m.nseq (blockSpec m).length m.nseq (m.nseq + cntSet m g) g st) (hw : 1 ≤ w) (hpw : pos + w ≤ m.alen) :
    ∃ st', stepsFrom (stoStep cfg) st (gcSlotLines m pos w g) = .inl st' ∧
      InBlk cfg enc txt m G pos w m.nseq (blockSpec m).length m.nseq (m.nseq + cntSet m (g + 1)) (g + 1) st' := by
  cases hs : (consF m).getD g none with
  | none =>
    refine ⟨st, by unfold gcSlotLines; rw [hs]; rfl, ?_⟩
    rw [cntSet_none m g hg hs]
    exact InBlk_skip cfg enc txt m pos w _ _ _ _ g st hs h
  | some s =>
    obtain ⟨hspec, hcnt⟩ := blockSpec_gc m g hg s hs
    obtain ⟨hlt1, hlt2, htag, _⟩ := consTag_lt g hg
    obtain ⟨sp, c, hline, hsp, hc, hcj⟩ := gcline_shape m W.ann pos w g hg s hs hw hpw
    have hloc := gcLocate_later cfg enc txt m pos w _ _ _ g st _ hspec h hpos
    have hn1 := W.n1
    obtain ⟨st3, hp, h3⟩ := parseGc_after cfg enc txt m pos w _ _ _ _ g st st (bGC ++ [32] ++ (consTag.getD g [] ++ sp ++ c)) _ _ c s
      (memtok_tok bGC [32] _ (by unfold nameOk; decide +kernel) ⟨by simp, by simp⟩ (by
        intro x hx
        obtain ⟨hne, hnd⟩ := htag
        cases ht : consTag.getD g [] with
        | nil => exact absurd ht hne
        | cons a t => rw [ht] at hx; simp at hx; subst hx; exact hnd a (by rw [ht]; simp)))
      (memtok_sqline _ sp c htag hsp hc) hc (by rw [hlt1]; exact hlt2) (by rw [hlt1]; exact hloc) h hg hs
      (W.ann.cons_ok g s hs).1 (fun t ht => ((W.ann.cons_ok g s hs).2 t ht).2) hcj hw hpw (by omega)
    refine ⟨st3, ?_, by rw [hcnt]; exact h3⟩
    simp only [gcSlotLines, hs, optLine, stepsFrom]
    rw [hline, stoStep_gcline cfg st _ h.fr.lead, hp]; rfl

theorem cntSet_zero (m : Msa) : cntSet m 0 = 0 := rfl

/-- the whole first block -/
theorem block_first (abc : Option Abc) (cfg : Cfg) (enc : UInt8 → UInt8) (txt : Nat → Bytes) (m : Msa)
    (W : StoWritable abc cfg enc txt m) (cpl : Nat) (st : StoSt) (h : InBlk cfg enc txt m GsSt.none 0 (stoW m cpl 0) 0 0 0 0 0 st)
    (hc : 0 < cpl) :
    ∃ st', stepsFrom (stoStep cfg) st (stoAnnBlock abc m cpl 0) = .inl st' ∧
      InBlk cfg enc txt m GsSt.none 0 (stoW m cpl 0) m.nseq (blockSpec m).length m.nseq (blockSpec m).length 5 st' := by
  have ha1 := W.alen1
  have hw1 : 1 ≤ stoW m cpl 0 := by unfold stoW; split <;> omega
  have hw2 : stoW m cpl 0 ≤ m.alen := by unfold stoW; split <;> omega
  obtain ⟨s0, e0, h0⟩ := sqlines_first abc cfg enc txt m W _ st h hw1 hw2 m.nseq (Nat.le_refl _)
  have h0' : InBlk cfg enc txt m GsSt.none 0 (stoW m cpl 0) m.nseq (m.nseq + cntSet m 0) m.nseq (m.nseq + cntSet m 0) 0 s0 := h0
  obtain ⟨s1, e1, h1⟩ := gcSlot_first abc cfg enc txt m W _ 0 s0 (by omega) h0' hw1 hw2
  obtain ⟨s2, e2, h2⟩ := gcSlot_first abc cfg enc txt m W _ 1 s1 (by omega) h1 hw1 hw2
  obtain ⟨s3, e3, h3⟩ := gcSlot_first abc cfg enc txt m W _ 2 s2 (by omega) h2 hw1 hw2
  obtain ⟨s4, e4, h4⟩ := gcSlot_first abc cfg enc txt m W _ 3 s3 (by omega) h3 hw1 hw2
  obtain ⟨s5, e5, h5⟩ := gcSlot_first abc cfg enc txt m W _ 4 s4 (by omega) h4 hw1 hw2
  rw [← blockSpec_len] at h5
  refine ⟨s5, ?_, h5⟩
  unfold stoAnnBlock
  simp only [Nat.lt_irrefl, gt_iff_lt, if_false, List.nil_append]
  rw [stepsFrom_append _ _ _ _ _ e0, stepsFrom_append _ _ _ _ _ e1, stepsFrom_append _ _ _ _ _ e2,
    stepsFrom_append _ _ _ _ _ e3, stepsFrom_append _ _ _ _ _ e4]
  exact e5

/-- a whole later block: the blank line, the sequence lines, the `#=GC` lines -/
theorem block_later (abc : Option Abc) (cfg : Cfg) (enc : UInt8 → UInt8) (txt : Nat → Bytes) (m : Msa) {G : GsSt}
    (W : StoWritable abc cfg enc txt m) (cpl p w pos : Nat) (st : StoSt)
    (h : InBlk cfg enc txt m G p w m.nseq (blockSpec m).length m.nseq (blockSpec m).length 5 st)
    (hpw : p + w = pos) (hw : 1 ≤ w) (hlt : pos < m.alen) (hc : 0 < cpl) :
    ∃ st', stepsFrom (stoStep cfg) st (stoAnnBlock abc m cpl pos) = .inl st' ∧
      InBlk cfg enc txt m G pos (stoW m cpl pos) m.nseq (blockSpec m).length m.nseq (blockSpec m).length 5 st' := by
  have hpos : pos ≠ 0 := by omega
  have hw1 : 1 ≤ stoW m cpl pos := by unfold stoW; split <;> omega
  have hw2 : pos + stoW m cpl pos ≤ m.alen := by unfold stoW; split <;> omega
  obtain ⟨st1, he, h1⟩ := endBlock_full cfg enc txt m p w (stoW m cpl pos) m.nseq st h rfl W.n1 hw
  rw [hpw] at h1
  obtain ⟨s0, e0, h0⟩ := sqlines_later abc cfg enc txt m W pos _ st1 h1 hpos hw1 hw2 m.nseq (Nat.le_refl _)
  have h0' : InBlk cfg enc txt m G pos (stoW m cpl pos) m.nseq (blockSpec m).length m.nseq (m.nseq + cntSet m 0) 0 s0 := h0
  obtain ⟨s1, e1, h1'⟩ := gcSlot_later abc cfg enc txt m W pos _ 0 s0 (by omega) hpos h0' hw1 hw2
  obtain ⟨s2, e2, h2⟩ := gcSlot_later abc cfg enc txt m W pos _ 1 s1 (by omega) hpos h1' hw1 hw2
  obtain ⟨s3, e3, h3⟩ := gcSlot_later abc cfg enc txt m W pos _ 2 s2 (by omega) hpos h2 hw1 hw2
  obtain ⟨s4, e4, h4⟩ := gcSlot_later abc cfg enc txt m W pos _ 3 s3 (by omega) hpos h3 hw1 hw2
  obtain ⟨s5, e5, h5⟩ := gcSlot_later abc cfg enc txt m W pos _ 4 s4 (by omega) hpos h4 hw1 hw2
  rw [← blockSpec_len] at h5
  refine ⟨s5, ?_, h5⟩
  unfold stoAnnBlock
  have : pos > 0 := by omega
  simp only [this, if_true, List.singleton_append, stepsFrom, stoStep_blank cfg st st1 h.fr.lead he]
  rw [stepsFrom_append _ _ _ _ _ e0, stepsFrom_append _ _ _ _ _ e1, stepsFrom_append _ _ _ _ _ e2,
    stepsFrom_append _ _ _ _ _ e3, stepsFrom_append _ _ _ _ _ e4]
  exact e5

/-- all the later blocks -/
theorem blocks_later (abc : Option Abc) (cfg : Cfg) (enc : UInt8 → UInt8) (txt : Nat → Bytes) (m : Msa) {G : GsSt}
    (W : StoWritable abc cfg enc txt m) (cpl : Nat) (hc : 0 < cpl) :
    ∀ k pos, m.alen - pos ≤ k → ∀ (st : StoSt) (p w : Nat),
      InBlk cfg enc txt m G p w m.nseq (blockSpec m).length m.nseq (blockSpec m).length 5 st →
      p + w = min pos m.alen → 1 ≤ w →
      ∃ st' p' w', stepsFrom (stoStep cfg) st ((blockStartsFrom m.alen cpl pos).flatMap (stoAnnBlock abc m cpl)) = .inl st' ∧
        InBlk cfg enc txt m G p' w' m.nseq (blockSpec m).length m.nseq (blockSpec m).length 5 st' ∧ p' + w' = m.alen ∧ 1 ≤ w' := by
  intro k
  induction k with
  | zero =>
    intro pos hk st p w h hpw hw
    have hge : ¬ (pos < m.alen ∧ 0 < cpl) := by omega
    rw [blockStartsFrom, dif_neg hge]
    exact ⟨st, p, w, rfl, h, by omega, hw⟩
  | succ k ih =>
    intro pos hk st p w h hpw hw
    by_cases hlt : pos < m.alen
    · rw [blockStartsFrom, dif_pos ⟨hlt, hc⟩, List.flatMap_cons]
      obtain ⟨st1, hs1, h1⟩ := block_later abc cfg enc txt m W cpl p w pos st h (by omega) hw hlt hc
      have hw1 : 1 ≤ stoW m cpl pos := by unfold stoW; split <;> omega
      have hnext : pos + stoW m cpl pos = min (pos + cpl) m.alen := by unfold stoW; split <;> omega
      obtain ⟨st2, p', w', hs2, h2, he, hw'⟩ := ih (pos + cpl) (by omega) st1 pos _ h1 hnext hw1
      refine ⟨st2, p', w', ?_, h2, he, hw'⟩
      rw [stepsFrom_append _ _ _ _ _ hs1]; exact hs2
    · have hge : ¬ (pos < m.alen ∧ 0 < cpl) := by omega
      rw [blockStartsFrom, dif_neg hge]
      exact ⟨st, p, w, rfl, h, by omega, hw⟩

/-- the reader's state behind the header section -/
def headSt (m : Msa) : StoSt :=
  { lead := false, name := m.name, desc := m.desc, acc := m.acc, au := m.au, cutset := cutsetOf m,
    comments := m.comments, commentAlloc := comAllocN m.comments.length, gf := m.gf, gfAlloc := gfAllocN m.gf.length }

/-! ## the header section -/

theorem sGF_eq : sGF = bGF ++ [32] := by decide +kernel

theorem stoStep_gfline (cfg : Cfg) (st : StoSt) (rest : Bytes) (hl : st.lead = false) :
    stoStep cfg st (bGF ++ [32] ++ rest) = liftE (parseGf st (bGF ++ [32] ++ rest)) := by
  unfold stoStep
  simp [hl, bGF, List.dropWhile, memstrpfx, bSlash, List.isPrefixOf]

theorem gfline_shape (L : StoLayout) (tag val : Bytes) :
    ∃ sp, gfLine L tag val = bGF ++ [32] ++ (tag ++ sp ++ val) ∧ SpOk sp := by
  refine ⟨List.replicate ((L.maxgf : Int).natAbs - tag.length) 32 ++ [32], ?_, by simp, ?_⟩
  · unfold gfLine padRight; rw [sGF_eq]; simp
  · intro c hc
    rcases List.mem_append.mp hc with hc | hc
    · exact (List.mem_replicate.mp hc).2
    · simpa using hc

theorem nameOk_head (v : Bytes) (h : nameOk v) : ∀ c, v.head? = some c → inDelim blankTab c = false := by
  intro c hc
  cases v with
  | nil => cases hc
  | cons a t => simp at hc; subst hc; exact h.2 a (by simp)

theorem nameOk_nonul (v : Bytes) (h : nameOk v) : ∀ c ∈ v, c ≠ 0 := by
  intro c hc e
  have := h.2 c hc
  subst e
  simp [inDelim] at this

theorem gf_memtok (tag sp val : Bytes) (ht : nameOk tag) (hs : SpOk sp) (hv : ∀ c, val.head? = some c → inDelim blankTab c = false) :
    memtok (bGF ++ [32] ++ (tag ++ sp ++ val)) blankTab = some (bGF, tag ++ sp ++ val) ∧
    memtok (tag ++ sp ++ val) blankTab = some (tag, val) := by
  refine ⟨memtok_tok bGF [32] _ (by unfold nameOk; decide +kernel) ⟨by simp, by simp⟩ ?_, memtok_tok tag sp val ht hs hv⟩
  intro x hx
  cases tag with
  | nil => exact absurd rfl ht.1
  | cons a t => simp at hx; subst hx; exact ht.2 a (by simp)

theorem parseGf_id (st : StoSt) (sp val : Bytes) (hs : SpOk sp) (hv : gfTokOk val) :
    parseGf st (bGF ++ [32] ++ (bID ++ sp ++ val)) = .ok { st with name := some val } := by
  obtain ⟨hm1, hm2⟩ := gf_memtok bID sp val (by unfold nameOk; decide +kernel) hs (nameOk_head val hv.1)
  have hm3 := memtok_name val hv.1
  have hcs := cstr_id val (nameOk_nonul val hv.1)
  unfold parseGf
  simp only [hm1, hm2, hm3, hcs]
  simp [memstrcmp, bGF, bID]

theorem parseGf_ac (st : StoSt) (sp val : Bytes) (hs : SpOk sp) (hv : gfTokOk val) :
    parseGf st (bGF ++ [32] ++ (bAC ++ sp ++ val)) = .ok { st with acc := some val } := by
  obtain ⟨hm1, hm2⟩ := gf_memtok bAC sp val (by unfold nameOk; decide +kernel) hs (nameOk_head val hv.1)
  have hm3 := memtok_name val hv.1
  have hcs := cstr_id val (nameOk_nonul val hv.1)
  unfold parseGf
  simp only [hm1, hm2, hm3, hcs]
  simp [memstrcmp, bGF, bID, bAC]

theorem parseGf_de (st : StoSt) (sp val : Bytes) (hs : SpOk sp) (hv : gfTextOk val) :
    parseGf st (bGF ++ [32] ++ (bDE ++ sp ++ val)) = .ok { st with desc := some val } := by
  obtain ⟨hm1, hm2⟩ := gf_memtok bDE sp val (by unfold nameOk; decide +kernel) hs hv.1
  have hcs := cstr_id val (fun c hc e => hv.2.1 (e ▸ hc))
  unfold parseGf
  simp only [hm1, hm2, hcs]
  simp [memstrcmp, bGF, bID, bAC, bDE]

theorem parseGf_au (st : StoSt) (sp val : Bytes) (hs : SpOk sp) (hv : gfTextOk val) :
    parseGf st (bGF ++ [32] ++ (bAU ++ sp ++ val)) = .ok { st with au := some val } := by
  obtain ⟨hm1, hm2⟩ := gf_memtok bAU sp val (by unfold nameOk; decide +kernel) hs hv.1
  have hcs := cstr_id val (fun c hc e => hv.2.1 (e ▸ hc))
  unfold parseGf
  simp only [hm1, hm2, hcs]
  simp [memstrcmp, bGF, bID, bAC, bDE, bAU]

theorem comAllocN_ge (n : Nat) : (n = 0 ∧ comAllocN n = 0) ∨ (1 ≤ n ∧ n ≤ comAllocN n) := by
  induction n with
  | zero => exact Or.inl ⟨rfl, rfl⟩
  | succ n ih =>
    right
    refine ⟨by omega, ?_⟩
    simp only [comAllocN]
    rcases ih with ⟨h0, ha⟩ | ⟨h1, h2⟩
    · subst h0; simp [ha]
    · have hne : (comAllocN n == 0) = false := by simp; omega
      simp only [hne, Bool.false_eq_true, if_false]
      split
      · rename_i he; simp at he; omega
      · rename_i he; simp at he; omega

theorem gfAllocN_ge (n : Nat) : (n = 0 ∧ gfAllocN n = 0) ∨ (1 ≤ n ∧ n ≤ gfAllocN n) := by
  induction n with
  | zero => exact Or.inl ⟨rfl, rfl⟩
  | succ n ih =>
    right
    refine ⟨by omega, ?_⟩
    simp only [gfAllocN]
    rcases ih with ⟨h0, ha⟩ | ⟨h1, h2⟩
    · subst h0; simp [ha]
    · have hne : (gfAllocN n == 0) = false := by simp; omega
      simp only [hne, Bool.false_eq_true, if_false]
      split
      · rename_i he; simp at he; omega
      · rename_i he; simp at he; omega

theorem comAllocN_succ (n : Nat) :
    comAllocN (n + 1) = if n == (if comAllocN n == 0 then 16 else comAllocN n) then (if comAllocN n == 0 then 16 else comAllocN n) * 2
      else (if comAllocN n == 0 then 16 else comAllocN n) := rfl

theorem parseComment_ok (st : StoSt) (c : Bytes) (hc : comOk c) (ha : st.commentAlloc = comAllocN st.comments.length) :
    parseComment st (35 :: c) = .ok { st with comments := st.comments ++ [c], commentAlloc := comAllocN (st.comments.length + 1) } := by
  obtain ⟨h1, h2, _, _, _, _, _, _⟩ := hc
  have hdw : c.dropWhile isSpace = c := by
    cases c with
    | nil => rfl
    | cons x t => simp [List.dropWhile, h1 x rfl]
  have hcs : cstr c = c := cstr_id c (fun x hx e => h2 (e ▸ hx))
  have hnf : ¬ (st.comments.length ≥ comAllocN (st.comments.length + 1)) := by
    have := comAllocN_ge (st.comments.length + 1)
    omega
  have hal : (if (st.comments.length == (if (comAllocN st.comments.length == 0) then 16 else comAllocN st.comments.length))
      then (if (comAllocN st.comments.length == 0) then 16 else comAllocN st.comments.length) * 2
      else (if (comAllocN st.comments.length == 0) then 16 else comAllocN st.comments.length))
      = comAllocN (st.comments.length + 1) := (comAllocN_succ _).symm
  unfold parseComment
  simp only [show ((35 : UInt8) == 35) = true by decide, if_true, hdw, hcs, ha, hal, hnf, if_false]

theorem stoStep_comment (cfg : Cfg) (st : StoSt) (c : Bytes) (hl : st.lead = false) (hc : comOk c)
    (ha : st.commentAlloc = comAllocN st.comments.length) :
    stoStep cfg st (35 :: c) = .inl { st with comments := st.comments ++ [c], commentAlloc := comAllocN (st.comments.length + 1) } := by
  have hpc := parseComment_ok st c hc ha
  obtain ⟨h1, h2, _, _, g1, g2, g3, g4⟩ := hc
  have hs10 : memstrcmp (35 :: c) bSto10 = false := by
    cases c with
    | nil => simp [memstrcmp, bSto10]
    | cons x t =>
      have hx : x ≠ 32 := by
        intro e; have := h1 x rfl; rw [e] at this; revert this; decide
      simp only [memstrcmp, bSto10, beq_eq_false_iff_ne, ne_eq, List.cons.injEq, not_and]
      intro _ h; exact absurd h hx
  have hsl : memstrpfx (35 :: c) bSlash = false := by simp [memstrpfx, bSlash, List.isPrefixOf]
  unfold stoStep
  simp only [hl, Bool.false_eq_true, if_false, List.dropWhile]
  simp only [show ((35 : UInt8) == 32 || (35 : UInt8) == 9) = false by decide, List.isEmpty_cons, Bool.false_or,
    List.head?_cons, g1, g2, g3, g4, hs10, hsl, Bool.false_eq_true, if_false, if_true, hpc]
  simp [liftE, hl]

theorem com_steps (cfg : Cfg) (rest : List Bytes) : ∀ (cs : List Bytes) (st : StoSt), st.lead = false → (∀ c ∈ cs, comOk c) →
    st.commentAlloc = comAllocN st.comments.length →
    stepsFrom (stoStep cfg) st (cs.map (fun c => 35 :: c) ++ rest) =
    stepsFrom (stoStep cfg) { st with comments := st.comments ++ cs, commentAlloc := comAllocN (st.comments ++ cs).length } rest
  | [], st, _, _, ha => by simp [← ha]
  | c :: cs, st, hl, hc, ha => by
    have h1 : stepsFrom (stoStep cfg) st ((c :: cs).map (fun c => 35 :: c) ++ rest)
        = stepsFrom (stoStep cfg) { st with comments := st.comments ++ [c], commentAlloc := comAllocN (st.comments.length + 1) }
            (cs.map (fun c => 35 :: c) ++ rest) := by
      simp only [List.map_cons, List.cons_append, stepsFrom, stoStep_comment cfg st c hl (hc c (by simp)) ha]
    rw [h1]
    refine (com_steps cfg rest cs { st with comments := st.comments ++ [c], commentAlloc := comAllocN (st.comments.length + 1) }
      hl (fun c' h => hc c' (by simp [h])) (by simp [List.length_append])).trans ?_
    simp

theorem gfAllocN_succ (n : Nat) :
    gfAllocN (n + 1) = if n == gfAllocN n then (if gfAllocN n == 0 then 16 else gfAllocN n * 2) else gfAllocN n := rfl

theorem parseGf_other (st : StoSt) (tag sp val : Bytes) (ht : gfTagOk tag) (hs : SpOk sp) (hv : gfTextOk val)
    (ha : st.gfAlloc = gfAllocN st.gf.length) :
    parseGf st (bGF ++ [32] ++ (tag ++ sp ++ val))
      = .ok { st with gf := st.gf ++ [(tag, val)], gfAlloc := gfAllocN (st.gf.length + 1) } := by
  obtain ⟨hm1, hm2⟩ := gf_memtok tag sp val ht.1 hs hv.1
  obtain ⟨htn, _, t1, t2, t3, t4, t5, t6, t7⟩ := ht
  have hcv := cstr_id val (fun c hc e => hv.2.1 (e ▸ hc))
  have hct := cstr_id tag (nameOk_nonul tag htn)
  have hnf : ¬ (st.gf.length ≥ gfAllocN (st.gf.length + 1)) := by
    have := gfAllocN_ge (st.gf.length + 1)
    omega
  unfold parseGf
  simp only [hm1, hm2]
  simp only [memstrcmp, beq_self_eq_true, Bool.not_true, Bool.false_eq_true, if_false, beq_eq_false_iff_ne.mpr t1,
    beq_eq_false_iff_ne.mpr t2, beq_eq_false_iff_ne.mpr t3, beq_eq_false_iff_ne.mpr t4, beq_eq_false_iff_ne.mpr t5,
    beq_eq_false_iff_ne.mpr t6, beq_eq_false_iff_ne.mpr t7]
  unfold addGF
  simp only [ha, ← gfAllocN_succ, hnf, if_false, hcv, hct]

theorem stoStep_gfline' (cfg : Cfg) (st : StoSt) (L : StoLayout) (tag val : Bytes) (hl : st.lead = false) :
    ∃ sp, SpOk sp ∧ stoStep cfg st (gfLine L tag val) = liftE (parseGf st (bGF ++ [32] ++ (tag ++ sp ++ val))) := by
  obtain ⟨sp, hline, hs⟩ := gfline_shape L tag val
  exact ⟨sp, hs, by rw [hline, stoStep_gfline cfg st _ hl]⟩

theorem gf_steps (cfg : Cfg) (L : StoLayout) (rest : List Bytes) : ∀ (gs : List (Bytes × Bytes)) (st : StoSt), st.lead = false →
    (∀ t ∈ gs, gfTagOk t.1 ∧ gfTextOk t.2) → st.gfAlloc = gfAllocN st.gf.length →
    stepsFrom (stoStep cfg) st (gs.map (fun t => gfLine L t.1 t.2) ++ rest) =
    stepsFrom (stoStep cfg) { st with gf := st.gf ++ gs, gfAlloc := gfAllocN (st.gf ++ gs).length } rest
  | [], st, _, _, ha => by simp [← ha]
  | t :: gs, st, hl, hc, ha => by
    obtain ⟨sp, hs, he⟩ := stoStep_gfline' cfg st L t.1 t.2 hl
    have ht := hc t (by simp)
    have h1 : stepsFrom (stoStep cfg) st ((t :: gs).map (fun t => gfLine L t.1 t.2) ++ rest)
        = stepsFrom (stoStep cfg) { st with gf := st.gf ++ [(t.1, t.2)], gfAlloc := gfAllocN (st.gf.length + 1) }
            (gs.map (fun t => gfLine L t.1 t.2) ++ rest) := by
      simp only [List.map_cons, List.cons_append, stepsFrom, he, parseGf_other st t.1 sp t.2 ht.1 hs ht.2 ha, liftE]
    rw [h1]
    refine (gf_steps cfg L rest gs { st with gf := st.gf ++ [(t.1, t.2)], gfAlloc := gfAllocN (st.gf.length + 1) }
      hl (fun c' h => hc c' (by simp [h])) (by simp [List.length_append])).trans ?_
    simp

/-! ## cut-offs: `printf("%.1f")` of a finite value is a token `esl_mem_IsReal` accepts -/

def allDig (l : Bytes) : Prop := ∀ c ∈ l, isDigit c = true

def digitTbl : Bool :=
  (List.range 256).all fun n =>
    let c := UInt8.ofNat n
    !isDigit c || (!inDelim blankTab c && c != 10 && c != 13 && !isSpace c && c != 45 && c != 43 && c != 117 && c != 46
      && c != 101 && c != 69 && c != 0)

theorem digitTbl_true : digitTbl = true := by decide +kernel

theorem digit_facts (c : UInt8) (h : isDigit c = true) :
    inDelim blankTab c = false ∧ c ≠ 10 ∧ c ≠ 13 ∧ isSpace c = false ∧ c ≠ 45 ∧ c ≠ 43 ∧ c ≠ 117 ∧ c ≠ 46 ∧ c ≠ 101 ∧ c ≠ 69 ∧ c ≠ 0 := by
  have h1 := (List.all_eq_true.mp digitTbl_true) c.toNat (List.mem_range.mpr c.toNat_lt)
  simp only [UInt8.ofNat_toNat, h, Bool.not_true, Bool.false_or, Bool.and_eq_true, Bool.not_eq_true', bne_iff_ne, ne_eq] at h1
  obtain ⟨⟨⟨⟨⟨⟨⟨⟨⟨⟨a1, a2⟩, a3⟩, a4⟩, a5⟩, a6⟩, a7⟩, a8⟩, a9⟩, a10⟩, a11⟩ := h1
  exact ⟨a1, a2, a3, a4, a5, a6, a7, a8, a9, a10, a11⟩

theorem dch_digit : ∀ d, d < 10 → isDigit (dch d) = true := by decide

theorem natDec_allDig (n : Nat) : allDig (natDec n) := fun c hc => by
  obtain ⟨d, hd, rfl⟩ := natDec_mem n c hc
  exact dch_digit d hd

theorem isRealBody_digits (ds rest : Bytes) (h : allDig ds) (gd ge : Bool) (r : Nat) :
    isRealBody (ds ++ rest) gd ge r = isRealBody rest gd ge (r + ds.length) := by
  induction ds generalizing r with
  | nil => simp
  | cons c t ih =>
    have hc := h c (by simp)
    simp only [List.cons_append, isRealBody, hc, if_true]
    rw [ih (fun x hx => h x (by simp [hx]))]
    congr 1
    simp only [List.length_cons]; omega

theorem fmtFixed_shape (neg : Bool) (mant : Nat) (e : Int) (prec : Nat) (hp : prec ≠ 0) :
    ∃ ip fp, fmtFixed neg mant e prec = (if neg then [45] else []) ++ (ip ++ 46 :: fp) ∧ ip ≠ [] ∧ allDig ip ∧ allDig fp := by
  have hp' : (prec == 0) = false := by simpa using hp
  unfold fmtFixed
  simp only [hp', Bool.false_eq_true, if_false, List.append_assoc]
  refine ⟨_, _, rfl, natDec_ne_nil _, natDec_allDig _, ?_⟩
  intro c hc
  rcases List.mem_append.mp hc with h | h
  · rw [(List.mem_replicate.mp h).2]; decide
  · exact natDec_allDig _ c h

theorem fmtF1_shape (b : UInt32) (h : finiteF32 b) :
    ∃ sg ip fp, fmtF1 b = sg ++ (ip ++ 46 :: fp) ∧ (sg = [] ∨ sg = [45]) ∧ ip ≠ [] ∧ allDig ip ∧ allDig fp := by
  have h' : ((b.toNat / 2 ^ 23) % 256 == 255) = false := by simpa [finiteF32] using h
  unfold fmtF1
  simp only [h', Bool.false_eq_true, if_false]
  split
  · obtain ⟨ip, fp, he, h1, h2, h3⟩ := fmtFixed_shape (b.toNat / 2 ^ 31 == 1) (b.toNat % 2 ^ 23) (-149) 1 (by decide)
    exact ⟨_, ip, fp, he, by split <;> simp, h1, h2, h3⟩
  · obtain ⟨ip, fp, he, h1, h2, h3⟩ := fmtFixed_shape (b.toNat / 2 ^ 31 == 1) (b.toNat % 2 ^ 23 + 2 ^ 23)
      (Int.ofNat ((b.toNat / 2 ^ 23) % 256) - 150) 1 (by decide)
    exact ⟨_, ip, fp, he, by split <;> simp, h1, h2, h3⟩

/-- a token the cut-off parser accepts as a real number and that survives being written on a line -/
structure RealTok (t : Bytes) : Prop where
  name : nameOk t
  real : memIsReal t = true
  nolf : (10 : UInt8) ∉ t
  nocr : t.getLast? ≠ some 13
  notundef : memstrcmp t bUndefined = false

theorem realTok_of_shape (sg ip fp : Bytes) (hsg : sg = [] ∨ sg = [45]) (hip : ip ≠ []) (h1 : allDig ip) (h2 : allDig fp) :
    RealTok (sg ++ (ip ++ 46 :: fp)) := by
  have hbody : ∀ c ∈ ip ++ 46 :: fp, inDelim blankTab c = false ∧ c ≠ 10 ∧ c ≠ 13 := by
    intro c hc
    rcases List.mem_append.mp hc with h | h
    · have := digit_facts c (h1 c h); exact ⟨this.1, this.2.1, this.2.2.1⟩
    · rcases List.mem_cons.mp h with h | h
      · subst h; decide
      · have := digit_facts c (h2 c h); exact ⟨this.1, this.2.1, this.2.2.1⟩
  have hall : ∀ c ∈ sg ++ (ip ++ 46 :: fp), inDelim blankTab c = false ∧ c ≠ 10 ∧ c ≠ 13 := by
    intro c hc
    rcases List.mem_append.mp hc with h | h
    · rcases hsg with e | e
      · rw [e] at h; cases h
      · rw [e] at h; simp at h; subst h; decide
    · exact hbody c h
  obtain ⟨d, ip', rfl⟩ : ∃ d ip', ip = d :: ip' := by
    cases ip with
    | nil => exact absurd rfl hip
    | cons d t => exact ⟨d, t, rfl⟩
  have hd := digit_facts d (h1 d (by simp))
  have hreal : isRealBody (d :: ip' ++ 46 :: fp) false false 0 = some ([], (d :: ip').length + fp.length) := by
    rw [isRealBody_digits _ _ h1]
    have h46 : isDigit 46 = false := by decide
    simp only [isRealBody, h46, Bool.false_eq_true, if_false, beq_self_eq_true, if_true]
    have := isRealBody_digits fp [] h2 true false (0 + (d :: ip').length)
    rw [List.append_nil] at this
    rw [this]
    simp [isRealBody]
  refine ⟨⟨?_, fun c hc => (hall c hc).1⟩, ?_, fun h => (hall 10 h).2.1 rfl, fun h => (hall 13 (List.mem_of_getLast? h)).2.2 rfl, ?_⟩
  · rcases hsg with e | e <;> subst e <;> simp
  · rcases hsg with e | e <;> subst e
    · unfold memIsReal
      simp only [List.nil_append, List.cons_append, List.isEmpty_cons, Bool.false_eq_true, if_false, List.dropWhile, hd.2.2.2.1]
      have e1 : (d == 45 || d == 43) = false := by simp [hd.2.2.2.2.1, hd.2.2.2.2.2.1]
      simp only [e1, Bool.false_eq_true, if_false]
      rw [show d :: (ip' ++ 46 :: fp) = d :: ip' ++ 46 :: fp from rfl, hreal]
      simp; omega
    · unfold memIsReal
      simp only [List.cons_append, List.nil_append, List.isEmpty_cons, Bool.false_eq_true, if_false, List.dropWhile,
        show isSpace 45 = false by decide, show ((45 : UInt8) == 45 || (45 : UInt8) == 43) = true by decide, if_true]
      rw [show d :: (ip' ++ 46 :: fp) = d :: ip' ++ 46 :: fp from rfl, hreal]
      simp; omega
  · rcases hsg with e | e <;> subst e
    · simp only [memstrcmp, bUndefined, List.nil_append, List.cons_append, beq_eq_false_iff_ne, ne_eq, List.cons.injEq, not_and]
      intro h; exact absurd h hd.2.2.2.2.2.2.1
    · simp [memstrcmp, bUndefined]

theorem fmtF1_realTok (b : UInt32) (h : finiteF32 b) : RealTok (fmtF1 b) := by
  obtain ⟨sg, ip, fp, he, h0, h1, h2, h3⟩ := fmtF1_shape b h
  rw [he]; exact realTok_of_shape sg ip fp h0 h1 h2 h3

theorem parseCutoffs_one (st : StoSt) (a : Bytes) (i1 i2 : Nat) (u : Bool) (ha : RealTok a) :
    parseCutoffs st a i1 i2 u = .ok { st with cutset := st.cutset.set i1 true } := by
  unfold parseCutoffs
  simp only [memtok_name a ha.name, ha.real, ha.notundef, Bool.and_false, Bool.not_false, Bool.not_true, Bool.and_self,
    Bool.false_eq_true, if_false]
  simp [memtok, List.dropWhile]

theorem parseCutoffs_two (st : StoSt) (a b : Bytes) (i1 i2 : Nat) (u : Bool) (ha : RealTok a) (hb : RealTok b) :
    parseCutoffs st (a ++ [32] ++ b) i1 i2 u = .ok { st with cutset := (st.cutset.set i1 true).set i2 true } := by
  have hm := memtok_tok a [32] b ha.name ⟨by simp, by simp⟩ (nameOk_head b hb.name)
  unfold parseCutoffs
  simp only [hm, memtok_name b hb.name, ha.real, hb.real, ha.notundef, Bool.and_false, Bool.not_false, Bool.not_true, Bool.and_self,
    Bool.false_eq_true, if_false]

/-- the three two-threshold tags with the `cutset` slots they fill and the Rfam "undefined" allowance -/
def CutTag (tag : Bytes) (i1 i2 : Nat) (u : Bool) : Prop :=
  (tag = bGA ∧ i1 = 2 ∧ i2 = 3 ∧ u = false) ∨ (tag = bNC ∧ i1 = 4 ∧ i2 = 5 ∧ u = true) ∨ (tag = bTC ∧ i1 = 0 ∧ i2 = 1 ∧ u = false)

theorem parseGf_cut (st : StoSt) (tag sp val : Bytes) (i1 i2 : Nat) (u : Bool) (htag : CutTag tag i1 i2 u) (hs : SpOk sp)
    (hv : ∀ c, val.head? = some c → inDelim blankTab c = false) :
    parseGf st (bGF ++ [32] ++ (tag ++ sp ++ val)) = parseCutoffs st val i1 i2 u := by
  rcases htag with ⟨rfl, rfl, rfl, rfl⟩ | ⟨rfl, rfl, rfl, rfl⟩ | ⟨rfl, rfl, rfl, rfl⟩
  · obtain ⟨hm1, hm2⟩ := gf_memtok bGA sp val (by unfold nameOk; decide +kernel) hs hv
    unfold parseGf
    simp only [hm1, hm2]
    simp [memstrcmp, bGF, bID, bAC, bDE, bAU, bGA]
  · obtain ⟨hm1, hm2⟩ := gf_memtok bNC sp val (by unfold nameOk; decide +kernel) hs hv
    unfold parseGf
    simp only [hm1, hm2]
    simp [memstrcmp, bGF, bID, bAC, bDE, bAU, bGA, bNC]
  · obtain ⟨hm1, hm2⟩ := gf_memtok bTC sp val (by unfold nameOk; decide +kernel) hs hv
    unfold parseGf
    simp only [hm1, hm2]
    simp [memstrcmp, bGF, bID, bAC, bDE, bAU, bGA, bNC, bTC]

theorem cutLines_eq (L : StoLayout) (tag : Bytes) (c1 c2 : Option UInt32) :
    cutLines L tag c1 c2 = match c1, c2 with
      | some a, some b => [gfLine L tag (fmtF1 a ++ [32] ++ fmtF1 b)]
      | some a, none => [gfLine L tag (fmtF1 a)]
      | none, _ => [] := by
  unfold cutLines gfLine
  cases c1 <;> cases c2 <;> simp

theorem cut_steps (cfg : Cfg) (L : StoLayout) (rest : List Bytes) (st : StoSt) (hl : st.lead = false)
    (tag : Bytes) (i1 i2 : Nat) (u : Bool) (htag : CutTag tag i1 i2 u) (c1 c2 : Option UInt32)
    (h1 : ∀ v, c1 = some v → finiteF32 v) (h2 : ∀ v, c2 = some v → finiteF32 v) :
    stepsFrom (stoStep cfg) st (cutLines L tag c1 c2 ++ rest)
      = stepsFrom (stoStep cfg) { st with cutset := cutPair st.cutset i1 i2 c1 c2 } rest := by
  rw [cutLines_eq]
  cases c1 with
  | none => rfl
  | some a =>
    have ra := fmtF1_realTok a (h1 a rfl)
    cases c2 with
    | none =>
      obtain ⟨sp, hs, he⟩ := stoStep_gfline' cfg st L tag (fmtF1 a) hl
      simp only [List.cons_append, List.nil_append, stepsFrom, he,
        parseGf_cut st tag sp _ i1 i2 u htag hs (nameOk_head _ ra.name), parseCutoffs_one st _ i1 i2 u ra, liftE, cutPair]
    | some b =>
      have rb := fmtF1_realTok b (h2 b rfl)
      obtain ⟨sp, hs, he⟩ := stoStep_gfline' cfg st L tag (fmtF1 a ++ [32] ++ fmtF1 b) hl
      have hh : ∀ c, (fmtF1 a ++ [32] ++ fmtF1 b).head? = some c → inDelim blankTab c = false := by
        intro c hc
        apply nameOk_head _ ra.name c
        have hne := ra.name.1
        cases hfa : fmtF1 a with
        | nil => exact absurd hfa hne
        | cons x t => rw [hfa] at hc; simpa using hc
      simp only [List.cons_append, List.nil_append, stepsFrom, he,
        parseGf_cut st tag sp _ i1 i2 u htag hs hh, parseCutoffs_two st _ _ i1 i2 u ra rb, liftE, cutPair]

/-- one optional `#=GF ID/AC/DE/AU` line -/
theorem gfopt_step (cfg : Cfg) (L : StoLayout) (st st' : StoSt) (hl : st.lead = false) (tag : Bytes) (o : Option Bytes)
    (rest : List Bytes) (hnone : o = none → st' = st)
    (hsome : ∀ v sp, o = some v → SpOk sp → parseGf st (bGF ++ [32] ++ (tag ++ sp ++ v)) = .ok st') :
    stepsFrom (stoStep cfg) st (optLine o (gfLine L tag) ++ rest) = stepsFrom (stoStep cfg) st' rest := by
  cases o with
  | none => rw [hnone rfl]; rfl
  | some v =>
    obtain ⟨sp, hs, he⟩ := stoStep_gfline' cfg st L tag v hl
    simp only [optLine, List.cons_append, List.nil_append, stepsFrom, he, hsome v sp rfl hs, liftE]

/-- the header section leaves the reader with the comments, the four parsed `#=GF` fields, the cut-off flags and the
    unparsed `#=GF` tags set -/
theorem head_steps (cfg : Cfg) (m : Msa) (hp : StoAnn m) :
    stepsFrom (stoStep cfg) {} (stoAnnHead m) = .inl (headSt m) := by
  have h0 : stoStep cfg {} bSto10 = .inl { lead := false } := rfl
  let s1 : StoSt := { lead := false, comments := m.comments, commentAlloc := comAllocN m.comments.length }
  let s2 : StoSt := { s1 with name := m.name }
  let s3 : StoSt := { s2 with acc := m.acc }
  let s4 : StoSt := { s3 with desc := m.desc }
  let s5 : StoSt := { s4 with au := m.au }
  let s6 : StoSt := { s5 with cutset := cutPair s5.cutset 2 3 (m.cutoff.getD 2 none) (m.cutoff.getD 3 none) }
  let s7 : StoSt := { s6 with cutset := cutPair s6.cutset 4 5 (m.cutoff.getD 4 none) (m.cutoff.getD 5 none) }
  let s8 : StoSt := { s7 with cutset := cutPair s7.cutset 0 1 (m.cutoff.getD 0 none) (m.cutoff.getD 1 none) }
  have c1 : ∀ rest, stepsFrom (stoStep cfg) { lead := false } (m.comments.map (fun c => 35 :: c) ++ rest)
      = stepsFrom (stoStep cfg) s1 rest := by
    intro rest
    have := com_steps cfg rest m.comments { lead := false } rfl hp.com_ok rfl
    rw [this]
    simp [s1]
  have c2 : ∀ rest, stepsFrom (stoStep cfg) s1 ((if m.comments.isEmpty then [] else [[]]) ++ rest)
      = stepsFrom (stoStep cfg) s1 rest := by
    intro rest
    split
    · rfl
    · simp only [List.cons_append, List.nil_append, stepsFrom, stoStep_blank cfg s1 s1 rfl rfl]
  have a1 : ∀ rest, stepsFrom (stoStep cfg) s1 (optLine m.name (gfLine (stoLayout m) bID) ++ rest) = stepsFrom (stoStep cfg) s2 rest :=
    fun rest => gfopt_step cfg _ s1 s2 rfl bID m.name rest (fun e => by simp [s2, e, s1])
      (fun v sp e hs => by rw [parseGf_id s1 sp v hs (hp.name_ok v e)]; simp [s2, e])
  have a2 : ∀ rest, stepsFrom (stoStep cfg) s2 (optLine m.acc (gfLine (stoLayout m) bAC) ++ rest) = stepsFrom (stoStep cfg) s3 rest :=
    fun rest => gfopt_step cfg _ s2 s3 rfl bAC m.acc rest (fun e => by simp [s3, e, s2, s1])
      (fun v sp e hs => by rw [parseGf_ac s2 sp v hs (hp.acc_ok v e)]; simp [s3, e])
  have a3 : ∀ rest, stepsFrom (stoStep cfg) s3 (optLine m.desc (gfLine (stoLayout m) bDE) ++ rest) = stepsFrom (stoStep cfg) s4 rest :=
    fun rest => gfopt_step cfg _ s3 s4 rfl bDE m.desc rest (fun e => by simp [s4, e, s3, s2, s1])
      (fun v sp e hs => by rw [parseGf_de s3 sp v hs (hp.desc_ok v e)]; simp [s4, e])
  have a4 : ∀ rest, stepsFrom (stoStep cfg) s4 (optLine m.au (gfLine (stoLayout m) bAU) ++ rest) = stepsFrom (stoStep cfg) s5 rest :=
    fun rest => gfopt_step cfg _ s4 s5 rfl bAU m.au rest (fun e => by simp [s5, e, s4, s3, s2, s1])
      (fun v sp e hs => by rw [parseGf_au s4 sp v hs (hp.au_ok v e)]; simp [s5, e])
  have k1 : ∀ rest, stepsFrom (stoStep cfg) s5 (cutLines (stoLayout m) bGA (m.cutoff.getD 2 none) (m.cutoff.getD 3 none) ++ rest)
      = stepsFrom (stoStep cfg) s6 rest :=
    fun rest => cut_steps cfg _ rest s5 rfl bGA 2 3 false (Or.inl ⟨rfl, rfl, rfl, rfl⟩) _ _ (hp.cut_ok 2) (hp.cut_ok 3)
  have k2 : ∀ rest, stepsFrom (stoStep cfg) s6 (cutLines (stoLayout m) bNC (m.cutoff.getD 4 none) (m.cutoff.getD 5 none) ++ rest)
      = stepsFrom (stoStep cfg) s7 rest :=
    fun rest => cut_steps cfg _ rest s6 rfl bNC 4 5 true (Or.inr (Or.inl ⟨rfl, rfl, rfl, rfl⟩)) _ _ (hp.cut_ok 4) (hp.cut_ok 5)
  have k3 : ∀ rest, stepsFrom (stoStep cfg) s7 (cutLines (stoLayout m) bTC (m.cutoff.getD 0 none) (m.cutoff.getD 1 none) ++ rest)
      = stepsFrom (stoStep cfg) s8 rest :=
    fun rest => cut_steps cfg _ rest s7 rfl bTC 0 1 false (Or.inr (Or.inr ⟨rfl, rfl, rfl, rfl⟩)) _ _ (hp.cut_ok 0) (hp.cut_ok 1)
  have g1 : ∀ rest, stepsFrom (stoStep cfg) s8 (m.gf.map (fun t => gfLine (stoLayout m) t.1 t.2) ++ rest)
      = stepsFrom (stoStep cfg) (headSt m) rest := by
    intro rest
    have := gf_steps cfg (stoLayout m) rest m.gf s8 rfl hp.gf_ok rfl
    rw [this]
    simp [s8, s7, s6, s5, s4, s3, s2, s1, headSt, cutsetOf]
  unfold stoAnnHead
  simp only [List.cons_append, List.nil_append, stepsFrom, h0]
  rw [c1, c2, a1, a2, a3, a4, k1, k2, k3, g1]
  simp only [stepsFrom, stoStep_blank cfg (headSt m) (headSt m) rfl rfl]

theorem blockStarts_cons' (alen cpl : Nat) (h : 1 ≤ alen) (hc : 0 < cpl) :
    blockStarts alen cpl = 0 :: blockStartsFrom alen cpl cpl := by
  unfold blockStarts
  rw [blockStartsFrom, dif_pos ⟨by omega, hc⟩, Nat.zero_add]

theorem InBlk_init (cfg : Cfg) (enc : UInt8 → UInt8) (txt : Nat → Bytes) (m : Msa) (hp : StoAnn m) (w : Nat) :
    InBlk cfg enc txt m GsSt.none 0 w 0 0 0 0 0 (headSt m) :=
  { fr :=
      { lead := rfl, hasw := rfl, wgt := fun e => absurd e (by decide), name := rfl, desc := rfl, acc := rfl, au := rfl
        cons_len := rfl, consLen_len := rfl
        cons := fun k hk => by
          have e : consVal m (if k < 0 then 0 + w else 0) k = none := by
            rw [if_neg (Nat.not_lt_zero k)]; unfold consVal; split <;> simp
          rw [e]
          show (List.replicate 5 none)[k]? = _
          rw [List.getElem?_replicate, if_pos hk]
        consLen := fun k hk _ => by
          rw [if_neg (Nat.not_lt_zero k)]
          show (List.replicate 5 0)[k]? = _
          rw [List.getElem?_replicate, if_pos hk]
        sqacc := rfl, sqdesc := rfl, per := rfl, cutset := rfl
        comments := rfl
        gf := rfl
        gsTags := rfl, gs := rfl, gcTags := rfl, gc := rfl, grTags := rfl, gr := rfl }
    alen := rfl, nblock := ⟨fun _ => rfl, fun _ => rfl⟩, names := by simp [headSt], nseq := rfl
    alloc := by show 0 ≤ 16; omega
    apos := by show 0 < 16; omega
    rows_len := by show (List.replicate 16 (none : Option Bytes)).length = 16; simp
    rows_done := fun i hi => by omega
    rows_todo := fun i _ hi2 => by
      have hi2' : i < 16 := hi2
      show (List.replicate 16 none)[i]? = _
      rw [List.getElem?_replicate, if_pos hi2']
      simp [phyRowAt]
    salloc := rfl
    sqlen_len := by show (List.replicate 16 0).length = 16; simp
    sqlen_done := fun i hi => by omega
    sqlen_todo := fun i _ hi2 => by
      have hi2' : i < 16 := hi2
      show (List.replicate 16 0)[i]? = _
      rw [List.getElem?_replicate, if_pos hi2']
      simp
    bpos := by show 0 < 16; omega
    blt_len := by show (List.replicate 16 (none : Option Nat)).length = 16; simp
    bidx_len := by show (List.replicate 16 (none : Option (Option Nat))).length = 16; simp
    nrec := by show 0 ≤ 16; omega
    blt := fun i hi => by omega
    bidx := fun i hi => by omega
    npb := fun e => absurd rfl e
    bi := rfl, si := Or.inl rfl, nseqB := rfl
    alenB := fun e => absurd rfl e
    inBlock := rfl }

/-! ## the end of the record -/

/-- everything Stockholm/Pfam represent of `m`: all of it; rows in the reader's mode, default weights; of the cut-offs the
    reader MODEL keeps which ones are set (a second threshold only with the first), not their value (`some 0`) -/
def stoProject (cfg : Cfg) (m : Msa) : Msa :=
  { m with digital := cfg.digital, kp := cfg.kp,
           aseq := if cfg.digital then [] else (List.range m.nseq).map m.stored,
           ax := if cfg.digital then (List.range m.nseq).map m.stored else [],
           wgt := List.replicate m.nseq Wgt.dflt,
           cutoff := if (cutsetOf m).any id then (cutsetOf m).map (fun b => if b then some 0 else none) else [] }

theorem rows_take_final (rows : List (Option Bytes)) (n : Nat) (f : Nat → Bytes)
    (h : ∀ i, i < n → rows[i]? = some (some (f i))) : (rows.take n).map (·.getD []) = (List.range n).map f := by
  apply List.ext_getElem?
  intro i
  by_cases hi : i < n
  · simp [List.getElem?_take, hi, h i hi]
  · simp [List.getElem?_take, hi]

theorem consVal_full (m : Msa) (hp : StoAnn m) (ha : 1 ≤ m.alen) (k : Nat) : consVal m m.alen k = (consF m).getD k none := by
  unfold consVal
  cases hs : (consF m).getD k none with
  | none => rfl
  | some s =>
    have := (hp.cons_ok k s hs).1
    have h0 : ¬ (m.alen = 0) := by omega
    simp only [h0, if_false]
    rw [← this, List.take_length]

theorem stoFinal_full (abc : Option Abc) (cfg : Cfg) (enc : UInt8 → UInt8) (txt : Nat → Bytes) (m : Msa)
    (W : StoWritable abc cfg enc txt m) (w : Nat) (st : StoSt)
    (h : InBlk cfg enc txt m GsSt.none m.alen w m.nseq (blockSpec m).length 0 0 0 st) :
    stoFinal cfg st = .ok (stoProject cfg m) := by
  have hfr := h.fr
  have hp := W.ann
  have ha1 := W.alen1
  have hn1 := W.n1
  have hnames : st.names = m.names := by rw [h.names]; exact List.take_length
  have hnl : st.names.length = m.nseq := by rw [hnames]; rfl
  have hnseq : st.nseq = m.nseq := by rw [h.nseq, hnl]
  have hnb : (st.nblock == 0) = false := by
    have : st.nblock ≠ 0 := fun e => by have := h.nblock.mp e; omega
    simpa using this
  have hn0 : (st.nseq == 0) = false := by rw [hnseq]; simp; omega
  have hsq : ∀ i, i < m.nseq → i < st.sqalloc := fun i hi => by have := h.alloc; omega
  have hfind : (List.range st.nseq).find? (fun i => st.sqlen[i]? != some st.alen) = none := by
    rw [List.find?_eq_none]
    intro i hi
    rw [hnseq] at hi
    have hi' := List.mem_range.mp hi
    have := h.sqlen_todo i (Nat.zero_le _) (hsq i hi')
    rw [if_pos hi'] at this
    rw [this, h.alen]; simp
  have hrows : (st.rows.take m.nseq).map (·.getD []) = (List.range m.nseq).map m.stored := by
    apply rows_take_final
    intro i hi
    have := h.rows_todo i (Nat.zero_le _) (hsq i hi)
    rw [if_pos hi, phyRowAt_full _ _ _ _ _ (by omega) (by rw [W.txt_len i hi]; exact Nat.le_refl _)] at this
    rw [this, W.row_enc i hi]
  have hcons : ∀ k, k < 5 → st.cons.getD k none = (consF m).getD k none := by
    intro k hk
    have := hfr.cons k hk
    rw [if_neg (Nat.not_lt_zero k), consVal_full m hp ha1 k] at this
    rw [List.getD_eq_getElem?_getD]
    show ((annOf st).cons[k]?).getD none = _
    rw [this]; rfl
  have c0 := hcons 0 (by omega)
  have c1 := hcons 1 (by omega)
  have c2 := hcons 2 (by omega)
  have c3 := hcons 3 (by omega)
  have c4 := hcons 4 (by omega)
  have e_hasw : st.hasw = false := hfr.hasw
  have e_name : st.name = m.name := hfr.name
  have e_desc : st.desc = m.desc := hfr.desc
  have e_acc : st.acc = m.acc := hfr.acc
  have e_au : st.au = m.au := hfr.au
  have e_sqacc : st.sqacc = none := hfr.sqacc
  have e_sqdesc : st.sqdesc = none := hfr.sqdesc
  have e_per : st.per = List.replicate 3 none := hfr.per
  have e_cut : st.cutset = cutsetOf m := hfr.cutset
  have e_com : st.comments = m.comments := hfr.comments
  have e_gf : st.gf = m.gf := hfr.gf
  have e_gsT : st.gsTags = [] := hfr.gsTags
  have e_gs : st.gs = [] := hfr.gs
  have e_gcT : st.gcTags = [] := hfr.gcTags
  have e_gc : st.gc = [] := hfr.gc
  have e_grT : st.grTags = [] := hfr.grTags
  have e_gr : st.gr = [] := hfr.gr
  unfold stoFinal
  simp only [hnb, hn0, Bool.false_eq_true, if_false, hfind, e_hasw]
  congr 1
  unfold stoMsa stoProject
  simp only [hnseq, hrows, hnames, h.alen, e_hasw, e_name, e_desc, e_acc, e_au, c0, c1, c2, c3, c4, e_sqacc, e_sqdesc, e_per,
    e_cut, e_com, e_gf, e_gsT, e_gs, e_gcT, e_gc, e_grT, e_gr]
  obtain ⟨a1, a2, a3, a4, a5, a6, a8, a9, a10, _, _, _, _, _, _, _, _⟩ := hp
  rcases m with ⟨digital, kp, alen, names, aseq, ax, hasw, wgt, name, desc, acc, au, ssCons, saCons, ppCons, rf, mm, sqacc, sqdesc,
    ss, sa, pp, cutoff, comments, gf, gs, gc, gr⟩
  simp only at a1 a2 a3 a4 a5 a6 a8 a9 a10
  subst a1 a2 a3 a4 a5 a6 a8 a9 a10
  simp [Msa.nseq, consF]

/-! ## the round trip -/

/-- **Stockholm / Pfam round trip on lines** (names, rows, `#=GC` consensus lines, `#=GF ID/AC/DE/AU`) -/
theorem stoRead_writeLines (pfam : Bool) (abc : Option Abc) (cfg : Cfg) (enc : UInt8 → UInt8) (txt : Nat → Bytes) (m : Msa)
    (W : StoWritable abc cfg enc txt m) :
    stockholmRead cfg (stockholmBodyLines pfam abc m ++ [[47, 47]]) = (.ok (stoProject cfg m), []) := by
  have ha1 := W.alen1
  have hc : 0 < stoCpl pfam m := by unfold stoCpl; split <;> omega
  rw [stoBody_ann pfam abc m W.ann W.nodup, blockStarts_cons' _ _ ha1 hc, List.flatMap_cons]
  have hhead := head_steps cfg m W.ann
  have hI0 := InBlk_init cfg enc txt m W.ann (stoW m (stoCpl pfam m) 0)
  obtain ⟨st1, hs1, h1⟩ := block_first abc cfg enc txt m W (stoCpl pfam m) _ hI0 hc
  have hw1 : 1 ≤ stoW m (stoCpl pfam m) 0 := by unfold stoW; split <;> omega
  have hnext : 0 + stoW m (stoCpl pfam m) 0 = min (stoCpl pfam m) m.alen := by unfold stoW; split <;> omega
  obtain ⟨st2, p', w', hs2, h2, he, hw'⟩ :=
    blocks_later abc cfg enc txt m W _ hc (m.alen - stoCpl pfam m) (stoCpl pfam m) (Nat.le_refl _) st1 0 _ h1 hnext hw1
  obtain ⟨st3, he3, h3⟩ := endBlock_full cfg enc txt m p' w' 0 m.nseq st2 h2 rfl W.n1 hw'
  rw [he] at h3
  have hfin := stoFinal_full abc cfg enc txt m W 0 st3 h3
  have hsteps : stepsFrom (stoStep cfg) {}
      (stoAnnHead m ++ (stoAnnBlock abc m (stoCpl pfam m) 0 ++
        (blockStartsFrom m.alen (stoCpl pfam m) (stoCpl pfam m)).flatMap (stoAnnBlock abc m (stoCpl pfam m)))) = .inl st2 := by
    rw [stepsFrom_append _ _ _ _ _ hhead, stepsFrom_append _ _ _ _ _ hs1]
    exact hs2
  unfold stockholmRead
  rw [runLines_append_inl _ _ _ _ _ _ hsteps]
  simp only [runLines, stoStep_slash cfg st2 st3 h2.fr.lead he3, hfin]

theorem lineOk_app (pre val : Bytes) (h1 : (10 : UInt8) ∉ pre) (h2 : pre.getLast? = some 32) (h3 : (10 : UInt8) ∉ val)
    (h4 : val.getLast? ≠ some 13) : lineOk (pre ++ val) := by
  constructor
  · intro h; rcases List.mem_append.mp h with h | h
    · exact h1 h
    · exact h3 h
  · rw [List.getLast?_append]
    cases hv : val.getLast? with
    | none => simp [h2]
    | some x => rw [hv] at h4; simpa using h4

theorem chunk_lineOk (c : Bytes) (hc : ChunkOk c) : (10 : UInt8) ∉ c ∧ c.getLast? ≠ some 13 := by
  refine ⟨fun h => absurd (hc.2 10 h).1 (by decide), fun h => ?_⟩
  exact absurd (hc.2 13 (List.mem_of_getLast? h)).1 (by decide)

theorem sp_lineOk (pre sp : Bytes) (hs : SpOk sp) : (pre ++ sp).getLast? = some 32 ∧ (10 : UInt8) ∉ sp := by
  constructor
  · rw [List.getLast?_append]
    cases hl : sp.getLast? with
    | none => exact absurd (List.getLast?_eq_none_iff.mp hl) hs.1
    | some x => rw [hs.2 x (List.mem_of_getLast? hl)]; rfl
  · intro h; exact absurd (hs.2 10 h) (by decide)

theorem gfline_ok (L : StoLayout) (tag val : Bytes) (ht : (10 : UInt8) ∉ tag) (h3 : (10 : UInt8) ∉ val) (h4 : val.getLast? ≠ some 13) :
    lineOk (gfLine L tag val) := by
  obtain ⟨sp, hl, hs⟩ := gfline_shape L tag val
  rw [hl, ← List.append_assoc, ← List.append_assoc]
  obtain ⟨e1, e2⟩ := sp_lineOk (bGF ++ [32] ++ tag) sp hs
  refine lineOk_app _ val ?_ e1 h3 h4
  intro h
  rcases List.mem_append.mp h with h | h
  · rcases List.mem_append.mp h with h | h
    · revert h; decide
    · exact ht h
  · exact e2 h

theorem stoLines_ok (pfam : Bool) (abc : Option Abc) (cfg : Cfg) (enc : UInt8 → UInt8) (txt : Nat → Bytes) (m : Msa)
    (W : StoWritable abc cfg enc txt m) : ∀ l ∈ stockholmLines pfam abc m, lineOk l := by
  have hc : 0 < stoCpl pfam m := by have := W.alen1; unfold stoCpl; split <;> omega
  have hp := W.ann
  have hnil : lineOk ([] : Bytes) := ⟨by simp, by simp⟩
  have hgc : ∀ pos, pos < m.alen → ∀ g, g < 5 → ∀ l ∈ gcSlotLines m pos (stoW m (stoCpl pfam m) pos) g, lineOk l := by
    intro pos hlt g hg l hl
    have hw1 : 1 ≤ stoW m (stoCpl pfam m) pos := by unfold stoW; split <;> omega
    have hw2 : pos + stoW m (stoCpl pfam m) pos ≤ m.alen := by unfold stoW; split <;> omega
    unfold gcSlotLines at hl
    cases hs : (consF m).getD g none with
    | none => rw [hs] at hl; simp [optLine] at hl
    | some s =>
      rw [hs] at hl
      simp only [optLine, List.mem_singleton] at hl
      subst hl
      obtain ⟨sp, c, hline, hsp, hcq, _⟩ := gcline_shape m hp pos _ g hg s hs hw1 hw2
      obtain ⟨_, _, _, htag⟩ := consTag_lt g hg
      rw [hline, ← List.append_assoc, ← List.append_assoc]
      obtain ⟨e1, e2⟩ := sp_lineOk (bGC ++ [32] ++ consTag.getD g []) sp hsp
      obtain ⟨e3, e4⟩ := chunk_lineOk c hcq
      refine lineOk_app _ c ?_ e1 e3 e4
      intro h
      rcases List.mem_append.mp h with h | h
      · rcases List.mem_append.mp h with h | h
        · revert h; decide
        · exact htag h
      · exact e2 h
  have hcut : ∀ (tag : Bytes) (c1 c2 : Option UInt32), (10 : UInt8) ∉ tag → (∀ v, c1 = some v → finiteF32 v) →
      (∀ v, c2 = some v → finiteF32 v) → ∀ l ∈ cutLines (stoLayout m) tag c1 c2, lineOk l := by
    intro tag c1 c2 ht h1 h2 l hl
    rw [cutLines_eq] at hl
    cases c1 with
    | none => cases hl
    | some a =>
      have ra := fmtF1_realTok a (h1 a rfl)
      cases c2 with
      | none => simp only [List.mem_singleton] at hl; subst hl; exact gfline_ok _ _ _ ht ra.nolf ra.nocr
      | some b =>
        have rb := fmtF1_realTok b (h2 b rfl)
        simp only [List.mem_singleton] at hl; subst hl
        refine gfline_ok _ _ _ ht ?_ ?_
        · intro h
          simp only [List.mem_append, List.mem_singleton] at h
          rcases h with (h | h) | h
          · exact ra.nolf h
          · exact absurd h (by decide)
          · exact rb.nolf h
        · rw [List.getLast?_append]
          cases hb : (fmtF1 b).getLast? with
          | none => exact absurd (List.getLast?_eq_none_iff.mp hb) rb.name.1
          | some x => have := rb.nocr; rw [hb] at this; simpa using this
  intro l hl
  unfold stockholmLines at hl
  rw [stoBody_ann pfam abc m W.ann W.nodup] at hl
  rcases List.mem_append.mp hl with hl | hl
  · rcases List.mem_append.mp hl with hl | hl
    · -- header
      unfold stoAnnHead at hl
      simp only [List.mem_append, List.mem_cons, List.not_mem_nil, or_false] at hl
      rcases hl with hl | hl | hl | hl | hl | hl | hl | hl | hl | hl | hl | hl
      · subst hl; exact ⟨by decide, by decide⟩
      · obtain ⟨c, hc, rfl⟩ := List.mem_map.mp hl
        obtain ⟨_, _, h10, h13, _⟩ := hp.com_ok c hc
        refine ⟨fun h => ?_, ?_⟩
        · rcases List.mem_cons.mp h with h | h
          · exact absurd h (by decide)
          · exact h10 h
        · cases c with
          | nil => simp
          | cons x t => rw [List.getLast?_cons_cons]; exact h13
      · split at hl
        · cases hl
        · simp at hl; subst hl; exact hnil
      · cases hn : m.name with
        | none => rw [hn] at hl; simp [optLine] at hl
        | some v =>
          rw [hn] at hl; simp only [optLine, List.mem_singleton] at hl; subst hl
          have := hp.name_ok v hn
          exact gfline_ok _ _ _ (by decide) this.2.1 this.2.2
      · cases hn : m.acc with
        | none => rw [hn] at hl; simp [optLine] at hl
        | some v =>
          rw [hn] at hl; simp only [optLine, List.mem_singleton] at hl; subst hl
          have := hp.acc_ok v hn
          exact gfline_ok _ _ _ (by decide) this.2.1 this.2.2
      · cases hn : m.desc with
        | none => rw [hn] at hl; simp [optLine] at hl
        | some v =>
          rw [hn] at hl; simp only [optLine, List.mem_singleton] at hl; subst hl
          have := hp.desc_ok v hn
          exact gfline_ok _ _ _ (by decide) this.2.2.1 this.2.2.2
      · cases hn : m.au with
        | none => rw [hn] at hl; simp [optLine] at hl
        | some v =>
          rw [hn] at hl; simp only [optLine, List.mem_singleton] at hl; subst hl
          have := hp.au_ok v hn
          exact gfline_ok _ _ _ (by decide) this.2.2.1 this.2.2.2
      · exact hcut bGA _ _ (by decide) (hp.cut_ok 2) (hp.cut_ok 3) l hl
      · exact hcut bNC _ _ (by decide) (hp.cut_ok 4) (hp.cut_ok 5) l hl
      · exact hcut bTC _ _ (by decide) (hp.cut_ok 0) (hp.cut_ok 1) l hl
      · obtain ⟨t, ht, rfl⟩ := List.mem_map.mp hl
        have := hp.gf_ok t ht
        exact gfline_ok _ _ _ this.1.2.1 this.2.2.2.1 this.2.2.2.2
      · subst hl; exact hnil
    · obtain ⟨pos, hpos, hl⟩ := List.mem_flatMap.mp hl
      have hlt := blockStarts_lt _ _ pos hpos
      unfold stoAnnBlock at hl
      rcases List.mem_append.mp hl with hl | hl
      · split at hl
        · simp at hl; subst hl; exact hnil
        · simp at hl
      · rcases List.mem_append.mp hl with hl | hl
        · obtain ⟨j, hj, rfl⟩ := List.mem_map.mp hl
          have hj' := List.mem_range.mp hj
          have hw1 : 1 ≤ stoW m (stoCpl pfam m) pos := by unfold stoW; split <;> omega
          have hw2 : pos + stoW m (stoCpl pfam m) pos ≤ m.alen := by unfold stoW; split <;> omega
          obtain ⟨sp, c, hline, hsp, hcq, _⟩ := sqline_shape abc cfg enc txt m W pos _ j hj' hw1 hw2
          rw [hline]
          have hn := W.name_ok j hj'
          obtain ⟨e1, e2⟩ := sp_lineOk (m.names.getD j []) sp hsp
          obtain ⟨e3, e4⟩ := chunk_lineOk c hcq
          refine lineOk_app _ c ?_ e1 e3 e4
          intro h
          rcases List.mem_append.mp h with h | h
          · exact hn.2.1 h
          · exact e2 h
        · rcases List.mem_append.mp hl with hl | hl
          · exact hgc pos hlt 0 (by omega) l hl
          · rcases List.mem_append.mp hl with hl | hl
            · exact hgc pos hlt 1 (by omega) l hl
            · rcases List.mem_append.mp hl with hl | hl
              · exact hgc pos hlt 2 (by omega) l hl
              · rcases List.mem_append.mp hl with hl | hl
                · exact hgc pos hlt 3 (by omega) l hl
                · exact hgc pos hlt 4 (by omega) l hl
  · simp at hl; subst hl; exact ⟨by decide, by decide⟩

/-- **Stockholm / Pfam round trip on bytes** (names, rows, `#=GC` consensus lines, `#=GF ID/AC/DE/AU`) -/
theorem stoRead_write (pfam : Bool) (abc : Option Abc) (cfg : Cfg) (enc : UInt8 → UInt8) (txt : Nat → Bytes) (m : Msa)
    (W : StoWritable abc cfg enc txt m) :
    stockholmRead cfg (splitLines (stockholmWrite pfam abc m)) = (.ok (stoProject cfg m), []) := by
  unfold stockholmWrite joinLF
  rw [splitLines_join _ (stoLines_ok pfam abc cfg enc txt m W)]
  exact stoRead_writeLines pfam abc cfg enc txt m W

end EaselModel.Msafile
