import EaselModel.Msafile.A2mWritable
/-! A2M: reading what `esl_msafile_a2m_Write` wrote gives the alignment back (C03) for alignments WITH insert columns:
    the dotless output holds upper-case residues / `-` in consensus columns and lower-case residues (or nothing) in insert
    columns; the reader counts the inserted residues of every record between consecutive consensus columns, takes the maximum
    over the records and pads every run of inserts on its right up to that maximum. -/
namespace EaselModel.Msafile

/-! ## the writer's row loop: the written characters of a row, cut into 60-character pieces -/

/-- the characters `esl_msafile_a2m_Write` prints for sequence `i` (all lines of the record concatenated) -/
def a2mWr (abc : Option Abc) (m : Msa) (i : Nat) : Bytes := (List.range m.alen).filterMap (a2mChar abc m i)

theorem chunks60_full (b X : Bytes) (h : b.length = 60) : chunks60 (b ++ X) = b :: chunks60 X := by
  by_cases hX : X = []
  · subst hX
    rw [List.append_nil, chunks60_nil, chunks60_short b (by omega) (by intro h0; subst h0; simp at h)]
  · have hl : 60 < (b ++ X).length := by
      have : 0 < X.length := List.length_pos_iff.mpr hX
      simp only [List.length_append]; omega
    rw [chunks60_long _ hl]
    have h1 : (b ++ X).take 60 = b := by rw [← h, List.take_left]
    have h2 : (b ++ X).drop 60 = X := by rw [← h, List.drop_left]
    rw [h1, h2]

theorem a2mSeqLoop_filterMap (abc : Option Abc) (m : Msa) (i : Nat) :
    ∀ (ps : List Nat) (buf : Bytes), buf.length ≤ 60 →
      a2mSeqLoop abc m i ps buf = chunks60 (buf.reverse ++ ps.filterMap (a2mChar abc m i)) := by
  intro ps
  induction ps with
  | nil =>
    intro buf hb
    unfold a2mSeqLoop
    by_cases he : buf = []
    · subst he; simp [chunks60_nil]
    · have h1 : buf.isEmpty = false := by cases buf with | nil => exact absurd rfl he | cons _ _ => rfl
      simp only [h1, Bool.false_eq_true, if_false, List.filterMap_nil, List.append_nil]
      rw [chunks60_short _ (by simpa using hb) (by simpa using he)]
  | cons p ps ih =>
    intro buf hb
    unfold a2mSeqLoop
    simp only [a2mCpl]
    by_cases hf : buf.length ≥ 60
    · have hlen : buf.reverse.length = 60 := by simp only [List.length_reverse]; omega
      simp only [hf, if_true, List.singleton_append]
      cases hc : a2mChar abc m i p with
      | none =>
        simp only [List.filterMap_cons, hc]
        rw [ih [] (by simp), chunks60_full _ _ hlen]
        simp
      | some c =>
        simp only [List.filterMap_cons, hc]
        rw [ih [c] (by simp), chunks60_full _ _ hlen]
        simp
    · simp only [hf, if_false, List.nil_append]
      cases hc : a2mChar abc m i p with
      | none =>
        simp only [List.filterMap_cons, hc]
        rw [ih buf hb]
      | some c =>
        simp only [List.filterMap_cons, hc]
        rw [ih (c :: buf) (by simp only [List.length_cons]; omega)]
        simp

theorem a2mSeqLines_wr (abc : Option Abc) (m : Msa) (i : Nat) :
    a2mSeqLoop abc m i (List.range m.alen) [] = chunks60 (a2mWr abc m i) := by
  rw [a2mSeqLoop_filterMap abc m i _ [] (by simp)]
  simp [a2mWr]

/-! ## character classes -/

/-- a character the writer prints in an insert column: a lower-case letter other than `o` -/
def insChar (t : UInt8) : Prop := isLower t = true ∧ a2mSkip t = false

/-- a character of a written row -/
def wrChar (t : UInt8) : Prop := consChar t ∨ insChar t

def wrClassB : Bool :=
  (List.range 256).all fun n =>
    let t := UInt8.ofNat n
    (!(isLower t) || (!isUpper t && t != 45 && !isSpace t && t != 62 && t != 0)) && (!(isUpper t || t == 45) || !isLower t)

theorem wrClassB_true : wrClassB = true := by decide +kernel

theorem isLower_facts (t : UInt8) (h : isLower t = true) :
    isUpper t = false ∧ t ≠ 45 ∧ isSpace t = false ∧ t ≠ 62 ∧ t ≠ 0 := by
  have h1 := (List.all_eq_true.mp wrClassB_true) t.toNat (List.mem_range.mpr t.toNat_lt)
  simp only [UInt8.ofNat_toNat, h] at h1
  obtain ⟨⟨⟨⟨⟨a, b⟩, c⟩, d⟩, e⟩, _⟩ : ((((isUpper t = false ∧ ¬t = 45) ∧ isSpace t = false) ∧ ¬t = 62) ∧ ¬t = 0) ∧ isUpper t = false ∧ ¬t = 45 := by
    simpa using h1
  exact ⟨a, b, c, d, e⟩

theorem consChar_notLower (t : UInt8) (h : consChar t) : isLower t = false := by
  have h1 := (List.all_eq_true.mp wrClassB_true) t.toNat (List.mem_range.mpr t.toNat_lt)
  simp only [UInt8.ofNat_toNat] at h1
  have h2 : (isUpper t || t == 45) = true := by
    rcases h.1 with hu | he
    · simp [hu]
    · simp [he]
  rw [h2] at h1
  simp only [Bool.and_eq_true] at h1
  simpa using h1.2

theorem wrChar_skip (t : UInt8) (h : wrChar t) : a2mSkip t = false := by
  rcases h with h | h
  · exact h.2
  · exact h.2

theorem wrChar_plain (t : UInt8) (h : wrChar t) : isSpace t = false ∧ t ≠ 62 := by
  rcases h with h | h
  · exact consChar_plain t h
  · have := isLower_facts t h.1
    exact ⟨this.2.2.1, this.2.2.2.1⟩

theorem wrChar_notLower (t : UInt8) (h : wrChar t) (hl : isLower t = false) : consChar t := by
  rcases h with h | h
  · exact h
  · rw [h.1] at hl; exact absurd hl (by simp)

/-- number of consensus characters (anything but a lower-case letter) of a written row -/
def consCount (w : Bytes) : Nat := w.countP fun t => !isLower t

/-- the `csflag` values of a written row -/
def flagsOf (w : Bytes) : List Bool := w.map fun t => !isLower t

@[simp] theorem consCount_nil : consCount [] = 0 := rfl
@[simp] theorem flagsOf_nil : flagsOf [] = [] := rfl
@[simp] theorem flagsOf_length (w : Bytes) : (flagsOf w).length = w.length := by simp [flagsOf]
theorem flagsOf_append (a b : Bytes) : flagsOf (a ++ b) = flagsOf a ++ flagsOf b := by simp [flagsOf]
theorem consCount_append (a b : Bytes) : consCount (a ++ b) = consCount a + consCount b := by simp [consCount]
theorem consCount_le (w : Bytes) : consCount w ≤ w.length := by unfold consCount; exact List.countP_le_length

theorem consCount_cons_lower (t : UInt8) (w : Bytes) (h : isLower t = true) : consCount (t :: w) = consCount w := by
  simp [consCount, h]

theorem consCount_cons_notLower (t : UInt8) (w : Bytes) (h : isLower t = false) : consCount (t :: w) = consCount w + 1 := by
  simp [consCount, h]

/-- `this_nins[0..this_ncons-1]` and `this_nins[this_ncons]` after the characters `w`, from `A`, `n` -/
def runsL : List Nat → Nat → Bytes → List Nat × Nat
  | A, n, [] => (A, n)
  | A, n, t :: w => if isLower t then runsL A (n + 1) w else runsL (A ++ [n]) 0 w

theorem runsL_append (w1 : Bytes) : ∀ (A : List Nat) (n : Nat) (w2 : Bytes),
    runsL A n (w1 ++ w2) = runsL (runsL A n w1).1 (runsL A n w1).2 w2 := by
  induction w1 with
  | nil => intro A n w2; simp [runsL]
  | cons t w1 ih =>
    intro A n w2
    simp only [List.cons_append, runsL]
    split
    · exact ih _ _ _
    · exact ih _ _ _

theorem runsL_length (w : Bytes) : ∀ (A : List Nat) (n : Nat), (runsL A n w).1.length = A.length + consCount w := by
  induction w with
  | nil => intro A n; simp [runsL]
  | cons t w ih =>
    intro A n
    simp only [runsL]
    cases h : isLower t with
    | true => simp only [if_true, ih, consCount_cons_lower t w h]
    | false =>
      simp only [Bool.false_eq_true, if_false, ih, consCount_cons_notLower t w h, List.length_append, List.length_singleton]
      omega

/-! ## the `csflag` / `this_nins` loop over a written piece -/

theorem csWrite_at (F X : List Bool) (alloc : Nat) (v : Bool) (hX : X.length ≤ 1) (ha : F.length < alloc) :
    csWrite (F ++ X) alloc F.length v = some (F ++ [v]) := by
  unfold csWrite
  have h1 : ¬ F.length ≥ alloc := by omega
  simp only [h1, if_false, List.length_append]
  cases X with
  | nil => simp
  | cons x X' =>
    have : X' = [] := by
      cases X' with
      | nil => rfl
      | cons _ _ => simp at hX
    subst this
    simp

theorem incAt_at (A : List Nat) (n : Nat) (Z : List Nat) : incAt (A ++ n :: Z) A.length = some (A ++ (n + 1) :: Z) := by
  unfold incAt
  simp

theorem a2mChar1_ins (alloc : Nat) (t : UInt8) (h : isLower t = true) (s : LineSt) :
    a2mChar1 alloc t s =
      some (match csWrite s.fl alloc s.spos false, incAt s.tn s.tc with
            | some fl, some tn => some { s with fl := fl, spos := s.spos + 1, tn := tn }
            | _, _ => none) := by
  unfold a2mChar1
  simp only [(isLower_facts t h).1, h, Bool.false_eq_true, if_false, if_true]
  rfl

theorem a2mChars_wr (nseq ncons alloc : Nat) (J : List Nat) :
    ∀ (p : Bytes) (F X : List Bool) (T : Nat) (A : List Nat) (n z : Nat), (∀ t ∈ p, wrChar t) → X.length ≤ 1 → A.length = T →
      consCount p ≤ z → F.length + p.length < alloc → (nseq = 0 ∨ T + consCount p ≤ ncons) →
      a2mChars nseq ncons alloc p { spos := F.length, tc := T, tn := A ++ n :: (List.replicate z 0 ++ J), fl := F ++ X }
        = .inl { spos := F.length + p.length, tc := T + consCount p,
                 tn := (runsL A n p).1 ++ (runsL A n p).2 :: (List.replicate (z - consCount p) 0 ++ J),
                 fl := F ++ flagsOf p ++ X.drop p.length } := by
  intro p
  induction p with
  | nil => intro F X T A n z _ _ _ _ _ _; simp [a2mChars, runsL]
  | cons t p ih =>
    intro F X T A n z hp hX hA hz ha hc
    have ht := hp t (by simp)
    have hp' : ∀ t' ∈ p, wrChar t' := fun t' h' => hp t' (by simp [h'])
    have hXd : X.drop (p.length + 1) = [] := List.drop_eq_nil_of_le (by omega)
    simp only [List.length_cons] at ha
    unfold a2mChars
    simp only [wrChar_skip t ht, Bool.false_eq_true, if_false]
    cases hl : isLower t with
    | true =>
      rw [consCount_cons_lower t p hl] at hz hc
      have hcond : (nseq != 0 && decide (T > ncons)) = false := by
        rcases hc with h | h
        · simp [h]
        · have : ¬ (T > ncons) := by omega
          simp [this]
      have hinc : incAt (A ++ n :: (List.replicate z 0 ++ J)) T = some (A ++ (n + 1) :: (List.replicate z 0 ++ J)) := by
        rw [← hA]; exact incAt_at A n _
      simp only [a2mChar1_ins alloc t hl, csWrite_at F X alloc false hX (by omega), hinc, hcond, Bool.false_eq_true, if_false]
      have := ih (F ++ [false]) [] T A (n + 1) z hp' (by simp) hA hz (by simp only [List.length_append, List.length_singleton]; omega) hc
      simp only [List.append_nil, List.length_append, List.length_singleton] at this
      rw [this]
      simp only [runsL, hl, if_true, consCount_cons_lower t p hl, flagsOf, List.map_cons, Bool.not_true, List.length_cons, hXd,
        List.drop_nil, List.append_nil, List.append_assoc, List.singleton_append]
      congr 2
      omega
    | false =>
      have hcc := wrChar_notLower t ht hl
      rw [consCount_cons_notLower t p hl] at hz hc
      have hcond : (nseq != 0 && decide (T + 1 > ncons)) = false := by
        rcases hc with h | h
        · simp [h]
        · have : ¬ (T + 1 > ncons) := by omega
          simp [this]
      simp only [a2mChar1_cons alloc t hcc.1, csWrite_at F X alloc true hX (by omega), Option.map_some, hcond, Bool.false_eq_true,
        if_false]
      have hz1 : List.replicate z (0 : Nat) = 0 :: List.replicate (z - 1) 0 := by
        have : z = (z - 1) + 1 := by omega
        conv => lhs; rw [this, List.replicate_succ]
      have htn : A ++ n :: (List.replicate z 0 ++ J) = (A ++ [n]) ++ 0 :: (List.replicate (z - 1) 0 ++ J) := by
        rw [hz1]; simp
      rw [htn]
      have := ih (F ++ [true]) [] (T + 1) (A ++ [n]) 0 (z - 1) hp' (by simp) (by simp [hA]) (by omega)
        (by simp only [List.length_append, List.length_singleton]; omega) (by omega)
      simp only [List.append_nil, List.length_append, List.length_singleton] at this
      rw [this]
      have e1 : z - 1 - consCount p = z - (consCount p + 1) := by omega
      simp only [runsL, hl, Bool.false_eq_true, if_false, consCount_cons_notLower t p hl, flagsOf, List.map_cons, Bool.not_false,
        List.length_cons, hXd, List.drop_nil, List.append_nil, List.append_assoc, List.singleton_append, e1]
      congr 2
      all_goals omega

theorem a2mChars_wr' (nseq ncons alloc : Nat) (J : List Nat) (p : Bytes) (F X : List Bool) (L T : Nat) (A : List Nat) (n z : Nat)
    (hL : F.length = L) (hp : ∀ t ∈ p, wrChar t) (hX : X.length ≤ 1) (hA : A.length = T)
    (hz : consCount p ≤ z) (ha : L + p.length < alloc) (hc : nseq = 0 ∨ T + consCount p ≤ ncons) :
    a2mChars nseq ncons alloc p { spos := L, tc := T, tn := A ++ n :: (List.replicate z 0 ++ J), fl := F ++ X }
      = .inl { spos := L + p.length, tc := T + consCount p,
               tn := (runsL A n p).1 ++ (runsL A n p).2 :: (List.replicate (z - consCount p) 0 ++ J),
               fl := F ++ flagsOf p ++ X.drop p.length } := by
  subst hL
  exact a2mChars_wr nseq ncons alloc J p F X T A n z hp hX hA hz ha hc

/-! ## one sequence line -/

/-- a written piece of a row: not empty, written characters only, each mapped back to `enc t` by the input map -/
structure InsPieceOk (cfg : Cfg) (enc : UInt8 → UInt8) (c : Bytes) : Prop where
  ne : c ≠ []
  wr : ∀ t ∈ c, wrChar t
  maps : ∀ t ∈ c, mapByte cfg.inmap t = (.ok, some (enc t))

theorem InsPieceOk.toPieceOk {cfg : Cfg} {enc : UInt8 → UInt8} {c : Bytes} (h : InsPieceOk cfg enc c) : PieceOk cfg enc c :=
  { ne := h.ne, maps := h.maps,
    nospace := fun t ht => (wrChar_plain t (h.wr t ht)).1,
    nogt := fun t ht => (wrChar_plain t (h.wr t ht)).2 }

theorem take_runs (A : List Nat) (n : Nat) (Z : List Nat) : (A ++ n :: Z).take (A.length + 1) = A ++ [n] := by
  rw [List.take_length_add_append]
  simp

theorem a2mSeqLine_ins (cfg : Cfg) (enc : UInt8 → UInt8) (st : A2mSt) (c : Bytes) (h : InsPieceOk cfg enc c) (w : Bytes)
    (hcur : st.cur = none ∨ ∃ codes, st.cur = some (mkRow cfg.digital codes))
    (hcodes : curCodes cfg.digital st.cur = w.map enc)
    (X : List Bool) (hfl : st.fl = flagsOf w ++ X) (hX : X.length ≤ 1)
    (htc : st.tc = consCount w)
    (z : Nat) (J : List Nat) (htn : st.tn = (runsL [] 0 w).1 ++ (runsL [] 0 w).2 :: (List.replicate z 0 ++ J))
    (hz : st.nseq ≠ 0 → consCount c ≤ z ∧ consCount w + consCount c ≤ st.ncons) :
    a2mSeqLine cfg st c = .inl { st with
        cur := some (mkRow cfg.digital ((w ++ c).map enc)),
        fl := flagsOf (w ++ c) ++ [true],
        tc := consCount (w ++ c),
        tn := (runsL [] 0 (w ++ c)).1 ++ (runsL [] 0 (w ++ c)).2 ::
                (if st.nseq == 0 then List.replicate (c.length - consCount c) 0 ++ [] else List.replicate (z - consCount c) 0 ++ J) } := by
  have hlen : rowLen cfg.digital st.cur = w.length := by
    rw [rowLen_curCodes cfg.digital st.cur hcur, hcodes, List.length_map]
  have hcat := cat_piece cfg enc st.cur c h.toPieceOk hcur
  rw [hcodes] at hcat
  have hn : 1 ≤ c.length := by
    cases c with
    | nil => exact absurd rfl h.ne
    | cons _ _ => simp
  have htake : st.fl.take (w.length + c.length + 1) = flagsOf w ++ X := by
    rw [hfl]
    apply List.take_of_length_le
    simp only [List.length_append, flagsOf_length]
    omega
  have hA : (runsL [] 0 w).1.length = consCount w := by rw [runsL_length]; simp
  have hXd : X.drop c.length = [] := List.drop_eq_nil_of_le (by omega)
  have hfin : csWrite (flagsOf w ++ flagsOf c) (w.length + c.length + 1) (w.length + c.length) true
      = some (flagsOf (w ++ c) ++ [true]) := by
    have := csWrite_at (flagsOf w ++ flagsOf c) [] (w.length + c.length + 1) true (by simp) (by simp)
    simpa [flagsOf_append] using this
  have hrl : runsL [] 0 (w ++ c) = runsL (runsL [] 0 w).1 (runsL [] 0 w).2 c := runsL_append w [] 0 c
  have hccl := consCount_le c
  unfold a2mSeqLine
  simp only [hlen, htake]
  by_cases h0 : st.nseq = 0
  · have hT : (if st.tn.length < st.tc + 1 then none else some (st.tn.take (st.tc + 1) ++ List.replicate c.length 0))
        = some ((runsL [] 0 w).1 ++ (runsL [] 0 w).2 :: (List.replicate c.length 0 ++ [])) := by
      rw [htn, htc, ← hA, take_runs]
      have : ¬ (((runsL [] 0 w).1 ++ (runsL [] 0 w).2 :: (List.replicate z 0 ++ J)).length < (runsL [] 0 w).1.length + 1) := by
        simp only [List.length_append, List.length_cons]; omega
      simp only [this, if_false, List.append_nil, List.append_assoc, List.singleton_append]
    simp only [h0, beq_self_eq_true, if_true, hT]
    simp only [htc]
    rw [a2mChars_wr' 0 st.ncons _ [] c (flagsOf w) X w.length (consCount w) _ _ c.length (flagsOf_length w) h.wr hX hA hccl
      (by omega) (Or.inl rfl)]
    simp only [hXd, List.append_nil, hfin, hcat, hrl, consCount_append, List.map_append]
  · have hT : (st.nseq == 0) = false := by simpa using h0
    obtain ⟨hz1, hz2⟩ := hz h0
    simp only [hT, Bool.false_eq_true, if_false, htn, htc]
    rw [a2mChars_wr' st.nseq st.ncons _ J c (flagsOf w) X w.length (consCount w) _ _ z (flagsOf_length w) h.wr hX hA hz1
      (by omega) (Or.inr hz2)]
    simp only [hXd, List.append_nil, hfin, hcat, hrl, consCount_append, List.map_append]

/-! ## rows as runs of inserts separated by consensus characters -/

/-- a written row cut at its consensus characters: the inserts before the first consensus character, then every
    consensus character with the inserts that follow it -/
def splitRow : Bytes → Bytes × List (UInt8 × Bytes)
  | [] => ([], [])
  | t :: w => if isLower t then (t :: (splitRow w).1, (splitRow w).2) else ([], (t, (splitRow w).1) :: (splitRow w).2)

/-- the number of inserts in every run (`this_nins[0..ncons]`) -/
def segLens (s : Bytes × List (UInt8 × Bytes)) : List Nat := s.1.length :: s.2.map fun cr => cr.2.length

def segFlags (s : Bytes × List (UInt8 × Bytes)) : List Bool :=
  List.replicate s.1.length false ++ s.2.flatMap fun cr => true :: List.replicate cr.2.length false

def segJoin (s : Bytes × List (UInt8 × Bytes)) : Bytes := s.1 ++ s.2.flatMap fun cr => cr.1 :: cr.2

def segMap (enc : UInt8 → UInt8) (s : Bytes × List (UInt8 × Bytes)) : Bytes × List (UInt8 × Bytes) :=
  (s.1.map enc, s.2.map fun cr => (enc cr.1, cr.2.map enc))

theorem splitRow_flags (w : Bytes) : flagsOf w = segFlags (splitRow w) := by
  induction w with
  | nil => rfl
  | cons t w ih =>
    cases h : isLower t with
    | true => simp [flagsOf, splitRow, h, segFlags, List.replicate_succ] at ih ⊢; exact ih
    | false => simp [flagsOf, splitRow, h, segFlags] at ih ⊢; exact ih

theorem splitRow_join (enc : UInt8 → UInt8) (w : Bytes) : w.map enc = segJoin (segMap enc (splitRow w)) := by
  induction w with
  | nil => rfl
  | cons t w ih =>
    cases h : isLower t with
    | true => simp [splitRow, h, segJoin, segMap] at ih ⊢; exact ih
    | false => simp [splitRow, h, segJoin, segMap] at ih ⊢; exact ih

theorem splitRow_rest_length (w : Bytes) : (splitRow w).2.length = consCount w := by
  induction w with
  | nil => rfl
  | cons t w ih =>
    cases h : isLower t with
    | true => simp [splitRow, h, consCount_cons_lower t w h, ih]
    | false => simp [splitRow, h, consCount_cons_notLower t w h, ih]

theorem segLens_length (w : Bytes) : (segLens (splitRow w)).length = consCount w + 1 := by
  simp [segLens, splitRow_rest_length]

/-- the reader's left-to-right count is the run lengths of the cut row -/
theorem runsL_segLens (w : Bytes) : ∀ (A : List Nat) (n : Nat),
    (runsL A n w).1 ++ [(runsL A n w).2] = A ++ ((n + (splitRow w).1.length) :: (splitRow w).2.map fun cr => cr.2.length) := by
  induction w with
  | nil => intro A n; simp [runsL, splitRow]
  | cons t w ih =>
    intro A n
    cases h : isLower t with
    | true =>
      simp only [runsL, h, if_true, splitRow, List.length_cons, ih]
      have : n + 1 + (splitRow w).1.length = n + ((splitRow w).1.length + 1) := by omega
      rw [this]
    | false =>
      simp only [runsL, h, Bool.false_eq_true, if_false, splitRow, List.length_nil, ih, List.map_cons, Nat.add_zero, Nat.zero_add,
        List.append_assoc, List.singleton_append]

theorem runsL_runLens (w : Bytes) : (runsL [] 0 w).1 ++ [(runsL [] 0 w).2] = segLens (splitRow w) := by
  rw [runsL_segLens w [] 0]
  simp [segLens]

/-! ## the padding phase -/

/-- a run of inserts padded on its right to `n` columns -/
def padRun (gap : UInt8) (n : Nat) (r : Bytes) : Bytes := r ++ List.replicate (n - r.length) gap

def padRest (gap : UInt8) : List Nat → List (UInt8 × Bytes) → Bytes
  | n :: ns, cr :: rest => cr.1 :: padRun gap n cr.2 ++ padRest gap ns rest
  | _, _ => []

/-- the aligned row: every run of inserts padded to the width `nins[cpos]` of its block of insert columns -/
def padSegs (gap : UInt8) (nins : List Nat) (s : Bytes × List (UInt8 × Bytes)) : Bytes :=
  match nins with
  | [] => []
  | n0 :: ns => padRun gap n0 s.1 ++ padRest gap ns s.2

/-- the `rf` line: `.` over every block of insert columns, `x` on every consensus column -/
def rfOf (nins : List Nat) : Bytes :=
  match nins with
  | [] => []
  | n0 :: ns => List.replicate n0 46 ++ ns.flatMap fun n => 120 :: List.replicate n 46

/-- `a ≤ b` entry by entry, same length -/
def leAll : List Nat → List Nat → Prop
  | [], [] => True
  | a :: as, b :: bs => a ≤ b ∧ leAll as bs
  | _, _ => False

theorem leAll_length : ∀ (a b : List Nat), leAll a b → a.length = b.length
  | [], [], _ => rfl
  | _ :: as, _ :: bs, h => by simp [leAll_length as bs h.2]
  | [], _ :: _, h => absurd h (by simp [leAll])
  | _ :: _, [], h => absurd h (by simp [leAll])

theorem leAll_zipWith_right : ∀ (a b : List Nat), a.length = b.length → leAll b (List.zipWith max a b)
  | [], [], _ => trivial
  | x :: as, y :: bs, h => ⟨Nat.le_max_right x y, leAll_zipWith_right as bs (by simpa using h)⟩
  | [], _ :: _, h => absurd h (by simp)
  | _ :: _, [], h => absurd h (by simp)

theorem leAll_zipWith_left : ∀ (l a b : List Nat), a.length = b.length → leAll l a → leAll l (List.zipWith max a b)
  | [], [], [], _, _ => trivial
  | u :: l, x :: as, y :: bs, h, hl =>
    ⟨Nat.le_trans hl.1 (Nat.le_max_left x y), leAll_zipWith_left l as bs (by simpa using h) hl.2⟩
  | [], _ :: _, _, _, hl => absurd hl (by simp [leAll])
  | _ :: _, [], _, _, hl => absurd hl (by simp [leAll])
  | _ :: _, _ :: _, [], h, _ => absurd h (by simp)
  | [], [], _ :: _, h, _ => absurd h (by simp)

theorem zipWith_max_zeros : ∀ (l : List Nat), List.zipWith max (List.replicate l.length 0) l = l
  | [] => rfl
  | x :: l => by simp [List.replicate_succ, zipWith_max_zeros l]

theorem padFill_ok (size : Nat) (gap : UInt8) : ∀ (k : Nat) (acc : Bytes), acc.length + k ≤ size →
    padFill size gap k acc = some (List.replicate k gap ++ acc) := by
  intro k
  induction k with
  | zero => intro acc _; simp [padFill]
  | succ k ih =>
    intro acc h
    have hlt : acc.length < size := by omega
    simp only [padFill, hlt, if_true]
    rw [ih (gap :: acc) (by simp only [List.length_cons]; omega), List.replicate_succ']
    simp

theorem padCopy_run (size : Nat) (fl : List Bool) (old : Bytes) : ∀ (r : Bytes) (ic : Nat) (acc : Bytes), acc.length + r.length ≤ size →
    padCopy size (List.replicate r.length false ++ true :: fl) (r ++ old) ic acc
      = some (true :: fl, old, ic + r.length, r.reverse ++ acc) := by
  intro r
  induction r with
  | nil => intro ic acc _; simp [padCopy]
  | cons x r ih =>
    intro ic acc h
    simp only [List.length_cons] at h
    have hlt : acc.length < size := by omega
    simp only [List.length_cons, List.replicate_succ, List.cons_append, padCopy, hlt, if_true]
    rw [ih (ic + 1) (x :: acc) (by simp only [List.length_cons]; omega)]
    simp [Nat.add_assoc, Nat.add_comm 1]

theorem padRun_length (gap : UInt8) (n : Nat) (r : Bytes) (h : r.length ≤ n) : (padRun gap n r).length = n := by
  simp [padRun]; omega

theorem padRest_length (gap : UInt8) : ∀ (ns : List Nat) (rest : List (UInt8 × Bytes)),
    leAll (rest.map fun cr => cr.2.length) ns → (padRest gap ns rest).length = ns.sum + ns.length
  | [], [], _ => rfl
  | n :: ns, cr :: rest, h => by
    have h1 : cr.2.length ≤ n := h.1
    simp only [padRest, List.length_cons, List.length_append, padRun_length gap n cr.2 h1, padRest_length gap ns rest h.2,
      List.sum_cons]
    omega
  | [], _ :: _, h => absurd h (by simp [leAll])
  | _ :: _, [], h => absurd h (by simp [leAll])

theorem padSegs_length (gap : UInt8) (n0 : Nat) (ns : List Nat) (s : Bytes × List (UInt8 × Bytes)) (h : leAll (segLens s) (n0 :: ns)) :
    (padSegs gap (n0 :: ns) s).length = (n0 :: ns).sum + ns.length := by
  have h1 : s.1.length ≤ n0 := h.1
  simp only [padSegs, List.length_append, padRun_length gap n0 s.1 h1, padRest_length gap ns s.2 h.2, List.sum_cons]
  omega

theorem padRow_rest (size : Nat) (gap : UInt8) (tail : Bytes) : ∀ (rest : List (UInt8 × Bytes)) (ns : List Nat) (n0 : Nat) (r0 acc : Bytes),
    leAll (segLens (r0, rest)) (n0 :: ns) → acc.length + (padSegs gap (n0 :: ns) (r0, rest)).length ≤ size →
    padRow size gap (n0 :: ns) (segFlags (r0, rest) ++ [true]) (segJoin (r0, rest) ++ tail) acc
      = some ((padSegs gap (n0 :: ns) (r0, rest)).reverse ++ acc) := by
  intro rest
  induction rest with
  | nil =>
    intro ns n0 r0 acc hle hsz
    have hns : ns = [] := by
      cases ns with
      | nil => rfl
      | cons _ _ => exact absurd hle.2 (by simp [leAll])
    subst hns
    have h1 : r0.length ≤ n0 := hle.1
    simp only [padSegs, padRest, List.append_nil, padRun, List.length_append, List.length_replicate] at hsz ⊢
    simp only [segFlags, segJoin, List.flatMap_nil, List.append_nil]
    rw [padRow, padCopy_run size [] tail r0 0 acc (by omega)]
    simp only [Nat.zero_add]
    rw [padFill_ok size gap (n0 - r0.length) _ (by simp only [List.length_append, List.length_reverse]; omega)]
    simp
  | cons cr rest ih =>
    intro ns n0 r0 acc hle hsz
    cases ns with
    | nil => exact absurd hle.2 (by simp [leAll])
    | cons n1 ns =>
      have h1 : r0.length ≤ n0 := hle.1
      have hle' : leAll (segLens (cr.2, rest)) (n1 :: ns) := hle.2
      have hlen' := padSegs_length gap n1 ns (cr.2, rest) hle'
      have e : padSegs gap (n0 :: n1 :: ns) (r0, cr :: rest) = padRun gap n0 r0 ++ cr.1 :: padSegs gap (n1 :: ns) (cr.2, rest) := by
        simp [padSegs, padRest]
      rw [e] at hsz ⊢
      simp only [List.length_append, List.length_cons, padRun_length gap n0 r0 h1] at hsz
      have ef : segFlags (r0, cr :: rest) ++ [true]
          = List.replicate r0.length false ++ true :: (segFlags (cr.2, rest) ++ [true]) := by
        simp [segFlags]
      have ej : segJoin (r0, cr :: rest) ++ tail = r0 ++ (cr.1 :: (segJoin (cr.2, rest) ++ tail)) := by
        simp [segJoin]
      rw [ef, ej, padRow, padCopy_run size _ _ r0 0 acc (by omega)]
      simp only [Nat.zero_add]
      rw [padFill_ok size gap (n0 - r0.length) _ (by simp only [List.length_append, List.length_reverse]; omega)]
      have hlt : (List.replicate (n0 - r0.length) gap ++ (r0.reverse ++ acc)).length < size := by
        simp only [List.length_append, List.length_replicate, List.length_reverse]; omega
      simp only [hlt, if_true, List.drop_succ_cons, List.drop_zero]
      rw [ih ns n1 cr.2 _ hle' (by
        simp only [List.length_cons, List.length_append, List.length_replicate, List.length_reverse]; omega)]
      simp [padRun]

theorem rfOf_length (n0 : Nat) (ns : List Nat) : (rfOf (n0 :: ns)).length = (n0 :: ns).sum + ns.length := by
  induction ns generalizing n0 with
  | nil => simp [rfOf]
  | cons n1 ns ih =>
    have := ih n1
    simp only [rfOf, List.length_append, List.length_replicate, List.flatMap_cons, List.length_cons, List.sum_cons] at this ⊢
    omega

theorem padRf_ok (size : Nat) : ∀ (ns : List Nat) (n0 : Nat) (acc : Bytes), acc.length + (rfOf (n0 :: ns)).length ≤ size →
    padRf size (n0 :: ns) acc = some ((rfOf (n0 :: ns)).reverse ++ acc) := by
  intro ns
  induction ns with
  | nil =>
    intro n0 acc h
    simp only [rfOf, List.flatMap_nil, List.append_nil, List.length_replicate] at h ⊢
    rw [padRf, padFill_ok size 46 n0 acc h]
    simp
  | cons n1 ns ih =>
    intro n0 acc h
    have e : rfOf (n0 :: n1 :: ns) = List.replicate n0 46 ++ 120 :: rfOf (n1 :: ns) := by simp [rfOf]
    rw [e] at h ⊢
    simp only [List.length_append, List.length_replicate, List.length_cons] at h
    rw [padRf, padFill_ok size 46 n0 acc (by omega)]
    have hlt : (List.replicate n0 (46 : UInt8) ++ acc).length < size := by
      simp only [List.length_append, List.length_replicate]; omega
    simp only [hlt, if_true]
    rw [ih n1 _ (by simp only [List.length_cons, List.length_append, List.length_replicate]; omega)]
    simp

theorem segFlags_map (enc : UInt8 → UInt8) (s : Bytes × List (UInt8 × Bytes)) : segFlags (segMap enc s) = segFlags s := by
  simp [segFlags, segMap, List.flatMap_map]

theorem segLens_map (enc : UInt8 → UInt8) (s : Bytes × List (UInt8 × Bytes)) : segLens (segMap enc s) = segLens s := by
  simp [segLens, segMap, Function.comp_def]

theorem padRow_segs (size : Nat) (gap : UInt8) (tail : Bytes) (n0 : Nat) (ns : List Nat) (s : Bytes × List (UInt8 × Bytes))
    (hle : leAll (segLens s) (n0 :: ns)) (hsz : (padSegs gap (n0 :: ns) s).length ≤ size) :
    padRow size gap (n0 :: ns) (segFlags s ++ [true]) (segJoin s ++ tail) []
      = some (padSegs gap (n0 :: ns) s).reverse := by
  have := padRow_rest size gap tail s.2 ns n0 s.1 [] hle (by simpa using hsz)
  simpa using this

theorem padOne_segs (cfg : Cfg) (n0 : Nat) (ns : List Nat) (s : Bytes × List (UInt8 × Bytes)) (hle : leAll (segLens s) (n0 :: ns))
    (alen : Nat) (halen : alen = (n0 :: ns).sum + ns.length) :
    padOne cfg (n0 :: ns) alen (mkRow cfg.digital (segJoin s), segFlags s ++ [true])
      = some (mkRow cfg.digital (padSegs cfg.padSym (n0 :: ns) s)) := by
  have hlen := padSegs_length cfg.padSym n0 ns s hle
  rw [← halen] at hlen
  unfold padOne
  cases hd : cfg.digital with
  | true =>
    simp only [mkRow, if_true, List.cons_append, List.drop_succ_cons, List.drop_zero]
    rw [padRow_segs _ _ _ n0 ns s hle (by omega)]
    simp [hlen]
  | false =>
    simp only [mkRow, Bool.false_eq_true, if_false]
    rw [padRow_segs _ _ _ n0 ns s hle (by omega)]
    simp [hlen]

/-! ## the projection -/

/-- number of consensus columns -/
def a2mNcons (abc : Option Abc) (m : Msa) : Nat := ((List.range m.alen).filter (isConsensusCol abc m)).length

/-- the number of inserted residues of sequence `i` before the first consensus column and after each consensus column -/
def a2mRunLens (abc : Option Abc) (m : Msa) (i : Nat) : List Nat := segLens (splitRow (a2mWr abc m i))

/-- `nins[0..ncons]` after the first `k` records: the maximum over them -/
def a2mNinsUpTo (abc : Option Abc) (m : Msa) : Nat → List Nat
  | 0 => List.replicate (a2mNcons abc m + 1) 0
  | k + 1 => List.zipWith max (a2mNinsUpTo abc m k) (a2mRunLens abc m k)

/-- the width of every block of insert columns of the alignment read back -/
def a2mNins (abc : Option Abc) (m : Msa) : List Nat := a2mNinsUpTo abc m m.nseq

def a2mInsRowCodes (abc : Option Abc) (cfg : Cfg) (enc : UInt8 → UInt8) (m : Msa) (i : Nat) : Bytes :=
  padSegs cfg.padSym (a2mNins abc m) (segMap enc (splitRow (a2mWr abc m i)))

def a2mInsRow (abc : Option Abc) (cfg : Cfg) (enc : UInt8 → UInt8) (m : Msa) (i : Nat) : Bytes :=
  mkRow cfg.digital (a2mInsRowCodes abc cfg enc m i)

/-- everything A2M represents of an alignment: names, descriptions, default weights, the consensus columns (upper-case
    residues, `-` for every gap-like symbol, `O` as the unknown residue) and, between consecutive consensus columns (and
    before the first / after the last), a block of insert columns as wide as the longest run of inserted residues any sequence
    has there, in which every sequence's inserted residues (lower case in text mode) are left-justified and padded with
    `.` (text) / the gap code (digital); `rf` = `x` on consensus columns, `.` on insert columns.  All-gap insert columns vanish. -/
def a2mProjectIns (abc : Option Abc) (cfg : Cfg) (enc : UInt8 → UInt8) (m : Msa) : Msa :=
  { digital := cfg.digital, kp := cfg.kp, alen := a2mNcons abc m + (a2mNins abc m).sum, names := m.names,
    aseq := if cfg.digital then [] else (List.range m.nseq).map (a2mInsRow abc cfg enc m),
    ax := if cfg.digital then (List.range m.nseq).map (a2mInsRow abc cfg enc m) else [],
    hasw := false, wgt := List.replicate m.nseq Wgt.dflt,
    rf := some (rfOf (a2mNins abc m)),
    sqdesc := padOptRows (afaDescs m m.nseq) m.nseq }

/-- an alignment that `esl_msafile_a2m_Write` + `esl_msafile_a2m_Read` (configuration `cfg`) carry: in a consensus column
    every cell is printed as an upper-case letter (not `O`) or `-`, in an insert column as a lower-case letter (not `o`) or not
    at all; the input map sends every printed character `c` to `enc c`.  (A record may print no character at all.) -/
structure A2mInsWritable (abc : Option Abc) (cfg : Cfg) (enc : UInt8 → UInt8) (m : Msa) : Prop where
  n1 : 1 ≤ m.nseq
  acc_none : m.sqacc = none
  name_ok : ∀ i, i < m.nseq → nameOk (m.names.getD i [])
  desc_ok : ∀ i, i < m.nseq → ∀ d, optAt m.sqdesc i = some d → descOk d
  hdr_line : ∀ i, i < m.nseq → lineOk (a2mHeader m i)
  cons_char : ∀ i, i < m.nseq → ∀ pos, pos < m.alen → isConsensusCol abc m pos = true →
    ∃ c, a2mChar abc m i pos = some c ∧ consChar c ∧ mapByte cfg.inmap c = (.ok, some (enc c))
  ins_char : ∀ i, i < m.nseq → ∀ pos, pos < m.alen → isConsensusCol abc m pos = false →
    ∀ c, a2mChar abc m i pos = some c → insChar c ∧ mapByte cfg.inmap c = (.ok, some (enc c))

section
variable {abc : Option Abc} {cfg : Cfg} {enc : UInt8 → UInt8} {m : Msa}

theorem A2mInsWritable.wr (h : A2mInsWritable abc cfg enc m) (i : Nat) (hi : i < m.nseq) :
    ∀ t ∈ a2mWr abc m i, wrChar t ∧ mapByte cfg.inmap t = (.ok, some (enc t)) := by
  intro t ht
  obtain ⟨pos, hp, he⟩ := List.mem_filterMap.mp ht
  have hp' := List.mem_range.mp hp
  cases hc : isConsensusCol abc m pos with
  | true =>
    obtain ⟨c, h1, h2, h3⟩ := h.cons_char i hi pos hp' hc
    rw [h1] at he
    cases he
    exact ⟨Or.inl h2, h3⟩
  | false =>
    have := h.ins_char i hi pos hp' hc t he
    exact ⟨Or.inr this.1, this.2⟩

theorem consCount_filterMap (h : A2mInsWritable abc cfg enc m) (i : Nat) (hi : i < m.nseq) :
    ∀ ps : List Nat, (∀ p ∈ ps, p < m.alen) →
      consCount (ps.filterMap (a2mChar abc m i)) = (ps.filter (isConsensusCol abc m)).length := by
  intro ps
  induction ps with
  | nil => intro _; rfl
  | cons p ps ih =>
    intro hps
    have hp := hps p (by simp)
    have ih' := ih (fun q hq => hps q (by simp [hq]))
    cases hc : isConsensusCol abc m p with
    | true =>
      obtain ⟨c, h1, h2, _⟩ := h.cons_char i hi p hp hc
      simp only [List.filterMap_cons, h1, List.filter_cons, hc, if_true, List.length_cons,
        consCount_cons_notLower c _ (consChar_notLower c h2), ih']
    | false =>
      cases ha : a2mChar abc m i p with
      | none => simp only [List.filterMap_cons, ha, List.filter_cons, hc, Bool.false_eq_true, if_false, ih']
      | some c =>
        have := (h.ins_char i hi p hp hc c ha).1
        simp only [List.filterMap_cons, ha, List.filter_cons, hc, Bool.false_eq_true, if_false, consCount_cons_lower c _ this.1, ih']

theorem A2mInsWritable.ncons (h : A2mInsWritable abc cfg enc m) (i : Nat) (hi : i < m.nseq) :
    consCount (a2mWr abc m i) = a2mNcons abc m :=
  consCount_filterMap h i hi (List.range m.alen) (fun _ hp => List.mem_range.mp hp)

theorem a2mInsPieces_ok (h : A2mInsWritable abc cfg enc m) (i : Nat) (hi : i < m.nseq) :
    ∀ c ∈ chunks60 (a2mWr abc m i), InsPieceOk cfg enc c := by
  intro c hc
  have hmem := chunks60_mem _ c hc
  exact { ne := chunks60_ne _ c hc,
          wr := fun t ht => (h.wr i hi t (hmem t ht)).1,
          maps := fun t ht => (h.wr i hi t (hmem t ht)).2 }

theorem a2mRunLens_length (h : A2mInsWritable abc cfg enc m) (i : Nat) (hi : i < m.nseq) :
    (a2mRunLens abc m i).length = a2mNcons abc m + 1 := by
  rw [a2mRunLens, segLens_length, h.ncons i hi]

theorem a2mNinsUpTo_length (h : A2mInsWritable abc cfg enc m) : ∀ k, k ≤ m.nseq → (a2mNinsUpTo abc m k).length = a2mNcons abc m + 1 := by
  intro k
  induction k with
  | zero => intro _; simp [a2mNinsUpTo]
  | succ k ih =>
    intro hk
    simp only [a2mNinsUpTo, List.length_zipWith, ih (by omega), a2mRunLens_length h k (by omega), Nat.min_self]

theorem a2mRunLens_le (h : A2mInsWritable abc cfg enc m) : ∀ k, k ≤ m.nseq → ∀ i, i < k →
    leAll (a2mRunLens abc m i) (a2mNinsUpTo abc m k) := by
  intro k
  induction k with
  | zero => intro _ i hi; omega
  | succ k ih =>
    intro hk i hi
    have hl : (a2mNinsUpTo abc m k).length = (a2mRunLens abc m k).length := by
      rw [a2mNinsUpTo_length h k (by omega), a2mRunLens_length h k (by omega)]
    by_cases hik : i = k
    · subst hik
      exact leAll_zipWith_right _ _ hl
    · exact leAll_zipWith_left _ _ _ hl (ih (by omega) i (by omega))

end

/-! ## all the sequence lines of a record -/

/-- the reader inside a record of which the written characters `w` were read so far -/
def insSt (d : Bool) (enc : UInt8 → UInt8) (st0 : A2mSt) (w : Bytes) (Z : List Nat) : A2mSt :=
  { st0 with cur := some (mkRow d (w.map enc)), fl := flagsOf w ++ [true], tc := consCount w,
             tn := (runsL [] 0 w).1 ++ (runsL [] 0 w).2 :: Z }

theorem a2mStep_wr (cfg : Cfg) (st : A2mSt) (c : Bytes) (hl : st.lead = false) (hne : c ≠ [])
    (hc : ∀ t ∈ c, wrChar t) : a2mStep cfg st c = a2mSeqLine cfg st c := by
  cases c with
  | nil => exact absurd rfl hne
  | cons t ts =>
    have hp := wrChar_plain t (hc t (by simp))
    have hgt : (t == 62) = false := by simpa using hp.2
    have hdw : (t :: ts).dropWhile isSpace = t :: ts := by simp [List.dropWhile, hp.1]
    unfold a2mStep
    simp only [hl, Bool.false_eq_true, if_false, hdw, hgt]

/-- what is left of `this_nins[]` behind the cell `[this_ncons]` after one more line -/
def insZ (st0 : A2mSt) (c : Bytes) (z : Nat) (J : List Nat) : List Nat :=
  if st0.nseq == 0 then List.replicate (c.length - consCount c) 0 ++ [] else List.replicate (z - consCount c) 0 ++ J

theorem insStep_next (cfg : Cfg) (enc : UInt8 → UInt8) (st0 : A2mSt) (w c : Bytes) (z : Nat) (J : List Nat)
    (h : InsPieceOk cfg enc c) (hl : st0.lead = false)
    (hz : st0.nseq ≠ 0 → consCount c ≤ z ∧ consCount w + consCount c ≤ st0.ncons) :
    a2mStep cfg (insSt cfg.digital enc st0 w (List.replicate z 0 ++ J)) c
      = .inl (insSt cfg.digital enc st0 (w ++ c) (insZ st0 c z J)) := by
  rw [a2mStep_wr cfg (insSt cfg.digital enc st0 w (List.replicate z 0 ++ J)) c
    (show (insSt cfg.digital enc st0 w (List.replicate z 0 ++ J)).lead = false from hl) h.ne h.wr]
  rw [a2mSeqLine_ins cfg enc (insSt cfg.digital enc st0 w (List.replicate z 0 ++ J)) c h w (Or.inr ⟨_, rfl⟩)
    (by simp [insSt]) [true] rfl (by simp) rfl z J rfl hz]
  rfl

theorem insStep_first (cfg : Cfg) (enc : UInt8 → UInt8) (st0 : A2mSt) (c : Bytes) (z : Nat) (J : List Nat)
    (h : InsPieceOk cfg enc c) (hl : st0.lead = false) (hcur : st0.cur = none) (hfl : st0.fl = []) (htc : st0.tc = 0)
    (htn : st0.tn = 0 :: (List.replicate z 0 ++ J))
    (hz : st0.nseq ≠ 0 → consCount c ≤ z ∧ consCount c ≤ st0.ncons) :
    a2mStep cfg st0 c = .inl (insSt cfg.digital enc st0 c (insZ st0 c z J)) := by
  rw [a2mStep_wr cfg _ c hl h.ne h.wr]
  rw [a2mSeqLine_ins cfg enc st0 c h [] (Or.inl hcur) (by rw [hcur]; simp) [] (by rw [hfl]; rfl) (by simp) (by rw [htc]; rfl) z J
    (by rw [htn]; rfl) (fun h0 => by have := hz h0; simp only [consCount_nil, Nat.zero_add]; exact this)]
  rfl

theorem insSteps_pieces (cfg : Cfg) (enc : UInt8 → UInt8) (st0 : A2mSt) (hl : st0.lead = false) :
    ∀ (cs : List Bytes) (w : Bytes) (z : Nat) (J : List Nat), (∀ c ∈ cs, InsPieceOk cfg enc c) →
      (st0.nseq ≠ 0 → consCount w + consCount cs.flatten ≤ st0.ncons ∧ z = st0.ncons - consCount w) →
      ∃ Z, stepsFrom (a2mStep cfg) (insSt cfg.digital enc st0 w (List.replicate z 0 ++ J)) cs
        = .inl (insSt cfg.digital enc st0 (w ++ cs.flatten) Z) := by
  intro cs
  induction cs with
  | nil => intro w z J _ _; exact ⟨List.replicate z 0 ++ J, by simp [stepsFrom]⟩
  | cons c cs ih =>
    intro w z J hcs hz
    have hcs' : ∀ c' ∈ cs, InsPieceOk cfg enc c' := fun c' hc' => hcs c' (by simp [hc'])
    simp only [stepsFrom]
    rw [insStep_next cfg enc st0 w c z J (hcs c (by simp)) hl (fun h0 => by
      have := hz h0
      simp only [List.flatten_cons, consCount_append] at this
      omega)]
    simp only
    by_cases h0 : st0.nseq = 0
    · have e : insZ st0 c z J = List.replicate (c.length - consCount c) 0 ++ [] := by simp [insZ, h0]
      rw [e]
      obtain ⟨Z, hZ⟩ := ih (w ++ c) _ [] hcs' (fun h1 => absurd h0 h1)
      exact ⟨Z, by rw [hZ]; simp [List.append_assoc]⟩
    · have e : insZ st0 c z J = List.replicate (z - consCount c) 0 ++ J := by simp [insZ, h0]
      rw [e]
      obtain ⟨Z, hZ⟩ := ih (w ++ c) (z - consCount c) J hcs' (fun _ => by
        have := hz h0
        simp only [List.flatten_cons, consCount_append] at this ⊢
        omega)
      exact ⟨Z, by rw [hZ]; simp [List.append_assoc]⟩

/-- from the state the header line leaves, over all the pieces of the row -/
theorem insSteps_row (cfg : Cfg) (enc : UInt8 → UInt8) (st0 : A2mSt) (cs : List Bytes) (hne : cs ≠ [])
    (hcs : ∀ c ∈ cs, InsPieceOk cfg enc c) (z : Nat) (J : List Nat)
    (hl : st0.lead = false) (hcur : st0.cur = none) (hfl : st0.fl = []) (htc : st0.tc = 0)
    (htn : st0.tn = 0 :: (List.replicate z 0 ++ J))
    (hz : st0.nseq ≠ 0 → consCount cs.flatten ≤ st0.ncons ∧ z = st0.ncons) :
    ∃ Z, stepsFrom (a2mStep cfg) st0 cs = .inl (insSt cfg.digital enc st0 cs.flatten Z) := by
  cases cs with
  | nil => exact absurd rfl hne
  | cons c cs =>
    have hcs' : ∀ c' ∈ cs, InsPieceOk cfg enc c' := fun c' hc' => hcs c' (by simp [hc'])
    simp only [stepsFrom]
    rw [insStep_first cfg enc st0 c z J (hcs c (by simp)) hl hcur hfl htc htn (fun h0 => by
      have := hz h0
      simp only [List.flatten_cons, consCount_append] at this
      omega)]
    simp only
    by_cases h0 : st0.nseq = 0
    · have e : insZ st0 c z J = List.replicate (c.length - consCount c) 0 ++ [] := by simp [insZ, h0]
      rw [e]
      obtain ⟨Z, hZ⟩ := insSteps_pieces cfg enc st0 hl cs c _ [] hcs' (fun h1 => absurd h0 h1)
      exact ⟨Z, by rw [hZ]; simp⟩
    · have e : insZ st0 c z J = List.replicate (z - consCount c) 0 ++ J := by simp [insZ, h0]
      rw [e]
      obtain ⟨Z, hZ⟩ := insSteps_pieces cfg enc st0 hl cs c (z - consCount c) J hcs' (fun _ => by
        have := hz h0
        simp only [List.flatten_cons, consCount_append] at this ⊢
        omega)
      exact ⟨Z, by rw [hZ]; simp⟩

/-! ## the records one after the other -/

/-- record `i` as the reader keeps it until the padding phase: the unaligned row and its `csflag` row (with sentinel) -/
def a2mInsRec (abc : Option Abc) (cfg : Cfg) (enc : UInt8 → UInt8) (m : Msa) (i : Nat) : Bytes × List Bool :=
  (mkRow cfg.digital ((a2mWr abc m i).map enc), flagsOf (a2mWr abc m i) ++ [true])

/-- the reader just after the name line of record `k` -/
structure InsStarted (abc : Option Abc) (cfg : Cfg) (enc : UInt8 → UInt8) (m : Msa) (k : Nat) (st : A2mSt) : Prop where
  lead : st.lead = false
  names : st.names = m.names.take (k + 1)
  recs : st.recs = (List.range k).map (a2mInsRec abc cfg enc m)
  nseq : st.nseq = k
  alloc : st.nseq < st.sqalloc
  descs : st.sqdesc = afaDescs m (k + 1)
  cur : st.cur = none
  fl : st.fl = []
  tc : st.tc = 0
  tn : ∃ z J, st.tn = 0 :: (List.replicate z 0 ++ J) ∧ (k ≠ 0 → z = a2mNcons abc m)
  later : k ≠ 0 → st.ncons = a2mNcons abc m ∧ st.nins = a2mNinsUpTo abc m k

/-- the reader after the lines of records `0 … j` (record `j` not closed yet) -/
structure InsAfter (abc : Option Abc) (cfg : Cfg) (enc : UInt8 → UInt8) (m : Msa) (j : Nat) (st : A2mSt) : Prop where
  lead : st.lead = false
  names : st.names = m.names.take (j + 1)
  recs : st.recs = (List.range j).map (a2mInsRec abc cfg enc m)
  nseq : st.nseq = j
  alloc : st.nseq < st.sqalloc
  descs : st.sqdesc = afaDescs m (j + 1)
  curfl : (a2mWr abc m j ≠ [] ∧ st.cur = some (mkRow cfg.digital ((a2mWr abc m j).map enc)) ∧
             st.fl = flagsOf (a2mWr abc m j) ++ [true]) ∨
          (a2mWr abc m j = [] ∧ st.cur = none ∧ st.fl = [])      -- a record without sequence lines
  tc : st.tc = a2mNcons abc m
  tn : ∃ Z, st.tn = (runsL [] 0 (a2mWr abc m j)).1 ++ (runsL [] 0 (a2mWr abc m j)).2 :: Z
  later : j ≠ 0 → st.ncons = a2mNcons abc m ∧ st.nins = a2mNinsUpTo abc m j

/-- the reader after record `k-1` was closed -/
structure InsBetw (abc : Option Abc) (cfg : Cfg) (enc : UInt8 → UInt8) (m : Msa) (k : Nat) (st : A2mSt) : Prop where
  lead : st.lead = false
  names : st.names = m.names.take k
  recs : st.recs = (List.range k).map (a2mInsRec abc cfg enc m)
  nseq : st.nseq = k
  alloc : st.nseq ≤ st.sqalloc ∧ 0 < st.sqalloc
  descs : st.sqdesc = afaDescs m k
  ncons : st.ncons = a2mNcons abc m
  nins : st.nins = a2mNinsUpTo abc m k
  tnlen : a2mNcons abc m + 1 ≤ st.tn.length

section
variable {abc : Option Abc} {cfg : Cfg} {enc : UInt8 → UInt8} {m : Msa}

/-- the sequence lines of record `k` -/
theorem insStarted_after (h : A2mInsWritable abc cfg enc m) (k : Nat) (hk : k < m.nseq) (st0 : A2mSt)
    (hs : InsStarted abc cfg enc m k st0) :
    ∃ st, stepsFrom (a2mStep cfg) st0 (a2mSeqLoop abc m k (List.range m.alen) []) = .inl st ∧
      InsAfter abc cfg enc m k st := by
  have hp := a2mInsPieces_ok h k hk
  obtain ⟨z, J, htn, hz⟩ := hs.tn
  by_cases hW : a2mWr abc m k = []
  · refine ⟨st0, by rw [a2mSeqLines_wr, hW, chunks60_nil]; rfl, ?_⟩
    have hnc := h.ncons k hk
    rw [hW] at hnc
    exact
      { lead := hs.lead, names := hs.names, recs := hs.recs, nseq := hs.nseq, alloc := hs.alloc, descs := hs.descs,
        curfl := Or.inr ⟨hW, hs.cur, hs.fl⟩, tc := by rw [hs.tc, ← hnc]; rfl,
        tn := ⟨List.replicate z 0 ++ J, by rw [htn, hW]; rfl⟩,
        later := fun h0 => hs.later h0 }
  have hpne : chunks60 (a2mWr abc m k) ≠ [] := by
    intro h0
    have := chunks60_flatten (a2mWr abc m k)
    rw [h0] at this
    exact hW this.symm
  have hflat : (chunks60 (a2mWr abc m k)).flatten = a2mWr abc m k := chunks60_flatten _
  obtain ⟨Z, hsteps⟩ := insSteps_row cfg enc st0 _ hpne hp z J hs.lead hs.cur hs.fl hs.tc htn
    (fun h0 => by
      have hk0 : k ≠ 0 := by rw [← hs.nseq]; exact h0
      rw [hflat, h.ncons k hk, (hs.later hk0).1]
      exact ⟨Nat.le_refl _, hz hk0⟩)
  rw [hflat] at hsteps
  refine ⟨_, by rw [a2mSeqLines_wr]; exact hsteps, ?_⟩
  exact
    { lead := hs.lead, names := hs.names, recs := hs.recs, nseq := hs.nseq, alloc := hs.alloc, descs := hs.descs,
      curfl := Or.inl ⟨hW, rfl, rfl⟩, tc := h.ncons k hk, tn := ⟨Z, rfl⟩,
      later := fun h0 => hs.later h0 }

theorem take_runs' (A : List Nat) (n : Nat) (Z : List Nat) (N : Nat) (hN : A.length = N) : (A ++ n :: Z).take (N + 1) = A ++ [n] := by
  subst hN; exact take_runs A n Z

/-- closing record `j` -/
theorem insAfter_finish (h : A2mInsWritable abc cfg enc m) (j : Nat) (hj : j < m.nseq) (st : A2mSt)
    (hs : InsAfter abc cfg enc m j st) :
    ∃ st', a2mFinishRecord cfg st = .inl st' ∧ InsBetw abc cfg enc m (j + 1) st' := by
  obtain ⟨Z, htn⟩ := hs.tn
  have hc : (if (rowLen cfg.digital st.cur == 0) = true then some (if cfg.digital = true then [dsqSENTINEL, dsqSENTINEL] else [])
      else st.cur) = some (a2mInsRec abc cfg enc m j).1 := by
    rcases hs.curfl with ⟨hne, hcur, _⟩ | ⟨hW, hcur, _⟩
    · have h0 : ((a2mWr abc m j).length == 0) = false := by
        have : 0 < (a2mWr abc m j).length := List.length_pos_iff.mpr hne
        simp; omega
      rw [hcur, rowLen_mkRow, List.length_map, h0]
      rfl
    · rw [hcur]
      simp only [rowLen, beq_self_eq_true, if_true, a2mInsRec, hW, List.map_nil, mkRow]
      cases cfg.digital <;> rfl
  have hf : (if (rowLen cfg.digital st.cur == 0) = true then [true] else st.fl) = (a2mInsRec abc cfg enc m j).2 := by
    rcases hs.curfl with ⟨hne, hcur, hfl⟩ | ⟨hW, hcur, _⟩
    · have h0 : ((a2mWr abc m j).length == 0) = false := by
        have : 0 < (a2mWr abc m j).length := List.length_pos_iff.mpr hne
        simp; omega
      rw [hcur, rowLen_mkRow, List.length_map, h0, hfl]
      rfl
    · rw [hcur]
      simp only [rowLen, beq_self_eq_true, if_true, a2mInsRec, hW, flagsOf_nil, List.nil_append]
  have hA : (runsL [] 0 (a2mWr abc m j)).1.length = a2mNcons abc m := by rw [runsL_length, h.ncons j hj]; simp
  have htake : st.tn.take (a2mNcons abc m + 1) = a2mRunLens abc m j := by
    rw [htn, take_runs' _ _ _ _ hA, runsL_runLens]; rfl
  have htl : a2mNcons abc m + 1 ≤ st.tn.length := by
    rw [htn]; simp only [List.length_append, List.length_cons, hA]; omega
  have hrecs : st.recs ++ [a2mInsRec abc cfg enc m j] = (List.range (j + 1)).map (a2mInsRec abc cfg enc m) := by
    rw [hs.recs, List.range_succ]; simp
  have halloc : st.nseq + 1 ≤ st.sqalloc ∧ 0 < st.sqalloc := by have := hs.alloc; omega
  by_cases hj0 : j = 0
  · have hn0 : st.nseq = 0 := by rw [hs.nseq, hj0]
    have htl' : ¬ (st.tn.length < st.tc + 1) := by rw [hs.tc]; omega
    refine ⟨{ st with ncons := st.tc, nins := st.tn.take (st.tc + 1),
                      recs := st.recs ++ [((a2mInsRec abc cfg enc m j).1, (a2mInsRec abc cfg enc m j).2)], nseq := st.nseq + 1,
                      cur := none, fl := [] }, ?_, ?_⟩
    · unfold a2mFinishRecord
      simp only [hc, hf, hn0, beq_self_eq_true, if_true, htl', if_false]
    · exact
        { lead := hs.lead, names := hs.names,
          recs := hrecs,
          nseq := by show st.nseq + 1 = j + 1; rw [hs.nseq],
          alloc := halloc, descs := hs.descs, ncons := hs.tc,
          nins := by
            show st.tn.take (st.tc + 1) = _
            rw [hs.tc, htake, hj0]
            have hl := a2mRunLens_length h 0 (by omega)
            show _ = List.zipWith max (List.replicate (a2mNcons abc m + 1) 0) (a2mRunLens abc m 0)
            rw [← hl, zipWith_max_zeros],
          tnlen := htl }
  · obtain ⟨hnc, hni⟩ := hs.later hj0
    have hn0 : (st.nseq == 0) = false := by rw [hs.nseq]; simpa using hj0
    have htc : (st.tc != st.ncons) = false := by rw [hs.tc, hnc]; simp
    have hnl : st.nins.length = a2mNcons abc m + 1 := by rw [hni, a2mNinsUpTo_length h j (by omega)]
    have htl2 : (decide (st.tn.length < st.ncons + 1) || decide (st.nins.length < st.ncons + 1)) = false := by
      rw [hnc, hnl]
      have : ¬ (st.tn.length < a2mNcons abc m + 1) := by omega
      simp [this]
    refine ⟨{ st with nins := List.zipWith max (st.nins.take (st.ncons + 1)) (st.tn.take (st.ncons + 1)),
                      recs := st.recs ++ [((a2mInsRec abc cfg enc m j).1, (a2mInsRec abc cfg enc m j).2)], nseq := st.nseq + 1,
                      cur := none, fl := [] }, ?_, ?_⟩
    · unfold a2mFinishRecord
      simp only [hc, hf, hn0, Bool.false_eq_true, if_false, htc, htl2]
    · exact
        { lead := hs.lead, names := hs.names,
          recs := hrecs,
          nseq := by show st.nseq + 1 = j + 1; rw [hs.nseq],
          alloc := halloc, descs := hs.descs, ncons := hnc,
          nins := by
            show List.zipWith max (st.nins.take (st.ncons + 1)) (st.tn.take (st.ncons + 1)) = _
            rw [hnc, htake, List.take_of_length_le (by omega), hni]
            rfl,
          tnlen := htl }

theorem a2mInsHeader_eq (hacc : m.sqacc = none) (i : Nat) :
    a2mHeader m i = headerOf (m.names.getD i []) (optAt m.sqdesc i) := by
  have hacc' : optRow m.sqacc i = none := by simp [optRow, hacc]
  have hd : optRow m.sqdesc i = optAt m.sqdesc i := rfl
  unfold a2mHeader headerOf
  rw [hacc', hd]
  cases optAt m.sqdesc i <;> simp

/-- the name line of record `k ≥ 1` -/
theorem insBetw_start (h : A2mInsWritable abc cfg enc m) (k : Nat) (_hk0 : k ≠ 0) (hk : k < m.nseq) (st : A2mSt)
    (hs : InsBetw abc cfg enc m k st) :
    ∃ st0, a2mStartRecord st (a2mHeader m k) = .inl st0 ∧ InsStarted abc cfg enc m k st0 := by
  have hlen := hs.tnlen
  have htne : st.tn.isEmpty = false := by
    cases htn : st.tn with
    | nil => rw [htn] at hlen; simp at hlen
    | cons _ _ => rfl
  have htn1 : (if st.tn.isEmpty then [0] else st.tn) = st.tn := by simp [htne]
  have hstart := a2mStartRecord_header st (m.names.getD k []) (optAt m.sqdesc k) (h.name_ok k hk) (h.desc_ok k hk) hs.alloc
    (by rw [htn1, hs.ncons]; exact hlen)
  rw [← a2mInsHeader_eq h.acc_none k] at hstart
  refine ⟨_, hstart, ?_⟩
  exact
    { lead := rfl,
      names := by show st.names ++ [m.names.getD k []] = _; rw [hs.names]; exact names_take_succ k hk,
      recs := hs.recs, nseq := hs.nseq,
      alloc := by
        show st.nseq < expandAlloc st.nseq st.sqalloc
        have := hs.alloc
        unfold expandAlloc
        split <;> omega,
      descs := by
        show setOptRowO st.sqdesc st.nseq (optAt m.sqdesc k) = afaDescs m (k + 1)
        rw [hs.nseq, hs.descs]; simp only [afaDescs],
      cur := rfl, fl := rfl, tc := rfl,
      tn := ⟨a2mNcons abc m, st.tn.drop (a2mNcons abc m + 1), by
        show List.replicate (st.ncons + 1) 0 ++ (if st.tn.isEmpty then [0] else st.tn).drop (st.ncons + 1) = _
        rw [htn1, hs.ncons, List.replicate_succ]; rfl, fun _ => rfl⟩,
      later := fun _ => ⟨hs.ncons, hs.nins⟩ }

/-- the name line of the first record -/
theorem insInit_start (h : A2mInsWritable abc cfg enc m) :
    ∃ st0, a2mStartRecord {} (a2mHeader m 0) = .inl st0 ∧ InsStarted abc cfg enc m 0 st0 := by
  have hk : 0 < m.nseq := h.n1
  have hstart := a2mStartRecord_header {} (m.names.getD 0 []) (optAt m.sqdesc 0) (h.name_ok 0 hk) (h.desc_ok 0 hk)
    ⟨by decide, by decide⟩ (by decide)
  rw [← a2mInsHeader_eq h.acc_none 0] at hstart
  refine ⟨_, hstart, ?_⟩
  exact
    { lead := rfl,
      names := by show [] ++ [m.names.getD 0 []] = _; exact names_take_succ 0 hk,
      recs := rfl, nseq := rfl,
      alloc := by show 0 < expandAlloc 0 16; decide,
      descs := by show setOptRowO none 0 (optAt m.sqdesc 0) = afaDescs m 1; simp [afaDescs],
      cur := rfl, fl := rfl, tc := rfl,
      tn := ⟨0, [], rfl, fun h0 => absurd rfl h0⟩,
      later := fun h0 => absurd rfl h0 }

/-- the lines of one more record, from inside the previous record -/
theorem insSteps_record (h : A2mInsWritable abc cfg enc m) (j : Nat) (hk : j + 1 < m.nseq) (st : A2mSt)
    (hst : InsAfter abc cfg enc m j st) :
    ∃ st', stepsFrom (a2mStep cfg) st (a2mRecLines abc m (j + 1)) = .inl st' ∧ InsAfter abc cfg enc m (j + 1) st' := by
  obtain ⟨st1, hfin, hb⟩ := insAfter_finish h j (by omega) st hst
  obtain ⟨st0, hstart, hs0⟩ := insBetw_start h (j + 1) (by omega) hk st1 hb
  obtain ⟨st', hsteps, ha⟩ := insStarted_after h (j + 1) hk st0 hs0
  have hhdr : a2mStep cfg st (a2mHeader m (j + 1)) = .inl st0 := by
    rw [← hstart, a2mInsHeader_eq h.acc_none (j + 1)]
    show a2mStep cfg st (62 :: _) = _
    rw [a2mStep_gt cfg st _ hst.lead, hfin]
    rfl
  refine ⟨st', ?_, ha⟩
  show stepsFrom (a2mStep cfg) st (a2mHeader m (j + 1) :: a2mSeqLoop abc m (j + 1) (List.range m.alen) []) = _
  simp only [stepsFrom, hhdr]
  exact hsteps

/-- the lines of the first record, from the initial state -/
theorem insSteps_first (h : A2mInsWritable abc cfg enc m) :
    ∃ st', stepsFrom (a2mStep cfg) {} (a2mRecLines abc m 0) = .inl st' ∧ InsAfter abc cfg enc m 0 st' := by
  obtain ⟨st0, hstart, hs0⟩ := insInit_start (abc := abc) (cfg := cfg) (enc := enc) h
  obtain ⟨st', hsteps, ha⟩ := insStarted_after h 0 h.n1 st0 hs0
  have hhdr : a2mStep cfg {} (a2mHeader m 0) = .inl st0 := by
    rw [← hstart, a2mInsHeader_eq h.acc_none 0]
    show a2mStep cfg {} (62 :: _) = _
    rw [a2mStep_gt_lead cfg {} _ rfl]
    rfl
  refine ⟨st', ?_, ha⟩
  show stepsFrom (a2mStep cfg) {} (a2mHeader m 0 :: a2mSeqLoop abc m 0 (List.range m.alen) []) = _
  simp only [stepsFrom, hhdr]
  exact hsteps

/-- all the lines of the first `j + 1` records -/
theorem insSteps_records (h : A2mInsWritable abc cfg enc m) :
    ∀ j, j < m.nseq →
      ∃ st, stepsFrom (a2mStep cfg) {} ((List.range (j + 1)).flatMap (a2mRecLines abc m)) = .inl st ∧ InsAfter abc cfg enc m j st := by
  intro j
  induction j with
  | zero => intro _; simpa using insSteps_first h
  | succ j ih =>
    intro hk
    obtain ⟨st, hs, hst⟩ := ih (by omega)
    obtain ⟨st', hs', hst'⟩ := insSteps_record h j hk st hst
    refine ⟨st', ?_, hst'⟩
    rw [List.range_succ, List.flatMap_append]
    rw [stepsFrom_append (a2mStep cfg) _ _ {} st hs]
    simpa using hs'

end

/-! ## the padding phase and the round trip -/

section
variable {abc : Option Abc} {cfg : Cfg} {enc : UInt8 → UInt8} {m : Msa}

theorem a2mPad_insBetw (h : A2mInsWritable abc cfg enc m) (st : A2mSt) (hs : InsBetw abc cfg enc m m.nseq st) :
    a2mPad cfg st = .ok (a2mProjectIns abc cfg enc m) := by
  have hnl : (a2mNins abc m).length = a2mNcons abc m + 1 := a2mNinsUpTo_length h m.nseq (Nat.le_refl _)
  obtain ⟨n0, ns, hn⟩ : ∃ n0 ns, a2mNins abc m = n0 :: ns := by
    cases hh : a2mNins abc m with
    | nil => rw [hh] at hnl; simp at hnl
    | cons a b => exact ⟨a, b, rfl⟩
  have hnins : st.nins = n0 :: ns := by rw [hs.nins, ← hn]; rfl
  have hnsl : ns.length = a2mNcons abc m := by rw [hn] at hnl; simpa using hnl
  have hl : ¬ (st.nins.length < a2mNcons abc m + 1) := by rw [hnins]; simp only [List.length_cons]; omega
  have htake : st.nins.take (a2mNcons abc m + 1) = n0 :: ns := by
    rw [hnins, List.take_of_length_le (by simp only [List.length_cons]; omega)]
  have halen : a2mNcons abc m + (n0 :: ns).sum = (n0 :: ns).sum + ns.length := by omega
  have hrfl := rfOf_length n0 ns
  have hrf : padRf (a2mNcons abc m + (n0 :: ns).sum + 1) (n0 :: ns) [] = some (rfOf (n0 :: ns)).reverse := by
    rw [padRf_ok _ ns n0 [] (by simp only [List.length_nil]; omega)]; simp
  have hall : padAll cfg (n0 :: ns) (a2mNcons abc m + (n0 :: ns).sum) st.recs
      = some ((List.range m.nseq).map (a2mInsRow abc cfg enc m)) := by
    rw [hs.recs]
    apply padAll_map
    intro i hi
    have hi' := List.mem_range.mp hi
    have hle : leAll (segLens (segMap enc (splitRow (a2mWr abc m i)))) (n0 :: ns) := by
      rw [segLens_map, ← hn]; exact a2mRunLens_le h m.nseq (Nat.le_refl _) i hi'
    have := padOne_segs cfg n0 ns (segMap enc (splitRow (a2mWr abc m i))) hle _ halen
    rw [segFlags_map, ← splitRow_flags, ← splitRow_join] at this
    rw [a2mInsRow, a2mInsRowCodes, hn]
    exact this
  have hnames : st.names = m.names := by rw [hs.names]; exact List.take_length
  have hgt : ¬ ((rfOf (n0 :: ns)).reverse.length > a2mNcons abc m + (n0 :: ns).sum) := by
    simp only [List.length_reverse]; omega
  unfold a2mPad
  simp only [hs.ncons, hl, if_false, htake, hrf, hall, hgt, List.reverse_reverse, hnames, hs.nseq, hs.descs,
    a2mProjectIns, hn]

/-- end of input after the last record -/
theorem a2mFinish_insAfter (h : A2mInsWritable abc cfg enc m) (st : A2mSt) (hst : InsAfter abc cfg enc m (m.nseq - 1) st) :
    a2mFinish cfg st = .ok (a2mProjectIns abc cfg enc m) := by
  have hn1 := h.n1
  obtain ⟨st1, hfin, hb⟩ := insAfter_finish h (m.nseq - 1) (by omega) st hst
  have e : m.nseq - 1 + 1 = m.nseq := by omega
  rw [e] at hb
  unfold a2mFinish
  simp only [hst.lead, Bool.false_eq_true, if_false, hfin]
  exact a2mPad_insBetw h st1 hb

/-- **A2M round trip on lines, alignments with insert columns** -/
theorem a2mRead_writeLines_ins (h : A2mInsWritable abc cfg enc m) :
    a2mRead cfg (a2mLines abc m) = (.ok (a2mProjectIns abc cfg enc m), []) := by
  have hn1 := h.n1
  obtain ⟨st, hs, hst⟩ := insSteps_records h (m.nseq - 1) (by omega)
  have e : m.nseq - 1 + 1 = m.nseq := by omega
  rw [e] at hs
  unfold a2mRead a2mLines
  have := runLines_append_inl (a2mStep cfg) (a2mFinish cfg) _ [] {} st hs
  rw [List.append_nil] at this
  rw [this]
  simp [runLines, a2mFinish_insAfter h st hst]

theorem a2mLines_ok_ins (h : A2mInsWritable abc cfg enc m) : ∀ l ∈ a2mLines abc m, lineOk l := by
  intro l hl
  unfold a2mLines at hl
  rw [List.mem_flatMap] at hl
  obtain ⟨i, hi, hl⟩ := hl
  have hi' : i < m.nseq := List.mem_range.mp hi
  unfold a2mRecLines at hl
  rcases List.mem_cons.mp hl with hl | hl
  · subst hl; exact h.hdr_line i hi'
  · rw [a2mSeqLines_wr] at hl
    have hp := a2mInsPieces_ok h i hi' l hl
    have hns : ∀ t ∈ l, isSpace t = false := fun t ht => (wrChar_plain t (hp.wr t ht)).1
    constructor
    · intro h10
      have := hns 10 h10
      simp [isSpace] at this
    · intro h13
      have hm : (13 : UInt8) ∈ l := List.mem_of_getLast? h13
      have := hns 13 hm
      simp [isSpace] at this

/-- **A2M round trip on bytes, alignments with insert columns** -/
theorem a2mRead_write_ins (h : A2mInsWritable abc cfg enc m) :
    a2mRead cfg (splitLines (a2mWrite abc m)) = (.ok (a2mProjectIns abc cfg enc m), []) := by
  unfold a2mWrite joinLF
  rw [splitLines_join _ (a2mLines_ok_ins h)]
  exact a2mRead_writeLines_ins h

end

end EaselModel.Msafile
