import EaselModel.Msafile.WriteFmt
/-! # Clustal / Clustal-like writer: `esl_msafile_clustal_Write`, `make_text_consensus_line`,
    `make_digital_consensus_line`, `matches_group_digital` of `esl_msafile_clustal.c` -/
namespace EaselModel.Msafile

/-- `for (n = 0, tmpv = v; tmpv; n++) tmpv &= tmpv-1`: number of bits set -/
def popCount (v : Nat) : Nat :=
  if _h : v = 0 then 0 else v % 2 + popCount (v / 2)
termination_by v
decreasing_by omega

/-- the bit a text residue sets: `x = toupper(c) - 'A'; (x >= 0 && x < 26) ? 1<<x : 1<<26`
    (`char` is signed: bytes ≥ 0x80 give a negative `x`) -/
def textBit (c : UInt8) : Nat :=
  let u := toUpper c
  if 65 ≤ u && u ≤ 90 then 1 <<< (u.toNat - 65) else 1 <<< 26

/-- `v[apos]` of `make_text_consensus_line` -/
def textColMask (m : Msa) (apos : Nat) : Nat :=
  (List.range m.nseq).foldl (fun v idx => v ||| textBit (aseqAt m idx apos)) 0

/-- `make_text_consensus_line` -/
def textConsensusLine (m : Msa) : Bytes :=
  let maxv := (1 <<< 26) - 1
  (List.range m.alen).map fun apos =>
    let v := textColMask m apos
    if popCount v == 1 && v < maxv then 42 else 32

/-- `v[apos]` of `make_digital_consensus_line` (`pos` = `apos - 1`) -/
def digitalColMask (m : Msa) (pos : Nat) : Nat :=
  (List.range m.nseq).foldl (fun v idx => v ||| (1 <<< (axAt m idx pos).toNat)) 0

/-- `matches_group_digital(abc, v, group)`: `esl_abc_DigitizeSymbol(abc, c)` is `abc->inmap[c]` -/
def matchesGroup (a : Abc) (v : Nat) (group : String) : Bool :=
  let gv := (str group).foldl (fun g c => g ||| (1 <<< (a.inmap.getD c.toNat dsqILLEGAL).toNat)) 0
  (v &&& gv) == v

def strongGroups : List String := ["STA", "NEQK", "NHQK", "NDEQ", "QHRK", "MILV", "MILF", "HY", "FYW"]
def weakGroups : List String := ["CSA", "ATV", "SAG", "STNK", "STPA", "SGND", "SNDEQK", "NDEQHK", "NEQHRK", "FVLIM", "HFY"]

/-- one character of the digital consensus line -/
def digitalConsChar (a : Abc) (v : Nat) : UInt8 :=
  let n := popCount v
  let maxv := (1 <<< a.k) - 1
  if n == 0 || n > 6 then 32
  else if v > maxv then 32
  else if n == 1 then 42
  else if a.type == 3 then
    if strongGroups.any (matchesGroup a v) then 58
    else if weakGroups.any (matchesGroup a v) then 46
    else 32
  else 32

/-- `make_digital_consensus_line` (`Kp ≤ 32` for the three biosequence alphabets, the eslEINVAL branch is out of reach) -/
def digitalConsensusLine (a : Abc) (m : Msa) : Bytes :=
  (List.range m.alen).map fun pos => digitalConsChar a (digitalColMask m pos)

def consensusLine (abc : Option Abc) (m : Msa) : Bytes :=
  match abc with
  | some a => digitalConsensusLine a m
  | none => textConsensusLine m

def clustalCpl : Nat := 60

/-- the magic header; `ver` = EASEL_VERSION -/
def clustalHeader (like : Bool) (ver : Bytes) : Bytes :=
  if like then str "EASEL (" ++ ver ++ str ") multiple sequence alignment"
  else str "CLUSTAL 2.1 multiple sequence alignment"

/-- one block: blank line, the rows, the consensus line under an empty name -/
def clustalBlockLines (abc : Option Abc) (m : Msa) (maxnamelen : Nat) (cons : Bytes) (apos : Nat) : List Bytes :=
  [[]]
  ++ (List.range m.nseq).map (fun i => padRight maxnamelen (m.names.getD i []) ++ [32] ++ seqChunk abc m i apos clustalCpl)
  ++ [padRight maxnamelen [] ++ [32] ++ strChunk cons apos clustalCpl]

def clustalLines (like : Bool) (ver : Bytes) (abc : Option Abc) (m : Msa) : List Bytes :=
  let maxnamelen := maxWidth m.names
  let cons := consensusLine abc m
  clustalHeader like ver :: (blockStarts m.alen clustalCpl).flatMap (clustalBlockLines abc m maxnamelen cons)

/-- `esl_msafile_clustal_Write(fp, msa, eslMSAFILE_CLUSTAL | eslMSAFILE_CLUSTALLIKE)` -/
def clustalWriteV (like : Bool) (ver : Bytes) (abc : Option Abc) (m : Msa) : Bytes :=
  joinLF (clustalLines like ver abc m)

end EaselModel.Msafile
