import EaselModel.Msafile.Guess
/-! # The `.gz` branch of `esl_msafile_GuessFileFormat`'s suffix rule

`esl_file_Extension(bf->filename, 0, &p, &n); if (esl_memstrcmp(p, n, ".gz")) esl_file_Extension(bf->filename, 3, &p, &n);`
— a name that ends in `.gz` is classified by the suffix BEFORE `.gz`, one level only (`x.sto.gz` is Stockholm by suffix,
`x.sto.gz.gz` and `x.gz` carry no format hint).  The file name reaches the whole open path (`guessFormat`, `openModel`,
`openModelW`) through `fmtBySuffix` alone, so the statement lifts to what `msafile_OpenBuffer` decides.
The tie: op `parse src=named tail=<hex>` opens a real file of that name with `esl_buffer_OpenFile` (which, unlike
`esl_buffer_Open`, does not pipe `.gz` names through gzip) and `esl_msafile_OpenBuffer`. -/
namespace EaselModel.Msafile

def bGz : Bytes := [46, 103, 122]     -- ".gz"

/-- the suffix-table lookup at the end of `fmtBySuffix` -/
def suffixFmt (e : Option Bytes) : Option Fmt :=
  match e with
  | none => none
  | some x => (suffixTable.find? (fun t => t.1 == x)).map (·.2)

theorem fmtBySuffix_eq (f : Bytes) :
    fmtBySuffix (some f) = suffixFmt (if fileExtension f 0 == some bGz then fileExtension f 3 else fileExtension f 0) := by
  unfold fmtBySuffix suffixFmt bGz
  rfl

/-- the extension of `f ++ ".gz"` is `.gz` -/
theorem fileExtension_gz (f : Bytes) : fileExtension (f ++ bGz) 0 = some bGz := by
  unfold fileExtension bGz
  simp only [Nat.sub_zero, List.take_length, List.reverse_append, List.reverse_cons, List.reverse_nil, List.nil_append,
    List.cons_append]
  have h : List.takeWhile (fun c : UInt8 => c != 47 && c != 46) (122 :: 103 :: 46 :: f.reverse) = [122, 103] := by
    simp [List.takeWhile]
  rw [h]
  rfl

/-- ignoring the last three characters of `f ++ ".gz"` is looking at `f` -/
theorem fileExtension_gz_ignore (f : Bytes) : fileExtension (f ++ bGz) 3 = fileExtension f 0 := by
  unfold fileExtension
  have h1 : (f ++ bGz).length - 3 = f.length := by simp [bGz]
  have h2 : (f ++ bGz).take f.length = f := by simp
  rw [h1, h2]
  simp

/-- **a `.gz` name is classified by the suffix before `.gz`, one level only** -/
theorem fmtBySuffix_gz (f : Bytes) : fmtBySuffix (some (f ++ bGz)) = suffixFmt (fileExtension f 0) := by
  rw [fmtBySuffix_eq, fileExtension_gz, fileExtension_gz_ignore]
  simp

/-- … so compressing a file name does not change its format hint, unless the name already ended in `.gz` -/
theorem fmtBySuffix_gz_same (f : Bytes) (h : fileExtension f 0 ≠ some bGz) :
    fmtBySuffix (some (f ++ bGz)) = fmtBySuffix (some f) := by
  rw [fmtBySuffix_gz, fmtBySuffix_eq]
  have : (fileExtension f 0 == some bGz) = false := by
    cases hb : (fileExtension f 0 == some bGz) with
    | false => rfl
    | true => exact absurd (by simpa using hb) h
  rw [this]; rfl

/-- a doubly compressed name carries no hint (`.gz` is not in the table) -/
theorem fmtBySuffix_gz_gz (f : Bytes) : fmtBySuffix (some (f ++ bGz ++ bGz)) = none := by
  rw [fmtBySuffix_gz, fileExtension_gz]
  decide

/-- the whole open path (`msafile_OpenBuffer`: format autodetection or declared format, alphabet, caller's name width) sees
    the file name through its format hint only -/
theorem openModelW_name (nw0 : Nat) (fsel : FmtSel) (asel : AbcSel) (f g : Bytes) (lines : List Bytes)
    (h : fmtBySuffix (some f) = fmtBySuffix (some g)) :
    openModelW nw0 fsel asel (some f) lines = openModelW nw0 fsel asel (some g) lines := by
  unfold openModelW openModel openFmt guessFormat
  rw [h]

/-- **`x.sfx.gz` opens exactly as `x.sfx`** (same format, alphabet, name width, or the same failure), for every content -/
theorem openModelW_gz (nw0 : Nat) (fsel : FmtSel) (asel : AbcSel) (f : Bytes) (lines : List Bytes)
    (h : fileExtension f 0 ≠ some bGz) :
    openModelW nw0 fsel asel (some (f ++ bGz)) lines = openModelW nw0 fsel asel (some f) lines :=
  openModelW_name nw0 fsel asel _ _ lines (fmtBySuffix_gz_same f h)

end EaselModel.Msafile
