import EaselModel.Msafile.A2mInsRoundTrip
/-! Concrete, checkable conditions under which an alignment WITH insert columns is `A2mInsWritable`: text mode, and
    digital mode with the generated amino / DNA / RNA alphabets. -/
namespace EaselModel.Msafile

/-! ## text mode -/

/-- what the writer prints for the letter `s` in an insert column -/
def a2mTextIns (s : UInt8) : UInt8 := toLower (if s == 79 || s == 111 then 88 else s)

/-- table fact: a letter in an insert column is printed as a lower-case letter other than `o`, which the text-mode A2M
    input map sends to itself -/
def a2mTextInsOk : Bool :=
  (List.range 256).all fun n =>
    let s := UInt8.ofNat n
    let c := a2mTextIns s
    !isAlpha s || (isLower c && !a2mSkip c && mapByte (a2mInmap none) c == (CatSt.ok, some c))

theorem a2mTextInsOk_true : a2mTextInsOk = true := by decide +kernel

theorem a2m_text_ins (s : UInt8) (hs : isAlpha s = true) :
    insChar (a2mTextIns s) ∧ mapByte (a2mInmap none) (a2mTextIns s) = (.ok, some (a2mTextIns s)) := by
  have h1 := (List.all_eq_true.mp a2mTextInsOk_true) s.toNat (List.mem_range.mpr s.toNat_lt)
  simp only [UInt8.ofNat_toNat, hs, Bool.not_true, Bool.false_or, Bool.and_eq_true, beq_iff_eq, Bool.not_eq_true'] at h1
  exact ⟨⟨h1.1.1, h1.1.2⟩, h1.2⟩

theorem a2mChar_text_ins (m : Msa) (i pos : Nat) (hc : isConsensusCol none m pos = false) :
    a2mChar none m i pos = if isAlpha (aseqAt m i pos) then some (a2mTextIns (aseqAt m i pos)) else none := by
  simp only [a2mChar, hc, Bool.false_eq_true, if_false, a2mTextIns]

/-- a text-mode alignment that A2M carries, insert columns included: ≥ 1 sequence, names / descriptions / name lines as for
    the other formats, no separate accessions, rows of `alen` symbols.  Nothing is asked of `msa->rf` or of the symbols:
    any mixture of consensus and insert columns, even none of either, even a row that prints no character at all. -/
structure A2mInsTextWritable (m : Msa) : Prop where
  dig : m.digital = false
  n1 : 1 ≤ m.nseq
  acc_none : m.sqacc = none
  name_ok : ∀ i, i < m.nseq → nameOk (m.names.getD i [])
  desc_ok : ∀ i, i < m.nseq → ∀ d, optAt m.sqdesc i = some d → descOk d
  hdr_line : ∀ i, i < m.nseq → lineOk (a2mHeader m i)
  row_len : ∀ i, i < m.nseq → (m.aseq.getD i []).length = m.alen

theorem a2mWr_ne (abc : Option Abc) (m : Msa) (i pos : Nat) (hp : pos < m.alen) (c : UInt8) (hc : a2mChar abc m i pos = some c) :
    a2mWr abc m i ≠ [] := by
  have : c ∈ a2mWr abc m i := List.mem_filterMap.mpr ⟨pos, List.mem_range.mpr hp, hc⟩
  intro h0
  rw [h0] at this
  simp at this

theorem a2mInsTextWritable_writable (m : Msa) (h : A2mInsTextWritable m) : A2mInsWritable none (a2mCfg none) id m :=
  { n1 := h.n1, acc_none := h.acc_none, name_ok := h.name_ok, desc_ok := h.desc_ok, hdr_line := h.hdr_line
    cons_char := fun i _ pos _ hc => by
      have hs := a2m_text_sym (aseqAt m i pos)
      exact ⟨_, a2mChar_text_cons m i pos hc, hs.1, by simpa [a2mCfg] using hs.2⟩
    ins_char := fun i _ pos _ hc c hch => by
      rw [a2mChar_text_ins m i pos hc] at hch
      cases ha : isAlpha (aseqAt m i pos) with
      | false => rw [ha] at hch; simp at hch
      | true =>
        rw [ha] at hch
        simp only [if_true, Option.some.injEq] at hch
        subst hch
        have hs := a2m_text_ins (aseqAt m i pos) ha
        exact ⟨hs.1, by simpa [a2mCfg] using hs.2⟩ }

/-! ## digital mode -/

/-- what the writer prints for the residue code `x` in an insert column -/
def a2mDigIns (a : Abc) (x : UInt8) : UInt8 :=
  let sym := a.sym.getD x.toNat 0
  toLower (if sym == 79 then a.cUnknown else sym)

/-- table fact about an alphabet: the character written for a residue code `x < Kp` in an insert column is a lower-case
    letter other than `o` and is read back as `a2mDigNorm x` (`x` itself; pyrrolysine as the unknown residue) -/
def a2mDigInsOk (a : Abc) : Bool :=
  (List.range a.kp).all fun n =>
    let x := UInt8.ofNat n
    let c := a2mDigIns a x
    !a.xIsResidue x || (isLower c && !a2mSkip c && mapByte (a2mInmap (some a)) c == (CatSt.ok, some (a2mDigNorm a x)))

theorem a2mDigInsOk_amino : a2mDigInsOk abcAmino = true := by decide +kernel
theorem a2mDigInsOk_dna : a2mDigInsOk abcDna = true := by decide +kernel
theorem a2mDigInsOk_rna : a2mDigInsOk abcRna = true := by decide +kernel

theorem a2m_dig_ins (a : Abc) (ha : a2mDigInsOk a = true) (x : UInt8) (hx : x.toNat < a.kp) (hr : a.xIsResidue x = true) :
    insChar (a2mDigIns a x) ∧
    mapByte (a2mInmap (some a)) (a2mDigIns a x) = (.ok, some (a2mEnc a (a2mDigIns a x))) ∧
    a2mEnc a (a2mDigIns a x) = a2mDigNorm a x := by
  have h1 := (List.all_eq_true.mp ha) x.toNat (List.mem_range.mpr hx)
  simp only [UInt8.ofNat_toNat, hr, Bool.not_true, Bool.false_or, Bool.and_eq_true, beq_iff_eq, Bool.not_eq_true'] at h1
  obtain ⟨⟨hu, hs⟩, hm⟩ := h1
  have he : a2mEnc a (a2mDigIns a x) = a2mDigNorm a x := by unfold a2mEnc; rw [hm]
  exact ⟨⟨hu, hs⟩, by rw [he]; exact hm, he⟩

theorem a2mChar_dig_ins (a : Abc) (m : Msa) (i pos : Nat) (hc : isConsensusCol (some a) m pos = false) :
    a2mChar (some a) m i pos = if a.xIsResidue (axAt m i pos) then some (a2mDigIns a (axAt m i pos)) else none := by
  simp only [a2mChar, hc, Bool.false_eq_true, if_false, a2mDigIns]

/-- a digital alignment (alphabet `a`) that A2M carries, insert columns included -/
structure A2mInsDigitalWritable (a : Abc) (m : Msa) : Prop where
  dig : m.digital = true
  n1 : 1 ≤ m.nseq
  acc_none : m.sqacc = none
  name_ok : ∀ i, i < m.nseq → nameOk (m.names.getD i [])
  desc_ok : ∀ i, i < m.nseq → ∀ d, optAt m.sqdesc i = some d → descOk d
  hdr_line : ∀ i, i < m.nseq → lineOk (a2mHeader m i)
  row_ok : ∀ i, i < m.nseq → dsqRowOk a.kp m.alen (m.ax.getD i []) = true

theorem a2mInsDigitalWritable_writable (a : Abc) (ha : a2mDigSymOk a = true) (hb : a2mDigInsOk a = true) (m : Msa)
    (h : A2mInsDigitalWritable a m) : A2mInsWritable (some a) (a2mCfg (some a)) (a2mEnc a) m :=
  { n1 := h.n1, acc_none := h.acc_none, name_ok := h.name_ok, desc_ok := h.desc_ok, hdr_line := h.hdr_line
    cons_char := fun i hi pos hp hc => by
      have hx : (axAt m i pos).toNat < a.kp := dsqRowOk_code _ _ _ (h.row_ok i hi) pos hp
      have hs := a2m_dig_sym a ha (axAt m i pos) hx
      exact ⟨_, a2mChar_dig_cons a m i pos hc, hs.1, by simpa [a2mCfg] using hs.2.1⟩
    ins_char := fun i hi pos hp hc c hch => by
      have hx : (axAt m i pos).toNat < a.kp := dsqRowOk_code _ _ _ (h.row_ok i hi) pos hp
      rw [a2mChar_dig_ins a m i pos hc] at hch
      cases hr : a.xIsResidue (axAt m i pos) with
      | false => rw [hr] at hch; simp at hch
      | true =>
        rw [hr] at hch
        simp only [if_true, Option.some.injEq] at hch
        subst hch
        have hs := a2m_dig_ins a hb (axAt m i pos) hx hr
        exact ⟨hs.1, by simpa [a2mCfg] using hs.2.1⟩ }

end EaselModel.Msafile
