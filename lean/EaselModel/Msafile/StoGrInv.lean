import EaselModel.Msafile.PhylipRoundTrip
import EaselModel.Msafile.Stockholm
import EaselModel.Msafile.WriteStockholm
import EaselModel.Msafile.StockholmLemmas
/-! Stockholm / Pfam round trip: the `#=GR` part of the reader's state (`ss sa pp` with `sslen salen pplen`, `gr_tag`, `gr`,
    `ogr_len`) while the blocks the writer printed are read.  Pure list facts; the reader steps are in `StoRoundTrip.lean`. -/
namespace EaselModel.Msafile

/-- a per-column annotation string once `p` columns of it have been read -/
def txtVal (s : Bytes) (p : Nat) : Option Bytes := if p = 0 then none else some (s.take p)

theorem strcatE_txtVal (s c : Bytes) (pos w : Nat) (hsl : pos + w ≤ s.length) (hs0 : ∀ x ∈ s, x ≠ 0)
    (hcj : c = (s.drop pos).take w) (hw : 1 ≤ w) : strcatE (txtVal s pos) pos c = .ok (txtVal s (pos + w)) := by
  have hcl : c.length = w := by rw [hcj, List.length_take, List.length_drop]; omega
  have hcne : c.isEmpty = false := by
    cases c with
    | nil => simp at hcl; omega
    | cons _ _ => rfl
  have hv : (txtVal s pos).getD [] = s.take pos := by
    unfold txtVal; split
    · rename_i h; simp [h]
    · rfl
  have hl : ((txtVal s pos).getD []).length = pos := by rw [hv, List.length_take]; omega
  unfold strcatE
  simp only [hcne, Bool.false_eq_true, if_false, hl, bne_self_eq_false]
  rw [hv, hcj, ← List.take_add, cstr_id _ (fun x hx => hs0 x (List.mem_of_mem_take hx))]
  simp [txtVal]; omega

/-- number of `#=GR` kinds: `SS SA PP` and the unparsed tags -/
def nslots (m : Msa) : Nat := 3 + m.gr.length
def perF (m : Msa) : List OptRows := [m.ss, m.sa, m.pp]

/-- the `#=GR` annotation of kind `q` (0 1 2 = `SS SA PP`, `3 + t` = unparsed tag `t`) of sequence `i` -/
def grVal (m : Msa) (q i : Nat) : Option Bytes :=
  if q < 3 then optRow ((perF m).getD q none) i else ((m.gr.getD (q - 3) ([], [])).2).getD i none

theorem grVal_other (m : Msa) (t i : Nat) : grVal m (3 + t) i = ((m.gr.getD t ([], [])).2).getD i none := by
  unfold grVal; rw [if_neg (by omega), Nat.add_sub_cancel_left]

def colOf (pos w : Nat) (b : Bool) : Nat := if b then pos + w else pos
/-- the string held for (kind, sequence): read up to `pos + w` when its line of the current block is done, else up to `pos` -/
def cellOf (pos w : Nat) (b : Bool) (v : Option Bytes) : Option Bytes := v.bind (fun s => txtVal s (colOf pos w b))
def clenOf (pos w : Nat) (b : Bool) (v : Option Bytes) : Nat := if v.isSome then colOf pos w b else 0

/-- one more line done -/
def upd (dn : Nat → Nat → Bool) (i0 q0 : Nat) : Nat → Nat → Bool := fun i q => dn i q || (i == i0 && q == q0)

theorem upd_self (dn : Nat → Nat → Bool) (i0 q0 : Nat) : upd dn i0 q0 i0 q0 = true := by simp [upd]
theorem upd_ne_i (dn : Nat → Nat → Bool) {i0 q0 i q : Nat} (h : i ≠ i0) : upd dn i0 q0 i q = dn i q := by simp [upd, h]
theorem upd_ne_q (dn : Nat → Nat → Bool) {i0 q0 i q : Nat} (h : q ≠ q0) : upd dn i0 q0 i q = dn i q := by simp [upd, h]
theorem upd_mono (dn : Nat → Nat → Bool) {i0 q0 i q : Nat} (h : dn i q = true) : upd dn i0 q0 i q = true := by simp [upd, h]
theorem upd_cases (dn : Nat → Nat → Bool) {i0 q0 i q : Nat} (h : upd dn i0 q0 i q = true) : dn i q = true ∨ (i = i0 ∧ q = q0) := by
  simp only [upd, Bool.or_eq_true, Bool.and_eq_true, beq_iff_eq] at h; exact h

theorem cellOf_zero (w : Nat) (v : Option Bytes) : cellOf 0 w false v = none := by
  cases v <;> simp [cellOf, colOf, txtVal]
theorem clenOf_zero (w : Nat) (v : Option Bytes) : clenOf 0 w false v = 0 := by
  simp [clenOf, colOf]

/-- the arrays of one kind `q` (`n` = `sqalloc` entries): strings and their lengths -/
structure RowSpec (m : Msa) (pos w : Nat) (dn : Nat → Nat → Bool) (n q : Nat) (arr : List (Option Bytes)) (lens : List Nat) : Prop where
  alen : arr.length = n
  llen : lens.length = n
  arr : ∀ i, i < n → arr[i]? = some (cellOf pos w (dn i q) (grVal m q i))
  lens : ∀ i, i < n → lens[i]? = some (clenOf pos w (dn i q) (grVal m q i))

theorem RowSpec.congr {m : Msa} {pos w : Nat} {dn dn' : Nat → Nat → Bool} {n q : Nat} {arr : List (Option Bytes)} {lens : List Nat}
    (h : RowSpec m pos w dn n q arr lens) (hd : ∀ i, (grVal m q i).isSome = true → dn' i q = dn i q) :
    RowSpec m pos w dn' n q arr lens :=
  { h with
    arr := fun i hi => by
      rw [h.arr i hi]
      cases hv : grVal m q i with
      | none => rfl
      | some s => rw [hd i (by rw [hv]; rfl)]
    lens := fun i hi => by
      rw [h.lens i hi]
      cases hv : grVal m q i with
      | none => rfl
      | some s => rw [hd i (by rw [hv]; rfl)] }

theorem RowSpec.set {m : Msa} {pos w : Nat} {dn : Nat → Nat → Bool} {n q : Nat} {arr : List (Option Bytes)} {lens : List Nat}
    (h : RowSpec m pos w dn n q arr lens) (i0 : Nat) (hi0 : i0 < n) (s : Bytes) (hs : grVal m q i0 = some s) :
    RowSpec m pos w (upd dn i0 q) n q (arr.set i0 (txtVal s (pos + w))) (lens.set i0 (pos + w)) :=
  { alen := by rw [List.length_set]; exact h.alen
    llen := by rw [List.length_set]; exact h.llen
    arr := fun i hi => by
      rw [List.getElem?_set]
      by_cases e : i0 = i
      · subst e; simp [h.alen, hi0, upd_self, hs, cellOf, colOf]
      · rw [upd_ne_i dn (fun x => e x.symm)]
        simp only [e, if_false]; exact h.arr i hi
    lens := fun i hi => by
      rw [List.getElem?_set]
      by_cases e : i0 = i
      · subst e; simp [h.llen, hi0, upd_self, hs, clenOf, colOf]
      · rw [upd_ne_i dn (fun x => e x.symm)]
        simp only [e, if_false]; exact h.lens i hi }

theorem RowSpec.pad {m : Msa} {w : Nat} {dn : Nat → Nat → Bool} {n q : Nat} {arr : List (Option Bytes)} {lens : List Nat}
    (h : RowSpec m 0 w dn n q arr lens) (k : Nat) (hd : ∀ i, n ≤ i → dn i q = false) :
    RowSpec m 0 w dn (n + k) q (arr ++ List.replicate k none) (lens ++ List.replicate k 0) :=
  { alen := by simp [h.alen]
    llen := by simp [h.llen]
    arr := fun i hi => by
      by_cases e : i < n
      · rw [List.getElem?_append_left (by rw [h.alen]; exact e)]; exact h.arr i e
      · rw [List.getElem?_append_right (by rw [h.alen]; omega), List.getElem?_replicate, if_pos (by rw [h.alen]; omega),
          hd i (by omega), cellOf_zero]
    lens := fun i hi => by
      by_cases e : i < n
      · rw [List.getElem?_append_left (by rw [h.llen]; exact e)]; exact h.lens i e
      · rw [List.getElem?_append_right (by rw [h.llen]; omega), List.getElem?_replicate, if_pos (by rw [h.llen]; omega),
          hd i (by omega), clenOf_zero] }

theorem RowSpec.fresh (m : Msa) (w : Nat) (dn : Nat → Nat → Bool) (n q : Nat)
    (hd : ∀ i, i < n → (grVal m q i).isSome = true → dn i q = false) :
    RowSpec m 0 w dn n q (List.replicate n none) (List.replicate n 0) :=
  { alen := by simp
    llen := by simp
    arr := fun i hi => by
      rw [List.getElem?_replicate, if_pos hi]
      cases hv : grVal m q i with
      | none => rfl
      | some s => rw [hd i hi (by rw [hv]; rfl), cellOf_zero]
    lens := fun i hi => by
      rw [List.getElem?_replicate, if_pos hi]
      cases hv : grVal m q i with
      | none => rfl
      | some s => rw [hd i hi (by rw [hv]; rfl), clenOf_zero] }

theorem RowSpec.endBlock {m : Msa} {pos w : Nat} {dn : Nat → Nat → Bool} {n q : Nat} {arr : List (Option Bytes)} {lens : List Nat}
    (h : RowSpec m pos w dn n q arr lens) (w' : Nat) (hd : ∀ i, i < n → (grVal m q i).isSome = true → dn i q = true) :
    RowSpec m (pos + w) w' (fun _ _ => false) n q arr lens :=
  { h with
    arr := fun i hi => by
      rw [h.arr i hi]
      cases hv : grVal m q i with
      | none => rfl
      | some s => rw [hd i hi (by rw [hv]; rfl)]; rfl
    lens := fun i hi => by
      rw [h.lens i hi]
      cases hv : grVal m q i with
      | none => rfl
      | some s => rw [hd i hi (by rw [hv]; rfl)]; rfl }

/-- the reader has met (kind, sequence): in an earlier block, or in this one -/
def visOf (pos : Nat) (dn : Nat → Nat → Bool) (i q : Nat) : Bool := pos != 0 || dn i q

/-- the unparsed `#=GR` tags: `ng` of them are known, in the order of `m.gr` -/
structure GrTagInv (m : Msa) (pos w : Nat) (dn : Nat → Nat → Bool) (n ng : Nat) (tags : List Bytes)
    (gr : List (List (Option Bytes))) (ogrLen : List (List Nat)) : Prop where
  le : ng ≤ m.gr.length
  tags : tags = (m.gr.map (·.1)).take ng
  gr_len : gr.length = ng
  ogr_len : ogrLen.length = ng
  known : ∀ t, t < ng → ∃ i, i < m.nseq ∧ (grVal m (3 + t) i).isSome = true ∧ visOf pos dn i (3 + t) = true
  unknown : ∀ t, t < m.gr.length → ∀ i, i < m.nseq → (grVal m (3 + t) i).isSome = true → visOf pos dn i (3 + t) = true → t < ng
  rows : ∀ t, t < ng → ∃ arr lens, gr[t]? = some arr ∧ ogrLen[t]? = some lens ∧ RowSpec m pos w dn n (3 + t) arr lens

/-- the `#=GR` part of the reader's state inside the block `[pos, pos+w)`; `dn i q`: the line of (sequence `i`, kind `q`) of
    this block has been read; `n` = `sqalloc` -/
structure GrInv (m : Msa) (pos w : Nat) (dn : Nat → Nat → Bool) (n : Nat) (per : List OptRows) (perLen : List (Option (List Nat)))
    (tags : List Bytes) (gr : List (List (Option Bytes))) (ogrLen : List (List Nat)) : Prop where
  vnone : ∀ q i, m.nseq ≤ i → grVal m q i = none
  per_len : per.length = 3
  perLen_len : perLen.length = 3
  per_none : ∀ q, q < 3 → (∀ i, i < m.nseq → (grVal m q i).isSome = true → visOf pos dn i q = false) → per[q]? = some none
  per_some : ∀ q, q < 3 → ∀ i0, i0 < m.nseq → (grVal m q i0).isSome = true → visOf pos dn i0 q = true →
      ∃ arr lens, per[q]? = some (some arr) ∧ perLen[q]? = some (some lens) ∧ RowSpec m pos w dn n q arr lens
  tagI : ∃ ng, GrTagInv m pos w dn n ng tags gr ogrLen

theorem GrTagInv.congr {m : Msa} {pos w : Nat} {dn dn' : Nat → Nat → Bool} {n ng : Nat} {T : List Bytes}
    {G : List (List (Option Bytes))} {L : List (List Nat)} (h : GrTagInv m pos w dn n ng T G L)
    (hd : ∀ i t, (grVal m (3 + t) i).isSome = true → dn' i (3 + t) = dn i (3 + t)) : GrTagInv m pos w dn' n ng T G L :=
  { h with
    known := fun t ht => by
      obtain ⟨i, hi, hv, hs⟩ := h.known t ht
      exact ⟨i, hi, hv, by unfold visOf at hs ⊢; rw [hd i _ hv]; exact hs⟩
    unknown := fun t ht i hi hv hs => h.unknown t ht i hi hv (by unfold visOf at hs ⊢; rw [← hd i _ hv]; exact hs)
    rows := fun t ht => by
      obtain ⟨arr, lens, h1, h2, h3⟩ := h.rows t ht
      exact ⟨arr, lens, h1, h2, h3.congr (fun i hv => hd i _ hv)⟩ }

/-- only the lines of annotation that exists matter -/
theorem GrInv.congr {m : Msa} {pos w : Nat} {dn dn' : Nat → Nat → Bool} {n : Nat} {per : List OptRows}
    {perLen : List (Option (List Nat))} {T : List Bytes} {G : List (List (Option Bytes))} {L : List (List Nat)}
    (h : GrInv m pos w dn n per perLen T G L) (hd : ∀ i q, (grVal m q i).isSome = true → dn' i q = dn i q) :
    GrInv m pos w dn' n per perLen T G L :=
  { h with
    per_none := fun q hq hp => h.per_none q hq (fun i hi hv => by
      have := hp i hi hv; unfold visOf at this ⊢; rw [← hd i q hv]; exact this)
    per_some := fun q hq i0 hi0 hv hs => by
      obtain ⟨arr, lens, h1, h2, h3⟩ := h.per_some q hq i0 hi0 hv (by unfold visOf at hs ⊢; rw [← hd i0 q hv]; exact hs)
      exact ⟨arr, lens, h1, h2, h3.congr (fun i hv => hd i q hv)⟩
    tagI := by
      obtain ⟨ng, hT⟩ := h.tagI
      exact ⟨ng, hT.congr (fun i t hv => hd i (3 + t) hv)⟩ }

/-- a kind the sequence does not carry: nothing is written, nothing changes -/
theorem GrInv.skip {m : Msa} {pos w : Nat} {dn : Nat → Nat → Bool} {n : Nat} {per : List OptRows}
    {perLen : List (Option (List Nat))} {T : List Bytes} {G : List (List (Option Bytes))} {L : List (List Nat)}
    (h : GrInv m pos w dn n per perLen T G L) (i0 q0 : Nat) (hv : grVal m q0 i0 = none) :
    GrInv m pos w (upd dn i0 q0) n per perLen T G L :=
  h.congr (fun i q hs => by
    by_cases e : i = i0
    · by_cases e2 : q = q0
      · subst e e2; rw [hv] at hs; cases hs
      · exact upd_ne_q dn e2
    · exact upd_ne_i dn e)

/-- the arrays `stockholm_parse_gr` appends to for `SS SA PP` (allocated now if they do not exist yet) -/
theorem GrInv.perArr {m : Msa} {pos w : Nat} {dn : Nat → Nat → Bool} {n : Nat} {per : List OptRows}
    {perLen : List (Option (List Nat))} {T : List Bytes} {G : List (List (Option Bytes))} {L : List (List Nat)}
    (h : GrInv m pos w dn n per perLen T G L) (q : Nat) (hq : q < 3) (i0 : Nat) (hi0 : i0 < m.nseq)
    (hv : (grVal m q i0).isSome = true) :
    (per[q]? = some none ∧ RowSpec m pos w dn n q (List.replicate n none) (List.replicate n 0)) ∨
    (∃ arr lens, per[q]? = some (some arr) ∧ perLen[q]? = some (some lens) ∧ RowSpec m pos w dn n q arr lens) := by
  cases ha : (List.range m.nseq).any (fun i => (grVal m q i).isSome && visOf pos dn i q) with
  | true =>
    obtain ⟨i, hi, hh⟩ := List.any_eq_true.mp ha
    simp only [Bool.and_eq_true] at hh
    exact Or.inr (h.per_some q hq i (List.mem_range.mp hi) hh.1 hh.2)
  | false =>
    have hall : ∀ i, i < m.nseq → (grVal m q i).isSome = true → visOf pos dn i q = false := by
      intro i hi hs
      have := (List.any_eq_false.mp ha) i (List.mem_range.mpr hi)
      simpa [hs] using this
    have h0 := hall i0 hi0 hv
    have hp : pos = 0 := by
      unfold visOf at h0; simp only [Bool.or_eq_false_iff, bne_eq_false_iff_eq] at h0; exact h0.1
    subst hp
    refine Or.inl ⟨h.per_none q hq hall, RowSpec.fresh m w dn n q (fun i hi hs => ?_)⟩
    by_cases e : i < m.nseq
    · have := hall i e hs
      unfold visOf at this; simp only [Bool.or_eq_false_iff] at this; exact this.2
    · rw [h.vnone q i (by omega)] at hs; cases hs

/-- a `#=GR SS/SA/PP` line of sequence `i0` has been appended -/
theorem GrInv.setPer {m : Msa} {pos w : Nat} {dn : Nat → Nat → Bool} {n : Nat} {per : List OptRows}
    {perLen : List (Option (List Nat))} {T : List Bytes} {G : List (List (Option Bytes))} {L : List (List Nat)}
    (h : GrInv m pos w dn n per perLen T G L) (q : Nat) (hq : q < 3) (i0 : Nat) (hi0 : i0 < m.nseq) (hin : i0 < n)
    (s : Bytes) (hs : grVal m q i0 = some s) (arr : List (Option Bytes)) (lens : List Nat) (hr : RowSpec m pos w dn n q arr lens) :
    GrInv m pos w (upd dn i0 q) n (per.set q (some (arr.set i0 (txtVal s (pos + w)))))
      (perLen.set q (some (lens.set i0 (pos + w)))) T G L :=
  { vnone := h.vnone
    per_len := by rw [List.length_set]; exact h.per_len
    perLen_len := by rw [List.length_set]; exact h.perLen_len
    per_none := fun q' hq' hp => by
      by_cases e : q' = q
      · subst e
        have := hp i0 hi0 (by rw [hs]; rfl)
        unfold visOf at this; rw [upd_self] at this; simp at this
      · rw [List.getElem?_set_ne (fun x => e x.symm)]
        exact h.per_none q' hq' (fun i hi hv => by
          have := hp i hi hv; unfold visOf at this ⊢; rw [upd_ne_q dn e] at this; exact this)
    per_some := fun q' hq' i1 hi1 hv hvis => by
      by_cases e : q' = q
      · subst e
        refine ⟨_, _, ?_, ?_, hr.set i0 hin s hs⟩
        · rw [List.getElem?_set]; simp [h.per_len, hq']
        · rw [List.getElem?_set]; simp [h.perLen_len, hq']
      · obtain ⟨a, l, h1, h2, h3⟩ := h.per_some q' hq' i1 hi1 hv (by unfold visOf at hvis ⊢; rw [upd_ne_q dn e] at hvis; exact hvis)
        refine ⟨a, l, ?_, ?_, h3.congr (fun i _ => upd_ne_q dn e)⟩
        · rw [List.getElem?_set_ne (fun x => e x.symm)]; exact h1
        · rw [List.getElem?_set_ne (fun x => e x.symm)]; exact h2
    tagI := by
      obtain ⟨ng, hT⟩ := h.tagI
      exact ⟨ng, hT.congr (fun i t _ => upd_ne_q dn (by omega))⟩ }

/-- the `SS SA PP` arrays do not see a line of an unparsed tag -/
theorem GrInv.setGr {m : Msa} {pos w : Nat} {dn : Nat → Nat → Bool} {n : Nat} {per : List OptRows}
    {perLen : List (Option (List Nat))} {T T' : List Bytes} {G G' : List (List (Option Bytes))} {L L' : List (List Nat)}
    (h : GrInv m pos w dn n per perLen T G L) (i0 t ng' : Nat)
    (hT : GrTagInv m pos w (upd dn i0 (3 + t)) n ng' T' G' L') :
    GrInv m pos w (upd dn i0 (3 + t)) n per perLen T' G' L' :=
  { vnone := h.vnone, per_len := h.per_len, perLen_len := h.perLen_len
    per_none := fun q hq hp => h.per_none q hq (fun i hi hv => by
      have := hp i hi hv; unfold visOf at this ⊢; rw [upd_ne_q dn (by omega)] at this; exact this)
    per_some := fun q hq i1 hi1 hv hvis => by
      obtain ⟨a, l, h1, h2, h3⟩ := h.per_some q hq i1 hi1 hv (by
        unfold visOf at hvis ⊢; rw [upd_ne_q dn (by omega)] at hvis; exact hvis)
      exact ⟨a, l, h1, h2, h3.congr (fun i _ => upd_ne_q dn (by omega))⟩
    tagI := ⟨ng', hT⟩ }

theorem visOf_upd_mono {pos : Nat} {dn : Nat → Nat → Bool} {i0 q0 i q : Nat} (h : visOf pos dn i q = true) :
    visOf pos (upd dn i0 q0) i q = true := by
  unfold visOf at h ⊢
  simp only [Bool.or_eq_true] at h ⊢
  rcases h with h | h
  · exact Or.inl h
  · exact Or.inr (upd_mono dn h)

theorem visOf_upd_cases {pos : Nat} {dn : Nat → Nat → Bool} {i0 q0 i q : Nat} (h : visOf pos (upd dn i0 q0) i q = true) :
    visOf pos dn i q = true ∨ (i = i0 ∧ q = q0) := by
  unfold visOf at h ⊢
  simp only [Bool.or_eq_true] at h ⊢
  rcases h with h | h
  · exact Or.inl (Or.inl h)
  · rcases upd_cases dn h with h | h
    · exact Or.inl (Or.inr h)
    · exact Or.inr h

/-- a line of a tag the reader knows -/
theorem GrTagInv.stepKnown {m : Msa} {pos w : Nat} {dn : Nat → Nat → Bool} {n ng : Nat} {T : List Bytes}
    {G : List (List (Option Bytes))} {L : List (List Nat)} (h : GrTagInv m pos w dn n ng T G L)
    (t : Nat) (ht : t < ng) (i0 : Nat) (hin : i0 < n) (s : Bytes) (hs : grVal m (3 + t) i0 = some s)
    (arr : List (Option Bytes)) (lens : List Nat) (ha : G[t]? = some arr) (hl : L[t]? = some lens) :
    GrTagInv m pos w (upd dn i0 (3 + t)) n ng T (G.set t (arr.set i0 (txtVal s (pos + w)))) (L.set t (lens.set i0 (pos + w))) :=
  { le := h.le, tags := h.tags
    gr_len := by rw [List.length_set]; exact h.gr_len
    ogr_len := by rw [List.length_set]; exact h.ogr_len
    known := fun t' ht' => by
      obtain ⟨i, hi, hv, hvis⟩ := h.known t' ht'
      exact ⟨i, hi, hv, visOf_upd_mono hvis⟩
    unknown := fun t' ht' i hi hv hvis => by
      rcases visOf_upd_cases hvis with h' | ⟨_, h'⟩
      · exact h.unknown t' ht' i hi hv h'
      · have : t' = t := by omega
        subst this; exact ht
    rows := fun t' ht' => by
      obtain ⟨a, l, h1, h2, h3⟩ := h.rows t' ht'
      by_cases e : t' = t
      · subst e
        rw [ha] at h1; rw [hl] at h2
        cases h1; cases h2
        refine ⟨_, _, ?_, ?_, h3.set i0 hin s hs⟩
        · rw [List.getElem?_set]; simp [h.gr_len, ht']
        · rw [List.getElem?_set]; simp [h.ogr_len, ht']
      · refine ⟨a, l, ?_, ?_, h3.congr (fun i _ => upd_ne_q dn (by omega))⟩
        · rw [List.getElem?_set_ne (fun x => e x.symm)]; exact h1
        · rw [List.getElem?_set_ne (fun x => e x.symm)]; exact h2 }

/-- a line of a tag the reader meets for the first time (first block): it becomes tag number `ng` -/
theorem GrTagInv.stepNew {m : Msa} {w : Nat} {dn : Nat → Nat → Bool} {n ng : Nat} {T : List Bytes}
    {G : List (List (Option Bytes))} {L : List (List Nat)} (h : GrTagInv m 0 w dn n ng T G L)
    (hng : ng < m.gr.length) (i0 : Nat) (hi0 : i0 < m.nseq) (hin : i0 < n) (s : Bytes) (hs : grVal m (3 + ng) i0 = some s)
    (hd : ∀ i, i < n → (grVal m (3 + ng) i).isSome = true → dn i (3 + ng) = false) :
    GrTagInv m 0 w (upd dn i0 (3 + ng)) n (ng + 1) (T ++ [(m.gr.getD ng ([], [])).1])
      (G ++ [(List.replicate n none).set i0 (txtVal s (0 + w))]) (L ++ [(List.replicate n 0).set i0 (0 + w)]) :=
  { le := hng
    tags := by
      rw [h.tags, List.take_succ]
      simp [List.getD_eq_getElem?_getD, List.getElem?_eq_getElem hng]
    gr_len := by simp [h.gr_len]
    ogr_len := by simp [h.ogr_len]
    known := fun t' ht' => by
      by_cases e : t' < ng
      · obtain ⟨i, hi, hv, hvis⟩ := h.known t' e
        exact ⟨i, hi, hv, visOf_upd_mono hvis⟩
      · have : t' = ng := by omega
        subst this
        exact ⟨i0, hi0, by rw [hs]; rfl, by unfold visOf; rw [upd_self]; simp⟩
    unknown := fun t' ht' i hi hv hvis => by
      rcases visOf_upd_cases hvis with h' | ⟨_, h'⟩
      · have := h.unknown t' ht' i hi hv h'; omega
      · omega
    rows := fun t' ht' => by
      by_cases e : t' < ng
      · obtain ⟨a, l, h1, h2, h3⟩ := h.rows t' e
        refine ⟨a, l, ?_, ?_, h3.congr (fun i _ => upd_ne_q dn (by omega))⟩
        · rw [List.getElem?_append_left (by rw [h.gr_len]; exact e)]; exact h1
        · rw [List.getElem?_append_left (by rw [h.ogr_len]; exact e)]; exact h2
      · have : t' = ng := by omega
        subst this
        refine ⟨_, _, ?_, ?_, (RowSpec.fresh m w dn n (3 + t') hd).set i0 hin s hs⟩
        · rw [List.getElem?_append_right (by rw [h.gr_len]; exact Nat.le_refl _), h.gr_len]; simp
        · rw [List.getElem?_append_right (by rw [h.ogr_len]; exact Nat.le_refl _), h.ogr_len]; simp }

theorem getElem?_map_some {α β : Type} (f : α → β) (l : List α) (i : Nat) (x : α) (h : l[i]? = some x) : (l.map f)[i]? = some (f x) := by
  rw [List.getElem?_map, h]; rfl

/-- `esl_msa_Expand` + `stockholm_parsedata_ExpandSeq` (first block only): every array is padded -/
theorem GrInv.expand {m : Msa} {w : Nat} {dn : Nat → Nat → Bool} {n : Nat} {per : List OptRows}
    {perLen : List (Option (List Nat))} {T : List Bytes} {G : List (List (Option Bytes))} {L : List (List Nat)}
    (h : GrInv m 0 w dn n per perLen T G L) (k : Nat) (hd : ∀ i q, n ≤ i → dn i q = false) :
    GrInv m 0 w dn (n + k) (per.map (Option.map (· ++ List.replicate k none))) (perLen.map (Option.map (· ++ List.replicate k 0)))
      T (G.map (· ++ List.replicate k none)) (L.map (· ++ List.replicate k 0)) :=
  { vnone := h.vnone
    per_len := by rw [List.length_map]; exact h.per_len
    perLen_len := by rw [List.length_map]; exact h.perLen_len
    per_none := fun q hq hp => by rw [getElem?_map_some _ _ _ _ (h.per_none q hq hp)]; rfl
    per_some := fun q hq i0 hi0 hv hvis => by
      obtain ⟨a, l, h1, h2, h3⟩ := h.per_some q hq i0 hi0 hv hvis
      exact ⟨_, _, getElem?_map_some _ _ _ _ h1, getElem?_map_some _ _ _ _ h2, h3.pad k (fun i hi => hd i q hi)⟩
    tagI := by
      obtain ⟨ng, hT⟩ := h.tagI
      exact ⟨ng,
        { le := hT.le, tags := hT.tags
          gr_len := by rw [List.length_map]; exact hT.gr_len
          ogr_len := by rw [List.length_map]; exact hT.ogr_len
          known := hT.known, unknown := hT.unknown
          rows := fun t ht => by
            obtain ⟨a, l, h1, h2, h3⟩ := hT.rows t ht
            exact ⟨_, _, getElem?_map_some _ _ _ _ h1, getElem?_map_some _ _ _ _ h2, h3.pad k (fun i hi => hd i _ hi)⟩ }⟩ }

/-- the end of a block: every line of annotation that exists has been read -/
theorem GrInv.endBlock {m : Msa} {pos w : Nat} {dn : Nat → Nat → Bool} {n : Nat} {per : List OptRows}
    {perLen : List (Option (List Nat))} {T : List Bytes} {G : List (List (Option Bytes))} {L : List (List Nat)}
    (h : GrInv m pos w dn n per perLen T G L) (w' : Nat) (hw : 1 ≤ w)
    (hd : ∀ i q, i < m.nseq → (grVal m q i).isSome = true → dn i q = true) :
    GrInv m (pos + w) w' (fun _ _ => false) n per perLen T G L := by
  have hd' : ∀ q i, i < n → (grVal m q i).isSome = true → dn i q = true := by
    intro q i _ hv
    by_cases e : i < m.nseq
    · exact hd i q e hv
    · rw [h.vnone q i (by omega)] at hv; cases hv
  have hvis : ∀ i q, visOf (pos + w) (fun _ _ => false) i q = true := by
    intro i q; unfold visOf; simp; omega
  exact
    { vnone := h.vnone, per_len := h.per_len, perLen_len := h.perLen_len
      per_none := fun q hq hp => h.per_none q hq (fun i hi hv => by have := hp i hi hv; rw [hvis] at this; cases this)
      per_some := fun q hq i0 hi0 hv _ => by
        obtain ⟨a, l, h1, h2, h3⟩ := h.per_some q hq i0 hi0 hv (by unfold visOf; rw [hd i0 q hi0 hv]; simp)
        exact ⟨a, l, h1, h2, h3.endBlock w' (hd' q)⟩
      tagI := by
        obtain ⟨ng, hT⟩ := h.tagI
        exact ⟨ng,
          { le := hT.le, tags := hT.tags, gr_len := hT.gr_len, ogr_len := hT.ogr_len
            known := fun t ht => by
              obtain ⟨i, hi, hv, _⟩ := hT.known t ht
              exact ⟨i, hi, hv, hvis _ _⟩
            unknown := fun t ht i hi hv _ => hT.unknown t ht i hi hv (by unfold visOf; rw [hd i _ hi hv]; simp)
            rows := fun t ht => by
              obtain ⟨a, l, h1, h2, h3⟩ := hT.rows t ht
              exact ⟨a, l, h1, h2, h3.endBlock w' (hd' _)⟩ }⟩ }

/-- the state behind the header -/
theorem GrInv.init (m : Msa) (w n : Nat) (dn : Nat → Nat → Bool) (hd : ∀ i q, dn i q = false)
    (hv : ∀ q i, m.nseq ≤ i → grVal m q i = none) :
    GrInv m 0 w dn n (List.replicate 3 none) (List.replicate 3 none) [] [] [] :=
  { vnone := hv
    per_len := by simp
    perLen_len := by simp
    per_none := fun q hq _ => by rw [List.getElem?_replicate, if_pos hq]
    per_some := fun q hq i0 hi0 _ hvis => by unfold visOf at hvis; rw [hd] at hvis; simp at hvis
    tagI := ⟨0,
      { le := Nat.zero_le _, tags := by simp, gr_len := rfl, ogr_len := rfl
        known := fun t ht => by omega
        unknown := fun t ht i hi _ hvis => by unfold visOf at hvis; rw [hd] at hvis; simp at hvis
        rows := fun t ht => by omega }⟩ }

/-! ## what comes back -/

/-- the per-sequence annotation the round trip admits for one kind: every string one non-blank character per column -/
def grColOk (m : Msa) : Prop := ∀ q i s, grVal m q i = some s → s.length = m.alen

theorem cellOf_full (m : Msa) (w : Nat) (ha : 1 ≤ m.alen) (v : Option Bytes) (hv : ∀ s, v = some s → s.length = m.alen) :
    cellOf m.alen w false v = v := by
  cases v with
  | none => rfl
  | some s =>
    have := hv s rfl
    have h0 : ¬ (m.alen = 0) := by omega
    simp only [cellOf, colOf, Bool.false_eq_true, if_false, Option.bind_some, txtVal, h0]
    rw [← this, List.take_length]

/-- `SS SA PP` at the end of the record -/
theorem GrInv.final_per {m : Msa} {pos w n : Nat} {dn : Nat → Nat → Bool} {per : List OptRows}
    {perLen : List (Option (List Nat))} {T : List Bytes} {G : List (List (Option Bytes))} {L : List (List Nat)}
    (h : GrInv m pos w dn n per perLen T G L) (hn : m.nseq ≤ n)
    (hvis : ∀ i q, i < m.nseq → (grVal m q i).isSome = true → visOf pos dn i q = true)
    (hcell : ∀ q i, i < m.nseq → cellOf pos w (dn i q) (grVal m q i) = grVal m q i)
    (q : Nat) (hq : q < 3)
    (hlen : ∀ l, (perF m).getD q none = some l → l.length = m.nseq ∧ ∃ i, i < m.nseq ∧ (l.getD i none).isSome = true) :
    (per.getD q none).map (·.take m.nseq) = (perF m).getD q none := by
  have hgv : ∀ i, grVal m q i = optRow ((perF m).getD q none) i := fun i => by unfold grVal; rw [if_pos hq]
  cases hp : (perF m).getD q none with
  | none =>
    have := h.per_none q hq (fun i _ hv => by rw [hgv, hp] at hv; simp [optRow] at hv)
    rw [List.getD_eq_getElem?_getD, this]; rfl
  | some l =>
    obtain ⟨hl, i0, hi0, hs0⟩ := hlen l hp
    obtain ⟨arr, lens, h1, _, h3⟩ := h.per_some q hq i0 hi0 (by rw [hgv, hp]; exact hs0) (hvis i0 q hi0 (by rw [hgv, hp]; exact hs0))
    rw [List.getD_eq_getElem?_getD, h1]
    show some (arr.take m.nseq) = some l
    congr 1
    apply List.ext_getElem?
    intro i
    by_cases hi : i < m.nseq
    · rw [List.getElem?_take, if_pos hi, h3.arr i (by omega), hcell q i hi, hgv, hp]
      simp only [optRow, Option.getD_some, List.getD_eq_getElem?_getD]
      rw [List.getElem?_eq_getElem (by omega)]; rfl
    · rw [List.getElem?_take, if_neg hi, List.getElem?_eq_none (by omega)]

/-- the unparsed `#=GR` tags at the end of the record -/
theorem GrInv.final_gr {m : Msa} {pos w n : Nat} {dn : Nat → Nat → Bool} {per : List OptRows}
    {perLen : List (Option (List Nat))} {T : List Bytes} {G : List (List (Option Bytes))} {L : List (List Nat)}
    (h : GrInv m pos w dn n per perLen T G L) (hn : m.nseq ≤ n)
    (hvis : ∀ i q, i < m.nseq → (grVal m q i).isSome = true → visOf pos dn i q = true)
    (hcell : ∀ q i, i < m.nseq → cellOf pos w (dn i q) (grVal m q i) = grVal m q i)
    (hlen : ∀ t ∈ m.gr, t.2.length = m.nseq)
    (hne : ∀ t, t < m.gr.length → ∃ i, i < m.nseq ∧ (grVal m (3 + t) i).isSome = true) :
    T.zip (G.map (·.take m.nseq)) = m.gr := by
  obtain ⟨ng, hT⟩ := h.tagI
  have hng : ng = m.gr.length := by
    have h1 := hT.le
    by_cases e : m.gr.length = 0
    · omega
    · obtain ⟨i, hi, hv⟩ := hne (m.gr.length - 1) (by omega)
      have := hT.unknown (m.gr.length - 1) (by omega) i hi hv (hvis i _ hi hv)
      omega
  subst hng
  have h1 : T = m.gr.map (·.1) := by rw [hT.tags, ← List.length_map (f := (·.1)), List.take_length]
  have h2 : G.map (·.take m.nseq) = m.gr.map (·.2) := by
    apply List.ext_getElem?
    intro t
    by_cases ht : t < m.gr.length
    · obtain ⟨arr, lens, g1, _, g3⟩ := hT.rows t ht
      rw [List.getElem?_map, g1, List.getElem?_map, List.getElem?_eq_getElem ht]
      show some (arr.take m.nseq) = some (m.gr[t]).2
      congr 1
      have hl := hlen m.gr[t] (List.getElem_mem ht)
      apply List.ext_getElem?
      intro i
      by_cases hi : i < m.nseq
      · rw [List.getElem?_take, if_pos hi, g3.arr i (by omega), hcell _ i hi, grVal_other,
          getD_eq_getElem_of_lt _ ht, List.getD_eq_getElem?_getD, List.getElem?_eq_getElem (show i < (m.gr[t]).2.length by omega)]
        rfl
      · rw [List.getElem?_take, if_neg hi, List.getElem?_eq_none (by omega)]
    · rw [List.getElem?_eq_none (by rw [List.length_map, hT.gr_len]; omega), List.getElem?_eq_none (by rw [List.length_map]; omega)]
  rw [h1, h2, List.zip_map']
  conv => rhs; rw [← List.map_id m.gr]
  rfl

end EaselModel.Msafile
