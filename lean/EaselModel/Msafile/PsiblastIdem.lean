import EaselModel.Msafile.PsiblastWritable
import EaselModel.Msafile.PhylipIdem
/-! PSI-BLAST: re-writing the re-read alignment reproduces the same bytes, text mode. -/
namespace EaselModel.Msafile

/-- the text-mode writer looks at `names`, `alen`, the text rows and the consensus flags only -/
theorem psiblastWrite_congr_text (m m' : Msa) (hn : m'.names = m.names) (ha : m'.alen = m.alen)
    (hch : ∀ i, i < m.nseq → ∀ pos, pos < m.alen → psiChar none m' i pos = psiChar none m i pos) :
    psiblastWrite none m' = psiblastWrite none m := by
  have hns : m'.nseq = m.nseq := by simp [Msa.nseq, hn]
  have hblk : ∀ pos ∈ blockStarts m.alen psiCpl, psiBlockLines none m' (maxWidth m.names) pos = psiBlockLines none m (maxWidth m.names) pos := by
    intro pos hpos
    have hp := blockStarts_lt m.alen psiCpl pos hpos
    unfold psiBlockLines
    rw [hns, ha]
    congr 1
    apply List.map_congr_left
    intro i hi
    have hmap : (List.range (min 60 (m.alen - pos))).map (fun bpos => psiChar none m' i (pos + bpos))
        = (List.range (min 60 (m.alen - pos))).map (fun bpos => psiChar none m i (pos + bpos)) := by
      apply List.map_congr_left
      intro b hb
      exact hch i (List.mem_range.mp hi) (pos + b) (by have := List.mem_range.mp hb; omega)
    unfold psiRowLine
    simp only [hn, ha, psiAcpl, hmap]
  unfold psiblastWrite psiblastLines
  rw [hn, ha, flatMap_congr_phy _ _ _ hblk]

/-- on a `PsiblastTextWritable` alignment the writer prints the residue itself -/
theorem psiChar_text_id (m : Msa) (h : PsiblastTextWritable m) (i : Nat) (hi : i < m.nseq) (pos : Nat) (hpos : pos < m.alen) :
    psiChar none m i pos = aseqAt m i pos := by
  have hlen := (h.row_ok i hi).1
  have hmem : aseqAt m i pos ∈ m.aseq.getD i [] := getD_mem0 _ _ (by rw [hlen]; exact hpos)
  have hs := psi_text_sym _ ((h.row_ok i hi).2 _ hmem)
  rw [psiChar_text_eq]
  rcases h.col_ok pos hpos with hc | hc
  · rw [hc]; exact hs.1
  · cases hcc : isConsensusCol none m pos with
    | true => exact hs.1
    | false => exact hs.2.1 (hc i hi)

theorem getD_default_irrel (l : Bytes) (k : Nat) (a b : UInt8) (hk : k < l.length) : l.getD k a = l.getD k b := by
  simp [List.getD_eq_getElem?_getD, List.getElem?_eq_getElem hk]

/-- **PSI-BLAST, text mode: `write (project m) = write m`** (the RF line the reader adds marks exactly the columns
    that hold a residue, and those are written upper case as before) -/
theorem psiblastWrite_project_text (m : Msa) (h : PsiblastTextWritable m) :
    psiblastWrite none (psiblastProject (psiblastCfg none) (psiRf (fun i => m.aseq.getD i []) m) m) = psiblastWrite none m := by
  refine psiblastWrite_congr_text m (psiblastProject (psiblastCfg none) (psiRf (fun i => m.aseq.getD i []) m) m) rfl rfl ?_
  intro i hi pos hpos
  have hlen := (h.row_ok i hi).1
  have hmem : aseqAt m i pos ∈ m.aseq.getD i [] := getD_mem0 _ _ (by rw [hlen]; exact hpos)
  have hs := psi_text_sym _ ((h.row_ok i hi).2 _ hmem)
  rw [psiChar_text_id m h i hi pos hpos, psiChar_text_eq]
  have ha : aseqAt (psiblastProject (psiblastCfg none) (psiRf (fun i => m.aseq.getD i []) m) m) i pos = aseqAt m i pos := by
    simp [aseqAt, psiblastProject, psiblastCfg, Cfg.digital, List.getD_eq_getElem?_getD, hi, Msa.stored, h.dig]
  have hc : isConsensusCol none (psiblastProject (psiblastCfg none) (psiRf (fun i => m.aseq.getD i []) m) m) pos
      = isAlnum (colX (fun i => m.aseq.getD i []) m.nseq pos) := by
    simp [isConsensusCol, psiblastProject, psiRf, List.getD_eq_getElem?_getD, hpos]
  rw [ha, hc]
  by_cases h45 : aseqAt m i pos = 45
  · rw [h45]
    cases isAlnum (colX (fun i => m.aseq.getD i []) m.nseq pos) <;> decide
  · have hx : colX (fun i => m.aseq.getD i []) m.nseq pos = 120 := by
      unfold colX
      have : (List.range m.nseq).any (fun i => (m.aseq.getD i []).getD pos 45 != 45) = true := by
        rw [List.any_eq_true]
        refine ⟨i, List.mem_range.mpr hi, ?_⟩
        rw [getD_default_irrel _ pos 45 0 (by rw [hlen]; exact hpos)]
        simpa [aseqAt] using h45
      rw [if_pos this]
    rw [hx]
    exact hs.1

end EaselModel.Msafile
