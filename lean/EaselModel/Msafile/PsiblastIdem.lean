import EaselModel.Msafile.PsiblastWritable
import EaselModel.Msafile.PhylipIdem
/-! PSI-BLAST: re-writing the re-read alignment reproduces the same bytes, text mode. -/
namespace EaselModel.Msafile

/-- the text-mode writer looks at `names`, `alen`, the text rows and the consensus flags only -/
theorem psiblastWrite_congr_text (m m' : Msa) (hn : m'.names = m.names) (ha : m'.alen = m.alen)
    (hch : ∀ i, i < m.nseq → ∀ pos, pos < m.alen → psiChar none m' i pos = psiChar none m i pos) :
    psiblastWrite none m' = psiblastWrite none m := by
  have hns : m'.nseq = m.nseq := by simp [Msa.nseq, hn]
  have hblk : ∀ pos ∈ blockStarts m.alen psiCpl, psiBlockLines none m' (maxWidth m.names) pos = psiBlockLines none m (maxWidth m.names) pos := by
    intro pos hpos
    have hp := blockStarts_lt m.alen psiCpl pos hpos
    unfold psiBlockLines
    rw [hns, ha]
    congr 1
    apply List.map_congr_left
    intro i hi
    have hmap : (List.range (min 60 (m.alen - pos))).map (fun bpos => psiChar none m' i (pos + bpos))
        = (List.range (min 60 (m.alen - pos))).map (fun bpos => psiChar none m i (pos + bpos)) := by
      apply List.map_congr_left
      intro b hb
      exact hch i (List.mem_range.mp hi) (pos + b) (by have := List.mem_range.mp hb; omega)
    unfold psiRowLine
    simp only [hn, ha, psiAcpl, hmap]
  unfold psiblastWrite psiblastLines
  rw [hn, ha, flatMap_congr_phy _ _ _ hblk]

/-- on a `PsiblastTextWritable` alignment the writer prints the residue itself -/
theorem psiChar_text_id (m : Msa) (h : PsiblastTextWritable m) (i : Nat) (hi : i < m.nseq) (pos : Nat) (hpos : pos < m.alen) :
    psiChar none m i pos = aseqAt m i pos := by
  have hlen := (h.row_ok i hi).1
  have hmem : aseqAt m i pos ∈ m.aseq.getD i [] := getD_mem0 _ _ (by rw [hlen]; exact hpos)
  have hs := psi_text_sym _ ((h.row_ok i hi).2 _ hmem)
  rw [psiChar_text_eq]
  rcases h.col_ok pos hpos with hc | hc
  · rw [hc]; exact hs.1
  · cases hcc : isConsensusCol none m pos with
    | true => exact hs.1
    | false => exact hs.2.1 (hc i hi)

theorem getD_default_irrel (l : Bytes) (k : Nat) (a b : UInt8) (hk : k < l.length) : l.getD k a = l.getD k b := by
  simp [List.getD_eq_getElem?_getD, List.getElem?_eq_getElem hk]

/-- **PSI-BLAST, text mode: `write (project m) = write m`** (the RF line the reader adds marks exactly the columns
    that hold a residue, and those are written upper case as before) -/
theorem psiblastWrite_project_text (m : Msa) (h : PsiblastTextWritable m) :
    psiblastWrite none (psiblastProject (psiblastCfg none) (psiRf (fun i => m.aseq.getD i []) m) m) = psiblastWrite none m := by
  refine psiblastWrite_congr_text m (psiblastProject (psiblastCfg none) (psiRf (fun i => m.aseq.getD i []) m) m) rfl rfl ?_
  intro i hi pos hpos
  have hlen := (h.row_ok i hi).1
  have hmem : aseqAt m i pos ∈ m.aseq.getD i [] := getD_mem0 _ _ (by rw [hlen]; exact hpos)
  have hs := psi_text_sym _ ((h.row_ok i hi).2 _ hmem)
  rw [psiChar_text_id m h i hi pos hpos, psiChar_text_eq]
  have ha : aseqAt (psiblastProject (psiblastCfg none) (psiRf (fun i => m.aseq.getD i []) m) m) i pos = aseqAt m i pos := by
    simp [aseqAt, psiblastProject, psiblastCfg, Cfg.digital, List.getD_eq_getElem?_getD, hi, Msa.stored, h.dig]
  have hc : isConsensusCol none (psiblastProject (psiblastCfg none) (psiRf (fun i => m.aseq.getD i []) m) m) pos
      = isAlnum (colX (fun i => m.aseq.getD i []) m.nseq pos) := by
    simp [isConsensusCol, psiblastProject, psiRf, List.getD_eq_getElem?_getD, hpos]
  rw [ha, hc]
  by_cases h45 : aseqAt m i pos = 45
  · rw [h45]
    cases isAlnum (colX (fun i => m.aseq.getD i []) m.nseq pos) <;> decide
  · have hx : colX (fun i => m.aseq.getD i []) m.nseq pos = 120 := by
      unfold colX
      have : (List.range m.nseq).any (fun i => (m.aseq.getD i []).getD pos 45 != 45) = true := by
        rw [List.any_eq_true]
        refine ⟨i, List.mem_range.mpr hi, ?_⟩
        rw [getD_default_irrel _ pos 45 0 (by rw [hlen]; exact hpos)]
        simpa [aseqAt] using h45
      rw [if_pos this]
    rw [hx]
    exact hs.1

/-! ## digital mode -/

/-- the digital writer looks at `names`, `alen`, the digital rows and the consensus flags only -/
theorem psiblastWrite_congr_dig (a : Abc) (m m' : Msa) (hn : m'.names = m.names) (ha : m'.alen = m.alen)
    (hch : ∀ i, i < m.nseq → ∀ pos, pos < m.alen → psiChar (some a) m' i pos = psiChar (some a) m i pos) :
    psiblastWrite (some a) m' = psiblastWrite (some a) m := by
  have hns : m'.nseq = m.nseq := by simp [Msa.nseq, hn]
  have hblk : ∀ pos ∈ blockStarts m.alen psiCpl,
      psiBlockLines (some a) m' (maxWidth m.names) pos = psiBlockLines (some a) m (maxWidth m.names) pos := by
    intro pos hpos
    have hp := blockStarts_lt m.alen psiCpl pos hpos
    unfold psiBlockLines
    rw [hns, ha]
    congr 1
    apply List.map_congr_left
    intro i hi
    have hmap : (List.range (min 60 (m.alen - pos))).map (fun bpos => psiChar (some a) m' i (pos + bpos))
        = (List.range (min 60 (m.alen - pos))).map (fun bpos => psiChar (some a) m i (pos + bpos)) := by
      apply List.map_congr_left
      intro b hb
      exact hch i (List.mem_range.mp hi) (pos + b) (by have := List.mem_range.mp hb; omega)
    unfold psiRowLine
    simp only [hn, ha, psiAcpl, hmap]
  unfold psiblastWrite psiblastLines
  rw [hn, ha, flatMap_congr_phy _ _ _ hblk]

/-- table fact about an alphabet: a residue code (other than pyrrolysine) is not written as `-` -/
def psiDigResOk (a : Abc) : Bool :=
  (List.range a.kp).all fun n =>
    let x := UInt8.ofNat n
    !(a.xIsResidue x && a.sym.getD x.toNat 0 != 79) || psiDigChar a x true != 45

theorem psiDigResOk_amino : psiDigResOk abcAmino = true := by decide +kernel
theorem psiDigResOk_dna : psiDigResOk abcDna = true := by decide +kernel
theorem psiDigResOk_rna : psiDigResOk abcRna = true := by decide +kernel

theorem psi_dig_res (a : Abc) (hr : psiDigResOk a = true) (x : UInt8) (hx : x.toNat < a.kp) (hc : psiDigCode a x = true)
    (hres : a.xIsResidue x = true) : psiDigChar a x true ≠ 45 := by
  have h1 := (List.all_eq_true.mp hr) x.toNat (List.mem_range.mpr hx)
  have h79 : (a.sym.getD x.toNat 0 != 79) = true := by
    unfold psiDigCode at hc
    rw [hres, Bool.true_and, Bool.or_eq_true] at hc
    rcases hc with hc | hc
    · exact hc
    · have hk : x.toNat = a.k := by simpa using hc
      simp [Abc.xIsResidue, hk] at hres
  simp only [UInt8.ofNat_toNat, hres, h79, Bool.and_self, Bool.not_true, Bool.false_or, bne_iff_ne, ne_eq] at h1
  exact h1

/-- the codes of a row of a `PsiblastDigitalWritable` alignment: `alen` of them, each below `kp` -/
theorem psiDig_codes (a : Abc) (m : Msa) (h : PsiblastDigitalWritable a m) (i : Nat) (hi : i < m.nseq) :
    (∀ x ∈ dsqCodes (some (m.ax.getD i [])), x.toNat < a.kp) ∧ (dsqCodes (some (m.ax.getD i []))).length = m.alen := by
  cases hr : m.ax.getD i [] with
  | nil => have := (h.row_ok i hi).1; rw [hr] at this; simp [dsqRowOk] at this
  | cons s0 rest =>
    have := (h.row_ok i hi).1; rw [hr] at this
    simp only [dsqRowOk, Bool.and_eq_true, beq_iff_eq] at this
    refine ⟨?_, ?_⟩
    · intro x hx
      have hall : (dsqCodes (some (s0 :: rest))).all (fun x => decide (x.toNat < a.kp)) = true := by
        simpa [dsqCodes] using this.2
      simpa using (List.all_eq_true.mp hall) x hx
    · simp only [dsqCodes, List.drop_succ_cons, List.drop_zero, List.length_dropLast]
      omega

/-- **PSI-BLAST, digital mode: `write (project m) = write m`**: the re-read alignment carries the RF line
    `psiRf (psiDigTxt a m) m` (`x` where some row holds a residue, `-` elsewhere) where the original may have none; in a
    consensus column a residue is written upper case both times, and a non-residue is written `-` whatever the column is -/
theorem psiblastWrite_project_digital (a : Abc) (ha : psiDigSymOk a = true) (hr : psiDigResOk a = true) (m : Msa)
    (h : PsiblastDigitalWritable a m) :
    psiblastWrite (some a) (psiblastProject (psiblastCfg (some a)) (psiRf (psiDigTxt a m) m) m) = psiblastWrite (some a) m := by
  refine psiblastWrite_congr_dig a m (psiblastProject (psiblastCfg (some a)) (psiRf (psiDigTxt a m) m) m) rfl rfl ?_
  intro i hi pos hpos
  have hshape := dsqRow_shape _ _ _ (h.row_ok i hi).1
  obtain ⟨hlt, hcl⟩ := psiDig_codes a m h i hi
  have hpc : pos < (dsqCodes (some (m.ax.getD i []))).length := by rw [hcl]; exact hpos
  have hax := axAt_codes m i pos _ hshape hpc
  have hmem : axAt m i pos ∈ dsqCodes (some (m.ax.getD i [])) := by rw [hax]; exact getD_mem0 _ _ hpc
  have hcode := (h.row_ok i hi).2 _ hmem
  have hs := psi_dig_sym a ha _ (hlt _ hmem) hcode
  have hax' : axAt (psiblastProject (psiblastCfg (some a)) (psiRf (psiDigTxt a m) m) m) i pos = axAt m i pos := by
    simp [axAt, psiblastProject, psiblastCfg, Cfg.digital, List.getD_eq_getElem?_getD, hi, Msa.stored, h.dig]
  have hc : isConsensusCol (some a) (psiblastProject (psiblastCfg (some a)) (psiRf (psiDigTxt a m) m) m) pos
      = isAlnum (colX (psiDigTxt a m) m.nseq pos) := by
    simp [isConsensusCol, psiblastProject, psiRf, List.getD_eq_getElem?_getD, hpos]
  rw [psiChar_dig_eq, psiChar_dig_eq, hax', hc]
  cases hres : a.xIsResidue (axAt m i pos) with
  | false => simp [psiDigChar, hres]
  | true =>
    have hx : colX (psiDigTxt a m) m.nseq pos = 120 := by
      unfold colX
      have : (List.range m.nseq).any (fun i => (psiDigTxt a m i).getD pos 45 != 45) = true := by
        rw [List.any_eq_true]
        refine ⟨i, List.mem_range.mpr hi, ?_⟩
        have hl : (psiDigTxt a m i).length = m.alen := by simp only [psiDigTxt, List.length_map]; exact hcl
        rw [getD_default_irrel _ pos 45 0 (by rw [hl]; exact hpos)]
        have htx : (psiDigTxt a m i).getD pos 0 = psiDigChar a (axAt m i pos) true := by
          rw [hax]; exact getD_map0 _ _ _ hpc
        rw [htx]
        simpa using psi_dig_res a hr _ (hlt _ hmem) hcode hres
      rw [if_pos this]
    rw [hx]
    have h120 : isAlnum 120 = true := by decide
    rw [h120]
    rcases h.col_ok pos hpos with hcc | hcc
    · rw [hcc]
    · have hk := hcc i hi
      simp [Abc.xIsResidue, hk] at hres

end EaselModel.Msafile
