import EaselModel.Msafile.Lemmas
import EaselModel.Msafile.AfaLemmas
import EaselModel.Msafile.Selex
/-! Invariant of the SELEX reader and the facts the C01 theorems are glued from. -/
namespace EaselModel.Msafile

/-! ## heap rows: `realloc`, `writeAt`, `fillRow` -/

theorem writeAt_app (b pre rest seg : Bytes) (pos : Nat) (hb : b = pre ++ rest) (hp : pos = pre.length)
    (hl : seg.length ≤ rest.length) : writeAt b pos seg = some (pre ++ seg ++ rest.drop seg.length) := by
  subst hb hp
  unfold writeAt
  have h1 : pre.length + seg.length ≤ (pre ++ rest).length := by simp; omega
  simp only [h1, if_true, Option.some.injEq]
  have h2 : (pre ++ rest).take pre.length = pre := by simp
  have h3 : (pre ++ rest).drop (pre.length + seg.length) = rest.drop seg.length := by
    rw [List.drop_append]; simp
  rw [h2, h3]

theorem realloc_length (p : UInt8) (old : Option Bytes) (n : Nat) : (realloc p old n).length = n := by
  unfold realloc
  simp only [List.length_append, List.length_take, List.length_replicate]
  omega

theorem realloc_take (p : UInt8) (old : Option Bytes) (n k : Nat) (hk : k ≤ n) (ho : k ≤ (old.getD []).length) :
    (realloc p old n).take k = (old.getD []).take k := by
  unfold realloc
  rw [List.take_append_of_le_length (by simp; omega), List.take_take]
  congr 1; omega

/-- a reallocated row splits into the kept prefix and `n - k` bytes to be written -/
theorem realloc_split (p : UInt8) (old : Option Bytes) (n k : Nat) (hk : k ≤ n) (ho : k ≤ (old.getD []).length) :
    ∃ R, realloc p old n = (old.getD []).take k ++ R ∧ R.length = n - k := by
  refine ⟨(realloc p old n).drop k, ?_, ?_⟩
  · rw [← realloc_take p old n k hk ho]; simp
  · simp [realloc_length]

/-- with the allocation the C code computes, the four writes of `fillRow` stay inside the row and fill it exactly -/
theorem fillRow_eq (buf P R : Bytes) (off alen nadd nleft : Nat) (body tail : Bytes) (pad term : UInt8)
    (hb : buf = P ++ R) (hP : P.length = off + alen) (hR : R.length = nadd + 1)
    (hfit : nleft + body.length ≤ nadd) (htail : tail.length ≤ 1) :
    fillRow buf off alen nadd nleft body tail pad term =
      some (P ++ List.replicate nleft pad ++ body ++ List.replicate (nadd - nleft - body.length) pad ++ [term]) := by
  unfold fillRow
  have w1 := writeAt_app buf P R (List.replicate nleft pad) (off + alen) hb hP.symm (by simp; omega)
  rw [w1]; simp only
  have w2 := writeAt_app (P ++ List.replicate nleft pad ++ R.drop (List.replicate nleft pad).length)
    (P ++ List.replicate nleft pad) (R.drop nleft) (body ++ tail) (off + alen + nleft)
    (by simp) (by simp; omega) (by simp; omega)
  rw [w2]; simp only
  have hpads : alen + nadd - (alen + nleft + body.length) = nadd - nleft - body.length := by omega
  rw [hpads]
  have w3 := writeAt_app (P ++ List.replicate nleft pad ++ (body ++ tail) ++ (R.drop nleft).drop (body ++ tail).length)
    (P ++ List.replicate nleft pad ++ body) (tail ++ (R.drop nleft).drop (body ++ tail).length)
    (List.replicate (nadd - nleft - body.length) pad) (off + (alen + nleft + body.length))
    (by simp) (by simp; omega) (by simp; omega)
  rw [w3]; simp only
  have w4 := writeAt_app
    (P ++ List.replicate nleft pad ++ body ++ List.replicate (nadd - nleft - body.length) pad ++
      (tail ++ (R.drop nleft).drop (body ++ tail).length).drop (List.replicate (nadd - nleft - body.length) pad).length)
    (P ++ List.replicate nleft pad ++ body ++ List.replicate (nadd - nleft - body.length) pad)
    ((tail ++ (R.drop nleft).drop (body ++ tail).length).drop (List.replicate (nadd - nleft - body.length) pad).length)
    [term] (off + (alen + nleft + body.length) + (nadd - nleft - body.length))
    rfl (by simp; omega) (by simp; omega)
  rw [w4]
  simp only [Option.some.injEq, List.append_assoc, List.append_cancel_left_eq]
  have : ((tail ++ (R.drop nleft).drop (body ++ tail).length).drop (List.replicate (nadd - nleft - body.length) pad).length).drop [term].length = [] := by
    apply List.drop_eq_nil_of_le
    simp; omega
  rw [this]; simp

/-! ## the input map of SELEX never ignores a character: one stored symbol per input byte -/

def InMap.noIgnored (m : InMap) : Bool :=
  (List.range 128).all fun c => m.get (UInt8.ofNat c) != dsqIGNORED

/-- what the SELEX reader needs of its configuration beyond `Cfg.valid`: no IGNORED character (else "unexpected
    inconsistency appending a sequence" is thrown), and the gap code used for padding is a symbol of the alphabet -/
def Cfg.selexOk (c : Cfg) : Bool :=
  c.inmap.noIgnored && (match c.abc with | some a => decide (a.gap.toNat < a.kp) | none => true)

theorem mapByte_some (m : InMap) (h : m.noIgnored = true) (c : UInt8) :
    (mapByte m c).1 = .exc ∨ ∃ x, (mapByte m c).2 = some x := by
  unfold mapByte
  by_cases ha : isAscii c
  · simp only [ha, Bool.not_true, Bool.false_eq_true, if_false]
    have h2 := (List.all_eq_true.mp h) c.toNat (by
      simp only [isAscii, decide_eq_true_eq] at ha
      exact List.mem_range.mpr (by exact ha))
    simp only [UInt8.ofNat_toNat] at h2
    by_cases h1 : m.get c ≤ 127
    · simp [h1]
    · simp only [h1, if_false]
      by_cases h3 : (m.get c == dsqILLEGAL) = true
      · simp [h3]
      · simp only [h3, Bool.false_eq_true, if_false]
        by_cases h4 : (m.get c == dsqIGNORED) = true
        · exfalso; simp only [bne_iff_ne, ne_eq] at h2; exact h2 (by simpa using h4)
        · simp [h4]
  · simp [ha]

theorem mapLoop_length (m : InMap) (h : m.noIgnored = true) :
    ∀ (src : Bytes) (st : CatSt) (acc : Bytes), (mapLoop m src st acc).1 ≠ .exc →
      (mapLoop m src st acc).2.length = acc.length + src.length := by
  intro src
  induction src with
  | nil => intro st acc _; simp [mapLoop]
  | cons c rest ih =>
    intro st acc hne
    unfold mapLoop at hne ⊢
    have hb := mapByte_some m h c
    cases hm : mapByte m c with
    | mk s o =>
      rw [hm] at hb hne
      cases s <;> cases o <;> simp only at hne ⊢
      · simp at hb
      · rw [ih _ _ hne]; simp; omega
      · simp at hb
      · rw [ih _ _ hne]; simp; omega
      · exact absurd rfl hne
      · exact absurd rfl hne

/-! ## rows between blocks -/

/-- a C-string row: `alen` non-NUL characters and the terminator, in an allocation of `alen + 1` -/
def TxtOk (alen : Nat) (b : Bytes) : Prop := ∃ c, b = c ++ [0] ∧ c.length = alen ∧ c.all (· != 0) = true

/-- what `ESL_REALLOC` may find in a text slot: NULL before the first columns, or a good row of at least `alen` columns -/
def PreTxt (alen : Nat) (old : Option Bytes) : Prop :=
  (old = none ∧ alen = 0) ∨ ∃ b L, old = some b ∧ alen ≤ L ∧ TxtOk L b

def PreDig (kp alen : Nat) (old : Option Bytes) : Prop :=
  (old = none ∧ alen = 0) ∨ ∃ b L, old = some b ∧ alen ≤ L ∧ dsqRowOk kp L b = true

theorem all_take {α : Type} (p : α → Bool) (l : List α) (n : Nat) (h : l.all p = true) : (l.take n).all p = true := by
  rw [List.all_eq_true] at h ⊢
  intro x hx; exact h x (List.mem_of_mem_take hx)

theorem preTxt_prefix (alen : Nat) (old : Option Bytes) (h : PreTxt alen old) :
    ∃ c, c.length = alen ∧ c.all (· != 0) = true ∧ alen ≤ (old.getD []).length ∧ (old.getD []).take alen = c := by
  rcases h with ⟨h1, h2⟩ | ⟨b, L, h1, h2, c, hb, hc, hall⟩
  · subst h1 h2; exact ⟨[], rfl, rfl, by simp, by simp⟩
  · subst h1 hb
    refine ⟨c.take alen, by simp; omega, all_take _ _ _ hall, by simp; omega, ?_⟩
    simp only [Option.getD_some]
    rw [List.take_append_of_le_length (by omega)]

theorem dsqRowOk_shape (kp alen : Nat) (r : Bytes) (h : dsqRowOk kp alen r = true) :
    ∃ codes, r = dsqSENTINEL :: (codes ++ [dsqSENTINEL]) ∧ codes.length = alen ∧
      codes.all (fun x => decide (x.toNat < kp)) = true := by
  cases r with
  | nil => simp [dsqRowOk] at h
  | cons s0 rest =>
    simp only [dsqRowOk, Bool.and_eq_true, beq_iff_eq] at h
    obtain ⟨⟨⟨h0, hlen⟩, hlast⟩, hall⟩ := h
    have hne : rest ≠ [] := by intro h'; subst h'; simp at hlen
    have hl : rest.getLast hne = dsqSENTINEL := by
      rw [List.getLast?_eq_some_getLast hne] at hlast; simpa using hlast
    refine ⟨rest.dropLast, ?_, by simp; omega, hall⟩
    rw [h0, ← hl, List.dropLast_concat_getLast hne]

/-- the part of a reallocated digital row that is kept, after `if (msa->alen == 0) ax[0] = eslDSQ_SENTINEL` -/
theorem preDig_split (kp alen nadd : Nat) (old : Option Bytes) (h : PreDig kp alen old) :
    ∃ codes R, (if alen == 0 then writeAt (realloc dsqSENTINEL old (alen + nadd + 2)) 0 [dsqSENTINEL]
                else some (realloc dsqSENTINEL old (alen + nadd + 2))) = some ((dsqSENTINEL :: codes) ++ R) ∧
      codes.length = alen ∧ codes.all (fun x => decide (x.toNat < kp)) = true ∧ R.length = nadd + 1 := by
  rcases h with ⟨h1, h2⟩ | ⟨b, L, h1, h2, hb⟩
  · subst h1 h2
    refine ⟨[], List.replicate (nadd + 1) dsqSENTINEL, ?_, rfl, rfl, by simp⟩
    have hr : realloc dsqSENTINEL none (0 + nadd + 2) = [] ++ List.replicate (nadd + 2) dsqSENTINEL := by
      simp [realloc]
    simp only [beq_self_eq_true, if_true]
    rw [writeAt_app _ [] (List.replicate (nadd + 2) dsqSENTINEL) [dsqSENTINEL] 0 hr rfl (by simp)]
    simp [List.replicate_succ]
  · obtain ⟨codes, hr, hcl, hall⟩ := dsqRowOk_shape kp L b hb
    subst h1
    obtain ⟨R, hsplit, hRl⟩ := realloc_split dsqSENTINEL (some b) (alen + nadd + 2) (alen + 1) (by omega)
      (by simp [hr]; omega)
    have htake : ((some b).getD []).take (alen + 1) = dsqSENTINEL :: codes.take alen := by
      simp only [Option.getD_some, hr, List.take_succ_cons]
      rw [List.take_append_of_le_length (by omega)]
    rw [htake] at hsplit
    refine ⟨codes.take alen, R, ?_, by simp; omega, all_take _ _ _ hall, by omega⟩
    by_cases h0 : alen = 0
    · subst h0
      simp only [beq_self_eq_true, if_true]
      have hs' : realloc dsqSENTINEL (some b) (0 + nadd + 2) = [] ++ (dsqSENTINEL :: (codes.take 0 ++ R)) := by
        rw [hsplit]; simp
      rw [writeAt_app _ [] _ [dsqSENTINEL] 0 hs' rfl (by simp)]
      simp
    · have : (alen == 0) = false := by simpa using h0
      simp only [this, Bool.false_eq_true, if_false, hsplit]

/-! ## building one row -/

/-- outcome of building one row: a documented error, or a row satisfying `P` -/
def BuildGood (P : Bytes → Prop) (x : Sum (Res Msa) Bytes) : Prop :=
  match x with
  | .inl r => Good r
  | .inr b => P b

@[simp] theorem buildGood_inl (P : Bytes → Prop) (r : Res Msa) : BuildGood P (.inl r) = Good r := rfl
@[simp] theorem buildGood_inr (P : Bytes → Prop) (b : Bytes) : BuildGood P (.inr b : Sum (Res Msa) Bytes) = P b := rfl

theorem all_ne_zero_of_not_contains_slx (l : Bytes) (h : l.contains 0 = false) : l.all (· != 0) = true := by
  rw [List.all_eq_true]
  intro x hx
  simp only [bne_iff_ne, ne_eq]
  intro h0; subst h0
  simp only [List.contains_eq_mem, decide_eq_false_iff_not] at h
  exact h hx

theorem txtOk_build (c body : Bytes) (alen nadd nleft : Nat) (hc : c.length = alen) (hca : c.all (· != 0) = true)
    (hba : body.all (· != 0) = true) (hfit : nleft + body.length ≤ nadd) :
    TxtOk (alen + nadd) (c ++ List.replicate nleft 46 ++ body ++ List.replicate (nadd - nleft - body.length) 46 ++ [0]) := by
  refine ⟨c ++ List.replicate nleft 46 ++ body ++ List.replicate (nadd - nleft - body.length) 46, rfl, ?_, ?_⟩
  · simp only [List.length_append, List.length_replicate]; omega
  · simp only [List.all_append, hca, hba, Bool.and_true, Bool.true_and, Bool.and_eq_true]
    constructor <;> (rw [List.all_eq_true]; intro x hx; rw [List.mem_replicate] at hx; rw [hx.2]; decide)

theorem buildAnnRow_good (alen nadd nleft ntext : Nat) (src : Bytes) (old : Option Bytes)
    (hfit : nleft + ntext ≤ nadd) (hsrc : src.length = ntext) (hold : PreTxt alen old) :
    BuildGood (TxtOk (alen + nadd)) (buildAnnRow alen nadd nleft ntext src old) := by
  unfold buildAnnRow
  simp only
  split
  · simp
  · rename_i hnul
    have hsa : src.all (· != 0) = true := by
      by_cases h0 : ntext = 0
      · have : src = [] := List.eq_nil_of_length_eq_zero (by omega)
        subst this; rfl
      · have : (ntext != 0) = true := by simpa using h0
        simp only [this, Bool.true_and, Bool.not_eq_true] at hnul
        exact all_ne_zero_of_not_contains_slx src hnul
    obtain ⟨c, hcl, hca, hle, htk⟩ := preTxt_prefix alen old hold
    obtain ⟨R, hsplit, hRl⟩ := realloc_split 0 old (alen + nadd + 1) alen (by omega) hle
    rw [htk] at hsplit
    rw [fillRow_eq _ c R 0 alen nadd nleft src [] 46 0 hsplit (by omega) (by omega) (by omega) (by simp)]
    simp only [buildGood_inr]
    exact txtOk_build c src alen nadd nleft hcl hca hsa (by omega)

/-- the row buffers of sequence lines -/
def RowBufOk (cfg : Cfg) (alen : Nat) (b : Bytes) : Prop :=
  if cfg.digital then dsqRowOk cfg.kp alen b = true else TxtOk alen b

def PreRow (cfg : Cfg) (alen : Nat) (old : Option Bytes) : Prop :=
  if cfg.digital then PreDig cfg.kp alen old else PreTxt alen old

theorem all_replicate {α : Type} (p : α → Bool) (n : Nat) (a : α) (h : p a = true) : (List.replicate n a).all p = true := by
  rw [List.all_eq_true]; intro x hx; rw [List.mem_replicate] at hx; rw [hx.2]; exact h

theorem buildSeqRow_good (cfg : Cfg) (hv : cfg.valid) (hs : cfg.selexOk = true) (alen nadd nleft ntext : Nat) (src : Bytes)
    (old : Option Bytes) (hfit : nleft + ntext ≤ nadd) (hsrc : src.length = ntext) (hold : PreRow cfg alen old) :
    BuildGood (RowBufOk cfg (alen + nadd)) (buildSeqRow cfg alen nadd nleft ntext src old) := by
  unfold Cfg.selexOk at hs
  rw [Bool.and_eq_true] at hs
  have hne := mapLoop_noExc cfg.inmap hv.noExc src .ok [] (by simp)
  have hlen := mapLoop_length cfg.inmap hs.1 src .ok [] hne
  simp only [List.length_nil, Nat.zero_add] at hlen
  unfold buildSeqRow
  cases hm : mapLoop cfg.inmap src .ok [] with
  | mk st racc =>
    rw [hm] at hne hlen
    simp only at hne hlen
    have hbl : racc.reverse.length = ntext := by simp [hlen, hsrc]
    simp only
    cases ha : cfg.abc with
    | some a =>
      have hd : cfg.digital = true := by simp [Cfg.digital, ha]
      have hkp : cfg.kp = a.kp := by simp [Cfg.kp, ha]
      have hgap : a.gap.toNat < cfg.kp := by
        have := hs.2; rw [ha] at this; rw [hkp]; simpa using this
      have hem := hv.emits; simp only [hd, if_true] at hem
      have hbody : racc.reverse.all (fun x => decide (x.toNat < cfg.kp)) = true := by
        have := mapLoop_all' cfg.inmap _ hem src
        rw [hm] at this; exact this
      simp only [PreRow, hd, if_true] at hold
      obtain ⟨codes, R, hbuf, hcl, hcall, hRl⟩ := preDig_split cfg.kp alen nadd old hold
      simp only
      rw [hbuf]
      simp only
      split
      · rename_i hexc; exfalso; apply hne; simpa using hexc
      · rw [fillRow_eq _ (dsqSENTINEL :: codes) R 1 alen nadd nleft racc.reverse [dsqSENTINEL] a.gap dsqSENTINEL rfl
          (by simp; omega) hRl (by omega) (by simp)]
        simp only
        split
        · simp
        · split
          · rename_i hbad; exfalso; simp [hbl] at hbad
          · simp only [buildGood_inr, RowBufOk, hd, if_true]
            have hall : (codes ++ List.replicate nleft a.gap ++ racc.reverse ++
                List.replicate (nadd - nleft - racc.reverse.length) a.gap).all (fun x => decide (x.toNat < cfg.kp)) = true := by
              simp only [List.all_append, hcall, hbody, Bool.and_true, Bool.true_and, Bool.and_eq_true]
              exact ⟨all_replicate _ _ _ (by simpa using hgap), all_replicate _ _ _ (by simpa using hgap)⟩
            have hb := dsqRowOk_build cfg.kp _ hall
            have hl : (codes ++ List.replicate nleft a.gap ++ racc.reverse ++
                List.replicate (nadd - nleft - racc.reverse.length) a.gap).length = alen + nadd := by
              simp only [List.length_append, List.length_replicate]; omega
            rw [hl] at hb
            simpa using hb
    | none =>
      have hd : cfg.digital = false := by simp [Cfg.digital, ha]
      have hem := hv.emits; simp only [hd, Bool.false_eq_true, if_false] at hem
      have hbody : racc.reverse.all (· != 0) = true := by
        have := mapLoop_all' cfg.inmap _ hem src
        rw [hm] at this; exact this
      simp only [PreRow, hd, Bool.false_eq_true, if_false] at hold
      obtain ⟨c, hcl, hca, hle, htk⟩ := preTxt_prefix alen old hold
      obtain ⟨R, hsplit, hRl⟩ := realloc_split 0 old (alen + nadd + 1) alen (by omega) hle
      rw [htk] at hsplit
      simp only
      split
      · rename_i hexc; exfalso; apply hne; simpa using hexc
      · rw [fillRow_eq _ c R 0 alen nadd nleft racc.reverse [0] 46 0 hsplit (by omega) (by omega) (by omega) (by simp)]
        simp only
        split
        · simp
        · split
          · rename_i hbad; exfalso; simp [hbl] at hbad
          · simp only [buildGood_inr, RowBufOk, hd, Bool.false_eq_true, if_false]
            exact txtOk_build c racc.reverse alen nadd nleft hcl hca hbody (by omega)

/-! ## slots -/

theorem get_set_same (m : SxMsa) (s : Slot) (row : Bytes) (h : (m.get s).isSome = true) :
    (m.set s row).get s = some (some row) := by
  cases s with
  | sq i =>
    simp only [SxMsa.get, SxMsa.set] at h ⊢
    have hi : i < m.rows.length := by
      cases hh : m.rows[i]? with
      | none => rw [hh] at h; simp at h
      | some v => exact (List.getElem?_eq_some_iff.mp hh).1
    simp [List.getElem?_set, hi]
  | rf => rfl
  | mm => rfl
  | cs => rfl
  | ss i =>
    simp only [SxMsa.get, SxMsa.set] at h ⊢
    cases hs : m.ss with
    | none => rw [hs] at h; simp at h
    | some l =>
      rw [hs] at h
      simp only [Option.map_some] at h ⊢
      have hi : i < l.length := by
        cases hh : l[i]? with
        | none => rw [hh] at h; simp at h
        | some v => exact (List.getElem?_eq_some_iff.mp hh).1
      simp [List.getElem?_set, hi]
  | sa i =>
    simp only [SxMsa.get, SxMsa.set] at h ⊢
    cases hs : m.sa with
    | none => rw [hs] at h; simp at h
    | some l =>
      rw [hs] at h
      simp only [Option.map_some] at h ⊢
      have hi : i < l.length := by
        cases hh : l[i]? with
        | none => rw [hh] at h; simp at h
        | some v => exact (List.getElem?_eq_some_iff.mp hh).1
      simp [List.getElem?_set, hi]

theorem get_set_other (m : SxMsa) (s s' : Slot) (row : Bytes) (h : s ≠ s') : (m.set s row).get s' = m.get s' := by
  cases s <;> cases s' <;> first | rfl | exact absurd rfl h | skip
  · rename_i i j
    have : i ≠ j := fun e => h (by rw [e])
    simp [SxMsa.get, SxMsa.set, List.getElem?_set, this]
  · rename_i i j
    have : i ≠ j := fun e => h (by rw [e])
    simp only [SxMsa.get, SxMsa.set]
    cases m.ss with
    | none => rfl
    | some l => simp [List.getElem?_set, this]
  · rename_i i j
    have : i ≠ j := fun e => h (by rw [e])
    simp only [SxMsa.get, SxMsa.set]
    cases m.sa with
    | none => rfl
    | some l => simp [List.getElem?_set, this]

/-- what `set` leaves alone -/
structure SameFrame (m m' : SxMsa) : Prop where
  nseq : m'.nseq = m.nseq
  names : m'.names = m.names
  alen : m'.alen = m.alen
  rows_len : m'.rows.length = m.rows.length
  ss_len : m'.ss.map List.length = m.ss.map List.length
  sa_len : m'.sa.map List.length = m.sa.map List.length

theorem sameFrame_refl (m : SxMsa) : SameFrame m m := ⟨rfl, rfl, rfl, rfl, rfl, rfl⟩

theorem sameFrame_trans {a b c : SxMsa} (h1 : SameFrame a b) (h2 : SameFrame b c) : SameFrame a c :=
  ⟨h2.nseq.trans h1.nseq, h2.names.trans h1.names, h2.alen.trans h1.alen, h2.rows_len.trans h1.rows_len,
   h2.ss_len.trans h1.ss_len, h2.sa_len.trans h1.sa_len⟩

theorem sameFrame_set (m : SxMsa) (s : Slot) (row : Bytes) : SameFrame m (m.set s row) := by
  cases s <;> refine ⟨rfl, rfl, rfl, ?_, ?_, ?_⟩ <;> simp only [SxMsa.set, List.length_set] <;> try rfl
  · cases m.ss <;> simp
  · cases m.sa <;> simp

/-- a good row buffer for the slot -/
def SlotOk (cfg : Cfg) (s : Slot) (alen : Nat) (b : Bytes) : Prop :=
  match s with
  | .sq _ => RowBufOk cfg alen b
  | _ => TxtOk alen b

/-- what `ESL_REALLOC` may find in the slot when the alignment has `alen` columns -/
def PreSlot (cfg : Cfg) (s : Slot) (alen : Nat) (old : Option Bytes) : Prop :=
  match s with
  | .sq _ => PreRow cfg alen old
  | _ => PreTxt alen old

theorem preSlot_none (cfg : Cfg) (s : Slot) : PreSlot cfg s 0 none := by
  cases s <;> simp only [PreSlot, PreRow] <;> first | exact Or.inl ⟨rfl, rfl⟩ | skip
  split <;> exact Or.inl ⟨rfl, rfl⟩

theorem preSlot_some (cfg : Cfg) (s : Slot) (alen L : Nat) (b : Bytes) (h : SlotOk cfg s L b) (hl : alen ≤ L) :
    PreSlot cfg s alen (some b) := by
  cases s <;> simp only [PreSlot, SlotOk, PreRow, RowBufOk, PreTxt, PreDig] at h ⊢ <;> try (exact Or.inr ⟨b, L, rfl, hl, h⟩)
  by_cases hd : cfg.digital = true
  · simp only [hd, if_true] at h ⊢; exact Or.inr ⟨b, L, rfl, hl, h⟩
  · simp only [hd, if_false] at h ⊢; exact Or.inr ⟨b, L, rfl, hl, h⟩

/-! ## one line of `selex_append_block` -/

/-- what is known about a line's positions once `leftmost` and `nadd` are computed -/
def PosOk (leftmost : Int) (nadd : Nat) (b : BLine) : Prop :=
  b.lpos = -1 ∨ (0 ≤ b.lpos ∧ leftmost ≤ b.lpos ∧ b.lpos ≤ b.rpos ∧ b.rpos < b.line.length ∧ b.rpos - leftmost + 1 ≤ nadd)

/-- the outcome of a block-level step: a documented error, or a new alignment satisfying `P` -/
def MsaGood (P : SxMsa → Prop) (x : Sum (Res Msa) SxMsa) : Prop :=
  match x with
  | .inl r => Good r
  | .inr m => P m

@[simp] theorem msaGood_inl (P : SxMsa → Prop) (r : Res Msa) : MsaGood P (.inl r) = Good r := rfl
@[simp] theorem msaGood_inr (P : SxMsa → Prop) (m : SxMsa) : MsaGood P (.inr m : Sum (Res Msa) SxMsa) = P m := rfl

theorem slotOf_sq_iff (t : LType) (seqi : Nat) (s : Slot) (h : slotOf t seqi = some s) :
    (t = .sq → s = .sq seqi) ∧ (t ≠ .sq → ∀ i, s ≠ .sq i) := by
  cases t <;> simp only [slotOf] at h
  · simp at h; subst h; simp
  · simp at h; subst h; simp
  · simp at h; subst h; simp
  · split at h
    · simp at h
    · simp at h; subst h; simp
  · split at h
    · simp at h
    · simp at h; subst h; simp
  · simp at h; subst h; simp

theorem appendLine_good (cfg : Cfg) (hv : cfg.valid) (hs : cfg.selexOk = true) (alen nadd : Nat) (leftmost : Int)
    (seqi : Nat) (m : SxMsa) (b : BLine) (hpos : PosOk leftmost nadd b)
    (s : Slot) (hslot : slotOf b.ty seqi = some s) (old : Option Bytes) (hget : m.get s = some old)
    (hpre : PreSlot cfg s alen old) :
    MsaGood (fun m' => ∃ row, m' = m.set s row ∧ SlotOk cfg s (alen + nadd) row)
      (appendLine cfg alen nadd leftmost seqi m b) := by
  -- the counts as naturals
  have hcounts : ∃ nl nt : Nat,
      (if b.lpos != -1 then b.lpos - leftmost else (nadd : Int)) = (nl : Int) ∧
      (if b.lpos != -1 then b.rpos - b.lpos + 1 else (0 : Int)) = (nt : Int) ∧
      nl + nt ≤ nadd ∧ (nt ≠ 0 → 0 ≤ b.lpos ∧ b.lpos + (nt : Int) ≤ b.line.length) := by
    rcases hpos with h | ⟨h0, h1, h2, h3, h4⟩
    · refine ⟨nadd, 0, ?_, ?_, by omega, by simp⟩ <;> simp [h]
    · have hne : (b.lpos != -1) = true := by simp; omega
      refine ⟨(b.lpos - leftmost).toNat, (b.rpos - b.lpos + 1).toNat, ?_, ?_, ?_, ?_⟩
      · simp only [hne, if_true]; omega
      · simp only [hne, if_true]; omega
      · omega
      · intro _; constructor <;> omega
  obtain ⟨nl, nt, hnl, hnt, hfit, hrange⟩ := hcounts
  unfold appendLine
  simp only [hnl, hnt]
  have g1 : ((nl : Int) < 0 || (nt : Int) < 0) = false := by simp
  have g2 : ((nt : Int) != 0 && (decide (b.lpos < 0) || decide (b.lpos + (nt : Int) > (b.line.length : Int)))) = false := by
    by_cases h0 : nt = 0
    · simp [h0]
    · have := hrange h0
      simp; intro _; constructor <;> omega
  simp only [g1, g2, Bool.false_eq_true, if_false, hslot, hget, Int.toNat_natCast]
  have hsrc : ((b.line.drop b.lpos.toNat).take nt).length = nt := by
    simp only [List.length_take, List.length_drop]
    by_cases h0 : nt = 0
    · omega
    · have := hrange h0; omega
  obtain ⟨hsq, hnsq⟩ := slotOf_sq_iff b.ty seqi s hslot
  by_cases hty : b.ty = .sq
  · have hs' := hsq hty
    subst hs'
    simp only [hty, beq_self_eq_true, if_true]
    have := buildSeqRow_good cfg hv hs alen nadd nl nt _ old hfit hsrc hpre
    cases hb : buildSeqRow cfg alen nadd nl nt ((b.line.drop b.lpos.toNat).take nt) old with
    | inl r => rw [hb] at this; simpa using this
    | inr row => rw [hb] at this; exact ⟨row, rfl, this⟩
  · have hbeq : (b.ty == LType.sq) = false := by simpa using hty
    simp only [hbeq, Bool.false_eq_true, if_false]
    have hpre' : PreTxt alen old := by
      cases s <;> first | exact hpre | exact absurd rfl (hnsq hty _)
    have := buildAnnRow_good alen nadd nl nt _ old hfit hsrc hpre'
    cases hb : buildAnnRow alen nadd nl nt ((b.line.drop b.lpos.toNat).take nt) old with
    | inl r => rw [hb] at this; simpa using this
    | inr row =>
      rw [hb] at this
      refine ⟨row, rfl, ?_⟩
      cases s <;> first | exact this | exact absurd rfl (hnsq hty _)

/-! ## the append loop -/

/-- the slots the lines of a block are appended to, when `seqi` sequence lines came before -/
def slotsOf : List LType → Nat → List Slot
  | [], _ => []
  | t :: ts, seqi => (slotOf t seqi).toList ++ slotsOf ts (if t == .sq then seqi + 1 else seqi)

/-- every line selects a pointer that exists (`#=SS` / `#=SA` only after a sequence line) -/
def typesOk : List LType → Nat → Bool
  | [], _ => true
  | t :: ts, seqi => (slotOf t seqi).isSome && typesOk ts (if t == .sq then seqi + 1 else seqi)

def countSq : List LType → Nat
  | [] => 0
  | t :: ts => (if t == .sq then 1 else 0) + countSq ts

/-- loop invariant of the append loop: the slots of the lines done hold rows of the new length, the others are untouched -/
structure AppInv (cfg : Cfg) (m0 : SxMsa) (newlen : Nat) (done : List Slot) (m : SxMsa) : Prop where
  frame : SameFrame m0 m
  done_ok : ∀ s ∈ done, ∃ b, m.get s = some (some b) ∧ SlotOk cfg s newlen b
  rest_same : ∀ s, s ∉ done → m.get s = m0.get s

theorem appendLines_good (cfg : Cfg) (hv : cfg.valid) (hs : cfg.selexOk = true) (alen nadd : Nat) (leftmost : Int) (m0 : SxMsa) :
    ∀ (bs : List BLine) (seqi : Nat) (done : List Slot) (m : SxMsa),
      typesOk (bs.map (·.ty)) seqi = true →
      (∀ b ∈ bs, PosOk leftmost nadd b) →
      (∀ s ∈ slotsOf (bs.map (·.ty)) seqi, ∃ old, m0.get s = some old ∧ PreSlot cfg s alen old) →
      AppInv cfg m0 (alen + nadd) done m →
      MsaGood (AppInv cfg m0 (alen + nadd) (done ++ slotsOf (bs.map (·.ty)) seqi))
        (appendLines cfg alen nadd leftmost bs seqi m) := by
  intro bs
  induction bs with
  | nil =>
    intro seqi done m _ _ _ hinv
    simpa [appendLines, slotsOf] using hinv
  | cons b bs ih =>
    intro seqi done m hty hpos hpre hinv
    simp only [List.map_cons, typesOk, Bool.and_eq_true] at hty
    obtain ⟨hsome, hty'⟩ := hty
    obtain ⟨s, hslot⟩ := Option.isSome_iff_exists.mp hsome
    have hslots : slotsOf ((b :: bs).map (·.ty)) seqi = [s] ++ slotsOf (bs.map (·.ty)) (if b.ty == .sq then seqi + 1 else seqi) := by
      simp [slotsOf, hslot]
    rw [hslots] at hpre ⊢
    -- what the slot holds now
    have hold : ∃ old, m.get s = some old ∧ PreSlot cfg s alen old := by
      by_cases hd : s ∈ done
      · obtain ⟨b', hg, hok⟩ := hinv.done_ok s hd
        exact ⟨some b', hg, preSlot_some cfg s alen (alen + nadd) b' hok (by omega)⟩
      · rw [hinv.rest_same s hd]
        exact hpre s (by simp)
    obtain ⟨old, hget, hpreold⟩ := hold
    have hline := appendLine_good cfg hv hs alen nadd leftmost seqi m b (hpos b (by simp)) s hslot old hget hpreold
    unfold appendLines
    cases hal : appendLine cfg alen nadd leftmost seqi m b with
    | inl r => rw [hal] at hline; simpa using hline
    | inr m' =>
      rw [hal] at hline
      simp only [msaGood_inr] at hline
      obtain ⟨row, hm', hrow⟩ := hline
      simp only
      have hinv' : AppInv cfg m0 (alen + nadd) (done ++ [s]) m' := by
        subst hm'
        refine ⟨sameFrame_trans hinv.frame (sameFrame_set m s row), ?_, ?_⟩
        · intro s' hs'
          by_cases he : s' = s
          · subst he
            exact ⟨row, get_set_same m s' row (by rw [hget]; rfl), hrow⟩
          · have hd : s' ∈ done := by
              rcases List.mem_append.mp hs' with h | h
              · exact h
              · simp at h; exact absurd h he
            rw [get_set_other m s s' row (Ne.symm he)]
            exact hinv.done_ok s' hd
        · intro s' hs'
          have hne : s ≠ s' := by intro e; apply hs'; simp [e]
          have hnd : s' ∉ done := by intro e; apply hs'; simp [e]
          rw [get_set_other m s s' row hne]
          exact hinv.rest_same s' hnd
      have := ih (if b.ty == .sq then seqi + 1 else seqi) (done ++ [s]) m' hty'
        (fun b' hb' => hpos b' (by simp [hb']))
        (fun s' hs' => hpre s' (List.mem_append.mpr (Or.inr hs')))
        hinv'
      rw [List.append_assoc] at this
      exact this

/-! ## `lpos`, `rpos`, `leftmost`, `rightmost` -/

theorem rposScan_bounds (l : Bytes) : -1 ≤ rposScan l ∧ rposScan l < l.length := by
  unfold rposScan
  have := (List.dropWhile_suffix isSpace (l := l.reverse)).length_le
  simp only [List.length_reverse] at this
  constructor <;> omega

/-- after the first loop of `selex_append_block` -/
def FixOk (b : BLine) : Prop :=
  ((b.lpos = -1 ∧ -1 ≤ b.rpos) ∨ (0 ≤ b.lpos ∧ b.lpos ≤ b.rpos)) ∧ b.rpos < b.line.length

theorem fixPos_ok (b : BLine) (h : -1 ≤ b.lpos) : FixOk (fixPos b) := by
  have hb := rposScan_bounds b.line
  unfold fixPos FixOk
  simp only
  by_cases h1 : rposScan b.line < b.lpos
  · simp only [h1, if_true]
    have : ¬ (rposScan b.line < -1) := by omega
    simp only [this, if_false]
    exact ⟨Or.inl ⟨trivial, hb.1⟩, hb.2⟩
  · simp only [h1, if_false]
    refine ⟨?_, hb.2⟩
    by_cases h2 : b.lpos = -1
    · exact Or.inl ⟨h2, hb.1⟩
    · exact Or.inr ⟨by omega, by omega⟩

@[simp] theorem fixPos_ty (b : BLine) : (fixPos b).ty = b.ty := rfl

theorem leftmost_le_init (rest : List BLine) : ∀ init : Int,
    rest.foldl (fun lm b => if b.lpos == -1 then lm else min lm b.lpos) init ≤ init := by
  induction rest with
  | nil => intro init; simp
  | cons b rest ih =>
    intro init
    simp only [List.foldl_cons]
    have := ih (if b.lpos == -1 then init else min init b.lpos)
    by_cases hc : (b.lpos == -1) = true
    · simp only [hc, if_true] at this ⊢; exact this
    · simp only [hc, if_false] at this ⊢; omega

theorem leftmost_le_mem (rest : List BLine) : ∀ init : Int, ∀ b ∈ rest, b.lpos ≠ -1 →
    rest.foldl (fun lm b => if b.lpos == -1 then lm else min lm b.lpos) init ≤ b.lpos := by
  induction rest with
  | nil => intro init b hb; simp at hb
  | cons b0 rest ih =>
    intro init b hb hne
    simp only [List.foldl_cons]
    rcases List.mem_cons.mp hb with h | h
    · subst h
      have := leftmost_le_init rest (if b.lpos == -1 then init else min init b.lpos)
      have hne' : (b.lpos == -1) = false := by simpa using hne
      simp only [hne', Bool.false_eq_true, if_false] at this ⊢
      omega
    · exact ih _ b h hne

theorem rightmost_ge_init (rest : List BLine) : ∀ init : Int,
    init ≤ rest.foldl (fun rm b => if b.rpos == -1 then rm else max rm b.rpos) init := by
  induction rest with
  | nil => intro init; simp
  | cons b rest ih =>
    intro init
    simp only [List.foldl_cons]
    have := ih (if b.rpos == -1 then init else max init b.rpos)
    by_cases hc : (b.rpos == -1) = true
    · simp only [hc, if_true] at this ⊢; exact this
    · simp only [hc, if_false] at this ⊢; omega

theorem rightmost_ge_mem (rest : List BLine) : ∀ init : Int, ∀ b ∈ rest, b.rpos ≠ -1 →
    b.rpos ≤ rest.foldl (fun rm b => if b.rpos == -1 then rm else max rm b.rpos) init := by
  induction rest with
  | nil => intro init b hb; simp at hb
  | cons b0 rest ih =>
    intro init b hb hne
    simp only [List.foldl_cons]
    rcases List.mem_cons.mp hb with h | h
    · subst h
      have := rightmost_ge_init rest (if b.rpos == -1 then init else max init b.rpos)
      have hne' : (b.rpos == -1) = false := by simpa using hne
      simp only [hne', Bool.false_eq_true, if_false] at this ⊢
      omega
    · exact ih _ b h hne

/-- the block adds at least one column and every line fits into it -/
theorem block_positions (b0 : BLine) (rest : List BLine) (hfix : ∀ b ∈ b0 :: rest, FixOk b)
    (hr : rightmostOf b0 rest ≠ -1) :
    1 ≤ rightmostOf b0 rest - leftmostOf b0 rest + 1 ∧
    ∀ b ∈ b0 :: rest, PosOk (leftmostOf b0 rest) (rightmostOf b0 rest - leftmostOf b0 rest + 1).toNat b := by
  have h0 := hfix b0 (by simp)
  have hl0 := leftmost_le_init rest b0.lpos
  have hr0 := rightmost_ge_init rest b0.rpos
  unfold FixOk at h0
  have hrge : 0 ≤ rightmostOf b0 rest := by
    unfold rightmostOf at hr ⊢
    rcases h0.1 with ⟨_, h⟩ | ⟨h1, h2⟩ <;> omega
  have hle : leftmostOf b0 rest ≤ rightmostOf b0 rest := by
    unfold leftmostOf rightmostOf at *
    rcases h0.1 with ⟨h, _⟩ | ⟨h1, h2⟩ <;> omega
  refine ⟨by omega, ?_⟩
  intro b hb
  have hf := hfix b hb
  unfold FixOk at hf
  unfold PosOk
  rcases hf.1 with ⟨h, _⟩ | ⟨h1, h2⟩
  · exact Or.inl h
  · right
    have hlm : leftmostOf b0 rest ≤ b.lpos := by
      rcases List.mem_cons.mp hb with e | e
      · subst e; exact hl0
      · exact leftmost_le_mem rest b0.lpos b e (by omega)
    have hrm : b.rpos ≤ rightmostOf b0 rest := by
      rcases List.mem_cons.mp hb with e | e
      · subst e; exact hr0
      · exact rightmost_ge_mem rest b0.rpos b e (by omega)
    refine ⟨h1, hlm, h2, hf.2, ?_⟩
    omega

/-! ## the alignment between blocks -/

/-- invariant of the alignment under construction; `tys` = `b->ltype[]`, the line types of the first block -/
structure MsaInv (cfg : Cfg) (tys : List LType) (m : SxMsa) : Prop where
  nseq_pos : 1 ≤ m.nseq
  names_len : m.names.length = m.nseq
  rows_len : m.rows.length = m.nseq
  ss_len : ∀ l, m.ss = some l → l.length = m.nseq
  sa_len : ∀ l, m.sa = some l → l.length = m.nseq
  count : countSq tys = m.nseq
  types_ok : typesOk tys 0 = true
  sq_all : ∀ i, i < m.nseq → Slot.sq i ∈ slotsOf tys 0
  untouched : ∀ s, s ∉ slotsOf tys 0 → m.get s = none ∨ m.get s = some none
  touched : ∀ s ∈ slotsOf tys 0,
    if m.alen = 0 then m.get s = some none else ∃ b, m.get s = some (some b) ∧ SlotOk cfg s m.alen b

theorem get_alen (m : SxMsa) (a : Nat) (s : Slot) : ({ m with alen := a } : SxMsa).get s = m.get s := by
  cases s <;> rfl

theorem appendBlock_good (cfg : Cfg) (hv : cfg.valid) (hs : cfg.selexOk = true) (tys : List LType) (m : SxMsa)
    (bl : List BLine) (hinv : MsaInv cfg tys m) (hty : bl.map (·.ty) = tys) (hl : ∀ b ∈ bl, -1 ≤ b.lpos) :
    MsaGood (MsaInv cfg tys) (appendBlock cfg m bl) := by
  unfold appendBlock
  have hfixall : ∀ b ∈ bl.map fixPos, FixOk b := by
    intro b hb
    obtain ⟨b', hb', rfl⟩ := List.mem_map.mp hb
    exact fixPos_ok b' (hl b' hb')
  have htys : (bl.map fixPos).map (·.ty) = tys := by
    rw [List.map_map, ← hty]; rfl
  cases hfl : bl.map fixPos with
  | nil =>
    -- no line: the first block has at least one sequence line
    exfalso
    rw [hfl] at htys
    have h1 := hinv.count
    have h2 := hinv.nseq_pos
    rw [← htys] at h1
    simp [countSq] at h1
    omega
  | cons b0 rest =>
    rw [hfl] at hfixall htys
    simp only
    split
    · simpa using hinv
    · rename_i hr
      have hr' : rightmostOf b0 rest ≠ -1 := by simpa using hr
      obtain ⟨hnadd, hposall⟩ := block_positions b0 rest hfixall hr'
      split
      · rename_i hneg; exfalso; omega
      · -- what the slots hold before the block
        have hpre : ∀ s ∈ slotsOf ((b0 :: rest).map (·.ty)) 0, ∃ old, m.get s = some old ∧ PreSlot cfg s m.alen old := by
          intro s hs'
          rw [htys] at hs'
          have ht := hinv.touched s hs'
          by_cases h0 : m.alen = 0
          · simp only [h0, if_true] at ht
            exact ⟨none, ht, by rw [h0]; exact preSlot_none cfg s⟩
          · simp only [h0, if_false] at ht
            obtain ⟨b, hg, hok⟩ := ht
            exact ⟨some b, hg, preSlot_some cfg s m.alen m.alen b hok (Nat.le_refl _)⟩
        have hal := appendLines_good cfg hv hs m.alen (rightmostOf b0 rest - leftmostOf b0 rest + 1).toNat (leftmostOf b0 rest) m
          (b0 :: rest) 0 [] m (by rw [htys]; exact hinv.types_ok) hposall hpre
          ⟨sameFrame_refl m, by intro s hs'; simp at hs', fun _ _ => rfl⟩
        cases hap : appendLines cfg m.alen (rightmostOf b0 rest - leftmostOf b0 rest + 1).toNat (leftmostOf b0 rest) (b0 :: rest) 0 m with
        | inl r => rw [hap] at hal; simpa using hal
        | inr mf =>
          rw [hap] at hal
          simp only [msaGood_inr, List.nil_append] at hal ⊢
          rw [htys] at hal
          have hf := hal.frame
          have hnz : m.alen + (rightmostOf b0 rest - leftmostOf b0 rest + 1).toNat ≠ 0 := by omega
          refine
            { nseq_pos := by show 1 ≤ mf.nseq; rw [hf.nseq]; exact hinv.nseq_pos,
              names_len := by show mf.names.length = mf.nseq; rw [hf.names, hf.nseq]; exact hinv.names_len,
              rows_len := by show mf.rows.length = mf.nseq; rw [hf.rows_len, hf.nseq]; exact hinv.rows_len,
              ss_len := ?_, sa_len := ?_,
              count := by show countSq tys = mf.nseq; rw [hf.nseq]; exact hinv.count,
              types_ok := hinv.types_ok,
              sq_all := by intro i hi; exact hinv.sq_all i (by rw [← hf.nseq]; exact hi),
              untouched := ?_, touched := ?_ }
          · intro l hl'
            have hl'' : mf.ss = some l := hl'
            have := hf.ss_len
            rw [hl''] at this
            cases hms : m.ss with
            | none => rw [hms] at this; simp at this
            | some l0 =>
              rw [hms] at this
              simp only [Option.map_some, Option.some.injEq] at this
              show l.length = mf.nseq
              rw [this, hf.nseq]; exact hinv.ss_len l0 hms
          · intro l hl'
            have hl'' : mf.sa = some l := hl'
            have := hf.sa_len
            rw [hl''] at this
            cases hms : m.sa with
            | none => rw [hms] at this; simp at this
            | some l0 =>
              rw [hms] at this
              simp only [Option.map_some, Option.some.injEq] at this
              show l.length = mf.nseq
              rw [this, hf.nseq]; exact hinv.sa_len l0 hms
          · intro s hs'
            rw [get_alen, hal.rest_same s hs']
            exact hinv.untouched s hs'
          · intro s hs'
            simp only [hnz, if_false]
            rw [get_alen]
            exact hal.done_ok s hs'

/-! ## which slots a list of line types touches -/

theorem slotsOf_sq_mem (tys : List LType) : ∀ (seqi i : Nat), seqi ≤ i → i < seqi + countSq tys →
    Slot.sq i ∈ slotsOf tys seqi := by
  induction tys with
  | nil => intro seqi i h1 h2; simp [countSq] at h2; omega
  | cons t ts ih =>
    intro seqi i h1 h2
    simp only [slotsOf, List.mem_append]
    by_cases ht : t = .sq
    · subst ht
      simp only [countSq, beq_self_eq_true, if_true] at h2 ⊢
      by_cases he : i = seqi
      · left; simp [slotOf, he]
      · right; exact ih (seqi + 1) i (by omega) (by omega)
    · have hb : (t == LType.sq) = false := by simpa using ht
      simp only [countSq, hb, Bool.false_eq_true, if_false] at h2 ⊢
      right; exact ih seqi i h1 (by omega)

theorem slotsOf_mem_bound (tys : List LType) : ∀ (seqi : Nat) (s : Slot), s ∈ slotsOf tys seqi →
    (∀ i, s = .sq i → i < seqi + countSq tys) ∧
    (∀ i, s = .ss i → LType.ss ∈ tys ∧ i < seqi + countSq tys) ∧
    (∀ i, s = .sa i → LType.sa ∈ tys ∧ i < seqi + countSq tys) := by
  induction tys with
  | nil => intro seqi s h; simp [slotsOf] at h
  | cons t ts ih =>
    intro seqi s h
    simp only [slotsOf, List.mem_append] at h
    rcases h with h | h
    · cases t <;> simp only [slotOf] at h
      · simp at h; subst h; simp [countSq]; omega
      · simp at h; subst h; simp
      · simp at h; subst h; simp
      · split at h
        · simp at h
        · simp at h; subst h; simp [countSq]; omega
      · split at h
        · simp at h
        · simp at h; subst h; simp [countSq]; omega
      · simp at h; subst h; simp
    · obtain ⟨h1, h2, h3⟩ := ih _ s h
      have hc : (if t == .sq then seqi + 1 else seqi) + countSq ts = seqi + countSq (t :: ts) := by
        simp only [countSq]; split <;> omega
      rw [hc] at h1 h2 h3
      refine ⟨h1, ?_, ?_⟩
      · intro i hi; exact ⟨List.mem_cons_of_mem _ (h2 i hi).1, (h2 i hi).2⟩
      · intro i hi; exact ⟨List.mem_cons_of_mem _ (h3 i hi).1, (h3 i hi).2⟩

/-! ## `selex_first_block` -/

theorem cnt_err_msg (c : Cnt) (msg : String) (h : c.err = some msg) : msg ≠ "" := by
  unfold Cnt.err at h
  split at h
  · simp at h; subst h; decide
  · split at h
    · simp at h; subst h; decide
    · split at h
      · simp at h; subst h; decide
      · split at h
        · simp at h; subst h; decide
        · split at h
          · simp at h; subst h; decide
          · split at h
            · simp at h; subst h; decide
            · simp at h

theorem cnt_err_slot (c : Cnt) (t : LType) (h : (c.bump t).err = none) : (slotOf t c.nseq).isSome = true := by
  cases t <;> simp only [slotOf, Option.isSome_some] <;> try rfl
  · by_cases h0 : c.nseq = 0
    · exfalso; simp [Cnt.err, Cnt.bump, h0] at h
    · simp [h0]
  · by_cases h0 : c.nseq = 0
    · exfalso; simp [Cnt.err, Cnt.bump, h0] at h; split at h <;> simp at h
    · simp [h0]

theorem firstScan_msg : ∀ (ls : List Bytes) (c : Cnt) (msg : String), firstScan ls c = .inl msg → msg ≠ "" := by
  intro ls
  induction ls with
  | nil => intro c msg h; simp [firstScan] at h
  | cons l ls ih =>
    intro c msg h
    unfold firstScan at h
    simp only at h
    split at h
    · rename_i m hm
      simp at h; subst h
      exact cnt_err_msg _ _ hm
    · split at h
      · rename_i m hm
        simp at h; subst h
        exact ih _ _ hm
      · simp at h

theorem firstScan_ok : ∀ (ls : List Bytes) (c : Cnt) (tys : List LType) (cf : Cnt), firstScan ls c = .inr (tys, cf) →
    tys.length = ls.length ∧ cf.nseq = c.nseq + countSq tys ∧ typesOk tys c.nseq = true ∧
    ((c.hasSS = true ∨ LType.ss ∈ tys) → cf.hasSS = true) ∧ ((c.hasSA = true ∨ LType.sa ∈ tys) → cf.hasSA = true) := by
  intro ls
  induction ls with
  | nil =>
    intro c tys cf h
    simp [firstScan] at h
    obtain ⟨h1, h2⟩ := h
    subst h1 h2
    simp [countSq, typesOk]
  | cons l ls ih =>
    intro c tys cf h
    unfold firstScan at h
    simp only at h
    split at h
    · simp at h
    · rename_i herr
      split at h
      · simp at h
      · rename_i ts cf' hrec
        simp only [Sum.inr.injEq, Prod.mk.injEq] at h
        obtain ⟨h1, h2⟩ := h
        subst h1 h2
        obtain ⟨i1, i2, i3, i4, i5⟩ := ih _ _ _ hrec
        have hslot := cnt_err_slot c (ltypeOf l) herr
        have hn : (c.bump (ltypeOf l)).nseq = (if ltypeOf l == .sq then c.nseq + 1 else c.nseq) := by
          cases ltypeOf l <;> rfl
        refine ⟨by simp [i1], ?_, ?_, ?_, ?_⟩
        · rw [i2, hn]; simp only [countSq]; split <;> omega
        · simp only [typesOk, hslot, Bool.true_and]
          rw [← hn]; exact i3
        · intro hh
          apply i4
          rcases hh with hh | hh
          · left; cases ltypeOf l <;> simp [Cnt.bump, hh]
          · rcases List.mem_cons.mp hh with e | e
            · left; rw [← e]; rfl
            · right; exact e
        · intro hh
          apply i5
          rcases hh with hh | hh
          · left; cases ltypeOf l <;> simp [Cnt.bump, hh]
          · rcases List.mem_cons.mp hh with e | e
            · left; rw [← e]; rfl
            · right; exact e

/-- a line that is not blank has a first token -/
theorem all_of_dropWhile_nil {α : Type} (p : α → Bool) (l : List α) (h : l.dropWhile p = []) : l.all p = true := by
  induction l with
  | nil => rfl
  | cons x xs ih =>
    simp only [List.dropWhile_cons] at h
    split at h
    · rename_i hx; simp [hx, ih h]
    · simp at h

theorem memtok_nonblank (l : Bytes) (h : isBlankLine l = false) :
    ∃ tok rest, memtok l blankTab = some (tok, rest) ∧ rest.length ≤ l.length := by
  unfold memtok
  have hne : (l.dropWhile (inDelim blankTab)).isEmpty = false := by
    cases hd : l.dropWhile (inDelim blankTab) with
    | nil =>
      exfalso
      unfold isBlankLine at h
      rw [all_of_dropWhile_nil _ _ hd] at h; simp at h
    | cons x xs => rfl
  simp only [hne, Bool.false_eq_true, if_false]
  refine ⟨_, _, rfl, ?_⟩
  have s1 := (List.dropWhile_suffix (inDelim blankTab) (l := l)).length_le
  have s2 := (List.dropWhile_suffix (fun c => !inDelim blankTab c) (l := l.dropWhile (inDelim blankTab))).length_le
  have s3 := (List.dropWhile_suffix (inDelim blankTab)
    (l := (l.dropWhile (inDelim blankTab)).dropWhile (fun c => !inDelim blankTab c))).length_le
  omega

theorem lposOf_ge (l rest : Bytes) (h : rest.length ≤ l.length) : -1 ≤ lposOf l rest := by
  unfold lposOf; split <;> omega

theorem firstNames_ok (nseq : Nat) : ∀ (zl : List (LType × Bytes)) (seqi : Nat),
    (∀ p ∈ zl, isBlankLine p.2 = false) → seqi + countSq (zl.map (·.1)) ≤ nseq →
    ∃ names bl, firstNames nseq zl seqi = .inr (names, bl) ∧ names.length = countSq (zl.map (·.1)) ∧
      bl.map (·.ty) = zl.map (·.1) ∧ ∀ b ∈ bl, -1 ≤ b.lpos := by
  intro zl
  induction zl with
  | nil => intro seqi _ _; exact ⟨[], [], rfl, rfl, rfl, by simp⟩
  | cons p zl ih =>
    intro seqi hnb hcnt
    obtain ⟨t, l⟩ := p
    obtain ⟨tok, rest, hmt, hrl⟩ := memtok_nonblank l (hnb (t, l) (by simp))
    unfold firstNames
    simp only [hmt]
    by_cases ht : t = .sq
    · subst ht
      simp only [List.map_cons, countSq, beq_self_eq_true, if_true] at hcnt ⊢
      have hlt : ¬ (seqi ≥ nseq) := by omega
      simp only [hlt, if_false]
      obtain ⟨ns, bl, hr, h1, h2, h3⟩ := ih (seqi + 1) (fun p hp => hnb p (by simp [hp])) (by omega)
      rw [hr]
      refine ⟨_, _, rfl, by simp [h1]; omega, by simp [h2], ?_⟩
      intro b hb
      rcases List.mem_cons.mp hb with e | e
      · subst e; exact lposOf_ge l rest hrl
      · exact h3 b e
    · have hb : (t == LType.sq) = false := by simpa using ht
      simp only [List.map_cons, countSq, hb, Bool.false_eq_true, if_false, Nat.zero_add] at hcnt ⊢
      obtain ⟨ns, bl, hr, h1, h2, h3⟩ := ih seqi (fun p hp => hnb p (by simp [hp])) hcnt
      rw [hr]
      refine ⟨_, _, rfl, h1, by simp [h2], ?_⟩
      intro b hb
      rcases List.mem_cons.mp hb with e | e
      · subst e; exact lposOf_ge l rest hrl
      · exact h3 b e

theorem getElem?_replicate_none {α : Type} (n i : Nat) :
    (List.replicate n (none : Option α))[i]? = none ∨ (List.replicate n (none : Option α))[i]? = some none := by
  by_cases h : i < n
  · right; simp [List.getElem?_replicate, h]
  · left; simp [List.getElem?_replicate, h]

/-- outcome of `selex_first_block` -/
def FirstGood (cfg : Cfg) (n : Nat) (x : Sum (Res Msa) (SxMsa × List LType × List BLine)) : Prop :=
  match x with
  | .inl r => Good r
  | .inr (m, tys, bl) => MsaInv cfg tys m ∧ bl.map (·.ty) = tys ∧ (∀ b ∈ bl, -1 ≤ b.lpos) ∧ tys.length = n

theorem firstBlock_good (cfg : Cfg) (lines : List Bytes) (hnb : ∀ l ∈ lines, isBlankLine l = false) :
    FirstGood cfg lines.length (firstBlock lines) := by
  unfold firstBlock
  cases hsc : firstScan lines {} with
  | inl msg => simpa [FirstGood] using firstScan_msg _ _ _ hsc
  | inr p =>
    obtain ⟨tys, c⟩ := p
    obtain ⟨hlen, hcnt, htok, hss, hsa⟩ := firstScan_ok _ _ _ _ hsc
    have hcnt0 : c.nseq = countSq tys := by simpa using hcnt
    have htok0 : typesOk tys 0 = true := htok
    simp only
    by_cases hn0 : (c.nseq == 0) = true
    · simp [hn0, FirstGood, selexMsgNoSeq]
    · have hn : c.nseq ≠ 0 := by simpa using hn0
      simp only [hn0, Bool.false_eq_true, if_false]
      have hzmap : (tys.zip lines).map (·.1) = tys := by
        rw [List.map_fst_zip]; omega
      obtain ⟨names, bl, hfn, hnl, hbt, hbl⟩ := firstNames_ok c.nseq (tys.zip lines) 0
        (by intro p hp; exact hnb p.2 (List.of_mem_zip hp).2)
        (by rw [hzmap]; omega)
      rw [hfn]
      simp only [FirstGood]
      rw [hzmap] at hnl hbt
      refine ⟨?_, hbt, hbl, hlen⟩
      have hall : ∀ s, (newMsa c names).get s = none ∨ (newMsa c names).get s = some none := by
        intro s
        cases s with
        | sq i => exact getElem?_replicate_none _ _
        | rf => exact Or.inr rfl
        | mm => exact Or.inr rfl
        | cs => exact Or.inr rfl
        | ss i =>
          simp only [SxMsa.get, newMsa]
          split
          · left; rfl
          · rename_i l hl
            split at hl
            · simp at hl; subst hl; exact getElem?_replicate_none _ _
            · simp at hl
        | sa i =>
          simp only [SxMsa.get, newMsa]
          split
          · left; rfl
          · rename_i l hl
            split at hl
            · simp at hl; subst hl; exact getElem?_replicate_none _ _
            · simp at hl
      refine
        { nseq_pos := by show 1 ≤ c.nseq; omega,
          names_len := by show names.length = c.nseq; omega,
          rows_len := by simp [newMsa],
          ss_len := ?_, sa_len := ?_,
          count := hcnt0.symm, types_ok := htok0,
          sq_all := ?_,
          untouched := fun s _ => hall s,
          touched := ?_ }
      · intro l hl
        simp only [newMsa] at hl ⊢
        split at hl
        · simp at hl; subst hl; simp
        · simp at hl
      · intro l hl
        simp only [newMsa] at hl ⊢
        split at hl
        · simp at hl; subst hl; simp
        · simp at hl
      · intro i hi
        have : i < c.nseq := hi
        exact slotsOf_sq_mem tys 0 i (by omega) (by omega)
      · intro s hs'
        have ha0 : (newMsa c names).alen = 0 := rfl
        simp only [ha0, if_true]
        obtain ⟨b1, b2, b3⟩ := slotsOf_mem_bound tys 0 s hs'
        cases s with
        | sq i =>
          have := b1 i rfl
          simp only [SxMsa.get, newMsa]
          simp [List.getElem?_replicate]; omega
        | rf => rfl
        | mm => rfl
        | cs => rfl
        | ss i =>
          have := b2 i rfl
          have hh := hss (Or.inr this.1)
          simp only [SxMsa.get, newMsa, hh, if_true]
          simp [List.getElem?_replicate]; omega
        | sa i =>
          have := b3 i rfl
          have hh := hsa (Or.inr this.1)
          simp only [SxMsa.get, newMsa, hh, if_true]
          simp [List.getElem?_replicate]; omega

/-! ## `selex_other_block` -/

theorem orderMsg_ne (t : LType) : orderMsg t ≠ "" := by cases t <;> decide

theorem otherTypes_good (ltype : List LType) : ∀ (lines : List Bytes) (idx : Nat), idx + lines.length ≤ ltype.length →
    ∀ r, otherTypes ltype lines idx = some r → Good r := by
  intro lines
  induction lines with
  | nil => intro idx _ r h; simp [otherTypes] at h
  | cons l ls ih =>
    intro idx hlen r h
    simp only [List.length_cons] at hlen
    have hidx : idx < ltype.length := by omega
    unfold otherTypes at h
    rw [List.getElem?_eq_getElem hidx] at h
    simp only at h
    split at h
    · simp at h; subst h; simpa using orderMsg_ne _
    · exact ih (idx + 1) (by omega) r h

/-- outcome of `selex_other_block` -/
def BlGood (P : List BLine → Prop) (x : Sum (Res Msa) (List BLine)) : Prop :=
  match x with
  | .inl r => Good r
  | .inr bl => P bl

@[simp] theorem blGood_inl (P : List BLine → Prop) (r : Res Msa) : BlGood P (.inl r) = Good r := rfl
@[simp] theorem blGood_inr (P : List BLine → Prop) (bl : List BLine) : BlGood P (.inr bl : Sum (Res Msa) (List BLine)) = P bl := rfl

theorem otherNames_good (names : List Bytes) (ltype : List LType) : ∀ (lines : List Bytes) (idx seqi : Nat),
    (∀ l ∈ lines, isBlankLine l = false) → idx + lines.length = ltype.length →
    seqi + countSq (ltype.drop idx) ≤ names.length →
    BlGood (fun bl => bl.map (·.ty) = ltype.drop idx ∧ ∀ b ∈ bl, -1 ≤ b.lpos) (otherNames names ltype lines idx seqi) := by
  intro lines
  induction lines with
  | nil =>
    intro idx seqi _ hlen _
    simp only [List.length_nil, Nat.add_zero] at hlen
    simp [otherNames, hlen]
  | cons l ls ih =>
    intro idx seqi hnb hlen hcnt
    simp only [List.length_cons] at hlen
    have hidx : idx < ltype.length := by omega
    obtain ⟨tok, rest, hmt, hrl⟩ := memtok_nonblank l (hnb l (by simp))
    have hdrop : ltype.drop idx = ltype[idx] :: ltype.drop (idx + 1) := List.drop_eq_getElem_cons hidx
    rw [hdrop] at hcnt ⊢
    unfold otherNames
    simp only [hmt]
    rw [List.getElem?_eq_getElem hidx]
    simp only
    by_cases ht : ltype[idx] = .sq
    · simp only [ht, beq_self_eq_true, if_true, countSq] at hcnt ⊢
      have hs : seqi < names.length := by omega
      rw [List.getElem?_eq_getElem hs]
      simp only
      split
      · simp
      · have := ih (idx + 1) (seqi + 1) (fun l' hl' => hnb l' (by simp [hl'])) (by omega) (by omega)
        cases hon : otherNames names ltype ls (idx + 1) (seqi + 1) with
        | inl r => rw [hon] at this; simpa using this
        | inr bl =>
          rw [hon] at this
          simp only [blGood_inr] at this ⊢
          refine ⟨by simp [this.1], ?_⟩
          intro b hb
          rcases List.mem_cons.mp hb with e | e
          · subst e; exact lposOf_ge l rest hrl
          · exact this.2 b e
    · have hb : (ltype[idx] == LType.sq) = false := by simpa using ht
      simp only [hb, Bool.false_eq_true, if_false, countSq, Nat.zero_add] at hcnt ⊢
      have := ih (idx + 1) seqi (fun l' hl' => hnb l' (by simp [hl'])) (by omega) hcnt
      cases hon : otherNames names ltype ls (idx + 1) seqi with
      | inl r => rw [hon] at this; simpa using this
      | inr bl =>
        rw [hon] at this
        simp only [blGood_inr] at this ⊢
        refine ⟨by simp [this.1], ?_⟩
        intro b hb'
        rcases List.mem_cons.mp hb' with e | e
        · subst e; exact lposOf_ge l rest hrl
        · exact this.2 b e

theorem otherBlock_good (cfg : Cfg) (m : SxMsa) (ltype : List LType) (lines : List Bytes) (hinv : MsaInv cfg ltype m)
    (hnb : ∀ l ∈ lines, isBlankLine l = false) (hlen : lines.length = ltype.length) :
    BlGood (fun bl => bl.map (·.ty) = ltype ∧ ∀ b ∈ bl, -1 ≤ b.lpos) (otherBlock m ltype lines) := by
  unfold otherBlock
  cases hot : otherTypes ltype lines 0 with
  | some r => simpa using otherTypes_good ltype lines 0 (by omega) r hot
  | none =>
    simp only
    have := otherNames_good m.names ltype lines 0 0 hnb (by omega)
      (by simp only [List.drop_zero, Nat.zero_add]; rw [hinv.count, hinv.names_len]; exact Nat.le_refl _)
    simpa using this

/-! ## the returned alignment -/

theorem cstr_txt (c : Bytes) (h : c.all (· != 0) = true) : cstr (c ++ [0]) = c := by
  unfold cstr
  induction c with
  | nil => simp [List.takeWhile]
  | cons x xs ih =>
    simp only [List.all_cons, Bool.and_eq_true] at h
    simp only [List.cons_append, List.takeWhile_cons, h.1, if_true]
    rw [ih h.2]

theorem txtOk_cstr (alen : Nat) (b : Bytes) (h : TxtOk alen b) : (cstr b).length = alen ∧ (cstr b).contains 0 = false := by
  obtain ⟨c, hb, hl, ha⟩ := h
  subst hb
  rw [cstr_txt c ha]
  refine ⟨hl, ?_⟩
  simp only [List.contains_eq_mem, decide_eq_false_iff_not]
  intro hm
  have := (List.all_eq_true.mp ha) 0 hm
  simp at this

theorem slot_ok_of_get (cfg : Cfg) (tys : List LType) (m : SxMsa) (hinv : MsaInv cfg tys m) (ha : m.alen ≠ 0)
    (s : Slot) (b : Bytes) (hg : m.get s = some (some b)) : SlotOk cfg s m.alen b := by
  by_cases hs : s ∈ slotsOf tys 0
  · have := hinv.touched s hs
    simp only [ha, if_false] at this
    obtain ⟨b', hg', hok⟩ := this
    rw [hg] at hg'
    simp only [Option.some.injEq] at hg'
    subst hg'; exact hok
  · rcases hinv.untouched s hs with h | h <;> rw [hg] at h <;> simp at h

theorem optLen_cstr (alen : Nat) (o : Option Bytes) (h : ∀ b, o = some b → TxtOk alen b) :
    optLenOk alen (o.map cstr) = true := by
  cases o with
  | none => rfl
  | some b => simp [optLenOk, (txtOk_cstr alen b (h b rfl)).1]

theorem optRows_cstr (alen : Nat) (o : Option (List (Option Bytes)))
    (h : ∀ l, o = some l → ∀ (i : Nat) (b : Bytes), l[i]? = some (some b) → TxtOk alen b) :
    optRowsOk alen (o.map fun l => l.map fun e => e.map cstr) = true := by
  cases o with
  | none => rfl
  | some l =>
    simp only [Option.map_some, optRowsOk, List.all_map]
    rw [List.all_eq_true]
    intro e he
    obtain ⟨i, hi⟩ := List.mem_iff_getElem?.mp he
    simp only [Function.comp]
    apply optLen_cstr
    intro b hb
    subst hb
    exact h l rfl i b hi

theorem toMsa_wellFormed (cfg : Cfg) (tys : List LType) (m : SxMsa) (hinv : MsaInv cfg tys m) (ha : m.alen ≠ 0) :
    (m.toMsa cfg).wellFormed = true := by
  have hrows : ∀ o ∈ m.rows, ∃ b, o = some b ∧ RowBufOk cfg m.alen b := by
    intro o ho
    obtain ⟨i, hi⟩ := List.mem_iff_getElem?.mp ho
    have hlt : i < m.rows.length := (List.getElem?_eq_some_iff.mp hi).1
    have hs := hinv.sq_all i (by rw [← hinv.rows_len]; exact hlt)
    have := hinv.touched _ hs
    simp only [ha, if_false] at this
    obtain ⟨b, hg, hok⟩ := this
    have hg' : m.rows[i]? = some (some b) := hg
    rw [hi] at hg'
    simp only [Option.some.injEq] at hg'
    exact ⟨b, hg', hok⟩
  have hcs := optLen_cstr m.alen m.cs (fun b hb => slot_ok_of_get cfg tys m hinv ha .cs b (by simp [SxMsa.get, hb]))
  have hrf := optLen_cstr m.alen m.rf (fun b hb => slot_ok_of_get cfg tys m hinv ha .rf b (by simp [SxMsa.get, hb]))
  have hmm := optLen_cstr m.alen m.mm (fun b hb => slot_ok_of_get cfg tys m hinv ha .mm b (by simp [SxMsa.get, hb]))
  have hss := optRows_cstr m.alen m.ss (fun l hl i b hi =>
    slot_ok_of_get cfg tys m hinv ha (.ss i) b (by simp [SxMsa.get, hl, hi]))
  have hsa := optRows_cstr m.alen m.sa (fun l hl i b hi =>
    slot_ok_of_get cfg tys m hinv ha (.sa i) b (by simp [SxMsa.get, hl, hi]))
  have hn := hinv.nseq_pos
  have hnl := hinv.names_len
  have hrl := hinv.rows_len
  cases hd : cfg.digital with
  | true =>
    have hax : (m.rows.map fun o => o.getD []).all (dsqRowOk cfg.kp m.alen) = true := by
      rw [List.all_map, List.all_eq_true]
      intro o ho
      obtain ⟨b, hb, hok⟩ := hrows o ho
      subst hb
      simpa [RowBufOk, hd] using hok
    simp only [Msa.wellFormed, SxMsa.toMsa, Msa.nseq, hd, if_true, hcs, hrf, hmm, hss, hsa, hax]
    simp [optLenOk, optRowsOk, hnl, hrl]
    omega
  | false =>
    simp only [Msa.wellFormed, SxMsa.toMsa, Msa.nseq, hd, hcs, hrf, hmm, hss, hsa]
    simp [optLenOk, optRowsOk, hnl, hrl]
    refine ⟨hn, ?_⟩
    intro o ho
    obtain ⟨b, hb, hok⟩ := hrows o ho
    subst hb
    have := txtOk_cstr m.alen b (by simpa [RowBufOk, hd] using hok)
    refine ⟨this.1, ?_⟩
    have h2 := this.2
    simp only [List.contains_eq_mem, decide_eq_false_iff_not] at h2
    exact h2

/-! ## the reader's invariant -/

/-- at a `esl_msafile_GetLine` call -/
structure SxInv (cfg : Cfg) (st : SxSt) : Prop where
  alloc : st.cur.length ≤ st.nalloc ∧ 0 < st.nalloc
  nonblank : ∀ l ∈ st.cur, isBlankLine l = false
  in_block : st.inBlock = true → st.cur ≠ []
  later : st.nblocks ≠ 0 → ∃ m, st.msa = some m ∧ MsaInv cfg st.ltype m ∧ st.ltype.length = st.nlines

theorem sxInv_init (cfg : Cfg) : SxInv cfg {} :=
  { alloc := by decide, nonblank := by intro l hl; simp at hl, in_block := by intro h; simp at h,
    later := by intro h; simp at h }

@[simp] theorem good_ok (m : Msa) : Good (.ok m) = (m.wellFormed = true) := rfl

theorem pushLine_inv (cfg : Cfg) (st : SxSt) (line : Bytes) (h : SxInv cfg st) (hnb : isBlankLine line = false) :
    StepGood (SxInv cfg) (pushLine st line) := by
  unfold pushLine
  simp only
  have ha := h.alloc
  have hinv' : ∀ n, st.cur.length < n → SxInv cfg { st with inBlock := true, cur := st.cur ++ [line], nalloc := n } := by
    intro n hn
    exact
      { alloc := ⟨(by show (st.cur ++ [line]).length ≤ n; simp only [List.length_append, List.length_singleton]; omega), (by show 0 < n; omega)⟩,
        nonblank := by
          intro l hl
          rcases List.mem_append.mp hl with e | e
          · exact h.nonblank l e
          · simp at e; subst e; exact hnb,
        in_block := by intro _; simp,
        later := h.later }
  by_cases hc : (st.nalloc != 0 && st.cur.length == st.nalloc) = true
  · simp only [hc, if_true]
    simp only [Bool.and_eq_true, bne_iff_ne, ne_eq, beq_iff_eq] at hc
    have hlt : ¬ (st.cur.length ≥ 2 * st.nalloc) := by omega
    simp only [hlt, if_false, stepGood_inl]
    exact hinv' _ (by omega)
  · have hc' : (st.nalloc != 0 && st.cur.length == st.nalloc) = false := Bool.eq_false_iff.mpr hc
    simp only [hc', Bool.false_eq_true, if_false]
    simp only [Bool.and_eq_true, bne_iff_ne, ne_eq, beq_iff_eq, not_and] at hc
    have : st.cur.length ≠ st.nalloc := hc (by omega)
    have hlt : ¬ (st.cur.length ≥ st.nalloc) := by omega
    simp only [hlt, if_false, stepGood_inl]
    exact hinv' _ (by omega)

theorem processBlock_inv (cfg : Cfg) (hv : cfg.valid) (hs : cfg.selexOk = true) (st : SxSt) (h : SxInv cfg st) :
    StepGood (SxInv cfg) (processBlock cfg st) := by
  unfold processBlock
  simp only
  split
  · simp [selexMsgNLines]
  · rename_i hnl
    split
    · -- first block
      have hfb := firstBlock_good cfg st.cur h.nonblank
      cases hf : firstBlock st.cur with
      | inl r => rw [hf] at hfb; simpa [FirstGood] using hfb
      | inr p =>
        obtain ⟨m, tys, bl⟩ := p
        rw [hf] at hfb
        simp only [FirstGood] at hfb
        obtain ⟨hinv, hty, hlp, hlen⟩ := hfb
        simp only
        have hab := appendBlock_good cfg hv hs tys m bl hinv hty hlp
        cases ha : appendBlock cfg m bl with
        | inl r => rw [ha] at hab; simpa using hab
        | inr m' =>
          rw [ha] at hab
          simp only [msaGood_inr] at hab
          simp only [stepGood_inl]
          exact
            { alloc := ⟨by simp, h.alloc.2⟩, nonblank := by intro l hl; simp at hl,
              in_block := by intro hh; simp at hh,
              later := fun _ => ⟨m', rfl, hab, hlen⟩ }
    · rename_i hnb
      have hnb' : st.nblocks ≠ 0 := by simpa using hnb
      obtain ⟨m, hm, hinv, hll⟩ := h.later hnb'
      rw [hm]
      simp only
      have hlen : st.cur.length = st.ltype.length := by
        have : ¬ (st.nlines ≠ st.cur.length) := by
          intro hne; apply hnl; simp [hnb', hne]
        omega
      have hob := otherBlock_good cfg m st.ltype st.cur hinv h.nonblank hlen
      cases ho : otherBlock m st.ltype st.cur with
      | inl r => rw [ho] at hob; simpa using hob
      | inr bl =>
        rw [ho] at hob
        simp only [blGood_inr] at hob
        simp only
        have hab := appendBlock_good cfg hv hs st.ltype m bl hinv hob.1 hob.2
        cases ha : appendBlock cfg m bl with
        | inl r => rw [ha] at hab; simpa using hab
        | inr m' =>
          rw [ha] at hab
          simp only [msaGood_inr] at hab
          simp only [stepGood_inl]
          exact
            { alloc := ⟨by simp, h.alloc.2⟩, nonblank := by intro l hl; simp at hl,
              in_block := by intro hh; simp at hh,
              later := fun _ => ⟨m', rfl, hab, hll⟩ }

theorem selexStep_inv (cfg : Cfg) (hv : cfg.valid) (hs : cfg.selexOk = true) (st : SxSt) (line : Bytes) (h : SxInv cfg st) :
    StepGood (SxInv cfg) (selexStep cfg st line) := by
  unfold selexStep
  split
  · split
    · simpa using h
    · rename_i hb
      simp only [Bool.or_eq_true, not_or, Bool.not_eq_true] at hb
      exact pushLine_inv cfg st line h hb.1
  · split
    · simpa using h
    · split
      · exact processBlock_inv cfg hv hs st h
      · rename_i hb
        exact pushLine_inv cfg st line h (by simpa using hb)

theorem selexFinal_good (cfg : Cfg) (st : SxSt) (h : SxInv cfg st) : Good (selexFinal cfg st) := by
  unfold selexFinal
  split
  · simp
  · rename_i hnb
    have hnb' : st.nblocks ≠ 0 := by simpa using hnb
    obtain ⟨m, hm, hinv, _⟩ := h.later hnb'
    rw [hm]
    simp only
    split
    · simp [selexMsgNoData]
    · rename_i ha
      simp only [good_ok]
      exact toMsa_wellFormed cfg st.ltype m hinv (by simpa using ha)

theorem selexFinish_good (cfg : Cfg) (hv : cfg.valid) (hs : cfg.selexOk = true) (st : SxSt) (h : SxInv cfg st) :
    Good (selexFinish cfg st) := by
  unfold selexFinish
  split
  · have hp := processBlock_inv cfg hv hs st h
    cases hpb : processBlock cfg st with
    | inr r => rw [hpb] at hp; simpa using hp
    | inl st' =>
      rw [hpb] at hp
      simp only [stepGood_inl] at hp
      exact selexFinal_good cfg st' hp
  · exact selexFinal_good cfg st h

/-- **SELEX reader, every input**: the outcome of `esl_msafile_selex_Read` is a documented normal one (never a fault of the
    bounds-checked model, never an `ESL_EXCEPTION`, a format error always with a message) and a returned alignment is
    well formed: every row, `rf`, `mm`, `ss_cons`, `ss[i]`, `sa[i]` has length `alen`.
    `hs` is the finite table condition `Cfg.selexOk`: the input map IGNOREs no character and the gap code is `< Kp`. -/
theorem selexRead_good (cfg : Cfg) (hv : cfg.valid) (hs : cfg.selexOk = true) (lines : List Bytes) :
    Good (selexRead cfg lines).1 :=
  runLines_inv (selexStep cfg) (selexFinish cfg) (SxInv cfg) Good (fun st l h => selexStep_inv cfg hv hs st l h)
    (fun st h => selexFinish_good cfg hv hs st h) lines {} (sxInv_init cfg)

/-! ## success is only declared at end of input -/

/-- an inner function that fails never fails with "eslOK" -/
def ErrNotOk {α : Type} (x : Sum (Res Msa) α) : Prop := ∀ m, x ≠ .inl (.ok m)

theorem buildSeqRow_notOk (cfg : Cfg) (alen nadd nleft ntext : Nat) (src : Bytes) (old : Option Bytes) :
    ErrNotOk (buildSeqRow cfg alen nadd nleft ntext src old) := by
  intro m h
  unfold buildSeqRow at h
  simp only at h
  repeat' (split at h)
  all_goals (simp at h)

theorem buildAnnRow_notOk (alen nadd nleft ntext : Nat) (src : Bytes) (old : Option Bytes) :
    ErrNotOk (buildAnnRow alen nadd nleft ntext src old) := by
  intro m h
  unfold buildAnnRow at h
  simp only at h
  repeat' (split at h)
  all_goals (simp at h)

theorem appendLine_notOk (cfg : Cfg) (alen nadd : Nat) (leftmost : Int) (seqi : Nat) (m0 : SxMsa) (b : BLine) :
    ErrNotOk (appendLine cfg alen nadd leftmost seqi m0 b) := by
  intro m h
  unfold appendLine at h
  simp only at h
  repeat' (split at h)
  all_goals (first | (simp at h; done) | skip)
  all_goals
    rename_i r hr
    simp only [Sum.inl.injEq] at h
    subst h
    split at hr
    · exact buildSeqRow_notOk _ _ _ _ _ _ _ m hr
    · exact buildAnnRow_notOk _ _ _ _ _ _ m hr

theorem appendLines_notOk (cfg : Cfg) (alen nadd : Nat) (leftmost : Int) :
    ∀ (bs : List BLine) (seqi : Nat) (m0 : SxMsa), ErrNotOk (appendLines cfg alen nadd leftmost bs seqi m0) := by
  intro bs
  induction bs with
  | nil => intro seqi m0 m h; simp [appendLines] at h
  | cons b bs ih =>
    intro seqi m0 m h
    unfold appendLines at h
    split at h
    · rename_i r hr
      simp only [Sum.inl.injEq] at h
      subst h
      exact appendLine_notOk _ _ _ _ _ _ _ m hr
    · exact ih _ _ m h

theorem appendBlock_notOk (cfg : Cfg) (m0 : SxMsa) (bl : List BLine) : ErrNotOk (appendBlock cfg m0 bl) := by
  intro m h
  unfold appendBlock at h
  split at h
  · simp at h
  · simp only at h
    split at h
    · simp at h
    · split at h
      · simp at h
      · split at h
        · rename_i r hr
          simp only [Sum.inl.injEq] at h
          subst h
          exact appendLines_notOk _ _ _ _ _ _ _ m hr
        · simp at h

theorem firstNames_notOk (nseq : Nat) : ∀ (zl : List (LType × Bytes)) (seqi : Nat), ErrNotOk (firstNames nseq zl seqi) := by
  intro zl
  induction zl with
  | nil => intro seqi m h; simp [firstNames] at h
  | cons p zl ih =>
    intro seqi m h
    obtain ⟨t, l⟩ := p
    unfold firstNames at h
    split at h
    · simp at h
    · split at h
      · split at h
        · simp at h
        · split at h
          · rename_i r hr
            simp only [Sum.inl.injEq] at h
            subst h
            exact ih _ m hr
          · simp at h
      · split at h
        · rename_i r hr
          simp only [Sum.inl.injEq] at h
          subst h
          exact ih _ m hr
        · simp at h

theorem firstBlock_notOk (lines : List Bytes) : ErrNotOk (firstBlock lines) := by
  intro m h
  unfold firstBlock at h
  skip
  repeat' (split at h)
  all_goals (first | (simp at h; done) | skip)
  all_goals
    rename_i r hr
    simp only [Sum.inl.injEq] at h
    subst h
    exact firstNames_notOk _ _ _ m hr

theorem otherTypes_notOk (ltype : List LType) : ∀ (lines : List Bytes) (idx : Nat) (m : Msa),
    otherTypes ltype lines idx ≠ some (.ok m) := by
  intro lines
  induction lines with
  | nil => intro idx m h; simp [otherTypes] at h
  | cons l ls ih =>
    intro idx m h
    unfold otherTypes at h
    split at h
    · simp at h
    · split at h
      · simp at h
      · exact ih _ m h

theorem otherNames_notOk (names : List Bytes) (ltype : List LType) : ∀ (lines : List Bytes) (idx seqi : Nat),
    ErrNotOk (otherNames names ltype lines idx seqi) := by
  intro lines
  induction lines with
  | nil => intro idx seqi m h; simp [otherNames] at h
  | cons l ls ih =>
    intro idx seqi m h
    unfold otherNames at h
    split at h
    · simp at h
    · split at h
      · simp at h
      · split at h
        · split at h
          · simp at h
          · split at h
            · simp at h
            · split at h
              · rename_i r hr
                simp only [Sum.inl.injEq] at h
                subst h
                exact ih _ _ m hr
              · simp at h
        · split at h
          · rename_i r hr
            simp only [Sum.inl.injEq] at h
            subst h
            exact ih _ _ m hr
          · simp at h

theorem otherBlock_notOk (m0 : SxMsa) (ltype : List LType) (lines : List Bytes) : ErrNotOk (otherBlock m0 ltype lines) := by
  intro m h
  unfold otherBlock at h
  split at h
  · rename_i r hr
    simp only [Sum.inl.injEq] at h
    subst h
    exact otherTypes_notOk _ _ _ m hr
  · exact otherNames_notOk _ _ _ _ _ m h

theorem processBlock_notOk (cfg : Cfg) (st : SxSt) : NotOk (processBlock cfg st) := by
  intro m h
  unfold processBlock at h
  simp only at h
  split at h
  · simp [selexMsgNLines] at h
  · split at h
    · split at h
      · rename_i r hr
        simp only [Sum.inr.injEq] at h
        subst h
        exact firstBlock_notOk _ m hr
      · split at h
        · rename_i r hr
          simp only [Sum.inr.injEq] at h
          subst h
          exact appendBlock_notOk _ _ _ m hr
        · simp at h
    · split at h
      · simp at h
      · split at h
        · rename_i r hr
          simp only [Sum.inr.injEq] at h
          subst h
          exact otherBlock_notOk _ _ _ m hr
        · split at h
          · rename_i r hr
            simp only [Sum.inr.injEq] at h
            subst h
            exact appendBlock_notOk _ _ _ m hr
          · simp at h

theorem pushLine_notOk (st : SxSt) (line : Bytes) : NotOk (pushLine st line) := by
  intro m h
  unfold pushLine at h
  simp only at h
  repeat' (split at h)
  all_goals (simp at h)

/-- a step of the SELEX reader never stops with eslOK: success is only declared at end of input -/
theorem selexStep_notOk (cfg : Cfg) (st : SxSt) (l : Bytes) : NotOk (selexStep cfg st l) := by
  unfold selexStep
  split
  · split
    · simp
    · exact pushLine_notOk _ _
  · split
    · simp
    · split
      · exact processBlock_notOk _ _
      · exact pushLine_notOk _ _

/-- after a successful SELEX read nothing is left: the next `esl_msafile_Read` returns eslEOF -/
theorem selexRead_ok_consumes (cfg : Cfg) (lines : List Bytes) (m : Msa) (h : (selexRead cfg lines).1 = .ok m) :
    (selexRead cfg lines).2 = [] ∧ (selexRead cfg (selexRead cfg lines).2).1 = .eof := by
  have h1 := runLines_finish_consumes (selexStep cfg) (selexFinish cfg) (fun r => ∃ m, r = .ok m)
    (fun st l r hs => by
      intro ⟨m', hm'⟩
      subst hm'
      exact selexStep_notOk cfg st l m' hs) lines {} ⟨m, h⟩
  refine ⟨h1, ?_⟩
  have : (selexRead cfg lines).2 = [] := h1
  rw [this]
  simp [selexRead, runLines, selexFinish, selexFinal]

end EaselModel.Msafile
