import EaselModel.Msafile.Stockholm
import EaselModel.Msafile.AfaLemmas
import EaselModel.Msafile.Guess
/-! # The numeric payload of Stockholm `#=GS <seq> WT <w>` and `#=GF GA|NC|TC <x> [<y>]`

`Stockholm.lean` keeps of a weight / cut-off token only what decides control flow (accepted by `esl_mem_IsReal`? equal to
the "unset" marker -1.0?).  This file carries the VALUES: `esl_memtod` = `strtod` of the NUL-terminated token (binary64),
`esl_memtof` = `(float) strtod(...)` (binary64 rounded again to binary32), for every token the reader accepts:

* decimal tokens `[ws][+-]digits[.digits][(e|E)[+-]digits]` (every token the writers emit: `%.2f`, `%.1f`, and `%g`-like
  forms with an exponent) and hexadecimal tokens `0x…[p…]` — EXACTLY: the token is a rational `m·10^x` / `m·2^x`, glibc's
  `strtod` is correctly rounded (nearest, ties to even, subnormals, overflow to infinity), which is integer arithmetic
  (`roundBin`); `strtod` converts the longest valid prefix, the rest of the token is ignored (`esl_mem_IsReal` lets such
  tokens through: it skips any byte that is not a digit, '.', 'e', 'E' or a space); no valid prefix = +0.0;
* `inf` / `infinity` prefixes (any case): ±infinity, exactly;
* `nan` / `nan(…)` prefixes: a NaN; its payload is NOT modelled — the stated canonicalisation is "every NaN pattern is
  the quiet NaN 0x7ff8000000000000 / 0x7fc00000 with the token's sign" (the plug-in canonicalises the harness side the same way).

`stockholmReadV` is `stockholmRead` run in lockstep with a recorder of these values (`NumSt`); `stockholmReadV_erase` says
it IS `stockholmRead` up to the payload (`patchRes`), so every theorem about `stockholmRead` (total, no fault, message,
well-formed) transfers (`stockholmReadV_good`).  C locale (decimal point '.', no grouping). -/
namespace EaselModel.Msafile

/-! ## correct rounding of a positive rational to a binary format -/

/-- the bit pattern (sign excluded) of the number of the binary format with `P` significand bits (hidden bit included),
    least exponent `emin` of the unit in the last place (-1074 / -149) and all-ones exponent field `expMax` (2047 / 255)
    nearest to `p / q`, ties to even; overflow gives infinity.  `p / (q·2^e)` is brought into `[2^(P-1), 2^P)` (or `e` is
    clamped at `emin`: subnormals), divided with remainder, rounded; `(e - emin)·2^(P-1) + n` is then the pattern — for a
    normal number the exponent field is `e - emin + 1` and the hidden bit of `n` supplies the `+1`; a carry out of the
    significand (`n = 2^P`) moves into the exponent field by the same addition. -/
def roundBin (P : Nat) (emin : Int) (expMax : Nat) (p q : Nat) : Nat :=
  if p == 0 || q == 0 then 0
  else
    let e1 : Int := Int.ofNat (Nat.log2 p) - Int.ofNat (Nat.log2 q) - Int.ofNat (P - 1)
    let sc := fun (e : Int) => if e ≥ 0 then (p, q * 2 ^ e.toNat) else (p * 2 ^ (-e).toNat, q)
    let s1 := sc e1
    let e2 : Int := if s1.1 / s1.2 < 2 ^ (P - 1) then e1 - 1 else e1
    let e : Int := if e2 < emin then emin else e2
    let s := sc e
    let n := s.1 / s.2
    let r := s.1 % s.2
    let n' := if 2 * r > s.2 || (2 * r == s.2 && n % 2 == 1) then n + 1 else n
    let bits := (e - emin).toNat * 2 ^ (P - 1) + n'
    if bits ≥ expMax * 2 ^ (P - 1) then expMax * 2 ^ (P - 1) else bits

def round64 (p q : Nat) : Nat := roundBin 53 (-1074) 2047 p q
def round32 (p q : Nat) : Nat := roundBin 24 (-149) 255 p q

def inf64 : Nat := 0x7ff0000000000000
def qnan64 : Nat := 0x7ff8000000000000

/-- `m · 10^x` (m > 0) as binary64; the size test keeps the powers small whatever the exponent field says:
    with `d` decimal digits, `10^(d+x-1) ≤ m·10^x < 10^(d+x)`; above `10^310` everything is infinity, below `10^-327`
    (half the least subnormal is 2.47e-324) everything is 0 -/
def dec64 (m : Nat) (x : Int) : Nat :=
  if m == 0 then 0
  else
    let d : Int := Int.ofNat (Nat.toDigits 10 m).length
    if d + x > 311 then inf64
    else if d + x < -327 then 0
    else if x ≥ 0 then round64 (m * 10 ^ x.toNat) 1 else round64 m (10 ^ (-x).toNat)

/-- `m · 2^x` (hexadecimal floating constant) as binary64 -/
def hex64 (m : Nat) (x : Int) : Nat :=
  if m == 0 then 0
  else
    let d : Int := Int.ofNat (Nat.log2 m)
    if d + x > 1030 then inf64
    else if d + x < -1080 then 0
    else if x ≥ 0 then round64 (m * 2 ^ x.toNat) 1 else round64 m (2 ^ (-x).toNat)

def lowerC (c : UInt8) : UInt8 := if 65 ≤ c && c ≤ 90 then c + 32 else c

/-- `strtod(tok, NULL)` as a binary64 pattern, `tok` NUL-free (glibc, C locale, round to nearest) -/
def strtodBits (tok : Bytes) : UInt64 :=
  let s := tok.dropWhile isSpace
  let (neg, p) := match s with
    | 45 :: r => (true, r)
    | 43 :: r => (false, r)
    | _ => (false, s)
  let sign : Nat := if neg then 2 ^ 63 else 0
  let p3 := (p.take 3).map lowerC
  if p3 == [105, 110, 102] then UInt64.ofNat (sign + inf64)                       -- "inf", "infinity"
  else if p3 == [110, 97, 110] then UInt64.ofNat (sign + qnan64)                  -- "nan", "nan(...)": canonical quiet NaN
  else
    let isHex := match p with
      | 48 :: x :: r => (x == 120 || x == 88) &&
          (match r with
           | h :: r' => isHexDigit h || (h == 46 && (match r' with | h' :: _ => isHexDigit h' | [] => false))
           | [] => false)
      | _ => false
    if isHex then
      let p := p.drop 2
      let ip := p.takeWhile isHexDigit
      let p1 := p.dropWhile isHexDigit
      let (fp, p2) := match p1 with
        | 46 :: r => (r.takeWhile isHexDigit, r.dropWhile isHexDigit)
        | _ => ([], p1)
      UInt64.ofNat (sign + hex64 (hexDigitsVal (ip ++ fp)) (parseExp p2 112 80 - 4 * Int.ofNat fp.length))
    else
      let ip := p.takeWhile isDigit
      let p1 := p.dropWhile isDigit
      let (fp, p2) := match p1 with
        | 46 :: r => (r.takeWhile isDigit, r.dropWhile isDigit)
        | _ => ([], p1)
      if ip.isEmpty && fp.isEmpty then 0                                          -- no conversion: +0.0 whatever the sign
      else UInt64.ofNat (sign + dec64 (digitsVal (ip ++ fp)) (parseExp p2 101 69 - Int.ofNat fp.length))

/-- `(float) x` for the binary64 pattern `b`: round to nearest even again, overflow to infinity, NaN canonical -/
def f64ToF32 (b : UInt64) : UInt32 :=
  let n := b.toNat
  let sign : Nat := if n / 2 ^ 63 == 1 then 2 ^ 31 else 0
  let ex := (n / 2 ^ 52) % 2048
  let fr := n % 2 ^ 52
  if ex == 2047 then UInt32.ofNat (sign + (if fr == 0 then 0x7f800000 else 0x7fc00000))
  else
    let m := if ex == 0 then fr else fr + 2 ^ 52
    let e : Int := Int.ofNat (if ex == 0 then 1 else ex) - 1075
    UInt32.ofNat (sign + (if e ≥ 0 then round32 (m * 2 ^ e.toNat) 1 else round32 m (2 ^ (-e).toNat)))

/-- `esl_memtof(tok, toklen, &x)` -/
def strtofBits (tok : Bytes) : UInt32 := f64ToF32 (strtodBits tok)

/-! ## the recorder -/

/-- the numeric payload read so far: `(seqidx, weight)` per accepted `#=GS <seq> WT` line in input order, and the six
    cut-offs `TC1 TC2 GA1 GA2 NC1 NC2` -/
structure NumSt where
  w : List (Nat × UInt64) := []
  cut : List (Option UInt32) := List.replicate 6 none
deriving Repr

/-- the two-threshold part of an ACCEPTED `#=GF GA|NC|TC` line (mirrors `parseCutoffs`) -/
def numCutoffs (ns : NumSt) (p : Bytes) (i1 i2 : Nat) (undefOk : Bool) : NumSt :=
  match memtok p blankTab with
  | none => ns
  | some (tok, p1) =>
    let ns1 := if undefOk && memstrcmp tok bUndefined then ns else { ns with cut := ns.cut.set i1 (some (strtofBits tok)) }
    match memtok p1 blankTab with
    | none => ns1
    | some (tok2, _) => { ns1 with cut := ns1.cut.set i2 (some (strtofBits tok2)) }

/-- what an ACCEPTED line (`stoStep cfg st line = .inl st'`) adds to the payload: the line is tokenised exactly as
    `stockholm_parse_gs` / `stockholm_parse_gf` do; the sequence a `WT` line spoke about is `st'.si - 1` (`pd->si = seqidx+1`) -/
def numUpd (ns : NumSt) (st st' : StoSt) (line : Bytes) : NumSt :=
  if st.lead then ns
  else
    let p := line.dropWhile (fun c => c == 32 || c == 9)
    if memstrpfx p bGS then
      match memtok p blankTab with
      | none => ns
      | some (_, p1) =>
        match memtok p1 blankTab with
        | none => ns
        | some (_, p2) =>
          match memtok p2 blankTab with
          | none => ns
          | some (tag, p3) =>
            if memstrcmp tag bWT then
              match memtok p3 blankTab with
              | none => ns
              | some (tok, _) => { ns with w := ns.w ++ [(st'.si - 1, strtodBits tok)] }
            else ns
    else if memstrpfx p bGF then
      match memtok p blankTab with
      | none => ns
      | some (_, p1) =>
        match memtok p1 blankTab with
        | none => ns
        | some (tag, p2) =>
          if memstrcmp tag bGA then numCutoffs ns p2 2 3 false
          else if memstrcmp tag bNC then numCutoffs ns p2 4 5 true
          else if memstrcmp tag bTC then numCutoffs ns p2 0 1 false
          else ns
    else ns

/-- the last value recorded for sequence `i` -/
def lastW (w : List (Nat × UInt64)) (i : Nat) : Option UInt64 :=
  (w.reverse.find? (fun e => e.1 == i)).map (·.2)

/-- a weight the reader holds as "some value" gets the value recorded for it; `unset` / default weights are left alone -/
def patchW1 (w : List (Nat × UInt64)) (i : Nat) (x : Wgt) : Wgt :=
  match x with
  | .val b => .val ((lastW w i).getD b)
  | y => y

def patchWFrom (w : List (Nat × UInt64)) : Nat → List Wgt → List Wgt
  | _, [] => []
  | i, x :: xs => patchW1 w i x :: patchWFrom w (i + 1) xs

def patchCut (cut : List (Option UInt32)) : Nat → List (Option UInt32) → List (Option UInt32)
  | _, [] => []
  | i, x :: xs => (match x with | some b => some ((cut.getD i none).getD b) | none => none) :: patchCut cut (i + 1) xs

/-- the alignment with its numeric payload filled in -/
def patchMsa (ns : NumSt) (m : Msa) : Msa :=
  { m with wgt := patchWFrom ns.w 0 m.wgt, cutoff := patchCut ns.cut 0 m.cutoff }

def patchRes (ns : NumSt) (r : Res Msa) : Res Msa :=
  match r with
  | .ok m => .ok (patchMsa ns m)
  | r' => r'

/-- one line of the value-carrying reader: `stoStep`, and the recorder on the side -/
def stoStepV (cfg : Cfg) (s : StoSt × NumSt) (line : Bytes) : Sum (StoSt × NumSt) (Res Msa) :=
  match stoStep cfg s.1 line with
  | .inl st' => .inl (st', numUpd s.2 s.1 st' line)
  | .inr r => .inr (patchRes s.2 r)

/-- `esl_msafile_stockholm_Read` with the numeric payload of weights and cut-offs -/
def stockholmReadV (cfg : Cfg) (lines : List Bytes) : Res Msa × List Bytes :=
  runLines (stoStepV cfg) (fun s => stoFinish s.1) ({}, {}) lines

/-! ## `stockholmReadV` is `stockholmRead` up to the payload -/

theorem runLines_stoStepV (cfg : Cfg) (lines : List Bytes) (st : StoSt) (ns : NumSt) :
    ∃ ns', runLines (stoStepV cfg) (fun s => stoFinish s.1) (st, ns) lines =
      (patchRes ns' (runLines (stoStep cfg) stoFinish st lines).1, (runLines (stoStep cfg) stoFinish st lines).2) := by
  induction lines generalizing st ns with
  | nil =>
    refine ⟨ns, ?_⟩
    simp only [runLines]
    unfold stoFinish patchRes
    split <;> rfl
  | cons l ls ih =>
    unfold runLines
    unfold stoStepV
    cases h : stoStep cfg st l with
    | inl st' =>
      simp only [h]
      exact ih st' (numUpd ns st st' l)
    | inr r =>
      simp only [h]
      exact ⟨ns, rfl⟩

/-- **erasure**: the value-carrying reader returns what `stockholmRead` returns, with the payload patched in -/
theorem stockholmReadV_erase (cfg : Cfg) (lines : List Bytes) :
    ∃ ns, stockholmReadV cfg lines = (patchRes ns (stockholmRead cfg lines).1, (stockholmRead cfg lines).2) :=
  runLines_stoStepV cfg lines {} {}

theorem patchWFrom_length (w : List (Nat × UInt64)) (i : Nat) (l : List Wgt) : (patchWFrom w i l).length = l.length := by
  induction l generalizing i with
  | nil => rfl
  | cons x xs ih => simp [patchWFrom, ih]

theorem patchWFrom_all (w : List (Nat × UInt64)) (p : Wgt → Bool) (hp : ∀ i x, p (patchW1 w i x) = p x) (i : Nat) (l : List Wgt) :
    (patchWFrom w i l).all p = l.all p := by
  induction l generalizing i with
  | nil => rfl
  | cons x xs ih => simp [patchWFrom, List.all_cons, hp, ih]

theorem val_ne_unset (a : UInt64) : (Wgt.val a != Wgt.unset) = true := by
  rw [bne_iff_ne]; intro h; cases h

theorem val_beq_dflt (a : UInt64) : (Wgt.val a == Wgt.dflt) = false := by
  rw [beq_eq_false_iff_ne]; intro h; cases h

theorem patchW1_ne_unset (w : List (Nat × UInt64)) (i : Nat) (x : Wgt) : (patchW1 w i x != Wgt.unset) = (x != Wgt.unset) := by
  cases x with
  | val b => show (Wgt.val _ != Wgt.unset) = (Wgt.val b != Wgt.unset); rw [val_ne_unset, val_ne_unset]
  | unset => rfl
  | dflt => rfl

theorem patchW1_eq_dflt (w : List (Nat × UInt64)) (i : Nat) (x : Wgt) : (patchW1 w i x == Wgt.dflt) = (x == Wgt.dflt) := by
  cases x with
  | val b => show (Wgt.val _ == Wgt.dflt) = (Wgt.val b == Wgt.dflt); rw [val_beq_dflt, val_beq_dflt]
  | unset => rfl
  | dflt => rfl

/-- the payload does not enter well-formedness: which weights are set does -/
theorem patchMsa_wellFormed (ns : NumSt) (m : Msa) : (patchMsa ns m).wellFormed = m.wellFormed := by
  unfold Msa.wellFormed patchMsa Msa.nseq
  simp only [patchWFrom_length,
    patchWFrom_all ns.w (· != Wgt.unset) (patchW1_ne_unset ns.w),
    patchWFrom_all ns.w (· == Wgt.dflt) (patchW1_eq_dflt ns.w)]

theorem patchRes_good (ns : NumSt) (r : Res Msa) (h : Good r) : Good (patchRes ns r) := by
  cases r with
  | ok m => show (patchMsa ns m).wellFormed = true; rw [patchMsa_wellFormed]; exact h
  | eof => exact h
  | eformat msg => exact h
  | fault => exact h
  | exc => exact h

/-- every fact of the shape "the outcome of `stockholmRead` is good" holds for the value-carrying reader -/
theorem stockholmReadV_good (cfg : Cfg) (lines : List Bytes) (h : Good (stockholmRead cfg lines).1) :
    Good (stockholmReadV cfg lines).1 := by
  obtain ⟨ns, e⟩ := stockholmReadV_erase cfg lines
  rw [e]; exact patchRes_good ns _ h

/-- … the same lines are left unread -/
theorem stockholmReadV_rest (cfg : Cfg) (lines : List Bytes) : (stockholmReadV cfg lines).2 = (stockholmRead cfg lines).2 := by
  obtain ⟨ns, e⟩ := stockholmReadV_erase cfg lines
  rw [e]

/-- … and the alignment differs from `stockholmRead`'s in `wgt` and `cutoff` only -/
theorem stockholmReadV_ok (cfg : Cfg) (lines : List Bytes) (m : Msa) (h : (stockholmReadV cfg lines).1 = .ok m) :
    ∃ m0 ns, (stockholmRead cfg lines).1 = .ok m0 ∧ m = patchMsa ns m0 := by
  obtain ⟨ns, e⟩ := stockholmReadV_erase cfg lines
  rw [e] at h
  cases h0 : (stockholmRead cfg lines).1 with
  | ok m0 => rw [h0] at h; exact ⟨m0, ns, rfl, by cases h; rfl⟩
  | eof => rw [h0] at h; cases h
  | eformat msg => rw [h0] at h; cases h
  | fault => rw [h0] at h; cases h
  | exc => rw [h0] at h; cases h

/-! ## the conversion on the tokens the writers emit (kernel-evaluated instances; `%.2f`, `%.1f`, `%g`) -/

example : strtodBits (str "1.00") = 0x3ff0000000000000 := by decide +kernel
example : strtodBits (str "0.42") = 0x3fdae147ae147ae1 := by decide +kernel
example : strtodBits (str "-1.00") = 0xbff0000000000000 := by decide +kernel
example : strtodBits (str "0.10") = 0x3fb999999999999a := by decide +kernel
example : strtodBits (str "123456.79") = 0x40fe240ca3d70a3d := by decide +kernel
example : strtodBits (str "1e-05") = 0x3ee4f8b588e368f1 := by decide +kernel
example : strtodBits (str "2.5e+10") = 0x42174876e8000000 := by decide +kernel
example : strtodBits (str "4.9e-324") = 0x0000000000000001 := by decide +kernel
example : strtodBits (str "2.4e-324") = 0x0000000000000000 := by decide +kernel
example : strtodBits (str "1.7976931348623157e308") = 0x7fefffffffffffff := by decide +kernel
example : strtodBits (str "1.7976931348623159e308") = 0x7ff0000000000000 := by decide +kernel
example : strtodBits (str "1e999999999999") = 0x7ff0000000000000 := by decide +kernel
example : strtodBits (str "0x1.8p1") = 0x4008000000000000 := by decide +kernel
example : strtodBits (str "-inf1") = 0xfff0000000000000 := by decide +kernel
example : strtodBits (str "x1") = 0 := by decide +kernel
example : strtofBits (str "25.0") = 0x41c80000 := by decide +kernel
example : strtofBits (str "0.1") = 0x3dcccccd := by decide +kernel
example : strtofBits (str "1e39") = 0x7f800000 := by decide +kernel
/-- a 9-digit halfway case between two floats that double rounding gets "wrong" on purpose, as `(float) strtod()` does:
    1.00000005960464477540 is above the float midpoint 1 + 2^-24, but rounds to the double 1 + 2^-24 exactly, a tie that
    goes to the even float 1.0 -/
example : strtofBits (str "1.0000000596046447754") = 0x3f800000 := by decide +kernel

/-! ## the opened file with the payload -/

/-- `esl_msafile_Read(afp, &msa)` with the numeric payload of Stockholm / Pfam weights and cut-offs (the other eight
    formats carry none: their reader is unchanged) -/
def Opened.readV (o : Opened) (lines : List Bytes) : Res Msa × List Bytes :=
  match o.fmt with
  | .pfam | .stockholm => stockholmReadV o.cfg lines
  | _ => o.read lines

theorem Opened.readV_good (o : Opened) (lines : List Bytes) (h : Good (o.read lines).1) : Good (o.readV lines).1 := by
  obtain ⟨fmt, abc, nw⟩ := o
  cases fmt <;> first
    | exact stockholmReadV_good _ lines h
    | exact h

theorem Opened.readV_rest (o : Opened) (lines : List Bytes) : (o.readV lines).2 = (o.read lines).2 := by
  obtain ⟨fmt, abc, nw⟩ := o
  cases fmt <;> first
    | exact stockholmReadV_rest _ lines
    | rfl

end EaselModel.Msafile
