import EaselModel.Msafile.StockholmInv
/-! Preservation of the Stockholm reader's invariant by every line parser, and the theorems about `stockholmRead`. -/
namespace EaselModel.Msafile

/-- the invariant does not look at `lead name desc acc au cutset hasw` -/
theorem StoInv.irrelevant {cfg : Cfg} {st st' : StoSt} (h : StoInv cfg st)
    (e : { st' with lead := st.lead, name := st.name, desc := st.desc, acc := st.acc, au := st.au,
                    cutset := st.cutset, hasw := st.hasw } = st) : StoInv cfg st' := by
  cases st; cases st'
  simp only [StoSt.mk.injEq] at e
  obtain ⟨-, e1, e2, e3, e4, e5, -, -, -, -, -, e6, e7, e8, e9, -, e10, e11, e12, e13, e14, e15, e16, e17, e18, e19,
          e20, e21, e22, e23, e24, e25, e26, e27, e28, e29, e30, e31, e32, e33, e34, e35, e36⟩ := e
  subst_vars
  exact
    { alloc := { h.alloc with }, slots := { h.slots with }, seq := { h.seq with }, block := { h.block with },
      gcnz := h.gcnz, count := h.count }

/-! ## `#=GF`, comments -/

theorem parseCutoffs_inv {cfg : Cfg} {st : StoSt} (h : StoInv cfg st) (p : Bytes) (i1 i2 : Nat) (u : Bool) :
    EGood (StoInv cfg) (parseCutoffs st p i1 i2 u) := by
  unfold parseCutoffs
  split
  · simp
  · split
    · simp
    · simp only
      split
      · split
        · exact h
        · exact h.irrelevant rfl
      · split
        · simp
        · split
          · exact h.irrelevant rfl
          · exact h.irrelevant rfl

theorem addGF_inv {cfg : Cfg} {st : StoSt} (h : StoInv cfg st) (tag value : Bytes) :
    EGood (StoInv cfg) (addGF st tag value) := by
  unfold addGF
  have hg := h.alloc.gf
  have key : st.gf.length <
      (if st.gf.length == st.gfAlloc then (if st.gfAlloc == 0 then 16 else st.gfAlloc * 2) else st.gfAlloc) := by
    by_cases e : st.gf.length = st.gfAlloc
    · by_cases z : st.gfAlloc = 0
      · simp [e, z]
      · simp [e, z]; omega
    · simp [e]; omega
  simp only
  generalize (if st.gf.length == st.gfAlloc then (if st.gfAlloc == 0 then 16 else st.gfAlloc * 2) else st.gfAlloc) = alloc at key ⊢
  split
  · rename_i hge
    exfalso; omega
  · simp only [EGood_ok]
    exact
      { alloc := { h.alloc with gf := (by simp only [List.length_append, List.length_cons, List.length_nil]; omega) },
        slots := { h.slots with }, seq := { h.seq with }, block := { h.block with }, gcnz := h.gcnz, count := h.count }

/-- a line that starts with '#' has a first token: the "EOL can't happen here" exceptions are unreachable -/
theorem memtok_hash (p : Bytes) (hp : p.head? = some 35) : memtok p blankTab ≠ none := by
  cases p with
  | nil => simp at hp
  | cons c r =>
    simp only [List.head?_cons, Option.some.injEq] at hp
    subst hp
    have hd : inDelim blankTab 35 = false := by decide
    unfold memtok
    simp [List.dropWhile_cons, hd]

theorem parseGf_inv {cfg : Cfg} {st : StoSt} (h : StoInv cfg st) (p : Bytes) (hp : p.head? = some 35) :
    EGood (StoInv cfg) (parseGf st p) := by
  unfold parseGf
  split
  · rename_i hm; exact absurd hm (memtok_hash p hp)
  · split
    · simp
    · split
      · simp
      · split
        · split
          · simp
          · split
            · simp
            · exact h.irrelevant rfl
        · split
          · split
            · simp
            · split
              · simp
              · exact h.irrelevant rfl
          · split
            · exact h.irrelevant rfl
            · split
              · exact h.irrelevant rfl
              · split
                · exact parseCutoffs_inv h _ _ _ _
                · split
                  · exact parseCutoffs_inv h _ _ _ _
                  · split
                    · exact parseCutoffs_inv h _ _ _ _
                    · exact addGF_inv h _ _

theorem parseComment_inv {cfg : Cfg} {st : StoSt} (h : StoInv cfg st) (p : Bytes) :
    EGood (StoInv cfg) (parseComment st p) := by
  unfold parseComment
  have hg := h.alloc.comments
  have key : st.comments.length <
      (if st.comments.length == (if st.commentAlloc == 0 then 16 else st.commentAlloc)
        then (if st.commentAlloc == 0 then 16 else st.commentAlloc) * 2
        else (if st.commentAlloc == 0 then 16 else st.commentAlloc)) := by
    by_cases z : st.commentAlloc = 0
    · have : st.comments.length = 0 := by omega
      simp [z, this]
    · by_cases e : st.comments.length = st.commentAlloc
      · simp [z, e]; omega
      · simp [z, e]; omega
  simp only
  generalize (if st.comments.length == (if st.commentAlloc == 0 then 16 else st.commentAlloc)
        then (if st.commentAlloc == 0 then 16 else st.commentAlloc) * 2
        else (if st.commentAlloc == 0 then 16 else st.commentAlloc)) = alloc at key ⊢
  split
  · exfalso; omega
  · simp only [EGood_ok]
    exact
      { alloc := { h.alloc with comments := (by simp only [List.length_append, List.length_cons, List.length_nil]; omega) },
        slots := { h.slots with }, seq := { h.seq with }, block := { h.block with }, gcnz := h.gcnz, count := h.count }

/-! ## end of block -/

theorem countP_le_of_beyond (l : List Nat) (m : Nat) (hb : ∀ i, m ≤ i → l.getD i 0 = 0) :
    List.countP (· != 0) l ≤ m := by
  induction l generalizing m with
  | nil => simp
  | cons x rest ih =>
    cases m with
    | zero =>
      have hx : x = 0 := by simpa using hb 0 (Nat.le_refl 0)
      have hr : ∀ i, 0 ≤ i → rest.getD i 0 = 0 := by
        intro i _
        have := hb (i + 1) (Nat.zero_le _)
        simpa using this
      have := ih 0 hr
      simp only [List.countP_cons, hx]
      simpa using this
    | succ m =>
      have hr : ∀ i, m ≤ i → rest.getD i 0 = 0 := by
        intro i hi
        have := hb (i + 1) (by omega)
        simpa using this
      have := ih m hr
      simp only [List.countP_cons]
      split <;> omega

theorem endBlock_inv {cfg : Cfg} {st : StoSt} (h : StoInv cfg st) : EGood (StoInv cfg) (endBlock st) := by
  unfold endBlock
  split
  · rename_i hin
    have hbi : 0 < st.bi := h.block.inb.mp hin
    split
    · simp
    · rename_i c1
      split
      · simp
      · rename_i c2
        split
        · simp
        · rename_i c3
          simp only [EGood_ok]
          have hl : st.nblock ≠ 0 → st.bi = st.npb := by
            intro hn
            simp only [bne_iff_ne, ne_eq, Bool.and_eq_true, not_and, Decidable.not_not] at c3
            exact c3 hn
          have hns : st.nseqB = st.names.length := by
            by_cases hn : st.nblock = 0
            · have e := h.seq.nseqB hn
              have le := countP_le_of_beyond st.sqlen st.names.length h.seq.beyond
              have : ¬ st.nseqB < st.nseq := by
                simp only [hn, beq_self_eq_true, Bool.true_and, decide_eq_true_eq] at c2
                exact c2
              have := h.alloc.nseq
              omega
            · have : st.nseqB = st.nseq := by
                simp only [bne_iff_ne, ne_eq, Bool.and_eq_true, not_and, Decidable.not_not] at c1
                exact c1 hn
              rw [this]; exact h.alloc.nseq
          have hb := h.block
          exact
            { alloc := { h.alloc with nseq := hns, si := Nat.zero_le _ },
              slots := { h.slots with },
              seq := { beyond := h.seq.beyond, nseqB := fun h0 => absurd h0 (Nat.succ_ne_zero _) },
              block :=
                { len := hb.len,
                  first := fun h0 => absurd h0 (Nat.succ_ne_zero _),
                  later := fun _ => ⟨(by
                    show st.bi ≤ st.balloc
                    by_cases hn : st.nblock = 0
                    · exact hb.first hn
                    · have := hb.later hn; have := hl hn; omega), Nat.zero_le _⟩,
                  recs := (by
                    intro j hj
                    have hj' : j < st.bi := by simpa using hj
                    have : LineRec st j := by
                      apply hb.recs
                      by_cases hn : st.nblock = 0
                      · simp only [hn, if_true]; exact hj'
                      · simp only [hn, if_false]; have := hl hn; omega
                    exact this),
                  inb := (by show (false = true) ↔ 0 < 0; simp) },
              gcnz := h.gcnz,
              count := h.count.endBlock hbi hl }
  · exact h

/-! ## `#=GS` -/

theorem sqnameAt_ok {st : StoSt} (ha : AllocInv st) {i : Nat} (hi : i < st.names.length) :
    sqnameAt st i = .ok st.names[i]? := by
  unfold sqnameAt
  have := ha.names
  simp only [show i < st.sqalloc by omega, if_true]

theorem gsSeqIdx_spec {cfg : Cfg} {st : StoSt} (h : StoInv cfg st) (seqname : Bytes) :
    EGood (fun r => StoInv cfg r.1 ∧ r.2 < r.1.names.length ∧ r.1.nblock = st.nblock) (gsSeqIdx st seqname) := by
  unfold gsSeqIdx
  split
  · exact getSeqIdx_spec h seqname
  · rename_i hne
    have hne' : st.si ≠ st.nseq := by simpa using hne
    have hlt : st.si < st.names.length := by have := h.alloc.si; have := h.alloc.nseq; omega
    rw [sqnameAt_ok h.alloc hlt]
    simp only
    split
    · exact getSeqIdx_spec h seqname
    · simp only [EGood_ok]
      exact ⟨h, hlt, by first | rfl | trivial⟩

theorem setSeqOpt_spec (a : OptRows) (sqalloc idx : Nat) (v : Bytes) (ha : ∀ l, a = some l → l.length = sqalloc)
    (hi : idx < sqalloc) : EGood (fun a' => ∀ l, a' = some l → l.length = sqalloc) (setSeqOpt a sqalloc idx v) := by
  unfold setSeqOpt
  simp only [show ¬ idx ≥ sqalloc by omega, if_false]
  have hl : (a.getD (List.replicate sqalloc none)).length = sqalloc := by
    cases a with
    | none => simp
    | some l => simpa using ha l rfl
  rw [setE_ok _ (by rw [hl]; exact hi)]
  simp only [EGood_ok]
  intro l hl'
  simp only [Option.some.injEq] at hl'
  rw [← hl']; simp [hl]

theorem optIsSet_ok (a : OptRows) (sqalloc idx : Nat) (ha : ∀ l, a = some l → l.length = sqalloc) (hi : idx < sqalloc) :
    ∃ b, optIsSet a idx = .ok b := by
  unfold optIsSet
  cases a with
  | none => exact ⟨false, rfl⟩
  | some l =>
    have := ha l rfl
    simp only [getE_ok (show idx < l.length by omega)]
    exact ⟨_, rfl⟩

theorem addGS_inv {cfg : Cfg} {st : StoSt} (h : StoInv cfg st) (tag : Bytes) (sqidx : Nat) (value : Bytes)
    (hi : sqidx < st.names.length) : EGood (fun st2 => StoInv cfg st2 ∧ st2.names = st.names) (addGS st tag sqidx value) := by
  unfold addGS getGsTagIdx
  have ha := h.alloc
  have hsq : sqidx < st.sqalloc := by have := ha.names; omega
  cases hf : List.findIdx? (fun x => x == tag) st.gsTags with
  | some t =>
    simp only
    obtain ⟨htl, _⟩ := List.findIdx?_eq_some_iff_getElem.mp hf
    have ht : t < st.gs.length := by rw [ha.gs.1]; exact htl
    simp only [getE_ok ht]
    have hrow : (st.gs[t]).length = st.sqalloc := ha.gs.2 _ (List.getElem_mem ht)
    simp only [getE_ok (show sqidx < (st.gs[t]).length by omega)]
    rw [setE_ok _ (show sqidx < (st.gs[t]).length by omega)]
    simp only
    rw [setE_ok _ ht]
    simp only [EGood_ok]
    refine ⟨?_, by first | rfl | trivial⟩
    exact
      { alloc := { ha with gs := ⟨(by simp [ha.gs.1]), (by
          intro row hrow'
          rcases List.mem_or_eq_of_mem_set hrow' with hm | hm
          · exact ha.gs.2 row hm
          · rw [hm]; simp [hrow])⟩ },
        slots := { h.slots with }, seq := { h.seq with }, block := { h.block with }, gcnz := h.gcnz, count := h.count }
  | none =>
    simp only
    have hlen : st.gsTags.length = st.gs.length := ha.gs.1.symm
    have hget : (st.gs ++ [List.replicate st.sqalloc (none : Option Bytes)])[st.gsTags.length]? = some (List.replicate st.sqalloc none) := by
      rw [hlen]; simp
    have h1 : getE (st.gs ++ [List.replicate st.sqalloc (none : Option Bytes)]) st.gsTags.length = .ok (List.replicate st.sqalloc none) := by
      unfold getE; rw [hget]
    rw [h1]
    simp only
    rw [getE_ok (show sqidx < (List.replicate st.sqalloc (none : Option Bytes)).length by simp; exact hsq)]
    simp only
    rw [setE_ok _ (show sqidx < (List.replicate st.sqalloc (none : Option Bytes)).length by simp; exact hsq)]
    simp only
    rw [setE_ok _ (show st.gsTags.length < (st.gs ++ [List.replicate st.sqalloc (none : Option Bytes)]).length by simp [hlen])]
    simp only [EGood_ok]
    refine ⟨?_, by first | rfl | trivial⟩
    exact
      { alloc := { ha with gs := ⟨(by simp [ha.gs.1]), (by
          intro row hrow'
          rcases List.mem_or_eq_of_mem_set hrow' with hm | hm
          · rcases List.mem_append.mp hm with hm' | hm'
            · exact ha.gs.2 row hm'
            · simp only [List.mem_cons, List.not_mem_nil, or_false] at hm'
              rw [hm']; simp
          · rw [hm]; simp)⟩ },
        slots := { h.slots with }, seq := { h.seq with }, block := { h.block with }, gcnz := h.gcnz, count := h.count }

theorem gsApply_inv {cfg : Cfg} {st : StoSt} (h : StoInv cfg st) (seqidx : Nat) (tag p : Bytes)
    (hi : seqidx < st.names.length) : EGood (fun st2 => StoInv cfg st2 ∧ st2.names = st.names) (gsApply st seqidx tag p) := by
  unfold gsApply
  have ha := h.alloc
  have hsq : seqidx < st.sqalloc := by have := ha.names; omega
  split
  · -- WT
    split
    · simp
    · rw [getE_ok (show seqidx < st.wgt.length by rw [ha.wgt]; exact hsq)]
      simp only
      split
      · simp
      · split
        · simp
        · split
          · simp
          · rw [setE_ok _ (show seqidx < st.wgt.length by rw [ha.wgt]; exact hsq)]
            simp only [EGood_ok]
            refine ⟨?_, by first | rfl | trivial⟩
            exact
              { alloc := { ha with wgt := (by simp [ha.wgt]) },
                slots := { h.slots with }, seq := { h.seq with }, block := { h.block with }, gcnz := h.gcnz, count := h.count }
  · split
    · -- AC
      split
      · simp
      · obtain ⟨b, hb⟩ := optIsSet_ok st.sqacc st.sqalloc seqidx ha.sqacc hsq
        rw [hb]
        simp only
        split
        · simp
        · split
          · simp
          · split
            · rename_i r he; exact (setSeqOpt_spec _ _ _ _ ha.sqacc hsq).of_error he
            · rename_i a' he
              have ha' := (setSeqOpt_spec _ _ _ _ ha.sqacc hsq).of_ok he
              simp only [EGood_ok]
              refine ⟨?_, by first | rfl | trivial⟩
              exact
                { alloc := { ha with sqacc := ha' },
                  slots := { h.slots with }, seq := { h.seq with }, block := { h.block with }, gcnz := h.gcnz, count := h.count }
    · split
      · -- DE
        obtain ⟨b, hb⟩ := optIsSet_ok st.sqdesc st.sqalloc seqidx ha.sqdesc hsq
        rw [hb]
        simp only
        split
        · simp
        · split
          · rename_i r he; exact (setSeqOpt_spec _ _ _ _ ha.sqdesc hsq).of_error he
          · rename_i a' he
            have ha' := (setSeqOpt_spec _ _ _ _ ha.sqdesc hsq).of_ok he
            simp only [EGood_ok]
            refine ⟨?_, by first | rfl | trivial⟩
            exact
              { alloc := { ha with sqdesc := ha' },
                slots := { h.slots with }, seq := { h.seq with }, block := { h.block with }, gcnz := h.gcnz, count := h.count }
      · exact addGS_inv h tag seqidx p hi

theorem parseGs_inv {cfg : Cfg} {st : StoSt} (h : StoInv cfg st) (p : Bytes) (hp : p.head? = some 35) :
    EGood (StoInv cfg) (parseGs st p) := by
  unfold parseGs
  split
  · rename_i hm; exact absurd hm (memtok_hash p hp)
  · split
    · simp
    · split
      · simp
      · split
        · simp
        · split
          · rename_i r he; exact (gsSeqIdx_spec h _).of_error he
          · rename_i st1 seqidx he
            obtain ⟨h1, hi, _⟩ := (gsSeqIdx_spec h _).of_ok he
            have hi : seqidx < st1.names.length := hi
            split
            · rename_i r he2; exact (gsApply_inv h1 seqidx _ _ hi).of_error he2
            · rename_i st2 he2
              obtain ⟨h2, hn⟩ := (gsApply_inv h1 seqidx _ _ hi).of_ok he2
              simp only [EGood_ok]
              exact
                { alloc := { h2.alloc with si := (by show seqidx + 1 ≤ st2.names.length; rw [hn]; exact hi) },
                  slots := { h2.slots with }, seq := { h2.seq with }, block := { h2.block with },
                  gcnz := h2.gcnz, count := h2.count }

/-! ## block lines: which line of the block is this -/

/-- after the line-order bookkeeping of a block line of type `lt` (for sequence `bx`): the slot `bi` of the block
    description is written (first block), resp. holds the same type (later blocks) -/
def Cur (st : StoSt) (lt : Nat) (bx : Option Nat) : Prop :=
  (st.nblock = 0 → st.bi < st.balloc ∧ st.blt[st.bi]? = some (some lt) ∧ st.bidx[st.bi]? = some (some bx)) ∧
  (st.nblock ≠ 0 → st.bi < st.npb ∧ st.blt[st.bi]? = some (some lt))

/-- the block description after a block line has been fully processed (`bi++`) -/
theorem BlockInv.advance {st1 st' : StoSt} (hb : BlockInv st1) (lt : Nat) (bx : Option Nat) (hc : Cur st1 lt bx)
    (e1 : st'.blt = st1.blt) (e2 : st'.bidx = st1.bidx) (e3 : st'.balloc = st1.balloc) (e4 : st'.bi = st1.bi + 1)
    (e5 : st'.nblock = st1.nblock) (e6 : st'.inBlock = true) (e7 : st'.npb = st1.npb) (e8 : st'.names = st1.names)
    (hsq : ∀ i, st1.sqlen.getD i 0 ≠ 0 → st'.sqlen.getD i 0 ≠ 0)
    (hnew : st1.nblock = 0 → (lt = ltSQ ∨ (7 ≤ lt ∧ lt ≤ 10)) →
      ∃ i, bx = some i ∧ i < st1.names.length ∧ (lt = ltSQ → st'.sqlen.getD i 0 ≠ 0)) : BlockInv st' := by
  have keep : ∀ j, LineRec st1 j → LineRec st' j := by
    intro j ⟨lt0, bx0, a1, a2, a3⟩
    refine ⟨lt0, bx0, by rw [e1]; exact a1, by rw [e2]; exact a2, fun hk => ?_⟩
    obtain ⟨i, b1, b2, b3⟩ := a3 hk
    exact ⟨i, b1, by rw [e8]; exact b2, fun hq => hsq i (b3 hq)⟩
  refine ⟨by rw [e1, e2, e3]; exact hb.len, fun h0 => ?_, fun hn => ?_, fun j hj => ?_, ?_⟩
  · rw [e5] at h0; have := (hc.1 h0).1; rw [e4, e3]; omega
  · rw [e5] at hn; have := hb.later hn; have := (hc.2 hn).1; rw [e7, e3, e4]; omega
  · rw [e5, e7, e4] at hj
    by_cases h0 : st1.nblock = 0
    · simp only [h0, if_true] at hj
      by_cases hjb : j < st1.bi
      · exact keep j (hb.recs j (by simp only [h0, if_true]; exact hjb))
      · have hjb' : j = st1.bi := by omega
        subst hjb'
        obtain ⟨_, c1, c2⟩ := hc.1 h0
        refine ⟨lt, bx, by rw [e1]; exact c1, by rw [e2]; exact c2, fun hk => ?_⟩
        obtain ⟨i, b1, b2, b3⟩ := hnew h0 hk
        exact ⟨i, b1, by rw [e8]; exact b2, b3⟩
    · simp only [h0, if_false] at hj
      exact keep j (hb.recs j (by simp only [h0, if_false]; exact hj))
  · rw [e6, e4]; simp

theorem recordLine_spec {cfg : Cfg} {st : StoSt} (h : StoInv cfg st) (h0 : st.nblock = 0) (lt : Nat) (bx : Option Nat) :
    EGood (fun st1 => StoInv cfg st1 ∧ Cur st1 lt bx ∧ st1.nblock = 0 ∧ st1.names = st.names) (recordLine st lt bx) := by
  unfold recordLine
  have hb := h.block
  obtain ⟨l1, l2, l3⟩ := hb.len
  have hfirst := hb.first h0
  by_cases e : (st.bi == st.balloc) = true
  · have e' : st.bi = st.balloc := by simpa using e
    simp only [e, if_true, pdExpandBlock]
    rw [setE_ok _ (by simp [l1]; omega)]
    simp only
    rw [setE_ok _ (by simp [l2]; omega)]
    simp only [EGood_ok]
    refine ⟨?_, ⟨fun _ => ⟨by show st.bi < st.balloc * 2; omega, ?_, ?_⟩, fun hn => absurd h0 hn⟩, h0, by first | rfl | trivial⟩
    · exact
        { alloc := { h.alloc with }, slots := { h.slots with }, seq := { h.seq with },
          block :=
            { len := ⟨(by simp [l1]; omega), (by simp [l2]; omega), (by show 0 < st.balloc * 2; omega)⟩,
              first := fun _ => (by show st.bi ≤ st.balloc * 2; omega),
              later := fun hn => absurd h0 hn,
              recs := (by
                intro j hj
                have hj' : j < st.bi := by simpa [h0] using hj
                obtain ⟨lt0, bx0, a1, a2, a3⟩ := hb.recs j (by simp only [h0, if_true]; exact hj')
                refine ⟨lt0, bx0, ?_, ?_, a3⟩
                · show ((st.blt ++ List.replicate st.balloc none).set st.bi (some lt))[j]? = some (some lt0)
                  rw [List.getElem?_set]
                  simp only [show ¬ st.bi = j by omega, if_false]
                  rw [List.getElem?_append]
                  simp only [show j < st.blt.length by omega, if_true]; exact a1
                · show ((st.bidx ++ List.replicate st.balloc none).set st.bi (some bx))[j]? = some (some bx0)
                  rw [List.getElem?_set]
                  simp only [show ¬ st.bi = j by omega, if_false]
                  rw [List.getElem?_append]
                  simp only [show j < st.bidx.length by omega, if_true]; exact a2),
              inb := hb.inb },
          gcnz := h.gcnz, count := h.count }
    · show ((st.blt ++ List.replicate st.balloc none).set st.bi (some lt))[st.bi]? = some (some lt)
      rw [List.getElem?_set]; simp [l1]; omega
    · show ((st.bidx ++ List.replicate st.balloc none).set st.bi (some bx))[st.bi]? = some (some bx)
      rw [List.getElem?_set]; simp [l2]; omega
  · have e' : st.bi ≠ st.balloc := by simpa using e
    simp only [e, Bool.false_eq_true, if_false]
    rw [setE_ok _ (by omega)]
    simp only
    rw [setE_ok _ (by omega)]
    simp only [EGood_ok]
    refine ⟨?_, ⟨fun _ => ⟨by show st.bi < st.balloc; omega, ?_, ?_⟩, fun hn => absurd h0 hn⟩, h0, by first | rfl | trivial⟩
    · exact
        { alloc := { h.alloc with }, slots := { h.slots with }, seq := { h.seq with },
          block :=
            { len := ⟨(by simp [l1]), (by simp [l2]), l3⟩,
              first := hb.first,
              later := fun hn => absurd h0 hn,
              recs := (by
                intro j hj
                have hj' : j < st.bi := by simpa [h0] using hj
                obtain ⟨lt0, bx0, a1, a2, a3⟩ := hb.recs j (by simp only [h0, if_true]; exact hj')
                refine ⟨lt0, bx0, ?_, ?_, a3⟩
                · show (st.blt.set st.bi (some lt))[j]? = some (some lt0)
                  rw [List.getElem?_set]
                  simp only [show ¬ st.bi = j by omega, if_false]; exact a1
                · show (st.bidx.set st.bi (some bx))[j]? = some (some bx0)
                  rw [List.getElem?_set]
                  simp only [show ¬ st.bi = j by omega, if_false]; exact a2),
              inb := hb.inb },
          gcnz := h.gcnz, count := h.count }
    · show (st.blt.set st.bi (some lt))[st.bi]? = some (some lt)
      rw [List.getElem?_set]; simp; omega
    · show (st.bidx.set st.bi (some bx))[st.bi]? = some (some bx)
      rw [List.getElem?_set]; simp; omega

theorem expectLine_spec {st : StoSt} (hb : BlockInv st) (hn : st.nblock ≠ 0) (lt : Nat) :
    EGood (fun _ => st.bi < st.npb ∧ st.blt[st.bi]? = some (some lt)) (expectLine st lt) := by
  unfold expectLine
  split
  · simp
  · rename_i hlt
    have hlt' : st.bi < st.npb := by omega
    obtain ⟨lt0, bx0, a1, _, _⟩ := hb.recs st.bi (by simp only [hn, if_false]; exact hlt')
    have hg : getE st.blt st.bi = .ok (some lt0) := by unfold getE; rw [a1]
    rw [hg]
    simp only
    split
    · simp
    · rename_i hc
      have : lt0 = lt := by simpa using hc
      subst this
      simp only [EGood_ok]
      exact ⟨hlt', a1⟩

theorem expectSeq_spec {cfg : Cfg} {st : StoSt} (h : StoInv cfg st) (hn : st.nblock ≠ 0) (lt : Nat) (hbi : st.bi < st.npb)
    (hlt : st.blt[st.bi]? = some (some lt)) (hk : lt = ltSQ ∨ (7 ≤ lt ∧ lt ≤ 10)) (name : Bytes) :
    EGood (fun i => i < st.names.length ∧ (lt = ltSQ → st.sqlen.getD i 0 ≠ 0)) (expectSeq st name) := by
  unfold expectSeq
  obtain ⟨lt0, bx0, a1, a2, a3⟩ := h.block.recs st.bi (by simp only [hn, if_false]; exact hbi)
  have : lt0 = lt := by rw [a1] at hlt; simpa using hlt
  subst this
  obtain ⟨i, b1, b2, b3⟩ := a3 hk
  subst b1
  have hg : getE st.bidx st.bi = .ok (some (some i)) := by unfold getE; rw [a2]
  rw [hg]
  simp only
  rw [sqnameAt_ok h.alloc b2]
  simp only
  split
  · simp
  · simp only [EGood_ok]; exact ⟨b2, b3⟩

theorem gcLocate_spec {cfg : Cfg} {st : StoSt} (h : StoInv cfg st) (lt : Nat) :
    EGood (fun st1 => StoInv cfg st1 ∧ Cur st1 lt none) (gcLocate st lt) := by
  unfold gcLocate
  split
  · rename_i hn
    have hn' : st.nblock ≠ 0 := by simpa using hn
    have hs := expectLine_spec h.block hn' lt
    split
    · rename_i he
      have := hs.of_ok he
      simp only [EGood_ok]
      exact ⟨h, fun h0 => absurd h0 hn', fun _ => this⟩
    · rename_i r he; exact hs.of_error he
  · rename_i hn
    have h0 : st.nblock = 0 := by simpa using hn
    exact (recordLine_spec h h0 lt none).mono (fun st1 hq => ⟨hq.1, hq.2.1⟩)

theorem nameIs_ok {st : StoSt} (ha : AllocInv st) {i : Nat} (name : Bytes) (hi : i < st.names.length) :
    ∃ b, nameIs st i name = .ok b := by
  unfold nameIs
  rw [sqnameAt_ok ha hi]
  exact ⟨_, rfl⟩

theorem sqSeqIdx_spec {cfg : Cfg} {st : StoSt} (h : StoInv cfg st) (name : Bytes) :
    EGood (fun r => StoInv cfg r.1 ∧ r.2 < r.1.names.length ∧ r.1.nblock = st.nblock) (sqSeqIdx st name) := by
  unfold sqSeqIdx
  have hnq := h.alloc.nseq
  have hb : ∃ b, (if st.si < st.nseq then nameIs st st.si name else (.ok false : E Bool)) = .ok b ∧ (b = true → st.si < st.names.length) := by
    by_cases hc : st.si < st.nseq
    · obtain ⟨b, hb⟩ := nameIs_ok h.alloc name (show st.si < st.names.length by omega)
      exact ⟨b, by simp only [hc, if_true]; exact hb, fun _ => by omega⟩
    · exact ⟨false, by simp only [hc, if_false], fun hf => by cases hf⟩
  obtain ⟨b, hb1, hb2⟩ := hb
  rw [hb1]
  cases b with
  | true => simp only [EGood_ok]; exact ⟨h, hb2 rfl, by first | rfl | trivial⟩
  | false => exact getSeqIdx_spec h name

theorem grSeqIdx_spec {cfg : Cfg} {st : StoSt} (h : StoInv cfg st) (name : Bytes) :
    EGood (fun r => StoInv cfg r.1 ∧ r.2 < r.1.names.length ∧ r.1.nblock = st.nblock) (grSeqIdx st name) := by
  unfold grSeqIdx
  have hnq := h.alloc.nseq
  have hsi := h.alloc.si
  have ha : ∃ b, (if st.si ≥ 1 then nameIs st (st.si - 1) name else (.ok false : E Bool)) = .ok b ∧ (b = true → st.si - 1 < st.names.length) := by
    by_cases hc : st.si ≥ 1
    · obtain ⟨b, hb⟩ := nameIs_ok h.alloc name (show st.si - 1 < st.names.length by omega)
      exact ⟨b, by simp only [hc, if_true]; exact hb, fun _ => by omega⟩
    · exact ⟨false, by simp only [hc, if_false], fun hf => by cases hf⟩
  obtain ⟨a, ha1, ha2⟩ := ha
  rw [ha1]
  cases a with
  | true => simp only [EGood_ok]; exact ⟨h, ha2 rfl, by first | rfl | trivial⟩
  | false =>
    simp only
    have hb : ∃ b, (if st.si < st.nseq then nameIs st st.si name else (.ok false : E Bool)) = .ok b ∧ (b = true → st.si < st.names.length) := by
      by_cases hc : st.si < st.nseq
      · obtain ⟨b, hb⟩ := nameIs_ok h.alloc name (show st.si < st.names.length by omega)
        exact ⟨b, by simp only [hc, if_true]; exact hb, fun _ => by omega⟩
      · exact ⟨false, by simp only [hc, if_false], fun hf => by cases hf⟩
    obtain ⟨b, hb1, hb2⟩ := hb
    rw [hb1]
    cases b with
    | true => simp only [EGood_ok]; exact ⟨h, hb2 rfl, by first | rfl | trivial⟩
    | false => exact getSeqIdx_spec h name

/-- what the line-order bookkeeping of a `#=GR` / sequence line establishes -/
def Located (cfg : Cfg) (lt : Nat) (r : StoSt × Nat) : Prop :=
  StoInv cfg r.1 ∧ Cur r.1 lt (some r.2) ∧ r.2 < r.1.names.length ∧
  (r.1.nblock ≠ 0 → lt = ltSQ → r.1.sqlen.getD r.2 0 ≠ 0)

theorem grLocate_spec {cfg : Cfg} {st : StoSt} (h : StoInv cfg st) (name : Bytes) (lt : Nat) (hk : 7 ≤ lt ∧ lt ≤ 10) :
    EGood (Located cfg lt) (grLocate st name lt) := by
  unfold grLocate
  split
  · rename_i hn
    have h0 : st.nblock = 0 := by simpa using hn
    split
    · rename_i r he; exact (grSeqIdx_spec h name).of_error he
    · rename_i st1 seqidx he
      obtain ⟨h1, hi, hnb⟩ := (grSeqIdx_spec h name).of_ok he
      have hi : seqidx < st1.names.length := hi
      have h10 : st1.nblock = 0 := by rw [← h0]; exact hnb
      split
      · rename_i r he2; exact (recordLine_spec h1 h10 lt (some seqidx)).of_error he2
      · rename_i st2 he2
        obtain ⟨h2, hc, h20, hnm⟩ := (recordLine_spec h1 h10 lt (some seqidx)).of_ok he2
        simp only [EGood_ok]
        exact ⟨h2, hc, by show seqidx < st2.names.length; rw [hnm]; exact hi, fun hne => absurd h20 hne⟩
  · rename_i hn
    have hn' : st.nblock ≠ 0 := by simpa using hn
    split
    · rename_i r he; exact (expectLine_spec h.block hn' lt).of_error he
    · rename_i he
      obtain ⟨hbi, hlt⟩ := (expectLine_spec h.block hn' lt).of_ok he
      split
      · rename_i r he2; exact (expectSeq_spec h hn' lt hbi hlt (Or.inr hk) name).of_error he2
      · rename_i seqidx he2
        obtain ⟨hi, hnz⟩ := (expectSeq_spec h hn' lt hbi hlt (Or.inr hk) name).of_ok he2
        simp only [EGood_ok]
        exact ⟨h, ⟨fun h0 => absurd h0 hn', fun _ => ⟨hbi, hlt⟩⟩, hi, fun _ hq => hnz hq⟩

theorem sqLocate_spec {cfg : Cfg} {st : StoSt} (h : StoInv cfg st) (name : Bytes) :
    EGood (Located cfg ltSQ) (sqLocate st name) := by
  unfold sqLocate
  split
  · rename_i hn
    have h0 : st.nblock = 0 := by simpa using hn
    split
    · rename_i r he; exact (sqSeqIdx_spec h name).of_error he
    · rename_i st1 seqidx he
      obtain ⟨h1, hi, hnb⟩ := (sqSeqIdx_spec h name).of_ok he
      have hi : seqidx < st1.names.length := hi
      have h10 : st1.nblock = 0 := by rw [← h0]; exact hnb
      split
      · rename_i r he2; exact (recordLine_spec h1 h10 ltSQ (some seqidx)).of_error he2
      · rename_i st2 he2
        obtain ⟨h2, hc, h20, hnm⟩ := (recordLine_spec h1 h10 ltSQ (some seqidx)).of_ok he2
        simp only [EGood_ok]
        exact ⟨h2, hc, by show seqidx < st2.names.length; rw [hnm]; exact hi, fun hne => absurd h20 hne⟩
  · rename_i hn
    have hn' : st.nblock ≠ 0 := by simpa using hn
    split
    · rename_i r he; exact (expectLine_spec h.block hn' ltSQ).of_error he
    · rename_i he
      obtain ⟨hbi, hlt⟩ := (expectLine_spec h.block hn' ltSQ).of_ok he
      split
      · rename_i r he2; exact (expectSeq_spec h hn' ltSQ hbi hlt (Or.inl rfl) name).of_error he2
      · rename_i seqidx he2
        obtain ⟨hi, hnz⟩ := (expectSeq_spec h hn' ltSQ hbi hlt (Or.inl rfl) name).of_ok he2
        simp only [EGood_ok]
        exact ⟨h, ⟨fun h0 => absurd h0 hn', fun _ => ⟨hbi, hlt⟩⟩, hi, fun _ hq => hnz hq⟩

/-! ## appending annotation text -/

theorem strcatE_spec (c : Option Bytes) (len : Nat) (txt : Bytes) (hc : slotOk c len) (hne : txt.isEmpty = false)
    (hnul : (0 : UInt8) ∉ txt) : ∃ c', strcatE c len txt = .ok c' ∧ slotOk c' (len + txt.length) := by
  unfold strcatE
  have hpos : 1 ≤ txt.length := by
    cases txt with
    | nil => simp at hne
    | cons _ _ => simp
  cases c with
  | none =>
    have hl : len = 0 := hc
    subst hl
    refine ⟨some (cstr ([] ++ txt)), by simp [hne], ?_⟩
    have : cstr ([] ++ txt) = txt := by simpa using cstr_of_no_nul txt hnul
    rw [this]
    exact ⟨by omega, hnul, by omega⟩
  | some b =>
    obtain ⟨h1, h2, h3⟩ := hc
    have hnn : (0 : UInt8) ∉ b ++ txt := by
      intro hm
      rcases List.mem_append.mp hm with hm | hm
      · exact h2 hm
      · exact hnul hm
    refine ⟨some (cstr (b ++ txt)), by simp [hne, h1], ?_⟩
    rw [cstr_of_no_nul _ hnn]
    exact ⟨by simp [h1], hnn, by omega⟩

theorem lensRel_1 {o n : Nat} {a a' : List Nat} (b c d e : List Nat) (h : LensRel o n a a') :
    LensRel o n (a ++ b ++ c ++ d ++ e) (a' ++ b ++ c ++ d ++ e) :=
  LensRel.app (LensRel.app (LensRel.app (LensRel.app h (LensRel.refl0 _)) (LensRel.refl0 _)) (LensRel.refl0 _)) (LensRel.refl0 _)

theorem lensRel_2 {o n : Nat} {b b' : List Nat} (a c d e : List Nat) (h : LensRel o n b b') :
    LensRel o n (a ++ b ++ c ++ d ++ e) (a ++ b' ++ c ++ d ++ e) :=
  LensRel.app (LensRel.app (LensRel.app (LensRel.app' (LensRel.refl0 _) h) (LensRel.refl0 _)) (LensRel.refl0 _)) (LensRel.refl0 _)

theorem lensRel_3 {o n : Nat} {c c' : List Nat} (a b d e : List Nat) (h : LensRel o n c c') :
    LensRel o n (a ++ b ++ c ++ d ++ e) (a ++ b ++ c' ++ d ++ e) :=
  LensRel.app (LensRel.app (LensRel.app' (LensRel.refl0 _) h) (LensRel.refl0 _)) (LensRel.refl0 _)

theorem lensRel_4 {o n : Nat} {d d' : List Nat} (a b c e : List Nat) (h : LensRel o n d d') :
    LensRel o n (a ++ b ++ c ++ d ++ e) (a ++ b ++ c ++ d' ++ e) :=
  LensRel.app (LensRel.app' (LensRel.refl0 _) h) (LensRel.refl0 _)

theorem lensRel_5 {o n : Nat} {e e' : List Nat} (a b c d : List Nat) (h : LensRel o n e e') :
    LensRel o n (a ++ b ++ c ++ d ++ e) (a ++ b ++ c ++ d ++ e') :=
  LensRel.app' (LensRel.refl0 _) h

theorem consIdx_lt {lt k : Nat} (h : consIdx lt = some k) : k < 5 := by
  unfold consIdx at h
  split at h
  · cases h; decide
  · split at h
    · cases h; decide
    · split at h
      · cases h; decide
      · split at h
        · cases h; decide
        · split at h
          · cases h; decide
          · cases h

theorem gcLineType_not_seq (tag : Bytes) : ¬ (gcLineType tag = ltSQ ∨ (7 ≤ gcLineType tag ∧ gcLineType tag ≤ 10)) := by
  unfold gcLineType
  split
  · decide
  · split
    · decide
    · split
      · decide
      · split
        · decide
        · split <;> decide

theorem blockLineDone_cases (st : StoSt) (n : Nat) :
    (∃ msg, msg ≠ "" ∧ blockLineDone st n = .error (.eformat msg)) ∨
    ((st.bi ≠ 0 → n = st.alenB) ∧ blockLineDone st n = .ok { st with alenB := n, inBlock := true, bi := st.bi + 1 }) := by
  unfold blockLineDone
  split
  · left; exact ⟨_, by decide, rfl⟩
  · rename_i hc
    right
    refine ⟨fun hb => ?_, rfl⟩
    simp only [bne_iff_ne, ne_eq, Bool.and_eq_true, not_and, Decidable.not_not] at hc
    exact hc hb

/-! ## `#=GC` -/

theorem getD_mem_of_lt {l : List Nat} {j : Nat} (hj : j < l.length) : l.getD j 0 ∈ l := by
  rw [List.getD_eq_getElem?_getD, List.getElem?_eq_getElem hj]
  exact List.getElem_mem hj

theorem LensRel.snoc (l : List Nat) (n : Nat) : LensRel 0 0 l (l ++ [0]) := by
  simpa using LensRel.pad l 1

theorem getGcTagIdx_spec {st : StoSt} (hs : SlotArr st.gc st.ogcLen st.gcTags.length) (hz : ∀ x ∈ st.ogcLen, x ≠ 0)
    (tag : Bytes) :
    ∃ T G L i, getGcTagIdx st tag = ({ st with gcTags := T, gc := G, ogcLen := L }, i) ∧ SlotArr G L T.length ∧
      i < T.length ∧ LensRel 0 0 st.ogcLen L ∧ (∀ j, j < L.length → j ≠ i → L.getD j 0 ≠ 0) := by
  unfold getGcTagIdx
  cases hf : List.findIdx? (fun x => x == tag) st.gcTags with
  | some t =>
    obtain ⟨htl, _⟩ := List.findIdx?_eq_some_iff_getElem.mp hf
    exact ⟨st.gcTags, st.gc, st.ogcLen, t, rfl, hs, htl, LensRel.refl0 _, fun j hj _ => hz _ (getD_mem_of_lt hj)⟩
  | none =>
    refine ⟨st.gcTags ++ [tag], st.gc ++ [none], st.ogcLen ++ [0], st.gcTags.length, rfl, ?_, by simp, LensRel.snoc _ 0, ?_⟩
    · have := hs.pad 1
      simpa using this
    · intro j hj hne
      have hl : st.ogcLen.length = st.gcTags.length := hs.2.1
      have hj' : j < st.ogcLen.length := by simp at hj; omega
      have : (st.ogcLen ++ [0]).getD j 0 = st.ogcLen.getD j 0 := by
        simp only [List.getD_eq_getElem?_getD, List.getElem?_append, hj', if_true]
      rw [this]
      exact hz _ (getD_mem_of_lt hj')

theorem mem_set_cases {l : List Nat} {i v x : Nat} (hx : x ∈ l.set i v) :
    x = v ∨ ∃ j, j < l.length ∧ j ≠ i ∧ x = l.getD j 0 := by
  obtain ⟨j, hj, e⟩ := List.mem_iff_getElem.mp hx
  have hj' : j < l.length := by simpa using hj
  by_cases hij : i = j
  · left
    subst hij
    simpa using e.symm
  · right
    refine ⟨j, hj', fun h => hij h.symm, ?_⟩
    rw [← e, List.getD_eq_getElem?_getD, List.getElem?_eq_getElem hj']
    simp [List.getElem_set, hij]

theorem parseGc_inv {cfg : Cfg} {st : StoSt} (h : StoInv cfg st) (p : Bytes) (hp : p.head? = some 35) :
    EGood (StoInv cfg) (parseGc st p) := by
  unfold parseGc
  split
  · rename_i hm; exact absurd hm (memtok_hash p hp)
  · split
    · simp
    · rename_i tag p2 _
      simp only
      split
      · simp
      · split
        · simp
        · rename_i hne
          split
          · simp
          · rename_i hnul
            have hne' : (rtrim p2).isEmpty = false := by simpa using hne
            have hnul' : (0 : UInt8) ∉ rtrim p2 := not_mem_of_contains_false (by simpa using hnul)
            have hpos : 1 ≤ (rtrim p2).length := by
              cases hq : rtrim p2 with
              | nil => rw [hq] at hne'; simp at hne'
              | cons _ _ => simp
            split
            · rename_i r he; exact (gcLocate_spec h _).of_error he
            · rename_i st1 he
              obtain ⟨h1, hc⟩ := (gcLocate_spec h _).of_ok he
              split
              · -- one of the five parsed consensus annotations
                rename_i k hk
                have hk5 := consIdx_lt hk
                obtain ⟨c1, c2, c3⟩ := h1.slots.cons
                rw [getE_ok (show k < st1.consLen.length by omega)]
                simp only
                split
                · simp
                · rename_i hlen
                  have hlen' : st1.consLen[k]'(by omega) = st1.alen := by simpa using hlen
                  rw [getE_ok (show k < st1.cons.length by omega)]
                  simp only
                  have hslot : slotOk (st1.cons[k]'(by omega)) (st1.consLen[k]'(by omega)) := by
                    have := c3 k
                    rw [List.getD_eq_getElem?_getD, List.getD_eq_getElem?_getD,
                        List.getElem?_eq_getElem (show k < st1.cons.length by omega),
                        List.getElem?_eq_getElem (show k < st1.consLen.length by omega)] at this
                    exact this
                  obtain ⟨c', hs1, hs2⟩ := strcatE_spec _ _ _ hslot hne' hnul'
                  rw [hs1]
                  simp only
                  rcases blockLineDone_cases
                    { st1 with cons := st1.cons.set k c', consLen := st1.consLen.set k (st1.consLen[k]'(by omega) + (rtrim p2).length) }
                    (rtrim p2).length with ⟨msg, hmsg, hb⟩ | ⟨hw, hb⟩
                  · rw [hb]; simpa using hmsg
                  · rw [hb]
                    simp only [EGood_ok]
                    have hget : st1.consLen[k]? = some st1.alen := by
                      rw [List.getElem?_eq_getElem (show k < st1.consLen.length by omega), hlen']
                    exact
                      { alloc := { h1.alloc with },
                        slots := { h1.slots with cons := SlotArr.set h1.slots.cons k c' _ hs2 },
                        seq := { h1.seq with },
                        block := BlockInv.advance h1.block _ none hc rfl rfl rfl rfl rfl rfl rfl rfl (fun i hi => hi)
                          (fun _ hq => absurd hq (gcLineType_not_seq tag)),
                        gcnz := h1.gcnz,
                        count := (by
                          have := h1.count.step hpos hw
                            (lensRel_2 st1.sqlen (perLens st1.perLen) st1.ogcLen st1.ogrLen.flatten
                              (LensRel.set (st1.alen + (rtrim p2).length) hget))
                          rw [hlen']
                          exact this) }
              · -- an unparsed tag
                obtain ⟨T, G, L, i, hg, hsl, hi, hrel, hnz⟩ := getGcTagIdx_spec h1.slots.gc h1.gcnz tag
                rw [hg]
                simp only
                obtain ⟨g1, g2, g3⟩ := hsl
                rw [getE_ok (show i < L.length by omega)]
                simp only
                split
                · simp
                · rename_i hlen
                  have hlen' : L[i]'(by omega) = st1.alen := by simpa using hlen
                  rw [getE_ok (show i < G.length by omega)]
                  simp only
                  have hslot : slotOk (G[i]'(by omega)) (L[i]'(by omega)) := by
                    have := g3 i
                    rw [List.getD_eq_getElem?_getD, List.getD_eq_getElem?_getD,
                        List.getElem?_eq_getElem (show i < G.length by omega),
                        List.getElem?_eq_getElem (show i < L.length by omega)] at this
                    exact this
                  obtain ⟨c', hs1, hs2⟩ := strcatE_spec _ _ _ hslot hne' hnul'
                  rw [hs1]
                  simp only
                  rcases blockLineDone_cases
                    { st1 with gcTags := T, gc := G.set i c', ogcLen := L.set i (L[i]'(by omega) + (rtrim p2).length) }
                    (rtrim p2).length with ⟨msg, hmsg, hb⟩ | ⟨hw, hb⟩
                  · rw [hb]; simpa using hmsg
                  · rw [hb]
                    simp only [EGood_ok]
                    have hget : L[i]? = some st1.alen := by
                      rw [List.getElem?_eq_getElem (show i < L.length by omega), hlen']
                    exact
                      { alloc := { h1.alloc with },
                        slots := { h1.slots with gc := SlotArr.set ⟨g1, g2, g3⟩ i c' _ hs2 },
                        seq := { h1.seq with },
                        block := BlockInv.advance h1.block _ none hc rfl rfl rfl rfl rfl rfl rfl rfl (fun i hi => hi)
                          (fun _ hq => absurd hq (gcLineType_not_seq tag)),
                        gcnz := (by
                          intro x hx
                          rcases mem_set_cases hx with hx' | ⟨j, hj1, hj2, hj3⟩
                          · omega
                          · rw [hj3]; exact hnz j hj1 hj2),
                        count := (by
                          have := h1.count.step hpos hw
                            (lensRel_4 st1.sqlen st1.consLen (perLens st1.perLen) st1.ogrLen.flatten
                              (LensRel.trans0 hrel (LensRel.set (st1.alen + (rtrim p2).length) hget)))
                          rw [hlen']
                          exact this) }

/-! ## `#=GR` -/

theorem getD_eq_getElem_of_lt {α : Type} {l : List α} {i : Nat} (d : α) (hi : i < l.length) : l.getD i d = l[i] := by
  rw [List.getD_eq_getElem?_getD, List.getElem?_eq_getElem hi]; rfl

theorem slotOk_at {cs : List (Option Bytes)} {ls : List Nat} {m i : Nat} (h : SlotArr cs ls m) (hi : i < m) :
    slotOk (cs[i]'(by rw [h.1]; exact hi)) (ls[i]'(by rw [h.2.1]; exact hi)) := by
  have := h.2.2 i
  rw [getD_eq_getElem_of_lt none (by rw [h.1]; exact hi), getD_eq_getElem_of_lt 0 (by rw [h.2.1]; exact hi)] at this
  exact this

theorem perArrays_spec {cfg : Cfg} {st : StoSt} (h : StoInv cfg st) (k : Nat) (hk : k < 3) :
    EGood (fun r => SlotArr r.1 r.2 st.sqalloc ∧
                    LensRel 0 0 ((st.perLen.getD k none).getD []) r.2) (perArrays st k) := by
  unfold perArrays
  obtain ⟨p1, p2, p3⟩ := h.slots.per
  rw [getE_ok (show k < st.per.length by omega)]
  simp only
  rw [getE_ok (show k < st.perLen.length by omega)]
  simp only
  have hp := p3 k hk
  rw [getD_eq_getElem_of_lt none (show k < st.per.length by omega),
      getD_eq_getElem_of_lt none (show k < st.perLen.length by omega)] at hp
  rw [getD_eq_getElem_of_lt none (show k < st.perLen.length by omega)]
  generalize st.per[k] = rowsO at hp ⊢
  generalize st.perLen[k] = lensO at hp ⊢
  cases rowsO with
  | none =>
    cases lensO with
    | none =>
      simp only [EGood_ok]
      exact ⟨SlotArr.replicate _, LensRel.nil_replicate _⟩
    | some _ => exact absurd hp (by simp [PerOk])
  | some rws =>
    cases lensO with
    | none => exact absurd hp (by simp [PerOk])
    | some lns =>
      simp only [EGood_ok]
      exact ⟨hp, LensRel.refl0 _⟩

/-- what appending a `#=GR` annotation changes -/
def GrDone (st st3 : StoSt) (n : Nat) : Prop :=
  ∃ P PL T G L, st3 = { st with per := P, perLen := PL, grTags := T, gr := G, ogrLen := L } ∧
    (P.length = 3 ∧ PL.length = 3 ∧ ∀ k, k < 3 → PerOk (P.getD k none) (PL.getD k none) st.sqalloc) ∧
    (G.length = T.length ∧ L.length = T.length ∧ ∀ t, t < T.length → SlotArr (G.getD t []) (L.getD t []) st.sqalloc) ∧
    LensRel st.alen (st.alen + n) st.lens (st.sqlen ++ st.consLen ++ perLens PL ++ st.ogcLen ++ L.flatten)

theorem grAppendPer_spec {cfg : Cfg} {st : StoSt} (h : StoInv cfg st) (k seqidx : Nat) (txt : Bytes) (hk : k < 3)
    (hi : seqidx < st.names.length) (hne : txt.isEmpty = false) (hnul : (0 : UInt8) ∉ txt) :
    EGood (fun st3 => GrDone st st3 txt.length) (grAppendPer st k seqidx txt) := by
  unfold grAppendPer
  have hsq : seqidx < st.sqalloc := by have := h.alloc.names; omega
  split
  · rename_i r he; exact (perArrays_spec h k hk).of_error he
  · rename_i rws lns he
    obtain ⟨hsl, hrel⟩ := (perArrays_spec h k hk).of_ok he
    have hsl : SlotArr rws lns st.sqalloc := hsl
    have hrel : LensRel 0 0 ((st.perLen.getD k none).getD []) lns := hrel
    obtain ⟨s1, s2, s3⟩ := hsl
    rw [getE_ok (show seqidx < lns.length by omega)]
    simp only
    split
    · simp
    · rename_i hlen
      have hlen' : lns[seqidx]'(by omega) = st.alen := by simpa using hlen
      rw [getE_ok (show seqidx < rws.length by omega)]
      simp only
      obtain ⟨c', hs1, hs2⟩ := strcatE_spec _ _ _ (slotOk_at ⟨s1, s2, s3⟩ hsq) hne hnul
      rw [hs1]
      simp only [EGood_ok]
      obtain ⟨p1, p2, p3⟩ := h.slots.per
      have hget : lns[seqidx]? = some st.alen := by
        rw [List.getElem?_eq_getElem (show seqidx < lns.length by omega), hlen']
      have hkget : st.perLen[k]? = some (st.perLen.getD k none) := by
        rw [getD_eq_getElem_of_lt none (show k < st.perLen.length by omega)]
        exact List.getElem?_eq_getElem _
      refine ⟨_, _, _, _, _, rfl, ⟨by simp [p1], by simp [p2], fun k' hk' => ?_⟩, h.slots.gr, ?_⟩
      · show PerOk ((st.per.set k (some (rws.set seqidx c'))).getD k' none)
            ((st.perLen.set k (some (lns.set seqidx (lns[seqidx] + txt.length)))).getD k' none) st.sqalloc
        rw [getD_set_eq, getD_set_eq]
        by_cases hkk : k = k'
        · subst hkk
          simp only [show k < st.per.length by omega, show k < st.perLen.length by omega, and_self, if_true]
          exact SlotArr.set ⟨s1, s2, s3⟩ seqidx c' _ hs2
        · simp only [hkk, false_and, if_false]
          exact p3 k' hk'
      · show LensRel st.alen (st.alen + txt.length) st.lens
            (st.sqlen ++ st.consLen ++ perLens (st.perLen.set k (some (lns.set seqidx (lns[seqidx] + txt.length)))) ++ st.ogcLen ++ st.ogrLen.flatten)
        rw [hlen']
        exact lensRel_3 _ _ _ _ (perLens_set hkget (LensRel.trans0 hrel (LensRel.set _ hget)))

theorem getGrTagIdx_spec {st : StoSt}
    (hg : st.gr.length = st.grTags.length ∧ st.ogrLen.length = st.grTags.length ∧
       ∀ t, t < st.grTags.length → SlotArr (st.gr.getD t []) (st.ogrLen.getD t []) st.sqalloc) (tag : Bytes) :
    ∃ T G L i, getGrTagIdx st tag = ({ st with grTags := T, gr := G, ogrLen := L }, i) ∧
      (G.length = T.length ∧ L.length = T.length ∧ ∀ t, t < T.length → SlotArr (G.getD t []) (L.getD t []) st.sqalloc) ∧
      i < T.length ∧ LensRel 0 0 st.ogrLen.flatten L.flatten := by
  unfold getGrTagIdx
  cases hf : List.findIdx? (fun x => x == tag) st.grTags with
  | some t =>
    obtain ⟨htl, _⟩ := List.findIdx?_eq_some_iff_getElem.mp hf
    exact ⟨st.grTags, st.gr, st.ogrLen, t, rfl, hg, htl, LensRel.refl0 _⟩
  | none =>
    obtain ⟨g1, g2, g3⟩ := hg
    refine ⟨st.grTags ++ [tag], st.gr ++ [List.replicate st.sqalloc none], st.ogrLen ++ [List.replicate st.sqalloc 0],
            st.grTags.length, rfl, ⟨by simp [g1], by simp [g2], fun t ht => ?_⟩, by simp, LensRel.flatten_snoc _ _⟩
    by_cases htl : t < st.grTags.length
    · have e1 : (st.gr ++ [List.replicate st.sqalloc none]).getD t [] = st.gr.getD t [] := by
        simp only [List.getD_eq_getElem?_getD, List.getElem?_append, show t < st.gr.length by omega, if_true]
      have e2 : (st.ogrLen ++ [List.replicate st.sqalloc 0]).getD t [] = st.ogrLen.getD t [] := by
        simp only [List.getD_eq_getElem?_getD, List.getElem?_append, show t < st.ogrLen.length by omega, if_true]
      rw [e1, e2]; exact g3 t htl
    · have ht' : t = st.grTags.length := by simp at ht; omega
      subst ht'
      have e1 : (st.gr ++ [List.replicate st.sqalloc (none : Option Bytes)]).getD st.grTags.length [] = List.replicate st.sqalloc none := by
        rw [← g1]; simp [List.getD_eq_getElem?_getD]
      have e2 : (st.ogrLen ++ [List.replicate st.sqalloc (0 : Nat)]).getD st.grTags.length [] = List.replicate st.sqalloc 0 := by
        rw [← g2]; simp [List.getD_eq_getElem?_getD]
      rw [e1, e2]; exact SlotArr.replicate _

theorem grAppendOther_spec {cfg : Cfg} {st : StoSt} (h : StoInv cfg st) (tag : Bytes) (seqidx : Nat) (txt : Bytes)
    (hi : seqidx < st.names.length) (hne : txt.isEmpty = false) (hnul : (0 : UInt8) ∉ txt) :
    EGood (fun st3 => GrDone st st3 txt.length) (grAppendOther st tag seqidx txt) := by
  unfold grAppendOther
  have hsq : seqidx < st.sqalloc := by have := h.alloc.names; omega
  obtain ⟨T, G, L, i, hg, ⟨g1, g2, g3⟩, hiT, hrel⟩ := getGrTagIdx_spec h.slots.gr tag
  rw [hg]
  simp only
  rw [getE_ok (show i < L.length by omega)]
  simp only
  have hsl := g3 i hiT
  rw [getD_eq_getElem_of_lt [] (show i < G.length by omega), getD_eq_getElem_of_lt [] (show i < L.length by omega)] at hsl
  obtain ⟨s1, s2, s3⟩ := hsl
  rw [getE_ok (show seqidx < (L[i]'(by omega)).length by omega)]
  simp only
  split
  · simp
  · rename_i hlen
    have hlen' : (L[i]'(by omega))[seqidx]'(by omega) = st.alen := by simpa using hlen
    rw [getE_ok (show i < G.length by omega)]
    simp only
    rw [getE_ok (show seqidx < (G[i]'(by omega)).length by omega)]
    simp only
    obtain ⟨c', hs1, hs2⟩ := strcatE_spec _ _ _ (slotOk_at ⟨s1, s2, s3⟩ hsq) hne hnul
    rw [hs1]
    simp only [EGood_ok]
    have hget : (L[i]'(by omega))[seqidx]? = some st.alen := by
      rw [List.getElem?_eq_getElem (show seqidx < (L[i]'(by omega)).length by omega), hlen']
    have hkget : L[i]? = some (L[i]'(by omega)) := List.getElem?_eq_getElem _
    refine ⟨_, _, _, _, _, rfl, h.slots.per, ⟨by simp [g1], by simp [g2], fun t ht => ?_⟩, ?_⟩
    · show SlotArr ((G.set i ((G[i]'(by omega)).set seqidx c')).getD t [])
          ((L.set i ((L[i]'(by omega)).set seqidx ((L[i]'(by omega))[seqidx]'(by omega) + txt.length))).getD t []) st.sqalloc
      rw [getD_set_eq, getD_set_eq]
      by_cases hit : i = t
      · subst hit
        simp only [show i < G.length by omega, show i < L.length by omega, and_self, if_true]
        exact SlotArr.set ⟨s1, s2, s3⟩ seqidx c' _ hs2
      · simp only [hit, false_and, if_false]
        exact g3 t ht
    · show LensRel st.alen (st.alen + txt.length) st.lens
          (st.sqlen ++ st.consLen ++ perLens st.perLen ++ st.ogcLen ++
            (L.set i ((L[i]'(by omega)).set seqidx ((L[i]'(by omega))[seqidx]'(by omega) + txt.length))).flatten)
      rw [hlen']
      exact lensRel_5 _ _ _ _ (LensRel.trans0 hrel (LensRel.flatten_set hkget (LensRel.set _ hget)))

theorem perIdx_lt {lt k : Nat} (h : perIdx lt = some k) : k < 3 := by
  unfold perIdx at h
  split at h
  · cases h; decide
  · split at h
    · cases h; decide
    · split at h
      · cases h; decide
      · cases h

theorem grLineType_range (tag : Bytes) : 7 ≤ grLineType tag ∧ grLineType tag ≤ 10 := by
  unfold grLineType
  split
  · decide
  · split
    · decide
    · split <;> decide

theorem grAppend_spec {cfg : Cfg} {st : StoSt} (h : StoInv cfg st) (lt : Nat) (tag : Bytes) (seqidx : Nat) (txt : Bytes)
    (hi : seqidx < st.names.length) (hne : txt.isEmpty = false) (hnul : (0 : UInt8) ∉ txt) :
    EGood (fun st3 => GrDone st st3 txt.length) (grAppend st lt tag seqidx txt) := by
  unfold grAppend
  split
  · rename_i k hk
    exact grAppendPer_spec h k seqidx txt (perIdx_lt hk) hi hne hnul
  · exact grAppendOther_spec h tag seqidx txt hi hne hnul

theorem parseGr_inv {cfg : Cfg} {st : StoSt} (h : StoInv cfg st) (p : Bytes) (hp : p.head? = some 35) :
    EGood (StoInv cfg) (parseGr st p) := by
  unfold parseGr
  split
  · rename_i hm; exact absurd hm (memtok_hash p hp)
  · split
    · simp
    · split
      · simp
      · rename_i tag p3 _
        simp only
        split
        · simp
        · split
          · simp
          · rename_i hne
            split
            · simp
            · rename_i hnul
              have hne' : (rtrim p3).isEmpty = false := by simpa using hne
              have hnul' : (0 : UInt8) ∉ rtrim p3 := not_mem_of_contains_false (by simpa using hnul)
              have hpos : 1 ≤ (rtrim p3).length := by
                cases hq : rtrim p3 with
                | nil => rw [hq] at hne'; simp at hne'
                | cons _ _ => simp
              have hrange := grLineType_range tag
              split
              · rename_i r he; exact (grLocate_spec h _ _ hrange).of_error he
              · rename_i st2 seqidx he
                obtain ⟨h2, hc, hi, _⟩ := (grLocate_spec h _ _ hrange).of_ok he
                have h2 : StoInv cfg st2 := h2
                have hc : Cur st2 (grLineType tag) (some seqidx) := hc
                have hi : seqidx < st2.names.length := hi
                split
                · rename_i r he2; exact (grAppend_spec h2 _ tag seqidx _ hi hne' hnul').of_error he2
                · rename_i st3 he2
                  obtain ⟨P, PL, T, G, L, e, hper, hgr, hrel⟩ := (grAppend_spec h2 _ tag seqidx _ hi hne' hnul').of_ok he2
                  subst e
                  rcases blockLineDone_cases
                    { st2 with per := P, perLen := PL, grTags := T, gr := G, ogrLen := L } (rtrim p3).length with
                    ⟨msg, hmsg, hb⟩ | ⟨hw, hb⟩
                  · rw [hb]; simpa using hmsg
                  · rw [hb]
                    simp only [EGood_ok]
                    exact
                      { alloc := { h2.alloc with },
                        slots := { h2.slots with per := hper, gr := hgr },
                        seq := { h2.seq with },
                        block := BlockInv.advance h2.block _ (some seqidx) hc rfl rfl rfl rfl rfl rfl rfl rfl (fun i hi => hi)
                          (fun _ _ => ⟨seqidx, rfl, hi, fun hq => by
                            have := hrange.1; rw [hq] at this; exact absurd this (by decide)⟩),
                        gcnz := h2.gcnz,
                        count := h2.count.step hpos hw hrel }

/-! ## sequence lines -/

/-- no input character is ignored (Stockholm: the annotation lines would otherwise be misaligned) -/
def InMap.noIgnore (m : InMap) : Bool :=
  (List.range 128).all fun c => m.get (UInt8.ofNat c) != dsqIGNORED

theorem mapByte_appends (m : InMap) (hx : m.noExc = true) (hi : m.noIgnore = true) (c : UInt8) :
    ∃ s x, mapByte m c = (s, some x) ∧ s ≠ .exc := by
  have hne := mapByte_noExc m hx c
  unfold mapByte at hne ⊢
  by_cases ha : isAscii c
  · simp only [ha, Bool.not_true, Bool.false_eq_true, if_false] at hne ⊢
    have h2 := (List.all_eq_true.mp hi) c.toNat (by
      simp only [isAscii, decide_eq_true_eq] at ha
      exact List.mem_range.mpr (by exact ha))
    simp only [UInt8.ofNat_toNat] at h2
    by_cases h1 : m.get c ≤ 127
    · simp only [h1, if_true]; exact ⟨_, _, rfl, by simp⟩
    · simp only [h1, if_false] at hne ⊢
      by_cases h3 : (m.get c == dsqILLEGAL) = true
      · simp only [h3, if_true]; exact ⟨_, _, rfl, by simp⟩
      · simp only [h3, Bool.false_eq_true, if_false] at hne ⊢
        by_cases h4 : (m.get c == dsqIGNORED) = true
        · exfalso
          simp only [bne_iff_ne, ne_eq] at h2
          exact h2 (by simpa using h4)
        · simp [h4] at hne
  · simp only [ha, Bool.not_false, if_true]; exact ⟨_, _, rfl, by simp⟩

theorem mapLoop_length_sto (m : InMap) (hx : m.noExc = true) (hi : m.noIgnore = true) :
    ∀ (src : Bytes) (st : CatSt) (acc : Bytes), (mapLoop m src st acc).2.length = acc.length + src.length := by
  intro src
  induction src with
  | nil => intro st acc; simp [mapLoop]
  | cons c rest ih =>
    intro st acc
    obtain ⟨s, x, hm, hs⟩ := mapByte_appends m hx hi c
    unfold mapLoop
    rw [hm]
    cases s with
    | ok => simp only [ih, List.length_cons]; omega
    | einval => simp only [ih, List.length_cons]; omega
    | exc => exact absurd rfl hs

theorem dsqCodes_length (row : Option Bytes) : (dsqCodes row).length = rowLen true row := by
  cases row with
  | none => rfl
  | some d => simp [dsqCodes, rowLen]; omega

theorem rowLen_cat_sto (cfg : Cfg) (hx : cfg.inmap.noExc = true) (hi : cfg.inmap.noIgnore = true) (row : Option Bytes) (src : Bytes) :
    rowLen cfg.digital (if cfg.digital then dsqcat cfg.inmap row src else strmapcat cfg.inmap row src).2
      = rowLen cfg.digital row + src.length := by
  have hl := mapLoop_length_sto cfg.inmap hx hi src .ok []
  cases hd : cfg.digital with
  | true =>
    simp only [if_true]
    unfold dsqcat
    by_cases hs : src.isEmpty
    · have : src = [] := List.isEmpty_iff.mp hs
      simp [hs, this]
    · simp only [hs, Bool.false_eq_true, if_false]
      have := dsqCodes_length row
      simp only [rowLen, if_true, List.cons_append, List.length_cons, List.length_append, List.length_reverse, List.length_nil, hl]
      simp only [rowLen, if_true] at this
      omega
  | false =>
    simp only [Bool.false_eq_true, if_false]
    unfold strmapcat
    by_cases hs : src.isEmpty
    · have : src = [] := List.isEmpty_iff.mp hs
      simp [hs, this]
    · simp only [hs, Bool.false_eq_true, if_false]
      cases row with
      | none => simp [rowLen, hl]
      | some d => simp [rowLen, hl]

theorem cat_noExc (cfg : Cfg) (hx : cfg.inmap.noExc = true) (row : Option Bytes) (src : Bytes) :
    (if cfg.digital then dsqcat cfg.inmap row src else strmapcat cfg.inmap row src).1 ≠ .exc := by
  by_cases hd : cfg.digital = true
  · simp only [hd, if_true]; exact dsqcat_noExc _ hx _ _
  · simp only [hd, Bool.false_eq_true, if_false]; exact strmapcat_noExc _ hx _ _

theorem parseSq_inv {cfg : Cfg} (hv : cfg.valid) (hni : cfg.inmap.noIgnore = true) {st : StoSt} (h : StoInv cfg st)
    (p : Bytes) : EGood (StoInv cfg) (parseSq cfg st p) := by
  unfold parseSq
  split
  · simp
  · rename_i seqname p1 _
    simp only
    split
    · simp
    · rename_i hne
      have hne' : (rtrim p1).isEmpty = false := by simpa using hne
      have hpos : 1 ≤ (rtrim p1).length := by
        cases hq : rtrim p1 with
        | nil => rw [hq] at hne'; simp at hne'
        | cons _ _ => simp
      split
      · rename_i r he; exact (sqLocate_spec h _).of_error he
      · rename_i st2 seqidx he
        obtain ⟨h2, hc, hi, hnz⟩ := (sqLocate_spec h _).of_ok he
        have h2 : StoInv cfg st2 := h2
        have hc : Cur st2 ltSQ (some seqidx) := hc
        have hi : seqidx < st2.names.length := hi
        have hnz : st2.nblock ≠ 0 → ltSQ = ltSQ → st2.sqlen.getD seqidx 0 ≠ 0 := hnz
        obtain ⟨r1, r2, r3⟩ := h2.slots.rows
        have hsq : seqidx < st2.sqalloc := by have := h2.alloc.names; omega
        rw [getE_ok (show seqidx < st2.sqlen.length by omega)]
        simp only
        split
        · simp
        · rename_i hdup
          rw [getE_ok (show seqidx < st2.rows.length by omega)]
          simp only
          have hrs := r3 seqidx
          rw [getD_eq_getElem_of_lt none (show seqidx < st2.rows.length by omega),
              getD_eq_getElem_of_lt 0 (show seqidx < st2.sqlen.length by omega)] at hrs
          obtain ⟨hrl, hcur⟩ := hrs
          split
          · rename_i hbad
            exfalso
            simp only [bne_iff_ne, ne_eq] at hbad
            exact hbad hrl
          · -- the length of row `seqidx` is `alen`
            have hmem : st2.sqlen[seqidx]'(by omega) ∈ st2.lens := by
              unfold StoSt.lens
              simp only [List.mem_append]
              exact Or.inl (Or.inl (Or.inl (Or.inl (List.getElem_mem _))))
            have hsl : st2.sqlen[seqidx]'(by omega) = st2.alen := by
              have hdup' : ¬ (0 < st2.bi ∧ st2.sqlen[seqidx]'(by omega) = st2.alen + st2.alenB) := by
                simpa using hdup
              have hz : st2.nblock ≠ 0 → st2.sqlen[seqidx]'(by omega) ≠ 0 := by
                intro hn
                have := hnz hn rfl
                rw [getD_eq_getElem_of_lt 0 (show seqidx < st2.sqlen.length by omega)] at this
                exact this
              rcases h2.count.tri _ hmem with h0 | h0 | h0
              · by_cases hn : st2.nblock = 0
                · rw [h0]; exact (h2.count.first hn).1.symm
                · exact absurd h0 (hz hn)
              · exact h0
              · by_cases hb : st2.bi = 0
                · have := h2.count.bi0 hb; omega
                · exact absurd ⟨by omega, h0⟩ hdup'
            have hlen := rowLen_cat_sto cfg hv.noExc hni (st2.rows[seqidx]'(by omega)) (rtrim p1)
            have hcat := curOk_cat cfg hv (st2.rows[seqidx]'(by omega)) (rtrim p1) hcur
            have hnx := cat_noExc cfg hv.noExc (st2.rows[seqidx]'(by omega)) (rtrim p1)
            cases hq : (if cfg.digital then dsqcat cfg.inmap (st2.rows[seqidx]'(by omega)) (rtrim p1)
                        else strmapcat cfg.inmap (st2.rows[seqidx]'(by omega)) (rtrim p1)) with
            | mk cs row' =>
              rw [hq] at hlen hcat hnx
              simp only at hlen hcat hnx ⊢
              cases cs with
              | einval => simp
              | exc => exact absurd rfl hnx
              | ok =>
                simp only
                split
                · simp
                · rename_i hw0
                  have hw : st2.bi ≠ 0 → (rtrim p1).length = st2.alenB := by
                    intro hb
                    simp only [bne_iff_ne, ne_eq, Bool.and_eq_true, not_and, Decidable.not_not] at hw0
                    exact hw0 hb
                  split
                  · rename_i hbad
                    exfalso
                    simp only [bne_iff_ne, ne_eq] at hbad
                    apply hbad
                    rw [hlen, hrl, hsl]
                  · rw [setE_ok _ (show seqidx < st2.rows.length by omega)]
                    simp only
                    rw [setE_ok _ (show seqidx < st2.sqlen.length by omega)]
                    simp only [EGood_ok]
                    have hnew : rowLen cfg.digital row' = st2.alen + (rtrim p1).length := by rw [hlen, hrl, hsl]
                    have hget : st2.sqlen[seqidx]? = some st2.alen := by
                      rw [List.getElem?_eq_getElem (show seqidx < st2.sqlen.length by omega), hsl]
                    have hkeep : ∀ i, st2.sqlen.getD i 0 ≠ 0 →
                        (st2.sqlen.set seqidx (rowLen cfg.digital row')).getD i 0 ≠ 0 := by
                      intro i hi0
                      rw [getD_set_eq]
                      split
                      · rw [hnew]; omega
                      · exact hi0
                    exact
                      { alloc := { h2.alloc with si := hi },
                        slots := { h2.slots with rows := ⟨by simp [r1], by simp [r2], fun i => by
                          show rowSlotOk cfg ((st2.rows.set seqidx row').getD i none)
                              ((st2.sqlen.set seqidx (rowLen cfg.digital row')).getD i 0)
                          rw [getD_set_eq, getD_set_eq]
                          by_cases hii : seqidx = i
                          · subst hii
                            simp only [show seqidx < st2.rows.length by omega, show seqidx < st2.sqlen.length by omega,
                                       and_self, if_true]
                            exact ⟨rfl, hcat⟩
                          · simp only [hii, false_and, if_false]; exact r3 i⟩ },
                        seq :=
                          { beyond := (by
                              intro i hge
                              show (st2.sqlen.set seqidx (rowLen cfg.digital row')).getD i 0 = 0
                              rw [getD_set_eq]
                              have hge' : st2.names.length ≤ i := hge
                              simp only [show ¬ seqidx = i by omega, false_and, if_false]
                              exact h2.seq.beyond i hge'),
                            nseqB := (by
                              intro h0
                              have h0' : st2.nblock = 0 := h0
                              show st2.nseqB + 1 = List.countP (· != 0) (st2.sqlen.set seqidx (rowLen cfg.digital row'))
                              have e := (LensRel.set (rowLen cfg.digital row') hget).cnt (· != 0) (by simp)
                              have ha0 := (h2.count.first h0').1
                              have hnb := h2.seq.nseqB h0'
                              have hp1 : (st2.alen != 0) = false := by simp [ha0]
                              have hp2 : (rowLen cfg.digital row' != 0) = true := by
                                have : rowLen cfg.digital row' ≠ 0 := by rw [hnew]; omega
                                simpa [bne_iff_ne] using this
                              simp only [hp1, hp2, Bool.false_eq_true, if_false, if_true, Nat.add_zero] at e
                              omega) },
                        block := BlockInv.advance h2.block ltSQ (some seqidx) hc rfl rfl rfl rfl rfl rfl rfl rfl hkeep
                          (fun _ _ => ⟨seqidx, rfl, hi, fun _ => by
                            show (st2.sqlen.set seqidx (rowLen cfg.digital row')).getD seqidx 0 ≠ 0
                            rw [getD_set_eq]
                            simp only [show seqidx < st2.sqlen.length by omega, and_self, if_true]
                            rw [hnew]; omega⟩),
                        gcnz := h2.gcnz,
                        count := (by
                          have := h2.count.step hpos hw
                            (lensRel_1 st2.consLen (perLens st2.perLen) st2.ogcLen st2.ogrLen.flatten
                              (LensRel.set (st2.alen + (rtrim p1).length) hget))
                          rw [hnew]
                          exact this) }

/-! ## the end of the record -/

theorem endBlock_notin {st st1 : StoSt} (he : endBlock st = .ok st1) : st1.inBlock = false := by
  unfold endBlock at he
  split at he
  · split at he
    · cases he
    · split at he
      · cases he
      · split at he
        · cases he
        · cases he; rfl
  · rename_i hin
    cases he
    simpa using hin

theorem band_intro {a b : Bool} (ha : a = true) (hb : b = true) : (a && b) = true := by simp [ha, hb]

/-- an annotation string whose recorded length is 0 or `alen` has length `alen` (or is absent) -/
theorem slot_final {alen : Nat} {lens : List Nat} (hb : ∀ x ∈ lens, x = 0 ∨ x = alen) {c : Option Bytes} {len : Nat}
    (hs : slotOk c len) (hm : len ∈ lens) : optLenOk alen c = true := by
  cases c with
  | none => rfl
  | some b =>
    obtain ⟨h1, _, h3⟩ := hs
    rcases hb len hm with h0 | h0
    · omega
    · simp [optLenOk, h1, h0]

theorem slotArr_final {alen : Nat} {lens : List Nat} (hb : ∀ x ∈ lens, x = 0 ∨ x = alen) {cs : List (Option Bytes)}
    {ls : List Nat} {m : Nat} (hs : SlotArr cs ls m) (hsub : ∀ x ∈ ls, x ∈ lens) (n : Nat) :
    (cs.take n).all (optLenOk alen) = true := by
  rw [List.all_eq_true]
  intro c hc
  obtain ⟨i, hi, e⟩ := List.mem_iff_getElem.mp (List.mem_of_mem_take hc)
  have hi' : i < ls.length := by rw [hs.2.1, ← hs.1]; exact hi
  have := hs.2.2 i
  rw [getD_eq_getElem_of_lt none hi, getD_eq_getElem_of_lt 0 hi', e] at this
  exact slot_final hb this (hsub _ (List.getElem_mem hi'))

theorem mem_perLens {pl : List (Option (List Nat))} {k : Nat} {lns : List Nat} (hk : pl[k]? = some (some lns)) :
    ∀ x ∈ lns, x ∈ perLens pl := by
  intro x hx
  unfold perLens
  rw [List.mem_flatten]
  refine ⟨lns, ?_, hx⟩
  rw [List.mem_map]
  exact ⟨some lns, List.mem_of_getElem? hk, rfl⟩

theorem per_final {cfg : Cfg} {st : StoSt} (h : StoInv cfg st) (hb : ∀ x ∈ st.lens, x = 0 ∨ x = st.alen) (k : Nat) (hk : k < 3)
    (n : Nat) : optRowsOk st.alen ((st.per.getD k none).map (·.take n)) = true := by
  obtain ⟨p1, p2, p3⟩ := h.slots.per
  have hp := p3 k hk
  have hpl : st.perLen[k]? = some (st.perLen.getD k none) := by
    rw [getD_eq_getElem_of_lt none (show k < st.perLen.length by omega)]
    exact List.getElem?_eq_getElem _
  generalize st.per.getD k none = r at hp ⊢
  generalize st.perLen.getD k none = l at hp hpl
  cases r with
  | none => rfl
  | some rws =>
    cases l with
    | none => exact absurd hp (by simp [PerOk])
    | some lns =>
      simp only [Option.map_some, optRowsOk]
      apply slotArr_final hb hp
      intro x hx
      unfold StoSt.lens
      simp only [List.mem_append]
      exact Or.inl (Or.inl (Or.inr (mem_perLens hpl x hx)))

theorem cons_final {cfg : Cfg} {st : StoSt} (h : StoInv cfg st) (hb : ∀ x ∈ st.lens, x = 0 ∨ x = st.alen) (k : Nat) (hk : k < 5) :
    optLenOk st.alen (st.cons.getD k none) = true := by
  obtain ⟨c1, c2, c3⟩ := h.slots.cons
  apply slot_final hb (c3 k)
  unfold StoSt.lens
  simp only [List.mem_append]
  exact Or.inl (Or.inl (Or.inl (Or.inr (getD_mem_of_lt (by omega)))))

theorem rows_final {cfg : Cfg} {st : StoSt} (h : StoInv cfg st) (h1 : 1 ≤ st.alen)
    (hall : ∀ i, i < st.nseq → st.sqlen[i]? = some st.alen) :
    ((st.rows.take st.nseq).map (·.getD [])).all (rowOkB cfg.digital cfg.kp st.alen) = true := by
  obtain ⟨r1, r2, r3⟩ := h.slots.rows
  rw [List.all_eq_true]
  intro r hr
  obtain ⟨ro, hro, e⟩ := List.mem_map.mp hr
  obtain ⟨i, hi, e2⟩ := List.mem_iff_getElem.mp hro
  have hi' : i < st.nseq := by simp at hi; omega
  have hir : i < st.rows.length := by simp at hi; omega
  have hsl := hall i hi'
  have hrs := r3 i
  rw [getD_eq_getElem_of_lt none hir, getD_of_getElem? hsl] at hrs
  have e3 : ro = st.rows[i] := by rw [← e2]; simp
  rw [← e3] at hrs
  obtain ⟨hl, hcur⟩ := hrs
  cases ro with
  | none => simp [rowLen] at hl; omega
  | some r' =>
    have := hcur r' rfl
    rw [hl] at this
    simp only [Option.getD_some] at e
    rw [← e]; exact this

theorem stoMsa_wellFormed {cfg : Cfg} {st : StoSt} (h : StoInv cfg st) (hbi : st.bi = 0) (hnb : st.nblock ≠ 0)
    (hns : st.nseq ≠ 0) (hall : ∀ i, i < st.nseq → st.sqlen[i]? = some st.alen)
    (hw : st.hasw = true → ∀ i, i < st.nseq → st.wgt[i]? ≠ none ∧ st.wgt[i]? ≠ some Wgt.unset) :
    (stoMsa cfg st).wellFormed = true := by
  have hb := h.count.between hbi
  have h1 : 1 ≤ st.alen := (h.count.later hnb).1
  have ha := h.alloc
  have hnl : (st.names.take st.nseq).length = st.nseq := by simp [ha.nseq]
  have hrl : ((st.rows.take st.nseq).map (·.getD [])).length = st.nseq := by
    have := h.slots.rows.1; have := ha.names; have := ha.nseq
    simp; omega
  have hrows := rows_final h h1 hall
  unfold Msa.wellFormed
  have hnseq : (stoMsa cfg st).nseq = st.nseq := hnl
  rw [hnseq]
  repeat' apply band_intro
  · simp; omega
  · show (if cfg.digital then _ else _) = true
    cases hd : cfg.digital with
    | true =>
      simp only [if_true]
      apply band_intro
      · show (((if cfg.digital then (st.rows.take st.nseq).map (·.getD []) else []) : List Bytes).length == st.nseq) = true
        simp only [hd, if_true, hrl, beq_self_eq_true]
      · show ((if cfg.digital then (st.rows.take st.nseq).map (·.getD []) else []) : List Bytes).all (dsqRowOk cfg.kp st.alen) = true
        simp only [hd, if_true]
        rw [List.all_eq_true] at hrows ⊢
        intro r hr
        have := hrows r hr
        simpa [rowOkB, hd] using this
    | false =>
      simp only [Bool.false_eq_true, if_false]
      apply band_intro
      · show (((if cfg.digital then [] else (st.rows.take st.nseq).map (·.getD [])) : List Bytes).length == st.nseq) = true
        simp only [hd, Bool.false_eq_true, if_false, hrl, beq_self_eq_true]
      · show ((if cfg.digital then [] else (st.rows.take st.nseq).map (·.getD [])) : List Bytes).all
            (fun r => r.length == st.alen && !r.contains 0) = true
        simp only [hd, Bool.false_eq_true, if_false]
        rw [List.all_eq_true] at hrows ⊢
        intro r hr
        have := hrows r hr
        simpa [rowOkB, hd] using this
  · show ((if st.hasw then st.wgt.take st.nseq else List.replicate st.nseq Wgt.dflt).length == st.nseq) = true
    have := ha.wgt; have := ha.names; have := ha.nseq
    split <;> simp <;> omega
  · show (if st.hasw then (if st.hasw then st.wgt.take st.nseq else List.replicate st.nseq Wgt.dflt).all (· != Wgt.unset)
          else (if st.hasw then st.wgt.take st.nseq else List.replicate st.nseq Wgt.dflt).all (· == Wgt.dflt)) = true
    cases hh : st.hasw with
    | true =>
      simp only [if_true]
      rw [List.all_eq_true]
      intro w hwm
      obtain ⟨i, hi, e⟩ := List.mem_iff_getElem.mp hwm
      have hi' : i < st.nseq := by simp at hi; omega
      have hiw : i < st.wgt.length := by simp at hi; omega
      have := (hw hh i hi').2
      rw [List.getElem?_eq_getElem hiw] at this
      have e2 : w = st.wgt[i] := by rw [← e]; simp
      simp only [bne_iff_ne, ne_eq]
      intro hu
      apply this
      rw [← e2, hu]
    | false =>
      simp only [Bool.false_eq_true, if_false]
      rw [List.all_eq_true]
      intro w hwm
      have := List.eq_of_mem_replicate hwm
      simp [this]
  · exact cons_final h hb 0 (by decide)
  · exact cons_final h hb 1 (by decide)
  · exact cons_final h hb 2 (by decide)
  · exact cons_final h hb 3 (by decide)
  · exact cons_final h hb 4 (by decide)
  · exact per_final h hb 0 (by decide) _
  · exact per_final h hb 1 (by decide) _
  · exact per_final h hb 2 (by decide) _
  · -- unparsed #=GC: every tag has an annotation string of length alen
    show (st.gcTags.zip (st.gc.map (·.getD []))).all (fun t => t.2.length == st.alen) = true
    rw [List.all_eq_true]
    intro t ht
    have hm := (List.of_mem_zip ht).2
    obtain ⟨c, hc, e⟩ := List.mem_map.mp hm
    obtain ⟨i, hi, e2⟩ := List.mem_iff_getElem.mp hc
    obtain ⟨g1, g2, g3⟩ := h.slots.gc
    have hil : i < st.ogcLen.length := by omega
    have hs := g3 i
    rw [getD_eq_getElem_of_lt none hi, getD_eq_getElem_of_lt 0 hil, e2] at hs
    have hmem : st.ogcLen[i] ∈ st.lens := by
      unfold StoSt.lens
      simp only [List.mem_append]
      exact Or.inl (Or.inr (List.getElem_mem hil))
    have hnz := h.gcnz _ (List.getElem_mem hil)
    have hlen : st.ogcLen[i] = st.alen := by
      rcases hb _ hmem with h0 | h0
      · exact absurd h0 hnz
      · exact h0
    cases c with
    | none => exact absurd hs hnz
    | some b =>
      obtain ⟨hl, _, _⟩ := hs
      rw [← e]
      simp [hl, hlen]
  · -- unparsed #=GR
    show (st.grTags.zip (st.gr.map (·.take st.nseq))).all (fun t => t.2.all (optLenOk st.alen)) = true
    rw [List.all_eq_true]
    intro t ht
    have hm := (List.of_mem_zip ht).2
    obtain ⟨row, hrow, e⟩ := List.mem_map.mp hm
    obtain ⟨i, hi, e2⟩ := List.mem_iff_getElem.mp hrow
    obtain ⟨g1, g2, g3⟩ := h.slots.gr
    have hit : i < st.grTags.length := by omega
    have hil : i < st.ogrLen.length := by omega
    have hs := g3 i hit
    rw [getD_eq_getElem_of_lt [] hi, getD_eq_getElem_of_lt [] hil, e2] at hs
    rw [← e]
    apply slotArr_final hb hs
    intro x hx
    unfold StoSt.lens
    simp only [List.mem_append]
    refine Or.inr ?_
    rw [List.mem_flatten]
    exact ⟨_, List.getElem_mem hil, hx⟩

theorem stoFinal_good {cfg : Cfg} {st : StoSt} (h : StoInv cfg st) (hin : st.inBlock = false) : Good (stoFinal cfg st) := by
  unfold stoFinal
  have ha := h.alloc
  have hbi : st.bi = 0 := by
    have := h.block.inb
    rw [hin] at this
    simp at this
    exact this
  split
  · simp
  · rename_i hnb
    have hnb' : st.nblock ≠ 0 := by simpa using hnb
    split
    · simp
    · rename_i hns
      have hns' : st.nseq ≠ 0 := by simpa using hns
      have hsl : st.sqlen.length = st.sqalloc := h.slots.rows.2.1
      split
      · rename_i i hf
        have hi := List.mem_range.mp (List.mem_of_find?_eq_some hf)
        have : i < st.sqlen.length := by have := ha.names; have := ha.nseq; omega
        simp [this]
      · rename_i hf
        have hall : ∀ i, i < st.nseq → st.sqlen[i]? = some st.alen := by
          intro i hi
          have := (List.find?_eq_none.mp hf) i (List.mem_range.mpr hi)
          simpa using this
        split
        · rename_i hw
          split
          · rename_i i hf2
            have hi := List.mem_range.mp (List.mem_of_find?_eq_some hf2)
            have : i < st.wgt.length := by have := ha.names; have := ha.nseq; have := ha.wgt; omega
            simp [this]
          · rename_i hf2
            show (stoMsa cfg st).wellFormed = true
            apply stoMsa_wellFormed h hbi hnb' hns' hall
            intro _ i hi
            have := (List.find?_eq_none.mp hf2) i (List.mem_range.mpr hi)
            simpa using this
        · rename_i hw
          show (stoMsa cfg st).wellFormed = true
          apply stoMsa_wellFormed h hbi hnb' hns' hall
          intro hw'
          rw [hw'] at hw
          exact absurd rfl hw

/-- the hypotheses on the reader configuration: `Cfg.valid` (the input map emits only storable symbols and cannot raise an
    exception) and no character is ignored -/
structure Cfg.stoValid (c : Cfg) : Prop where
  valid : c.valid
  noIgnore : c.inmap.noIgnore = true

theorem stoStep_inv {cfg : Cfg} (hv : cfg.valid) (hni : cfg.inmap.noIgnore = true) (st : StoSt) (line : Bytes)
    (h : StoInv cfg st) : StepGood (StoInv cfg) (stoStep cfg st line) := by
  unfold stoStep
  split
  · split
    · exact h
    · split
      · simp
      · exact h.irrelevant rfl
  · simp only
    split
    · have he := endBlock_inv h
      split
      · rename_i r hr; exact he.of_error hr
      · rename_i st1 hr
        have h1 := he.of_ok hr
        split
        · exact stoFinal_good h1 (endBlock_notin hr)
        · exact h1
    · split
      · rename_i hp
        have hp' : (line.dropWhile (fun c => c == 32 || c == 9)).head? = some 35 := by simpa using hp
        split
        · exact stepGood_liftE (parseGf_inv h _ hp')
        · split
          · exact stepGood_liftE (parseGs_inv h _ hp')
          · split
            · exact stepGood_liftE (parseGc_inv h _ hp')
            · split
              · exact stepGood_liftE (parseGr_inv h _ hp')
              · split
                · simp
                · exact stepGood_liftE (parseComment_inv h _)
      · exact stepGood_liftE (parseSq_inv hv hni h _)

theorem stoFinish_good (st : StoSt) : Good (stoFinish st) := by
  unfold stoFinish
  split <;> simp

/-- **Stockholm / Pfam reader, every input**: the outcome of `esl_msafile_stockholm_Read` is a documented normal one
    (never an out-of-bounds access, a NULL dereference or an `ESL_EXCEPTION`), a format error carries a message, and a
    returned alignment is well formed -/
theorem stockholmRead_good (cfg : Cfg) (hv : cfg.valid) (hni : cfg.inmap.noIgnore = true) (lines : List Bytes) :
    Good (stockholmRead cfg lines).1 :=
  runLines_inv (stoStep cfg) stoFinish (StoInv cfg) Good (fun st l h => stoStep_inv hv hni st l h)
    (fun st _ => stoFinish_good st) lines {} (StoInv_init cfg)

/-- … in particular no fault and no internal exception -/
theorem stockholmRead_nofault (cfg : Cfg) (hv : cfg.valid) (hni : cfg.inmap.noIgnore = true) (lines : List Bytes) :
    (stockholmRead cfg lines).1 ≠ .fault ∧ (stockholmRead cfg lines).1 ≠ .exc ∧
    ∀ msg, (stockholmRead cfg lines).1 = .eformat msg → msg ≠ "" := by
  have h := stockholmRead_good cfg hv hni lines
  refine ⟨?_, ?_, ?_⟩
  · intro hr; rw [hr] at h; exact h
  · intro hr; rw [hr] at h; exact h
  · intro msg hr; rw [hr] at h; exact h

end EaselModel.Msafile
