import EaselModel.Msafile.AfaReadDomain
import EaselModel.Msafile.PhylipLemmas
import EaselModel.Msafile.PhylipWritable
/-! "Reformat stability", PHYLIP (interleaved and sequential): what `esl_msafile_phylip_Read` returns. -/
namespace EaselModel.Msafile

/-- every stored name is made of graphic characters and has at most ten of them -/
def NG (names : List (Option Bytes)) : Prop := ∀ nm, some nm ∈ names → (∀ c ∈ nm, isGraph c = true) ∧ nm.length ≤ 10

theorem strtoLoop_le (neg : Bool) (base : Nat) (hb : base = 8 ∨ base = 10 ∨ base = 16) :
    ∀ (r : Bytes) (cur : Int) (nd : Nat) (v : Int), strtoLoop neg base r cur nd = .ok v → cur ≤ 2147483647 →
      (neg = true → cur ≤ 0) → (neg = false → 0 ≤ cur) → v ≤ 2147483647 := by
  intro r
  induction r with
  | nil =>
    intro cur nd v h hc _ _
    unfold strtoLoop at h
    split at h
    · cases h
    · injection h with h; omega
  | cons c r ih =>
    intro cur nd v h hc hneg hpos
    unfold strtoLoop at h
    split at h
    · split at h
      · cases h
      · injection h with h; omega
    · rename_i d hd
      split at h
      · split at h
        · cases h
        · injection h with h; omega
      · rename_i hdb
        cases neg with
        | false =>
          simp only [Bool.not_false, if_true] at h
          split at h
          · cases h
          · rename_i hle
            have h0 := hpos rfl
            have hd' : (d : Int) < base := by omega
            have hnn : (0 : Int) ≤ 2147483647 - (d : Int) := by rcases hb with rfl | rfl | rfl <;> omega
            rw [Int.tdiv_eq_ediv_of_nonneg hnn] at hle
            refine ih _ _ v h ?_ (fun hh => by cases hh) (fun _ => ?_)
            · rcases hb with rfl | rfl | rfl <;> omega
            · rcases hb with rfl | rfl | rfl <;> omega
        | true =>
          simp only [Bool.not_true, Bool.false_eq_true, if_false] at h
          split at h
          · cases h
          · have h0 := hneg rfl
            refine ih _ _ v h ?_ (fun _ => ?_) (fun hh => by cases hh)
            · rcases hb with rfl | rfl | rfl <;> omega
            · rcases hb with rfl | rfl | rfl <;> omega

theorem strtoi32_le (tok : Bytes) (v : Int) (h : strtoi32 tok = .ok v) : v ≤ 2147483647 := by
  unfold strtoi32 at h
  simp only at h
  repeat' split at h
  all_goals first
    | exact strtoLoop_le _ 16 (Or.inr (Or.inr rfl)) _ 0 _ v h (by omega) (fun _ => by omega) (fun _ => by omega)
    | exact strtoLoop_le _ 8 (Or.inl rfl) _ 0 _ v h (by omega) (fun _ => by omega) (fun _ => by omega)
    | exact strtoLoop_le _ 10 (Or.inr (Or.inl rfl)) _ 0 _ v h (by omega) (fun _ => by omega) (fun _ => by omega)

/-- after the header: the stated length is in `1 … 2^31-1`, and so is the number of sequences -/
def HB (st : PhySt) : Prop := 1 ≤ st.alenStated ∧ st.alenStated ≤ 2147483647 ∧ st.names.length ≤ 2147483647

theorem rectifyName_graph (f nm : Bytes) (h : rectifyName f = some nm) : ∀ c ∈ nm, isGraph c = true := by
  unfold rectifyName at h
  cases f with
  | nil => simp at h; subst h; intro c hc; simp at hc
  | cons c0 t =>
    simp only at h
    split at h
    · rename_i hall
      injection h with h
      subst h
      intro c hc
      obtain ⟨x, hx, he⟩ := List.mem_map.mp hc
      have hx' := (List.all_eq_true.mp hall) x hx
      by_cases h32 : x = 32
      · subst h32; simp at he; subst he; decide
      · have : (x == 32) = false := by simpa using h32
        simp only [this, Bool.or_false, Bool.false_eq_true, if_false] at hx' he
        subst he; exact hx'
    · simp at h

theorem rectifyName_len (f nm : Bytes) (h : rectifyName f = some nm) : nm.length ≤ f.length := by
  unfold rectifyName at h
  cases f with
  | nil => simp at h; subst h; simp
  | cons c0 t =>
    simp only at h
    split at h
    · injection h with h
      subst h
      have h1 := (List.dropWhile_sublist (fun x : UInt8 => x == 32) (l := c0 :: (t.reverse.dropWhile (· == 32)).reverse)).length_le
      have h2 := (List.dropWhile_sublist (fun x : UInt8 => x == 32) (l := t.reverse)).length_le
      simp only [List.length_map, List.length_cons, List.length_reverse] at h1 h2 ⊢
      omega
    · simp at h

theorem ng_set (names : List (Option Bytes)) (i : Nat) (nm : Bytes) (h : NG names)
    (hn : (∀ c ∈ nm, isGraph c = true) ∧ nm.length ≤ 10) :
    NG (names.set i (some nm)) := by
  intro x hx
  rcases List.mem_or_eq_of_mem_set hx with h1 | h1
  · exact h x h1
  · injection h1 with h1; subst h1; exact hn

theorem phyNameIf_nd (b : Bool) (st : PhySt) (line : Bytes) (names : List (Option Bytes)) (p : Bytes)
    (h : phyNameIf b st line = .inl (names, p)) (hi : NG st.names) (hw : st.nw = 10) :
    NG names ∧ names.length = st.names.length := by
  unfold phyNameIf at h
  split at h
  · unfold phyName at h
    repeat' split at h
    all_goals first
      | (simp at h; done)
      | (rename_i nm hr _ _
         injection h with h
         injection h with h1 h2
         subst h1
         have hl := rectifyName_len _ nm hr
         have hl2 : (line.take st.nw).length ≤ 10 := by rw [List.length_take, hw]; omega
         exact ⟨ng_set _ _ _ hi ⟨rectifyName_graph _ nm hr, by omega⟩, by simp⟩)
  · injection h with h
    injection h with h1 h2
    subst h1; exact ⟨hi, rfl⟩

/-- names graphic; once the header is read, the stated length is ≥ 1 -/
structure PhyNd (st : PhySt) : Prop where
  names : NG st.names
  alen : st.phase ≠ .lead → HB st
  nw : st.nw = 10

def PhyNdGood (cfg : Cfg) (r : PRes) : Prop :=
  ∀ m b, r = .ok (m, b) → (∀ nm ∈ m.names, (∀ c ∈ nm, isGraph c = true) ∧ nm.length ≤ 10) ∧ 1 ≤ m.alen ∧ m.digital = cfg.digital ∧ m.kp = cfg.kp ∧
    m.alen ≤ 2147483647 ∧ m.names.length ≤ 2147483647

theorem allSomeP_length {α : Type} : ∀ (l : List (Option α)) (r : List α), allSomeP l = some r → r.length = l.length
  | [], r, h => by simp [allSomeP] at h; subst h; rfl
  | none :: _, r, h => by simp [allSomeP] at h
  | some x :: rest, r, h => by
    simp only [allSomeP, Option.map_eq_some_iff] at h
    obtain ⟨rs, h1, h2⟩ := h
    subst h2
    simp [allSomeP_length rest rs h1]

theorem allSomeP_mem {α : Type} : ∀ (l : List (Option α)) (r : List α), allSomeP l = some r → ∀ a ∈ r, some a ∈ l
  | [], r, h, a, ha => by simp [allSomeP] at h; subst h; simp at ha
  | none :: _, r, h, a, ha => by simp [allSomeP] at h
  | some x :: rest, r, h, a, ha => by
    simp only [allSomeP, Option.map_eq_some_iff] at h
    obtain ⟨rs, h1, h2⟩ := h
    subst h2
    rcases List.mem_cons.mp ha with rfl | ha
    · simp
    · exact List.mem_cons_of_mem _ (allSomeP_mem rest rs h1 a ha)

theorem phyDone_nd (cfg : Cfg) (st : PhySt) (a : Nat) (back : Option Bytes) (hn : NG st.names) (ha : 1 ≤ a ∧ a ≤ 2147483647)
    (hl : st.names.length ≤ 2147483647) :
    PhyNdGood cfg (phyDone cfg st a back) := by
  intro m b hm
  unfold phyDone at hm
  split at hm
  · rename_i names rows hnames hrows
    injection hm with hm
    injection hm with h1 h2
    subst h1
    exact ⟨fun nm hnm => hn nm (allSomeP_mem _ _ hnames nm hnm), ha.1, rfl, rfl, ha.2, by
      show names.length ≤ _; rw [allSomeP_length _ _ hnames]; exact hl⟩
  · simp at hm

abbrev StepNd (cfg : Cfg) (x : Sum PhySt PRes) : Prop := StepOk PhyNd (PhyNdGood cfg) x

theorem notOkP_good (cfg : Cfg) (r : PRes) (h : NotOkP r) : PhyNdGood cfg r := fun m b e => absurd e (h (m, b))

theorem ilvLine_nd (cfg : Cfg) (st : PhySt) (line : Bytes) (hn : NG st.names) (ha : HB st) (hw : st.nw = 10) :
    StepNd cfg (ilvLine cfg st line) := by
  cases hs : ilvLine cfg st line with
  | inr r => exact notOkP_good cfg r (by have := ilvLine_notOk cfg st line; rw [hs] at this; exact this)
  | inl st' =>
    show PhyNd st'
    unfold ilvLine at hs
    split at hs
    · simp at hs
    · rename_i names p hname
      obtain ⟨hn', hlen⟩ := phyNameIf_nd _ st line names p hname hn hw
      repeat' split at hs
      all_goals first
        | (simp at hs; done)
        | (injection hs with hs; subst hs
           exact { names := hn', alen := fun _ => ⟨ha.1, ha.2.1, by show names.length ≤ _; rw [hlen]; exact ha.2.2⟩, nw := hw })

theorem seqLine_nd (cfg : Cfg) (st : PhySt) (line : Bytes) (hn : NG st.names) (ha : HB st) (hw : st.nw = 10) :
    StepNd cfg (seqLine cfg st line) := by
  cases hs : seqLine cfg st line with
  | inr r => exact notOkP_good cfg r (by have := seqLine_notOk cfg st line; rw [hs] at this; exact this)
  | inl st' =>
    show PhyNd st'
    unfold seqLine at hs
    split at hs
    · simp at hs
    · rename_i names p hname
      obtain ⟨hn', hlen⟩ := phyNameIf_nd _ st line names p hname hn hw
      repeat' split at hs
      all_goals first
        | (simp at hs; done)
        | (injection hs with hs; subst hs
           exact { names := hn', alen := fun _ => ⟨ha.1, ha.2.1, by show names.length ≤ _; rw [hlen]; exact ha.2.2⟩, nw := hw })

theorem ilvEnd_nd (cfg : Cfg) (st : PhySt) (back : Option Bytes) (hn : NG st.names) (ha : HB st) :
    PhyNdGood cfg (ilvEnd cfg st back) := by
  unfold ilvEnd
  split
  · intro m b hm; simp at hm
  · rename_i he
    have : st.alen = st.alenStated := by simpa using he
    exact phyDone_nd cfg st st.alen back hn (by unfold HB at ha; omega) ha.2.2

theorem ilvNext_nd (cfg : Cfg) (st : PhySt) (line : Bytes) (hn : NG st.names) (ha : HB st) (hw : st.nw = 10) :
    StepNd cfg (ilvNext cfg st line) := by
  unfold ilvNext
  split
  · exact ilvLine_nd cfg { st with idx := 0 } line hn ha hw
  · exact ilvEnd_nd cfg st (some line) hn ha

theorem ilvEndBlock_frame (st st' : PhySt) (h : ilvEndBlock st = .inl st') :
    st'.names = st.names ∧ st'.alenStated = st.alenStated ∧ st'.phase = st.phase ∧ st'.nw = st.nw := by
  unfold ilvEndBlock at h
  split at h
  · simp at h
  · injection h with h; subst h; exact ⟨rfl, rfl, rfl, rfl⟩

theorem ilvStep_nd (cfg : Cfg) (st : PhySt) (line : Bytes) (hi : PhyNd st) (hp : st.phase = .rows ∨ st.phase = .gap) :
    StepNd cfg (ilvStep cfg st line) := by
  have ha : HB st := hi.alen (by rcases hp with h | h <;> rw [h] <;> decide)
  unfold ilvStep
  split
  · rename_i h; rcases hp with h' | h' <;> rw [h'] at h <;> cases h
  · rename_i h; rcases hp with h' | h' <;> rw [h'] at h <;> cases h
  · split
    · exact ilvLine_nd cfg st line hi.names ha hi.nw
    · split
      · rename_i r hend
        exact notOkP_good cfg r (by have := ilvEndBlock_notOk st; rw [hend] at this; exact this)
      · rename_i st1 hend
        obtain ⟨f1, f2, f3, f4⟩ := ilvEndBlock_frame st st1 hend
        have ha1 : HB st1 := by unfold HB; rw [f1, f2]; exact ha
        split
        · exact { names := by show NG st1.names; rw [f1]; exact hi.names, alen := fun _ => ha1, nw := by show st1.nw = 10; rw [f4]; exact hi.nw }
        · exact ilvNext_nd cfg st1 line (by rw [f1]; exact hi.names) ha1 (by rw [f4]; exact hi.nw)
  · split
    · exact hi
    · exact ilvNext_nd cfg st line hi.names ha hi.nw

theorem ilvFinish_nd (cfg : Cfg) (st : PhySt) (hi : PhyNd st) (hp : st.phase = .rows ∨ st.phase = .gap) :
    PhyNdGood cfg (ilvFinish cfg st) := by
  have ha : HB st := hi.alen (by rcases hp with h | h <;> rw [h] <;> decide)
  unfold ilvFinish
  split
  · intro m b hm; simp at hm
  · intro m b hm; simp at hm
  · split
    · rename_i r hend
      exact notOkP_good cfg r (by have := ilvEndBlock_notOk st; rw [hend] at this; exact this)
    · rename_i st1 hend
      obtain ⟨f1, f2, _, _⟩ := ilvEndBlock_frame st st1 hend
      exact ilvEnd_nd cfg st1 none (by rw [f1]; exact hi.names) (by unfold HB; rw [f1, f2]; exact ha)
  · exact ilvEnd_nd cfg st none hi.names ha

theorem seqNext_nd (cfg : Cfg) (st : PhySt) (line : Bytes) (hn : NG st.names) (ha : HB st) (hw : st.nw = 10) :
    StepNd cfg (seqNext cfg st line) := by
  unfold seqNext
  split
  · intro m b hm; simp at hm
  · rename_i he
    have : st.alen = st.alenStated := by simpa using he
    split
    · exact seqLine_nd cfg { st with idx := st.idx + 1, alen := 0 } line hn ha hw
    · exact phyDone_nd cfg st st.alen (some line) hn (by unfold HB at ha; omega) ha.2.2

theorem seqStep_nd (cfg : Cfg) (st : PhySt) (line : Bytes) (hi : PhyNd st) (hp : st.phase = .rows ∨ st.phase = .gap) :
    StepNd cfg (seqStep cfg st line) := by
  have ha : HB st := hi.alen (by rcases hp with h | h <;> rw [h] <;> decide)
  unfold seqStep
  split
  · rename_i h; rcases hp with h' | h' <;> rw [h'] at h <;> cases h
  · rename_i h; rcases hp with h' | h' <;> rw [h'] at h <;> cases h
  · split
    · exact seqLine_nd cfg st line hi.names ha hi.nw
    · split
      · exact { names := hi.names, alen := fun _ => ha, nw := hi.nw }
      · exact seqNext_nd cfg st line hi.names ha hi.nw
  · split
    · exact hi
    · exact seqNext_nd cfg st line hi.names ha hi.nw

theorem seqFinish_nd (cfg : Cfg) (st : PhySt) (hi : PhyNd st) (hp : st.phase = .rows ∨ st.phase = .gap) :
    PhyNdGood cfg (seqFinish cfg st) := by
  have ha : HB st := hi.alen (by rcases hp with h | h <;> rw [h] <;> decide)
  have body : PhyNdGood cfg (if st.idx + 1 < st.nseq then Res.eformat seqMsgEof
      else if (st.alen != st.alenStated) = true then Res.eformat seqMsgAlen else phyDone cfg st st.alen none) := by
    split
    · intro m b hm; simp at hm
    · split
      · intro m b hm; simp at hm
      · rename_i he
        have : st.alen = st.alenStated := by simpa using he
        exact phyDone_nd cfg st st.alen none hi.names (by unfold HB at ha; omega) ha.2.2
  unfold seqFinish
  split
  · intro m b hm; simp at hm
  · intro m b hm; simp at hm
  · exact body
  · exact body

theorem phyHeader_nd (cfg : Cfg) (st : PhySt) (line : Bytes) (hw : st.nw = 10) : StepNd cfg (phyHeader st line) := by
  cases hs : phyHeader st line with
  | inr r => exact notOkP_good cfg r (by have := phyHeader_notOk st line; rw [hs] at this; exact this)
  | inl st' =>
    show PhyNd st'
    unfold phyHeader at hs
    simp only at hs
    split at hs
    · simp at hs
    · simp at hs
    · rename_i nseq hs1
      split at hs
      · simp at hs
      · split at hs
        · simp at hs
        · simp at hs
        · rename_i alen hs2
          split at hs
          · simp at hs
          · rename_i hpos
            injection hs with hs; subst hs
            simp only [Bool.or_eq_true, decide_eq_true_eq, not_or, Int.not_lt] at hpos
            have b1 := strtoi32_le _ nseq hs1
            have b2 := strtoi32_le _ alen hs2
            exact { names := fun nm h => by simp at h
                    alen := fun _ => by unfold HB; simp only [List.length_replicate]; omega
                    nw := hw }

theorem phyFirst_nd (sequential : Bool) (cfg : Cfg) (st : PhySt) (line : Bytes) (hi : PhyNd st) (hp : st.phase = .hdr) :
    StepNd cfg (phyFirst sequential cfg st line) := by
  have ha : HB st := hi.alen (by rw [hp]; decide)
  unfold phyFirst
  split
  · exact seqLine_nd cfg _ line hi.names ha hi.nw
  · exact ilvLine_nd cfg _ line hi.names ha hi.nw

theorem phylipStep_nd (sequential : Bool) (cfg : Cfg) (st : PhySt) (line : Bytes) (hi : PhyNd st) :
    StepNd cfg (phylipStep sequential cfg st line) := by
  unfold phylipStep
  split
  · split
    · exact hi
    · exact phyHeader_nd cfg st line hi.nw
  · rename_i hp
    split
    · exact hi
    · exact phyFirst_nd sequential cfg st line hi hp
  · rename_i h1 h2
    have hp : st.phase = .rows ∨ st.phase = .gap := by
      cases hph : st.phase with
      | lead => exact absurd hph h1
      | hdr => exact absurd hph h2
      | rows => exact Or.inl rfl
      | gap => exact Or.inr rfl
    split
    · exact seqStep_nd cfg st line hi hp
    · exact ilvStep_nd cfg st line hi hp

theorem phylipFinish_nd (sequential : Bool) (cfg : Cfg) (st : PhySt) (hi : PhyNd st) :
    PhyNdGood cfg (phylipFinish sequential cfg st) := by
  unfold phylipFinish
  split
  · intro m b hm; simp at hm
  · intro m b hm; simp at hm
  · rename_i h1 h2
    have hp : st.phase = .rows ∨ st.phase = .gap := by
      cases hph : st.phase with
      | lead => exact absurd hph h1
      | hdr => exact absurd hph h2
      | rows => exact Or.inl rfl
      | gap => exact Or.inr rfl
    split
    · exact seqFinish_nd cfg st hi hp
    · exact ilvFinish_nd cfg st hi hp

theorem phylipRun_nd (sequential : Bool) (cfg : Cfg) (lines : List Bytes) :
    PhyNdGood cfg (runLines (phylipStep sequential cfg) (phylipFinish sequential cfg) {} lines).1 :=
  runLines_inv (phylipStep sequential cfg) (phylipFinish sequential cfg) PhyNd (PhyNdGood cfg)
    (fun st l h => phylipStep_nd sequential cfg st l h) (fun st h => phylipFinish_nd sequential cfg st h) lines {}
    { names := fun nm h => by simp at h, alen := fun h => absurd rfl h, nw := rfl }

/-- what `esl_msafile_phylip_Read` guarantees beyond well-formedness: graphic names, ≥ 1 column -/
theorem phylipRead_nd (sequential : Bool) (cfg : Cfg) (lines : List Bytes) (m : Msa) (rest : List Bytes)
    (h : phylipRead sequential cfg lines = (.ok m, rest)) :
    (∀ nm ∈ m.names, (∀ c ∈ nm, isGraph c = true) ∧ nm.length ≤ 10) ∧ 1 ≤ m.alen ∧ m.digital = cfg.digital ∧ m.kp = cfg.kp ∧
      m.alen ≤ 2147483647 ∧ m.names.length ≤ 2147483647 := by
  have hr := phylipRun_nd sequential cfg lines
  unfold phylipRead at h
  generalize runLines (phylipStep sequential cfg) (phylipFinish sequential cfg) {} lines = x at h hr
  obtain ⟨r, rs⟩ := x
  cases r with
  | ok mb =>
    obtain ⟨m', b⟩ := mb
    have := hr m' b rfl
    cases b with
    | none => simp only [phyUnput, Prod.mk.injEq, Res.ok.injEq] at h; rw [← h.1]; exact this
    | some l => simp only [phyUnput, Prod.mk.injEq, Res.ok.injEq] at h; rw [← h.1]; exact this
  | eof => simp [phyUnput] at h
  | eformat msg => simp [phyUnput] at h
  | fault => simp [phyUnput] at h
  | exc => simp [phyUnput] at h

/-- no stored name is empty (a name field of ten blanks is stored as the empty string) -/
def phyNamesNeB (m : Msa) : Bool := m.names.all fun nm => !nm.isEmpty

/-- every text residue is one PHYLIP carries unchanged: an upper-case letter, `-`, `*` or `?` -/
def phyRowsSymB (m : Msa) : Bool := m.aseq.all fun r => r.all phyTextSym

theorem phyName_ok (m : Msa) (hn : ∀ nm ∈ m.names, (∀ c ∈ nm, isGraph c = true) ∧ nm.length ≤ 10) (hne : phyNamesNeB m = true) :
    ∀ i, i < m.nseq → phyNameOk (m.names.getD i []) := by
  intro i hi
  have hmem := rd_getD_mem m.names i hi
  refine ⟨?_, (hn _ hmem).1⟩
  have := (List.all_eq_true.mp hne) _ hmem
  intro h0
  rw [h0] at this
  simp at this

/-- **what the PHYLIP reader returns in digital mode can be written and read back**, given that no name is empty -/
theorem phylipRead_domain_digital (sequential : Bool) (a : Abc) (hv : (phylipCfg (some a)).valid) (lines : List Bytes) (m : Msa)
    (rest : List Bytes) (h : phylipRead sequential (phylipCfg (some a)) lines = (.ok m, rest)) (hne : phyNamesNeB m = true) :
    PhylipDigitalWritable a m := by
  have hg := phylipRead_good sequential (phylipCfg (some a)) hv lines
  rw [h] at hg
  obtain ⟨hnm, halen, hdig, hkp, hb1, hb2⟩ := phylipRead_nd sequential _ lines m rest h
  have hdig' : m.digital = true := hdig
  have hkp' : m.kp = a.kp := hkp
  obtain ⟨h1, hrows⟩ := rd_wellFormed_rows m hg
  rw [hdig'] at hrows
  simp only [if_true] at hrows
  exact
    { dig := hdig', n1 := h1, alen1 := halen, nmax := hb2, amax := hb1
      name_ok := phyName_ok m hnm hne
      row_ok := fun i hi => by
        rw [← hkp']
        exact hrows.2 _ (rd_getD_mem m.ax i (by rw [hrows.1]; exact hi)) }

/-- … text mode: also every residue must be one PHYLIP carries unchanged -/
theorem phylipRead_domain_text (sequential : Bool) (lines : List Bytes) (m : Msa) (rest : List Bytes)
    (h : phylipRead sequential (phylipCfg none) lines = (.ok m, rest)) (hne : phyNamesNeB m = true)
    (hsym : phyRowsSymB m = true) : PhylipTextWritable m := by
  have hg := phylipRead_good sequential (phylipCfg none) ⟨by decide +kernel, by decide +kernel⟩ lines
  rw [h] at hg
  obtain ⟨hnm, halen, hdig, _, hb1, hb2⟩ := phylipRead_nd sequential _ lines m rest h
  have hdig' : m.digital = false := hdig
  obtain ⟨h1, hrows⟩ := rd_wellFormed_rows m hg
  rw [hdig'] at hrows
  simp only [Bool.false_eq_true, if_false] at hrows
  exact
    { dig := hdig', n1 := h1, alen1 := halen, nmax := hb2, amax := hb1
      name_ok := phyName_ok m hnm hne
      row_ok := fun i hi => by
        have hmem := rd_getD_mem m.aseq i (by rw [hrows.1]; exact hi)
        exact ⟨(hrows.2 _ hmem).1, fun t ht => (List.all_eq_true.mp ((List.all_eq_true.mp hsym) _ hmem)) t ht⟩ }

/-- the reader returns names of at most ten characters, so `phylipProject` (which cuts names to ten) leaves them alone -/
theorem phylipRead_project_names (sequential : Bool) (cfg cfg' : Cfg) (lines : List Bytes) (m : Msa) (rest : List Bytes)
    (h : phylipRead sequential cfg lines = (.ok m, rest)) : (phylipProject cfg' m).names = m.names := by
  obtain ⟨hnm, _⟩ := phylipRead_nd sequential cfg lines m rest h
  rw [phylipProject_names]
  conv => rhs; rw [← List.map_id m.names]
  apply List.map_congr_left
  intro nm hmem
  exact List.take_of_length_le (hnm nm hmem).2

end EaselModel.Msafile
