import EaselModel.Msafile.Basic
import EaselModel.Msafile.Afa
/-! # SELEX: `esl_msafile_selex.c`  (`esl_msafile_selex_SetInmap`, `esl_msafile_selex_Read` with `selex_read_block`,
`selex_first_block`, `selex_other_block`, `selex_append_block`)

The reader is the C function rewritten as a state machine over the lines `esl_msafile_GetLine` delivers.  The state holds
the lines of the block being collected (`ESL_SELEX_BLOCK`: the line POINTERS are abstracted to the line contents; the
stable-anchor pointer problem of stream sources is a known finding outside this model), the line types of the first block
(`b->ltype[]`), and the alignment under construction.  Heap rows are `Bytes` whose LENGTH IS THE ALLOCATION SIZE the C code
computes (`alen + nadd + 1`, `+ 2` digital); every write goes through the bounds-checked `writeAt`, every data-dependent
array read through `[i]?`; a failure is `.fault`.  Quantities the C code holds in signed integers (`lpos`, `rpos`,
`leftmost`, `rightmost`, `nadd`, `nleft`, `ntext`) are `Int` with the C code's `-1` conventions. -/
namespace EaselModel.Msafile

/-- `esl_msafile_selex_SetInmap`: no character is IGNORED; a space is a gap -/
def selexInmap (abc : Option Abc) : InMap :=
  match abc with
  | some a => ⟨((a.inmap.setIfInBounds 0 a.unknown).setIfInBounds 32 a.gap)⟩
  | none =>
    ⟨((Array.ofFn (n := 128) fun i =>
        let c := UInt8.ofNat i.val
        if i.val == 0 then (63 : UInt8) else if isGraph c then c else dsqILLEGAL).setIfInBounds 32 46)⟩

def selexCfg (abc : Option Abc) : Cfg := ⟨abc, selexInmap abc⟩

/-! ## line classification -/

/-- `eslSELEX_LINE_*` -/
inductive LType where
  | sq | rf | cs | ss | sa | mm
deriving Repr, DecidableEq

def pfxRF : Bytes := [35, 61, 82, 70]
def pfxMM : Bytes := [35, 61, 77, 77]
def pfxCS : Bytes := [35, 61, 67, 83]
def pfxSS : Bytes := [35, 61, 83, 83]
def pfxSA : Bytes := [35, 61, 83, 65]

/-- the `if (esl_memstrpfx(line, "#=RF")) … else if …` ladder of `selex_first_block` / `selex_other_block` -/
def ltypeOf (line : Bytes) : LType :=
  if memstrpfx line pfxRF then .rf
  else if memstrpfx line pfxMM then .mm
  else if memstrpfx line pfxCS then .cs
  else if memstrpfx line pfxSS then .ss
  else if memstrpfx line pfxSA then .sa
  else .sq

/-- a SELEX comment line: starts with `#` but not with `#=` -/
def isComment (line : Bytes) : Bool := memstrpfx line [35] && !memstrpfx line [35, 61]

/-! ## heap rows -/

/-- `ESL_REALLOC(p, n)`: the old content is kept, new bytes are indeterminate (`poison`) -/
def realloc (poison : UInt8) (old : Option Bytes) (n : Nat) : Bytes :=
  (old.getD []).take n ++ List.replicate (n - (old.getD []).length) poison

/-- write `seg` into `b` at `pos`: `none` = some byte of the write lies outside the allocation -/
def writeAt (b : Bytes) (pos : Nat) (seg : Bytes) : Option Bytes :=
  if pos + seg.length ≤ b.length then some (b.take pos ++ seg ++ b.drop (pos + seg.length)) else none

/-- the alignment under construction (`ESL_MSA` between blocks) -/
structure SxMsa where
  nseq : Nat := 0                              -- msa->nseq = msa->sqalloc
  names : List Bytes := []                     -- msa->sqname[0..]
  rows : List (Option Bytes) := []             -- msa->aseq[i] / msa->ax[i]: NULL until the first append
  alen : Nat := 0
  rf : Option Bytes := none
  mm : Option Bytes := none
  cs : Option Bytes := none                    -- msa->ss_cons
  ss : Option (List (Option Bytes)) := none    -- msa->ss: NULL, or nseq pointers
  sa : Option (List (Option Bytes)) := none
deriving Repr

/-- the row pointer a line of the block is appended to -/
inductive Slot where
  | sq (i : Nat) | rf | mm | cs | ss (i : Nat) | sa (i : Nat)
deriving Repr, DecidableEq

/-- read the pointer in a slot; outer `none`: the read itself is invalid (index outside the array / NULL array) -/
def SxMsa.get (m : SxMsa) : Slot → Option (Option Bytes)
  | .sq i => m.rows[i]?
  | .rf => some m.rf
  | .mm => some m.mm
  | .cs => some m.cs
  | .ss i => match m.ss with | none => none | some l => l[i]?
  | .sa i => match m.sa with | none => none | some l => l[i]?

def SxMsa.set (m : SxMsa) (s : Slot) (b : Bytes) : SxMsa :=
  match s with
  | .sq i => { m with rows := m.rows.set i (some b) }
  | .rf => { m with rf := some b }
  | .mm => { m with mm := some b }
  | .cs => { m with cs := some b }
  | .ss i => { m with ss := m.ss.map (·.set i (some b)) }
  | .sa i => { m with sa := m.sa.map (·.set i (some b)) }

/-- which pointer `selex_append_block` selects for a line of type `t` when `seqi` sequence lines precede it
    (`msa->ss[seqi-1]` with `seqi = 0` is an access in front of the array: `none`) -/
def slotOf (t : LType) (seqi : Nat) : Option Slot :=
  match t with
  | .sq => some (.sq seqi)
  | .rf => some .rf
  | .mm => some .mm
  | .cs => some .cs
  | .ss => if seqi = 0 then none else some (.ss (seqi - 1))
  | .sa => if seqi = 0 then none else some (.sa (seqi - 1))

/-! ## `selex_first_block` -/

/-- the counters of `selex_first_block` -/
structure Cnt where
  nrf : Nat := 0
  nmm : Nat := 0
  ncs : Nat := 0
  nss : Nat := 0
  nsa : Nat := 0
  nseq : Nat := 0
  hasSS : Bool := false
  hasSA : Bool := false
deriving Repr

def Cnt.bump (c : Cnt) (t : LType) : Cnt :=
  match t with
  | .rf => { c with nrf := c.nrf + 1 }
  | .mm => { c with nmm := c.nmm + 1 }
  | .cs => { c with ncs := c.ncs + 1 }
  | .ss => { c with nss := c.nss + 1, hasSS := true }
  | .sa => { c with nsa := c.nsa + 1, hasSA := true }
  | .sq => { c with nseq := c.nseq + 1, nss := 0, nsa := 0 }

/-- the six tests made after each line, in their order -/
def Cnt.err (c : Cnt) : Option String :=
  if c.nss != 0 && c.nseq == 0 then some "#=SS must follow a sequence"
  else if c.nsa != 0 && c.nseq == 0 then some "#=SA must follow a sequence"
  else if c.nrf > 1 then some "Too many #=RF lines for block"
  else if c.ncs > 1 then some "Too many #=CS lines for block"
  else if c.nss > 1 then some "Too many #=SS lines for seq"
  else if c.nsa > 1 then some "Too many #=SA lines for seq"
  else none

/-- first loop: line types and counters; `.inl` = the message of the failed test -/
def firstScan : List Bytes → Cnt → Sum String (List LType × Cnt)
  | [], c => .inr ([], c)
  | l :: ls, c =>
    let t := ltypeOf l
    let c' := c.bump t
    match c'.err with
    | some msg => .inl msg
    | none =>
      match firstScan ls c' with
      | .inl msg => .inl msg
      | .inr (ts, cf) => .inr (t :: ts, cf)

/-- `lpos[idx] = (n ? p - line : -1)` after `esl_memtok` left `rest` (`n` bytes at `p`) -/
def lposOf (line rest : Bytes) : Int :=
  if rest.isEmpty then -1 else (line.length : Int) - (rest.length : Int)

/-- one line of a block with what `ESL_SELEX_BLOCK` records about it -/
structure BLine where
  ty : LType
  line : Bytes
  lpos : Int
  rpos : Int := 0
deriving Repr

/-- second loop of `selex_first_block`: names (`esl_msa_SetSeqName(msa, seqi, …)`, which throws when `seqi ≥ sqalloc`) and `lpos[]` -/
def firstNames (nseq : Nat) : List (LType × Bytes) → Nat → Sum (Res Msa) (List Bytes × List BLine)
  | [], _ => .inr ([], [])
  | (t, l) :: ls, seqi =>
    match memtok l blankTab with
    | none => .inl .exc                                   -- ESL_XEXCEPTION "can't happen"
    | some (tok, rest) =>
      if t == .sq then
        if seqi ≥ nseq then .inl .exc
        else
          match firstNames nseq ls (seqi + 1) with
          | .inl r => .inl r
          | .inr (ns, bl) => .inr (cstr tok :: ns, { ty := t, line := l, lpos := lposOf l rest } :: bl)
      else
        match firstNames nseq ls seqi with
        | .inl r => .inl r
        | .inr (ns, bl) => .inr (ns, { ty := t, line := l, lpos := lposOf l rest } :: bl)

def selexMsgNoSeq := "first block contains annotation lines but no sequence lines"

/-- `esl_msa_Create(nseq, -1)` / `esl_msa_CreateDigital`, plus the `ss` / `sa` pointer arrays when the block has such lines -/
def newMsa (c : Cnt) (names : List Bytes) : SxMsa :=
  { nseq := c.nseq, names := names, rows := List.replicate c.nseq none,
    ss := if c.hasSS then some (List.replicate c.nseq none) else none,
    sa := if c.hasSA then some (List.replicate c.nseq none) else none }

/-- `selex_first_block`: the new alignment, `b->ltype[]`, and the block's lines with `lpos` -/
def firstBlock (lines : List Bytes) : Sum (Res Msa) (SxMsa × List LType × List BLine) :=
  match firstScan lines {} with
  | .inl msg => .inl (.eformat msg)
  | .inr (tys, c) =>
    if c.nseq == 0 then .inl (.eformat selexMsgNoSeq)
    else
      match firstNames c.nseq (tys.zip lines) 0 with
      | .inl r => .inl r
      | .inr (names, bl) =>
        .inr (newMsa c names, tys, bl)

/-! ## `selex_other_block` -/

def orderMsg (t : LType) : String :=
  match t with
  | .rf => "#=RF line isn't in expected order in block"
  | .mm => "#=MM line isn't in expected order in block"
  | .cs => "#=CS line isn't in expected order in block"
  | .ss => "#=SS line isn't in expected order in block"
  | .sa => "#=SA line isn't in expected order in block"
  | .sq => "sequence line isn't in expected order in block"

/-- first loop: `b->ltype[idx]` (of the first block) against the type the line has now -/
def otherTypes (ltype : List LType) : List Bytes → Nat → Option (Res Msa)
  | [], _ => none
  | l :: ls, idx =>
    match ltype[idx]? with
    | none => some .fault
    | some t => if ltypeOf l != t then some (.eformat (orderMsg (ltypeOf l))) else otherTypes ltype ls (idx + 1)

/-- second loop: `msa->sqname[seqi]` against the first token, and `lpos[]` -/
def otherNames (names : List Bytes) (ltype : List LType) : List Bytes → Nat → Nat → Sum (Res Msa) (List BLine)
  | [], _, _ => .inr []
  | l :: ls, idx, seqi =>
    match memtok l blankTab with
    | none => .inl .exc
    | some (tok, rest) =>
      match ltype[idx]? with
      | none => .inl .fault
      | some t =>
        if t == .sq then
          match names[seqi]? with
          | none => .inl .fault
          | some nm =>
            if !memstrcmp tok nm then .inl (.eformat "expected another sequence name at this line of block")
            else
              match otherNames names ltype ls (idx + 1) (seqi + 1) with
              | .inl r => .inl r
              | .inr bl => .inr ({ ty := t, line := l, lpos := lposOf l rest } :: bl)
        else
          match otherNames names ltype ls (idx + 1) seqi with
          | .inl r => .inl r
          | .inr bl => .inr ({ ty := t, line := l, lpos := lposOf l rest } :: bl)

def otherBlock (m : SxMsa) (ltype : List LType) (lines : List Bytes) : Sum (Res Msa) (List BLine) :=
  match otherTypes ltype lines 0 with
  | some r => .inl r
  | none => otherNames m.names ltype lines 0 0

/-! ## `selex_append_block` -/

/-- `pos = llen-1; while (pos >= 0 && isspace(p[pos])) pos--;` -/
def rposScan (line : Bytes) : Int := ((line.reverse.dropWhile isSpace).length : Int) - 1

/-- first loop: `if (pos < lpos) lpos = -1;  rpos = (pos < lpos) ? -1 : pos;` -/
def fixPos (b : BLine) : BLine :=
  let pos := rposScan b.line
  let lpos := if pos < b.lpos then -1 else b.lpos
  { b with lpos := lpos, rpos := if pos < lpos then -1 else pos }

def leftmostOf (b0 : BLine) (rest : List BLine) : Int :=
  rest.foldl (fun lm b => if b.lpos == -1 then lm else min lm b.lpos) b0.lpos

def rightmostOf (b0 : BLine) (rest : List BLine) : Int :=
  rest.foldl (fun rm b => if b.rpos == -1 then rm else max rm b.rpos) b0.rpos

/-- the writes into a reallocated row `buf`, whose payload starts at `off` (1 for a digital row: the leading sentinel):
    `nleft` pads, the body (followed by `tail`: the terminator the `*cat_noalloc` functions put), pads up to `alen+nadd`,
    and the terminator -/
def fillRow (buf : Bytes) (off alen nadd nleft : Nat) (body tail : Bytes) (pad term : UInt8) : Option Bytes :=
  match writeAt buf (off + alen) (List.replicate nleft pad) with
  | none => none
  | some b1 =>
    match writeAt b1 (off + alen + nleft) (body ++ tail) with
    | none => none
    | some b2 =>
      let e := alen + nleft + body.length
      match writeAt b2 (off + e) (List.replicate (alen + nadd - e) pad) with
      | none => none
      | some b3 => writeAt b3 (off + e + (alen + nadd - e)) [term]

/-- a sequence line: reallocate, pad, `esl_strmapcat_noalloc` / `esl_abc_dsqcat_noalloc`, the status tests in their order, pad, terminate -/
def buildSeqRow (cfg : Cfg) (alen nadd nleft ntext : Nat) (src : Bytes) (old : Option Bytes) : Sum (Res Msa) Bytes :=
  let (st, racc) := mapLoop cfg.inmap src .ok []
  let body := racc.reverse
  match cfg.abc with
  | some a =>
    let buf := realloc dsqSENTINEL old (alen + nadd + 2)
    match (if alen == 0 then writeAt buf 0 [dsqSENTINEL] else some buf) with
    | none => .inl .fault
    | some buf =>
      if st == .exc then .inl .exc
      else
        match fillRow buf 1 alen nadd nleft body [dsqSENTINEL] a.gap dsqSENTINEL with
        | none => .inl .fault
        | some b =>
          if st == .einval then .inl (.eformat "illegal residue(s) in sequence line")
          else if body.length != ntext then .inl .exc       -- "unexpected inconsistency appending a sequence"
          else .inr b
  | none =>
    let buf := realloc 0 old (alen + nadd + 1)
    if st == .exc then .inl .exc
    else
      match fillRow buf 0 alen nadd nleft body [0] 46 0 with
      | none => .inl .fault
      | some b =>
        if st == .einval then .inl (.eformat "illegal residue(s) in input line")
        else if body.length != ntext then .inl .exc
        else .inr b

/-- an annotation line: reallocate, the NUL test, pad, `memcpy`, pad, terminate -/
def buildAnnRow (alen nadd nleft ntext : Nat) (src : Bytes) (old : Option Bytes) : Sum (Res Msa) Bytes :=
  let buf := realloc 0 old (alen + nadd + 1)
  if ntext != 0 && src.contains 0 then .inl (.eformat "NUL byte in annotation line")
  else
    match fillRow buf 0 alen nadd nleft src [] 46 0 with
    | none => .inl .fault
    | some b => .inr b

/-- one iteration of the append loop -/
def appendLine (cfg : Cfg) (alen nadd : Nat) (leftmost : Int) (seqi : Nat) (m : SxMsa) (b : BLine) : Sum (Res Msa) SxMsa :=
  let nleft : Int := if b.lpos != -1 then b.lpos - leftmost else nadd
  let ntext : Int := if b.lpos != -1 then b.rpos - b.lpos + 1 else 0
  if nleft < 0 || ntext < 0 then .inl .fault                                      -- negative counts: accesses in front of the row
  else if ntext != 0 && (b.lpos < 0 || b.lpos + ntext > b.line.length) then .inl .fault   -- `line + lpos` .. `+ ntext` outside the line
  else
    let src := (b.line.drop b.lpos.toNat).take ntext.toNat
    match slotOf b.ty seqi with
    | none => .inl .fault
    | some s =>
      match m.get s with
      | none => .inl .fault
      | some old =>
        match (if b.ty == .sq then buildSeqRow cfg alen nadd nleft.toNat ntext.toNat src old
               else buildAnnRow alen nadd nleft.toNat ntext.toNat src old) with
        | .inl r => .inl r
        | .inr row => .inr (m.set s row)

def appendLines (cfg : Cfg) (alen nadd : Nat) (leftmost : Int) : List BLine → Nat → SxMsa → Sum (Res Msa) SxMsa
  | [], _, m => .inr m
  | b :: bs, seqi, m =>
    match appendLine cfg alen nadd leftmost seqi m b with
    | .inl r => .inl r
    | .inr m' => appendLines cfg alen nadd leftmost bs (if b.ty == .sq then seqi + 1 else seqi) m'

def appendBlock (cfg : Cfg) (m : SxMsa) (bl : List BLine) : Sum (Res Msa) SxMsa :=
  match bl.map fixPos with
  | [] => .inl .fault                      -- `b->lpos[0]` of a block without lines
  | b0 :: rest =>
    let leftmost := leftmostOf b0 rest
    let rightmost := rightmostOf b0 rest
    if rightmost == -1 then .inr m         -- "super special case": nothing at all in this block
    else
      let nadd := rightmost - leftmost + 1
      if nadd < 0 then .inl .fault
      else
        match appendLines cfg m.alen nadd.toNat leftmost (b0 :: rest) 0 m with
        | .inl r => .inl r
        | .inr m' => .inr { m' with alen := m.alen + nadd.toNat }

/-! ## the reader -/

/-- the locals of `esl_msafile_selex_Read` / `selex_read_block` between two `esl_msafile_GetLine` calls -/
structure SxSt where
  inBlock : Bool := false          -- inside the "parse for a block of lines" loop
  cur : List Bytes := []           -- b->line[0..idx-1]
  nalloc : Nat := 16               -- b->nalloc
  nblocks : Nat := 0
  nlines : Nat := 0                -- b->nlines (set by the first block)
  ltype : List LType := []         -- b->ltype[0..nlines-1]
  msa : Option SxMsa := none
deriving Repr

def selexMsgNLines := "expected a different number of lines in block"
def selexMsgNoData := "no aligned sequence data found in SELEX input"

/-- `if (b->nalloc && idx == b->nalloc) selex_block_Grow(b);  b->line[idx] = …; idx++` -/
def pushLine (st : SxSt) (line : Bytes) : Sum SxSt (Res Msa) :=
  let idx := st.cur.length
  let nalloc := if st.nalloc != 0 && idx == st.nalloc then 2 * st.nalloc else st.nalloc
  if idx ≥ nalloc then .inr .fault
  else .inl { st with inBlock := true, cur := st.cur ++ [line], nalloc := nalloc }

/-- the end of `selex_read_block` and one turn of the loop of `esl_msafile_selex_Read` -/
def processBlock (cfg : Cfg) (st : SxSt) : Sum SxSt (Res Msa) :=
  let lines := st.cur
  if st.nblocks != 0 && st.nlines != lines.length then .inr (.eformat selexMsgNLines)
  else if st.nblocks == 0 then
    match firstBlock lines with
    | .inl r => .inr r
    | .inr (m, tys, bl) =>
      match appendBlock cfg m bl with
      | .inl r => .inr r
      | .inr m' => .inl { st with inBlock := false, cur := [], nblocks := 1, nlines := lines.length, ltype := tys, msa := some m' }
  else
    match st.msa with
    | none => .inr .fault
    | some m =>
      match otherBlock m st.ltype lines with
      | .inl r => .inr r
      | .inr bl =>
        match appendBlock cfg m bl with
        | .inl r => .inr r
        | .inr m' => .inl { st with inBlock := false, cur := [], nblocks := st.nblocks + 1, msa := some m' }

def selexStep (cfg : Cfg) (st : SxSt) (line : Bytes) : Sum SxSt (Res Msa) :=
  if !st.inBlock then
    if isBlankLine line || isComment line then .inl st
    else pushLine st line
  else
    if isComment line then .inl st
    else if isBlankLine line then processBlock cfg st
    else pushLine st line

/-- the alignment as returned: text rows and annotation are C strings (read up to the first NUL) -/
def SxMsa.toMsa (cfg : Cfg) (m : SxMsa) : Msa :=
  { digital := cfg.digital, kp := cfg.kp, alen := m.alen, names := m.names,
    aseq := if cfg.digital then [] else m.rows.map fun o => cstr (o.getD []),
    ax := if cfg.digital then m.rows.map fun o => o.getD [] else [],
    hasw := false, wgt := List.replicate m.nseq Wgt.dflt,
    ssCons := m.cs.map cstr, rf := m.rf.map cstr, mm := m.mm.map cstr,
    ss := m.ss.map fun l => l.map fun o => o.map cstr,
    sa := m.sa.map fun l => l.map fun o => o.map cstr }

/-- after the loop: `if (status != eslEOF || nblocks == 0) goto ERROR;  if (msa->alen == 0) eslEFORMAT;  SetDefaultWeights` -/
def selexFinal (cfg : Cfg) (st : SxSt) : Res Msa :=
  if st.nblocks == 0 then .eof
  else
    match st.msa with
    | none => .fault
    | some m => if m.alen == 0 then .eformat selexMsgNoData else .ok (m.toMsa cfg)

/-- end of input -/
def selexFinish (cfg : Cfg) (st : SxSt) : Res Msa :=
  if st.inBlock then
    match processBlock cfg st with
    | .inr r => r
    | .inl st' => selexFinal cfg st'
  else selexFinal cfg st

/-- `esl_msafile_selex_Read` on the remaining lines: outcome and the lines left unread -/
def selexRead (cfg : Cfg) (lines : List Bytes) : Res Msa × List Bytes :=
  runLines (selexStep cfg) (selexFinish cfg) {} lines

end EaselModel.Msafile
