import EaselModel.Msafile.StoWgtTok
/-! # Stockholm / Pfam weights and cut-offs: the TOKENS the writer prints, for every finite value

The reader model keeps of a weight / cut-off whether it is set (the token → double conversion is C01's).  What this file proves
about the tokens themselves, for EVERY finite binary64 weight and binary32 cut-off (negative ones, zeros and subnormals included):

* `fmtF2_wellformed` / `fmtF1_wellformed`: the token is `[-]d…d.dd` (resp. one decimal): non-empty integer part, exactly two (one)
  fraction digits, accepted by `esl_mem_IsReal`, one blank-free token that survives on a line (`RealTok`);
* `fmtF2_value` / `fmtF1_value`: read by an independent decimal parser (`decTok`), the token denotes exactly
  `fixedQ mant e prec` units of `10^-prec` with the sign bit of the value, where the value is `± mant * 2^e`;
* `fixedQ_exact`, `fixedQ_half_unit`: that integer is the value scaled by `10^prec`, exact when `e ≥ 0` and otherwise within HALF a unit
  of the last printed decimal ("weights to the two and cut-offs to the one decimal the format prints");
* `wt_line_tokens`, `wt_line_weight_token`: the reader's tokenizer (`esl_memtok` on blank/tab, as `stockholm_parse_gs` calls it) takes
  the written line `#=GS <name> WT <token>` apart into exactly `#=GS`, the name, `WT` and the printed token: the bytes handed to
  `esl_memtod` ARE the bytes `printf("%.2f")` produced (token round trip);
* `wgtTokOk_iff`: the hypothesis `wgtTokOk` of the Stockholm round trip holds for EVERY finite weight except those that print as
  `-1.00` (which `strtod` reads as -1.0, the reader's "no weight" marker): `strtodIsMinusOne` evaluated on the printed token. -/
namespace EaselModel.Msafile

/-! ## the integer `fmtFixed` prints -/

/-- `mant * 2^e * 10^prec` rounded to the nearest integer, ties to even -/
def fixedQ (mant : Nat) (e : Int) (prec : Nat) : Nat :=
  if e ≥ 0 then mant * 10 ^ prec * 2 ^ e.toNat
  else
    if 2 * ((mant * 10 ^ prec) % 2 ^ (-e).toNat) > 2 ^ (-e).toNat
        || (2 * ((mant * 10 ^ prec) % 2 ^ (-e).toNat) == 2 ^ (-e).toNat && (mant * 10 ^ prec) / 2 ^ (-e).toNat % 2 == 1)
    then (mant * 10 ^ prec) / 2 ^ (-e).toNat + 1 else (mant * 10 ^ prec) / 2 ^ (-e).toNat

theorem fmtFixed_eq (neg : Bool) (mant : Nat) (e : Int) (prec : Nat) :
    fmtFixed neg mant e prec = (if neg then [45] else []) ++ natDec (fixedQ mant e prec / 10 ^ prec)
      ++ (if prec == 0 then [] else 46 :: (List.replicate (prec - (natDec (fixedQ mant e prec % 10 ^ prec)).length) 48
            ++ natDec (fixedQ mant e prec % 10 ^ prec))) := by
  unfold fmtFixed fixedQ
  rfl

/-- exact for a non-negative binary exponent -/
theorem fixedQ_exact (mant : Nat) (e : Int) (prec : Nat) (he : 0 ≤ e) : fixedQ mant e prec = mant * 10 ^ prec * 2 ^ e.toNat := by
  unfold fixedQ; rw [if_pos he]

/-- otherwise within half a unit of the last printed decimal: `|q * 2^k - mant * 10^prec| ≤ 2^k / 2` with `k = -e` -/
theorem fixedQ_half_unit (mant : Nat) (e : Int) (prec : Nat) (he : e < 0) :
    2 * (fixedQ mant e prec * 2 ^ (-e).toNat) ≤ 2 * (mant * 10 ^ prec) + 2 ^ (-e).toNat ∧
    2 * (mant * 10 ^ prec) ≤ 2 * (fixedQ mant e prec * 2 ^ (-e).toNat) + 2 ^ (-e).toNat := by
  have hne : ¬ (e ≥ 0) := by omega
  unfold fixedQ
  rw [if_neg hne]
  generalize hnum : mant * 10 ^ prec = num
  generalize hden : 2 ^ (-e).toNat = den
  have hpos : 0 < den := by rw [← hden]; exact Nat.pow_pos (by decide)
  have hdm := Nat.div_add_mod num den
  have hr := Nat.mod_lt num hpos
  have hmul : den * (num / den) = num / den * den := Nat.mul_comm _ _
  have hsucc : (num / den + 1) * den = num / den * den + den := Nat.succ_mul _ _
  split
  · rename_i hc
    simp only [Bool.or_eq_true, decide_eq_true_eq, Bool.and_eq_true, beq_iff_eq] at hc
    rw [hsucc]
    rcases hc with hc | ⟨hc, _⟩ <;> omega
  · rename_i hc
    simp only [Bool.or_eq_true, decide_eq_true_eq, Bool.and_eq_true, beq_iff_eq, not_or, not_and] at hc
    omega

/-! ## digits -/

theorem dch_val : ∀ d : Fin 10, (dch d.val).toNat - 48 = d.val := by decide

theorem digitsVal_snoc (ds : Bytes) (c : UInt8) : digitsVal (ds ++ [c]) = digitsVal ds * 10 + (c.toNat - 48) := by
  unfold digitsVal; rw [List.foldl_append]; rfl

/-- `%d` is read back by digit accumulation -/
theorem digitsVal_natDec (n : Nat) : digitsVal (natDec n) = n := by
  induction n using Nat.strongRecOn with
  | _ n ih =>
    have e := natDec_eq n
    by_cases hlt : n < 10
    · rw [if_pos hlt] at e; rw [e]
      have := dch_val ⟨n, hlt⟩
      simp only [digitsVal, List.foldl_cons, List.foldl_nil, Nat.zero_mul, Nat.zero_add]
      exact this
    · rw [if_neg hlt] at e; rw [e, digitsVal_snoc, ih (n / 10) (by omega)]
      have := dch_val ⟨n % 10, Nat.mod_lt _ (by decide)⟩
      simp only at this
      rw [this]; omega

theorem digitsVal_zeros (k : Nat) (ds : Bytes) : digitsVal (List.replicate k 48 ++ ds) = digitsVal ds := by
  have h0 : ∀ k, List.foldl (fun a (c : UInt8) => a * 10 + (c.toNat - 48)) 0 (List.replicate k 48) = 0 := by
    intro k
    induction k with
    | zero => rfl
    | succ k ih => rw [List.replicate_succ, List.foldl_cons]; exact ih
  unfold digitsVal
  rw [List.foldl_append, h0]

/-- a number below `10^(p+1)` has at most `p+1` digits -/
theorem natDec_length_le (p : Nat) : ∀ n, n < 10 ^ (p + 1) → (natDec n).length ≤ p + 1 := by
  induction p with
  | zero =>
    intro n hn
    have hlt : n < 10 := by simpa using hn
    rw [natDec_eq n, if_pos hlt]; simp
  | succ p ih =>
    intro n hn
    by_cases hlt : n < 10
    · rw [natDec_eq n, if_pos hlt]; simp
    · rw [natDec_eq n, if_neg hlt, List.length_append]
      have h10 : n / 10 < 10 ^ (p + 1) := by
        apply Nat.div_lt_of_lt_mul
        rw [Nat.pow_succ] at hn
        omega
      have := ih (n / 10) h10
      simp only [List.length_cons, List.length_nil]
      omega

theorem takeWhile_digits (ip rest : Bytes) (h : allDig ip) (hr : ∀ c, rest.head? = some c → isDigit c = false) :
    (ip ++ rest).takeWhile isDigit = ip ∧ (ip ++ rest).dropWhile isDigit = rest := by
  induction ip with
  | nil =>
    cases rest with
    | nil => exact ⟨rfl, rfl⟩
    | cons c t =>
      have := hr c rfl
      simp [this]
  | cons d t ih =>
    have hd := h d (by simp)
    have := ih (fun c hc => h c (by simp [hc]))
    simp only [List.cons_append, List.takeWhile, List.dropWhile, hd]
    exact ⟨by rw [this.1], this.2⟩

/-! ## an independent reading of the token -/

/-- `[-]ddd.dd` taken apart: sign, integer digits, fraction digits (what follows the character after the integer digits) -/
def decTok (t : Bytes) : Bool × Bytes × Bytes :=
  match t with
  | 45 :: r => (true, r.takeWhile isDigit, (r.dropWhile isDigit).drop 1)
  | _ => (false, t.takeWhile isDigit, (t.dropWhile isDigit).drop 1)

/-- the magnitude the token denotes, in units of `10^-(number of fraction digits)` -/
def decTokUnits (t : Bytes) : Nat := digitsVal (decTok t).2.1 * 10 ^ (decTok t).2.2.length + digitsVal (decTok t).2.2

theorem decTok_shape (neg : Bool) (ip fp : Bytes) (hip : ip ≠ []) (h1 : allDig ip) :
    decTok ((if neg then [45] else []) ++ (ip ++ 46 :: fp)) = (neg, ip, fp) := by
  have h46 : ∀ c, (46 :: fp).head? = some c → isDigit c = false := by
    intro c hc; simp at hc; subst hc; decide
  obtain ⟨a, b⟩ := takeWhile_digits ip (46 :: fp) h1 h46
  cases neg with
  | true =>
    simp only [if_true, List.cons_append, List.nil_append, decTok]
    rw [a, b]; rfl
  | false =>
    simp only [Bool.false_eq_true, if_false, List.nil_append]
    obtain ⟨d, ip', rfl⟩ : ∃ d ip', ip = d :: ip' := by
      cases ip with
      | nil => exact absurd rfl hip
      | cons d t => exact ⟨d, t, rfl⟩
    have hd := (digit_facts d (h1 d (by simp))).2.2.2.2.1
    unfold decTok
    split
    · rename_i r heq
      simp only [List.cons_append, List.cons.injEq] at heq
      exact absurd heq.1 hd
    · rw [a, b]; rfl

/-- the fraction part `fmtFixed` prints has exactly `prec` digits, and the whole token reads back as `fixedQ` -/
theorem fmtFixed_read (neg : Bool) (mant : Nat) (e : Int) (prec : Nat) (hp : prec ≠ 0) :
    ∃ ip fp, fmtFixed neg mant e prec = (if neg then [45] else []) ++ (ip ++ 46 :: fp) ∧ ip ≠ [] ∧ allDig ip ∧ allDig fp ∧
      fp.length = prec ∧ decTok (fmtFixed neg mant e prec) = (neg, ip, fp) ∧
      decTokUnits (fmtFixed neg mant e prec) = fixedQ mant e prec := by
  have hp' : (prec == 0) = false := by simpa using hp
  obtain ⟨p, rfl⟩ : ∃ p, prec = p + 1 := ⟨prec - 1, by omega⟩
  have hpos : 0 < 10 ^ (p + 1) := Nat.pow_pos (by decide)
  have hlen := natDec_length_le p (fixedQ mant e (p + 1) % 10 ^ (p + 1)) (Nat.mod_lt _ hpos)
  have hfp : allDig (List.replicate (p + 1 - (natDec (fixedQ mant e (p + 1) % 10 ^ (p + 1))).length) 48
      ++ natDec (fixedQ mant e (p + 1) % 10 ^ (p + 1))) := by
    intro c hc
    rcases List.mem_append.mp hc with h | h
    · rw [(List.mem_replicate.mp h).2]; decide
    · exact natDec_allDig _ c h
  have hl : (List.replicate (p + 1 - (natDec (fixedQ mant e (p + 1) % 10 ^ (p + 1))).length) 48
      ++ natDec (fixedQ mant e (p + 1) % 10 ^ (p + 1))).length = p + 1 := by
    rw [List.length_append, List.length_replicate]; omega
  have heq := fmtFixed_eq neg mant e (p + 1)
  rw [hp'] at heq
  simp only [Bool.false_eq_true, if_false, List.append_assoc] at heq
  have hdt := decTok_shape neg _ (List.replicate (p + 1 - (natDec (fixedQ mant e (p + 1) % 10 ^ (p + 1))).length) 48
      ++ natDec (fixedQ mant e (p + 1) % 10 ^ (p + 1))) (natDec_ne_nil (fixedQ mant e (p + 1) / 10 ^ (p + 1))) (natDec_allDig _)
  rw [← heq] at hdt
  refine ⟨_, _, heq, natDec_ne_nil _, natDec_allDig _, hfp, hl, hdt, ?_⟩
  unfold decTokUnits
  rw [hdt]
  simp only [hl, digitsVal_natDec, digitsVal_zeros]
  exact Nat.div_add_mod' _ _

/-! ## weights: `printf("%.2f", msa->wgt[i])` -/

/-- the value of a finite binary64 pattern is `± f64Mant * 2 ^ f64Exp` -/
def f64Mant (b : UInt64) : Nat := if (b.toNat / 2 ^ 52) % 2048 == 0 then b.toNat % 2 ^ 52 else b.toNat % 2 ^ 52 + 2 ^ 52
def f64Exp (b : UInt64) : Int := if (b.toNat / 2 ^ 52) % 2048 == 0 then -1074 else Int.ofNat ((b.toNat / 2 ^ 52) % 2048) - 1075
def f64Neg (b : UInt64) : Bool := b.toNat / 2 ^ 63 == 1

theorem fmtF2_fixed (b : UInt64) (h : finiteF64 b) : fmtF2 b = fmtFixed (f64Neg b) (f64Mant b) (f64Exp b) 2 := by
  have h' : ((b.toNat / 2 ^ 52) % 2048 == 2047) = false := by simpa [finiteF64] using h
  unfold fmtF2 f64Neg f64Mant f64Exp
  simp only [h', Bool.false_eq_true, if_false]
  split <;> rfl

/-- **every finite weight prints as a well-formed token**: `[-]d…d.dd`, two fraction digits, accepted by `esl_mem_IsReal`, one
    blank-free token -/
theorem fmtF2_wellformed (b : UInt64) (h : finiteF64 b) :
    ∃ ip fp, fmtF2 b = (if f64Neg b then [45] else []) ++ (ip ++ 46 :: fp) ∧ ip ≠ [] ∧ allDig ip ∧ allDig fp ∧ fp.length = 2 ∧
      RealTok (fmtF2 b) := by
  obtain ⟨ip, fp, he, h1, h2, h3, h4, _, _⟩ := fmtFixed_read (f64Neg b) (f64Mant b) (f64Exp b) 2 (by decide)
  rw [fmtF2_fixed b h]
  refine ⟨ip, fp, he, h1, h2, h3, h4, ?_⟩
  rw [he]
  exact realTok_of_shape _ ip fp (by cases f64Neg b <;> simp) h1 h2 h3

/-- **the value a weight token denotes**: sign = the sign bit; magnitude = `fixedQ` hundredths, i.e. (`fixedQ_exact`,
    `fixedQ_half_unit`) the weight rounded to two decimals, ties to even -/
theorem fmtF2_value (b : UInt64) (h : finiteF64 b) :
    (decTok (fmtF2 b)).1 = f64Neg b ∧ (decTok (fmtF2 b)).2.2.length = 2 ∧ decTokUnits (fmtF2 b) = fixedQ (f64Mant b) (f64Exp b) 2 := by
  obtain ⟨ip, fp, _, _, _, _, h4, h5, h6⟩ := fmtFixed_read (f64Neg b) (f64Mant b) (f64Exp b) 2 (by decide)
  rw [fmtF2_fixed b h, h5]
  exact ⟨rfl, h4, h6⟩

/-- 1.0 → `1.00` = 100 hundredths; 0.125 → `0.12` (tie to even); 2.675 (binary: just below) → `2.67`; -0.0 → `-0.00` -/
example : fmtF2 0x3ff0000000000000 = str "1.00" ∧ decTokUnits (fmtF2 0x3ff0000000000000) = 100 := by decide +kernel
example : fmtF2 0x3fc0000000000000 = str "0.12" ∧ decTokUnits (fmtF2 0x3fc0000000000000) = 12 := by decide +kernel
example : fmtF2 0x4005666666666666 = str "2.67" := by decide +kernel
example : fmtF2 0x8000000000000000 = str "-0.00" ∧ (decTok (fmtF2 0x8000000000000000)).1 = true := by decide +kernel
example : finiteF64 0x3fc0000000000000 := by unfold finiteF64; decide

/-! ## cut-offs: `printf("%.1f", msa->cutoff[i])` -/

def f32Mant (b : UInt32) : Nat := if (b.toNat / 2 ^ 23) % 256 == 0 then b.toNat % 2 ^ 23 else b.toNat % 2 ^ 23 + 2 ^ 23
def f32Exp (b : UInt32) : Int := if (b.toNat / 2 ^ 23) % 256 == 0 then -149 else Int.ofNat ((b.toNat / 2 ^ 23) % 256) - 150
def f32Neg (b : UInt32) : Bool := b.toNat / 2 ^ 31 == 1

theorem fmtF1_fixed (b : UInt32) (h : finiteF32 b) : fmtF1 b = fmtFixed (f32Neg b) (f32Mant b) (f32Exp b) 1 := by
  have h' : ((b.toNat / 2 ^ 23) % 256 == 255) = false := by simpa [finiteF32] using h
  unfold fmtF1 f32Neg f32Mant f32Exp
  simp only [h', Bool.false_eq_true, if_false]
  split <;> rfl

/-- **every finite cut-off prints as a well-formed token** with exactly one fraction digit -/
theorem fmtF1_wellformed (b : UInt32) (h : finiteF32 b) :
    ∃ ip fp, fmtF1 b = (if f32Neg b then [45] else []) ++ (ip ++ 46 :: fp) ∧ ip ≠ [] ∧ allDig ip ∧ allDig fp ∧ fp.length = 1 ∧
      RealTok (fmtF1 b) := by
  obtain ⟨ip, fp, he, h1, h2, h3, h4, _, _⟩ := fmtFixed_read (f32Neg b) (f32Mant b) (f32Exp b) 1 (by decide)
  rw [fmtF1_fixed b h]
  refine ⟨ip, fp, he, h1, h2, h3, h4, ?_⟩
  rw [he]
  exact realTok_of_shape _ ip fp (by cases f32Neg b <;> simp) h1 h2 h3

/-- **the value a cut-off token denotes**: `fixedQ` tenths with the sign bit -/
theorem fmtF1_value (b : UInt32) (h : finiteF32 b) :
    (decTok (fmtF1 b)).1 = f32Neg b ∧ (decTok (fmtF1 b)).2.2.length = 1 ∧ decTokUnits (fmtF1 b) = fixedQ (f32Mant b) (f32Exp b) 1 := by
  obtain ⟨ip, fp, _, _, _, _, h4, h5, h6⟩ := fmtFixed_read (f32Neg b) (f32Mant b) (f32Exp b) 1 (by decide)
  rw [fmtF1_fixed b h, h5]
  exact ⟨rfl, h4, h6⟩

/-- 25.0 → `25.0`; 0.25 → `0.2` (tie to even); -1.5 → `-1.5` -/
example : fmtF1 0x41c80000 = str "25.0" ∧ decTokUnits (fmtF1 0x41c80000) = 250 := by decide +kernel
example : fmtF1 0x3e800000 = str "0.2" ∧ decTokUnits (fmtF1 0x3e800000) = 2 := by decide +kernel
example : fmtF1 0xbfc00000 = str "-1.5" ∧ (decTok (fmtF1 0xbfc00000)).1 = true := by decide +kernel

/-! ## token round trip: what the reader's tokenizer hands to `esl_memtod` is what `printf` produced -/

/-- the line `#=GS <name> WT <tok>` comes apart, under the three `esl_memtok` calls of `stockholm_parse_gs`, into `#=GS`, the
    sequence name and `WT`, leaving exactly the value text -/
theorem wt_line_tokens (m : Msa) (i : Nat) (v : Bytes) (hn : nameOk (m.names.getD i [])) (hv : nameOk v) :
    ∃ p1 p2, memtok (gsLine m 0 i v) blankTab = some (bGS, p1) ∧ memtok p1 blankTab = some (m.names.getD i [], p2) ∧
      memtok p2 blankTab = some (bWT, v) ∧ memtok v blankTab = some (v, []) := by
  obtain ⟨sp, he, hsp⟩ := gsline_shape m 0 i v
  have hgs : nameOk bGS := by unfold nameOk; decide +kernel
  have hwt : nameOk bWT := by unfold nameOk; decide +kernel
  have h32 : SpOk [32] := ⟨by simp, by simp⟩
  have hhead_v := nameOk_head v hv
  have hhead_wt : ∀ c, (bWT ++ [32] ++ v).head? = some c → inDelim blankTab c = false := by
    intro c hc
    have : c = 87 := by simpa [bWT] using hc.symm
    subst this; decide
  have hhead_nm : ∀ c, (m.names.getD i [] ++ sp ++ (bWT ++ [32] ++ v)).head? = some c → inDelim blankTab c = false := by
    intro c hc
    obtain ⟨d, t, hd⟩ : ∃ d t, m.names.getD i [] = d :: t := by
      cases hx : m.names.getD i [] with
      | nil => exact absurd hx hn.1
      | cons d t => exact ⟨d, t, rfl⟩
    rw [hd] at hc
    simp at hc
    subst hc
    exact hn.2 d (by rw [hd]; simp)
  refine ⟨m.names.getD i [] ++ sp ++ (bWT ++ [32] ++ v), bWT ++ [32] ++ v, ?_, ?_, ?_, memtok_name v hv⟩
  · rw [he, show gsTagOf m 0 = bWT from rfl]
    have := memtok_tok bGS [32] (m.names.getD i [] ++ sp ++ (bWT ++ [32] ++ v)) hgs h32 hhead_nm
    simpa [List.append_assoc] using this
  · exact memtok_tok (m.names.getD i []) sp (bWT ++ [32] ++ v) hn hsp hhead_wt
  · exact memtok_tok bWT [32] v hwt h32 hhead_v

/-- **token round trip for weights**: for every finite weight, the text the reader passes to `esl_memtod` for sequence `i` is,
    byte for byte, the token `printf("%.2f")` printed, and `esl_mem_IsReal` accepts it -/
theorem wt_line_weight_token (m : Msa) (i : Nat) (hn : nameOk (m.names.getD i [])) (hf : finiteF64 ((m.wgt.getD i Wgt.unset).toBits)) :
    ∃ p1 p2, memtok (gsLine m 0 i (wtTok m i)) blankTab = some (bGS, p1) ∧ memtok p1 blankTab = some (m.names.getD i [], p2) ∧
      memtok p2 blankTab = some (bWT, wtTok m i) ∧ memtok (wtTok m i) blankTab = some (wtTok m i, []) ∧
      memIsReal (wtTok m i) = true := by
  obtain ⟨_, _, _, _, _, _, _, hr⟩ := fmtF2_wellformed _ hf
  obtain ⟨p1, p2, a, b, c, d⟩ := wt_line_tokens m i (wtTok m i) hn hr.name
  exact ⟨p1, p2, a, b, c, d, hr.real⟩

/-! ## which weights the round trip carries: `wgtTokOk (fmtF2 b)` exactly -/

theorem digit_not_x : ∀ c : UInt8, isDigit c = true → c ≠ 120 ∧ c ≠ 88 ∧ isSpace c = false := by
  intro c h
  have h1 : (List.range 256).all (fun n => let c := UInt8.ofNat n; !isDigit c || (c != 120 && c != 88 && !isSpace c)) = true := by decide +kernel
  have := (List.all_eq_true.mp h1) c.toNat (List.mem_range.mpr c.toNat_lt)
  simp only [UInt8.ofNat_toNat, h, Bool.not_true, Bool.false_or, Bool.and_eq_true, bne_iff_ne, ne_eq, Bool.not_eq_true'] at this
  exact ⟨this.1.1, this.1.2, this.2⟩

/-- the decimal branch of `strtod(tok) == -1.0` on `-<ip>.<fp>` -/
def decMinusOne (ip fp : Bytes) : Bool :=
  roundsToOne (digitsVal (ip ++ fp)) 10 (0 - Int.ofNat fp.length) (Nat.toDigits 10 (digitsVal (ip ++ fp))).length

theorem strtodIsMinusOne_neg (ip fp : Bytes) (hip : ip ≠ []) (h1 : allDig ip) (h2 : allDig fp) :
    strtodIsMinusOne (45 :: (ip ++ 46 :: fp)) = decMinusOne ip fp := by
  obtain ⟨d, ip', rfl⟩ : ∃ d ip', ip = d :: ip' := by
    cases ip with
    | nil => exact absurd rfl hip
    | cons d t => exact ⟨d, t, rfl⟩
  have h46 : ∀ c, (46 :: fp).head? = some c → isDigit c = false := by
    intro c hc; simp at hc; subst hc; decide
  obtain ⟨a, b⟩ := takeWhile_digits (d :: ip') (46 :: fp) h1 h46
  obtain ⟨a2, b2⟩ := takeWhile_digits fp [] h2 (fun c hc => by simp at hc)
  rw [List.append_nil] at a2 b2
  unfold strtodIsMinusOne
  simp only [List.dropWhile, show isSpace 45 = false by decide]
  split
  · rename_i x r heq
    have hx : (x == 120 || x == 88) = false := by
      cases ip' with
      | nil =>
        simp only [List.cons_append, List.nil_append, List.cons.injEq] at heq
        rw [← heq.2.1]; decide
      | cons d2 t =>
        simp only [List.cons_append, List.cons.injEq] at heq
        have := digit_not_x d2 (h1 d2 (by simp))
        rw [← heq.2.1]
        simp [this.1, this.2.1]
    simp only [hx, Bool.false_and, Bool.false_eq_true, if_false, a, b, a2, b2, List.isEmpty_cons]
    unfold decMinusOne
    simp [parseExp]
  · simp only [a, b, a2, b2, List.isEmpty_cons, Bool.false_and, Bool.false_eq_true, if_false]
    unfold decMinusOne
    simp [parseExp]

theorem digitsVal_foldl (fp : Bytes) : ∀ a : Nat,
    List.foldl (fun a (c : UInt8) => a * 10 + (c.toNat - 48)) a fp = a * 10 ^ fp.length + digitsVal fp := by
  induction fp with
  | nil => intro a; simp [digitsVal]
  | cons c t ih =>
    intro a
    unfold digitsVal
    rw [List.foldl_cons, List.foldl_cons, ih, ih (0 * 10 + (c.toNat - 48)), List.length_cons, Nat.pow_succ, Nat.add_mul,
      Nat.mul_assoc, Nat.mul_comm 10 (10 ^ t.length)]
    simp only [Nat.zero_mul, Nat.zero_add, Nat.add_assoc]

theorem digitsVal_append (ip fp : Bytes) : digitsVal (ip ++ fp) = digitsVal ip * 10 ^ fp.length + digitsVal fp := by
  show List.foldl _ 0 (ip ++ fp) = _
  rw [List.foldl_append, digitsVal_foldl]
  rfl

/-- hundredths: `-m/100` is read as -1.0 exactly when `m = 100` -/
theorem roundsToOne_hundredths (m s : Nat) : roundsToOne m 10 (0 - Int.ofNat 2) s = true → m = 100 := by
  unfold roundsToOne
  intro h
  by_cases h0 : (m == 0) = true
  · simp [h0] at h
  · simp only [h0, Bool.false_eq_true, if_false] at h
    have hneg : ¬ ((0 : Int) - Int.ofNat 2 ≥ 0) := by decide
    simp only [hneg, if_false] at h
    have hk : (-((0 : Int) - Int.ofNat 2)).toNat = 2 := by decide
    simp only [hk] at h
    split at h
    · cases h
    · simp only [Bool.and_eq_true, decide_eq_true_eq] at h
      omega

theorem roundsToOne_100 : roundsToOne 100 10 (0 - Int.ofNat 2) (Nat.toDigits 10 100).length = true := by decide +kernel

/-- **which finite weights the Stockholm round trip can carry: all of them except those that print as `-1.00`** (the reader takes
    -1.0 for "no weight given") -/
theorem wgtTokOk_iff (b : UInt64) (h : finiteF64 b) :
    wgtTokOk (fmtF2 b) ↔ ¬ (f64Neg b = true ∧ fixedQ (f64Mant b) (f64Exp b) 2 = 100) := by
  obtain ⟨ip, fp, he, h1, h2, h3, h4, h5, h6⟩ := fmtFixed_read (f64Neg b) (f64Mant b) (f64Exp b) 2 (by decide)
  have hq : digitsVal (ip ++ fp) = fixedQ (f64Mant b) (f64Exp b) 2 := by
    unfold decTokUnits at h6
    rw [h5] at h6
    rw [digitsVal_append]; exact h6
  rw [fmtF2_fixed b h]
  have hr : RealTok (fmtFixed (f64Neg b) (f64Mant b) (f64Exp b) 2) := by
    rw [he]; exact realTok_of_shape _ ip fp (by cases f64Neg b <;> simp) h1 h2 h3
  have hcore : strtodIsMinusOne (fmtFixed (f64Neg b) (f64Mant b) (f64Exp b) 2) = false ↔
      ¬ (f64Neg b = true ∧ fixedQ (f64Mant b) (f64Exp b) 2 = 100) := by
    rw [he]
    cases hn : f64Neg b with
    | false =>
      simp only [Bool.false_eq_true, if_false, List.nil_append, false_and, not_false_eq_true, iff_true]
      obtain ⟨d, ip', rfl⟩ : ∃ d ip', ip = d :: ip' := by
        cases ip with
        | nil => exact absurd rfl h1
        | cons d t => exact ⟨d, t, rfl⟩
      have hd := digit_facts d (h2 d (by simp))
      unfold strtodIsMinusOne
      have hdw : (d :: ip' ++ 46 :: fp).dropWhile isSpace = d :: ip' ++ 46 :: fp := by simp [hd.2.2.2.1]
      rw [hdw]
      split
      · rename_i p heq
        simp only [List.cons_append, List.cons.injEq] at heq
        exact absurd heq.1 hd.2.2.2.2.1
      · rfl
    | true =>
      simp only [if_true, List.cons_append, List.nil_append, true_and]
      rw [strtodIsMinusOne_neg ip fp h1 h2 h3]
      unfold decMinusOne
      rw [hq, h4]
      constructor
      · intro hf he100
        rw [he100, roundsToOne_100] at hf; cases hf
      · intro hne
        cases hx : roundsToOne (fixedQ (f64Mant b) (f64Exp b) 2) 10 (0 - Int.ofNat 2)
            (Nat.toDigits 10 (fixedQ (f64Mant b) (f64Exp b) 2)).length with
        | false => rfl
        | true => exact absurd (roundsToOne_hundredths _ _ hx) hne
  unfold wgtTokOk
  constructor
  · intro hw; exact hcore.mp hw.2.2.2.2
  · intro hne; exact ⟨hr.name, hr.real, hr.nolf, hr.nocr, hcore.mpr hne⟩

/-- -1.0 itself, and -0.996 (prints as `-1.00`), are the excluded weights; -1.01 and -0.99 are carried -/
example : ¬ wgtTokOk (fmtF2 0xbff0000000000000) := by
  rw [wgtTokOk_iff _ (by unfold finiteF64; decide)]; decide +kernel
example : wgtTokOk (fmtF2 0xbff028f5c28f5c29) ∧ fmtF2 0xbff028f5c28f5c29 = str "-1.01" := by
  refine ⟨?_, by decide +kernel⟩
  rw [wgtTokOk_iff _ (by unfold finiteF64; decide)]; decide +kernel

/-- **token round trip for cut-offs**: the value text of a two-threshold `#=GF GA|NC|TC` line, `<tok1> <tok2>`, comes apart under
    `esl_memtok` into exactly the two tokens `printf("%.1f")` produced, and `esl_mem_IsReal` accepts both -/
theorem cutoff_value_tokens (a b : UInt32) (ha : finiteF32 a) (hb : finiteF32 b) :
    memtok (fmtF1 a ++ [32] ++ fmtF1 b) blankTab = some (fmtF1 a, fmtF1 b) ∧ memtok (fmtF1 b) blankTab = some (fmtF1 b, []) ∧
      memIsReal (fmtF1 a) = true ∧ memIsReal (fmtF1 b) = true := by
  have ra := fmtF1_realTok a ha
  have rb := fmtF1_realTok b hb
  exact ⟨memtok_tok (fmtF1 a) [32] (fmtF1 b) ra.name ⟨by simp, by simp⟩ (nameOk_head _ rb.name), memtok_name _ rb.name, ra.real, rb.real⟩

end EaselModel.Msafile
