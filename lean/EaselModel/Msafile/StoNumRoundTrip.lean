import EaselModel.Msafile.StoNum
import EaselModel.Msafile.StoTokens
/-! # Numeric round trip of Stockholm weights and cut-offs (C03, round 6b)

`StoNum.lean` (C01) models `strtod` exactly (`strtodBits`: correctly rounded, integer arithmetic) and `esl_memtof`
(`strtofBits = f64ToF32 ∘ strtodBits`).  `WriteFmt.lean` models `printf("%.2f" / "%.1f")` exactly (`fmtF2`, `fmtF1`).  Composed, for
EVERY finite weight / cut-off (negative, zero, subnormal included):

* `strtodBits_fmtF2`: the double the reader stores for the printed weight token is the sign bit of the weight plus
  `dec64 q (-2)`, `q = fixedQ mant e 2` the printed hundredths (`StoTokens.lean`: within half a hundredth of |w|·100);
* `dec64_hundredths`: that is `round64 q 100` - THE binary64 number nearest to `q / 100` (ties to even) - or 0 when `q = 0`;
* `weight_value_roundtrip_iff`: the weight comes back bit for bit exactly when it IS the binary64 number nearest to the
  two-decimal number it prints as;
* `strtofBits_fmtF1`: the same for cut-offs, `(float) strtod`: `f64ToF32 (sign + dec64 q (-1))`, `q` the printed tenths. -/
namespace EaselModel.Msafile

set_option exponentiation.threshold 2000

theorem digit_lower : ∀ c : UInt8, isDigit c = true → lowerC c ≠ 105 ∧ lowerC c ≠ 110 ∧ c ≠ 45 ∧ c ≠ 43 := by
  intro c h
  have h1 : (List.range 256).all (fun n => let c := UInt8.ofNat n; !isDigit c || (lowerC c != 105 && lowerC c != 110 && c != 45 && c != 43)) = true := by
    decide +kernel
  have := (List.all_eq_true.mp h1) c.toNat (List.mem_range.mpr c.toNat_lt)
  simp only [UInt8.ofNat_toNat, h, Bool.not_true, Bool.false_or, Bool.and_eq_true, bne_iff_ne, ne_eq] at this
  exact ⟨this.1.1.1, this.1.1.2, this.1.2, this.2⟩

/-- **`strtod` of a fixed-point token** `[-]<ip>.<fp>` (digits, `ip` not empty): sign bit + `dec64 (digits) (-|fp|)` -/
theorem strtodBits_fixed (neg : Bool) (ip fp : Bytes) (hip : ip ≠ []) (h1 : allDig ip) (h2 : allDig fp) :
    strtodBits ((if neg then [45] else []) ++ (ip ++ 46 :: fp))
      = UInt64.ofNat ((if neg then 2 ^ 63 else 0) + dec64 (digitsVal (ip ++ fp)) (0 - Int.ofNat fp.length)) := by
  obtain ⟨d, ip', rfl⟩ : ∃ d ip', ip = d :: ip' := by
    cases ip with
    | nil => exact absurd rfl hip
    | cons d t => exact ⟨d, t, rfl⟩
  have hd := digit_lower d (h1 d (by simp))
  have hsp := (digit_not_x d (h1 d (by simp))).2.2
  have h46 : ∀ c, (46 :: fp).head? = some c → isDigit c = false := by
    intro c hc; simp at hc; subst hc; decide
  obtain ⟨a, b⟩ := takeWhile_digits (d :: ip') (46 :: fp) h1 h46
  obtain ⟨a2, b2⟩ := takeWhile_digits fp [] h2 (fun c hc => by simp at hc)
  rw [List.append_nil] at a2 b2
  cases neg with
  | true =>
    simp only [if_true, List.cons_append, List.nil_append]
    unfold strtodBits
    have hdw : (45 :: (d :: ip' ++ 46 :: fp)).dropWhile isSpace = 45 :: (d :: ip' ++ 46 :: fp) := by
      rw [List.dropWhile_cons_of_neg (by decide)]
    rw [show (45 : UInt8) :: d :: (ip' ++ 46 :: fp) = 45 :: (d :: ip' ++ 46 :: fp) from rfl, hdw]
    simp only []
    have hp3a : (((d :: ip' ++ 46 :: fp).take 3).map lowerC == [105, 110, 102]) = false := by simp [hd.1]
    have hp3b : (((d :: ip' ++ 46 :: fp).take 3).map lowerC == [110, 97, 110]) = false := by simp [hd.2.1]
    simp only [hp3a, hp3b, Bool.false_eq_true, if_false]
    split
    · rename_i x r heq
      have hx : (x == 120 || x == 88) = false := by
        cases ip' with
        | nil =>
          simp only [List.cons_append, List.nil_append, List.cons.injEq] at heq
          rw [← heq.2.1]; decide
        | cons d2 t =>
          simp only [List.cons_append, List.cons.injEq] at heq
          have := digit_not_x d2 (h1 d2 (by simp))
          rw [← heq.2.1]
          simp [this.1, this.2.1]
      simp only [hx, Bool.false_and, Bool.false_eq_true, if_false, a, b, a2, b2, List.isEmpty_cons]
      simp [parseExp]
    · simp only [a, b, a2, b2, List.isEmpty_cons, Bool.false_and, Bool.false_eq_true, if_false]
      simp [parseExp]
  | false =>
    simp only [Bool.false_eq_true, if_false, List.nil_append]
    unfold strtodBits
    have hdw : (d :: ip' ++ 46 :: fp).dropWhile isSpace = d :: ip' ++ 46 :: fp := by simp [hsp]
    rw [hdw]
    simp only []
    split
    · rename_i r heq
      simp only [List.cons_append, List.cons.injEq] at heq
      exact absurd heq.1 hd.2.2.1
    · rename_i r heq
      simp only [List.cons_append, List.cons.injEq] at heq
      exact absurd heq.1 hd.2.2.2
    simp only []
    have hp3a : (((d :: ip' ++ 46 :: fp).take 3).map lowerC == [105, 110, 102]) = false := by simp [hd.1]
    have hp3b : (((d :: ip' ++ 46 :: fp).take 3).map lowerC == [110, 97, 110]) = false := by simp [hd.2.1]
    simp only [hp3a, hp3b, Bool.false_eq_true, if_false]
    split
    · rename_i x r heq
      have hx : (x == 120 || x == 88) = false := by
        cases ip' with
        | nil =>
          simp only [List.cons_append, List.nil_append, List.cons.injEq] at heq
          rw [← heq.2.1]; decide
        | cons d2 t =>
          simp only [List.cons_append, List.cons.injEq] at heq
          have := digit_not_x d2 (h1 d2 (by simp))
          rw [← heq.2.1]
          simp [this.1, this.2.1]
      simp only [hx, Bool.false_and, Bool.false_eq_true, if_false, a, b, a2, b2, List.isEmpty_cons]
      simp [parseExp]
    · simp only [a, b, a2, b2, List.isEmpty_cons, Bool.false_and, Bool.false_eq_true, if_false]
      simp [parseExp]

/-! ## `dec64` on a value with `k` decimals -/

theorem toDigits_length_le (q : Nat) (h : q < 10 ^ 311) : (Nat.toDigits 10 q).length ≤ 311 := by
  have := natDec_length_le 310 q h
  unfold natDec at this
  rwa [List.length_map] at this

/-- `q · 10^-k` (1 ≤ k ≤ 327, q < 10^311): zero, or THE binary64 number nearest to `q / 10^k` (`round64`: ties to even) -/
theorem dec64_decimals (q k : Nat) (hq : q < 10 ^ 311) (hk1 : 1 ≤ k) (hk : k ≤ 327) :
    dec64 q (0 - Int.ofNat k) = if q = 0 then 0 else round64 q (10 ^ k) := by
  unfold dec64
  by_cases h0 : q = 0
  · simp [h0]
  · have h0' : (q == 0) = false := by simpa using h0
    have hd := toDigits_length_le q hq
    simp only [h0', Bool.false_eq_true, if_false, h0]
    have hx : (0 : Int) - Int.ofNat k = -(k : Int) := by simp
    rw [hx]
    generalize (Nat.toDigits 10 q).length = L at hd ⊢
    have c1 : ¬ (Int.ofNat L + -(k : Int) > 311) := by
      have : Int.ofNat L ≤ Int.ofNat 311 := Int.ofNat_le.mpr hd
      have e : Int.ofNat 311 = (311 : Int) := rfl
      omega
    have c2 : ¬ (Int.ofNat L + -(k : Int) < -327) := by
      have : (0 : Int) ≤ Int.ofNat L := Int.natCast_nonneg _
      omega
    have c3 : ¬ (-(k : Int) ≥ 0) := by omega
    simp only [c1, c2, c3, if_false]
    have : (- -(k : Int)).toNat = k := by simp
    rw [this]

/-! ## weights -/

theorem f64Mant_lt (b : UInt64) : f64Mant b < 2 ^ 53 := by
  unfold f64Mant
  have : b.toNat % 2 ^ 52 < 2 ^ 52 := Nat.mod_lt _ (by decide)
  split <;> omega

theorem f64Exp_le (b : UInt64) (h : finiteF64 b) : f64Exp b ≤ 971 := by
  unfold f64Exp
  unfold finiteF64 at h
  have : (b.toNat / 2 ^ 52) % 2048 < 2048 := Nat.mod_lt _ (by decide)
  split
  · omega
  · have h2 : ((b.toNat / 2 ^ 52) % 2048 : Nat) ≤ 2046 := by omega
    generalize (b.toNat / 2 ^ 52) % 2048 = X at h2 ⊢
    have : Int.ofNat X ≤ Int.ofNat 2046 := Int.ofNat_le.mpr h2
    have e : Int.ofNat 2046 = (2046 : Int) := rfl
    omega

/-- the printed integer of a value `mant · 2^e` with `mant < 2^53`, `e ≤ 971` has at most 311 digits -/
theorem fixedQ_lt (mant : Nat) (e : Int) (prec : Nat) (hm : mant < 2 ^ 53) (he : e ≤ 971) (hp : prec ≤ 2) :
    fixedQ mant e prec < 10 ^ 311 := by
  have hp10 : 10 ^ prec ≤ 100 := by
    have : 10 ^ prec ≤ 10 ^ 2 := Nat.pow_le_pow_right (by decide) hp
    simpa using this
  have hnum : mant * 10 ^ prec ≤ 2 ^ 53 * 100 := Nat.mul_le_mul (Nat.le_of_lt hm) hp10
  by_cases h0 : 0 ≤ e
  · rw [fixedQ_exact mant e prec h0]
    have h2 : 2 ^ e.toNat ≤ 2 ^ 971 := Nat.pow_le_pow_right (by decide) (by omega)
    have : mant * 10 ^ prec * 2 ^ e.toNat ≤ 2 ^ 53 * 100 * 2 ^ 971 := Nat.mul_le_mul hnum h2
    have hb : 2 ^ 53 * 100 * 2 ^ 971 < 10 ^ 311 := by decide +kernel
    omega
  · have hne : ¬ (e ≥ 0) := by omega
    unfold fixedQ
    rw [if_neg hne]
    have hdiv : mant * 10 ^ prec / 2 ^ (-e).toNat ≤ mant * 10 ^ prec := Nat.div_le_self _ _
    have hb : 2 ^ 53 * 100 + 1 < 10 ^ 311 := by decide +kernel
    split <;> omega

/-- **the double the reader stores for the printed weight**: the sign bit of the weight, and the binary64 number nearest to the
    printed two-decimal value `q / 100` (zero for `q = 0`), `q = fixedQ (f64Mant b) (f64Exp b) 2` -/
theorem strtodBits_fmtF2 (b : UInt64) (h : finiteF64 b) :
    strtodBits (fmtF2 b) = UInt64.ofNat ((if f64Neg b then 2 ^ 63 else 0) +
      (if fixedQ (f64Mant b) (f64Exp b) 2 = 0 then 0 else round64 (fixedQ (f64Mant b) (f64Exp b) 2) 100)) := by
  obtain ⟨ip, fp, he, h1, h2, h3, h4, h5, h6⟩ := fmtFixed_read (f64Neg b) (f64Mant b) (f64Exp b) 2 (by decide)
  have hq : digitsVal (ip ++ fp) = fixedQ (f64Mant b) (f64Exp b) 2 := by
    unfold decTokUnits at h6
    rw [h5] at h6
    rw [digitsVal_append]; exact h6
  rw [fmtF2_fixed b h, he, strtodBits_fixed (f64Neg b) ip fp h1 h2 h3, hq, h4,
    dec64_decimals _ 2 (fixedQ_lt _ _ 2 (f64Mant_lt b) (f64Exp_le b h) (Nat.le_refl _)) (by decide) (by decide)]

/-- **numeric round trip of a weight**: it comes back bit for bit exactly when it IS the binary64 number nearest to the
    two-decimal number it prints as (with its sign; -0.0 and +0.0 included) -/
theorem weight_value_roundtrip_iff (b : UInt64) (h : finiteF64 b) :
    strtodBits (fmtF2 b) = b ↔
      b = UInt64.ofNat ((if f64Neg b then 2 ^ 63 else 0) +
        (if fixedQ (f64Mant b) (f64Exp b) 2 = 0 then 0 else round64 (fixedQ (f64Mant b) (f64Exp b) 2) 100)) := by
  rw [strtodBits_fmtF2 b h]
  exact eq_comm

/-- 1.5, 0.1, 2.67 (the nearest double to 2.67), -0.0 come back exactly; 0.125 comes back as 0.12, 2.675 as 2.67 -/
example : strtodBits (fmtF2 0x3ff8000000000000) = 0x3ff8000000000000 := by decide +kernel
example : strtodBits (fmtF2 0x3fb999999999999a) = 0x3fb999999999999a := by decide +kernel
example : strtodBits (fmtF2 0x8000000000000000) = 0x8000000000000000 := by decide +kernel
example : strtodBits (fmtF2 0x3fc0000000000000) = 0x3fbeb851eb851eb8 ∧ fmtF2 0x3fbeb851eb851eb8 = str "0.12" := by decide +kernel
example : strtodBits (fmtF2 0x4005666666666666) = 0x40055c28f5c28f5c ∧ fmtF2 0x40055c28f5c28f5c = str "2.67" := by decide +kernel

/-! ## cut-offs: `esl_memtof` = `(float) strtod` -/

theorem f32Mant_lt (b : UInt32) : f32Mant b < 2 ^ 53 := by
  unfold f32Mant
  have : b.toNat % 2 ^ 23 < 2 ^ 23 := Nat.mod_lt _ (by decide)
  split <;> omega

theorem f32Exp_le (b : UInt32) : f32Exp b ≤ 971 := by
  unfold f32Exp
  have : (b.toNat / 2 ^ 23) % 256 < 256 := Nat.mod_lt _ (by decide)
  split
  · omega
  · have h2 : ((b.toNat / 2 ^ 23) % 256 : Nat) ≤ 255 := by omega
    generalize (b.toNat / 2 ^ 23) % 256 = X at h2 ⊢
    have : Int.ofNat X ≤ Int.ofNat 255 := Int.ofNat_le.mpr h2
    have e : Int.ofNat 255 = (255 : Int) := rfl
    omega

/-- **the float the reader stores for the printed cut-off**: `(float)` of the binary64 number nearest to the printed one-decimal
    value `q / 10`, `q = fixedQ (f32Mant c) (f32Exp c) 1`, with the sign bit of the cut-off -/
theorem strtofBits_fmtF1 (c : UInt32) (h : finiteF32 c) :
    strtofBits (fmtF1 c) = f64ToF32 (UInt64.ofNat ((if f32Neg c then 2 ^ 63 else 0) +
      (if fixedQ (f32Mant c) (f32Exp c) 1 = 0 then 0 else round64 (fixedQ (f32Mant c) (f32Exp c) 1) 10))) := by
  obtain ⟨ip, fp, he, h1, h2, h3, h4, h5, h6⟩ := fmtFixed_read (f32Neg c) (f32Mant c) (f32Exp c) 1 (by decide)
  have hq : digitsVal (ip ++ fp) = fixedQ (f32Mant c) (f32Exp c) 1 := by
    unfold decTokUnits at h6
    rw [h5] at h6
    rw [digitsVal_append]; exact h6
  unfold strtofBits
  rw [fmtF1_fixed c h, he, strtodBits_fixed (f32Neg c) ip fp h1 h2 h3, hq, h4,
    dec64_decimals _ 1 (fixedQ_lt _ _ 1 (f32Mant_lt c) (f32Exp_le c) (by decide)) (by decide) (by decide)]

/-- 25.0, -1.5, 0.1f (prints `0.1`) come back exactly; 0.25 comes back as 0.2f -/
example : strtofBits (fmtF1 0x41c80000) = 0x41c80000 := by decide +kernel
example : strtofBits (fmtF1 0xbfc00000) = 0xbfc00000 := by decide +kernel
example : strtofBits (fmtF1 0x3dcccccd) = 0x3dcccccd := by decide +kernel
example : strtofBits (fmtF1 0x3e800000) = 0x3e4ccccd := by decide +kernel

/-! ## the recorder of C01's value-carrying reader on the written line -/

/-- **the value-carrying reader on the written weight line**: when the Stockholm reader accepts the line `#=GS <name> WT <tok>` that
    the writer printed for sequence `i` (state `st` → `st'`), the recorder of `stockholmReadV` (C01) appends, for the sequence the
    line spoke about, exactly `strtod` of the printed token - by `strtodBits_fmtF2` the binary64 number nearest to the printed
    two-decimal value -/
theorem numUpd_wt_line (ns : NumSt) (st st' : StoSt) (m : Msa) (i : Nat) (hl : st.lead = false)
    (hn : nameOk (m.names.getD i [])) (hf : finiteF64 ((m.wgt.getD i Wgt.unset).toBits)) :
    numUpd ns st st' (gsLine m 0 i (wtTok m i))
      = { ns with w := ns.w ++ [(st'.si - 1, strtodBits (fmtF2 ((m.wgt.getD i Wgt.unset).toBits)))] } := by
  obtain ⟨p1, p2, a, b, c, d, _⟩ := wt_line_weight_token m i hn hf
  obtain ⟨sp, he, _⟩ := gsline_shape m 0 i (wtTok m i)
  have hdw : (gsLine m 0 i (wtTok m i)).dropWhile (fun c => c == 32 || c == 9) = gsLine m 0 i (wtTok m i) := by
    rw [he]; simp [bGS]
  have hpfx : memstrpfx (gsLine m 0 i (wtTok m i)) bGS = true := by
    rw [he]; simp [memstrpfx, bGS, List.isPrefixOf]
  unfold numUpd
  simp only [hl, Bool.false_eq_true, if_false, hdw, hpfx, if_true, a, b, c, d, show memstrcmp bWT bWT = true from by decide]
  rfl

/-- **the value-carrying reader on the written cut-off values**: on the value text `<tok1> <tok2>` of a written `#=GF GA|NC|TC` line the
    recorder of `stockholmReadV` stores `(float) strtod` of exactly the two printed tokens in the two slots -/
theorem numCutoffs_written (ns : NumSt) (a b : UInt32) (i1 i2 : Nat) (u : Bool) (ha : finiteF32 a) (hb : finiteF32 b) :
    numCutoffs ns (fmtF1 a ++ [32] ++ fmtF1 b) i1 i2 u
      = { ns with cut := (ns.cut.set i1 (some (strtofBits (fmtF1 a)))).set i2 (some (strtofBits (fmtF1 b))) } := by
  obtain ⟨t1, t2, _, _⟩ := cutoff_value_tokens a b ha hb
  have ra := fmtF1_realTok a ha
  unfold numCutoffs
  simp only [t1, t2, ra.notundef, Bool.and_false, Bool.false_eq_true, if_false]

/-- … a single threshold -/
theorem numCutoffs_written_one (ns : NumSt) (a : UInt32) (i1 i2 : Nat) (u : Bool) (ha : finiteF32 a) :
    numCutoffs ns (fmtF1 a) i1 i2 u = { ns with cut := ns.cut.set i1 (some (strtofBits (fmtF1 a))) } := by
  have ra := fmtF1_realTok a ha
  unfold numCutoffs
  simp only [memtok_name _ ra.name, ra.notundef, Bool.and_false, Bool.false_eq_true, if_false]
  simp [memtok, List.dropWhile]

end EaselModel.Msafile
