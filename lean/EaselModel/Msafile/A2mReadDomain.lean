import EaselModel.Msafile.A2mLemmas
import EaselModel.Msafile.A2mInsIdem
/-! "Reformat stability", A2M: what `esl_msafile_a2m_Read` returns lies in the domain of the A2M round-trip theorems
    (`A2mInsTextWritable` / `A2mInsDigitalWritable`), except for one condition the reader does not guarantee: that no
    name/description line `>name desc` the writer will print ends in CR (a description can end in CR when the input line
    ended in CR CR LF, or holds a NUL after a CR). -/
namespace EaselModel.Msafile

/-! ## tokens of `esl_memtok` -/

theorem rd_dropWhile_head {α : Type} (p : α → Bool) : ∀ l : List α, l.dropWhile p = [] ∨ ∃ c t, l.dropWhile p = c :: t ∧ p c = false
  | [] => Or.inl rfl
  | a :: l => by
    cases h : p a with
    | true => simpa [List.dropWhile, h] using rd_dropWhile_head p l
    | false => exact Or.inr ⟨a, l, by simp [List.dropWhile, h], h⟩

theorem rd_mem_takeWhile {α : Type} (p : α → Bool) : ∀ (l : List α) (x : α), x ∈ l.takeWhile p → p x = true
  | [], _, h => by simp at h
  | a :: l, x, h => by
    cases ha : p a with
    | false => simp [List.takeWhile, ha] at h
    | true =>
      simp only [List.takeWhile, ha] at h
      rcases List.mem_cons.mp h with rfl | h
      · exact ha
      · exact rd_mem_takeWhile p l x h

/-- a token is not empty and holds no delimiter (blank, tab) and no NUL; what follows it is empty or starts with a
    character that is neither -/
theorem memtok_spec (p delim tok rest : Bytes) (h : memtok p delim = some (tok, rest)) :
    tok ≠ [] ∧ (∀ c ∈ tok, inDelim delim c = false) ∧ (rest = [] ∨ ∃ c t, rest = c :: t ∧ inDelim delim c = false) := by
  unfold memtok at h
  rcases rd_dropWhile_head (inDelim delim) p with h0 | ⟨c, t, h1, hc⟩
  · rw [h0] at h; simp at h
  · rw [h1] at h
    simp only [List.isEmpty_cons, Bool.false_eq_true, if_false, Option.some.injEq, Prod.mk.injEq] at h
    obtain ⟨ht, hr⟩ := h
    refine ⟨?_, ?_, ?_⟩
    · rw [← ht]; simp [List.takeWhile, hc]
    · intro x hx
      rw [← ht] at hx
      have := rd_mem_takeWhile _ _ _ hx
      simpa using this
    · rw [← hr]
      exact rd_dropWhile_head (inDelim delim) _

theorem nameOk_tok (p tok rest : Bytes) (h : memtok p blankTab = some (tok, rest)) : nameOk (cstr tok) := by
  obtain ⟨h1, h2, _⟩ := memtok_spec p blankTab tok rest h
  have hnz : ∀ c ∈ tok, c ≠ 0 := fun c hc h0 => by
    have := h2 c hc; subst h0; simp [inDelim] at this
  rw [cstr_id tok hnz]
  exact ⟨h1, h2⟩

theorem descOk_rest (p tok rest : Bytes) (h : memtok p blankTab = some (tok, rest)) (hne : rest.isEmpty = false) :
    descOk (cstr rest) := by
  obtain ⟨_, _, h3⟩ := memtok_spec p blankTab tok rest h
  rcases h3 with h3 | ⟨c, t, h3, hc⟩
  · rw [h3] at hne; simp at hne
  · have hc0 : c ≠ 0 := fun h0 => by subst h0; simp [inDelim] at hc
    have hc0' : (c != 0) = true := by simpa using hc0
    subst h3
    refine ⟨⟨c, t.takeWhile (· != 0), by simp [cstr, List.takeWhile, hc0'], hc⟩, ?_⟩
    intro x hx
    have := rd_mem_takeWhile _ _ _ hx
    simpa using this

/-! ## names and descriptions the readers store -/

/-- the names and descriptions stored so far survive a write -/
def NamesDescsOk (names : List Bytes) (sqdesc : OptRows) : Prop :=
  (∀ nm ∈ names, nameOk nm) ∧ ∀ i d, optAt sqdesc i = some d → descOk d

theorem namesDescsOk_init : NamesDescsOk [] none := ⟨fun _ h => by simp at h, fun i d h => by simp [optAt] at h⟩

theorem namesDescsOk_add (names : List Bytes) (sqdesc : OptRows) (idx : Nat) (p tok rest : Bytes)
    (h : NamesDescsOk names sqdesc) (hm : memtok p blankTab = some (tok, rest)) (sq' : OptRows)
    (hsq : sq' = sqdesc ∨ (rest.isEmpty = false ∧ sq' = setOptRow sqdesc idx (cstr rest))) :
    NamesDescsOk (names ++ [cstr tok]) sq' := by
  refine ⟨?_, ?_⟩
  · intro nm hnm
    rcases List.mem_append.mp hnm with h1 | h1
    · exact h.1 nm h1
    · simp at h1; subst h1; exact nameOk_tok p tok rest hm
  · intro i d hd
    rcases hsq with rfl | ⟨hr, rfl⟩
    · exact h.2 i d hd
    · by_cases hi : i = idx
      · subst hi
        rw [optAt_setOptRow_same] at hd
        cases hd
        exact descOk_rest p tok rest hm hr
      · rw [optAt_setOptRow_ne _ _ _ _ hi] at hd
        exact h.2 i d hd

theorem rd_optAt_padOptRows_some (o : OptRows) (n i : Nat) (d : Bytes) (h : optAt (padOptRows o n) i = some d) : optAt o i = some d := by
  by_cases hi : i < n
  · rw [optAt_padOptRows o n i hi] at h; exact h
  · cases o with
    | none => simp [padOptRows, optAt] at h
    | some l =>
      simp only [padOptRows, optAt, Option.map_some, Option.getD_some, List.getD_eq_getElem?_getD] at h
      rw [List.getElem?_eq_none (by simp; omega)] at h
      simp at h

/-! ## the A2M reader -/

def A2mNdInv (st : A2mSt) : Prop := NamesDescsOk st.names st.sqdesc

theorem a2mStartRecord_nd (st st' : A2mSt) (p : Bytes) (h : a2mStartRecord st p = .inl st') (hi : A2mNdInv st) : A2mNdInv st' := by
  unfold a2mStartRecord at h
  cases p with
  | nil => simp at h
  | cons c p1 =>
    simp only at h
    cases hm : memtok p1 blankTab with
    | none => rw [hm] at h; simp at h
    | some tr =>
      obtain ⟨tok, rest⟩ := tr
      rw [hm] at h
      simp only at h
      repeat' split at h
      all_goals first
        | (injection h with h; subst h
           exact namesDescsOk_add st.names st.sqdesc st.nseq p1 tok rest hi hm _ (Or.inl rfl))
        | (injection h with h; subst h
           exact namesDescsOk_add st.names st.sqdesc st.nseq p1 tok rest hi hm _
             (Or.inr ⟨by simpa using (by assumption : ¬ rest.isEmpty = true), rfl⟩))
        | (simp at h)

theorem a2mFinishRecord_nd (cfg : Cfg) (st st' : A2mSt) (h : a2mFinishRecord cfg st = .inl st') :
    st'.names = st.names ∧ st'.sqdesc = st.sqdesc := by
  unfold a2mFinishRecord at h
  simp only at h
  repeat' split at h
  all_goals first
    | (injection h with h; subst h; exact ⟨rfl, rfl⟩)
    | (simp at h)

theorem a2mSeqLine_nd (cfg : Cfg) (st st' : A2mSt) (p : Bytes) (h : a2mSeqLine cfg st p = .inl st') :
    st'.names = st.names ∧ st'.sqdesc = st.sqdesc := by
  unfold a2mSeqLine at h
  simp only at h
  repeat' split at h
  all_goals first
    | (injection h with h; subst h; exact ⟨rfl, rfl⟩)
    | (simp at h)

/-- what the A2M reader guarantees of the alignment it returns, beyond well-formedness -/
def A2mNdGood (cfg : Cfg) (r : Res Msa) : Prop :=
  ∀ m, r = .ok m → NamesDescsOk m.names m.sqdesc ∧ m.sqacc = none ∧ m.digital = cfg.digital ∧ m.kp = cfg.kp

theorem a2mStep_nd (cfg : Cfg) (st : A2mSt) (l : Bytes) (hi : A2mNdInv st) :
    StepOk A2mNdInv (A2mNdGood cfg) (a2mStep cfg st l) := by
  cases hs : a2mStep cfg st l with
  | inr r =>
    intro m hm
    exact absurd ⟨m, hm⟩ (a2mStep_not_ok cfg st l r hs)
  | inl st' =>
    show A2mNdInv st'
    unfold a2mStep at hs
    by_cases hl : st.lead = true
    · simp only [hl, if_true] at hs
      by_cases hb : isBlankLine l = true
      · simp only [hb, if_true] at hs
        injection hs with hs; subst hs; exact hi
      · simp only [hb, Bool.false_eq_true, if_false] at hs
        split at hs
        · simp at hs
        · split at hs
          · simp at hs
          · exact a2mStartRecord_nd _ _ _ hs hi
    · simp only [hl, Bool.false_eq_true, if_false] at hs
      split at hs
      · injection hs with hs; subst hs; exact hi
      · split at hs
        · split at hs
          · rename_i st1 hfin
            have := a2mFinishRecord_nd cfg st st1 hfin
            exact a2mStartRecord_nd st1 st' _ hs (by unfold A2mNdInv; rw [this.1, this.2]; exact hi)
          · simp at hs
        · have := a2mSeqLine_nd cfg st st' _ hs
          unfold A2mNdInv
          rw [this.1, this.2]
          exact hi

theorem a2mPad_nd (cfg : Cfg) (st : A2mSt) (hi : A2mNdInv st) : A2mNdGood cfg (a2mPad cfg st) := by
  intro m hm
  unfold a2mPad at hm
  simp only at hm
  repeat' split at hm
  all_goals first
    | (injection hm with hm; subst hm
       exact ⟨⟨hi.1, fun i d hd => hi.2 i d (rd_optAt_padOptRows_some _ _ _ _ hd)⟩, rfl, rfl, rfl⟩)
    | (simp at hm)

theorem a2mFinish_nd (cfg : Cfg) (st : A2mSt) (hi : A2mNdInv st) : A2mNdGood cfg (a2mFinish cfg st) := by
  unfold a2mFinish
  split
  · intro m hm; simp at hm
  · split
    · rename_i r hfin
      intro m hm
      subst hm
      exact absurd hfin (a2mFinishRecord_notOk cfg st m)
    · rename_i st1 hfin
      have := a2mFinishRecord_nd cfg st st1 hfin
      exact a2mPad_nd cfg st1 (by unfold A2mNdInv; rw [this.1, this.2]; exact hi)

theorem a2mRead_nd (cfg : Cfg) (lines : List Bytes) : A2mNdGood cfg (a2mRead cfg lines).1 :=
  runLines_inv (a2mStep cfg) (a2mFinish cfg) A2mNdInv (A2mNdGood cfg) (fun st l h => a2mStep_nd cfg st l h)
    (fun st h => a2mFinish_nd cfg st h) lines {} namesDescsOk_init

/-! ## from well-formedness: ≥ 1 sequence, rows -/

theorem rd_wellFormed_rows (m : Msa) (h : m.wellFormed = true) :
    1 ≤ m.nseq ∧
    (if m.digital then m.ax.length = m.nseq ∧ ∀ r ∈ m.ax, dsqRowOk m.kp m.alen r = true
     else m.aseq.length = m.nseq ∧ ∀ r ∈ m.aseq, r.length = m.alen ∧ r.contains 0 = false) := by
  simp only [Msa.wellFormed, Bool.and_eq_true] at h
  have h12 := h.1.1.1.1.1.1.1.1.1.1.1.1
  refine ⟨by simpa using h12.1, ?_⟩
  have h2 := h12.2
  cases hd : m.digital with
  | true =>
    rw [hd] at h2
    simp only [if_true, Bool.and_eq_true, beq_iff_eq, List.all_eq_true] at h2 ⊢
    exact h2
  | false =>
    rw [hd] at h2
    simp only [Bool.false_eq_true, if_false, Bool.and_eq_true, beq_iff_eq, List.all_eq_true, Bool.not_eq_true'] at h2 ⊢
    exact h2

theorem rd_getD_mem (l : List Bytes) (i : Nat) (h : i < l.length) : l.getD i [] ∈ l := by
  simp [List.getD_eq_getElem?_getD, List.getElem?_eq_getElem h]

/-- no name/description line the A2M writer will print holds a LF or ends in CR -/
def a2mHdrOkB (m : Msa) : Bool :=
  (List.range m.nseq).all fun i => !(a2mHeader m i).contains 10 && (a2mHeader m i).getLast? != some 13

theorem a2mHdrOkB_lineOk (m : Msa) (h : a2mHdrOkB m = true) : ∀ i, i < m.nseq → lineOk (a2mHeader m i) := by
  intro i hi
  have := (List.all_eq_true.mp h) i (List.mem_range.mpr hi)
  simp only [Bool.and_eq_true, Bool.not_eq_true', bne_iff_ne, ne_eq] at this
  exact ⟨by simpa using this.1, this.2⟩

/-- **what the A2M reader returns in text mode can be written and read back** (given the name lines survive) -/
theorem a2mRead_domain_text (lines : List Bytes) (m : Msa) (rest : List Bytes)
    (h : a2mRead (a2mCfg none) lines = (.ok m, rest)) (hh : a2mHdrOkB m = true) : A2mInsTextWritable m := by
  have hg := a2mRead_good (a2mCfg none) ⟨by decide +kernel, by decide +kernel⟩ ⟨by decide +kernel, by decide +kernel⟩ lines
  have hn := a2mRead_nd (a2mCfg none) lines
  rw [h] at hg hn
  obtain ⟨hnd, hacc, hdig, _⟩ := hn m rfl
  have hdig' : m.digital = false := hdig
  obtain ⟨h1, hrows⟩ := rd_wellFormed_rows m hg
  rw [hdig'] at hrows
  simp only [Bool.false_eq_true, if_false] at hrows
  exact
    { dig := hdig', n1 := h1, acc_none := hacc
      name_ok := fun i hi => hnd.1 _ (rd_getD_mem m.names i hi)
      desc_ok := fun i _ d hd => hnd.2 i d hd
      hdr_line := a2mHdrOkB_lineOk m hh
      row_len := fun i hi => (hrows.2 _ (rd_getD_mem m.aseq i (by rw [hrows.1]; exact hi))).1 }

/-- … and in digital mode (`a` one of the generated alphabets: the configuration must be valid) -/
theorem a2mRead_domain_digital (a : Abc) (hv : (a2mCfg (some a)).valid) (ha : A2mValid (a2mCfg (some a)))
    (lines : List Bytes) (m : Msa) (rest : List Bytes)
    (h : a2mRead (a2mCfg (some a)) lines = (.ok m, rest)) (hh : a2mHdrOkB m = true) : A2mInsDigitalWritable a m := by
  have hg := a2mRead_good (a2mCfg (some a)) hv ha lines
  have hn := a2mRead_nd (a2mCfg (some a)) lines
  rw [h] at hg hn
  obtain ⟨hnd, hacc, hdig, hkp⟩ := hn m rfl
  have hdig' : m.digital = true := hdig
  have hkp' : m.kp = a.kp := hkp
  obtain ⟨h1, hrows⟩ := rd_wellFormed_rows m hg
  rw [hdig'] at hrows
  simp only [if_true] at hrows
  exact
    { dig := hdig', n1 := h1, acc_none := hacc
      name_ok := fun i hi => hnd.1 _ (rd_getD_mem m.names i hi)
      desc_ok := fun i _ d hd => hnd.2 i d hd
      hdr_line := a2mHdrOkB_lineOk m hh
      row_ok := fun i hi => by
        rw [← hkp']
        exact hrows.2 _ (rd_getD_mem m.ax i (by rw [hrows.1]; exact hi)) }


/-! ## a sufficient condition on the INPUT for `a2mHdrOkB`: no CR (and no LF) left inside any line -/

theorem runLines_inv_mem {σ α : Type} (step : σ → Bytes → Sum σ (Res α)) (finish : σ → Res α)
    (Inv : σ → Prop) (Good : Res α → Prop) (R : Bytes → Prop)
    (hstep : ∀ st l, R l → Inv st → StepOk Inv Good (step st l))
    (hfin : ∀ st, Inv st → Good (finish st)) :
    ∀ (ls : List Bytes) (st : σ), (∀ l ∈ ls, R l) → Inv st → Good (runLines step finish st ls).1 := by
  intro ls
  induction ls with
  | nil => intro st _ h; simpa [runLines] using hfin st h
  | cons l ls ih =>
    intro st hR h
    have hs := hstep st l (hR l (by simp)) h
    unfold runLines
    cases hsl : step st l with
    | inl st' => rw [hsl] at hs; simpa using ih st' (fun l' hl' => hR l' (by simp [hl'])) (by simpa using hs)
    | inr r => rw [hsl] at hs; simpa using hs

/-- every byte of every stored name and description satisfies `Q` -/
def BytesOk (Q : UInt8 → Bool) (names : List Bytes) (sqdesc : OptRows) : Prop :=
  (∀ nm ∈ names, ∀ x ∈ nm, Q x = true) ∧ ∀ i d, optAt sqdesc i = some d → ∀ x ∈ d, Q x = true

theorem memtok_sub (p delim tok rest : Bytes) (h : memtok p delim = some (tok, rest)) :
    (∀ x ∈ tok, x ∈ p) ∧ (∀ x ∈ rest, x ∈ p) := by
  unfold memtok at h
  simp only at h
  split at h
  · simp at h
  · simp only [Option.some.injEq, Prod.mk.injEq] at h
    obtain ⟨ht, hr⟩ := h
    subst ht; subst hr
    refine ⟨fun x hx => ?_, fun x hx => ?_⟩
    · exact (List.dropWhile_sublist _).subset ((List.takeWhile_sublist _).subset hx)
    · exact (List.dropWhile_sublist _).subset ((List.dropWhile_sublist _).subset ((List.dropWhile_sublist _).subset hx))

theorem bytesOk_add (Q : UInt8 → Bool) (names : List Bytes) (sqdesc : OptRows) (idx : Nat) (p tok rest : Bytes)
    (h : BytesOk Q names sqdesc) (hm : memtok p blankTab = some (tok, rest)) (hp : ∀ x ∈ p, Q x = true) (sq' : OptRows)
    (hsq : sq' = sqdesc ∨ sq' = setOptRow sqdesc idx (cstr rest)) :
    BytesOk Q (names ++ [cstr tok]) sq' := by
  obtain ⟨hs1, hs2⟩ := memtok_sub p blankTab tok rest hm
  refine ⟨?_, ?_⟩
  · intro nm hnm x hx
    rcases List.mem_append.mp hnm with h1 | h1
    · exact h.1 nm h1 x hx
    · simp at h1; subst h1
      exact hp x (hs1 x ((List.takeWhile_sublist _).subset hx))
  · intro i d hd x hx
    rcases hsq with rfl | rfl
    · exact h.2 i d hd x hx
    · by_cases hi : i = idx
      · subst hi
        rw [optAt_setOptRow_same] at hd
        cases hd
        exact hp x (hs2 x ((List.takeWhile_sublist _).subset hx))
      · rw [optAt_setOptRow_ne _ _ _ _ hi] at hd
        exact h.2 i d hd x hx

theorem a2mStartRecord_q (Q : UInt8 → Bool) (st st' : A2mSt) (p : Bytes) (h : a2mStartRecord st p = .inl st')
    (hp : ∀ x ∈ p, Q x = true) (hi : BytesOk Q st.names st.sqdesc) : BytesOk Q st'.names st'.sqdesc := by
  unfold a2mStartRecord at h
  cases p with
  | nil => simp at h
  | cons c p1 =>
    simp only at h
    have hp1 : ∀ x ∈ p1, Q x = true := fun x hx => hp x (by simp [hx])
    cases hm : memtok p1 blankTab with
    | none => rw [hm] at h; simp at h
    | some tr =>
      obtain ⟨tok, rest⟩ := tr
      rw [hm] at h
      simp only at h
      repeat' split at h
      all_goals first
        | (injection h with h; subst h
           exact bytesOk_add Q st.names st.sqdesc st.nseq p1 tok rest hi hm hp1 _ (Or.inl rfl))
        | (injection h with h; subst h
           exact bytesOk_add Q st.names st.sqdesc st.nseq p1 tok rest hi hm hp1 _ (Or.inr rfl))
        | (simp at h)

def A2mQGood (Q : UInt8 → Bool) (r : Res Msa) : Prop := ∀ m, r = .ok m → BytesOk Q m.names m.sqdesc

theorem a2mStep_q (Q : UInt8 → Bool) (cfg : Cfg) (st : A2mSt) (l : Bytes) (hl : ∀ x ∈ l, Q x = true)
    (hi : BytesOk Q st.names st.sqdesc) :
    StepOk (fun s : A2mSt => BytesOk Q s.names s.sqdesc) (A2mQGood Q) (a2mStep cfg st l) := by
  have hdw : ∀ x ∈ l.dropWhile isSpace, Q x = true := fun x hx => hl x ((List.dropWhile_sublist _).subset hx)
  cases hs : a2mStep cfg st l with
  | inr r =>
    intro m hm
    exact absurd ⟨m, hm⟩ (a2mStep_not_ok cfg st l r hs)
  | inl st' =>
    show BytesOk Q st'.names st'.sqdesc
    unfold a2mStep at hs
    by_cases hld : st.lead = true
    · simp only [hld, if_true] at hs
      by_cases hb : isBlankLine l = true
      · simp only [hb, if_true] at hs
        injection hs with hs; subst hs; exact hi
      · simp only [hb, Bool.false_eq_true, if_false] at hs
        split at hs
        · simp at hs
        · rename_i c t hp
          split at hs
          · simp at hs
          · exact a2mStartRecord_q Q _ _ _ hs hdw hi
    · simp only [hld, Bool.false_eq_true, if_false] at hs
      split at hs
      · injection hs with hs; subst hs; exact hi
      · rename_i c t hp
        split at hs
        · split at hs
          · rename_i st1 hfin
            have := a2mFinishRecord_nd cfg st st1 hfin
            exact a2mStartRecord_q Q st1 st' _ hs hdw (by rw [this.1, this.2]; exact hi)
          · simp at hs
        · have := a2mSeqLine_nd cfg st st' _ hs
          rw [this.1, this.2]
          exact hi

theorem a2mFinish_q (Q : UInt8 → Bool) (cfg : Cfg) (st : A2mSt) (hi : BytesOk Q st.names st.sqdesc) :
    A2mQGood Q (a2mFinish cfg st) := by
  unfold a2mFinish
  split
  · intro m hm; simp at hm
  · split
    · rename_i r hfin
      intro m hm
      subst hm
      exact absurd hfin (a2mFinishRecord_notOk cfg st m)
    · rename_i st1 hfin
      have h12 := a2mFinishRecord_nd cfg st st1 hfin
      intro m hm
      unfold a2mPad at hm
      simp only at hm
      repeat' split at hm
      all_goals first
        | (injection hm with hm; subst hm
           exact ⟨by rw [h12.1]; exact hi.1,
             fun i d hd => by
               have := rd_optAt_padOptRows_some _ _ _ _ hd
               rw [h12.2] at this
               exact hi.2 i d this⟩)
        | (simp at hm)

theorem a2mRead_q (Q : UInt8 → Bool) (cfg : Cfg) (lines : List Bytes) (hl : ∀ l ∈ lines, ∀ x ∈ l, Q x = true) :
    A2mQGood Q (a2mRead cfg lines).1 :=
  runLines_inv_mem (a2mStep cfg) (a2mFinish cfg) (fun s : A2mSt => BytesOk Q s.names s.sqdesc) (A2mQGood Q)
    (fun l => ∀ x ∈ l, Q x = true) (fun st l hR h => a2mStep_q Q cfg st l hR h) (fun st h => a2mFinish_q Q cfg st h) lines {} hl
    ⟨fun _ h => by simp at h, fun i d h => by simp [optAt] at h⟩

/-- neither LF nor CR -/
def notCrLf (x : UInt8) : Bool := x != 10 && x != 13

theorem hdrBytes_ok (hdr : Bytes) (h : ∀ x ∈ hdr, notCrLf x = true) : (!hdr.contains 10 && hdr.getLast? != some 13) = true := by
  simp only [Bool.and_eq_true, Bool.not_eq_true', bne_iff_ne, ne_eq]
  refine ⟨?_, ?_⟩
  · simp only [List.contains_eq_mem, decide_eq_false_iff_not]
    intro h10
    have := h 10 h10
    simp [notCrLf] at this
  · intro h13
    have := h 13 (List.mem_of_getLast? h13)
    simp [notCrLf] at this

/-- **if no input line holds a CR or a LF, the name lines of the alignment read survive a write** -/
theorem a2mHdrOkB_of_lines (cfg : Cfg) (lines : List Bytes) (m : Msa) (rest : List Bytes)
    (h : a2mRead cfg lines = (.ok m, rest)) (hl : ∀ l ∈ lines, ∀ x ∈ l, notCrLf x = true) : a2mHdrOkB m = true := by
  have hq := a2mRead_q notCrLf cfg lines hl
  have hn := a2mRead_nd cfg lines
  rw [h] at hq hn
  obtain ⟨hq1, hq2⟩ := hq m rfl
  obtain ⟨_, hacc, _, _⟩ := hn m rfl
  unfold a2mHdrOkB
  rw [List.all_eq_true]
  intro i hi
  have hi' := List.mem_range.mp hi
  apply hdrBytes_ok
  intro x hx
  unfold a2mHeader at hx
  have hacc' : optRow m.sqacc i = none := by simp [optRow, hacc]
  rw [hacc'] at hx
  simp only [List.append_nil, List.mem_append, List.mem_singleton] at hx
  rcases hx with (rfl | hx) | hx
  · decide
  · exact hq1 _ (rd_getD_mem m.names i hi') x hx
  · cases hd : optRow m.sqdesc i with
    | none => rw [hd] at hx; simp at hx
    | some d =>
      rw [hd] at hx
      rcases List.mem_cons.mp hx with rfl | hx
      · decide
      · exact hq2 i d hd x hx

end EaselModel.Msafile
