import EaselModel.Msafile.Write
/-! # Shape facts about the writer models (C03)

Cheap structural theorems: how many alignment blocks are written, what the outputs start and end with, field widths.
The byte-exact agreement of the models with the C writers is established by the differential run, not here. -/
namespace EaselModel.Msafile

/-! ## `fprintf` fields -/

theorem padRight_length (w : Int) (s : Bytes) : (padRight w s).length = max s.length w.natAbs := by
  unfold padRight
  simp only [List.length_append, List.length_replicate]
  omega

/-- a name longer than the field is written in full -/
theorem padRight_prefix (w : Int) (s : Bytes) : s <+: padRight w s := by
  unfold padRight; exact List.prefix_append _ _

theorem padRight_of_le (w : Int) (s : Bytes) (h : w.natAbs ≤ s.length) : padRight w s = s := by
  unfold padRight
  have : w.natAbs - s.length = 0 := by omega
  simp [this]

/-- the PHYLIP name field (`%-*.*s`) is exactly `w` bytes wide, whatever the name -/
theorem padTrunc_length (w : Nat) (s : Bytes) : (padTrunc w s).length = w := by
  unfold padTrunc
  rw [padRight_length]
  simp only [List.length_take, Int.natAbs_natCast]
  omega

theorem padTrunc_take (w : Nat) (s : Bytes) : (padTrunc w s).take (min w s.length) = s.take w := by
  unfold padTrunc padRight
  have h : (s.take w).length = min w s.length := by simp
  rw [← h, List.take_left']
  rfl

/-! ## lines -/

theorem joinLF_append (a b : List Bytes) : joinLF (a ++ b) = joinLF a ++ joinLF b := by
  simp [joinLF]

theorem joinLF_singleton (l : Bytes) : joinLF [l] = l ++ [10] := by simp [joinLF]

theorem joinLF_cons (l : Bytes) (ls : List Bytes) : joinLF (l :: ls) = l ++ 10 :: joinLF ls := by simp [joinLF]

/-- a non-empty list of lines joined with LF ends with LF -/
theorem joinLF_getLast (ls : List Bytes) (h : ls ≠ []) : (joinLF ls).getLast? = some 10 := by
  induction ls with
  | nil => exact absurd rfl h
  | cons l ls ih =>
    rw [joinLF_cons]
    by_cases hl : ls = []
    · subst hl; simp [joinLF]
    · have := ih hl
      rw [List.getLast?_append, List.getLast?_cons_cons_or_singleton_aux this]
      simp
where
  List.getLast?_cons_cons_or_singleton_aux {x : UInt8} {t : Bytes} (ht : t.getLast? = some 10) :
      (x :: t).getLast? = some 10 := by
    cases t with
    | nil => simp at ht
    | cons y t => simpa [List.getLast?_cons_cons] using ht

/-! ## the block loop `for (pos = 0; pos < alen; pos += cpl)` -/

theorem blockStartsFrom_length (alen cpl pos : Nat) (hc : 0 < cpl) :
    (blockStartsFrom alen cpl pos).length = (alen - pos + cpl - 1) / cpl := by
  fun_induction blockStartsFrom alen cpl pos with
  | case1 pos h ih =>
    simp only [List.length_cons, ih]
    have h1 : alen - pos + cpl - 1 = (alen - pos - 1) + cpl := by omega
    rw [h1, Nat.add_div_right _ hc]
    by_cases h2 : pos + cpl ≤ alen
    · have : alen - (pos + cpl) + cpl - 1 = alen - pos - 1 := by omega
      rw [this]
    · have h3 : alen - (pos + cpl) + cpl - 1 = cpl - 1 := by omega
      rw [h3, Nat.div_eq_of_lt (by omega), Nat.div_eq_of_lt (by omega)]
  | case2 pos h =>
    have : alen - pos + cpl - 1 < cpl := by omega
    simp [Nat.div_eq_of_lt this]

/-- the number of blocks of `cpl` columns an alignment of `alen` columns is written in: `ceil(alen / cpl)` -/
theorem blockStarts_length (alen cpl : Nat) (hc : 0 < cpl) : (blockStarts alen cpl).length = (alen + cpl - 1) / cpl := by
  unfold blockStarts
  rw [blockStartsFrom_length alen cpl 0 hc]
  simp

theorem blockStartsFrom_lt (alen cpl pos : Nat) : ∀ p ∈ blockStartsFrom alen cpl pos, pos ≤ p ∧ p < alen := by
  fun_induction blockStartsFrom alen cpl pos with
  | case1 pos h ih =>
    intro p hp
    simp only [List.mem_cons] at hp
    rcases hp with rfl | hp
    · exact ⟨Nat.le_refl _, h.1⟩
    · have := ih p hp; omega
  | case2 pos h => intro p hp; simp at hp

/-- every block starts inside the alignment: the slices taken at `pos` are never empty for a well-formed alignment -/
theorem blockStarts_lt (alen cpl : Nat) : ∀ p ∈ blockStarts alen cpl, p < alen :=
  fun p hp => (blockStartsFrom_lt alen cpl 0 p hp).2

theorem blockStarts_zero (cpl : Nat) : blockStarts 0 cpl = [] := by
  unfold blockStarts blockStartsFrom; simp

/-! ## Stockholm / Pfam -/

/-- the Stockholm/Pfam output is a sequence of LF-terminated lines followed by the terminator line `//` -/
theorem stockholmWrite_eq (pfam : Bool) (abc : Option Abc) (m : Msa) :
    stockholmWrite pfam abc m = joinLF (stockholmBodyLines pfam abc m) ++ [47, 47, 10] := by
  unfold stockholmWrite stockholmLines
  rw [joinLF_append, joinLF_singleton]
  rfl

/-- … and it begins with the magic line -/
theorem stockholmWrite_magic (pfam : Bool) (abc : Option Abc) (m : Msa) :
    ∃ rest, stockholmWrite pfam abc m = str "# STOCKHOLM 1.0" ++ 10 :: rest := by
  unfold stockholmWrite stockholmLines stockholmBodyLines stoHeadLines
  simp only [List.cons_append, joinLF_cons]
  exact ⟨_, rfl⟩

/-- Stockholm wraps at 200 columns: `ceil(alen / 200)` alignment blocks -/
theorem stockholm_blocks (m : Msa) : (blockStarts m.alen (stoCpl false m)).length = (m.alen + 199) / 200 := by
  have := blockStarts_length m.alen 200 (by decide)
  simpa [stoCpl] using this

/-- Pfam writes one block holding the whole alignment -/
theorem pfam_blocks (m : Msa) (h : 0 < m.alen) : blockStarts m.alen (stoCpl true m) = [0] := by
  simp only [stoCpl, if_true]
  unfold blockStarts
  rw [blockStartsFrom]
  simp only [h, and_self, dite_true, Nat.zero_add]
  rw [blockStartsFrom]
  simp

/-- the tokens `esl_strtok(.., "\n", ..)` delivers are non-empty and free of LF: an unparsed #=GS value never breaks a line -/
theorem strtokLF_tokens (s acc : Bytes) (hacc : (10 : UInt8) ∉ acc) :
    ∀ t ∈ strtokLF s acc, t ≠ [] ∧ (10 : UInt8) ∉ t := by
  induction s generalizing acc with
  | nil =>
    intro t ht
    unfold strtokLF at ht
    by_cases he : acc.isEmpty
    · simp [he] at ht
    · simp only [he] at ht
      simp only [Bool.false_eq_true, if_false, List.mem_singleton] at ht
      subst ht
      refine ⟨?_, by simpa using hacc⟩
      intro h; apply he; simpa using h
  | cons c r ih =>
    intro t ht
    unfold strtokLF at ht
    by_cases hc : c = 10
    · subst hc
      simp only [beq_self_eq_true, if_true] at ht
      by_cases he : acc.isEmpty
      · simp only [he, if_true] at ht
        exact ih [] (by simp) t ht
      · simp only [he, Bool.false_eq_true, if_false, List.mem_cons] at ht
        rcases ht with rfl | ht
        · refine ⟨?_, by simpa using hacc⟩
          intro h; apply he; simpa using h
        · exact ih [] (by simp) t ht
    · have hc' : (c == 10) = false := by simpa using hc
      simp only [hc', Bool.false_eq_true, if_false] at ht
      refine ih (c :: acc) ?_ t ht
      simp only [List.mem_cons, not_or]
      exact ⟨fun h => hc h.symm, hacc⟩

/-- unique-name forcing is switched on exactly when two sequences share a name -/
theorem hasDupNames_iff (l : List Bytes) : hasDupNames l = false ↔ l.Nodup := by
  induction l with
  | nil => simp [hasDupNames]
  | cons a l ih =>
    simp only [hasDupNames, Bool.or_eq_false_iff, List.nodup_cons, ih]
    constructor
    · rintro ⟨h1, h2⟩; exact ⟨by simpa using h1, h2⟩
    · rintro ⟨h1, h2⟩; exact ⟨by simpa using h1, h2⟩

/-! ## PHYLIP -/

/-- the PHYLIP header is `" <nseq> <alen>"`, and a line feed follows it (interleaved: only if there is a block to write) -/
theorem phylipWrite_header (sequential : Bool) (abc : Option Abc) (m : Msa) (h : 0 < m.alen) :
    ∃ rest, phylipWrite sequential abc m = [32] ++ natDec m.nseq ++ [32] ++ natDec m.alen ++ 10 :: rest := by
  cases sequential with
  | true =>
    simp only [phylipWrite, if_true, phylipSequentialWrite, phylipSequentialLines, joinLF_cons, phyWrHeader]
    exact ⟨_, rfl⟩
  | false =>
    simp only [phylipWrite, Bool.false_eq_true, if_false, phylipInterleavedWrite, phyWrHeader]
    unfold blockStarts
    rw [blockStartsFrom]
    have h60 : 0 < phyRpl := by decide
    simp only [h, h60, and_self, dite_true, List.flatMap_cons, List.append_assoc, List.cons_append]
    exact ⟨_, rfl⟩

/-- interleaved PHYLIP of an alignment without columns: the header alone, not even terminated -/
theorem phylipInterleaved_empty (abc : Option Abc) (m : Msa) (h : m.alen = 0) :
    phylipWrite false abc m = [32] ++ natDec m.nseq ++ [32, 48] := by
  simp only [phylipWrite, Bool.false_eq_true, if_false, phylipInterleavedWrite, phyWrHeader, h, blockStarts_zero]
  simp [natDec, Nat.toDigits, Nat.toDigitsCore, Nat.digitChar]

/-- PHYLIP wraps at 60 columns -/
theorem phylip_blocks (m : Msa) : (blockStarts m.alen phyRpl).length = (m.alen + 59) / 60 := by
  have := blockStarts_length m.alen 60 (by decide)
  simpa [phyRpl] using this

/-- in the first block every row line starts with a name field of exactly ten bytes and a blank -/
theorem phyRowLine_first (abc : Option Abc) (m : Msa) (idx : Nat) :
    ∃ field, field.length = 10 ∧ phyRowLine abc m idx 0 = field ++ 32 :: phyBuf abc m idx 0 := by
  refine ⟨padTrunc phyNameWidth (m.names.getD idx []), padTrunc_length _ _, ?_⟩
  simp [phyRowLine]

/-! ## Clustal -/

theorem textConsensusLine_length (m : Msa) : (textConsensusLine m).length = m.alen := by
  simp [textConsensusLine]

theorem digitalConsensusLine_length (a : Abc) (m : Msa) : (digitalConsensusLine a m).length = m.alen := by
  simp [digitalConsensusLine]

/-- the consensus line has one character per column -/
theorem consensusLine_length (abc : Option Abc) (m : Msa) : (consensusLine abc m).length = m.alen := by
  cases abc with
  | none => exact textConsensusLine_length m
  | some a => exact digitalConsensusLine_length a m

/-- the text-mode consensus line holds only `*` and blanks -/
theorem textConsensusLine_chars (m : Msa) : ∀ c ∈ textConsensusLine m, c = 42 ∨ c = 32 := by
  intro c hc
  simp only [textConsensusLine, List.mem_map] at hc
  obtain ⟨_, _, rfl⟩ := hc
  split <;> simp

/-- the digital consensus line holds only `*`, `:`, `.` and blanks -/
theorem digitalConsChar_range (a : Abc) (v : Nat) :
    digitalConsChar a v = 42 ∨ digitalConsChar a v = 58 ∨ digitalConsChar a v = 46 ∨ digitalConsChar a v = 32 := by
  unfold digitalConsChar
  simp only
  repeat' split
  all_goals simp

/-- the Clustal output starts with its one-line header, then a blank line for every block -/
theorem clustalWrite_header (like : Bool) (abc : Option Abc) (m : Msa) :
    ∃ rest, clustalWrite like abc m = clustalHeader like easelVersion ++ 10 :: rest := by
  simp only [clustalWrite, clustalWriteV, clustalLines, joinLF_cons]
  exact ⟨_, rfl⟩

theorem clustal_blocks (m : Msa) : (blockStarts m.alen clustalCpl).length = (m.alen + 59) / 60 := by
  have := blockStarts_length m.alen 60 (by decide)
  simpa [clustalCpl] using this

/-- every Clustal block has `nseq + 2` lines: the blank line, the rows, the consensus line -/
theorem clustalBlockLines_length (abc : Option Abc) (m : Msa) (w : Nat) (cons : Bytes) (apos : Nat) :
    (clustalBlockLines abc m w cons apos).length = m.nseq + 2 := by
  simp [clustalBlockLines]

/-! ## SELEX -/

/-- the SELEX name field is at least four bytes wide (room for `#=CS`) -/
theorem selexNameLen_ge (m : Msa) : 4 ≤ selexNameLen m := by
  unfold selexNameLen
  have : ∀ (l : List Bytes) (a : Nat), 4 ≤ a → 4 ≤ l.foldl (fun a s => max s.length a) a := by
    intro l
    induction l with
    | nil => intro a h; simpa using h
    | cons x l ih => intro a h; simp only [List.foldl_cons]; exact ih _ (by omega)
  exact this _ _ (Nat.le_refl 4)

theorem selex_blocks (m : Msa) : (blockStarts m.alen selexCpl).length = (m.alen + 59) / 60 := by
  have := blockStarts_length m.alen 60 (by decide)
  simpa [selexCpl] using this

/-! ## PSI-BLAST -/

/-- a PSI-BLAST block: one line per sequence, and a blank line unless it is the last block -/
theorem psiBlockLines_length (abc : Option Abc) (m : Msa) (w pos : Nat) :
    (psiBlockLines abc m w pos).length = m.nseq + (if pos + psiCpl < m.alen then 1 else 0) := by
  unfold psiBlockLines
  split <;> simp

/-- what PSI-BLAST writes for a column is a gap or an alphanumeric character in text mode … -/
theorem psiChar_text (m : Msa) (i pos : Nat) : psiChar none m i pos = 45 ∨ isAlnum (aseqAt m i pos) = true := by
  unfold psiChar
  simp only
  by_cases h : isAlnum (aseqAt m i pos) = true
  · exact Or.inr h
  · left; simp [h]

/-- the text-mode character as a function of the residue and the consensus flag -/
def psiTextChar (c : UInt8) (cons : Bool) : UInt8 :=
  let isRes := isAlnum c
  let sym := if c == 79 || c == 111 then 88 else c
  if cons then (if isRes then toUpper sym else 45) else (if isRes then toLower sym else 45)

theorem psiChar_text_eq (m : Msa) (i pos : Nat) :
    psiChar none m i pos = psiTextChar (aseqAt m i pos) (isConsensusCol none m pos) := rfl

theorem psiTextChar_noO_fin : ∀ (n : Fin 256) (cons : Bool),
    psiTextChar (UInt8.ofNat n.val) cons ≠ 79 ∧ psiTextChar (UInt8.ofNat n.val) cons ≠ 111 := by decide +kernel

/-- … and never the letter O/o, which its reader rejects (landed fix): in text mode -/
theorem psiChar_text_noO (m : Msa) (i pos : Nat) : psiChar none m i pos ≠ 79 ∧ psiChar none m i pos ≠ 111 := by
  rw [psiChar_text_eq]
  generalize aseqAt m i pos = c
  generalize isConsensusCol none m pos = cons
  have := psiTextChar_noO_fin ⟨c.toNat, c.toNat_lt⟩ cons
  simpa using this

/-! ## A2M -/

/-- no A2M sequence line is longer than 60 characters -/
theorem a2mSeqLoop_width (abc : Option Abc) (m : Msa) (i : Nat) (ps : List Nat) (buf : Bytes) (hb : buf.length ≤ a2mCpl) :
    ∀ l ∈ a2mSeqLoop abc m i ps buf, l.length ≤ a2mCpl := by
  induction ps generalizing buf with
  | nil =>
    intro l hl
    unfold a2mSeqLoop at hl
    split at hl
    · simp at hl
    · simp only [List.mem_singleton] at hl; subst hl; simpa using hb
  | cons p ps ih =>
    intro l hl
    unfold a2mSeqLoop at hl
    simp only at hl
    by_cases hf : buf.length ≥ a2mCpl
    · simp only [hf, if_true, List.singleton_append, List.mem_cons] at hl
      rcases hl with rfl | hl
      · simpa using hb
      · cases hc : a2mChar abc m i p with
        | none => rw [hc] at hl; exact ih [] (by simp) l hl
        | some c => rw [hc] at hl; exact ih [c] (by simp [a2mCpl]) l hl
    · simp only [hf, if_false, List.nil_append] at hl
      cases hc : a2mChar abc m i p with
      | none => rw [hc] at hl; exact ih buf hb l hl
      | some c => rw [hc] at hl; exact ih (c :: buf) (by simp only [List.length_cons]; omega) l hl

/-- every A2M record starts with its `>name` line -/
theorem a2mRecLines_head (abc : Option Abc) (m : Msa) (i : Nat) :
    (a2mRecLines abc m i).head? = some (a2mHeader m i) := by
  simp [a2mRecLines]

/-! ## concrete instances (non-vacuity of the hypotheses above, and the models evaluated inside the kernel) -/

/-- two sequences, three columns, text mode -/
def tinyMsa : Msa := { alen := 3, names := [str "aa", str "b"], aseq := [str "ACG", str "A-G"], wgt := [.dflt, .dflt] }
/-- the same with both sequences called `aa`, weights and an unparsed #=GS tag on the SECOND sequence -/
def tinyDup : Msa := { tinyMsa with names := [str "aa", str "aa"], hasw := true, wgt := [.val 0x3ff8000000000000, .dflt],
                                    gs := [(str "DR", [none, some (str "x\ny")])] }

example : 0 < tinyMsa.alen := by decide
example : blockStarts tinyMsa.alen (stoCpl true tinyMsa) = [0] := pfam_blocks tinyMsa (by decide)
example : stockholmWrite false none tinyMsa = str "# STOCKHOLM 1.0\n\naa ACG\nb  A-G\n//\n" := by decide +kernel
example : stockholmWrite true none tinyMsa = stockholmWrite false none tinyMsa := by decide +kernel
/-- unique-name forcing; the #=GS DR lines of the second sequence carry its own prefix `1|aa` (fix 88b6a6d; the tag index was printed before) -/
example : stockholmWrite false none tinyDup =
    str ("# STOCKHOLM 1.0\n# WARNING: seq names have been made unique by adding a prefix of \"<seq#>|\"\n\n"
      ++ "#=GS 0|aa WT 1.50\n#=GS 1|aa WT 1.00\n\n#=GS 1|aa DR x\n#=GS 1|aa DR y\n\n0|aa ACG\n1|aa A-G\n//\n") := by decide +kernel
example : phylipWrite false none tinyMsa = str " 2 3\naa         ACG\nb          A-G\n" := by decide +kernel
example : phylipWrite true none tinyMsa = phylipWrite false none tinyMsa := by decide +kernel
example : clustalWrite false none tinyMsa = str "CLUSTAL 2.1 multiple sequence alignment\n\naa ACG\nb  A-G\n   * *\n" := by decide +kernel
example : selexWrite none tinyMsa = str "aa   ACG\nb    A-G\n" := by decide +kernel
example : psiblastWrite none tinyMsa = str "aa  ACG\nb   A-G\n" := by decide +kernel
example : a2mWrite none tinyMsa = str ">aa\nACG\n>b\nA-G\n" := by decide +kernel

/-! ## number formatting: spot checks of `%.2f` / `%.1f` on ties and near-ties (the differential run covers 10^5 random values) -/

example : fmtF2 0x3ff0000000000000 = str "1.00" := by decide +kernel
example : fmtF2 0xbff0000000000000 = str "-1.00" := by decide +kernel
example : fmtF2 0x3fc0000000000000 = str "0.12" := by decide +kernel          -- 0.125: tie, to even
example : fmtF2 0x3fd8000000000000 = str "0.38" := by decide +kernel          -- 0.375: tie, to even
example : fmtF2 0x3f747ae147ae147b = str "0.01" := by decide +kernel          -- 0.005 is slightly above the tie in binary
example : fmtF2 0x4005666666666666 = str "2.67" := by decide +kernel          -- 2.675 is slightly below the tie in binary
example : fmtF2 0x4202a05f20000000 = str "10000000000.00" := by decide +kernel
example : fmtF2 0x8000000000000000 = str "-0.00" := by decide +kernel
example : fmtF2 0x0000000000000001 = str "0.00" := by decide +kernel
example : fmtF2 0x7ff0000000000000 = str "inf" := by decide +kernel
example : fmtF2 0xfff8000000000000 = str "-nan" := by decide +kernel
example : fmtF1 0x41c80000 = str "25.0" := by decide +kernel
example : fmtF1 0x3e800000 = str "0.2" := by decide +kernel                   -- 0.25: tie, to even
example : fmtF1 0x3f400000 = str "0.8" := by decide +kernel                   -- 0.75: tie, to even
example : fmtF1 0x3d4ccccd = str "0.1" := by decide +kernel                   -- 0.05f is above the tie

end EaselModel.Msafile
