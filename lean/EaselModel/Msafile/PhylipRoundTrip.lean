import EaselModel.Msafile.RoundTrip
import EaselModel.Msafile.AfaRoundTrip
import EaselModel.Msafile.Phylip
import EaselModel.Msafile.WritePhylip
/-! PHYLIP (sequential and interleaved): reading what `esl_msafile_phylip_Write` wrote gives the alignment back (C03). -/
namespace EaselModel.Msafile

/-! ## `%d` read back by `esl_mem_strtoi32` -/

/-- the character of decimal digit `d` -/
def dch (d : Nat) : UInt8 := UInt8.ofNat (48 + d)

theorem natDec_eq (n : Nat) : natDec n = if n < 10 then [dch n] else natDec (n / 10) ++ [dch (n % 10)] := by
  have h := Nat.toDigits_eq_if (b := 10) (n := n) (by decide)
  unfold natDec
  rw [h]
  split
  · rename_i hlt; simp [dch, Nat.toNat_digitChar_of_lt_ten hlt]
  · simp [dch, Nat.toNat_digitChar_of_lt_ten (Nat.mod_lt n (by decide))]

theorem dch_facts : ∀ d : Fin 10, digitVal (dch d.val) = some d.val ∧ isSpace (dch d.val) = false ∧
    inDelim blankTab (dch d.val) = false ∧ dch d.val ≠ 45 ∧ dch d.val ≠ 10 ∧ dch d.val ≠ 13 ∧ dch d.val ≠ 0 ∧
    (dch d.val = 48 → d.val = 0) := by decide

theorem dch_graph : ∀ d : Fin 10, isGraph (dch d.val) = true := by decide

theorem natDec_mem (n : Nat) : ∀ c ∈ natDec n, ∃ d, d < 10 ∧ c = dch d := by
  induction n using Nat.strongRecOn with
  | _ n ih =>
    intro c hc
    have e := natDec_eq n
    by_cases hlt : n < 10
    · rw [if_pos hlt] at e; rw [e] at hc
      simp at hc; exact ⟨n, hlt, hc⟩
    · rw [if_neg hlt] at e; rw [e] at hc
      simp at hc
      rcases hc with hc | hc
      · exact ih (n / 10) (by omega) c hc
      · exact ⟨n % 10, Nat.mod_lt _ (by decide), hc⟩

theorem natDec_head (n : Nat) : 1 ≤ n → ∃ d t, natDec n = dch d :: t ∧ 1 ≤ d ∧ d < 10 := by
  induction n using Nat.strongRecOn with
  | _ n ih =>
    intro h1
    have e := natDec_eq n
    by_cases hlt : n < 10
    · rw [if_pos hlt] at e
      exact ⟨n, [], e, h1, hlt⟩
    · rw [if_neg hlt] at e
      obtain ⟨d, t, ht, hd⟩ := ih (n / 10) (by omega) (by omega)
      exact ⟨d, t ++ [dch (n % 10)], by rw [e, ht]; rfl, hd⟩

theorem natDec_ne_nil (n : Nat) : natDec n ≠ [] := by
  have e := natDec_eq n
  by_cases hlt : n < 10
  · rw [if_pos hlt] at e; rw [e]; simp
  · rw [if_neg hlt] at e; rw [e]; simp

theorem strtoLoop_digit (d : Nat) (hd : d < 10) (rest : Bytes) (cur : Int) (k : Nat) (_h0 : 0 ≤ cur)
    (hmax : cur * 10 + d ≤ 2147483647) :
    strtoLoop false 10 (dch d :: rest) cur k = strtoLoop false 10 rest (cur * 10 + d) (k + 1) := by
  have hv := (dch_facts ⟨d, hd⟩).1
  simp only at hv
  rw [strtoLoop]
  simp only [hv]
  have h1 : ¬ (d ≥ 10) := by omega
  have h2 : ¬ (cur > Int.tdiv (2147483647 - (d : Int)) ((10 : Nat) : Int)) := by
    rw [Int.tdiv_eq_ediv_of_nonneg (by omega)]
    omega
  simp only [h1, h2, if_false, Bool.not_false, if_true]
  rfl

theorem strtoLoop_natDec (n : Nat) : n ≤ 2147483647 → ∀ (rest : Bytes) (k : Nat),
    strtoLoop false 10 (natDec n ++ rest) 0 k = strtoLoop false 10 rest (n : Int) (k + (natDec n).length) := by
  induction n using Nat.strongRecOn with
  | _ n ih =>
    intro hn rest k
    have e := natDec_eq n
    by_cases hlt : n < 10
    · rw [if_pos hlt] at e; rw [e]
      have := strtoLoop_digit n hlt rest 0 k (by omega) (by omega)
      simpa using this
    · rw [if_neg hlt] at e; rw [e]
      have ih' := ih (n / 10) (by omega) (by omega) (dch (n % 10) :: rest) k
      rw [List.append_assoc, List.singleton_append, ih']
      have := strtoLoop_digit (n % 10) (Nat.mod_lt _ (by decide)) rest ((n / 10 : Nat) : Int) (k + (natDec (n / 10)).length)
        (by omega) (by omega)
      rw [this]
      have e1 : (((n / 10 : Nat) : Int) * 10 + ((n % 10 : Nat) : Int)) = (n : Int) := by omega
      have e2 : k + (natDec (n / 10)).length + 1 = k + (natDec (n / 10) ++ [dch (n % 10)]).length := by simp; omega
      rw [e1, e2]

theorem strtoi32_cons (c : UInt8) (t : Bytes) (hsp : isSpace c = false) (h45 : c ≠ 45) (h48 : c ≠ 48) :
    strtoi32 (c :: t) = strtoLoop false 10 (c :: t) 0 0 := by
  have hd : (c :: t).dropWhile isSpace = c :: t := by simp [List.dropWhile, hsp]
  unfold strtoi32
  simp only [hd]
  split
  · rename_i r h
    split at h
    · rename_i r' h'; have : c = 45 := by injection h'
      exact absurd this h45
    · have : c = 48 := by injection h
      exact absurd this h48
  · rename_i r _ h
    split at h
    · rename_i r' h'; have : c = 45 := by injection h'
      exact absurd this h45
    · have : c = 48 := by injection h
      exact absurd this h48
  · split
    · rename_i r' h'; have : c = 45 := by injection h'
      exact absurd this h45
    · rfl

/-- **`strtoi32 ∘ %d`**: a positive `int` printed with `%d` is read back by `esl_mem_strtoi32(…, base 0, …)` -/
theorem strtoi32_natDec (n : Nat) (h1 : 1 ≤ n) (hn : n ≤ 2147483647) : strtoi32 (natDec n) = .ok (n : Int) := by
  obtain ⟨d, t, ht, hd1, hd10⟩ := natDec_head n h1
  have hf := dch_facts ⟨d, hd10⟩
  simp only at hf
  have hloop := strtoLoop_natDec n hn [] 0
  rw [List.append_nil, ht] at hloop
  have h48 : dch d ≠ 48 := fun h => by have := hf.2.2.2.2.2.2.2 h; omega
  rw [ht, strtoi32_cons (dch d) t hf.2.1 hf.2.2.2.1 h48, hloop]
  simp [strtoLoop]

/-! ## the header line -/

theorem natDec_nameOk (n : Nat) : nameOk (natDec n) := by
  refine ⟨natDec_ne_nil n, ?_⟩
  intro c hc
  obtain ⟨d, hd, rfl⟩ := natDec_mem n c hc
  exact (dch_facts ⟨d, hd⟩).2.2.1

theorem natDec_descOk (n : Nat) : descOk (natDec n) := by
  constructor
  · cases h : natDec n with
    | nil => exact absurd h (natDec_ne_nil n)
    | cons c t =>
      refine ⟨c, t, rfl, ?_⟩
      obtain ⟨d, hd, rfl⟩ := natDec_mem n c (by rw [h]; simp)
      exact (dch_facts ⟨d, hd⟩).2.2.1
  · intro c hc
    obtain ⟨d, hd, rfl⟩ := natDec_mem n c hc
    exact (dch_facts ⟨d, hd⟩).2.2.2.2.2.2.1

theorem memtok_skip32 (x : Bytes) : memtok (32 :: x) blankTab = memtok x blankTab := by
  have h32 : inDelim blankTab 32 = true := by decide
  simp [memtok, List.dropWhile, h32]

theorem phyWrHeader_eq (m : Msa) : phyWrHeader m = 32 :: (natDec m.nseq ++ 32 :: natDec m.alen) := by
  simp [phyWrHeader]

theorem phyWrHeader_notBlank (m : Msa) : isBlankLine (phyWrHeader m) = false := by
  obtain ⟨d, hd, hc⟩ := natDec_mem m.alen _ (List.getLast_mem (natDec_ne_nil m.alen))
  have hmem : dch d ∈ phyWrHeader m := by
    rw [phyWrHeader_eq, ← hc]; simp [List.getLast_mem]
  have hf := (dch_facts ⟨d, hd⟩).2.2.1
  cases hb : isBlankLine (phyWrHeader m) with
  | false => rfl
  | true =>
    unfold isBlankLine at hb
    have := List.all_eq_true.mp hb _ hmem
    simp only at hf
    rw [hf] at this; cases this

/-- **the header step**: `" %d %d"` is parsed back to `nseq`, `alen`, and the alignment is allocated -/
theorem phyHeader_write (st : PhySt) (m : Msa) (hn1 : 1 ≤ m.nseq) (ha1 : 1 ≤ m.alen)
    (hn : m.nseq ≤ 2147483647) (ha : m.alen ≤ 2147483647) :
    phyHeader st (phyWrHeader m) =
      .inl { st with phase := .hdr, nseq := m.nseq, alenStated := m.alen,
                     names := List.replicate m.nseq none, rows := List.replicate m.nseq none } := by
  have h1 : memtok (phyWrHeader m) blankTab = some (natDec m.nseq, natDec m.alen) := by
    rw [phyWrHeader_eq, memtok_skip32]
    exact memtok_name_desc _ _ (natDec_nameOk _) (natDec_descOk _)
  have h2 : memtok (natDec m.alen) blankTab = some (natDec m.alen, []) := memtok_name _ (natDec_nameOk _)
  have hc1 : ¬ ((m.nseq : Int) < 1) := by omega
  have hc2 : ¬ ((m.alen : Int) < 1) := by omega
  unfold phyHeader
  simp only [h1, h2, strtoi32_natDec m.nseq hn1 hn, strtoi32_natDec m.alen ha1 ha, hc1, hc2, decide_false, Bool.or_self,
    Bool.false_eq_true, if_false, Int.toNat_natCast]

/-! ## the name field -/

/-- a name PHYLIP carries without conversion: not empty, graphic characters only (no blank: the reader turns an inner
    blank into `_` and strips outer ones) -/
def phyNameOk (nm : Bytes) : Prop := nm ≠ [] ∧ ∀ c ∈ nm, isGraph c = true

theorem graph_ne (c x : UInt8) (hx : isGraph x = false) (h : isGraph c = true) : c ≠ x := by
  intro e; subst e; rw [h] at hx; cases hx

theorem dropWhile_none {α : Type} (p : α → Bool) (l : List α) (h : ∀ a ∈ l, p a = false) : l.dropWhile p = l := by
  cases l with
  | nil => rfl
  | cons a t => simp [List.dropWhile, h a (by simp)]

theorem padTrunc10_length (nm : Bytes) : (padTrunc 10 nm).length = 10 := by
  simp [padTrunc, padRight]; omega

/-- `%-10.10s` read back by `phylip_rectify_input_name`: the first 10 characters of the name -/
theorem rectifyName_padTrunc (nm : Bytes) (h : phyNameOk nm) : rectifyName (padTrunc 10 nm) = some (nm.take 10) := by
  obtain ⟨hne, hg⟩ := h
  cases nm with
  | nil => exact absurd rfl hne
  | cons c t =>
    have hc32 : (c == 32) = false := by simpa using graph_ne c 32 (by decide) (hg c (by simp))
    have ht32 : ∀ a ∈ (t.take 9).reverse, (a == 32) = false := by
      intro a ha
      have : a ∈ t := List.mem_of_mem_take (List.mem_reverse.mp ha)
      simpa using graph_ne a 32 (by decide) (hg a (by simp [this]))
    have hpad : padTrunc 10 (c :: t) = c :: (t.take 9 ++ List.replicate (10 - ((t.take 9).length + 1)) 32) := by
      simp [padTrunc, padRight]
    have hstrip : ((t.take 9 ++ List.replicate (10 - ((t.take 9).length + 1)) 32).reverse.dropWhile (· == 32)).reverse = t.take 9 := by
      rw [List.reverse_append, List.reverse_replicate,
        List.dropWhile_append_of_pos (fun a ha => by rw [(List.mem_replicate.mp ha).2]; rfl),
        dropWhile_none _ _ ht32, List.reverse_reverse]
    have hbody : (c :: t.take 9).dropWhile (· == 32) = c :: t.take 9 := by simp [List.dropWhile, hc32]
    have hall : (c :: t.take 9).all (fun x => isGraph x || x == 32) = true := by
      rw [List.all_eq_true]
      intro x hx
      have : x ∈ c :: t := by
        rcases List.mem_cons.mp hx with hx | hx
        · simp [hx]
        · simp [List.mem_of_mem_take hx]
      simp [hg x this]
    have hmap : (c :: t.take 9).map (fun x => if x == 32 then 95 else x) = c :: t.take 9 := by
      conv => rhs; rw [← List.map_id (c :: t.take 9)]
      apply List.map_congr_left
      intro x hx
      have : x ∈ c :: t := by
        rcases List.mem_cons.mp hx with hx | hx
        · simp [hx]
        · simp [List.mem_of_mem_take hx]
      have : (x == 32) = false := by simpa using graph_ne x 32 (by decide) (hg x this)
      simp [this]
    rw [hpad]
    unfold rectifyName
    simp only [hstrip, hbody, hall, if_true, hmap]
    simp

/-! ## appending a written piece to a row -/

theorem phy_cat_plain (cfg : Cfg) (enc : UInt8 → UInt8) (cur : Option Bytes) (c : Bytes) (hne : c ≠ [])
    (hmaps : ∀ t ∈ c, mapByte cfg.inmap t = (.ok, some (enc t))) :
    (if cfg.digital then dsqcat cfg.inmap cur c else strmapcat cfg.inmap cur c)
      = (.ok, some (mkRow cfg.digital (curCodes cfg.digital cur ++ c.map enc))) := by
  have hne' : c.isEmpty = false := by
    cases c with
    | nil => exact absurd rfl hne
    | cons _ _ => rfl
  have hm := mapLoop_enc cfg.inmap enc c [] hmaps
  cases hd : cfg.digital with
  | true =>
    simp only [if_true, dsqcat, hne', Bool.false_eq_true, if_false, hm, List.append_nil, List.reverse_reverse, mkRow, curCodes]
  | false =>
    simp only [Bool.false_eq_true, if_false, strmapcat, hne', hm, List.append_nil, List.reverse_reverse, mkRow, curCodes]

/-- the same behind the blank that separates the name field from the residues -/
theorem phy_cat_sp (cfg : Cfg) (enc : UInt8 → UInt8) (cur : Option Bytes) (c : Bytes)
    (hsp : mapByte cfg.inmap 32 = (.ok, none))
    (hmaps : ∀ t ∈ c, mapByte cfg.inmap t = (.ok, some (enc t))) :
    (if cfg.digital then dsqcat cfg.inmap cur (32 :: c) else strmapcat cfg.inmap cur (32 :: c))
      = (.ok, some (mkRow cfg.digital (curCodes cfg.digital cur ++ c.map enc))) := by
  have hm : mapLoop cfg.inmap (32 :: c) .ok [] = (.ok, (c.map enc).reverse ++ []) := by
    rw [mapLoop, hsp]
    exact mapLoop_enc cfg.inmap enc c [] hmaps
  have hne' : (32 :: c).isEmpty = false := rfl
  cases hd : cfg.digital with
  | true =>
    simp only [if_true, dsqcat, hne', Bool.false_eq_true, if_false, hm, List.append_nil, List.reverse_reverse, mkRow, curCodes]
  | false =>
    simp only [Bool.false_eq_true, if_false, strmapcat, hne', hm, List.append_nil, List.reverse_reverse, mkRow, curCodes]

theorem phyCat_ok (cfg : Cfg) (st : PhySt) (ldest : Nat) (p : Bytes) (cur : Option Bytes) (codes : Bytes)
    (hrow : st.rows[st.idx]? = some cur) (hlen : rowLen cfg.digital cur = ldest)
    (hcat : (if cfg.digital then dsqcat cfg.inmap cur p else strmapcat cfg.inmap cur p) = (.ok, some (mkRow cfg.digital codes))) :
    phyCat cfg st ldest p = .inl (st.rows.set st.idx (some (mkRow cfg.digital codes)), codes.length) := by
  unfold phyCat
  rw [hrow]
  simp only [hlen, bne_self_eq_false, Bool.false_eq_true, if_false, hcat, rowLen_mkRow]

/-! ## list helpers -/

theorem rangeMap_get {α : Type} (n k : Nat) (f : Nat → α) (hk : k < n) : ((List.range n).map f)[k]? = some (f k) := by
  simp [hk]

theorem rangeMap_set {α : Type} (n k : Nat) (f g : Nat → α) (hk : k < n) (hfg : ∀ j, j < n → j ≠ k → g j = f j) :
    ((List.range n).map f).set k (g k) = (List.range n).map g := by
  apply List.ext_getElem?
  intro i
  rw [List.getElem?_set]
  by_cases hik : k = i
  · subst hik; simp [hk]
  · simp only [hik, if_false]
    by_cases hi : i < n
    · simp [hi, hfg i hi (Ne.symm hik)]
    · rw [List.getElem?_eq_none (by simp; omega), List.getElem?_eq_none (by simp; omega)]

theorem rangeMap_const {α : Type} (n : Nat) (f : Nat → α) (a : α) (h : ∀ j, f j = a) :
    List.replicate n a = (List.range n).map f := by
  apply List.ext_getElem?
  intro i
  by_cases hi : i < n
  · simp [hi, h]
  · rw [List.getElem?_eq_none (by simp; omega), List.getElem?_eq_none (by simp; omega)]

theorem rangeMap_congr {α : Type} (n : Nat) (f g : Nat → α) (h : ∀ j, j < n → f j = g j) :
    (List.range n).map f = (List.range n).map g :=
  List.map_congr_left (fun j hj => h j (List.mem_range.mp hj))

theorem allSomeP_map_some {α : Type} (l : List α) : allSomeP (l.map some) = some l := by
  induction l with
  | nil => rfl
  | cons a t ih => simp [allSomeP, ih]

theorem allSomeP_rangeMap {α : Type} (n : Nat) (f : Nat → Option α) (g : Nat → α) (h : ∀ j, j < n → f j = some (g j)) :
    allSomeP ((List.range n).map f) = some ((List.range n).map g) := by
  rw [rangeMap_congr n f (fun j => some (g j)) h, ← allSomeP_map_some ((List.range n).map g), List.map_map]
  rfl

theorem graph_notDelim (c : UInt8) (h : isGraph c = true) : inDelim blankTab c = false := by
  have h0 := graph_ne c 0 (by decide) h
  have h32 := graph_ne c 32 (by decide) h
  have h9 := graph_ne c 9 (by decide) h
  simp [inDelim, blankTab, h0, h32, h9]

theorem lineOk_of_graph (l : Bytes) (h : ∀ c ∈ l, isGraph c = true ∨ c = 32) : lineOk l := by
  constructor
  · intro h10
    rcases h 10 h10 with h | h
    · exact absurd h (by decide)
    · exact absurd h (by decide)
  · intro h13
    rcases h 13 (List.mem_of_getLast? h13) with h | h
    · exact absurd h (by decide)
    · exact absurd h (by decide)

/-! ## what PHYLIP carries -/

/-- the name as the strict PHYLIP reader gives it back: the first ten characters -/
def Msa.phyName (m : Msa) (j : Nat) : Bytes := (m.names.getD j []).take 10

/-- everything PHYLIP represents of `m`: names (ten characters), aligned rows; default weights; all annotation dropped -/
def phylipProject (cfg : Cfg) (m : Msa) : Msa :=
  { digital := cfg.digital, kp := cfg.kp, alen := m.alen, names := (List.range m.nseq).map m.phyName,
    aseq := if cfg.digital then [] else (List.range m.nseq).map m.stored,
    ax := if cfg.digital then (List.range m.nseq).map m.stored else [],
    hasw := false, wgt := List.replicate m.nseq Wgt.dflt, sqdesc := none }

theorem phylipProject_names (cfg : Cfg) (m : Msa) : (phylipProject cfg m).names = m.names.map (·.take 10) := by
  show (List.range m.nseq).map m.phyName = _
  apply List.ext_getElem?
  intro i
  by_cases hi : i < m.nseq
  · have hi' : i < m.names.length := hi
    simp [hi, Msa.phyName, List.getD_eq_getElem?_getD, List.getElem?_eq_getElem hi']
  · have hi' : ¬ i < m.names.length := hi
    rw [List.getElem?_eq_none (by simp; omega), List.getElem?_eq_none (by simp; omega)]

/-- an alignment that PHYLIP can carry and `esl_msafile_phylip_Write` + `esl_msafile_phylip_Read` (strict, name width 10,
    configuration `cfg`) preserve.  `txt i` is the text the writer prints for row `i` (after rectification), `enc` sends a
    written symbol to the stored symbol. -/
structure PhylipWritable (abc : Option Abc) (cfg : Cfg) (enc : UInt8 → UInt8) (txt : Nat → Bytes) (m : Msa) : Prop where
  n1 : 1 ≤ m.nseq
  alen1 : 1 ≤ m.alen
  nmax : m.nseq ≤ 2147483647
  amax : m.alen ≤ 2147483647
  name_ok : ∀ i, i < m.nseq → phyNameOk (m.names.getD i [])
  sp : mapByte cfg.inmap 32 = (.ok, none)
  txt_len : ∀ i, i < m.nseq → (txt i).length = m.alen
  buf_eq : ∀ i, i < m.nseq → ∀ pos, phyBuf abc m i pos = ((txt i).drop pos).take 60
  txt_sym : ∀ i, i < m.nseq → ∀ t ∈ txt i, mapByte cfg.inmap t = (.ok, some (enc t)) ∧ isGraph t = true
  row_enc : ∀ i, i < m.nseq → m.stored i = mkRow cfg.digital ((txt i).map enc)

/-- the row under construction after `pos` columns (NULL before the first) -/
def phyRowAt (cfg : Cfg) (enc : UInt8 → UInt8) (txt : Nat → Bytes) (pos j : Nat) : Option Bytes :=
  if pos = 0 then none else some (mkRow cfg.digital (((txt j).take pos).map enc))

theorem curCodes_phyRowAt (cfg : Cfg) (enc : UInt8 → UInt8) (txt : Nat → Bytes) (pos j : Nat) :
    curCodes cfg.digital (phyRowAt cfg enc txt pos j) = ((txt j).take pos).map enc := by
  unfold phyRowAt
  split
  · rename_i h; subst h; simp
  · simp

theorem rowLen_phyRowAt (cfg : Cfg) (enc : UInt8 → UInt8) (txt : Nat → Bytes) (pos j : Nat) :
    rowLen cfg.digital (phyRowAt cfg enc txt pos j) = ((txt j).take pos).length := by
  unfold phyRowAt
  split
  · rename_i h; subst h; simp [rowLen]
  · rw [rowLen_mkRow]; simp

theorem phyRowAt_pos (cfg : Cfg) (enc : UInt8 → UInt8) (txt : Nat → Bytes) (pos j : Nat) (h : pos ≠ 0) :
    phyRowAt cfg enc txt pos j = some (mkRow cfg.digital (((txt j).take pos).map enc)) := by
  simp [phyRowAt, h]

theorem phyRowAt_full (cfg : Cfg) (enc : UInt8 → UInt8) (txt : Nat → Bytes) (pos j : Nat) (h : pos ≠ 0) (hl : (txt j).length ≤ pos) :
    phyRowAt cfg enc txt pos j = some (mkRow cfg.digital ((txt j).map enc)) := by
  rw [phyRowAt_pos _ _ _ _ _ h, List.take_of_length_le hl]

/-- the name field of a first-block line -/
theorem phyName_write (st : PhySt) (nm b : Bytes) (hnm : phyNameOk nm) (hk : st.idx < st.nseq) (hl : st.names.length = st.nseq)
    (hnw : st.nw = 10) :
    phyName st (padTrunc 10 nm ++ 32 :: b) = .inl (st.names.set st.idx (some (nm.take 10)), 32 :: b) := by
  have hlen : ¬ ((padTrunc 10 nm ++ 32 :: b).length < nameWidth) := by simp [padTrunc10_length, nameWidth]
  have htake : (padTrunc 10 nm ++ 32 :: b).take nameWidth = padTrunc 10 nm := List.take_left' (padTrunc10_length nm)
  have hdrop : (padTrunc 10 nm ++ 32 :: b).drop nameWidth = 32 :: b := List.drop_left' (padTrunc10_length nm)
  have h1 : ¬ (st.idx ≥ st.nseq) := by omega
  have h2 : ¬ (st.idx ≥ st.names.length) := by omega
  unfold phyName
  rw [hnw]
  simp only [nameWidth] at hlen htake hdrop
  simp only [hlen, if_false, htake, rectifyName_padTrunc nm hnm, hdrop, h1, h2]

theorem rowLine_notBlank (nm b : Bytes) (hnm : phyNameOk nm) : isBlankLine (padTrunc 10 nm ++ 32 :: b) = false := by
  obtain ⟨hne, hg⟩ := hnm
  cases nm with
  | nil => exact absurd rfl hne
  | cons c t =>
    have hc := graph_notDelim c (hg c (by simp))
    have hpad : padTrunc 10 (c :: t) = c :: (t.take 9 ++ List.replicate (10 - ((t.take 9).length + 1)) 32) := by
      simp [padTrunc, padRight]
    rw [hpad]
    simp [isBlankLine, hc]

/-! ## sequential: state relation and the steps -/

/-- row `j` while sequence `k` is being read, `pos` columns of it consumed -/
def seqRowF (cfg : Cfg) (enc : UInt8 → UInt8) (txt : Nat → Bytes) (m : Msa) (k pos j : Nat) : Option Bytes :=
  if j < k then phyRowAt cfg enc txt m.alen j else if j = k then phyRowAt cfg enc txt pos j else none

/-- name `j` when the first `c` names are set -/
def seqNameF (m : Msa) (c j : Nat) : Option Bytes := if j < c then some (m.phyName j) else none

theorem seqRowF_self (cfg : Cfg) (enc : UInt8 → UInt8) (txt : Nat → Bytes) (m : Msa) (k pos : Nat) :
    seqRowF cfg enc txt m k pos k = phyRowAt cfg enc txt pos k := by
  simp [seqRowF]

theorem seqRowF_other (cfg : Cfg) (enc : UInt8 → UInt8) (txt : Nat → Bytes) (m : Msa) (k pos pos' j : Nat) (h : j ≠ k) :
    seqRowF cfg enc txt m k pos j = seqRowF cfg enc txt m k pos' j := by
  simp [seqRowF, h]

/-- before the name line of sequence `k` -/
structure SeqRtPre (cfg : Cfg) (enc : UInt8 → UInt8) (txt : Nat → Bytes) (m : Msa) (k : Nat) (st : PhySt) : Prop where
  nw : st.nw = 10
  nseq : st.nseq = m.nseq
  alenStated : st.alenStated = m.alen
  idx : st.idx = k
  alen : st.alen = 0
  names : st.names = (List.range m.nseq).map (seqNameF m k)
  rows : st.rows = (List.range m.nseq).map (seqRowF cfg enc txt m k 0)

/-- inside sequence `k`, `pos` columns consumed -/
structure SeqRt (cfg : Cfg) (enc : UInt8 → UInt8) (txt : Nat → Bytes) (m : Msa) (k pos : Nat) (st : PhySt) : Prop where
  nw : st.nw = 10
  phase : st.phase = .rows
  nseq : st.nseq = m.nseq
  alenStated : st.alenStated = m.alen
  idx : st.idx = k
  alen : st.alen = ((txt k).take pos).length
  names : st.names = (List.range m.nseq).map (seqNameF m (k + 1))
  rows : st.rows = (List.range m.nseq).map (seqRowF cfg enc txt m k pos)

theorem phyRowLine_zero (abc : Option Abc) (m : Msa) (k : Nat) :
    phyRowLine abc m k 0 = padTrunc 10 (m.names.getD k []) ++ 32 :: phyBuf abc m k 0 := by
  simp [phyRowLine, phyNameWidth]

theorem phyRowLine_pos (abc : Option Abc) (m : Msa) (k pos : Nat) (h : 0 < pos) : phyRowLine abc m k pos = phyBuf abc m k pos := by
  have : (pos == 0) = false := by simp; omega
  simp [phyRowLine, this]

/-- the name line of sequence `k` -/
theorem seqLine_first (abc : Option Abc) (cfg : Cfg) (enc : UInt8 → UInt8) (txt : Nat → Bytes) (m : Msa)
    (h : PhylipWritable abc cfg enc txt m) (k : Nat) (hk : k < m.nseq) (st : PhySt) (hst : SeqRtPre cfg enc txt m k st) :
    ∃ st', seqLine cfg st (phyRowLine abc m k 0) = .inl st' ∧ SeqRt cfg enc txt m k 60 st' := by
  have hline : phyRowLine abc m k 0 = padTrunc 10 (m.names.getD k []) ++ 32 :: (txt k).take 60 := by
    rw [phyRowLine_zero, h.buf_eq k hk 0]; simp
  have hnl : st.names.length = st.nseq := by rw [hst.names, hst.nseq]; simp
  have hname := phyName_write st (m.names.getD k []) ((txt k).take 60) (h.name_ok k hk) (by rw [hst.idx, hst.nseq]; exact hk) hnl hst.nw
  have hnif : phyNameIf (st.alen == 0) st (phyRowLine abc m k 0)
      = .inl (st.names.set st.idx (some ((m.names.getD k []).take 10)), 32 :: (txt k).take 60) := by
    rw [hst.alen, hline]
    simp only [phyNameIf, beq_self_eq_true, if_true]
    exact hname
  have hrow : st.rows[st.idx]? = some (phyRowAt cfg enc txt 0 k) := by
    rw [hst.rows, hst.idx, rangeMap_get _ _ _ hk, seqRowF_self]
  have hlen : rowLen cfg.digital (phyRowAt cfg enc txt 0 k) = st.alen := by
    rw [hst.alen, rowLen_phyRowAt]; simp
  have hcat := phy_cat_sp cfg enc (phyRowAt cfg enc txt 0 k) ((txt k).take 60) h.sp
    (fun t ht => (h.txt_sym k hk t (List.mem_of_mem_take ht)).1)
  have hpc := phyCat_ok cfg st st.alen (32 :: (txt k).take 60) _ _ hrow hlen hcat
  rw [curCodes_phyRowAt] at hpc
  simp only [List.take_zero, List.map_nil, List.nil_append] at hpc
  refine ⟨{ st with phase := .rows, names := st.names.set st.idx (some ((m.names.getD k []).take 10)),
                    rows := st.rows.set st.idx (some (mkRow cfg.digital (((txt k).take 60).map enc))),
                    alen := (((txt k).take 60).map enc).length }, ?_, ?_⟩
  · unfold seqLine
    rw [hnif]
    simp only [hpc]
  · exact
      { nw := hst.nw, phase := rfl, nseq := hst.nseq, alenStated := hst.alenStated, idx := hst.idx,
        alen := by simp
        names := by
          show st.names.set st.idx (some ((m.names.getD k []).take 10)) = _
          rw [hst.names, hst.idx]
          have hg : some ((m.names.getD k []).take 10) = seqNameF m (k + 1) k := by simp [seqNameF, Msa.phyName]
          rw [hg]
          refine rangeMap_set _ _ (seqNameF m k) (seqNameF m (k + 1)) hk ?_
          intro j _ hjk
          unfold seqNameF
          by_cases h1 : j < k
          · have : j < k + 1 := by omega
            simp [h1, this]
          · have : ¬ j < k + 1 := by omega
            simp [h1, this]
        rows := by
          show st.rows.set st.idx (some (mkRow cfg.digital (((txt k).take 60).map enc))) = _
          rw [hst.rows, hst.idx]
          have hg : some (mkRow cfg.digital (((txt k).take 60).map enc)) = seqRowF cfg enc txt m k 60 k := by
            rw [seqRowF_self, phyRowAt_pos _ _ _ _ _ (by decide)]
          rw [hg]
          exact rangeMap_set _ _ (seqRowF cfg enc txt m k 0) (seqRowF cfg enc txt m k 60) hk
            (fun j _ hjk => seqRowF_other cfg enc txt m k 60 0 j hjk) }

theorem phylipStep_rows (sequential : Bool) (cfg : Cfg) (st : PhySt) (l : Bytes) (h : st.phase = .rows) :
    phylipStep sequential cfg st l = if sequential then seqStep cfg st l else ilvStep cfg st l := by
  unfold phylipStep; rw [h]

theorem phylipStep_gap (sequential : Bool) (cfg : Cfg) (st : PhySt) (l : Bytes) (h : st.phase = .gap) :
    phylipStep sequential cfg st l = if sequential then seqStep cfg st l else ilvStep cfg st l := by
  unfold phylipStep; rw [h]

theorem buf_ne_nil (txt : Bytes) (pos : Nat) (h : pos < txt.length) : (txt.drop pos).take 60 ≠ [] := by
  intro h0
  have : ((txt.drop pos).take 60).length = 0 := by rw [h0]; rfl
  simp at this
  omega

theorem take_step (txt : Bytes) (pos : Nat) : txt.take (pos + 60) = txt.take pos ++ (txt.drop pos).take 60 := List.take_add

/-- a continuation line of sequence `k` -/
theorem seqStep_block (abc : Option Abc) (cfg : Cfg) (enc : UInt8 → UInt8) (txt : Nat → Bytes) (m : Msa)
    (h : PhylipWritable abc cfg enc txt m) (k : Nat) (hk : k < m.nseq) (pos : Nat) (hpos0 : 0 < pos) (hpos : pos < m.alen)
    (st : PhySt) (hst : SeqRt cfg enc txt m k pos st) :
    ∃ st', phylipStep true cfg st (phyRowLine abc m k pos) = .inl st' ∧ SeqRt cfg enc txt m k (pos + 60) st' := by
  have hlenT := h.txt_len k hk
  have hline : phyRowLine abc m k pos = ((txt k).drop pos).take 60 := by
    rw [phyRowLine_pos abc m k pos hpos0, h.buf_eq k hk pos]
  have halen : st.alen = pos := by rw [hst.alen, List.length_take, hlenT]; omega
  have hnif : phyNameIf (st.alen == 0) st (phyRowLine abc m k pos) = .inl (st.names, ((txt k).drop pos).take 60) := by
    have : (st.alen == 0) = false := by rw [halen]; simp; omega
    rw [this, hline]; rfl
  have hrow : st.rows[st.idx]? = some (phyRowAt cfg enc txt pos k) := by
    rw [hst.rows, hst.idx, rangeMap_get _ _ _ hk, seqRowF_self]
  have hlen : rowLen cfg.digital (phyRowAt cfg enc txt pos k) = st.alen := by
    rw [hst.alen, rowLen_phyRowAt]
  have hcat := phy_cat_plain cfg enc (phyRowAt cfg enc txt pos k) (((txt k).drop pos).take 60)
    (buf_ne_nil _ _ (by rw [hlenT]; exact hpos))
    (fun t ht => (h.txt_sym k hk t (List.mem_of_mem_drop (List.mem_of_mem_take ht))).1)
  have hpc := phyCat_ok cfg st st.alen _ _ _ hrow hlen hcat
  rw [curCodes_phyRowAt, ← List.map_append, ← take_step] at hpc
  refine ⟨{ st with phase := .rows, names := st.names,
                    rows := st.rows.set st.idx (some (mkRow cfg.digital (((txt k).take (pos + 60)).map enc))),
                    alen := (((txt k).take (pos + 60)).map enc).length }, ?_, ?_⟩
  · rw [phylipStep_rows true cfg st _ hst.phase]
    simp only [if_true]
    unfold seqStep
    have hlt : st.alen < st.alenStated := by rw [halen, hst.alenStated]; exact hpos
    simp only [hst.phase, hlt, if_true]
    unfold seqLine
    rw [hnif]
    simp only [hpc]
  · exact
      { nw := hst.nw, phase := rfl, nseq := hst.nseq, alenStated := hst.alenStated, idx := hst.idx,
        alen := by simp
        names := hst.names
        rows := by
          show st.rows.set st.idx (some (mkRow cfg.digital (((txt k).take (pos + 60)).map enc))) = _
          rw [hst.rows, hst.idx]
          have hg : some (mkRow cfg.digital (((txt k).take (pos + 60)).map enc)) = seqRowF cfg enc txt m k (pos + 60) k := by
            rw [seqRowF_self, phyRowAt_pos _ _ _ _ _ (by omega)]
          rw [hg]
          exact rangeMap_set _ _ (seqRowF cfg enc txt m k pos) (seqRowF cfg enc txt m k (pos + 60)) hk
            (fun j _ hjk => seqRowF_other cfg enc txt m k (pos + 60) pos j hjk) }

theorem SeqRt.full (cfg : Cfg) (enc : UInt8 → UInt8) (txt : Nat → Bytes) (m : Msa) (k pos : Nat) (st : PhySt)
    (hl : (txt k).length = m.alen) (ha : 1 ≤ m.alen) (hpos : m.alen ≤ pos) (hst : SeqRt cfg enc txt m k pos st) :
    SeqRt cfg enc txt m k m.alen st :=
  { nw := hst.nw, phase := hst.phase, nseq := hst.nseq, alenStated := hst.alenStated, idx := hst.idx,
    alen := by rw [hst.alen, List.take_of_length_le (by omega), List.take_of_length_le (by omega)]
    names := hst.names
    rows := by
      rw [hst.rows]
      apply rangeMap_congr
      intro j _
      by_cases hjk : j = k
      · subst hjk
        rw [seqRowF_self, seqRowF_self, phyRowAt_full _ _ _ _ _ (by omega) (by omega), phyRowAt_full _ _ _ _ _ (by omega) (by omega)]
      · exact seqRowF_other cfg enc txt m k pos m.alen j hjk }

/-- the continuation lines of sequence `k` -/
theorem seqSteps_blocks (abc : Option Abc) (cfg : Cfg) (enc : UInt8 → UInt8) (txt : Nat → Bytes) (m : Msa)
    (h : PhylipWritable abc cfg enc txt m) (k : Nat) (hk : k < m.nseq) :
    ∀ (fuel pos : Nat) (st : PhySt), m.alen - pos ≤ fuel → 0 < pos → SeqRt cfg enc txt m k pos st →
      ∃ st', stepsFrom (phylipStep true cfg) st ((blockStartsFrom m.alen phyRpl pos).map (phyRowLine abc m k)) = .inl st' ∧
        SeqRt cfg enc txt m k m.alen st' := by
  intro fuel
  induction fuel with
  | zero =>
    intro pos st hf _ hst
    have hge : ¬ (pos < m.alen ∧ 0 < phyRpl) := by omega
    rw [blockStartsFrom]
    simp only [hge, dite_false, List.map_nil, stepsFrom]
    exact ⟨st, rfl, hst.full cfg enc txt m k pos st (h.txt_len k hk) h.alen1 (by omega)⟩
  | succ fuel ih =>
    intro pos st hf hp0 hst
    by_cases hlt : pos < m.alen
    · have hc : pos < m.alen ∧ 0 < phyRpl := ⟨hlt, by decide⟩
      rw [blockStartsFrom]
      simp only [hc, and_self, dite_true, List.map_cons, stepsFrom]
      obtain ⟨st1, hs1, hst1⟩ := seqStep_block abc cfg enc txt m h k hk pos hp0 hlt st hst
      rw [hs1]
      exact ih (pos + phyRpl) st1 (by simp only [phyRpl]; omega) (by omega) hst1
    · have hge : ¬ (pos < m.alen ∧ 0 < phyRpl) := by omega
      rw [blockStartsFrom]
      simp only [hge, dite_false, List.map_nil, stepsFrom]
      exact ⟨st, rfl, hst.full cfg enc txt m k pos st (h.txt_len k hk) h.alen1 (by omega)⟩

theorem blockStarts_cons (alen : Nat) (h : 1 ≤ alen) : blockStarts alen phyRpl = 0 :: blockStartsFrom alen phyRpl phyRpl := by
  have hc : 0 < alen ∧ 0 < phyRpl := ⟨h, by decide⟩
  unfold blockStarts
  rw [blockStartsFrom]
  simp only [hc, and_self, dite_true, Nat.zero_add]

/-- all the lines of sequence `k`, from the state in front of its name line -/
theorem seqSteps_seq (abc : Option Abc) (cfg : Cfg) (enc : UInt8 → UInt8) (txt : Nat → Bytes) (m : Msa)
    (h : PhylipWritable abc cfg enc txt m) (k : Nat) (hk : k < m.nseq) (st st0 : PhySt) (hst0 : SeqRtPre cfg enc txt m k st0)
    (hfirst : phylipStep true cfg st (phyRowLine abc m k 0) = seqLine cfg st0 (phyRowLine abc m k 0)) :
    ∃ st', stepsFrom (phylipStep true cfg) st ((blockStarts m.alen phyRpl).map (phyRowLine abc m k)) = .inl st' ∧
      SeqRt cfg enc txt m k m.alen st' := by
  rw [blockStarts_cons m.alen h.alen1]
  simp only [List.map_cons, stepsFrom]
  obtain ⟨st1, hs1, hst1⟩ := seqLine_first abc cfg enc txt m h k hk st0 hst0
  rw [hfirst, hs1]
  exact seqSteps_blocks abc cfg enc txt m h k hk (m.alen - phyRpl) phyRpl st1 (Nat.le_refl _) (by decide) hst1

theorem phyRowLine_zero_notBlank (abc : Option Abc) (m : Msa) (k : Nat) (hn : phyNameOk (m.names.getD k [])) :
    isBlankLine (phyRowLine abc m k 0) = false := by
  rw [phyRowLine_zero]; exact rowLine_notBlank _ _ hn

/-- from the end of sequence `k` to the name line of sequence `k+1` -/
theorem seqStep_next (abc : Option Abc) (cfg : Cfg) (enc : UInt8 → UInt8) (txt : Nat → Bytes) (m : Msa)
    (h : PhylipWritable abc cfg enc txt m) (k : Nat) (hk : k + 1 < m.nseq) (st : PhySt) (hst : SeqRt cfg enc txt m k m.alen st) :
    ∃ st0, phylipStep true cfg st (phyRowLine abc m (k + 1) 0) = seqLine cfg st0 (phyRowLine abc m (k + 1) 0) ∧
      SeqRtPre cfg enc txt m (k + 1) st0 := by
  have hlenT := h.txt_len k (by omega)
  have halen : st.alen = m.alen := by rw [hst.alen, List.take_of_length_le (by omega), hlenT]
  have ha1 := h.alen1
  refine ⟨{ st with idx := st.idx + 1, alen := 0 }, ?_, ?_⟩
  · rw [phylipStep_rows true cfg st _ hst.phase]
    simp only [if_true]
    unfold seqStep
    have hlt : ¬ (st.alen < st.alenStated) := by rw [halen, hst.alenStated]; omega
    simp only [hst.phase, hlt, if_false, phyRowLine_zero_notBlank abc m (k + 1) (h.name_ok (k + 1) hk), Bool.false_eq_true]
    unfold seqNext
    have h1 : (st.alen != st.alenStated) = false := by rw [halen, hst.alenStated]; simp
    have h2 : st.idx + 1 < st.nseq := by rw [hst.idx, hst.nseq]; exact hk
    simp only [h1, Bool.false_eq_true, if_false, h2, if_true, hst.phase]
  · exact
      { nw := hst.nw, nseq := hst.nseq, alenStated := hst.alenStated
        idx := by show st.idx + 1 = k + 1; rw [hst.idx]
        alen := rfl
        names := hst.names
        rows := by
          show st.rows = _
          rw [hst.rows]
          apply rangeMap_congr
          intro j _
          unfold seqRowF
          by_cases h1 : j < k
          · have : j < k + 1 := by omega
            simp [h1, this]
          · by_cases h2 : j = k
            · subst h2; simp
            · have h3 : ¬ j < k + 1 := by omega
              by_cases h4 : j = k + 1
              · subst h4
                have h5 : ¬ (k + 1 < k) := by omega
                simp [h5, phyRowAt]
              · simp [h1, h2, h3, h4] }

/-- header and the first `k+1` sequences -/
theorem seqSteps_seqs (abc : Option Abc) (cfg : Cfg) (enc : UInt8 → UInt8) (txt : Nat → Bytes) (m : Msa)
    (h : PhylipWritable abc cfg enc txt m) :
    ∀ k, k < m.nseq →
      ∃ st, stepsFrom (phylipStep true cfg) {}
          (phyWrHeader m :: (List.range (k + 1)).flatMap (fun idx => (blockStarts m.alen phyRpl).map fun apos => phyRowLine abc m idx apos))
          = .inl st ∧ SeqRt cfg enc txt m k m.alen st := by
  intro k
  induction k with
  | zero =>
    intro hk
    have hhdr : phylipStep true cfg {} (phyWrHeader m) =
        .inl { phase := .hdr, nseq := m.nseq, alenStated := m.alen, names := List.replicate m.nseq none, rows := List.replicate m.nseq none } := by
      unfold phylipStep
      simp only [phyWrHeader_notBlank, Bool.false_eq_true, if_false]
      exact phyHeader_write {} m h.n1 h.alen1 h.nmax h.amax
    simp only [stepsFrom, hhdr]
    have hpre : SeqRtPre cfg enc txt m 0
        { phase := .hdr, nseq := m.nseq, alenStated := m.alen, names := List.replicate m.nseq none,
          rows := List.replicate m.nseq none, idx := 0, alen := 0 } :=
      { nw := rfl, nseq := rfl, alenStated := rfl, idx := rfl, alen := rfl
        names := rangeMap_const _ _ _ (fun j => by simp [seqNameF])
        rows := rangeMap_const _ _ _ (fun j => by simp [seqRowF, phyRowAt]) }
    have := seqSteps_seq abc cfg enc txt m h 0 hk
      { phase := .hdr, nseq := m.nseq, alenStated := m.alen, names := List.replicate m.nseq none, rows := List.replicate m.nseq none }
      _ hpre (by
        unfold phylipStep
        simp only [phyRowLine_zero_notBlank abc m 0 (h.name_ok 0 hk), Bool.false_eq_true, if_false, phyFirst, if_true])
    simpa using this
  | succ k ih =>
    intro hk
    obtain ⟨st, hs, hst⟩ := ih (by omega)
    obtain ⟨st0, hf, hst0⟩ := seqStep_next abc cfg enc txt m h k hk st hst
    obtain ⟨st', hs', hst'⟩ := seqSteps_seq abc cfg enc txt m h (k + 1) hk st st0 hst0 hf
    refine ⟨st', ?_, hst'⟩
    rw [List.range_succ, List.flatMap_append, ← List.cons_append]
    rw [stepsFrom_append (phylipStep true cfg) _ _ {} st hs]
    simpa using hs'

/-- end of input after the last sequence -/
theorem seqFinish_after (abc : Option Abc) (cfg : Cfg) (enc : UInt8 → UInt8) (txt : Nat → Bytes) (m : Msa)
    (h : PhylipWritable abc cfg enc txt m) (st : PhySt) (hst : SeqRt cfg enc txt m (m.nseq - 1) m.alen st) :
    phylipFinish true cfg st = .ok (phylipProject cfg m, none) := by
  have hn := h.n1
  have ha1 := h.alen1
  have hlenT := h.txt_len (m.nseq - 1) (by omega)
  have halen : st.alen = m.alen := by rw [hst.alen, List.take_of_length_le (by omega), hlenT]
  have hnames : allSomeP st.names = some ((List.range m.nseq).map m.phyName) := by
    rw [hst.names]
    apply allSomeP_rangeMap
    intro j hj
    have : j < m.nseq - 1 + 1 := by omega
    simp [seqNameF, this]
  have hrows : allSomeP st.rows = some ((List.range m.nseq).map m.stored) := by
    rw [hst.rows]
    apply allSomeP_rangeMap
    intro j hj
    have hl := h.txt_len j hj
    unfold seqRowF
    by_cases h1 : j < m.nseq - 1
    · simp only [h1, if_true]
      rw [phyRowAt_full _ _ _ _ _ (by omega) (by omega), h.row_enc j hj]
    · have h2 : j = m.nseq - 1 := by omega
      rw [if_neg h1, if_pos h2, phyRowAt_full _ _ _ _ _ (by omega) (by omega), h.row_enc j hj]
  unfold phylipFinish
  simp only [hst.phase, if_true]
  unfold seqFinish
  have h1 : ¬ (st.idx + 1 < st.nseq) := by rw [hst.idx, hst.nseq]; omega
  have h2 : (st.alen != st.alenStated) = false := by rw [halen, hst.alenStated]; simp
  simp only [hst.phase, h1, if_false, h2, Bool.false_eq_true]
  unfold phyDone
  simp only [hnames, hrows, halen, phylipProject, List.length_map, List.length_range]

/-- **sequential PHYLIP round trip on lines** -/
theorem phylipsRead_writeLines (abc : Option Abc) (cfg : Cfg) (enc : UInt8 → UInt8) (txt : Nat → Bytes) (m : Msa)
    (h : PhylipWritable abc cfg enc txt m) :
    phylipRead true cfg (phylipSequentialLines abc m) = (.ok (phylipProject cfg m), []) := by
  have hn := h.n1
  obtain ⟨st, hs, hst⟩ := seqSteps_seqs abc cfg enc txt m h (m.nseq - 1) (by omega)
  have e : m.nseq - 1 + 1 = m.nseq := by omega
  rw [e] at hs
  unfold phylipRead phylipSequentialLines
  have := runLines_append_inl (phylipStep true cfg) (phylipFinish true cfg) _ [] {} st hs
  rw [List.append_nil] at this
  rw [this]
  simp only [runLines, seqFinish_after abc cfg enc txt m h st hst, phyUnput]

/-! ## the written lines survive `esl_buffer_GetLine` -/

theorem padTrunc_chars (nm : Bytes) (h : phyNameOk nm) : ∀ c ∈ padTrunc 10 nm, isGraph c = true ∨ c = 32 := by
  intro c hc
  simp only [padTrunc, padRight, List.mem_append, List.mem_replicate] at hc
  rcases hc with hc | hc
  · exact Or.inl (h.2 c (List.mem_of_mem_take hc))
  · exact Or.inr hc.2

theorem phyBuf_chars (abc : Option Abc) (cfg : Cfg) (enc : UInt8 → UInt8) (txt : Nat → Bytes) (m : Msa)
    (h : PhylipWritable abc cfg enc txt m) (k : Nat) (hk : k < m.nseq) (pos : Nat) : ∀ c ∈ phyBuf abc m k pos, isGraph c = true := by
  intro c hc
  rw [h.buf_eq k hk pos] at hc
  exact (h.txt_sym k hk c (List.mem_of_mem_drop (List.mem_of_mem_take hc))).2

theorem phyRowLine_ok (abc : Option Abc) (cfg : Cfg) (enc : UInt8 → UInt8) (txt : Nat → Bytes) (m : Msa)
    (h : PhylipWritable abc cfg enc txt m) (k : Nat) (hk : k < m.nseq) (pos : Nat) : lineOk (phyRowLine abc m k pos) := by
  apply lineOk_of_graph
  intro c hc
  by_cases hp : pos = 0
  · subst hp
    rw [phyRowLine_zero] at hc
    rcases List.mem_append.mp hc with hc | hc
    · exact padTrunc_chars _ (h.name_ok k hk) c hc
    · rcases List.mem_cons.mp hc with hc | hc
      · exact Or.inr hc
      · exact Or.inl (phyBuf_chars abc cfg enc txt m h k hk 0 c hc)
  · rw [phyRowLine_pos abc m k pos (by omega)] at hc
    exact Or.inl (phyBuf_chars abc cfg enc txt m h k hk pos c hc)

theorem phyWrHeader_ok (m : Msa) : lineOk (phyWrHeader m) := by
  apply lineOk_of_graph
  intro c hc
  rw [phyWrHeader_eq] at hc
  have hd : ∀ n, c ∈ natDec n → isGraph c = true := by
    intro n hn
    obtain ⟨d, hd, rfl⟩ := natDec_mem n c hn
    exact dch_graph ⟨d, hd⟩
  rcases List.mem_cons.mp hc with hc | hc
  · exact Or.inr hc
  · rcases List.mem_append.mp hc with hc | hc
    · exact Or.inl (hd _ hc)
    · rcases List.mem_cons.mp hc with hc | hc
      · exact Or.inr hc
      · exact Or.inl (hd _ hc)

theorem phylipSequentialLines_ok (abc : Option Abc) (cfg : Cfg) (enc : UInt8 → UInt8) (txt : Nat → Bytes) (m : Msa)
    (h : PhylipWritable abc cfg enc txt m) : ∀ l ∈ phylipSequentialLines abc m, lineOk l := by
  intro l hl
  unfold phylipSequentialLines at hl
  rcases List.mem_cons.mp hl with hl | hl
  · subst hl; exact phyWrHeader_ok m
  · obtain ⟨i, hi, hl⟩ := List.mem_flatMap.mp hl
    obtain ⟨pos, _, hl⟩ := List.mem_map.mp hl
    subst hl
    exact phyRowLine_ok abc cfg enc txt m h i (List.mem_range.mp hi) pos

/-- **sequential PHYLIP round trip on bytes** -/
theorem phylipsRead_write (abc : Option Abc) (cfg : Cfg) (enc : UInt8 → UInt8) (txt : Nat → Bytes) (m : Msa)
    (h : PhylipWritable abc cfg enc txt m) :
    phylipRead true cfg (splitLines (phylipWrite true abc m)) = (.ok (phylipProject cfg m), []) := by
  unfold phylipWrite
  simp only [if_true]
  unfold phylipSequentialWrite joinLF
  rw [splitLines_join _ (phylipSequentialLines_ok abc cfg enc txt m h)]
  exact phylipsRead_writeLines abc cfg enc txt m h

/-! ## interleaved: state relation and the steps -/

/-- the lines `phylip_interleaved_Write` prints: header, first block (with names), then for every further block an empty
    line and the block -/
def phylipInterleavedLines (abc : Option Abc) (m : Msa) : List Bytes :=
  phyWrHeader m :: ((List.range m.nseq).map (fun idx => phyRowLine abc m idx 0)
    ++ (blockStartsFrom m.alen phyRpl phyRpl).flatMap (fun apos => [] :: (List.range m.nseq).map (fun idx => phyRowLine abc m idx apos)))

theorem phylipInterleavedWrite_eq (abc : Option Abc) (m : Msa) (h : 1 ≤ m.alen) :
    phylipInterleavedWrite abc m = (phylipInterleavedLines abc m).flatMap (· ++ [10]) := by
  unfold phylipInterleavedWrite phylipInterleavedLines
  rw [blockStarts_cons m.alen h]
  simp [joinLF, List.flatMap_assoc, List.flatMap_append, List.flatMap_cons]

/-- columns in the block that starts at `pos` -/
def blockLen (m : Msa) (pos : Nat) : Nat := min (pos + 60) m.alen - pos

/-- row `j` in the block starting at `pos` when `idx` rows of the block are read -/
def ilvRowF (cfg : Cfg) (enc : UInt8 → UInt8) (txt : Nat → Bytes) (pos idx j : Nat) : Option Bytes :=
  if j < idx then phyRowAt cfg enc txt (pos + 60) j else phyRowAt cfg enc txt pos j

/-- number of names set: only the first block carries names -/
def ilvNameC (m : Msa) (pos idx : Nat) : Nat := if pos = 0 then idx else m.nseq

/-- in front of row `idx` of the block starting at `pos` -/
structure IlvPre (cfg : Cfg) (enc : UInt8 → UInt8) (txt : Nat → Bytes) (m : Msa) (pos i : Nat) (st : PhySt) : Prop where
  nw : st.nw = 10
  nseq : st.nseq = m.nseq
  alenStated : st.alenStated = m.alen
  idx : st.idx = i
  alen : st.alen = pos
  nb : (st.nblocks == 0) = decide (pos = 0)
  blk : i ≠ 0 → st.blockAlen = blockLen m pos
  names : st.names = (List.range m.nseq).map (seqNameF m (ilvNameC m pos i))
  rows : st.rows = (List.range m.nseq).map (ilvRowF cfg enc txt pos i)

/-- … and the row loop is running -/
structure IlvRt (cfg : Cfg) (enc : UInt8 → UInt8) (txt : Nat → Bytes) (m : Msa) (pos idx : Nat) (st : PhySt) : Prop where
  phase : st.phase = .rows
  pre : IlvPre cfg enc txt m pos idx st

theorem phyRowLine_notBlank (abc : Option Abc) (cfg : Cfg) (enc : UInt8 → UInt8) (txt : Nat → Bytes) (m : Msa)
    (h : PhylipWritable abc cfg enc txt m) (k : Nat) (hk : k < m.nseq) (pos : Nat) (hpos : pos < m.alen) :
    isBlankLine (phyRowLine abc m k pos) = false := by
  by_cases hp : pos = 0
  · subst hp; exact phyRowLine_zero_notBlank abc m k (h.name_ok k hk)
  · rw [phyRowLine_pos abc m k pos (by omega), h.buf_eq k hk pos]
    have hne := buf_ne_nil (txt k) pos (by rw [h.txt_len k hk]; exact hpos)
    cases hb : ((txt k).drop pos).take 60 with
    | nil => exact absurd hb hne
    | cons c t =>
      have hc : c ∈ txt k := List.mem_of_mem_drop (List.mem_of_mem_take (by rw [hb]; simp))
      simp [isBlankLine, graph_notDelim c (h.txt_sym k hk c hc).2]

theorem seqNameF_succ (m : Msa) (k j : Nat) (hjk : j ≠ k) : seqNameF m (k + 1) j = seqNameF m k j := by
  unfold seqNameF
  by_cases h1 : j < k
  · have : j < k + 1 := by omega
    simp [h1, this]
  · have : ¬ j < k + 1 := by omega
    simp [h1, this]

/-- one row line of a block -/
theorem ilvLine_row (abc : Option Abc) (cfg : Cfg) (enc : UInt8 → UInt8) (txt : Nat → Bytes) (m : Msa)
    (h : PhylipWritable abc cfg enc txt m) (pos : Nat) (hpos : pos < m.alen) (idx : Nat) (hidx : idx < m.nseq)
    (st : PhySt) (hst : IlvPre cfg enc txt m pos idx st) :
    ∃ st', ilvLine cfg st (phyRowLine abc m idx pos) = .inl st' ∧ IlvRt cfg enc txt m pos (idx + 1) st' := by
  have hlenT := h.txt_len idx hidx
  have hrow : st.rows[st.idx]? = some (phyRowAt cfg enc txt pos idx) := by
    rw [hst.rows, hst.idx, rangeMap_get _ _ _ hidx]; simp [ilvRowF]
  have hlen : rowLen cfg.digital (phyRowAt cfg enc txt pos idx) = st.alen := by
    rw [hst.alen, rowLen_phyRowAt, List.length_take, hlenT]; omega
  have hmaps : ∀ t ∈ ((txt idx).drop pos).take 60, mapByte cfg.inmap t = (.ok, some (enc t)) :=
    fun t ht => (h.txt_sym idx hidx t (List.mem_of_mem_drop (List.mem_of_mem_take ht))).1
  -- the name field and the residues behind it
  have hnif : ∃ p, phyNameIf (st.nblocks == 0) st (phyRowLine abc m idx pos)
        = .inl ((List.range m.nseq).map (seqNameF m (ilvNameC m pos (idx + 1))), p) ∧
      (if cfg.digital then dsqcat cfg.inmap (phyRowAt cfg enc txt pos idx) p else strmapcat cfg.inmap (phyRowAt cfg enc txt pos idx) p)
        = (.ok, some (mkRow cfg.digital (((txt idx).take (pos + 60)).map enc))) := by
    by_cases hp : pos = 0
    · subst hp
      have hline : phyRowLine abc m idx 0 = padTrunc 10 (m.names.getD idx []) ++ 32 :: ((txt idx).drop 0).take 60 := by
        rw [phyRowLine_zero, h.buf_eq idx hidx 0]
      have hnl : st.names.length = st.nseq := by rw [hst.names, hst.nseq]; simp
      have hname := phyName_write st (m.names.getD idx []) (((txt idx).drop 0).take 60) (h.name_ok idx hidx)
        (by rw [hst.idx, hst.nseq]; exact hidx) hnl hst.nw
      refine ⟨32 :: ((txt idx).drop 0).take 60, ?_, ?_⟩
      · rw [hst.nb, hline]
        simp only [decide_true, phyNameIf, if_true, hname, hst.names, hst.idx]
        have hg : some ((m.names.getD idx []).take 10) = seqNameF m (idx + 1) idx := by simp [seqNameF, Msa.phyName]
        rw [hg]
        have : ilvNameC m 0 idx = idx := by simp [ilvNameC]
        rw [this]
        have : ilvNameC m 0 (idx + 1) = idx + 1 := by simp [ilvNameC]
        rw [this]
        rw [rangeMap_set _ _ (seqNameF m idx) (seqNameF m (idx + 1)) hidx (fun j _ hjk => seqNameF_succ m idx j hjk)]
      · have := phy_cat_sp cfg enc (phyRowAt cfg enc txt 0 idx) (((txt idx).drop 0).take 60) h.sp hmaps
        rw [this, curCodes_phyRowAt, ← List.map_append, ← take_step]
    · have hline : phyRowLine abc m idx pos = ((txt idx).drop pos).take 60 := by
        rw [phyRowLine_pos abc m idx pos (by omega), h.buf_eq idx hidx pos]
      refine ⟨((txt idx).drop pos).take 60, ?_, ?_⟩
      · have hd : decide (pos = 0) = false := by simp [hp]
        rw [hst.nb, hline, hd]
        simp only [phyNameIf, Bool.false_eq_true, if_false, hst.names]
        have : ilvNameC m pos idx = ilvNameC m pos (idx + 1) := by simp [ilvNameC, hp]
        rw [this]
      · have := phy_cat_plain cfg enc (phyRowAt cfg enc txt pos idx) (((txt idx).drop pos).take 60)
          (buf_ne_nil _ _ (by rw [hlenT]; exact hpos)) hmaps
        rw [this, curCodes_phyRowAt, ← List.map_append, ← take_step]
  obtain ⟨p, hnif, hcat⟩ := hnif
  have hpc := phyCat_ok cfg st st.alen p _ _ hrow hlen hcat
  have hclen : (((txt idx).take (pos + 60)).map enc).length - st.alen = blockLen m pos := by
    rw [hst.alen, List.length_map, List.length_take, hlenT]; rfl
  have hrows : st.rows.set st.idx (some (mkRow cfg.digital (((txt idx).take (pos + 60)).map enc)))
      = (List.range m.nseq).map (ilvRowF cfg enc txt pos (idx + 1)) := by
    rw [hst.rows, hst.idx]
    have hg : some (mkRow cfg.digital (((txt idx).take (pos + 60)).map enc)) = ilvRowF cfg enc txt pos (idx + 1) idx := by
      simp [ilvRowF, phyRowAt]
    rw [hg]
    refine rangeMap_set _ _ (ilvRowF cfg enc txt pos idx) (ilvRowF cfg enc txt pos (idx + 1)) hidx ?_
    intro j _ hjk
    unfold ilvRowF
    by_cases h1 : j < idx
    · have : j < idx + 1 := by omega
      simp [h1, this]
    · have : ¬ j < idx + 1 := by omega
      simp [h1, this]
  have mk : ∀ ba, ba = blockLen m pos →
      IlvRt cfg enc txt m pos (idx + 1)
        { st with phase := .rows, names := (List.range m.nseq).map (seqNameF m (ilvNameC m pos (idx + 1))),
                  rows := st.rows.set st.idx (some (mkRow cfg.digital (((txt idx).take (pos + 60)).map enc))),
                  blockAlen := ba, idx := st.idx + 1 } := by
    intro ba hba
    exact
      { phase := rfl
        pre :=
          { nw := hst.nw, nseq := hst.nseq, alenStated := hst.alenStated
            idx := by show st.idx + 1 = idx + 1; rw [hst.idx]
            alen := hst.alen, nb := hst.nb
            blk := fun _ => hba
            names := rfl
            rows := hrows } }
  unfold ilvLine
  rw [hnif]
  simp only [hpc]
  by_cases h0 : idx = 0
  · have : (st.idx == 0) = true := by rw [hst.idx, h0]; rfl
    simp only [this, if_true]
    exact ⟨_, rfl, mk _ hclen⟩
  · have : (st.idx == 0) = false := by rw [hst.idx]; simpa using h0
    have hb : ((((txt idx).take (pos + 60)).map enc).length - st.alen != st.blockAlen) = false := by
      rw [hclen, hst.blk h0]; simp
    simp only [this, Bool.false_eq_true, if_false, hb]
    exact ⟨_, rfl, mk _ (hst.blk h0)⟩

/-- a row line met inside the row loop -/
theorem ilvStep_row (abc : Option Abc) (cfg : Cfg) (enc : UInt8 → UInt8) (txt : Nat → Bytes) (m : Msa)
    (h : PhylipWritable abc cfg enc txt m) (pos : Nat) (hpos : pos < m.alen) (idx : Nat) (hidx : idx < m.nseq)
    (st : PhySt) (hst : IlvRt cfg enc txt m pos idx st) :
    ∃ st', phylipStep false cfg st (phyRowLine abc m idx pos) = .inl st' ∧ IlvRt cfg enc txt m pos (idx + 1) st' := by
  rw [phylipStep_rows false cfg st _ hst.phase]
  simp only [Bool.false_eq_true, if_false]
  unfold ilvStep
  have hc : (decide (st.idx < st.nseq) && !isBlankLine (phyRowLine abc m idx pos)) = true := by
    rw [phyRowLine_notBlank abc cfg enc txt m h idx hidx pos hpos, hst.pre.idx, hst.pre.nseq]
    simp [hidx]
  simp only [hst.phase, hc, if_true]
  exact ilvLine_row abc cfg enc txt m h pos hpos idx hidx st hst.pre

/-- the first `i` lines of the block starting at `pos` -/
theorem ilvSteps_block (abc : Option Abc) (cfg : Cfg) (enc : UInt8 → UInt8) (txt : Nat → Bytes) (m : Msa)
    (h : PhylipWritable abc cfg enc txt m) (pos : Nat) (hpos : pos < m.alen) (st st0 : PhySt)
    (hst0 : IlvPre cfg enc txt m pos 0 st0)
    (hfirst : phylipStep false cfg st (phyRowLine abc m 0 pos) = ilvLine cfg st0 (phyRowLine abc m 0 pos)) :
    ∀ i, 1 ≤ i → i ≤ m.nseq →
      ∃ st', stepsFrom (phylipStep false cfg) st ((List.range i).map fun idx => phyRowLine abc m idx pos) = .inl st' ∧
        IlvRt cfg enc txt m pos i st' := by
  intro i
  induction i with
  | zero => intro h0; omega
  | succ i ih =>
    intro _ hi
    by_cases hi0 : i = 0
    · subst hi0
      obtain ⟨st1, hs1, hst1⟩ := ilvLine_row abc cfg enc txt m h pos hpos 0 (by omega) st0 hst0
      refine ⟨st1, ?_, hst1⟩
      have e1 : (List.range (0 + 1)).map (fun idx => phyRowLine abc m idx pos) = [phyRowLine abc m 0 pos] := rfl
      rw [e1]
      simp only [stepsFrom, hfirst, hs1]
    · obtain ⟨st1, hs1, hst1⟩ := ih (by omega) (by omega)
      obtain ⟨st2, hs2, hst2⟩ := ilvStep_row abc cfg enc txt m h pos hpos i (by omega) st1 hst1
      refine ⟨st2, ?_, hst2⟩
      rw [List.range_succ, List.map_append, stepsFrom_append (phylipStep false cfg) _ _ st st1 hs1]
      simp only [List.map_cons, List.map_nil, stepsFrom, hs2]

theorem blockLen_full (m : Msa) (pos : Nat) (h : pos + 60 ≤ m.alen) : pos + blockLen m pos = pos + 60 := by
  unfold blockLen; omega

theorem blockLen_last (m : Msa) (pos : Nat) (h1 : pos < m.alen) (h : m.alen ≤ pos + 60) : pos + blockLen m pos = m.alen := by
  unfold blockLen; omega

/-- the empty line after a full block and the first line of the next one -/
theorem ilvStep_gap (abc : Option Abc) (cfg : Cfg) (enc : UInt8 → UInt8) (txt : Nat → Bytes) (m : Msa)
    (h : PhylipWritable abc cfg enc txt m) (pos : Nat) (hnext : pos + 60 < m.alen)
    (st : PhySt) (hst : IlvRt cfg enc txt m pos m.nseq st) :
    ∃ stg st0, phylipStep false cfg st [] = .inl stg ∧
      phylipStep false cfg stg (phyRowLine abc m 0 (pos + 60)) = ilvLine cfg st0 (phyRowLine abc m 0 (pos + 60)) ∧
      IlvPre cfg enc txt m (pos + 60) 0 st0 := by
  have hn := h.n1
  have hblk := hst.pre.blk (by omega)
  have hal : st.alen + st.blockAlen = pos + 60 := by rw [hst.pre.alen, hblk]; exact blockLen_full m pos (by omega)
  refine ⟨{ st with nblocks := st.nblocks + 1, alen := st.alen + st.blockAlen, idx := 0, phase := .gap },
          { st with nblocks := st.nblocks + 1, alen := st.alen + st.blockAlen, idx := 0, phase := .gap }, ?_, ?_, ?_⟩
  · rw [phylipStep_rows false cfg st _ hst.phase]
    simp only [Bool.false_eq_true, if_false]
    unfold ilvStep
    have hc : ¬ (st.idx < st.nseq) := by rw [hst.pre.idx, hst.pre.nseq]; omega
    have he : (st.idx != st.nseq) = false := by rw [hst.pre.idx, hst.pre.nseq]; simp
    have hbl : isBlankLine ([] : Bytes) = true := rfl
    simp only [hst.phase, hc, decide_false, Bool.false_and, Bool.false_eq_true, if_false, ilvEndBlock, he, hbl, if_true]
  · rw [phylipStep_gap false cfg _ _ rfl]
    simp only [Bool.false_eq_true, if_false]
    unfold ilvStep
    have hnb := phyRowLine_notBlank abc cfg enc txt m h 0 (by omega) (pos + 60) hnext
    simp only [hnb, Bool.false_eq_true, if_false]
    unfold ilvNext
    have hlt : st.alen + st.blockAlen < st.alenStated := by rw [hal, hst.pre.alenStated]; exact hnext
    simp only [hlt, if_true]
  · exact
      { nw := hst.pre.nw, nseq := hst.pre.nseq, alenStated := hst.pre.alenStated, idx := rfl
        alen := hal
        nb := by
          show (st.nblocks + 1 == 0) = decide (pos + 60 = 0)
          simp
        blk := fun h0 => absurd rfl h0
        names := by
          show st.names = _
          rw [hst.pre.names]
          have : ilvNameC m pos m.nseq = ilvNameC m (pos + 60) 0 := by
            unfold ilvNameC
            by_cases hp : pos = 0
            · simp [hp]
            · simp [hp]
          rw [this]
        rows := by
          show st.rows = _
          rw [hst.pre.rows]
          apply rangeMap_congr
          intro j hj
          simp [ilvRowF, hj] }

/-- all the further blocks -/
theorem ilvSteps_blocks (abc : Option Abc) (cfg : Cfg) (enc : UInt8 → UInt8) (txt : Nat → Bytes) (m : Msa)
    (h : PhylipWritable abc cfg enc txt m) :
    ∀ (fuel pos : Nat) (st : PhySt), m.alen - pos ≤ fuel → pos < m.alen → IlvRt cfg enc txt m pos m.nseq st →
      ∃ st' pos', stepsFrom (phylipStep false cfg) st
          ((blockStartsFrom m.alen phyRpl (pos + phyRpl)).flatMap
            (fun apos => [] :: (List.range m.nseq).map (fun idx => phyRowLine abc m idx apos))) = .inl st' ∧
        IlvRt cfg enc txt m pos' m.nseq st' ∧ pos' < m.alen ∧ m.alen ≤ pos' + 60 := by
  intro fuel
  induction fuel with
  | zero => intro pos st hf hp _; omega
  | succ fuel ih =>
    intro pos st hf hp hst
    have e60 : phyRpl = 60 := rfl
    simp only [e60] at ih ⊢
    by_cases hlt : pos + 60 < m.alen
    · have hc : pos + 60 < m.alen ∧ 0 < 60 := ⟨hlt, by decide⟩
      rw [blockStartsFrom]
      simp only [hc, and_self, dite_true, List.flatMap_cons, List.cons_append, stepsFrom]
      obtain ⟨stg, st0, hs1, hf1, hst0⟩ := ilvStep_gap abc cfg enc txt m h pos hlt st hst
      rw [hs1]
      obtain ⟨st2, hs2, hst2⟩ := ilvSteps_block abc cfg enc txt m h (pos + 60) hlt stg st0 hst0 hf1 m.nseq h.n1 (Nat.le_refl _)
      simp only
      rw [stepsFrom_append (phylipStep false cfg) _ _ stg st2 hs2]
      exact ih (pos + 60) st2 (by omega) hlt hst2
    · have hge : ¬ (pos + 60 < m.alen ∧ 0 < 60) := fun hh => hlt hh.1
      rw [blockStartsFrom]
      simp only [hge, dite_false, List.flatMap_nil, stepsFrom]
      exact ⟨st, pos, rfl, hst, hp, by omega⟩

/-- end of input after the last block -/
theorem ilvFinish_after (abc : Option Abc) (cfg : Cfg) (enc : UInt8 → UInt8) (txt : Nat → Bytes) (m : Msa)
    (h : PhylipWritable abc cfg enc txt m) (pos : Nat) (hp : pos < m.alen) (hlast : m.alen ≤ pos + 60)
    (st : PhySt) (hst : IlvRt cfg enc txt m pos m.nseq st) :
    phylipFinish false cfg st = .ok (phylipProject cfg m, none) := by
  have hn := h.n1
  have hblk := hst.pre.blk (by omega)
  have hal : st.alen + st.blockAlen = m.alen := by rw [hst.pre.alen, hblk]; exact blockLen_last m pos hp hlast
  have hnames : allSomeP st.names = some ((List.range m.nseq).map m.phyName) := by
    rw [hst.pre.names]
    apply allSomeP_rangeMap
    intro j hj
    have : j < ilvNameC m pos m.nseq := by
      unfold ilvNameC; split <;> exact hj
    simp [seqNameF, this]
  have hrows : allSomeP st.rows = some ((List.range m.nseq).map m.stored) := by
    rw [hst.pre.rows]
    apply allSomeP_rangeMap
    intro j hj
    have hl := h.txt_len j hj
    simp only [ilvRowF, hj, if_true]
    rw [phyRowAt_full _ _ _ _ _ (by omega) (by omega), h.row_enc j hj]
  unfold phylipFinish
  simp only [hst.phase, Bool.false_eq_true, if_false]
  unfold ilvFinish
  have he : (st.idx != st.nseq) = false := by rw [hst.pre.idx, hst.pre.nseq]; simp
  simp only [hst.phase, ilvEndBlock, he, Bool.false_eq_true, if_false]
  unfold ilvEnd
  have h2 : (st.alen + st.blockAlen != st.alenStated) = false := by rw [hal, hst.pre.alenStated]; simp
  simp only [h2, Bool.false_eq_true, if_false]
  unfold phyDone
  simp only [hnames, hrows, hal, phylipProject, List.length_map, List.length_range]

/-- **interleaved PHYLIP round trip on lines** -/
theorem phylipRead_writeLines (abc : Option Abc) (cfg : Cfg) (enc : UInt8 → UInt8) (txt : Nat → Bytes) (m : Msa)
    (h : PhylipWritable abc cfg enc txt m) :
    phylipRead false cfg (phylipInterleavedLines abc m) = (.ok (phylipProject cfg m), []) := by
  have hn := h.n1
  have ha := h.alen1
  -- header
  have hhdr : phylipStep false cfg {} (phyWrHeader m) =
      .inl { phase := .hdr, nseq := m.nseq, alenStated := m.alen, names := List.replicate m.nseq none, rows := List.replicate m.nseq none } := by
    unfold phylipStep
    simp only [phyWrHeader_notBlank, Bool.false_eq_true, if_false]
    exact phyHeader_write {} m h.n1 h.alen1 h.nmax h.amax
  -- first block
  have hpre : IlvPre cfg enc txt m 0 0
      { phase := .hdr, nseq := m.nseq, alenStated := m.alen, names := List.replicate m.nseq none,
        rows := List.replicate m.nseq none, idx := 0, alen := 0, nblocks := 0 } :=
    { nw := rfl, nseq := rfl, alenStated := rfl, idx := rfl, alen := rfl, nb := rfl
      blk := fun h0 => absurd rfl h0
      names := rangeMap_const _ _ _ (fun j => by simp [seqNameF, ilvNameC])
      rows := rangeMap_const _ _ _ (fun j => by simp [ilvRowF, phyRowAt]) }
  obtain ⟨st1, hs1, hst1⟩ := ilvSteps_block abc cfg enc txt m h 0 (by omega)
    { phase := .hdr, nseq := m.nseq, alenStated := m.alen, names := List.replicate m.nseq none, rows := List.replicate m.nseq none }
    _ hpre (by
      unfold phylipStep
      simp only [phyRowLine_zero_notBlank abc m 0 (h.name_ok 0 (by omega)), Bool.false_eq_true, if_false, phyFirst])
    m.nseq hn (Nat.le_refl _)
  obtain ⟨st2, pos', hs2, hst2, hp', hlast⟩ := ilvSteps_blocks abc cfg enc txt m h m.alen 0 st1 (by omega) (by omega) hst1
  have hall : stepsFrom (phylipStep false cfg) {} (phylipInterleavedLines abc m) = .inl st2 := by
    unfold phylipInterleavedLines
    simp only [stepsFrom, hhdr]
    rw [stepsFrom_append (phylipStep false cfg) _ _ _ st1 hs1]
    simpa using hs2
  unfold phylipRead
  have := runLines_append_inl (phylipStep false cfg) (phylipFinish false cfg) _ [] {} st2 hall
  rw [List.append_nil] at this
  rw [this]
  simp only [runLines, ilvFinish_after abc cfg enc txt m h pos' hp' hlast st2 hst2, phyUnput]

theorem phylipInterleavedLines_ok (abc : Option Abc) (cfg : Cfg) (enc : UInt8 → UInt8) (txt : Nat → Bytes) (m : Msa)
    (h : PhylipWritable abc cfg enc txt m) : ∀ l ∈ phylipInterleavedLines abc m, lineOk l := by
  intro l hl
  unfold phylipInterleavedLines at hl
  rcases List.mem_cons.mp hl with hl | hl
  · subst hl; exact phyWrHeader_ok m
  · rcases List.mem_append.mp hl with hl | hl
    · obtain ⟨i, hi, hl⟩ := List.mem_map.mp hl
      subst hl
      exact phyRowLine_ok abc cfg enc txt m h i (List.mem_range.mp hi) 0
    · obtain ⟨pos, _, hl⟩ := List.mem_flatMap.mp hl
      rcases List.mem_cons.mp hl with hl | hl
      · subst hl; exact ⟨by simp, by simp⟩
      · obtain ⟨i, hi, hl⟩ := List.mem_map.mp hl
        subst hl
        exact phyRowLine_ok abc cfg enc txt m h i (List.mem_range.mp hi) pos

/-- **interleaved PHYLIP round trip on bytes** -/
theorem phylipRead_write (abc : Option Abc) (cfg : Cfg) (enc : UInt8 → UInt8) (txt : Nat → Bytes) (m : Msa)
    (h : PhylipWritable abc cfg enc txt m) :
    phylipRead false cfg (splitLines (phylipWrite false abc m)) = (.ok (phylipProject cfg m), []) := by
  unfold phylipWrite
  simp only [Bool.false_eq_true, if_false]
  rw [phylipInterleavedWrite_eq abc m h.alen1, splitLines_join _ (phylipInterleavedLines_ok abc cfg enc txt m h)]
  exact phylipRead_writeLines abc cfg enc txt m h

end EaselModel.Msafile
