import EaselModel.Msafile.Guess
/-! # `esl_msafile_Open(byp_abc, msafile, env, format, fmtd, &afp)`: the part before `msafile_OpenBuffer`

`esl_msafile_Open` creates the `ESL_MSAFILE`, then `esl_buffer_Open(msafile, env, &afp->bf)`:
`esl_FileExists(msafile)` in the working directory, else `esl_FileEnvOpen` over the colon-separated directory list in
`$env`; a name found nowhere goes through `esl_buffer_OpenFile` once more only to get its message ("couldn't open %s for
reading"), status `eslENOTFOUND`; a directory is refused by `esl_buffer_OpenFile` with `eslENOTFOUND` and "%s is a
directory, not a file" (fix 5d94071).  On `eslENOTFOUND` the caller gets `afp` IN AN ERROR STATE: `afp->errmsg` is the
buffer's message, `afp->abc = NULL`, and `esl_msafile_Close(afp)` is the only thing left to do.  A file that is found is
handed to `msafile_OpenBuffer` = `openModelW` with its path as `bf->filename` (format autodetection looks at the suffix).

What the file system answers is the parameter `PathKind` (the model does not contain a file system). The `.gz` pipe
(`esl_buffer_OpenPipe`, status `eslFAIL` when gzip fails) and "-" (stdin = `esl_buffer_OpenStream`) are not modelled here. -/
namespace EaselModel.Msafile

/-- what `esl_FileExists` / `esl_FileEnvOpen` / `fopen` + `fstat` find for the name -/
inductive PathKind where
  | missing                                   -- not in the working directory, not in any directory of `$env` (or no `env`)
  | directory                                 -- the name is a directory
  | file (path : Bytes) (content : Bytes)     -- a regular file: its path (`<dir>/<name>` when found through `$env`) and bytes
deriving Repr

inductive OpenNameRes where
  | enotfound (msg : String)                  -- `afp` returned in an error state with this message
  | opened (r : OpenRes)                      -- what `msafile_OpenBuffer` decides on the file's bytes
deriving Repr, DecidableEq

/-- `esl_msafile_Open` up to and including `msafile_OpenBuffer` -/
def openByName (nw0 : Nat) (fsel : FmtSel) (asel : AbcSel) (pk : PathKind) : OpenNameRes :=
  match pk with
  | .missing => .enotfound "couldn't open file for reading"
  | .directory => .enotfound "is a directory, not a file"
  | .file path content => .opened (openModelW nw0 fsel asel (some path) (splitLines content))

/-- the message of the error state is never empty (the caller prints it: "Alignment input open failed.\n   %s") -/
theorem openByName_enotfound_msg (nw0 : Nat) (fsel : FmtSel) (asel : AbcSel) (pk : PathKind) (msg : String)
    (h : openByName nw0 fsel asel pk = .enotfound msg) : msg ≠ "" := by
  cases pk with
  | missing => cases h; decide
  | directory => cases h; decide
  | file p c => cases h

/-- `eslENOTFOUND` exactly when the name is no regular file -/
theorem openByName_enotfound_iff (nw0 : Nat) (fsel : FmtSel) (asel : AbcSel) (pk : PathKind) :
    (∃ msg, openByName nw0 fsel asel pk = .enotfound msg) ↔ (∀ p c, pk ≠ .file p c) := by
  cases pk with
  | missing => exact ⟨fun _ p c h => (by cases h), fun _ => ⟨_, rfl⟩⟩
  | directory => exact ⟨fun _ p c h => (by cases h), fun _ => ⟨_, rfl⟩⟩
  | file p c => exact ⟨fun ⟨m, h⟩ => (by cases h), fun h => absurd rfl (h p c)⟩

end EaselModel.Msafile
