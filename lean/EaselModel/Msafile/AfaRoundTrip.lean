import EaselModel.Msafile.RoundTrip
import EaselModel.Msafile.Afa
/-! Aligned FASTA: reading what `esl_msafile_afa_Write` wrote gives the alignment back (C03). -/
namespace EaselModel.Msafile

/-! ## 60-column pieces -/

theorem chunks60_flatten (b : Bytes) : (chunks60 b).flatten = b := by
  induction b using chunks60.induct with
  | case1 b h hb => unfold chunks60; simp [h, hb]; exact (List.isEmpty_iff.mp hb)
  | case2 b h hb => unfold chunks60; simp [h, hb]
  | case3 b h ih => unfold chunks60; simp [h, ih]

theorem chunks60_ne (b : Bytes) : ∀ c ∈ chunks60 b, c ≠ [] := by
  induction b using chunks60.induct with
  | case1 b h hb => unfold chunks60; simp [h, hb]
  | case2 b h hb =>
    unfold chunks60; simp only [h, hb]; intro c hc
    simp at hc; subst hc; intro h0; simp [h0] at hb
  | case3 b h ih =>
    unfold chunks60; simp only [h]; intro c hc
    simp only [dite_false, List.mem_cons] at hc
    rcases hc with hc | hc
    · subst hc; intro h0
      have h1 : (List.take 60 b).length = 0 := by rw [h0]; rfl
      rw [List.length_take] at h1
      omega
    · exact ih c hc

theorem chunks60_mem (b : Bytes) : ∀ c ∈ chunks60 b, ∀ x ∈ c, x ∈ b := by
  intro c hc x hx
  have : x ∈ (chunks60 b).flatten := List.mem_flatten.mpr ⟨c, hc, hx⟩
  rwa [chunks60_flatten] at this

/-! ## mapping a written piece back -/

theorem mapLoop_enc (m : InMap) (enc : UInt8 → UInt8) :
    ∀ (text : Bytes) (acc : Bytes), (∀ t ∈ text, mapByte m t = (.ok, some (enc t))) →
      mapLoop m text .ok acc = (.ok, (text.map enc).reverse ++ acc) := by
  intro text
  induction text with
  | nil => intro acc _; simp [mapLoop]
  | cons t text ih =>
    intro acc h
    have ht := h t (by simp)
    unfold mapLoop
    rw [ht]
    simp only
    rw [ih (enc t :: acc) (fun t' ht' => h t' (by simp [ht']))]
    simp

/-- the stored form of a row: text rows are the symbols, digital rows are sentinel-delimited codes -/
def mkRow (digital : Bool) (codes : Bytes) : Bytes :=
  if digital then dsqSENTINEL :: codes ++ [dsqSENTINEL] else codes

/-- the symbols/codes accumulated so far in the row under construction -/
def curCodes (digital : Bool) (cur : Option Bytes) : Bytes :=
  if digital then dsqCodes cur else cur.getD []

@[simp] theorem curCodes_none (d : Bool) : curCodes d none = [] := by cases d <;> simp [curCodes, dsqCodes]

@[simp] theorem curCodes_mkRow (d : Bool) (codes : Bytes) : curCodes d (some (mkRow d codes)) = codes := by
  cases d <;> simp [curCodes, mkRow, dsqCodes]

theorem rowLen_mkRow (d : Bool) (codes : Bytes) : rowLen d (some (mkRow d codes)) = codes.length := by
  cases d <;> simp [rowLen, mkRow]

/-- a written piece: not empty, made of symbols the input map turns back into the stored symbol, none of them blank, and not
    starting a new record -/
structure PieceOk (cfg : Cfg) (enc : UInt8 → UInt8) (c : Bytes) : Prop where
  ne : c ≠ []
  maps : ∀ t ∈ c, mapByte cfg.inmap t = (.ok, some (enc t))
  nospace : ∀ t ∈ c, isSpace t = false
  nogt : ∀ t ∈ c, t ≠ 62

theorem cat_piece (cfg : Cfg) (enc : UInt8 → UInt8) (cur : Option Bytes) (c : Bytes) (h : PieceOk cfg enc c)
    (hcur : cur = none ∨ ∃ codes, cur = some (mkRow cfg.digital codes)) :
    (if cfg.digital then dsqcat cfg.inmap cur c else strmapcat cfg.inmap cur c)
      = (.ok, some (mkRow cfg.digital (curCodes cfg.digital cur ++ c.map enc))) := by
  have hne : c.isEmpty = false := by
    cases c with
    | nil => exact absurd rfl h.ne
    | cons _ _ => rfl
  have hm := mapLoop_enc cfg.inmap enc c [] h.maps
  cases hd : cfg.digital with
  | true =>
    simp only [if_true, dsqcat, hne, Bool.false_eq_true, if_false, hm, List.append_nil, List.reverse_reverse, mkRow, curCodes]
  | false =>
    simp only [Bool.false_eq_true, if_false, strmapcat, hne, hm, List.append_nil, List.reverse_reverse, mkRow, curCodes]

/-- one sequence line of a record -/
theorem afaStep_piece (cfg : Cfg) (enc : UInt8 → UInt8) (st : AfaSt) (c : Bytes) (h : PieceOk cfg enc c) (hl : st.lead = false)
    (hcur : st.cur = none ∨ ∃ codes, st.cur = some (mkRow cfg.digital codes)) :
    afaStep cfg st c = .inl { st with cur := some (mkRow cfg.digital (curCodes cfg.digital st.cur ++ c.map enc)) } := by
  cases c with
  | nil => exact absurd rfl h.ne
  | cons t ts =>
    have hsp : isSpace t = false := h.nospace t (by simp)
    have hgt : (t == 62) = false := by simpa using h.nogt t (by simp)
    have hdw : (t :: ts).dropWhile isSpace = t :: ts := by simp [List.dropWhile, hsp]
    unfold afaStep
    simp only [hl, Bool.false_eq_true, if_false, hdw, hgt]
    rw [cat_piece cfg enc st.cur (t :: ts) h hcur]

/-- all the sequence lines of a record -/
theorem afaSteps_pieces (cfg : Cfg) (enc : UInt8 → UInt8) :
    ∀ (cs : List Bytes) (st : AfaSt), (∀ c ∈ cs, PieceOk cfg enc c) → st.lead = false →
      (st.cur = none ∨ ∃ codes, st.cur = some (mkRow cfg.digital codes)) → cs ≠ [] →
      stepsFrom (afaStep cfg) st cs =
        .inl { st with cur := some (mkRow cfg.digital (curCodes cfg.digital st.cur ++ cs.flatten.map enc)) } := by
  intro cs
  induction cs with
  | nil => intro st _ _ _ hne; exact absurd rfl hne
  | cons c cs ih =>
    intro st hcs hl hcur _
    simp only [stepsFrom]
    rw [afaStep_piece cfg enc st c (hcs c (by simp)) hl hcur]
    simp only
    by_cases hcs0 : cs = []
    · subst hcs0; simp [stepsFrom]
    · have h1 := ih { st with cur := some (mkRow cfg.digital (curCodes cfg.digital st.cur ++ c.map enc)) }
        (fun c' hc' => hcs c' (by simp [hc'])) hl (Or.inr ⟨_, rfl⟩) hcs0
      rw [h1]
      simp [List.append_assoc]

/-! ## name/description lines -/

/-- a sequence name that survives: not empty, no blank, tab or NUL (`esl_memtok` delimiters) -/
def nameOk (nm : Bytes) : Prop := nm ≠ [] ∧ ∀ c ∈ nm, inDelim blankTab c = false

/-- a description that survives: not empty, does not start with a delimiter, no NUL -/
def descOk (d : Bytes) : Prop := (∃ c t, d = c :: t ∧ inDelim blankTab c = false) ∧ ∀ c ∈ d, c ≠ 0

theorem takeWhile_all {α : Type} (p : α → Bool) (l : List α) (h : ∀ a ∈ l, p a = true) : l.takeWhile p = l := by
  have := List.takeWhile_append_of_pos (l₂ := []) h
  simpa using this

theorem dropWhile_all {α : Type} (p : α → Bool) (l : List α) (h : ∀ a ∈ l, p a = true) : l.dropWhile p = [] := by
  have := List.dropWhile_append_of_pos (l₂ := []) h
  simpa using this

theorem cstr_id (b : Bytes) (h : ∀ c ∈ b, c ≠ 0) : cstr b = b := by
  unfold cstr
  exact takeWhile_all _ b (fun c hc => by simpa using h c hc)

theorem memtok_name (nm : Bytes) (h : nameOk nm) : memtok nm blankTab = some (nm, []) := by
  obtain ⟨hne, hnd⟩ := h
  cases nm with
  | nil => exact absurd rfl hne
  | cons c t =>
    have hc := hnd c (by simp)
    have h1 : (c :: t).dropWhile (inDelim blankTab) = c :: t := by simp [List.dropWhile, hc]
    have h2 : (c :: t).takeWhile (fun x => !inDelim blankTab x) = c :: t :=
      takeWhile_all _ _ (fun x hx => by simp [hnd x hx])
    have h3 : (c :: t).dropWhile (fun x => !inDelim blankTab x) = [] :=
      dropWhile_all _ _ (fun x hx => by simp [hnd x hx])
    unfold memtok
    simp [h1, h2, h3]

theorem memtok_name_desc (nm d : Bytes) (h : nameOk nm) (hd : descOk d) : memtok (nm ++ 32 :: d) blankTab = some (nm, d) := by
  obtain ⟨hne, hnd⟩ := h
  obtain ⟨⟨c0, t0, hd0, hc0⟩, _⟩ := hd
  cases nm with
  | nil => exact absurd rfl hne
  | cons c t =>
    have hc := hnd c (by simp)
    have h1 : ((c :: t) ++ 32 :: d).dropWhile (inDelim blankTab) = (c :: t) ++ 32 :: d := by simp [List.dropWhile, hc]
    have h32 : inDelim blankTab 32 = true := by decide
    have h2 : ((c :: t) ++ 32 :: d).takeWhile (fun x => !inDelim blankTab x) = c :: t := by
      rw [List.takeWhile_append_of_pos (fun x hx => by simp [hnd x hx])]
      simp [List.takeWhile, h32]
    have h3 : ((c :: t) ++ 32 :: d).dropWhile (fun x => !inDelim blankTab x) = 32 :: d := by
      rw [List.dropWhile_append_of_pos (fun x hx => by simp [hnd x hx])]
      simp [List.dropWhile, h32]
    have h4 : (32 :: d).dropWhile (inDelim blankTab) = d := by
      subst hd0
      simp [List.dropWhile, h32, hc0]
    unfold memtok
    simp only [h1, h2, h3, h4]
    simp

/-- the header of a record as written -/
def headerOf (nm : Bytes) (desc : Option Bytes) : Bytes :=
  62 :: (nm ++ (match desc with | some d => 32 :: d | none => []))

theorem afaStartRecord_header (st : AfaSt) (nm : Bytes) (desc : Option Bytes) (hn : nameOk nm)
    (hd : ∀ d, desc = some d → descOk d) (ha : st.idx ≤ st.sqalloc ∧ 0 < st.sqalloc) :
    afaStartRecord st (headerOf nm desc) =
      .inl { st with lead := false, sqalloc := expandAlloc st.idx st.sqalloc, names := st.names ++ [nm],
                     sqdesc := setOptRowO st.sqdesc st.idx desc, cur := none } := by
  have hex : ¬ (st.idx ≥ expandAlloc st.idx st.sqalloc) := by
    obtain ⟨ha1, ha2⟩ := ha
    unfold expandAlloc
    split <;> omega
  have hnm0 : ∀ c ∈ nm, c ≠ 0 := fun c hc h0 => by
    have := hn.2 c hc; subst h0; simp [inDelim] at this
  obtain ⟨c, t, hnm⟩ : ∃ c t, nm = c :: t := by
    cases nm with
    | nil => exact absurd rfl hn.1
    | cons c t => exact ⟨c, t, rfl⟩
  cases desc with
  | none =>
    unfold afaStartRecord
    simp only [headerOf, List.append_nil]
    have hlen' : ¬ ((62 :: nm).length ≤ 1) := by simp [hnm]
    simp only [hlen', decide_false, Bool.false_or, bne_self_eq_false, Bool.false_eq_true, if_false, memtok_name nm hn, hex,
      List.isEmpty_nil, if_true, cstr_id nm hnm0, setOptRowO]
  | some d =>
    have hdk := hd d rfl
    unfold afaStartRecord
    simp only [headerOf]
    have hlen' : ¬ ((62 :: (nm ++ 32 :: d)).length ≤ 1) := by simp [hnm]
    have hdne : d.isEmpty = false := by
      obtain ⟨⟨c0, t0, hd0, _⟩, _⟩ := hdk; subst hd0; rfl
    simp only [hlen', decide_false, Bool.false_or, bne_self_eq_false, Bool.false_eq_true, if_false, memtok_name_desc nm d hn hdk, hex,
      hdne, cstr_id nm hnm0, cstr_id d hdk.2, setOptRowO]

/-! ## the round trip -/

/-- row `i` as the alignment object stores it -/
def Msa.stored (m : Msa) (i : Nat) : Bytes := if m.digital then m.ax.getD i [] else m.aseq.getD i []

/-- the per-sequence descriptions an AFA file carries for the first `k` records, as the reader rebuilds them -/
def afaDescs (m : Msa) : Nat → OptRows
  | 0 => none
  | k + 1 => setOptRowO (afaDescs m k) k (optAt m.sqdesc k)

/-- everything aligned FASTA can represent of `m`: names, rows, descriptions; default weights -/
def afaProject (cfg : Cfg) (m : Msa) : Msa :=
  { digital := cfg.digital, kp := cfg.kp, alen := m.alen, names := m.names,
    aseq := if cfg.digital then [] else (List.range m.nseq).map m.stored,
    ax := if cfg.digital then (List.range m.nseq).map m.stored else [],
    hasw := false, wgt := List.replicate m.nseq Wgt.dflt,
    sqdesc := padOptRows (afaDescs m m.nseq) m.nseq }

/-- an alignment that aligned FASTA can carry and `esl_msafile_afa_Write` + `esl_msafile_afa_Read` (configuration `cfg`) preserve.
    `enc` sends a written symbol to the stored symbol. -/
structure AfaWritable (abc : Option Abc) (cfg : Cfg) (enc : UInt8 → UInt8) (m : Msa) : Prop where
  dig : m.digital = cfg.digital
  n1 : 1 ≤ m.nseq
  alen1 : 1 ≤ m.alen
  acc_none : m.sqacc = none
  name_ok : ∀ i, i < m.nseq → nameOk (m.names.getD i [])
  desc_ok : ∀ i, i < m.nseq → ∀ d, optAt m.sqdesc i = some d → descOk d
  hdr_line : ∀ i, i < m.nseq → lineOk (afaHeader m i)
  row_len : ∀ i, i < m.nseq → ((m.rowText abc i).take m.alen).length = m.alen
  row_sym : ∀ i, i < m.nseq → ∀ t ∈ (m.rowText abc i).take m.alen,
    mapByte cfg.inmap t = (.ok, some (enc t)) ∧ isSpace t = false ∧ t ≠ 62
  row_enc : ∀ i, i < m.nseq → m.stored i = mkRow cfg.digital (((m.rowText abc i).take m.alen).map enc)

/-- the reader's state after the lines of records `0 … k-1` -/
structure AfterRec (cfg : Cfg) (m : Msa) (k : Nat) (st : AfaSt) : Prop where
  lead : st.lead = false
  names : st.names = m.names.take k
  rows : st.rows = (List.range (k - 1)).map m.stored
  idx : st.idx = k - 1
  alloc : st.idx < st.sqalloc
  alen : st.alen = 0 ∨ st.alen = m.alen
  cur : st.cur = some (m.stored (k - 1))
  descs : st.sqdesc = afaDescs m k

theorem afaHeader_eq (abc : Option Abc) (cfg : Cfg) (enc : UInt8 → UInt8) (m : Msa) (h : AfaWritable abc cfg enc m) (i : Nat) :
    afaHeader m i = headerOf (m.names.getD i []) (optAt m.sqdesc i) := by
  have hacc : optAt m.sqacc i = none := by simp [optAt, h.acc_none]
  unfold afaHeader headerOf
  rw [hacc]
  cases optAt m.sqdesc i <;> simp

theorem pieces_ok (abc : Option Abc) (cfg : Cfg) (enc : UInt8 → UInt8) (m : Msa) (h : AfaWritable abc cfg enc m) (i : Nat) (hi : i < m.nseq) :
    (∀ c ∈ chunks60 ((m.rowText abc i).take m.alen), PieceOk cfg enc c) ∧ chunks60 ((m.rowText abc i).take m.alen) ≠ [] := by
  constructor
  · intro c hc
    have hmem := chunks60_mem _ c hc
    exact { ne := chunks60_ne _ c hc,
            maps := fun t ht => (h.row_sym i hi t (hmem t ht)).1,
            nospace := fun t ht => (h.row_sym i hi t (hmem t ht)).2.1,
            nogt := fun t ht => (h.row_sym i hi t (hmem t ht)).2.2 }
  · intro h0
    have := chunks60_flatten ((m.rowText abc i).take m.alen)
    rw [h0] at this
    have hl := h.row_len i hi
    rw [← this] at hl
    simp at hl
    have := h.alen1
    omega

/-- the lines of one more record, from inside the previous record -/
theorem afaSteps_record (abc : Option Abc) (cfg : Cfg) (enc : UInt8 → UInt8) (m : Msa) (h : AfaWritable abc cfg enc m)
    (k : Nat) (hk1 : 1 ≤ k) (hk : k < m.nseq) (st : AfaSt) (hst : AfterRec cfg m k st) :
    ∃ st', stepsFrom (afaStep cfg) st (afaRecLines abc m k) = .inl st' ∧ AfterRec cfg m (k + 1) st' := by
  have hrow := h.row_enc (k - 1) (by omega)
  have hlen : rowLen cfg.digital st.cur = m.alen := by
    rw [hst.cur, hrow, rowLen_mkRow]
    simpa using h.row_len (k - 1) (by omega)
  have ha1 := h.alen1
  -- finish record k-1
  have hfin : afaFinishRecord cfg st =
      .inl { st with rows := st.rows ++ [m.stored (k - 1)], idx := st.idx + 1, alen := m.alen, cur := none } := by
    unfold afaFinishRecord
    simp only [hlen]
    have h0 : (m.alen == 0) = false := by simp; omega
    have h1 : (st.alen != 0 && st.alen != m.alen) = false := by
      rcases hst.alen with h | h <;> simp [h]
    simp only [h0, Bool.false_eq_true, if_false, h1, hst.cur]
  -- the header line
  have hhdr : afaStep cfg st (afaHeader m k) = afaStartRecord
      { st with rows := st.rows ++ [m.stored (k - 1)], idx := st.idx + 1, alen := m.alen, cur := none } (afaHeader m k) := by
    rw [afaHeader_eq abc cfg enc m h k]
    unfold afaStep
    simp only [hst.lead, Bool.false_eq_true, if_false, headerOf]
    have hd : (62 :: (m.names.getD k [] ++ match optAt m.sqdesc k with | some d => 32 :: d | none => [])).dropWhile isSpace
        = 62 :: (m.names.getD k [] ++ match optAt m.sqdesc k with | some d => 32 :: d | none => []) := by
      simp [List.dropWhile, isSpace]
    simp only [hd, beq_self_eq_true, if_true, hfin]
    try rw [hst.lead]
  have hstart := afaStartRecord_header
    { st with rows := st.rows ++ [m.stored (k - 1)], idx := st.idx + 1, alen := m.alen, cur := none }
    (m.names.getD k []) (optAt m.sqdesc k) (h.name_ok k hk) (h.desc_ok k hk)
    ⟨by show st.idx + 1 ≤ st.sqalloc; have := hst.alloc; omega, by show 0 < st.sqalloc; have := hst.alloc; omega⟩
  rw [← afaHeader_eq abc cfg enc m h k] at hstart
  obtain ⟨hp, hpne⟩ := pieces_ok abc cfg enc m h k hk
  have hsteps := afaSteps_pieces cfg enc (chunks60 ((m.rowText abc k).take m.alen))
    { lead := false, sqalloc := expandAlloc (st.idx + 1) st.sqalloc, names := st.names ++ [m.names.getD k []],
      sqdesc := setOptRowO st.sqdesc (st.idx + 1) (optAt m.sqdesc k),
      rows := st.rows ++ [m.stored (k - 1)], idx := st.idx + 1, alen := m.alen, cur := none }
    hp rfl (Or.inl rfl) hpne
  refine ⟨{ lead := false, sqalloc := expandAlloc (st.idx + 1) st.sqalloc, names := st.names ++ [m.names.getD k []],
            sqdesc := setOptRowO st.sqdesc (st.idx + 1) (optAt m.sqdesc k),
            rows := st.rows ++ [m.stored (k - 1)], idx := st.idx + 1, alen := m.alen,
            cur := some (mkRow cfg.digital (curCodes cfg.digital none ++ (chunks60 ((m.rowText abc k).take m.alen)).flatten.map enc)) }, ?_, ?_⟩
  · show stepsFrom (afaStep cfg) st (afaHeader m k :: chunks60 ((m.rowText abc k).take m.alen)) = _
    simp only [stepsFrom]
    rw [hhdr, hstart]
    simp only
    exact hsteps
  · have hidx : st.idx + 1 = k := by rw [hst.idx]; omega
    have hlt : k < m.names.length := hk
    exact
      { lead := rfl,
        names := by
          show st.names ++ [m.names.getD k []] = m.names.take (k + 1)
          rw [hst.names, List.take_succ]
          simp [List.getD_eq_getElem?_getD, List.getElem?_eq_getElem hlt],
        rows := by
          show st.rows ++ [m.stored (k - 1)] = (List.range (k + 1 - 1)).map m.stored
          rw [hst.rows]
          have : k + 1 - 1 = (k - 1) + 1 := by omega
          rw [this, List.range_succ]
          simp,
        idx := by show st.idx + 1 = k + 1 - 1; omega,
        alloc := by
          show st.idx + 1 < expandAlloc (st.idx + 1) st.sqalloc
          have := hst.alloc
          unfold expandAlloc
          split <;> omega,
        alen := Or.inr rfl,
        cur := by
          show some (mkRow cfg.digital (curCodes cfg.digital none ++ (chunks60 ((m.rowText abc k).take m.alen)).flatten.map enc))
            = some (m.stored (k + 1 - 1))
          rw [chunks60_flatten, curCodes_none, List.nil_append]
          have : k + 1 - 1 = k := by omega
          rw [this, h.row_enc k hk],
        descs := by
          show setOptRowO st.sqdesc (st.idx + 1) (optAt m.sqdesc k) = afaDescs m (k + 1)
          rw [hidx, hst.descs]
          simp only [afaDescs] }

/-- the lines of the first record, from the initial state -/
theorem afaSteps_first (abc : Option Abc) (cfg : Cfg) (enc : UInt8 → UInt8) (m : Msa) (h : AfaWritable abc cfg enc m) :
    ∃ st', stepsFrom (afaStep cfg) {} (afaRecLines abc m 0) = .inl st' ∧ AfterRec cfg m 1 st' := by
  have hk : 0 < m.nseq := h.n1
  have hhdr : afaStep cfg {} (afaHeader m 0) = afaStartRecord {} (afaHeader m 0) := by
    rw [afaHeader_eq abc cfg enc m h 0]
    unfold afaStep
    have hnb : isBlankLine (headerOf (m.names.getD 0 []) (optAt m.sqdesc 0)) = false := by
      simp [isBlankLine, headerOf, inDelim, blankTab]
    have hd : (headerOf (m.names.getD 0 []) (optAt m.sqdesc 0)).dropWhile isSpace = headerOf (m.names.getD 0 []) (optAt m.sqdesc 0) := by
      simp [headerOf, List.dropWhile, isSpace]
    simp only [hnb, hd, if_true, Bool.false_eq_true, if_false]
    simp [headerOf]
  have hstart := afaStartRecord_header {} (m.names.getD 0 []) (optAt m.sqdesc 0) (h.name_ok 0 hk) (h.desc_ok 0 hk) ⟨by decide, by decide⟩
  rw [← afaHeader_eq abc cfg enc m h 0] at hstart
  obtain ⟨hp, hpne⟩ := pieces_ok abc cfg enc m h 0 hk
  have hsteps := afaSteps_pieces cfg enc (chunks60 ((m.rowText abc 0).take m.alen))
    { lead := false, sqalloc := expandAlloc 0 16, names := [] ++ [m.names.getD 0 []],
      sqdesc := setOptRowO none 0 (optAt m.sqdesc 0), rows := [], idx := 0, alen := 0, cur := none }
    hp rfl (Or.inl rfl) hpne
  refine ⟨{ lead := false, sqalloc := expandAlloc 0 16, names := [] ++ [m.names.getD 0 []],
            sqdesc := setOptRowO none 0 (optAt m.sqdesc 0), rows := [], idx := 0, alen := 0,
            cur := some (mkRow cfg.digital (curCodes cfg.digital none ++ (chunks60 ((m.rowText abc 0).take m.alen)).flatten.map enc)) }, ?_, ?_⟩
  · show stepsFrom (afaStep cfg) {} (afaHeader m 0 :: chunks60 ((m.rowText abc 0).take m.alen)) = _
    simp only [stepsFrom]
    rw [hhdr, hstart]
    simp only
    exact hsteps
  · have hlt : 0 < m.names.length := hk
    exact
      { lead := rfl,
        names := by
          show [] ++ [m.names.getD 0 []] = m.names.take 1
          rw [List.take_succ]
          simp [List.getD_eq_getElem?_getD, List.getElem?_eq_getElem hlt],
        rows := rfl, idx := rfl,
        alloc := by show 0 < expandAlloc 0 16; decide,
        alen := Or.inl rfl,
        cur := by
          show some (mkRow cfg.digital (curCodes cfg.digital none ++ (chunks60 ((m.rowText abc 0).take m.alen)).flatten.map enc))
            = some (m.stored (1 - 1))
          rw [chunks60_flatten, curCodes_none, List.nil_append, h.row_enc 0 hk],
        descs := by
          show setOptRowO none 0 (optAt m.sqdesc 0) = afaDescs m 1
          simp [afaDescs] }

/-- all the lines of the first `k` records -/
theorem afaSteps_records (abc : Option Abc) (cfg : Cfg) (enc : UInt8 → UInt8) (m : Msa) (h : AfaWritable abc cfg enc m) :
    ∀ k, 1 ≤ k → k ≤ m.nseq →
      ∃ st, stepsFrom (afaStep cfg) {} ((List.range k).flatMap (afaRecLines abc m)) = .inl st ∧ AfterRec cfg m k st := by
  intro k
  induction k with
  | zero => intro h0; omega
  | succ k ih =>
    intro _ hk
    by_cases hk0 : k = 0
    · subst hk0
      simpa using afaSteps_first abc cfg enc m h
    · obtain ⟨st, hs, hst⟩ := ih (by omega) (by omega)
      obtain ⟨st', hs', hst'⟩ := afaSteps_record abc cfg enc m h k (by omega) (by omega) st hst
      refine ⟨st', ?_, hst'⟩
      rw [List.range_succ, List.flatMap_append]
      rw [stepsFrom_append (afaStep cfg) _ _ {} st hs]
      simpa using hs'

/-- end of input after the last record -/
theorem afaFinish_after (abc : Option Abc) (cfg : Cfg) (enc : UInt8 → UInt8) (m : Msa) (h : AfaWritable abc cfg enc m)
    (st : AfaSt) (hst : AfterRec cfg m m.nseq st) : afaFinish cfg st = .ok (afaProject cfg m) := by
  have hn := h.n1
  have hrow := h.row_enc (m.nseq - 1) (by omega)
  have hlen : rowLen cfg.digital st.cur = m.alen := by
    rw [hst.cur, hrow, rowLen_mkRow]
    simpa using h.row_len (m.nseq - 1) (by omega)
  have ha1 := h.alen1
  have hfin : afaFinishRecord cfg st =
      .inl { st with rows := st.rows ++ [m.stored (m.nseq - 1)], idx := st.idx + 1, alen := m.alen, cur := none } := by
    unfold afaFinishRecord
    simp only [hlen]
    have h0 : (m.alen == 0) = false := by simp; omega
    have h1 : (st.alen != 0 && st.alen != m.alen) = false := by
      rcases hst.alen with h | h <;> simp [h]
    simp only [h0, Bool.false_eq_true, if_false, h1, hst.cur]
  unfold afaFinish
  simp only [hst.lead, Bool.false_eq_true, if_false, hfin]
  have hidx : st.idx + 1 = m.nseq := by rw [hst.idx]; omega
  have hrows : st.rows ++ [m.stored (m.nseq - 1)] = (List.range m.nseq).map m.stored := by
    rw [hst.rows]
    have : m.nseq = (m.nseq - 1) + 1 := by omega
    conv => rhs; rw [this, List.range_succ]
    simp
  have hnames : st.names = m.names := by
    rw [hst.names]; exact List.take_length
  simp only [afaProject, hidx, hrows, hnames, hst.descs]

/-- **AFA round trip on lines**: reading the lines `esl_msafile_afa_Write` prints gives back everything AFA can represent -/
theorem afaRead_writeLines (abc : Option Abc) (cfg : Cfg) (enc : UInt8 → UInt8) (m : Msa) (h : AfaWritable abc cfg enc m) :
    afaRead cfg (afaWriteLines abc m) = (.ok (afaProject cfg m), []) := by
  obtain ⟨st, hs, hst⟩ := afaSteps_records abc cfg enc m h m.nseq h.n1 (Nat.le_refl _)
  unfold afaRead afaWriteLines
  have := runLines_append_inl (afaStep cfg) (afaFinish cfg) _ [] {} st hs
  rw [List.append_nil] at this
  rw [this]
  simp [runLines, afaFinish_after abc cfg enc m h st hst]

theorem afaWriteLines_ok (abc : Option Abc) (cfg : Cfg) (enc : UInt8 → UInt8) (m : Msa) (h : AfaWritable abc cfg enc m) :
    ∀ l ∈ afaWriteLines abc m, lineOk l := by
  intro l hl
  unfold afaWriteLines at hl
  rw [List.mem_flatMap] at hl
  obtain ⟨i, hi, hl⟩ := hl
  have hi' : i < m.nseq := List.mem_range.mp hi
  unfold afaRecLines at hl
  rcases List.mem_cons.mp hl with hl | hl
  · subst hl; exact h.hdr_line i hi'
  · have hmem := chunks60_mem _ l hl
    have hns : ∀ t ∈ l, isSpace t = false := fun t ht => (h.row_sym i hi' t (hmem t ht)).2.1
    constructor
    · intro h10
      have := hns 10 h10
      simp [isSpace] at this
    · intro h13
      have hm : (13 : UInt8) ∈ l := List.mem_of_getLast? h13
      have := hns 13 hm
      simp [isSpace] at this

/-- **AFA round trip on bytes** -/
theorem afaRead_write (abc : Option Abc) (cfg : Cfg) (enc : UInt8 → UInt8) (m : Msa) (h : AfaWritable abc cfg enc m) :
    afaRead cfg (splitLines (afaWrite abc m)) = (.ok (afaProject cfg m), []) := by
  unfold afaWrite
  rw [splitLines_join _ (afaWriteLines_ok abc cfg enc m h)]
  exact afaRead_writeLines abc cfg enc m h

end EaselModel.Msafile
