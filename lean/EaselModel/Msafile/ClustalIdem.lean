import EaselModel.Msafile.ClustalWritable
/-! Clustal: re-writing the re-read alignment reproduces the same bytes (`write (project m) = write m`). -/
namespace EaselModel.Msafile

theorem foldl_congr_mem {α β : Type} (l : List β) (f g : α → β → α) (a : α) (h : ∀ x, ∀ b ∈ l, f x b = g x b) :
    l.foldl f a = l.foldl g a := by
  induction l generalizing a with
  | nil => rfl
  | cons b t ih =>
    simp only [List.foldl_cons]
    rw [h a b (by simp)]
    exact ih _ (fun x b' hb' => h x b' (by simp [hb']))

/-- the text-mode writer looks at `names`, `alen` and the text rows only -/
theorem clustalWriteV_congr_text (like : Bool) (ver : Bytes) (m m' : Msa) (hn : m'.names = m.names) (ha : m'.alen = m.alen)
    (hrow : ∀ i, i < m.nseq → m'.aseq.getD i [] = m.aseq.getD i []) :
    clustalWriteV like ver none m' = clustalWriteV like ver none m := by
  have hns : m'.nseq = m.nseq := by simp [Msa.nseq, hn]
  have hcons : consensusLine none m' = consensusLine none m := by
    show textConsensusLine m' = textConsensusLine m
    unfold textConsensusLine
    rw [ha]
    apply List.map_congr_left
    intro apos _
    have : textColMask m' apos = textColMask m apos := by
      unfold textColMask
      rw [hns]
      apply foldl_congr_mem
      intro v idx hidx
      simp only [aseqAt, hrow idx (List.mem_range.mp hidx)]
    simp only [this]
  have hblk : ∀ apos, clustalBlockLines none m' (maxWidth m.names) (consensusLine none m) apos
      = clustalBlockLines none m (maxWidth m.names) (consensusLine none m) apos := by
    intro apos
    unfold clustalBlockLines
    rw [hns, hn]
    congr 2
    apply List.map_congr_left
    intro i hi
    simp only [seqChunk, hrow i (List.mem_range.mp hi)]
  unfold clustalWriteV clustalLines
  simp only [hn, ha, hcons, funext hblk]

/-- the digital writer looks at `names`, `alen` and the digital rows only -/
theorem clustalWriteV_congr_dig (like : Bool) (ver : Bytes) (a : Abc) (m m' : Msa) (hn : m'.names = m.names) (ha : m'.alen = m.alen)
    (hrow : ∀ i, i < m.nseq → m'.ax.getD i [] = m.ax.getD i []) :
    clustalWriteV like ver (some a) m' = clustalWriteV like ver (some a) m := by
  have hns : m'.nseq = m.nseq := by simp [Msa.nseq, hn]
  have hcons : consensusLine (some a) m' = consensusLine (some a) m := by
    show digitalConsensusLine a m' = digitalConsensusLine a m
    unfold digitalConsensusLine
    rw [ha]
    apply List.map_congr_left
    intro apos _
    have : digitalColMask m' apos = digitalColMask m apos := by
      unfold digitalColMask
      rw [hns]
      apply foldl_congr_mem
      intro v idx hidx
      simp only [axAt, hrow idx (List.mem_range.mp hidx)]
    simp only [this]
  have hblk : ∀ apos, clustalBlockLines (some a) m' (maxWidth m.names) (consensusLine (some a) m) apos
      = clustalBlockLines (some a) m (maxWidth m.names) (consensusLine (some a) m) apos := by
    intro apos
    unfold clustalBlockLines
    rw [hns, hn]
    congr 2
    apply List.map_congr_left
    intro i hi
    simp only [seqChunk, hrow i (List.mem_range.mp hi)]
  unfold clustalWriteV clustalLines
  simp only [hn, ha, hcons, funext hblk]

/-- **Clustal, text mode: `write (project m) = write m`** -/
theorem clustalWrite_project_text (like : Bool) (m : Msa) (h : ClustalTextWritable m) :
    clustalWrite like none (clustalProject (clustalCfg none) m) = clustalWrite like none m := by
  refine clustalWriteV_congr_text like easelVersion m (clustalProject (clustalCfg none) m) rfl rfl ?_
  intro i hi
  simp [clustalProject, clustalCfg, Cfg.digital, List.getD_eq_getElem?_getD, hi, Msa.stored, h.dig]

/-- **Clustal, digital mode: `write (project m) = write m`** -/
theorem clustalWrite_project_digital (like : Bool) (a : Abc) (m : Msa) (h : ClustalDigitalWritable a m) :
    clustalWrite like (some a) (clustalProject (clustalCfg (some a)) m) = clustalWrite like (some a) m := by
  refine clustalWriteV_congr_dig like easelVersion a m (clustalProject (clustalCfg (some a)) m) rfl rfl ?_
  intro i hi
  simp [clustalProject, clustalCfg, Cfg.digital, List.getD_eq_getElem?_getD, hi, Msa.stored, h.dig]

end EaselModel.Msafile
