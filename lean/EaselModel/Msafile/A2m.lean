import EaselModel.Msafile.Basic
import EaselModel.Msafile.Afa
/-! # UCSC A2M: `esl_msafile_a2m.c`  (`esl_msafile_a2m_SetInmap`, `esl_msafile_a2m_Read`, `a2m_padding_text`, `a2m_padding_digital`)

The reader is the C function rewritten as a state machine over the lines `esl_msafile_GetLine` delivers (same shape as
`Afa.lean`): `lead` = the "skip leading blank lines" loop, otherwise we are inside the `do { … } while (status == eslOK)`
record loop, reading the sequence lines of record `nseq`.  The padding phase runs at end of input.

Memory: every data-dependent array cell the C code touches is a cell of a Lean list whose LENGTH is the initialised
extent of the C array; an access outside it (out of the allocation, or a read of / a hole of never-written cells) is the
outcome `.fault`.
* `csflag[nseq]`: `fl` (+ the allocation size `thislen + n + 1` computed per line), written with `csWrite`;
* `this_nins[]`: `tn`, its length is the allocation size (`this_ncons + n + 1`, all cells initialised); `incAt`;
* `nins[]`: `nins`, length `ncons + 1`;
* padding: the old row and its `csflag` row are read through cursors (`l.drop spos`; `head?` of the cursor is the
  bounds-checked read `l[spos]?`), the new row / `rf` are written sequentially (`apos` = number of cells written) with the
  check `apos < size` at every store. -/
namespace EaselModel.Msafile

/-- `esl_msafile_a2m_SetInmap` -/
def a2mInmap (abc : Option Abc) : InMap :=
  let common (t : Array UInt8) : Array UInt8 :=
    ((((t.setIfInBounds 32 dsqIGNORED).setIfInBounds 9 dsqIGNORED).setIfInBounds 46 dsqIGNORED).setIfInBounds 79 dsqIGNORED).setIfInBounds 111 dsqIGNORED
  match abc with
  | some a =>
    ⟨common ((((a.inmap.setIfInBounds 0 a.unknown).setIfInBounds 95 dsqILLEGAL).setIfInBounds 42 dsqILLEGAL).setIfInBounds 126 dsqILLEGAL)⟩
  | none =>
    ⟨common ((Array.ofFn (n := 128) fun i =>
        let c := UInt8.ofNat i.val
        if i.val == 0 then (63 : UInt8) else if isAlpha c then c else dsqILLEGAL).setIfInBounds 45 45)⟩

def a2mCfg (abc : Option Abc) : Cfg := ⟨abc, a2mInmap abc⟩

/-- `esl_abc_XGetGap(msa->abc)` / `'.'`: what the padding phase fills insert columns with -/
def Cfg.padSym (c : Cfg) : UInt8 := match c.abc with | some a => a.gap | none => 46

/-- the locals of `esl_msafile_a2m_Read` between two `esl_msafile_GetLine` calls -/
structure A2mSt where
  lead : Bool := true                         -- still in the "skip leading blank lines" loop
  sqalloc : Nat := 16                         -- msa->sqalloc (= size of csflag[])
  names : List Bytes := []                    -- msa->sqname[0..nseq]   (entry nseq is the record being read)
  sqdesc : OptRows := none
  recs : List (Bytes × List Bool) := []       -- (msa->aseq[i] | msa->ax[i] unaligned,  csflag[i])  for i < nseq
  nseq : Nat := 0
  ncons : Nat := 0
  nins : List Nat := []                       -- nins[0..ncons]  (NULL until the first record is finished)
  tn : List Nat := []                         -- this_nins[]     ([] = NULL; an allocation always has ≥ 1 cell)
  tc : Nat := 0                               -- this_ncons
  cur : Option Bytes := none                  -- msa->aseq[nseq] / msa->ax[nseq]  (NULL until the first residue line)
  fl : List Bool := []                        -- csflag[nseq], initialised cells   ([] = NULL)
deriving Repr

def a2mMsg1 := "expected A2M name/desc line starting with >"
def a2mMsgCons := "unexpected # of consensus residues, didn't match previous seq(s)"
def a2mMsgInval := "one or more invalid sequence characters"

/-- `if (p[bpos] == 'O' || p[bpos] == 'o') continue;`  (the input map ignores both) -/
def a2mSkip (c : UInt8) : Bool := c == 79 || c == 111

/-- `csflag[nseq][i] = v` on a row of `alloc` cells of which the first `fl.length` are initialised.  A store past the
    allocation is a fault; so is a store that would leave never-written cells below it (the padding phase reads the row
    from 0 up to the sentinel). -/
def csWrite (fl : List Bool) (alloc i : Nat) (v : Bool) : Option (List Bool) :=
  if i ≥ alloc then none
  else if i < fl.length then some (fl.set i v)
  else if i == fl.length then some (fl ++ [v])
  else none

/-- `a[i]++` -/
def incAt (a : List Nat) (i : Nat) : Option (List Nat) :=
  match a[i]? with
  | some v => some (a.set i (v + 1))
  | none => none

/-- the loop variables of `for (spos = thislen, bpos = 0; bpos < n; bpos++)` -/
structure LineSt where
  spos : Nat
  tc : Nat
  tn : List Nat
  fl : List Bool
deriving Repr

/-- the `if … else if …` chain of the loop body for one byte that is not skipped:
    `none` = ESL_XFAIL, `some none` = an access outside the arrays, `some (some s')` = the new loop variables -/
def a2mChar1 (alloc : Nat) (c : UInt8) (s : LineSt) : Option (Option LineSt) :=
  if isUpper c then
    some ((csWrite s.fl alloc s.spos true).map fun fl => { s with fl := fl, spos := s.spos + 1, tc := s.tc + 1 })
  else if isLower c then
    some (match csWrite s.fl alloc s.spos false, incAt s.tn s.tc with
          | some fl, some tn => some { s with fl := fl, spos := s.spos + 1, tn := tn }
          | _, _ => none)
  else if c == 45 then
    some ((csWrite s.fl alloc s.spos true).map fun fl => { s with fl := fl, spos := s.spos + 1, tc := s.tc + 1 })
  else if c == 0 then none                                                  -- '\0': ESL_XFAIL(eslEFORMAT, …)
  else some (some s)

/-- the body of that loop for the bytes `p[bpos..n-1]` -/
def a2mChars (nseq ncons alloc : Nat) : Bytes → LineSt → Sum LineSt (Res Msa)
  | [], s => .inl s
  | c :: rest, s =>
    if a2mSkip c then a2mChars nseq ncons alloc rest s                     -- continue
    else
      match a2mChar1 alloc c s with
      | none => .inr (.eformat a2mMsgInval)
      | some none => .inr .fault
      | some (some s') =>
        if nseq != 0 && s'.tc > ncons then .inr (.eformat a2mMsgCons)
        else a2mChars nseq ncons alloc rest s'

/-- the head of the record loop: `p++; n--; esl_memtok; esl_msa_Expand (+ csflag); SetSeqName; SetSeqDescription;
    thislen = 0; this_ncons = 0; if (!this_nins) alloc 1; for (cpos = 0; cpos <= ncons; cpos++) this_nins[cpos] = 0` -/
def a2mStartRecord (st : A2mSt) (p : Bytes) : Sum A2mSt (Res Msa) :=
  match p with
  | [] => .inr (.eformat a2mMsg1)
  | _ :: p1 =>
    match memtok p1 blankTab with
    | none => .inr (.eformat "no name found for A2M record")
    | some (tok, rest) =>
      if st.nseq ≥ expandAlloc st.nseq st.sqalloc then .inr .exc                   -- esl_msa_SetSeqName: "no such sequence"
      else
        let tn1 := if st.tn.isEmpty then [0] else st.tn                            -- ESL_ALLOC(this_nins, sizeof(int) * 1)
        if tn1.length < st.ncons + 1 then .inr .fault                              -- this_nins[cpos] = 0, cpos <= ncons
        else
          .inl { st with lead := false, sqalloc := expandAlloc st.nseq st.sqalloc,
                         names := st.names ++ [cstr tok],
                         sqdesc := if rest.isEmpty then st.sqdesc else setOptRow st.sqdesc st.nseq (cstr rest),
                         cur := none, fl := [], tc := 0,
                         tn := List.replicate (st.ncons + 1) 0 ++ tn1.drop (st.ncons + 1) }

/-- one sequence line `p` (leading whitespace removed, non-empty, not starting with '>') -/
def a2mSeqLine (cfg : Cfg) (st : A2mSt) (p : Bytes) : Sum A2mSt (Res Msa) :=
  let thislen := rowLen cfg.digital st.cur
  let n := p.length
  let alloc := thislen + n + 1
  let fl0 := st.fl.take alloc                                    -- ESL_REALLOC(csflag[nseq], thislen + n + 1)
  -- if (nseq == 0) { ESL_REALLOC(this_nins, this_ncons + n + 1); zero [this_ncons+1 .. this_ncons+n] }
  let tn0 : Option (List Nat) :=
    if st.nseq == 0 then
      (if st.tn.length < st.tc + 1 then none                     -- cells [0..this_ncons] must exist already
       else some (st.tn.take (st.tc + 1) ++ List.replicate n 0))
    else some st.tn
  match tn0 with
  | none => .inr .fault
  | some tn0 =>
    match a2mChars st.nseq st.ncons alloc p { spos := thislen, tc := st.tc, tn := tn0, fl := fl0 } with
    | .inr r => .inr r
    | .inl s =>
      match csWrite s.fl alloc s.spos true with                  -- csflag[nseq][spos] = TRUE  (sentinel)
      | none => .inr .fault
      | some fl1 =>
        let (cs, cur') := if cfg.digital then dsqcat cfg.inmap st.cur p else strmapcat cfg.inmap st.cur p
        match cs with
        | .einval => .inr (.eformat a2mMsgInval)
        | .exc => .inr .exc
        | .ok => .inl { st with cur := cur', fl := fl1, tc := s.tc, tn := s.tn }

/-- after the sequence lines of record `nseq`: the `thislen == 0` edge case, `ncons`/`nins` bookkeeping, `nseq++` -/
def a2mFinishRecord (cfg : Cfg) (st : A2mSt) : Sum A2mSt (Res Msa) :=
  let thislen := rowLen cfg.digital st.cur
  let cur := if thislen == 0 then some (if cfg.digital then [dsqSENTINEL, dsqSENTINEL] else []) else st.cur
  let fl := if thislen == 0 then [true] else st.fl
  match cur with
  | none => .inr .fault                 -- a row of non-zero length behind a NULL pointer: cannot happen
  | some r =>
    if st.nseq == 0 then
      if st.tn.length < st.tc + 1 then .inr .fault                                   -- nins[cpos] = this_nins[cpos], cpos <= ncons
      else .inl { st with ncons := st.tc, nins := st.tn.take (st.tc + 1),
                          recs := st.recs ++ [(r, fl)], nseq := st.nseq + 1, cur := none, fl := [] }
    else
      if st.tc != st.ncons then .inr (.eformat (a2mMsgCons ++ ". (Do you have an O residue?)"))
      else if st.tn.length < st.ncons + 1 || st.nins.length < st.ncons + 1 then .inr .fault
      else .inl { st with nins := List.zipWith max (st.nins.take (st.ncons + 1)) (st.tn.take (st.ncons + 1)),
                          recs := st.recs ++ [(r, fl)], nseq := st.nseq + 1, cur := none, fl := [] }

def a2mStep (cfg : Cfg) (st : A2mSt) (line : Bytes) : Sum A2mSt (Res Msa) :=
  if st.lead then
    if isBlankLine line then .inl st
    else
      let p := line.dropWhile isSpace                 -- tolerate sloppy space at start of name/desc line
      match p with
      | [] => .inr (.eformat a2mMsg1)                 -- n == 0
      | c :: _ => if c != 62 then .inr (.eformat a2mMsg1) else a2mStartRecord st p
  else
    let p := line.dropWhile isSpace
    match p with
    | [] => .inl st                                   -- blank line inside a record
    | c :: _ =>
      if c == 62 then                                 -- '>' : break; finish this record; next record
        match a2mFinishRecord cfg st with
        | .inl st' => a2mStartRecord st' p
        | .inr r => .inr r
      else a2mSeqLine cfg st p

/-! ## padding phase -/

/-- `while (csflag[idx][spos] == FALSE) { new[apos] = old[spos]; apos++; spos++; icount++; }`
    `fl`, `old` are the cursors at `spos`; `acc` is the new row so far, REVERSED (`apos = acc.length`).
    Returns the cursors, `icount` and the new row. -/
def padCopy (size : Nat) : List Bool → Bytes → Nat → Bytes → Option (List Bool × Bytes × Nat × Bytes)
  | [], _, _, _ => none                                           -- csflag[idx][spos] read outside the row
  | true :: fl, old, ic, acc => some (true :: fl, old, ic, acc)
  | false :: _, [], _, _ => none                                  -- old row read outside
  | false :: fl, x :: old, ic, acc =>
    if acc.length < size then padCopy size fl old (ic + 1) (x :: acc) else none

/-- `while (icount < nins[cpos]) { new[apos] = gap; apos++; icount++; }` for `k = nins[cpos] - icount` iterations -/
def padFill (size : Nat) (gap : UInt8) : Nat → Bytes → Option Bytes
  | 0, acc => some acc
  | k + 1, acc => if acc.length < size then padFill size gap k (gap :: acc) else none

/-- `for (cpos = 0; cpos <= ncons; cpos++) { … }` of the padding functions over `nins[cpos..ncons]`
    (`cpos < ncons` ⇔ the remaining list has more than one element) -/
def padRow (size : Nat) (gap : UInt8) : List Nat → List Bool → Bytes → Bytes → Option Bytes
  | [], _, _, acc => some acc
  | m :: ms, fl, old, acc =>
    match padCopy size fl old 0 acc with
    | none => none
    | some (fl1, old1, ic, acc1) =>
      match padFill size gap (m - ic) acc1 with
      | none => none
      | some acc2 =>
        match ms with
        | [] => some acc2
        | _ :: _ =>                                               -- if (cpos < ncons) { new[apos] = old[spos]; apos++; spos++; }
          match old1 with
          | [] => none
          | x :: old2 => if acc2.length < size then padRow size gap ms (fl1.drop 1) old2 (x :: acc2) else none

/-- the `msa->rf` loop: `for (icount…) rf[apos++] = '.'; if (cpos < ncons) rf[apos++] = 'x';` -/
def padRf (size : Nat) : List Nat → Bytes → Option Bytes
  | [], acc => some acc
  | m :: ms, acc =>
    match padFill size 46 m acc with
    | none => none
    | some acc1 =>
      match ms with
      | [] => some acc1
      | _ :: _ => if acc1.length < size then padRf size ms (120 :: acc1) else none

/-- one iteration of `for (idx = 0; idx < msa->nseq; idx++)`: the aligned row that replaces `msa->aseq[idx]` / `msa->ax[idx]`.
    Text: new row of `alen+1` cells, old row read as the C string `r ++ "\0"`.
    Digital: new row of `alen+2` cells written at `[apos+1]` (so `apos < alen+1`), old row read at `[spos+1]`. -/
def padOne (cfg : Cfg) (nins : List Nat) (alen : Nat) (rec : Bytes × List Bool) : Option Bytes :=
  let old := if cfg.digital then rec.1.drop 1 else rec.1 ++ [0]
  match padRow (alen + 1) cfg.padSym nins rec.2 old [] with
  | none => none
  | some acc =>
    if acc.length != alen then none          -- ESL_DASSERT1(apos == alen): else the row keeps never-written cells
    else if cfg.digital then some (dsqSENTINEL :: acc.reverse ++ [dsqSENTINEL]) else some acc.reverse

def padAll (cfg : Cfg) (nins : List Nat) (alen : Nat) : List (Bytes × List Bool) → Option (List Bytes)
  | [] => some []
  | rec :: rest =>
    match padOne cfg nins alen rec, padAll cfg nins alen rest with
    | some r, some rs => some (r :: rs)
    | _, _ => none

/-- `a2m_padding_text` / `a2m_padding_digital` + `esl_msa_SetDefaultWeights` -/
def a2mPad (cfg : Cfg) (st : A2mSt) : Res Msa :=
  if st.nins.length < st.ncons + 1 then .fault                    -- nins[cpos], cpos <= ncons
  else
    let nins := st.nins.take (st.ncons + 1)
    let alen := st.ncons + nins.sum
    match padRf (alen + 1) nins [], padAll cfg nins alen st.recs with
    | some rrf, some rows =>
      if rrf.length > alen then .fault                            -- rf[apos] = '\0'
      else
        .ok { digital := cfg.digital, kp := cfg.kp, alen := alen, names := st.names,
              aseq := if cfg.digital then [] else rows,
              ax := if cfg.digital then rows else [],
              hasw := false, wgt := List.replicate st.nseq Wgt.dflt,
              rf := some rrf.reverse,
              sqdesc := padOptRows st.sqdesc st.nseq }
    | _, _ => .fault

/-- end of input -/
def a2mFinish (cfg : Cfg) (st : A2mSt) : Res Msa :=
  if st.lead then .eof
  else
    match a2mFinishRecord cfg st with
    | .inr r => r
    | .inl st' => a2mPad cfg st'

/-- `esl_msafile_a2m_Read` on the remaining lines: outcome and the lines left unread -/
def a2mRead (cfg : Cfg) (lines : List Bytes) : Res Msa × List Bytes :=
  runLines (a2mStep cfg) (a2mFinish cfg) {} lines

end EaselModel.Msafile
