import EaselModel.Msafile.SelexRoundTrip
import EaselModel.Msafile.PhylipWritable
import EaselModel.Msafile.AbcTables
import EaselModel.Msafile.AfaIdem
/-! Concrete, checkable conditions under which an alignment is `SelexWritable`: text mode, and digital mode with the
    generated amino / DNA / RNA alphabets; and `write (read (write m)) = write m`. -/
namespace EaselModel.Msafile

/-- no `#=CS`, `#=RF`, `#=MM`, `#=SS`, `#=SA` line is written for `m` -/
structure SelexPlain (m : Msa) : Prop where
  cs_none : m.ssCons = none
  rf_none : m.rf = none
  mm_none : m.mm = none
  ss_none : ∀ i, i < m.nseq → optRow m.ss i = none
  sa_none : ∀ i, i < m.nseq → optRow m.sa i = none

/-- a sequence name SELEX carries: not empty, no blank/tab/NUL/LF, not starting with `#` -/
def selexNameOk (nm : Bytes) : Prop := sqTagOk nm ∧ (10 : UInt8) ∉ nm

/-! ## text mode -/

/-- table fact: the text-mode SELEX input map sends every graphic character to itself; none of them is white space or NUL -/
def selexTextSymOk : Bool :=
  (List.range 256).all fun n =>
    let t := UInt8.ofNat n
    !(isGraph t) || (mapByte (selexInmap none) t == (CatSt.ok, some t) && !isSpace t && t != 0)

theorem selexTextSymOk_true : selexTextSymOk = true := by decide +kernel

theorem selex_text_sym (t : UInt8) (h : isGraph t = true) :
    mapByte (selexInmap none) t = (.ok, some t) ∧ isSpace t = false ∧ t ≠ 0 := by
  have h1 := (List.all_eq_true.mp selexTextSymOk_true) t.toNat (List.mem_range.mpr t.toNat_lt)
  simp only [UInt8.ofNat_toNat, h, Bool.not_true, Bool.false_or, Bool.and_eq_true, beq_iff_eq, Bool.not_eq_true', bne_iff_ne, ne_eq] at h1
  exact ⟨h1.1.1, h1.1.2, h1.2⟩

/-- a text-mode alignment that SELEX represents faithfully: names and rows of graphic characters, no annotation lines -/
structure SelexTextWritable (m : Msa) : Prop where
  dig : m.digital = false
  plain : SelexPlain m
  n1 : 1 ≤ m.nseq
  alen1 : 1 ≤ m.alen
  name_ok : ∀ i, i < m.nseq → selexNameOk (m.names.getD i [])
  row_ok : ∀ i, i < m.nseq → (m.aseq.getD i []).length = m.alen ∧ ∀ t ∈ m.aseq.getD i [], isGraph t = true

theorem selexTextWritable_writable (m : Msa) (h : SelexTextWritable m) :
    SelexWritable none (selexCfg none) id (fun i => m.aseq.getD i []) m :=
  { n1 := h.n1, alen1 := h.alen1, cs_none := h.plain.cs_none, rf_none := h.plain.rf_none, mm_none := h.plain.mm_none
    ss_none := h.plain.ss_none, sa_none := h.plain.sa_none
    name_ok := fun i hi => (h.name_ok i hi).1
    txt_len := fun i hi => (h.row_ok i hi).1
    chunk_eq := fun i hi pos => by
      have hmem : ∀ t ∈ ((m.aseq.getD i []).drop pos).take 60, t ∈ m.aseq.getD i [] :=
        fun t ht => List.mem_of_mem_drop (List.mem_of_mem_take ht)
      show strChunk (m.aseq.getD i []) pos selexCpl = _
      unfold strChunk
      rw [show selexCpl = 60 from rfl]
      exact cstr_id _ (fun t ht => (selex_text_sym t ((h.row_ok i hi).2 t (hmem t ht))).2.2)
    txt_sym := fun i hi t ht => by
      have := selex_text_sym t ((h.row_ok i hi).2 t ht)
      exact ⟨by simpa [selexCfg] using this.1, this.2.1, this.2.2⟩
    enc_nz := fun _ i hi t ht => (selex_text_sym t ((h.row_ok i hi).2 t ht)).2.2
    row_enc := fun i hi => by
      simp [Msa.stored, h.dig, mkRow, selexCfg, Cfg.digital] }

/-! ## digital mode -/

/-- the stored symbol the reader produces for a written character -/
def selexEnc (a : Abc) (t : UInt8) : UInt8 :=
  match mapByte (selexInmap (some a)) t with
  | (_, some x) => x
  | _ => 0

/-- table fact about an alphabet: the character `sym[x]` written for code `x < Kp` is read back as `x`, is neither white
    space nor NUL; no code collides with the sentinel -/
def selexDigSymOk (a : Abc) : Bool :=
  ((List.range a.kp).all fun x =>
    let t := a.sym.getD x 0
    mapByte (selexInmap (some a)) t == (CatSt.ok, some (UInt8.ofNat x)) && !isSpace t && t != 0)
  && decide (a.kp ≤ 250)

theorem selexDigSymOk_amino : selexDigSymOk abcAmino = true := by decide +kernel
theorem selexDigSymOk_dna : selexDigSymOk abcDna = true := by decide +kernel
theorem selexDigSymOk_rna : selexDigSymOk abcRna = true := by decide +kernel

theorem selex_dig_sym (a : Abc) (ha : selexDigSymOk a = true) (x : UInt8) (hx : x.toNat < a.kp) :
    mapByte (selexInmap (some a)) (a.sym.getD x.toNat 0) = (.ok, some (selexEnc a (a.sym.getD x.toNat 0))) ∧
    isSpace (a.sym.getD x.toNat 0) = false ∧ a.sym.getD x.toNat 0 ≠ 0 ∧ selexEnc a (a.sym.getD x.toNat 0) = x := by
  unfold selexDigSymOk at ha
  simp only [Bool.and_eq_true, decide_eq_true_eq] at ha
  have h1 := (List.all_eq_true.mp ha.1) x.toNat (List.mem_range.mpr hx)
  simp only [UInt8.ofNat_toNat, Bool.and_eq_true, beq_iff_eq, Bool.not_eq_true', bne_iff_ne, ne_eq] at h1
  obtain ⟨⟨hm, hs⟩, hz⟩ := h1
  have he : selexEnc a (a.sym.getD x.toNat 0) = x := by unfold selexEnc; rw [hm]
  exact ⟨by rw [he]; exact hm, hs, hz, he⟩

/-- a digital alignment (alphabet `a`) that SELEX represents faithfully -/
structure SelexDigitalWritable (a : Abc) (m : Msa) : Prop where
  dig : m.digital = true
  plain : SelexPlain m
  n1 : 1 ≤ m.nseq
  alen1 : 1 ≤ m.alen
  name_ok : ∀ i, i < m.nseq → selexNameOk (m.names.getD i [])
  row_ok : ∀ i, i < m.nseq → dsqRowOk a.kp m.alen (m.ax.getD i []) = true

/-- the text the writer prints for row `i` -/
def selexDigTxt (a : Abc) (m : Msa) (i : Nat) : Bytes :=
  (dsqCodes (some (m.ax.getD i []))).map fun x => a.sym.getD x.toNat 0

theorem selexDigitalWritable_writable (a : Abc) (ha : selexDigSymOk a = true) (m : Msa) (h : SelexDigitalWritable a m) :
    SelexWritable (some a) (selexCfg (some a)) (selexEnc a) (selexDigTxt a m) m := by
  have hkp : a.kp ≤ 250 := by
    unfold selexDigSymOk at ha
    simp only [Bool.and_eq_true, decide_eq_true_eq] at ha
    exact ha.2
  have hcodes : ∀ i, i < m.nseq →
      (dsqCodes (some (m.ax.getD i []))).all (fun x => decide (x.toNat < a.kp)) = true ∧ (dsqCodes (some (m.ax.getD i []))).length = m.alen := by
    intro i hi
    cases hr : m.ax.getD i [] with
    | nil => have := h.row_ok i hi; rw [hr] at this; simp [dsqRowOk] at this
    | cons s0 rest =>
      have := h.row_ok i hi; rw [hr] at this
      simp only [dsqRowOk, Bool.and_eq_true, beq_iff_eq] at this
      refine ⟨by simpa [dsqCodes] using this.2, ?_⟩
      simp only [dsqCodes, List.drop_succ_cons, List.drop_zero, List.length_dropLast]
      omega
  have hlt : ∀ i, i < m.nseq → ∀ x ∈ dsqCodes (some (m.ax.getD i [])), x.toNat < a.kp := by
    intro i hi x hx
    simpa using (List.all_eq_true.mp (hcodes i hi).1) x hx
  have hdig : (selexCfg (some a)).digital = true := rfl
  exact
    { n1 := h.n1, alen1 := h.alen1, cs_none := h.plain.cs_none, rf_none := h.plain.rf_none, mm_none := h.plain.mm_none
      ss_none := h.plain.ss_none, sa_none := h.plain.sa_none
      name_ok := fun i hi => (h.name_ok i hi).1
      txt_len := fun i hi => by simp only [selexDigTxt, List.length_map]; exact (hcodes i hi).2
      chunk_eq := fun i hi pos => by
        have hshape := dsqRow_shape _ _ _ (h.row_ok i hi)
        have hns : ∀ x ∈ dsqCodes (some (m.ax.getD i [])), x ≠ dsqSENTINEL := by
          intro x hx hs
          have := hlt i hi x hx
          rw [hs] at this
          simp [dsqSENTINEL] at this
          omega
        show textizeN a ((m.ax.getD i []).drop (pos + 1)) selexCpl = _
        have hdrop : (m.ax.getD i []).drop (pos + 1) = (dsqCodes (some (m.ax.getD i [])) ++ [dsqSENTINEL]).drop pos := by
          conv => lhs; rw [hshape]
          simp
        unfold textizeN
        rw [hdrop, show selexCpl = 60 from rfl, takeWhile_sentinel _ hns]
        simp only [selexDigTxt, List.map_drop, List.map_take]
      txt_sym := fun i hi t ht => by
        simp only [selexDigTxt, List.mem_map] at ht
        obtain ⟨x, hx, rfl⟩ := ht
        have := selex_dig_sym a ha x (hlt i hi x hx)
        exact ⟨by simpa [selexCfg] using this.1, this.2.1, this.2.2.1⟩
      enc_nz := fun hd => by rw [hdig] at hd; exact absurd hd (by decide)
      row_enc := fun i hi => by
        have hshape := dsqRow_shape _ _ _ (h.row_ok i hi)
        have hmap : (selexDigTxt a m i).map (selexEnc a) = dsqCodes (some (m.ax.getD i [])) := by
          simp only [selexDigTxt, List.map_map]
          exact map_id_of _ _ (fun x hx => (selex_dig_sym a ha x (hlt i hi x hx)).2.2.2)
        rw [hmap]
        simp only [Msa.stored, h.dig, if_true, mkRow, selexCfg, Cfg.digital, Option.isSome_some]
        exact hshape }

/-! ## the round trips -/

theorem selexRead_write_text (m : Msa) (h : SelexTextWritable m) :
    selexRead (selexCfg none) (splitLines (selexWrite none m)) = (.ok (selexProject (selexCfg none) m), []) :=
  selexRead_write none (selexCfg none) id _ m (selexTextWritable_writable m h) (fun i hi => (h.name_ok i hi).2)

theorem selexRead_write_digital (a : Abc) (ha : selexDigSymOk a = true) (m : Msa) (h : SelexDigitalWritable a m) :
    selexRead (selexCfg (some a)) (splitLines (selexWrite (some a) m)) = (.ok (selexProject (selexCfg (some a)) m), []) :=
  selexRead_write (some a) (selexCfg (some a)) (selexEnc a) _ m (selexDigitalWritable_writable a ha m h)
    (fun i hi => (h.name_ok i hi).2)

/-! ## `write (read (write m)) = write m` -/

theorem selexProject_stored (cfg : Cfg) (m : Msa) (hd : m.digital = cfg.digital) (i : Nat) (hi : i < m.nseq) :
    (selexProject cfg m).stored i = m.stored i := by
  cases hc : cfg.digital with
  | true => simp [selexProject, Msa.stored, hc, List.getD_eq_getElem?_getD, hi, hd]
  | false => simp [selexProject, Msa.stored, hc, List.getD_eq_getElem?_getD, hi, hd]

/-- re-writing what was read back reproduces the bytes (the projected alignment has the same names, rows and no annotation) -/
theorem selexWrite_project (abc : Option Abc) (cfg : Cfg) (m : Msa) (hp : SelexPlain m)
    (hax : abc.isSome = true → (selexProject cfg m).ax = (List.range m.nseq).map fun i => m.ax.getD i [])
    (haseq : abc.isSome = false → (selexProject cfg m).aseq = (List.range m.nseq).map fun i => m.aseq.getD i []) :
    selexWrite abc (selexProject cfg m) = selexWrite abc m := by
  have hn : (selexProject cfg m).nseq = m.nseq := rfl
  have hss : (selexProject cfg m).ss = none := selexRowsProj_none _ _ hp.ss_none
  have hsa : (selexProject cfg m).sa = none := selexRowsProj_none _ _ hp.sa_none
  unfold selexWrite selexLines
  have hw : selexNameLen (selexProject cfg m) = selexNameLen m := rfl
  have hal : (selexProject cfg m).alen = m.alen := rfl
  rw [hw, hal]
  congr 1
  apply flatMap_congr'
  intro apos _
  unfold selexBlockLines
  have h1 : (selexProject cfg m).ssCons = m.ssCons := rfl
  have h2 : (selexProject cfg m).rf = m.rf := rfl
  have h3 : (selexProject cfg m).mm = m.mm := rfl
  rw [h1, h2, h3, hn]
  congr 1
  apply flatMap_congr'
  intro i hi
  have hi' : i < m.nseq := List.mem_range.mp hi
  unfold selexSeqLines
  have hnm : (selexProject cfg m).names = m.names := rfl
  rw [hnm, hss, hsa, hp.ss_none i hi', hp.sa_none i hi']
  have hch : seqChunk abc (selexProject cfg m) i apos selexCpl = seqChunk abc m i apos selexCpl := by
    cases abc with
    | none =>
      simp only [seqChunk]
      rw [haseq rfl]
      simp [List.getD_eq_getElem?_getD, hi']
    | some a =>
      simp only [seqChunk]
      rw [hax rfl]
      simp [List.getD_eq_getElem?_getD, hi']
  rw [hch]
  simp [optRow]

theorem selexWrite_project_text (m : Msa) (h : SelexTextWritable m) :
    selexWrite none (selexProject (selexCfg none) m) = selexWrite none m := by
  apply selexWrite_project none (selexCfg none) m h.plain
  · intro hc; simp at hc
  · intro _
    simp [selexProject, selexCfg, Cfg.digital, Msa.stored, h.dig]

theorem selexWrite_project_digital (a : Abc) (m : Msa) (h : SelexDigitalWritable a m) :
    selexWrite (some a) (selexProject (selexCfg (some a)) m) = selexWrite (some a) m := by
  apply selexWrite_project (some a) (selexCfg (some a)) m h.plain
  · intro _
    simp [selexProject, selexCfg, Cfg.digital, Msa.stored, h.dig]
  · intro hc; simp at hc

end EaselModel.Msafile
