import EaselModel.Msafile.AfaRoundTrip
import EaselModel.Msafile.AbcTables
/-! Concrete, checkable conditions under which an alignment is `AfaWritable`: text mode, and digital mode with the
    generated amino / DNA / RNA alphabets. -/
namespace EaselModel.Msafile

/-! ## text mode -/

/-- table fact: the text-mode AFA input map sends every graphic character but `>` to itself, and none of them is white space -/
def afaTextSymOk : Bool :=
  (List.range 256).all fun n =>
    let t := UInt8.ofNat n
    !(isGraph t && t != 62) || (mapByte (afaInmap none) t == (CatSt.ok, some t) && !isSpace t)

theorem afaTextSymOk_true : afaTextSymOk = true := by decide +kernel

theorem afa_text_sym (t : UInt8) (h : isGraph t = true) (hgt : t ≠ 62) :
    mapByte (afaInmap none) t = (.ok, some t) ∧ isSpace t = false := by
  have h1 := (List.all_eq_true.mp afaTextSymOk_true) t.toNat (List.mem_range.mpr t.toNat_lt)
  have hne : (t != 62) = true := by simpa using hgt
  simp only [UInt8.ofNat_toNat, h, hne, Bool.and_self, Bool.not_true, Bool.false_or, Bool.and_eq_true, beq_iff_eq, Bool.not_eq_true'] at h1
  exact h1

/-- a text-mode alignment that aligned FASTA represents faithfully -/
structure AfaTextWritable (m : Msa) : Prop where
  dig : m.digital = false
  n1 : 1 ≤ m.nseq
  alen1 : 1 ≤ m.alen
  acc_none : m.sqacc = none
  name_ok : ∀ i, i < m.nseq → nameOk (m.names.getD i [])
  desc_ok : ∀ i, i < m.nseq → ∀ d, optAt m.sqdesc i = some d → descOk d
  hdr_line : ∀ i, i < m.nseq → lineOk (afaHeader m i)
  row_ok : ∀ i, i < m.nseq → (m.aseq.getD i []).length = m.alen ∧ ∀ t ∈ m.aseq.getD i [], isGraph t = true ∧ t ≠ 62

theorem afaTextWritable_writable (m : Msa) (h : AfaTextWritable m) : AfaWritable none (afaCfg none) id m := by
  have hrt : ∀ i, m.rowText none i = m.aseq.getD i [] := fun i => rfl
  have htake : ∀ i, i < m.nseq → (m.rowText none i).take m.alen = m.aseq.getD i [] := by
    intro i hi
    rw [hrt]
    exact List.take_of_length_le (by rw [(h.row_ok i hi).1]; exact Nat.le_refl _)
  exact
    { dig := by simp [h.dig, afaCfg, Cfg.digital]
      n1 := h.n1, alen1 := h.alen1, acc_none := h.acc_none, name_ok := h.name_ok, desc_ok := h.desc_ok, hdr_line := h.hdr_line
      row_len := fun i hi => by rw [htake i hi]; exact (h.row_ok i hi).1
      row_sym := fun i hi t ht => by
        rw [htake i hi] at ht
        have hg := (h.row_ok i hi).2 t ht
        have hs := afa_text_sym t hg.1 hg.2
        exact ⟨by simpa [afaCfg] using hs.1, hs.2, hg.2⟩
      row_enc := fun i hi => by
        rw [htake i hi]
        simp [Msa.stored, h.dig, mkRow, afaCfg, Cfg.digital] }

/-! ## digital mode -/

/-- the stored symbol the reader produces for a written character -/
def afaEnc (a : Abc) (t : UInt8) : UInt8 :=
  match mapByte (afaInmap (some a)) t with
  | (_, some x) => x
  | _ => 0

/-- table fact about an alphabet: the character `sym[x]` written for code `x < Kp` is read back as `x`, is not white space, is not '>' -/
def afaDigSymOk (a : Abc) : Bool :=
  (List.range a.kp).all fun x =>
    let t := a.sym.getD x 0
    mapByte (afaInmap (some a)) t == (CatSt.ok, some (UInt8.ofNat x)) && !isSpace t && t != 62

theorem afaDigSymOk_amino : afaDigSymOk abcAmino = true := by decide +kernel
theorem afaDigSymOk_dna : afaDigSymOk abcDna = true := by decide +kernel
theorem afaDigSymOk_rna : afaDigSymOk abcRna = true := by decide +kernel

theorem afa_dig_sym (a : Abc) (ha : afaDigSymOk a = true) (x : UInt8) (hx : x.toNat < a.kp) :
    mapByte (afaInmap (some a)) (a.sym.getD x.toNat 0) = (.ok, some (afaEnc a (a.sym.getD x.toNat 0))) ∧
    isSpace (a.sym.getD x.toNat 0) = false ∧ a.sym.getD x.toNat 0 ≠ 62 ∧ afaEnc a (a.sym.getD x.toNat 0) = x := by
  have h1 := (List.all_eq_true.mp ha) x.toNat (List.mem_range.mpr hx)
  simp only [UInt8.ofNat_toNat, Bool.and_eq_true, beq_iff_eq, Bool.not_eq_true', bne_iff_ne, ne_eq] at h1
  obtain ⟨⟨hm, hs⟩, hg⟩ := h1
  have he : afaEnc a (a.sym.getD x.toNat 0) = x := by unfold afaEnc; rw [hm]
  exact ⟨by rw [he]; exact hm, hs, hg, he⟩

/-- a digital alignment (alphabet `a`) that aligned FASTA represents faithfully -/
structure AfaDigitalWritable (a : Abc) (m : Msa) : Prop where
  dig : m.digital = true
  n1 : 1 ≤ m.nseq
  alen1 : 1 ≤ m.alen
  acc_none : m.sqacc = none
  name_ok : ∀ i, i < m.nseq → nameOk (m.names.getD i [])
  desc_ok : ∀ i, i < m.nseq → ∀ d, optAt m.sqdesc i = some d → descOk d
  hdr_line : ∀ i, i < m.nseq → lineOk (afaHeader m i)
  row_ok : ∀ i, i < m.nseq → dsqRowOk a.kp m.alen (m.ax.getD i []) = true

theorem dsqRow_shape (kp alen : Nat) (r : Bytes) (h : dsqRowOk kp alen r = true) :
    r = dsqSENTINEL :: dsqCodes (some r) ++ [dsqSENTINEL] := by
  cases r with
  | nil => simp [dsqRowOk] at h
  | cons s0 rest =>
    simp only [dsqRowOk, Bool.and_eq_true, beq_iff_eq] at h
    obtain ⟨⟨⟨h0, _⟩, hl⟩, _⟩ := h
    subst h0
    simp only [dsqCodes, List.drop_succ_cons, List.drop_zero, List.cons_append, List.cons.injEq, true_and]
    have hne : rest ≠ [] := by intro h0; rw [h0] at hl; simp at hl
    have hlast : rest.getLast hne = dsqSENTINEL := by
      have := List.getLast?_eq_some_getLast hne
      rw [hl] at this; exact (Option.some.inj this).symm
    rw [← hlast]
    exact (List.dropLast_concat_getLast hne).symm

theorem afaDigitalWritable_writable (a : Abc) (ha : afaDigSymOk a = true) (m : Msa) (h : AfaDigitalWritable a m) :
    AfaWritable (some a) (afaCfg (some a)) (afaEnc a) m := by
  have hcodes : ∀ i, i < m.nseq →
      (dsqCodes (some (m.ax.getD i []))).all (fun x => decide (x.toNat < a.kp)) = true ∧ (dsqCodes (some (m.ax.getD i []))).length = m.alen := by
    intro i hi
    cases hr : m.ax.getD i [] with
    | nil => have := h.row_ok i hi; rw [hr] at this; simp [dsqRowOk] at this
    | cons s0 rest =>
      have := h.row_ok i hi; rw [hr] at this
      simp only [dsqRowOk, Bool.and_eq_true, beq_iff_eq] at this
      refine ⟨by simpa [dsqCodes] using this.2, ?_⟩
      simp only [dsqCodes, List.drop_succ_cons, List.drop_zero, List.length_dropLast]
      omega
  have hrt : ∀ i, m.rowText (some a) i = (dsqCodes (some (m.ax.getD i []))).map (fun x => a.sym.getD x.toNat 0) := fun i => rfl
  have htake : ∀ i, i < m.nseq → (m.rowText (some a) i).take m.alen = (dsqCodes (some (m.ax.getD i []))).map (fun x => a.sym.getD x.toNat 0) := by
    intro i hi
    rw [hrt]
    exact List.take_of_length_le (by rw [List.length_map, (hcodes i hi).2]; exact Nat.le_refl _)
  exact
    { dig := by simp [h.dig, afaCfg, Cfg.digital]
      n1 := h.n1, alen1 := h.alen1, acc_none := h.acc_none, name_ok := h.name_ok, desc_ok := h.desc_ok, hdr_line := h.hdr_line
      row_len := fun i hi => by rw [htake i hi, List.length_map]; exact (hcodes i hi).2
      row_sym := fun i hi t ht => by
        rw [htake i hi] at ht
        obtain ⟨x, hx, rfl⟩ := List.mem_map.mp ht
        have hk := (List.all_eq_true.mp (hcodes i hi).1) x hx
        have := afa_dig_sym a ha x (by simpa using hk)
        exact ⟨by simpa [afaCfg] using this.1, this.2.1, this.2.2.1⟩
      row_enc := fun i hi => by
        rw [htake i hi]
        have hshape := dsqRow_shape _ _ _ (h.row_ok i hi)
        have hmap : ((dsqCodes (some (m.ax.getD i []))).map (fun x => a.sym.getD x.toNat 0)).map (afaEnc a) = dsqCodes (some (m.ax.getD i [])) := by
          rw [List.map_map]
          conv => rhs; rw [← List.map_id (dsqCodes (some (m.ax.getD i [])))]
          apply List.map_congr_left
          intro x hx
          have hk := (List.all_eq_true.mp (hcodes i hi).1) x hx
          exact (afa_dig_sym a ha x (by simpa using hk)).2.2.2
        rw [hmap]
        simp only [Msa.stored, h.dig, if_true, mkRow, afaCfg, Cfg.digital, Option.isSome_some]
        exact hshape }

end EaselModel.Msafile
