import EaselModel.Msafile.A2mInsWritable
import EaselModel.Msafile.AfaIdem
/-! A2M with insert columns: re-writing the re-read alignment reproduces the same bytes
    (`write (read (write m)) = write m`), and for an alignment without insert columns `a2mProjectIns = a2mProject`. -/
namespace EaselModel.Msafile

/-! ## what the writer prints for one cell, given the `rf` character of its column -/

def a2mCell (abc : Option Abc) (r x : UInt8) : Option UInt8 :=
  let cons := isAlnum r
  match abc with
  | some a =>
    let sym := a.sym.getD x.toNat 0
    let isRes := a.xIsResidue x
    let sym := if sym == 79 then a.cUnknown else sym
    if cons then some (if isRes then toUpper sym else 45)
    else if isRes then some (toLower sym)
    else none
  | none =>
    let isRes := isAlpha x
    let sym := if x == 79 || x == 111 then 88 else x
    if cons then some (if isRes then toUpper sym else 45)
    else if isRes then some (toLower sym)
    else none

/-- the cell of sequence `i`, column `pos` the writer looks at -/
def a2mCellAt (abc : Option Abc) (m : Msa) (i pos : Nat) : UInt8 :=
  match abc with
  | some _ => axAt m i pos
  | none => aseqAt m i pos

theorem a2mChar_cell (abc : Option Abc) (m : Msa) (i pos : Nat) (rf : Bytes) (hrf : m.rf = some rf) :
    a2mChar abc m i pos = a2mCell abc (rf.getD pos 0) (a2mCellAt abc m i pos) := by
  cases abc <;> simp only [a2mChar, isConsensusCol, hrf, a2mCell, a2mCellAt] <;> rfl

theorem zipFM (f : UInt8 → UInt8 → Option UInt8) : ∀ (rf codes : Bytes), rf.length = codes.length →
    (List.range rf.length).filterMap (fun pos => f (rf.getD pos 0) (codes.getD pos 0)) = (List.zipWith f rf codes).filterMap id := by
  intro rf
  induction rf with
  | nil => intro codes _; simp
  | cons r rf ih =>
    intro codes h
    cases codes with
    | nil => simp at h
    | cons c cs =>
      have h' : rf.length = cs.length := by simpa using h
      have := ih cs h'
      simp only [List.length_cons, List.range_succ_eq_map, List.filterMap_cons, List.filterMap_map, List.zipWith_cons_cons, id]
      simp only [Function.comp_def, List.getD_cons_succ, List.getD_cons_zero]
      rw [this]

theorem runFM (f : UInt8 → UInt8 → Option UInt8) (enc : UInt8 → UInt8) (gap : UInt8) (hg : f 46 gap = none) :
    ∀ (r : Bytes) (n : Nat), r.length ≤ n → (∀ t ∈ r, f 46 (enc t) = some t) →
      (List.zipWith f (List.replicate n 46) (padRun gap n (r.map enc))).filterMap id = r := by
  intro r
  induction r with
  | nil =>
    intro n _ _
    simp only [padRun, List.map_nil, List.length_nil, Nat.sub_zero, List.nil_append]
    induction n with
    | zero => rfl
    | succ n ih =>
      simp only [List.replicate_succ, List.zipWith_cons_cons, List.filterMap_cons, hg, id]
      exact ih (by simp)
  | cons t r ih =>
    intro n hn hr
    cases n with
    | zero => simp at hn
    | succ n =>
      have e : padRun gap (n + 1) ((t :: r).map enc) = enc t :: padRun gap n (r.map enc) := by
        simp [padRun]
      simp only [e, List.replicate_succ, List.zipWith_cons_cons, List.filterMap_cons, hr t (by simp), id]
      rw [ih n (by simpa using hn) (fun t' ht' => hr t' (by simp [ht']))]

theorem zipSeg (f : UInt8 → UInt8 → Option UInt8) (enc : UInt8 → UInt8) (gap : UInt8) (hg : f 46 gap = none) :
    ∀ (rest : List (UInt8 × Bytes)) (ns : List Nat) (n0 : Nat) (r0 : Bytes), leAll (segLens (r0, rest)) (n0 :: ns) →
      (∀ t ∈ r0, f 46 (enc t) = some t) →
      (∀ cr ∈ rest, f 120 (enc cr.1) = some cr.1 ∧ ∀ t ∈ cr.2, f 46 (enc t) = some t) →
      (List.zipWith f (rfOf (n0 :: ns)) (padSegs gap (n0 :: ns) (segMap enc (r0, rest)))).filterMap id = segJoin (r0, rest) := by
  intro rest
  induction rest with
  | nil =>
    intro ns n0 r0 hle h0 _
    have hns : ns = [] := by
      cases ns with
      | nil => rfl
      | cons _ _ => exact absurd hle.2 (by simp [leAll])
    subst hns
    have h1 : r0.length ≤ n0 := hle.1
    simp only [rfOf, padSegs, segMap, padRest, List.map_nil, List.flatMap_nil, List.append_nil, segJoin]
    exact runFM f enc gap hg r0 n0 h1 h0
  | cons cr rest ih =>
    intro ns n0 r0 hle h0 hrest
    cases ns with
    | nil => exact absurd hle.2 (by simp [leAll])
    | cons n1 ns =>
      have h1 : r0.length ≤ n0 := hle.1
      have hle' : leAll (segLens (cr.2, rest)) (n1 :: ns) := hle.2
      have e1 : rfOf (n0 :: n1 :: ns) = List.replicate n0 46 ++ 120 :: rfOf (n1 :: ns) := by simp [rfOf]
      have e2 : padSegs gap (n0 :: n1 :: ns) (segMap enc (r0, cr :: rest))
          = padRun gap n0 (r0.map enc) ++ enc cr.1 :: padSegs gap (n1 :: ns) (segMap enc (cr.2, rest)) := by
        simp [padSegs, padRest, segMap]
      have e3 : segJoin (r0, cr :: rest) = r0 ++ cr.1 :: segJoin (cr.2, rest) := by simp [segJoin]
      have hl : (List.replicate n0 (46 : UInt8)).length = (padRun gap n0 (r0.map enc)).length := by
        rw [padRun_length gap n0 _ (by simpa using h1)]; simp
      rw [e1, e2, e3, List.zipWith_append hl, List.filterMap_append, runFM f enc gap hg r0 n0 h1 h0]
      have hcr := hrest cr (by simp)
      simp only [List.zipWith_cons_cons, List.filterMap_cons, hcr.1, id]
      rw [ih ns n1 cr.2 hle' hcr.2 (fun cr' h' => hrest cr' (by simp [h']))]

theorem splitRow_join' (w : Bytes) : segJoin (splitRow w) = w := by
  induction w with
  | nil => rfl
  | cons t w ih =>
    cases h : isLower t with
    | true => simp [splitRow, h, segJoin] at ih ⊢; exact ih
    | false => simp [splitRow, h, segJoin] at ih ⊢; exact ih

theorem splitRow_mem (w : Bytes) :
    (∀ t ∈ (splitRow w).1, t ∈ w ∧ isLower t = true) ∧
    (∀ cr ∈ (splitRow w).2, (cr.1 ∈ w ∧ isLower cr.1 = false) ∧ ∀ t ∈ cr.2, t ∈ w ∧ isLower t = true) := by
  induction w with
  | nil => simp [splitRow]
  | cons x w ih =>
    obtain ⟨ih1, ih2⟩ := ih
    cases h : isLower x with
    | true =>
      simp only [splitRow, h, if_true]
      refine ⟨?_, ?_⟩
      · intro t ht
        rcases List.mem_cons.mp ht with rfl | ht
        · exact ⟨by simp, h⟩
        · exact ⟨by simp [(ih1 t ht).1], (ih1 t ht).2⟩
      · intro cr hcr
        have := ih2 cr hcr
        exact ⟨⟨by simp [this.1.1], this.1.2⟩, fun t ht => ⟨by simp [(this.2 t ht).1], (this.2 t ht).2⟩⟩
    | false =>
      simp only [splitRow, h, Bool.false_eq_true, if_false]
      refine ⟨by simp, ?_⟩
      intro cr hcr
      rcases List.mem_cons.mp hcr with rfl | hcr
      · exact ⟨⟨by simp, h⟩, fun t ht => ⟨by simp [(ih1 t ht).1], (ih1 t ht).2⟩⟩
      · have := ih2 cr hcr
        exact ⟨⟨by simp [this.1.1], this.1.2⟩, fun t ht => ⟨by simp [(this.2 t ht).1], (this.2 t ht).2⟩⟩

/-- a written row, aligned by the reader and printed again -/
theorem rewrite_row (f : UInt8 → UInt8 → Option UInt8) (enc : UInt8 → UInt8) (gap : UInt8) (hg : f 46 gap = none)
    (w : Bytes) (n0 : Nat) (ns : List Nat) (hle : leAll (segLens (splitRow w)) (n0 :: ns))
    (hw : ∀ t ∈ w, f (if isLower t then 46 else 120) (enc t) = some t) :
    (List.zipWith f (rfOf (n0 :: ns)) (padSegs gap (n0 :: ns) (segMap enc (splitRow w)))).filterMap id = w := by
  obtain ⟨hm1, hm2⟩ := splitRow_mem w
  have := zipSeg f enc gap hg (splitRow w).2 ns n0 (splitRow w).1 hle
    (fun t ht => by have := hw t (hm1 t ht).1; rw [(hm1 t ht).2] at this; simpa using this)
    (fun cr hcr => by
      have h1 := hm2 cr hcr
      refine ⟨?_, fun t ht => ?_⟩
      · have := hw cr.1 h1.1.1; rw [h1.1.2] at this; simpa using this
      · have := hw t (h1.2 t ht).1; rw [(h1.2 t ht).2] at this; simpa using this)
  rw [splitRow_join'] at this
  exact this

/-! ## re-writing the alignment read back -/

section
variable {abc : Option Abc} {cfg : Cfg} {enc : UInt8 → UInt8} {m : Msa}

theorem filterMap_congr' {α β : Type} (l : List α) (f g : α → Option β) (h : ∀ a ∈ l, f a = g a) :
    l.filterMap f = l.filterMap g := by
  induction l with
  | nil => rfl
  | cons a l ih =>
    simp only [List.filterMap_cons, h a (by simp)]
    rw [ih (fun b hb => h b (by simp [hb]))]

theorem a2mNins_cons (h : A2mInsWritable abc cfg enc m) : ∃ n0 ns, a2mNins abc m = n0 :: ns ∧ ns.length = a2mNcons abc m := by
  have hnl : (a2mNins abc m).length = a2mNcons abc m + 1 := a2mNinsUpTo_length h m.nseq (Nat.le_refl _)
  cases hh : a2mNins abc m with
  | nil => rw [hh] at hnl; simp at hnl
  | cons a b => rw [hh] at hnl; exact ⟨a, b, rfl, by simpa using hnl⟩

theorem a2mProjectIns_cell (hd : cfg.digital = abc.isSome) (i pos : Nat) (hi : i < m.nseq)
    (hp : pos < (a2mInsRowCodes abc cfg enc m i).length) :
    a2mCellAt abc (a2mProjectIns abc cfg enc m) i pos = (a2mInsRowCodes abc cfg enc m i).getD pos 0 := by
  unfold a2mCellAt
  cases abc with
  | none =>
    have hd' : cfg.digital = false := by simpa using hd
    simp only [aseqAt, a2mProjectIns, hd', Bool.false_eq_true, if_false]
    simp [List.getD_eq_getElem?_getD, hi, a2mInsRow, mkRow, hd']
  | some a =>
    have hd' : cfg.digital = true := by simpa using hd
    simp only [axAt, a2mProjectIns, hd', if_true]
    simp [List.getD_eq_getElem?_getD, hi, a2mInsRow, mkRow, hd', List.getElem?_append_left hp]

/-- the characters printed for row `i` of the alignment read back are those printed for row `i` of the original -/
theorem a2mWr_projectIns (h : A2mInsWritable abc cfg enc m) (hd : cfg.digital = abc.isSome)
    (hpad : a2mCell abc 46 cfg.padSym = none) (i : Nat) (hi : i < m.nseq)
    (hrow : ∀ t ∈ a2mWr abc m i, a2mCell abc (if isLower t then 46 else 120) (enc t) = some t) :
    a2mWr abc (a2mProjectIns abc cfg enc m) i = a2mWr abc m i := by
  obtain ⟨n0, ns, hn, hnsl⟩ := a2mNins_cons h
  have hle : leAll (segLens (splitRow (a2mWr abc m i))) (n0 :: ns) := by
    rw [← hn]; exact a2mRunLens_le h m.nseq (Nat.le_refl _) i hi
  have hcl : (a2mInsRowCodes abc cfg enc m i).length = (n0 :: ns).sum + ns.length := by
    rw [a2mInsRowCodes, hn]
    exact padSegs_length _ n0 ns _ (by rw [segLens_map]; exact hle)
  have hrl := rfOf_length n0 ns
  have halen : (a2mProjectIns abc cfg enc m).alen = (rfOf (n0 :: ns)).length := by
    show a2mNcons abc m + (a2mNins abc m).sum = _
    rw [hn, hrl]; omega
  have e1 : a2mWr abc (a2mProjectIns abc cfg enc m) i
      = (List.range (rfOf (n0 :: ns)).length).filterMap
          (fun pos => a2mCell abc ((rfOf (n0 :: ns)).getD pos 0) ((a2mInsRowCodes abc cfg enc m i).getD pos 0)) := by
    unfold a2mWr
    rw [halen]
    apply filterMap_congr'
    intro pos hpos
    have hp : pos < (a2mInsRowCodes abc cfg enc m i).length := by
      have := List.mem_range.mp hpos
      omega
    rw [a2mChar_cell abc _ i pos (rfOf (a2mNins abc m)) rfl, hn, a2mProjectIns_cell hd i pos hi hp]
  rw [e1, zipFM (a2mCell abc) _ _ (by omega), a2mInsRowCodes, hn]
  exact rewrite_row (a2mCell abc) enc cfg.padSym hpad _ n0 ns hle hrow

/-- re-writing what was read back reproduces the bytes, provided every printed character, read back and printed again in
    a column of its kind, is itself, and the padding symbol prints as nothing in an insert column -/
theorem a2mWrite_projectIns (h : A2mInsWritable abc cfg enc m) (hd : cfg.digital = abc.isSome)
    (hpad : a2mCell abc 46 cfg.padSym = none)
    (hrow : ∀ i, i < m.nseq → ∀ t ∈ a2mWr abc m i, a2mCell abc (if isLower t then 46 else 120) (enc t) = some t) :
    a2mWrite abc (a2mProjectIns abc cfg enc m) = a2mWrite abc m := by
  unfold a2mWrite a2mLines
  have hn : (a2mProjectIns abc cfg enc m).nseq = m.nseq := rfl
  rw [hn]
  congr 1
  apply flatMap_congr'
  intro i hi
  have hi' : i < m.nseq := List.mem_range.mp hi
  unfold a2mRecLines
  have hh : a2mHeader (a2mProjectIns abc cfg enc m) i = a2mHeader m i := by
    unfold a2mHeader
    have h1 : optRow (a2mProjectIns abc cfg enc m).sqacc i = optRow m.sqacc i := by simp [a2mProjectIns, h.acc_none, optRow]
    have h2 : optRow (a2mProjectIns abc cfg enc m).sqdesc i = optRow m.sqdesc i := by
      show optAt (padOptRows (afaDescs m m.nseq) m.nseq) i = optAt m.sqdesc i
      rw [optAt_padOptRows _ _ _ hi', afaDescs_below m _ _ hi']
    rw [h1, h2]
    rfl
  rw [hh, a2mSeqLines_wr, a2mSeqLines_wr, a2mWr_projectIns h hd hpad i hi' (hrow i hi')]

end

/-! ## text mode -/

def a2mTextCellFixB : Bool :=
  (List.range 256).all fun n =>
    let t := UInt8.ofNat n
    (!((isUpper t || t == 45) && !a2mSkip t) || a2mCell none 120 t == some t) &&
    (!(isLower t && !a2mSkip t) || a2mCell none 46 t == some t)

theorem a2mTextCellFixB_true : a2mTextCellFixB = true := by decide +kernel

theorem a2mCell_text_fix (t : UInt8) (h : wrChar t) : a2mCell none (if isLower t then 46 else 120) t = some t := by
  have h1 := (List.all_eq_true.mp a2mTextCellFixB_true) t.toNat (List.mem_range.mpr t.toNat_lt)
  simp only [UInt8.ofNat_toNat, Bool.and_eq_true] at h1
  rcases h with h | h
  · have hl := consChar_notLower t h
    have h2 : ((isUpper t || t == 45) && !a2mSkip t) = true := by
      have h3 := h.2
      rcases h.1 with hu | he
      · simp [hu, h3]
      · subst he; decide
    have := h1.1
    rw [h2] at this
    simp only [hl, Bool.false_eq_true, if_false]
    simpa using this
  · have h2 : (isLower t && !a2mSkip t) = true := by simp [h.1, h.2]
    have := h1.2
    rw [h2] at this
    simp only [h.1, if_true]
    simpa using this

theorem a2mWrite_projectIns_text (m : Msa) (h : A2mInsTextWritable m) :
    a2mWrite none (a2mProjectIns none (a2mCfg none) id m) = a2mWrite none m := by
  have hw := a2mInsTextWritable_writable m h
  apply a2mWrite_projectIns hw rfl (by decide)
  intro i hi t ht
  exact a2mCell_text_fix t (hw.wr i hi t ht).1

/-! ## digital mode -/

/-- table fact: printing the code a printed character is read back as, in a column of the same kind, gives the same
    character; the gap code prints as nothing in an insert column -/
def a2mDigCellFixB (a : Abc) : Bool :=
  ((List.range a.kp).all fun n =>
    let x := UInt8.ofNat n
    a2mCell (some a) 120 (a2mDigNorm a x) == some (a2mDigWritten a x) &&
    (!a.xIsResidue x || a2mCell (some a) 46 (a2mDigNorm a x) == some (a2mDigIns a x))) &&
  a2mCell (some a) 46 a.gap == none

theorem a2mDigCellFixB_amino : a2mDigCellFixB abcAmino = true := by decide +kernel
theorem a2mDigCellFixB_dna : a2mDigCellFixB abcDna = true := by decide +kernel
theorem a2mDigCellFixB_rna : a2mDigCellFixB abcRna = true := by decide +kernel

theorem a2mWrite_projectIns_digital (a : Abc) (ha : a2mDigSymOk a = true) (hb : a2mDigInsOk a = true) (hf : a2mDigCellFixB a = true)
    (m : Msa) (h : A2mInsDigitalWritable a m) :
    a2mWrite (some a) (a2mProjectIns (some a) (a2mCfg (some a)) (a2mEnc a) m) = a2mWrite (some a) m := by
  have hw := a2mInsDigitalWritable_writable a ha hb m h
  simp only [a2mDigCellFixB, Bool.and_eq_true, beq_iff_eq] at hf
  obtain ⟨hf1, hf2⟩ := hf
  apply a2mWrite_projectIns hw rfl (by simpa [a2mCfg, Cfg.padSym] using hf2)
  intro i hi t ht
  obtain ⟨pos, hp, he⟩ := List.mem_filterMap.mp ht
  have hp' := List.mem_range.mp hp
  have hx : (axAt m i pos).toNat < a.kp := dsqRowOk_code _ _ _ (h.row_ok i hi) pos hp'
  have hfx := (List.all_eq_true.mp hf1) (axAt m i pos).toNat (List.mem_range.mpr hx)
  simp only [UInt8.ofNat_toNat, Bool.and_eq_true, beq_iff_eq] at hfx
  cases hc : isConsensusCol (some a) m pos with
  | true =>
    rw [a2mChar_dig_cons a m i pos hc] at he
    cases he
    have hs := a2m_dig_sym a ha (axAt m i pos) hx
    rw [consChar_notLower _ hs.1, hs.2.2]
    simpa using hfx.1
  | false =>
    rw [a2mChar_dig_ins a m i pos hc] at he
    cases hr : a.xIsResidue (axAt m i pos) with
    | false => rw [hr] at he; simp at he
    | true =>
      rw [hr] at he
      simp only [if_true, Option.some.injEq] at he
      subst he
      have hs := a2m_dig_ins a hb (axAt m i pos) hx hr
      have h2 := hfx.2
      rw [hr] at h2
      rw [hs.1.1, hs.2.2]
      simpa using h2

/-! ## alignments without insert columns: `a2mProjectIns` is `a2mProject` -/

theorem splitRow_cons_only : ∀ (w : Bytes), (∀ t ∈ w, isLower t = false) → splitRow w = ([], w.map fun t => (t, []))
  | [], _ => rfl
  | t :: w, h => by
    have ht := h t (by simp)
    have ih := splitRow_cons_only w (fun t' h' => h t' (by simp [h']))
    simp [splitRow, ht, ih]

theorem padRest_zero (gap : UInt8) (enc : UInt8 → UInt8) : ∀ (w : Bytes),
    padRest gap (List.replicate w.length 0) (w.map fun t => (enc t, ([] : Bytes))) = w.map enc
  | [] => rfl
  | t :: w => by
    simp [padRest, padRun, List.replicate_succ, padRest_zero gap enc w]

theorem flatMap_zero_rf : ∀ n : Nat, (List.replicate n 0).flatMap (fun k => (120 : UInt8) :: List.replicate k 46) = List.replicate n 120
  | 0 => rfl
  | n + 1 => by simp [List.replicate_succ, flatMap_zero_rf n]

theorem filterMap_eq_map' {α β : Type} (f : α → Option β) (g : α → β) : ∀ (l : List α), (∀ a ∈ l, f a = some (g a)) →
    l.filterMap f = l.map g
  | [], _ => rfl
  | a :: l, h => by
    simp only [List.filterMap_cons, h a (by simp), List.map_cons]
    rw [filterMap_eq_map' f g l (fun b hb => h b (by simp [hb]))]

section
variable {abc : Option Abc} {cfg : Cfg} {enc : UInt8 → UInt8} {m : Msa}

theorem a2mWr_eq_map (h : A2mWritable abc cfg enc m) (i : Nat) (hi : i < m.nseq) :
    a2mWr abc m i = (List.range m.alen).map (a2mWc abc m i) :=
  filterMap_eq_map' _ _ _ (fun p hp => (h.char i hi p (List.mem_range.mp hp)).1)

theorem a2mWr_notLower (h : A2mWritable abc cfg enc m) (i : Nat) (hi : i < m.nseq) : ∀ t ∈ a2mWr abc m i, isLower t = false := by
  intro t ht
  rw [a2mWr_eq_map h i hi] at ht
  obtain ⟨p, hp, he⟩ := List.mem_map.mp ht
  rw [← he]
  exact consChar_notLower _ (h.char i hi p (List.mem_range.mp hp)).2.1

theorem a2mNcons_all (hc : ∀ pos, pos < m.alen → isConsensusCol abc m pos = true) : a2mNcons abc m = m.alen := by
  unfold a2mNcons
  rw [List.filter_eq_self.mpr (fun p hp => hc p (List.mem_range.mp hp))]
  simp

theorem a2mRunLens_all (h : A2mWritable abc cfg enc m) (i : Nat) (hi : i < m.nseq) :
    a2mRunLens abc m i = List.replicate (m.alen + 1) 0 := by
  have hl : (a2mWr abc m i).length = m.alen := by rw [a2mWr_eq_map h i hi]; simp
  rw [a2mRunLens, splitRow_cons_only _ (a2mWr_notLower h i hi)]
  simp only [segLens, List.length_nil, List.map_map, Function.comp_def, List.map_const', hl, List.replicate_succ]

theorem a2mNinsUpTo_all (h : A2mWritable abc cfg enc m) (hc : ∀ pos, pos < m.alen → isConsensusCol abc m pos = true) :
    ∀ k, k ≤ m.nseq → a2mNinsUpTo abc m k = List.replicate (m.alen + 1) 0 := by
  intro k
  induction k with
  | zero => intro _; simp [a2mNinsUpTo, a2mNcons_all hc]
  | succ k ih =>
    intro hk
    have := zipWith_max_zeros (List.replicate (m.alen + 1) 0)
    simp only [List.length_replicate] at this
    simp only [a2mNinsUpTo, ih (by omega), a2mRunLens_all h k (by omega), this]

/-- an alignment all of whose columns are consensus columns is carried by the general theorem too -/
theorem a2mWritable_ins (h : A2mWritable abc cfg enc m) (hc : ∀ pos, pos < m.alen → isConsensusCol abc m pos = true) :
    A2mInsWritable abc cfg enc m :=
  { n1 := h.n1, acc_none := h.acc_none, name_ok := h.name_ok, desc_ok := h.desc_ok, hdr_line := h.hdr_line
    cons_char := fun i hi pos hp _ => h.row_char i hi pos hp
    ins_char := fun i _ pos hp hf => by rw [hc pos hp] at hf; cases hf }

/-- … and what comes back is what `a2mProject` says -/
theorem a2mProjectIns_eq_project (h : A2mWritable abc cfg enc m) (hc : ∀ pos, pos < m.alen → isConsensusCol abc m pos = true) :
    a2mProjectIns abc cfg enc m = a2mProject abc cfg enc m := by
  have hnins : a2mNins abc m = List.replicate (m.alen + 1) 0 := a2mNinsUpTo_all h hc m.nseq (Nat.le_refl _)
  have halen : a2mNcons abc m + (a2mNins abc m).sum = m.alen := by rw [hnins, a2mNcons_all hc]; simp
  have hrf : rfOf (a2mNins abc m) = List.replicate m.alen 120 := by
    rw [hnins]; simp [rfOf, List.replicate_succ, flatMap_zero_rf]
  have hrows : (List.range m.nseq).map (a2mInsRow abc cfg enc m) = (List.range m.nseq).map (a2mRow abc cfg enc m) := by
    apply List.map_congr_left
    intro i hi
    have hi' := List.mem_range.mp hi
    have hl : (a2mWr abc m i).length = m.alen := by rw [a2mWr_eq_map h i hi']; simp
    have hcodes : a2mInsRowCodes abc cfg enc m i = a2mRowCodes abc enc m i := by
      rw [a2mInsRowCodes, hnins, splitRow_cons_only _ (a2mWr_notLower h i hi'), ← hl]
      simp only [padSegs, List.replicate_succ, segMap, List.map_nil, padRun, List.length_nil, Nat.sub_self, List.replicate_zero,
        List.append_nil, List.nil_append, List.map_map, Function.comp_def]
      rw [padRest_zero cfg.padSym enc (a2mWr abc m i), a2mWr_eq_map h i hi']
      simp [a2mRowCodes]
    rw [a2mInsRow, hcodes, a2mRow]
  unfold a2mProjectIns a2mProject
  rw [halen, hrf, hrows]

end

theorem a2mTextWritable_ins (m : Msa) (h : A2mTextWritable m) : A2mInsTextWritable m :=
  { dig := h.dig, n1 := h.n1, acc_none := h.acc_none, name_ok := h.name_ok, desc_ok := h.desc_ok, hdr_line := h.hdr_line
    row_len := h.row_len }

theorem a2mDigitalWritable_ins (a : Abc) (m : Msa) (h : A2mDigitalWritable a m) : A2mInsDigitalWritable a m :=
  { dig := h.dig, n1 := h.n1, acc_none := h.acc_none, name_ok := h.name_ok, desc_ok := h.desc_ok, hdr_line := h.hdr_line
    row_ok := h.row_ok }

theorem a2mProjectIns_eq_project_text (m : Msa) (h : A2mTextWritable m) :
    a2mProjectIns none (a2mCfg none) id m = a2mProject none (a2mCfg none) id m :=
  a2mProjectIns_eq_project (a2mTextWritable_writable m h) h.cons_ok

theorem a2mProjectIns_eq_project_digital (a : Abc) (ha : a2mDigSymOk a = true) (m : Msa) (h : A2mDigitalWritable a m) :
    a2mProjectIns (some a) (a2mCfg (some a)) (a2mEnc a) m = a2mProject (some a) (a2mCfg (some a)) (a2mEnc a) m :=
  a2mProjectIns_eq_project (a2mDigitalWritable_writable a ha m h) h.cons_ok

/-! ## what comes back, row by row -/

theorem segMap_id (s : Bytes × List (UInt8 × Bytes)) : segMap id s = s := by
  simp [segMap]

/-- text mode: row `i` read back is the written row cut at its consensus characters, every run of inserts padded with `.` -/
theorem a2mInsRow_text (m : Msa) (i : Nat) (hi : i < m.nseq) :
    (a2mProjectIns none (a2mCfg none) id m).aseq.getD i [] = padSegs 46 (a2mNins none m) (splitRow (a2mWr none m i)) := by
  have : (a2mCfg none).digital = false := rfl
  simp only [a2mProjectIns, this, Bool.false_eq_true, if_false]
  simp [List.getD_eq_getElem?_getD, hi, a2mInsRow, a2mInsRowCodes, mkRow, segMap_id, Cfg.padSym, a2mCfg, Cfg.digital]

/-- digital mode: likewise with the codes the characters are read back as, padded with the gap code -/
theorem a2mInsRow_digital (a : Abc) (m : Msa) (i : Nat) (hi : i < m.nseq) :
    (a2mProjectIns (some a) (a2mCfg (some a)) (a2mEnc a) m).ax.getD i []
      = dsqSENTINEL :: padSegs a.gap (a2mNins (some a) m) (segMap (a2mEnc a) (splitRow (a2mWr (some a) m i))) ++ [dsqSENTINEL] := by
  have : (a2mCfg (some a)).digital = true := rfl
  simp only [a2mProjectIns, this, if_true]
  simp [List.getD_eq_getElem?_getD, hi, a2mInsRow, a2mInsRowCodes, mkRow, Cfg.padSym, a2mCfg, Cfg.digital]

end EaselModel.Msafile
