import EaselModel.Msafile.Guess
/-! Facts about the open path (`Msafile/Guess.lean`): the bounds-checked accesses of the guessers cannot fail.

* alphabet guessers: `ct[x]++` with `x = toupper(c) - 'A'` for `isalpha(c)` stays inside `ct[0..25]`;
* `phylip_check_sequential_unknown`: `p[w]` and `p[0..w-1]` on the first line of each further sequence are read only
  after the test `n <= w` (9cc6a37), the test on the first sequence uses `firstns` (ef67b6d) and reads nothing;
* `esl_msafile_GuessFileFormat`'s own rules, `msafile_check_selex`, `phylip_check_interleaved` (with
  `phylip_collate_colcodes`, `phylip_deduce_namewidth`) and `phylip_check_sequential_known` index only through their loop
  bounds (`c < ncols && c < n`, `c < n`, …): in the model they walk the lists and have no failing access at all. -/
namespace EaselModel.Msafile

/-! ## `ct[toupper(c) - 'A']` -/

/-- the table check behind `alpha_index_lt`: for every byte, `isalpha(c)` implies `toupper(c) - 'A' < 26` -/
def alphaIdxOk : Bool :=
  (List.range 256).all fun n => let c := UInt8.ofNat n; !isAlpha c || decide ((toUpper c).toNat - 65 < 26)

theorem alphaIdxOk_true : alphaIdxOk = true := by decide +kernel

theorem alpha_index_lt (c : UInt8) (h : isAlpha c = true) : (toUpper c).toNat - 65 < 26 := by
  have h1 := List.all_eq_true.mp alphaIdxOk_true c.toNat (List.mem_range.mpr (UInt8.toNat_lt c))
  simp only [UInt8.ofNat_toNat, h, Bool.not_true, Bool.false_or, decide_eq_true_eq] at h1
  exact h1

theorem ctBump_some (ct : List Nat) (x : Nat) (h : x < ct.length) :
    ∃ ct', ctBump ct x = some ct' ∧ ct'.length = ct.length := by
  unfold ctBump
  rw [List.getElem?_eq_getElem h]
  exact ⟨_, rfl, by simp⟩

/-- the counting loop never indexes outside `ct[0..25]` -/
theorem countLine_some : ∀ (p : Bytes) (ct : List Nat) (nres : Nat), ct.length = 26 →
    ∃ ct' nres', countLine p ct nres = some (ct', nres') ∧ ct'.length = 26 := by
  intro p
  induction p with
  | nil => intro ct nres h; exact ⟨ct, nres, rfl, h⟩
  | cons c p ih =>
    intro ct nres h
    unfold countLine
    by_cases ha : isAlpha c = true
    · simp only [ha, if_true]
      obtain ⟨ct1, h1, hl⟩ := ctBump_some ct ((toUpper c).toNat - 65) (by rw [h]; exact alpha_index_lt c ha)
      rw [h1]
      exact ih ct1 (nres + 1) (by rw [hl, h])
    · simp only [ha, Bool.false_eq_true, if_false]
      exact ih ct nres h

/-- one counted line: no fault, and `ct` keeps its 26 cells -/
theorem agCount_ok (st : AgSt) (p : Bytes) (h : st.ct.length = 26) :
    agCount st p ≠ .inr .fault ∧ ∀ st', agCount st p = .inl st' → st'.ct.length = 26 := by
  obtain ⟨ct', nres', hc, hl⟩ := countLine_some p st.ct st.nres h
  unfold agCount
  rw [hc]
  simp only
  split
  · split
    · exact ⟨by simp, by simp⟩
    · exact ⟨by simp, by intro st' hs; simp only [Sum.inl.injEq] at hs; rw [← hs]; exact hl⟩
  · exact ⟨by simp, by intro st' hs; simp only [Sum.inl.injEq] at hs; rw [← hs]; exact hl⟩

theorem agRun_no_fault (sel : Bytes → Option Bytes) : ∀ (lines : List Bytes) (st : AgSt), st.ct.length = 26 →
    agRun sel lines st ≠ .fault := by
  intro lines
  induction lines with
  | nil =>
    intro st _
    unfold agRun
    split <;> simp
  | cons l ls ih =>
    intro st h
    unfold agRun
    cases hs : sel l with
    | none => exact ih st h
    | some p =>
      simp only
      have hc := agCount_ok st p h
      cases ha : agCount st p with
      | inl st' => exact ih st' (hc.2 st' ha)
      | inr r =>
        simp only
        intro hr
        rw [hr] at ha
        exact hc.1 ha

/-- **alphabet guessing never faults**: in every format, for every name width and every input -/
theorem guessAlphabet_no_fault (fmt : Fmt) (namewidth : Nat) (lines : List Bytes) :
    guessAlphabet fmt namewidth lines ≠ .fault := by
  have h0 : ({} : AgSt).ct.length = 26 := by decide
  unfold guessAlphabet
  cases fmt <;> simp only
  · exact agRun_no_fault _ _ _ h0
  · exact agRun_no_fault _ _ _ h0
  · exact agRun_no_fault _ _ _ h0
  · exact agRun_no_fault _ _ _ h0
  · exact agRun_no_fault _ _ _ h0
  · exact agRun_no_fault _ _ _ h0
  · split
    · simp
    · exact agRun_no_fault _ _ _ h0
  · split
    · simp
    · exact agRun_no_fault _ _ _ h0
  · split
    · simp
    · exact agRun_no_fault _ _ _ h0
  · split
    · simp
    · exact agRun_no_fault _ _ _ h0

/-- what `esl_abc_GuessAlphabet` answers when it answers: the guessers return nothing else -/
theorem agRun_ok_is_guess (sel : Bytes → Option Bytes) : ∀ (lines : List Bytes) (st : AgSt) (t : AbcType),
    agRun sel lines st = .ok t → ∃ ct, abcGuess ct = some t := by
  intro lines
  induction lines with
  | nil =>
    intro st t h
    unfold agRun at h
    cases hg : abcGuess st.ct with
    | none => rw [hg] at h; simp at h
    | some t' => rw [hg] at h; simp only [Chk.ok.injEq] at h; exact ⟨st.ct, by rw [hg, h]⟩
  | cons l ls ih =>
    intro st t h
    unfold agRun at h
    cases hs : sel l with
    | none => rw [hs] at h; exact ih st t h
    | some p =>
      rw [hs] at h
      simp only at h
      cases ha : agCount st p with
      | inl st' => rw [ha] at h; exact ih st' t h
      | inr r =>
        rw [ha] at h
        simp only at h
        subst h
        unfold agCount at ha
        cases hc : countLine p st.ct st.nres with
        | none => rw [hc] at ha; simp at ha
        | some x =>
          obtain ⟨ct, nres⟩ := x
          rw [hc] at ha
          simp only at ha
          split at ha
          · cases hg : abcGuess ct with
            | none => rw [hg] at ha; simp at ha
            | some t' => rw [hg] at ha; simp only [Sum.inr.injEq, Chk.ok.injEq] at ha; exact ⟨ct, by rw [hg, ha]⟩
          · simp at ha

/-- small samples are never guessed: with at most 10 counted residues `esl_abc_GuessAlphabet` answers eslENOALPHABET -/
theorem abcGuess_small (ct : List Nat) (h : (ct.take 26).foldl (· + ·) 0 ≤ 10) : abcGuess ct = none := by
  unfold abcGuess
  simp only [h, if_true]

/-! ## `phylip_check_sequential_unknown` -/

theorem nameChk_some : ∀ (w : Nat) (p : Bytes), w ≤ p.length → nameChk w p ≠ none := by
  intro w
  induction w with
  | zero => intro p _; unfold nameChk; simp
  | succ w ih =>
    intro p h
    cases p with
    | nil => simp at h
    | cons c t =>
      unfold nameChk
      by_cases hc : isSpace c = true
      · simp only [hc, if_true]; exact ih t (by simpa using h)
      · simp only [hc, Bool.false_eq_true, if_false]; simp

/-- the loop over the further sequences: `p[w]` and `p[0..w-1]` are inside the line (`n <= w` was tested first) -/
theorem seqUnkRest_no_fault (w alen nblocks : Nat) : ∀ (j : Nat) (s : List Bytes),
    seqUnkRest w alen nblocks j s ≠ .fault := by
  intro j
  induction j with
  | zero => intro s; unfold seqUnkRest; simp
  | succ j ih =>
    intro s
    unfold seqUnkRest
    cases hn : nextNonblank s with
    | none => simp
    | some x =>
      obtain ⟨p, r⟩ := x
      simp only
      by_cases hl : p.length ≤ w
      · simp [hl]
      · simp only [hl, if_false]
        have hlt : w < p.length := by omega
        rw [List.getElem?_eq_getElem hlt]
        simp only
        split
        · simp
        · have hnc := nameChk_some w p (by omega)
          cases hk : nameChk w p with
          | none => exact absurd hk hnc
          | some b =>
            cases b with
            | false => simp
            | true =>
              simp only
              cases hcl : contLines (nblocks - 1) r ((p.drop w).countP phyLegal) with
              | none => simp
              | some y =>
                obtain ⟨len2, r'⟩ := y
                simp only
                split
                · simp
                · exact ih r'

theorem checkSeqUnknown_no_fault (lines : List Bytes) : checkSeqUnknown lines ≠ .fault := by
  unfold checkSeqUnknown
  split
  · simp
  · simp
  · rename_i nseq alen l1 s1 _
    simp only
    split
    · simp
    · split
      · simp
      · rename_i b s2 _
        split
        · simp
        · split
          · simp
          · split
            · simp
            · rename_i w _
              split
              · simp
              · have := seqUnkRest_no_fault w alen (((lines.countP fun l => !isBlankLine l) - 1) / nseq) (min nseq 100 - 1) s2
                split <;> simp_all

theorem phyCheckFileFormat_no_fault (lines : List Bytes) : phyCheckFileFormat lines ≠ .fault := by
  unfold phyCheckFileFormat
  simp only
  split
  · simp
  · by_cases hk : checkSeqKnown 10 lines = true
    · simp only [hk, if_true]
      split <;> simp
    · simp only [hk, Bool.false_eq_true, if_false]
      have := checkSeqUnknown_no_fault lines
      cases hu : checkSeqUnknown lines with
      | fault => exact absurd hu this
      | ok w2 => simp only; split <;> simp
      | fail => simp only; split <;> simp

/-- **format autodetection never faults**: for every file name and every input -/
theorem guessFormat_no_fault (fname : Option Bytes) (lines : List Bytes) : guessFormat fname lines ≠ .fault := by
  unfold guessFormat
  simp only
  split
  · simp
  · split
    · split <;> simp
    · simp
    · simp
    · split <;> simp
    · split
      · simp
      · split
        · simp
        · exact phyCheckFileFormat_no_fault lines
    · split
      · simp
      · split
        · split <;> simp
        · simp

theorem openAbc_no_fault (fmt : Fmt) (nw : Nat) (asel : AbcSel) (lines : List Bytes) : openAbc fmt nw asel lines ≠ .fault := by
  unfold openAbc
  cases asel with
  | text => simp
  | given t => simp
  | guess =>
    simp only
    have hg := guessAlphabet_no_fault fmt nw lines
    cases hga : guessAlphabet fmt nw lines with
    | fault => exact absurd hga hg
    | ok t => simp
    | fail => simp

theorem openFmt_no_fault (fsel : FmtSel) (fname : Option Bytes) (lines : List Bytes) : openFmt fsel fname lines ≠ .fault := by
  unfold openFmt
  cases fsel with
  | auto => exact guessFormat_no_fault fname lines
  | decl f => simp

/-- **the open path never faults** -/
theorem openModel_no_fault (fsel : FmtSel) (asel : AbcSel) (fname : Option Bytes) (lines : List Bytes) :
    openModel fsel asel fname lines ≠ .fault := by
  unfold openModel
  have hf := openFmt_no_fault fsel fname lines
  cases hfr : openFmt fsel fname lines with
  | fault => exact absurd hfr hf
  | fail => simp
  | ok x =>
    obtain ⟨fmt, nw⟩ := x
    exact openAbc_no_fault fmt nw asel lines

/-- no caller-supplied format data (or `namewidth = 0`, unset) is the plain open path -/
theorem openModelW_zero (fsel : FmtSel) (asel : AbcSel) (fname : Option Bytes) (lines : List Bytes) :
    openModelW 0 fsel asel fname lines = openModel fsel asel fname lines := by
  cases fsel <;> rfl

/-- under autodetection the caller's format data is forgotten -/
theorem openModelW_auto (nw0 : Nat) (asel : AbcSel) (fname : Option Bytes) (lines : List Bytes) :
    openModelW nw0 .auto asel fname lines = openModel .auto asel fname lines := rfl

theorem openModelW_no_fault (nw0 : Nat) (fsel : FmtSel) (asel : AbcSel) (fname : Option Bytes) (lines : List Bytes) :
    openModelW nw0 fsel asel fname lines ≠ .fault := by
  cases fsel with
  | decl f => exact openAbc_no_fault f nw0 asel lines
  | auto => exact openModel_no_fault .auto asel fname lines

/-! ## what the decisions are made of -/

/-- a declared format is never second-guessed, and text mode never fails to open -/
theorem openModel_decl_text (f : Fmt) (fname : Option Bytes) (lines : List Bytes) :
    openModel (.decl f) .text fname lines = .ok ⟨f, none, 0⟩ := rfl

theorem openModel_decl_given (f : Fmt) (t : AbcType) (fname : Option Bytes) (lines : List Bytes) :
    openModel (.decl f) (.given t) fname lines = .ok ⟨f, some t, 0⟩ := rfl

/-- eslENOFORMAT only with autodetection, eslENOALPHABET only with alphabet guessing -/
theorem openModel_enoformat_auto (fsel : FmtSel) (asel : AbcSel) (fname : Option Bytes) (lines : List Bytes)
    (h : openModel fsel asel fname lines = .enoformat) : fsel = .auto := by
  cases fsel with
  | auto => rfl
  | decl f =>
    exfalso
    have h' : openAbc f 0 asel lines = .enoformat := h
    unfold openAbc at h'
    cases asel with
    | text => simp at h'
    | given t => simp at h'
    | guess =>
      simp only at h'
      cases hga : guessAlphabet f 0 lines <;> rw [hga] at h' <;> simp at h'

theorem openModel_enoalphabet_guess (fsel : FmtSel) (asel : AbcSel) (fname : Option Bytes) (lines : List Bytes)
    (h : openModel fsel asel fname lines = .enoalphabet) : asel = .guess := by
  cases asel with
  | guess => rfl
  | text =>
    exfalso
    unfold openModel at h
    cases hfr : openFmt fsel fname lines with
    | fault => rw [hfr] at h; simp at h
    | fail => rw [hfr] at h; simp at h
    | ok x => rw [hfr] at h; simp [openAbc] at h
  | given t =>
    exfalso
    unfold openModel at h
    cases hfr : openFmt fsel fname lines with
    | fault => rw [hfr] at h; simp at h
    | fail => rw [hfr] at h; simp at h
    | ok x => rw [hfr] at h; simp [openAbc] at h

theorem dropWhile_all_nil {α : Type} (p : α → Bool) : ∀ (l : List α), l.all p = true → l.dropWhile p = [] := by
  intro l
  induction l with
  | nil => intro _; rfl
  | cons a t ih =>
    intro h
    simp only [List.all_cons, Bool.and_eq_true] at h
    simp only [List.dropWhile_cons, h.1, if_true]
    exact ih h.2

/-- an input without a non-blank line has no format -/
theorem guessFormat_blank (fname : Option Bytes) (lines : List Bytes) (h : lines.all isBlankLine = true) :
    guessFormat fname lines = .fail := by
  unfold guessFormat
  simp only
  rw [dropWhile_all_nil isBlankLine lines h]

end EaselModel.Msafile
