import EaselModel.Msafile.PhylipRoundTrip
import EaselModel.Msafile.Clustal
import EaselModel.Msafile.Write
import EaselModel.Msafile.WriteLemmas
/-! Clustal / Clustal-like: reading what `esl_msafile_clustal_Write` wrote gives the alignment back (C03).

The first part (`scanTo` on a written row line, `blkName`/`blkAppend` on the expected state, the rows under construction)
is shared with the PSI-BLAST round trip. -/
namespace EaselModel.Msafile

/-! ## the scanning loops on a written row line `name ++ blanks ++ residues` -/

theorem scanTo_at (P : UInt8 → Bool) (a r : Bytes) (n : Nat) (hn : a.length = n) :
    scanTo P (a ++ r) n = n + (r.takeWhile (fun c => !P c)).length := by
  subst hn
  unfold scanTo
  rw [List.drop_left]

theorem takeWhile_stopAt {α : Type} (p : α → Bool) (b c : List α) (hb : ∀ x ∈ b, p x = true)
    (hc : c = [] ∨ ∃ x t, c = x :: t ∧ p x = false) : (b ++ c).takeWhile p = b := by
  rw [List.takeWhile_append_of_pos hb]
  rcases hc with hc | ⟨x, t, hc, hx⟩
  · subst hc; simp
  · subst hc; simp [List.takeWhile, hx]

theorem slice_mid (a b c : Bytes) : slice (a ++ b ++ c) a.length b.length = some b := by
  unfold slice
  have : a.length + b.length ≤ (a ++ b ++ c).length := by simp
  rw [if_pos this, List.append_assoc, List.drop_left, List.take_left]

theorem graph_notSpace_fin : ∀ n : Fin 256, isGraph (UInt8.ofNat n.val) = true →
    isSpace (UInt8.ofNat n.val) = false ∧ UInt8.ofNat n.val ≠ 0 := by decide +kernel

theorem graph_notSpace (c : UInt8) (h : isGraph c = true) : isSpace c = false ∧ c ≠ 0 := by
  have := graph_notSpace_fin ⟨c.toNat, c.toNat_lt⟩
  simp only [UInt8.ofNat_toNat] at this
  exact this h

/-- the columns `clustalCols` finds on `name ++ blanks ++ residues` -/
theorem clustalCols_line (nm ch : Bytes) (k : Nat) (hnm : nm ≠ []) (hns : ∀ c ∈ nm, isSpace c = false)
    (hch : ch ≠ []) (hcs : ∀ c ∈ ch, isSpace c = false) :
    clustalCols (nm ++ List.replicate (k + 1) 32 ++ ch) = some ⟨0, nm.length, nm.length + (k + 1), ch.length⟩ := by
  obtain ⟨n0, nt, rfl⟩ := List.exists_cons_of_ne_nil hnm
  obtain ⟨c0, ct, rfl⟩ := List.exists_cons_of_ne_nil hch
  have hn0 : isSpace n0 = false := hns n0 (by simp)
  have hc0 : isSpace c0 = false := hcs c0 (by simp)
  have h32 : isSpace 32 = true := by decide
  have h1 : scanTo (fun c => !isSpace c) (n0 :: nt ++ List.replicate (k + 1) 32 ++ c0 :: ct) 0 = 0 := by
    unfold scanTo
    simp [hn0]
  have h2 : scanTo isSpace (n0 :: nt ++ List.replicate (k + 1) 32 ++ c0 :: ct) (0 + 1) = nt.length + 1 := by
    have e : n0 :: nt ++ List.replicate (k + 1) 32 ++ c0 :: ct = [n0] ++ (nt ++ (32 :: (List.replicate k 32 ++ c0 :: ct))) := by
      simp [List.replicate_succ]
    rw [e, scanTo_at _ [n0] _ (0 + 1) rfl,
      takeWhile_stopAt _ nt _ (fun x hx => by simp [hns x (by simp [hx])]) (Or.inr ⟨32, _, rfl, by simp [h32]⟩)]
    omega
  have h3 : scanTo (fun c => !isSpace c) (n0 :: nt ++ List.replicate (k + 1) 32 ++ c0 :: ct) (nt.length + 1 + 1)
      = nt.length + 1 + (k + 1) := by
    have e : n0 :: nt ++ List.replicate (k + 1) 32 ++ c0 :: ct = (n0 :: nt ++ [32]) ++ (List.replicate k 32 ++ c0 :: ct) := by
      simp [List.replicate_succ]
    rw [e, scanTo_at _ (n0 :: nt ++ [32]) _ (nt.length + 1 + 1) (by simp),
      takeWhile_stopAt _ (List.replicate k 32) _ (fun x hx => by rw [(List.mem_replicate.mp hx).2]; simp [h32])
        (Or.inr ⟨c0, ct, rfl, by simp [hc0]⟩)]
    simp; omega
  have h4 : scanTo isSpace (n0 :: nt ++ List.replicate (k + 1) 32 ++ c0 :: ct) (nt.length + 1 + (k + 1) + 1)
      = nt.length + 1 + (k + 1) + (ct.length + 1) := by
    have e : n0 :: nt ++ List.replicate (k + 1) 32 ++ c0 :: ct = (n0 :: nt ++ List.replicate (k + 1) 32 ++ [c0]) ++ (ct ++ []) := by
      simp
    rw [e, scanTo_at _ (n0 :: nt ++ List.replicate (k + 1) 32 ++ [c0]) _ (nt.length + 1 + (k + 1) + 1) (by simp; omega),
      takeWhile_stopAt _ ct [] (fun x hx => by simp [hcs x (by simp [hx])]) (Or.inl rfl)]
    omega
  have hlt : ¬ (nt.length + 1 + (k + 1) ≥ (n0 :: nt ++ List.replicate (k + 1) 32 ++ c0 :: ct).length) := by
    simp; omega
  unfold clustalCols
  simp only [h1, h2, h3, h4, hlt, if_false, List.length_cons]
  congr 2 <;> omega

/-! ## `blkName`, `blkAppend` on the expected state -/

theorem blkName_first (inc : Bool) (st : BlkSt) (nm : Bytes) (h0 : (st.nblocks == 0) = true)
    (hidx : st.idx < expandAlloc st.idx st.sqalloc) (hc : cstr nm = nm) :
    blkName inc st nm = .inl { st with sqalloc := expandAlloc st.idx st.sqalloc,
                                       rows := if st.idx ≥ st.sqalloc then st.rows ++ List.replicate st.sqalloc none else st.rows,
                                       names := st.names ++ [nm],
                                       nseq := if inc then st.nseq + 1 else st.nseq } := by
  have h1 : ¬ (st.idx ≥ expandAlloc st.idx st.sqalloc) := by omega
  have hz : nm.contains 0 = false := by
    rw [Bool.eq_false_iff]
    intro hcon
    have hm : (0 : UInt8) ∈ nm := by simpa using hcon
    rw [← hc] at hm
    unfold cstr at hm
    have hall : ∀ (l : Bytes) (x : UInt8), x ∈ l.takeWhile (· != 0) → x ≠ 0 := by
      intro l
      induction l with
      | nil => intro x hx; simp at hx
      | cons c t ih =>
        intro x hx
        by_cases hc0 : c = 0
        · subst hc0; simp [List.takeWhile] at hx
        · have : (c != 0) = true := by simpa using hc0
          simp only [List.takeWhile, this] at hx
          rcases List.mem_cons.mp hx with e | e
          · subst e; exact hc0
          · exact ih x e
    exact hall nm 0 hm rfl
  unfold blkName blkNameCore
  simp only [h0, hz, Bool.and_false, Bool.false_eq_true, if_true, h1, if_false, hc]

theorem blkName_later (inc : Bool) (st : BlkSt) (nm : Bytes) (h0 : (st.nblocks == 0) = false)
    (hidx : st.idx < st.nseq) (hn : st.names[st.idx]? = some nm) :
    blkName inc st nm = .inl st := by
  have h1 : ¬ (st.idx ≥ st.nseq) := by omega
  unfold blkName blkNameCore
  simp only [h0, Bool.false_and, Bool.false_eq_true, if_false, h1, hn, memstrcmp, beq_self_eq_true, Bool.not_true]

theorem blkAppend_ok (cfg : Cfg) (st : BlkSt) (seq : Bytes) (cur : Option Bytes) (codes : Bytes)
    (hrow : st.rows[st.idx]? = some cur) (hlen : rowLen cfg.digital cur = st.alen)
    (hcat : (if cfg.digital then dsqcat cfg.inmap cur seq else strmapcat cfg.inmap cur seq) = (.ok, some (mkRow cfg.digital codes)))
    (hl : codes.length = st.alen + seq.length) :
    blkAppend cfg st seq = .inl { st with rows := st.rows.set st.idx (some (mkRow cfg.digital codes)), idx := st.idx + 1 } := by
  unfold blkAppend
  rw [hrow]
  simp only [hlen, bne_self_eq_false, Bool.false_eq_true, if_false, hcat, rowLen_mkRow, hl]

/-! ## the rows under construction -/

/-- row `j` in the block starting at `pos` when `idx` rows of the block are read (NULL beyond the alignment's rows) -/
def cluRowF (cfg : Cfg) (enc : UInt8 → UInt8) (txt : Nat → Bytes) (m : Msa) (pos idx j : Nat) : Option Bytes :=
  if j < m.nseq then ilvRowF cfg enc txt pos idx j else none

theorem cluRowF_zero_ge (cfg : Cfg) (enc : UInt8 → UInt8) (txt : Nat → Bytes) (m : Msa) (idx j : Nat) (h : idx ≤ j) :
    cluRowF cfg enc txt m 0 idx j = none := by
  have : ¬ j < idx := by omega
  simp [cluRowF, ilvRowF, this, phyRowAt]

theorem rangeMap_expand {α : Type} (s : Nat) (f : Nat → Option α) (h : ∀ j, s ≤ j → f j = none) :
    (List.range s).map f ++ List.replicate s none = (List.range (2 * s)).map f := by
  apply List.ext_getElem?
  intro i
  by_cases h1 : i < s
  · rw [List.getElem?_append_left (by simpa using h1)]
    have : i < 2 * s := by omega
    simp [h1, this]
  · rw [List.getElem?_append_right (by simp; omega)]
    by_cases h2 : i < 2 * s
    · simp only [List.length_map, List.length_range]
      rw [List.getElem?_replicate]
      have : i - s < s := by omega
      simp [this, h2, h i (by omega)]
    · rw [List.getElem?_eq_none (by simp; omega), List.getElem?_eq_none (by simp; omega)]

theorem maxWidth_foldl_ge (l : List Bytes) (a : Nat) : a ≤ l.foldl (fun a s => max a s.length) a := by
  induction l generalizing a with
  | nil => exact Nat.le_refl _
  | cons x t ih => exact Nat.le_trans (Nat.le_max_left _ _) (ih _)

theorem maxWidth_foldl_mem (l : List Bytes) (a : Nat) : ∀ s ∈ l, s.length ≤ l.foldl (fun a s => max a s.length) a := by
  induction l generalizing a with
  | nil => intro s hs; cases hs
  | cons x t ih =>
    intro s hs
    rcases List.mem_cons.mp hs with hs | hs
    · subst hs; exact Nat.le_trans (Nat.le_max_right _ _) (maxWidth_foldl_ge t _)
    · exact ih _ s hs

theorem maxWidth_ge (l : List Bytes) (i : Nat) (hi : i < l.length) : (l.getD i []).length ≤ maxWidth l := by
  have : l.getD i [] ∈ l := by
    rw [List.getD_eq_getElem?_getD, List.getElem?_eq_getElem hi]; simp
  exact maxWidth_foldl_mem l 0 _ this

theorem allSome_map_some (l : List Bytes) : allSome (l.map some) = some l := by
  induction l with
  | nil => rfl
  | cons a t ih => simp [allSome, ih]

theorem allSome_rangeMap (n : Nat) (f : Nat → Option Bytes) (g : Nat → Bytes) (h : ∀ j, j < n → f j = some (g j)) :
    allSome ((List.range n).map f) = some ((List.range n).map g) := by
  rw [rangeMap_congr n f (fun j => some (g j)) h, ← allSome_map_some ((List.range n).map g), List.map_map]
  rfl

theorem memspn_lt_of_mem (l allow : Bytes) (c : UInt8) (hc : c ∈ l) (h : inDelim allow c = false) : memspn l allow < l.length := by
  unfold memspn
  induction l with
  | nil => cases hc
  | cons x t ih =>
    by_cases hx : inDelim allow x = true
    · rcases List.mem_cons.mp hc with e | e
      · subst e; rw [h] at hx; cases hx
      · have := ih e
        simp only [List.takeWhile_cons, hx, if_true, List.length_cons]
        omega
    · simp [hx]

theorem memspn_all (l allow : Bytes) (h : ∀ c ∈ l, inDelim allow c = true) : memspn l allow = l.length := by
  unfold memspn
  rw [takeWhile_all _ _ h]

/-! ## what Clustal carries -/

/-- a name Clustal carries: not empty, no white space (the reader splits on `isspace`), no NUL -/
def cluNameOk (nm : Bytes) : Prop := nm ≠ [] ∧ ∀ c ∈ nm, isSpace c = false ∧ c ≠ 0

/-- everything Clustal represents of `m`: names, aligned rows; default weights; all annotation dropped -/
def clustalProject (cfg : Cfg) (m : Msa) : Msa :=
  { digital := cfg.digital, kp := cfg.kp, alen := m.alen, names := m.names,
    aseq := if cfg.digital then [] else (List.range m.nseq).map m.stored,
    ax := if cfg.digital then (List.range m.nseq).map m.stored else [],
    hasw := false, wgt := List.replicate m.nseq Wgt.dflt }

/-- an alignment that Clustal can carry and `esl_msafile_clustal_Write` + `esl_msafile_clustal_Read` (configuration `cfg`)
    preserve.  `txt i` is the text the writer prints for row `i`, `enc` sends a written symbol to the stored symbol.
    `notcons`: a row after the first of a block must not look like a consensus line (`esl_memspn(p, n, " .:*") < n`). -/
structure ClustalWritable (abc : Option Abc) (cfg : Cfg) (enc : UInt8 → UInt8) (txt : Nat → Bytes) (m : Msa) : Prop where
  n1 : 1 ≤ m.nseq
  alen1 : 1 ≤ m.alen
  name_ok : ∀ i, i < m.nseq → cluNameOk (m.names.getD i [])
  txt_len : ∀ i, i < m.nseq → (txt i).length = m.alen
  buf_eq : ∀ i, i < m.nseq → ∀ pos, seqChunk abc m i pos clustalCpl = ((txt i).drop pos).take 60
  txt_sym : ∀ i, i < m.nseq → ∀ t ∈ txt i, mapByte cfg.inmap t = (.ok, some (enc t)) ∧ isGraph t = true
  row_enc : ∀ i, i < m.nseq → m.stored i = mkRow cfg.digital ((txt i).map enc)
  notcons : ∀ i, 1 ≤ i → i < m.nseq → ∀ pos, pos < m.alen →
    ∃ c, (c ∈ m.names.getD i [] ∨ c ∈ ((txt i).drop pos).take 60) ∧ inDelim bConsensus c = false

/-- a row line: `"%-*s %s\n"` -/
def cluRowLine (abc : Option Abc) (m : Msa) (i pos : Nat) : Bytes :=
  padRight ((maxWidth m.names : Nat) : Int) (m.names.getD i []) ++ [32] ++ seqChunk abc m i pos clustalCpl

/-- the consensus line of a block: the same with an empty name -/
def cluConsLine (abc : Option Abc) (m : Msa) (pos : Nat) : Bytes :=
  padRight ((maxWidth m.names : Nat) : Int) [] ++ [32] ++ strChunk (consensusLine abc m) pos clustalCpl

theorem clustalBlockLines_eq (abc : Option Abc) (m : Msa) (pos : Nat) :
    clustalBlockLines abc m (maxWidth m.names) (consensusLine abc m) pos
      = [] :: ((List.range m.nseq).map (fun i => cluRowLine abc m i pos) ++ [cluConsLine abc m pos]) := by
  simp [clustalBlockLines, cluRowLine, cluConsLine]

theorem mem_of_drop_take {α : Type} {l : List α} {a : α} {p n : Nat} (h : a ∈ (l.drop p).take n) : a ∈ l :=
  List.mem_of_mem_drop (List.mem_of_mem_take h)

theorem cluRowLine_shape (abc : Option Abc) (cfg : Cfg) (enc : UInt8 → UInt8) (txt : Nat → Bytes) (m : Msa)
    (h : ClustalWritable abc cfg enc txt m) (i : Nat) (hi : i < m.nseq) (pos : Nat) :
    cluRowLine abc m i pos = m.names.getD i [] ++ List.replicate (maxWidth m.names - (m.names.getD i []).length + 1) 32
      ++ ((txt i).drop pos).take 60 := by
  simp [cluRowLine, padRight, h.buf_eq i hi, List.replicate_succ']

/-! ## state relation -/

/-- in front of row `i` of the block starting at `pos` -/
structure CluRt (cfg : Cfg) (enc : UInt8 → UInt8) (txt : Nat → Bytes) (m : Msa) (pos i : Nat) (st : BlkSt) : Prop where
  alen : st.alen = pos
  idx : st.idx = i
  nb : (st.nblocks == 0) = decide (pos = 0)
  nseq : st.nseq = if pos = 0 then i else m.nseq
  names : st.names = if pos = 0 then m.names.take i else m.names
  sq1 : 1 ≤ st.sqalloc
  sqn : st.nseq ≤ st.sqalloc
  rows : st.rows = (List.range st.sqalloc).map (cluRowF cfg enc txt m pos i)
  blk : i ≠ 0 → st.bss = maxWidth m.names + 1 ∧ st.bsl = blockLen m pos

/-- between "Store the sequence name" and "Append the sequence" of row `i` -/
structure CluMid (cfg : Cfg) (enc : UInt8 → UInt8) (txt : Nat → Bytes) (m : Msa) (pos i : Nat) (st : BlkSt) : Prop where
  phase : st.phase = .inblock
  alen : st.alen = pos
  idx : st.idx = i
  nb : (st.nblocks == 0) = decide (pos = 0)
  nseq : st.nseq = if pos = 0 then i + 1 else m.nseq
  names : st.names = if pos = 0 then m.names.take (i + 1) else m.names
  sq1 : 1 ≤ st.sqalloc
  sqn : st.nseq ≤ st.sqalloc
  sqi : i < st.sqalloc
  rows : st.rows = (List.range st.sqalloc).map (cluRowF cfg enc txt m pos i)
  bss : st.bss = maxWidth m.names + 1
  bsl : st.bsl = blockLen m pos

/-- the scanning part of `clustalSeqLine` on a written row line -/
theorem clustalSeqLine_line (cfg : Cfg) (st : BlkSt) (nm ch : Bytes) (k : Nat) (hnm : nm ≠ []) (hns : ∀ c ∈ nm, isSpace c = false)
    (hch : ch ≠ []) (hcs : ∀ c ∈ ch, isSpace c = false)
    (hb : st.idx ≠ 0 → st.bss = nm.length + (k + 1) ∧ st.bsl = ch.length) :
    clustalSeqLine cfg st (nm ++ List.replicate (k + 1) 32 ++ ch)
      = blkStore cfg true { st with bss := nm.length + (k + 1), bsl := ch.length, phase := .inblock } nm ch := by
  have hcols := clustalCols_line nm ch k hnm hns hch hcs
  have hs1 : slice (nm ++ List.replicate (k + 1) 32 ++ ch) 0 nm.length = some nm := by
    have := slice_mid [] nm (List.replicate (k + 1) 32 ++ ch)
    simpa using this
  have hs2 : slice (nm ++ List.replicate (k + 1) 32 ++ ch) (nm.length + (k + 1)) ch.length = some ch := by
    have := slice_mid (nm ++ List.replicate (k + 1) 32) ch []
    simpa using this
  unfold clustalSeqLine
  rw [hcols]
  simp only [hs1, hs2]
  by_cases h0 : st.idx = 0
  · simp [setBlock, h0]
  · obtain ⟨h1, h2⟩ := hb h0
    have e0 : (st.idx == 0) = false := by simpa using h0
    simp only [setBlock, e0, Bool.false_eq_true, if_false, h1, h2, bne_self_eq_false, Bool.and_false]

theorem take_succ_getD (l : List Bytes) (i : Nat) (hi : i < l.length) : l.take i ++ [l.getD i []] = l.take (i + 1) := by
  rw [List.take_add_one, List.getD_eq_getElem?_getD, List.getElem?_eq_getElem hi]
  rfl

/-- "Store the sequence name" for row `i` -/
theorem cluName_mid (cfg : Cfg) (enc : UInt8 → UInt8) (txt : Nat → Bytes) (m : Msa) (pos i : Nat) (hi : i < m.nseq)
    (hc : cstr (m.names.getD i []) = m.names.getD i [])
    (st : BlkSt) (hst : CluRt cfg enc txt m pos i st) :
    ∃ st2, blkName true { st with bss := maxWidth m.names + 1, bsl := blockLen m pos, phase := .inblock } (m.names.getD i []) = .inl st2 ∧
      CluMid cfg enc txt m pos i st2 := by
  have hi' : i < m.names.length := hi
  by_cases hp : pos = 0
  · subst hp
    have hnseq : st.nseq = i := by rw [hst.nseq]; simp
    have hsqn := hst.sqn
    have hsq1 := hst.sq1
    rw [hnseq] at hsqn
    have hidx : st.idx < expandAlloc st.idx st.sqalloc := by
      rw [hst.idx]; unfold expandAlloc; split <;> omega
    have h0 : (st.nblocks == 0) = true := by rw [hst.nb]; simp
    refine ⟨_, blkName_first true _ _ h0 hidx hc, ?_⟩
    exact
      { phase := rfl, alen := hst.alen, idx := hst.idx, nb := hst.nb
        nseq := by show (if true = true then st.nseq + 1 else st.nseq) = _; simp [hnseq]
        names := by
          show st.names ++ [m.names.getD i []] = _
          rw [hst.names]; simp only [if_true]
          exact take_succ_getD m.names i hi'
        sq1 := by show 1 ≤ expandAlloc st.idx st.sqalloc; unfold expandAlloc; split <;> omega
        sqn := by
          show (if true = true then st.nseq + 1 else st.nseq) ≤ expandAlloc st.idx st.sqalloc
          simp only [if_true, hnseq]; rw [← hst.idx]; omega
        sqi := by show i < expandAlloc st.idx st.sqalloc; rw [← hst.idx]; exact hidx
        rows := by
          show (if st.idx ≥ st.sqalloc then st.rows ++ List.replicate st.sqalloc none else st.rows)
            = (List.range (expandAlloc st.idx st.sqalloc)).map _
          unfold expandAlloc
          by_cases hge : st.idx ≥ st.sqalloc
          · simp only [hge, if_true, hst.rows]
            exact rangeMap_expand _ _ (fun j hj => cluRowF_zero_ge cfg enc txt m i j (by rw [hst.idx] at hge; omega))
          · simp only [hge, if_false, hst.rows]
        bss := rfl, bsl := rfl }
  · have hnseq : st.nseq = m.nseq := by rw [hst.nseq]; simp [hp]
    have hnames : st.names = m.names := by rw [hst.names]; simp [hp]
    have h0 : (st.nblocks == 0) = false := by rw [hst.nb]; simp [hp]
    refine ⟨_, blkName_later true _ _ h0 (by show st.idx < st.nseq; rw [hst.idx, hnseq]; exact hi) ?_, ?_⟩
    · show st.names[st.idx]? = _
      rw [hnames, hst.idx, List.getD_eq_getElem?_getD, List.getElem?_eq_getElem hi']; rfl
    · exact
        { phase := rfl, alen := hst.alen, idx := hst.idx, nb := hst.nb
          nseq := by show st.nseq = _; rw [hnseq]; simp [hp]
          names := by show st.names = _; rw [hnames]; simp [hp]
          sq1 := hst.sq1, sqn := hst.sqn
          sqi := by show i < st.sqalloc; have := hst.sqn; rw [hnseq] at this; omega
          rows := hst.rows, bss := rfl, bsl := rfl }

theorem cluRowF_set (cfg : Cfg) (enc : UInt8 → UInt8) (txt : Nat → Bytes) (m : Msa) (pos i s : Nat) (hi : i < m.nseq) (his : i < s) :
    ((List.range s).map (cluRowF cfg enc txt m pos i)).set i (some (mkRow cfg.digital (((txt i).take (pos + 60)).map enc)))
      = (List.range s).map (cluRowF cfg enc txt m pos (i + 1)) := by
  have hg : some (mkRow cfg.digital (((txt i).take (pos + 60)).map enc)) = cluRowF cfg enc txt m pos (i + 1) i := by
    simp [cluRowF, hi, ilvRowF, phyRowAt]
  rw [hg]
  refine rangeMap_set _ _ _ _ his ?_
  intro j _ hjk
  unfold cluRowF ilvRowF
  by_cases h1 : j < i
  · have : j < i + 1 := by omega
    simp [h1, this]
  · have : ¬ j < i + 1 := by omega
    simp [h1, this]

/-- "Append the sequence" for row `i` -/
theorem cluAppend_mid (cfg : Cfg) (enc : UInt8 → UInt8) (txt : Nat → Bytes) (m : Msa) (pos i : Nat) (hi : i < m.nseq)
    (hpos : pos < m.alen) (hlenT : (txt i).length = m.alen)
    (hmaps : ∀ t ∈ txt i, mapByte cfg.inmap t = (.ok, some (enc t)))
    (st : BlkSt) (hst : CluMid cfg enc txt m pos i st) :
    ∃ st', blkAppend cfg st (((txt i).drop pos).take 60) = .inl st' ∧ st'.phase = .inblock ∧ CluRt cfg enc txt m pos (i + 1) st' := by
  have hrow : st.rows[st.idx]? = some (phyRowAt cfg enc txt pos i) := by
    rw [hst.rows, hst.idx, rangeMap_get _ _ _ hst.sqi]; simp [cluRowF, hi, ilvRowF]
  have hlen : rowLen cfg.digital (phyRowAt cfg enc txt pos i) = st.alen := by
    rw [hst.alen, rowLen_phyRowAt, List.length_take, hlenT]; omega
  have hcat := phy_cat_plain cfg enc (phyRowAt cfg enc txt pos i) (((txt i).drop pos).take 60)
    (buf_ne_nil _ _ (by rw [hlenT]; exact hpos)) (fun t ht => hmaps t (mem_of_drop_take ht))
  rw [curCodes_phyRowAt, ← List.map_append, ← take_step] at hcat
  have hl : (((txt i).take (pos + 60)).map enc).length = st.alen + (((txt i).drop pos).take 60).length := by
    rw [hst.alen]; simp [hlenT]; omega
  refine ⟨_, blkAppend_ok cfg st _ _ _ hrow hlen hcat hl, hst.phase, ?_⟩
  exact
    { alen := hst.alen
      idx := by show st.idx + 1 = i + 1; rw [hst.idx]
      nb := hst.nb, nseq := hst.nseq, names := hst.names, sq1 := hst.sq1, sqn := hst.sqn
      rows := by
        show st.rows.set st.idx _ = _
        rw [hst.rows, hst.idx]
        exact cluRowF_set cfg enc txt m pos i _ hi hst.sqi
      blk := fun _ => ⟨hst.bss, hst.bsl⟩ }

/-- one row line of a block -/
theorem cluSeqLine_row (abc : Option Abc) (cfg : Cfg) (enc : UInt8 → UInt8) (txt : Nat → Bytes) (m : Msa)
    (h : ClustalWritable abc cfg enc txt m) (pos : Nat) (hpos : pos < m.alen) (i : Nat) (hi : i < m.nseq)
    (st : BlkSt) (hst : CluRt cfg enc txt m pos i st) :
    ∃ st', clustalSeqLine cfg st (cluRowLine abc m i pos) = .inl st' ∧ st'.phase = .inblock ∧ CluRt cfg enc txt m pos (i + 1) st' := by
  have hnm := h.name_ok i hi
  have hlenT := h.txt_len i hi
  have hw : (m.names.getD i []).length ≤ maxWidth m.names := maxWidth_ge m.names i hi
  have hchlen : (((txt i).drop pos).take 60).length = blockLen m pos := by
    simp [blockLen, hlenT]; omega
  have hss : (m.names.getD i []).length + (maxWidth m.names - (m.names.getD i []).length + 1) = maxWidth m.names + 1 := by omega
  have hline := clustalSeqLine_line cfg st (m.names.getD i []) (((txt i).drop pos).take 60)
    (maxWidth m.names - (m.names.getD i []).length) hnm.1 (fun c hc => (hnm.2 c hc).1)
    (buf_ne_nil _ _ (by rw [hlenT]; exact hpos))
    (fun c hc => (graph_notSpace c (h.txt_sym i hi c (mem_of_drop_take hc)).2).1)
    (fun h0 => by rw [hss, hchlen]; exact hst.blk (by rw [← hst.idx]; exact h0))
  rw [hss, hchlen] at hline
  obtain ⟨st2, hs2, hmid⟩ := cluName_mid cfg enc txt m pos i hi (cstr_id _ (fun c hc => (hnm.2 c hc).2)) st hst
  obtain ⟨st3, hs3, hph, hrt⟩ := cluAppend_mid cfg enc txt m pos i hi hpos hlenT (fun t ht => (h.txt_sym i hi t ht).1) st2 hmid
  refine ⟨st3, ?_, hph, hrt⟩
  rw [cluRowLine_shape abc cfg enc txt m h i hi pos, hline]
  unfold blkStore
  rw [hs2]
  exact hs3

/-! ## the steps of a block -/

theorem cluRowLine_notBlank (abc : Option Abc) (cfg : Cfg) (enc : UInt8 → UInt8) (txt : Nat → Bytes) (m : Msa)
    (h : ClustalWritable abc cfg enc txt m) (i : Nat) (hi : i < m.nseq) (pos : Nat) : isBlankLine (cluRowLine abc m i pos) = false := by
  obtain ⟨hne, hc⟩ := h.name_ok i hi
  rw [cluRowLine_shape abc cfg enc txt m h i hi pos]
  obtain ⟨n0, nt, hnm⟩ := List.exists_cons_of_ne_nil hne
  have h0 := hc n0 (by rw [hnm]; simp)
  have hd : inDelim blankTab n0 = false := by
    have h32 : n0 ≠ 32 := fun e => by rw [e] at h0; exact absurd h0.1 (by decide)
    have h9 : n0 ≠ 9 := fun e => by rw [e] at h0; exact absurd h0.1 (by decide)
    simp [inDelim, blankTab, h0.2, h32, h9]
  rw [hnm]
  simp [isBlankLine, hd]

/-- a row after the first of its block does not look like a consensus line -/
theorem cluRowLine_notCons (abc : Option Abc) (cfg : Cfg) (enc : UInt8 → UInt8) (txt : Nat → Bytes) (m : Msa)
    (h : ClustalWritable abc cfg enc txt m) (i : Nat) (h1 : 1 ≤ i) (hi : i < m.nseq) (pos : Nat) (hpos : pos < m.alen) :
    memspn (cluRowLine abc m i pos) bConsensus < (cluRowLine abc m i pos).length := by
  obtain ⟨c, hc, hd⟩ := h.notcons i h1 hi pos hpos
  refine memspn_lt_of_mem _ _ c ?_ hd
  rw [cluRowLine_shape abc cfg enc txt m h i hi pos]
  rcases hc with hc | hc
  · exact List.mem_append_left _ (List.mem_append_left _ hc)
  · exact List.mem_append_right _ hc

theorem clustalStep_inblock_row (like : Bool) (cfg : Cfg) (st : BlkSt) (l : Bytes) (hp : st.phase = .inblock)
    (hl : memspn l bConsensus < l.length) : clustalStep like cfg st l = clustalSeqLine cfg st l := by
  unfold clustalStep
  rw [hp]
  simp only [hl, if_true]

/-- the first `i` row lines of the block starting at `pos` -/
theorem cluSteps_rows (like : Bool) (abc : Option Abc) (cfg : Cfg) (enc : UInt8 → UInt8) (txt : Nat → Bytes) (m : Msa)
    (h : ClustalWritable abc cfg enc txt m) (pos : Nat) (hpos : pos < m.alen) (st st0 : BlkSt)
    (hst0 : CluRt cfg enc txt m pos 0 st0)
    (hfirst : clustalStep like cfg st (cluRowLine abc m 0 pos) = clustalSeqLine cfg st0 (cluRowLine abc m 0 pos)) :
    ∀ i, 1 ≤ i → i ≤ m.nseq →
      ∃ st', stepsFrom (clustalStep like cfg) st ((List.range i).map fun idx => cluRowLine abc m idx pos) = .inl st' ∧
        st'.phase = .inblock ∧ CluRt cfg enc txt m pos i st' := by
  intro i
  induction i with
  | zero => intro h0; omega
  | succ i ih =>
    intro _ hi
    by_cases hi0 : i = 0
    · subst hi0
      obtain ⟨st1, hs1, hp1, hst1⟩ := cluSeqLine_row abc cfg enc txt m h pos hpos 0 (by omega) st0 hst0
      refine ⟨st1, ?_, hp1, hst1⟩
      have e1 : (List.range (0 + 1)).map (fun idx => cluRowLine abc m idx pos) = [cluRowLine abc m 0 pos] := rfl
      rw [e1]
      simp only [stepsFrom, hfirst, hs1]
    · obtain ⟨st1, hs1, hp1, hst1⟩ := ih (by omega) (by omega)
      obtain ⟨st2, hs2, hp2, hst2⟩ := cluSeqLine_row abc cfg enc txt m h pos hpos i (by omega) st1 hst1
      refine ⟨st2, ?_, hp2, hst2⟩
      rw [List.range_succ, List.map_append, stepsFrom_append (clustalStep like cfg) _ _ st st1 hs1]
      simp only [List.map_cons, List.map_nil, stepsFrom]
      rw [clustalStep_inblock_row like cfg st1 _ hp1 (cluRowLine_notCons abc cfg enc txt m h i (by omega) (by omega) pos hpos), hs2]

/-- the characters of the consensus line -/
theorem consensusLine_chars (abc : Option Abc) (m : Msa) : ∀ c ∈ consensusLine abc m, c = 42 ∨ c = 58 ∨ c = 46 ∨ c = 32 := by
  intro c hc
  cases abc with
  | none => rcases textConsensusLine_chars m c hc with e | e <;> simp [e]
  | some a =>
    simp only [consensusLine, digitalConsensusLine, List.mem_map] at hc
    obtain ⟨_, _, rfl⟩ := hc
    exact digitalConsChar_range a _

theorem cluConsLine_chars (abc : Option Abc) (m : Msa) (pos : Nat) : ∀ c ∈ cluConsLine abc m pos, c = 42 ∨ c = 58 ∨ c = 46 ∨ c = 32 := by
  intro c hc
  simp only [cluConsLine, padRight, strChunk, cstr, List.mem_append, List.mem_replicate, List.mem_singleton, List.nil_append] at hc
  rcases hc with (hc | hc) | hc
  · simp [hc.2]
  · simp [hc]
  · exact consensusLine_chars abc m c (mem_of_drop_take ((List.takeWhile_sublist _).subset hc))

theorem clustalStep_cons (like : Bool) (abc : Option Abc) (cfg : Cfg) (st : BlkSt) (m : Msa) (pos : Nat) (hp : st.phase = .inblock)
    (hn : st.idx = st.nseq) : clustalStep like cfg st (cluConsLine abc m pos) = .inl { st with phase := .between } := by
  have hall : memspn (cluConsLine abc m pos) bConsensus = (cluConsLine abc m pos).length := by
    apply memspn_all
    intro c hc
    rcases cluConsLine_chars abc m pos c hc with e | e | e | e <;> subst e <;> decide
  have hne : (st.idx != st.nseq) = false := by rw [hn]; simp
  unfold clustalStep
  rw [hp]
  simp only [hall, Nat.lt_irrefl, if_false, hne, Bool.false_eq_true]

/-- a whole block: the blank line, the rows, the consensus line -/
theorem cluSteps_block (like : Bool) (abc : Option Abc) (cfg : Cfg) (enc : UInt8 → UInt8) (txt : Nat → Bytes) (m : Msa)
    (h : ClustalWritable abc cfg enc txt m) (pos : Nat) (hpos : pos < m.alen) (st st0 : BlkSt)
    (hst0 : CluRt cfg enc txt m pos 0 st0)
    (hblank : clustalStep like cfg st [] = .inl st)
    (hfirst : clustalStep like cfg st (cluRowLine abc m 0 pos) = clustalSeqLine cfg st0 (cluRowLine abc m 0 pos)) :
    ∃ st', stepsFrom (clustalStep like cfg) st (clustalBlockLines abc m (maxWidth m.names) (consensusLine abc m) pos) = .inl st' ∧
      st'.phase = .between ∧ CluRt cfg enc txt m pos m.nseq st' := by
  obtain ⟨st1, hs1, hp1, hst1⟩ := cluSteps_rows like abc cfg enc txt m h pos hpos st st0 hst0 hfirst m.nseq h.n1 (Nat.le_refl _)
  have hidx : st1.idx = st1.nseq := by rw [hst1.idx, hst1.nseq]; split <;> rfl
  refine ⟨{ st1 with phase := .between }, ?_, rfl, ?_⟩
  · rw [clustalBlockLines_eq]
    simp only [stepsFrom, hblank]
    rw [stepsFrom_append (clustalStep like cfg) _ _ st st1 hs1]
    simp only [stepsFrom, clustalStep_cons like abc cfg st1 m pos hp1 hidx]
  · exact { alen := hst1.alen, idx := hst1.idx, nb := hst1.nb, nseq := hst1.nseq, names := hst1.names, sq1 := hst1.sq1,
            sqn := hst1.sqn, rows := hst1.rows, blk := hst1.blk }

/-! ## from block to block -/

theorem clustalStep_between_blank (like : Bool) (cfg : Cfg) (st : BlkSt) (hp : st.phase = .between) :
    clustalStep like cfg st [] = .inl st := by
  unfold clustalStep
  rw [hp]
  simp [isBlankLine]

theorem clustalStep_between_row (like : Bool) (cfg : Cfg) (st : BlkSt) (l : Bytes) (hp : st.phase = .between)
    (hl : isBlankLine l = false) :
    clustalStep like cfg st l = clustalSeqLine cfg { st with alen := st.alen + st.bsl, nblocks := st.nblocks + 1, idx := 0 } l := by
  unfold clustalStep
  rw [hp]
  simp only [hl, Bool.false_eq_true, if_false]

/-- the state in front of the next block -/
theorem cluRt_next (cfg : Cfg) (enc : UInt8 → UInt8) (txt : Nat → Bytes) (m : Msa) (pos : Nat) (hn1 : 1 ≤ m.nseq)
    (hnext : pos + 60 < m.alen) (st : BlkSt) (hst : CluRt cfg enc txt m pos m.nseq st) :
    CluRt cfg enc txt m (pos + 60) 0 { st with alen := st.alen + st.bsl, nblocks := st.nblocks + 1, idx := 0 } := by
  have hblk := hst.blk (by omega)
  exact
    { alen := by show st.alen + st.bsl = pos + 60; rw [hst.alen, hblk.2]; exact blockLen_full m pos (by omega)
      idx := rfl
      nb := by show (st.nblocks + 1 == 0) = decide (pos + 60 = 0); simp
      nseq := by show st.nseq = _; rw [hst.nseq]; simp
      names := by
        show st.names = _
        rw [hst.names]
        have : m.names.take m.nseq = m.names := List.take_length
        simp [this]
      sq1 := hst.sq1, sqn := hst.sqn
      rows := by
        show st.rows = _
        rw [hst.rows]
        apply rangeMap_congr
        intro j _
        unfold cluRowF
        by_cases hj : j < m.nseq
        · simp [hj, ilvRowF]
        · simp [hj]
      blk := fun h0 => absurd rfl h0 }

/-- all the further blocks -/
theorem cluSteps_blocks (like : Bool) (abc : Option Abc) (cfg : Cfg) (enc : UInt8 → UInt8) (txt : Nat → Bytes) (m : Msa)
    (h : ClustalWritable abc cfg enc txt m) :
    ∀ (fuel pos : Nat) (st : BlkSt), m.alen - pos ≤ fuel → pos < m.alen → st.phase = .between → CluRt cfg enc txt m pos m.nseq st →
      ∃ st' pos', stepsFrom (clustalStep like cfg) st
          ((blockStartsFrom m.alen 60 (pos + 60)).flatMap (clustalBlockLines abc m (maxWidth m.names) (consensusLine abc m))) = .inl st' ∧
        st'.phase = .between ∧ CluRt cfg enc txt m pos' m.nseq st' ∧ pos' < m.alen ∧ m.alen ≤ pos' + 60 := by
  intro fuel
  induction fuel with
  | zero => intro pos st hf hp _ _; omega
  | succ fuel ih =>
    intro pos st hf hp hph hst
    by_cases hlt : pos + 60 < m.alen
    · have hc : pos + 60 < m.alen ∧ 0 < 60 := ⟨hlt, by decide⟩
      rw [blockStartsFrom]
      simp only [hc, and_self, dite_true, List.flatMap_cons]
      obtain ⟨st2, hs2, hp2, hst2⟩ := cluSteps_block like abc cfg enc txt m h (pos + 60) hlt st _
        (cluRt_next cfg enc txt m pos h.n1 hlt st hst) (clustalStep_between_blank like cfg st hph)
        (clustalStep_between_row like cfg st _ hph (cluRowLine_notBlank abc cfg enc txt m h 0 h.n1 (pos + 60)))
      rw [stepsFrom_append (clustalStep like cfg) _ _ st st2 hs2]
      exact ih (pos + 60) st2 (by omega) hlt hp2 hst2
    · have hge : ¬ (pos + 60 < m.alen ∧ 0 < 60) := fun hh => hlt hh.1
      rw [blockStartsFrom]
      simp only [hge, dite_false, List.flatMap_nil, stepsFrom]
      exact ⟨st, pos, rfl, hph, hst, hp, by omega⟩

/-- end of input after the last block -/
theorem cluFinish_after (cfg : Cfg) (enc : UInt8 → UInt8) (txt : Nat → Bytes) (m : Msa)
    (hn1 : 1 ≤ m.nseq) (hlenT : ∀ i, i < m.nseq → (txt i).length = m.alen)
    (hrow : ∀ i, i < m.nseq → m.stored i = mkRow cfg.digital ((txt i).map enc))
    (pos : Nat) (hp : pos < m.alen) (hlast : m.alen ≤ pos + 60)
    (st : BlkSt) (hph : st.phase = .between) (hst : CluRt cfg enc txt m pos m.nseq st) :
    clustalFinish cfg st = .ok (clustalProject cfg m) := by
  have hblk := hst.blk (by omega)
  have hal : st.alen + st.bsl = m.alen := by rw [hst.alen, hblk.2]; exact blockLen_last m pos hp hlast
  have hnseq : st.nseq = m.nseq := by rw [hst.nseq]; split <;> rfl
  have hnames : st.names = m.names := by
    rw [hst.names]
    have : m.names.take m.nseq = m.names := List.take_length
    split
    · exact this
    · rfl
  have hsqn := hst.sqn
  rw [hnseq] at hsqn
  have hrows : allSome (st.rows.take m.nseq) = some ((List.range m.nseq).map m.stored) := by
    rw [hst.rows, ← List.map_take, List.take_range, Nat.min_eq_left hsqn]
    apply allSome_rangeMap
    intro j hj
    have hl := hlenT j hj
    simp only [cluRowF, hj, if_true, ilvRowF]
    rw [phyRowAt_full _ _ _ _ _ (by omega) (by omega), hrow j hj]
  have hnl2 : m.names.length = m.nseq := rfl
  unfold clustalFinish
  rw [hph]
  unfold blkResult
  simp only [hnseq, hnames, hal, Bool.false_eq_true, if_false, hrows, List.length_map, List.length_range, bne_self_eq_false,
    clustalProject, hnl2]

/-! ## the header line -/

/-- what `clustalStep` asks of the first non-blank line -/
def cluHdrOk (like : Bool) (line : Bytes) : Bool :=
  !isBlankLine line &&
    match memtok line blankTab with
    | none => false
    | some (tok, rest) => (like || memstrpfx tok bCLUSTAL) && memstrcontains rest bAlignment

theorem clustalStep_header (like : Bool) (cfg : Cfg) (st : BlkSt) (line : Bytes) (hp : st.phase = .lead)
    (h : cluHdrOk like line = true) : clustalStep like cfg st line = .inl { st with phase := .hdr } := by
  unfold cluHdrOk at h
  simp only [Bool.and_eq_true, Bool.not_eq_true'] at h
  obtain ⟨hb, h2⟩ := h
  unfold clustalStep
  rw [hp]
  simp only [hb, Bool.false_eq_true, if_false]
  cases hm : memtok line blankTab with
  | none => rw [hm] at h2; cases h2
  | some tr =>
    obtain ⟨tok, rest⟩ := tr
    rw [hm] at h2
    simp only [Bool.and_eq_true, Bool.or_eq_true] at h2
    have h3 : (!like && !memstrpfx tok bCLUSTAL) = false := by
      rcases h2.1 with e | e <;> simp [e]
    simp only [h3, Bool.false_eq_true, if_false, h2.2, Bool.not_true]

theorem cluHdrOk_written : ∀ like : Bool, cluHdrOk like (clustalHeader like easelVersion) = true := by decide +kernel

theorem clustalHeader_lineOk : ∀ like : Bool, lineOk (clustalHeader like easelVersion) := by
  intro like
  cases like <;> exact ⟨by decide +kernel, by decide +kernel⟩

theorem clustalStep_hdr_blank (like : Bool) (cfg : Cfg) (st : BlkSt) (hp : st.phase = .hdr) :
    clustalStep like cfg st [] = .inl st := by
  unfold clustalStep
  rw [hp]
  simp [isBlankLine]

theorem clustalStep_hdr_row (like : Bool) (cfg : Cfg) (st : BlkSt) (l : Bytes) (hp : st.phase = .hdr)
    (hl : isBlankLine l = false) :
    clustalStep like cfg st l = clustalSeqLine cfg { st with idx := 0 } l := by
  unfold clustalStep
  rw [hp]
  simp only [hl, Bool.false_eq_true, if_false]

theorem cluRt_init (cfg : Cfg) (enc : UInt8 → UInt8) (txt : Nat → Bytes) (m : Msa) :
    CluRt cfg enc txt m 0 0 { ({} : BlkSt) with phase := .hdr, idx := 0 } :=
  { alen := rfl, idx := rfl, nb := rfl, nseq := rfl, names := by simp, sq1 := by decide, sqn := by decide
    rows := rangeMap_const _ _ _ (fun j => cluRowF_zero_ge cfg enc txt m 0 j (Nat.zero_le _))
    blk := fun h0 => absurd rfl h0 }

/-! ## the round trip -/

/-- **Clustal / Clustal-like round trip on lines** -/
theorem clustalRead_writeLines (like : Bool) (abc : Option Abc) (cfg : Cfg) (enc : UInt8 → UInt8) (txt : Nat → Bytes) (m : Msa)
    (h : ClustalWritable abc cfg enc txt m) :
    clustalRead like cfg (clustalLines like easelVersion abc m) = (.ok (clustalProject cfg m), []) := by
  have hn := h.n1
  have ha := h.alen1
  have hhdr := clustalStep_header like cfg {} _ rfl (cluHdrOk_written like)
  obtain ⟨st1, hs1, hp1, hst1⟩ := cluSteps_block like abc cfg enc txt m h 0 (by omega) { ({} : BlkSt) with phase := .hdr } _
    (cluRt_init cfg enc txt m) (clustalStep_hdr_blank like cfg _ rfl)
    (clustalStep_hdr_row like cfg _ _ rfl (cluRowLine_notBlank abc cfg enc txt m h 0 hn 0))
  obtain ⟨st2, pos', hs2, hp2, hst2, hp', hlast⟩ := cluSteps_blocks like abc cfg enc txt m h m.alen 0 st1 (by omega) (by omega) hp1 hst1
  have hbs : blockStarts m.alen clustalCpl = 0 :: blockStartsFrom m.alen 60 (0 + 60) := blockStarts_cons m.alen ha
  have hall : stepsFrom (clustalStep like cfg) {} (clustalLines like easelVersion abc m) = .inl st2 := by
    unfold clustalLines
    simp only [stepsFrom, hhdr, hbs, List.flatMap_cons]
    rw [stepsFrom_append (clustalStep like cfg) _ _ _ st1 hs1]
    exact hs2
  unfold clustalRead
  have := runLines_append_inl (clustalStep like cfg) (clustalFinish cfg) _ [] {} st2 hall
  rw [List.append_nil] at this
  rw [this]
  simp only [runLines, cluFinish_after cfg enc txt m hn h.txt_len h.row_enc pos' hp' hlast st2 hp2 hst2]

/-! ## the written lines survive `esl_buffer_GetLine` -/

theorem lineOk_of_notLFCR (l : Bytes) (h : ∀ c ∈ l, c ≠ 10 ∧ c ≠ 13) : lineOk l :=
  ⟨fun h10 => (h 10 h10).1 rfl, fun h13 => (h 13 (List.mem_of_getLast? h13)).2 rfl⟩

theorem cluRowLine_ok (abc : Option Abc) (cfg : Cfg) (enc : UInt8 → UInt8) (txt : Nat → Bytes) (m : Msa)
    (h : ClustalWritable abc cfg enc txt m) (i : Nat) (hi : i < m.nseq) (pos : Nat) : lineOk (cluRowLine abc m i pos) := by
  apply lineOk_of_notLFCR
  intro c hc
  have hsp : isSpace c = false ∨ c = 32 := by
    rw [cluRowLine_shape abc cfg enc txt m h i hi pos] at hc
    rcases List.mem_append.mp hc with hc | hc
    · rcases List.mem_append.mp hc with hc | hc
      · exact Or.inl ((h.name_ok i hi).2 c hc).1
      · exact Or.inr (List.mem_replicate.mp hc).2
    · exact Or.inl (graph_notSpace c (h.txt_sym i hi c (mem_of_drop_take hc)).2).1
  rcases hsp with e | e
  · constructor <;> (intro e2; rw [e2] at e; exact absurd e (by decide))
  · rw [e]; decide

theorem cluConsLine_ok (abc : Option Abc) (m : Msa) (pos : Nat) : lineOk (cluConsLine abc m pos) := by
  apply lineOk_of_notLFCR
  intro c hc
  rcases cluConsLine_chars abc m pos c hc with e | e | e | e <;> subst e <;> decide

theorem clustalLines_ok (like : Bool) (abc : Option Abc) (cfg : Cfg) (enc : UInt8 → UInt8) (txt : Nat → Bytes) (m : Msa)
    (h : ClustalWritable abc cfg enc txt m) : ∀ l ∈ clustalLines like easelVersion abc m, lineOk l := by
  intro l hl
  unfold clustalLines at hl
  rcases List.mem_cons.mp hl with hl | hl
  · subst hl; exact clustalHeader_lineOk like
  · obtain ⟨pos, _, hl⟩ := List.mem_flatMap.mp hl
    rw [clustalBlockLines_eq] at hl
    rcases List.mem_cons.mp hl with hl | hl
    · subst hl; exact ⟨by simp, by simp⟩
    · rcases List.mem_append.mp hl with hl | hl
      · obtain ⟨i, hi, hl⟩ := List.mem_map.mp hl
        subst hl
        exact cluRowLine_ok abc cfg enc txt m h i (List.mem_range.mp hi) pos
      · rw [List.mem_singleton.mp hl]; exact cluConsLine_ok abc m pos

/-- **Clustal / Clustal-like round trip on bytes** -/
theorem clustalRead_write (like : Bool) (abc : Option Abc) (cfg : Cfg) (enc : UInt8 → UInt8) (txt : Nat → Bytes) (m : Msa)
    (h : ClustalWritable abc cfg enc txt m) :
    clustalRead like cfg (splitLines (clustalWrite like abc m)) = (.ok (clustalProject cfg m), []) := by
  unfold clustalWrite clustalWriteV joinLF
  rw [splitLines_join _ (clustalLines_ok like abc cfg enc txt m h)]
  exact clustalRead_writeLines like abc cfg enc txt m h

end EaselModel.Msafile
